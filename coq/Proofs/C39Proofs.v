(* Proofs for C39 (OnceFunction): the concrete model (bytes, memcpy moves, ledgers) simulates the abstract ownership
   protocol; consequences: invoked at most once and exactly when called, destroyed exactly once on call or
   cleanupNotRun, storage aligned, moves transfer the obligations, what happens when neither is called. *)
From Coq Require Import ZArith List Bool Lia.
From DV Require Import Base.MachInt Base.Life Model.BitMathModel Proofs.BitMathProofs Model.OnceFnModel.
Import ListNotations.
Local Open Scope Z_scope.

(* ============================================================================================ arithmetic *)
Lemma pow2_divide a b : 0 <= a <= b -> (2 ^ a | 2 ^ b).
Proof. intros H. exists (2 ^ (b - a)). rewrite <- Z.pow_add_r by lia. f_equal. lia. Qed.

Lemma alignedb_divide a al : 0 < al -> (al | a) -> alignedb a al = true.
Proof. intros P D. unfold alignedb. apply Z.eqb_eq. apply Z.mod_divide; [lia | exact D]. Qed.

Lemma type_ok_facts sz al : type_ok sz al = true ->
  0 < al /\ al = 2 ^ Z.log2 al /\ 0 < sz /\ sz <= 2 ^ 40 /\ al <= 2 ^ 40.
Proof.
  unfold type_ok. intros H. repeat (apply andb_true_iff in H; destruct H as [H ?]).
  repeat match goal with
  | X : (_ <? _) = true |- _ => apply Z.ltb_lt in X
  | X : (_ <=? _) = true |- _ => apply Z.leb_le in X
  | X : (_ =? _) = true |- _ => apply Z.eqb_eq in X
  end. auto.
Qed.

(* inline storage: buf_ is 64-aligned and the alignment of an inline functor divides 64 *)
Lemma inline_align_divides sz al : type_ok sz al = true -> fits_inline sz al = true -> (al | 64).
Proof.
  intros T F. destruct (type_ok_facts _ _ T) as [P [E _]].
  unfold fits_inline in F. apply andb_true_iff in F. destruct F as [_ F]. apply Z.leb_le in F.
  rewrite E. change 64 with (2 ^ 6). apply pow2_divide. split; [apply Z.log2_nonneg|].
  assert (L : Z.log2 al <= Z.log2 64) by (apply Z.log2_le_mono; exact F). exact L.
Qed.

(* spill storage: the block is aligned to its size class, which is a power of two >= alignof *)
Lemma spill_block_aligned o sz al b : oracle_ok o -> type_ok sz al = true ->
  let K := alloc_size sz al in
  let a := if from_pool K then pool_addr o K b else am_base (malloc_ret o b) K in
  0 < K /\ (al | K) /\ (K | a).
Proof.
  intros [_ [OP OM]] T. destruct (type_ok_facts _ _ T) as [P [E [PS [BS BA]]]]. cbv zeta.
  unfold alloc_size. set (v := Z.max sz al).
  assert (Hv : 1 <= v <= 2 ^ 63) by (unfold v; split; [lia|]; apply Z.max_lub; lia).
  assert (Hv40 : v <= 2 ^ 40) by (unfold v; apply Z.max_lub; lia).
  rewrite (nextPow2_m_log2_up v Hv).
  assert (L0 : 0 <= Z.log2_up v) by apply Z.log2_up_nonneg.
  assert (L40 : Z.log2_up v <= 40) by (apply Z.log2_up_le_pow2; lia).
  assert (KP : 0 < 2 ^ Z.log2_up v) by (apply Z.pow_pos_nonneg; lia).
  split; [exact KP|]. split.
  - rewrite E. apply pow2_divide. split; [apply Z.log2_nonneg|].
    (* log2 al <= log2_up v because al <= v <= 2^(log2_up v) *)
    assert (A1 : al <= v) by (unfold v; lia).
    transitivity (Z.log2 v); [apply Z.log2_le_mono; exact A1 | apply Z.le_log2_log2_up].
  - destruct (from_pool (2 ^ Z.log2_up v)) eqn:FP; [apply OP|].
    unfold from_pool, kMaxSmallBufferSize in FP. apply Z.leb_gt in FP.
    assert (K40 : 2 ^ Z.log2_up v <= 2 ^ 40) by (apply Z.pow_le_mono_r; lia).
    assert (M : Z.max (2 ^ Z.log2_up v) 8 = 2 ^ Z.log2_up v) by lia.
    pose proof (OM b) as [M0 M1].
    pose proof (am_base_spec (Z.log2_up v) (malloc_ret o b) L0 M0) as S. cbv zeta in S. rewrite M in S.
    rewrite S.
    + exists (malloc_ret o b / 2 ^ Z.log2_up v + 1). ring.
    + assert (2 ^ 40 < 2 ^ 63) by (apply Z.pow_lt_mono_r; lia).
      assert (2 ^ 64 = 2 * 2 ^ 63) by reflexivity. lia.
Qed.

(* ============================================================================================ option lists *)
Section NLists.
Context {A : Type}.
Implicit Types l : list (option A).

Lemma nset_length l i x : length (nset l i x) = length l.
Proof. revert i; induction l as [|y r IH]; intros [|k]; simpl; auto. Qed.

Lemma nget_nset_same l i x : (i < length l)%nat -> nget (nset l i x) i = x.
Proof.
  unfold nget. revert i; induction l as [|y r IH]; intros [|k]; simpl; intros H; try lia; auto.
  apply IH. lia.
Qed.

Lemma nget_nset_other l i j x : i <> j -> nget (nset l i x) j = nget l j.
Proof.
  unfold nget. revert i j; induction l as [|y r IH]; intros [|k] [|m]; simpl; intros H; auto; try congruence.
Qed.

Lemma nget_nset l i j x : (i < length l)%nat -> nget (nset l i x) j = if Nat.eqb i j then x else nget l j.
Proof.
  intros L. destruct (Nat.eqb i j) eqn:E.
  - apply Nat.eqb_eq in E. subst. apply nget_nset_same. exact L.
  - apply Nat.eqb_neq in E. apply nget_nset_other. exact E.
Qed.

Lemma nget_in_range l i v : nget l i = Some v -> (i < length l)%nat.
Proof.
  unfold nget. intros H. destruct (Nat.lt_ge_cases i (length l)) as [L|L]; [exact L|].
  rewrite nth_overflow in H by exact L. discriminate.
Qed.

Lemma nset_id l i : nset l i (nget l i) = l.
Proof. unfold nget. revert i; induction l as [|y r IH]; intros [|k]; simpl; auto. f_equal. apply IH. Qed.

Lemma nget_repeat_none n i : nget (repeat (@None A) n) i = None.
Proof. unfold nget. revert i; induction n as [|n IH]; intros [|k]; simpl; auto. Qed.

Lemma in_range_true (l : list (option A)) i : in_range l i = true <-> (i < length l)%nat.
Proof. unfold in_range. apply Nat.ltb_lt. Qed.
End NLists.

(* number of owning variables *)
Definition is_owner (v : avar) : Z := match v with Some (Some _) => 1 | _ => 0 end.

Lemma owned_length_cons v av : Z.of_nat (length (owned (v :: av))) = is_owner v + Z.of_nat (length (owned av)).
Proof. unfold owned. simpl. rewrite app_length, Nat2Z.inj_add. destruct v as [[t|]|]; simpl; lia. Qed.

Lemma owned_length_nset av i x : (i < length av)%nat ->
  Z.of_nat (length (owned (nset av i x))) = Z.of_nat (length (owned av)) - is_owner (nget av i) + is_owner x.
Proof.
  revert i; induction av as [|v r IH]; intros [|k] L; simpl in L; try lia.
  - simpl nset. rewrite !owned_length_cons. unfold nget; simpl. lia.
  - simpl nset. rewrite !owned_length_cons. rewrite IH by lia. unfold nget; simpl. lia.
Qed.

(* ============================================================================================ simulation *)
Definition is_spill (p : payload) : bool := match p_kind p with SSpill _ => true | SInline => false end.

(* facts about a stored callable that make its events aligned *)
Definition pay_ok (p : payload) : Prop :=
  0 < p_al p /\
  match p_kind p with
  | SInline => (p_al p | 64)
  | SSpill K => 0 < K /\ (p_al p | K) /\ (K | p_addr p)
  end.

Definition owner (vs : list var) (av : list avar) (i : nat) (t : Z) (p : payload) : Prop :=
  nget av i = Some (Some t) /\ nget vs i = Some (Some p).

(* the bytes of an owning variable describe a live callable in live storage *)
Definition good (led heap : ledger) (p : payload) (t : Z) : Prop :=
  p_tag p = t /\ lget led (p_ser p) = Alive /\ pay_ok p /\ (is_spill p = true -> lget heap (p_blk p) = Alive).

(* [abl]: blocks of abandoned (leaked) callables *)
Record sim (s : state) (av : list avar) (abl : list Z) : Prop := mkSim {
  sim_len : length (st_vars s) = length av;
  sim_scope : forall i, nget av i = None <-> nget (st_vars s) i = None;
  sim_own : forall i t, nget av i = Some (Some t) ->
              exists p, nget (st_vars s) i = Some (Some p) /\ good (st_led s) (st_heap s) p t;
  sim_distinct : forall i j ti tj pi pj, i <> j -> owner (st_vars s) av i ti pi -> owner (st_vars s) av j tj pj ->
              p_ser pi <> p_ser pj /\ (is_spill pi = true -> is_spill pj = true -> p_blk pi <> p_blk pj);
  sim_fresh_led : forall id, st_ser s <= id -> lget (st_led s) id = Unborn;
  sim_fresh_heap : forall b, st_blk s <= b -> lget (st_heap s) b = Unborn;
  sim_live_heap : forall b, is_live (lget (st_heap s) b) = true ->
              (exists i t p, owner (st_vars s) av i t p /\ is_spill p = true /\ p_blk p = b) \/ In b abl;
  sim_errs : l_errs (st_led s) = [] /\ l_errs (st_heap s) = [];
  sim_linv : linv (st_led s) /\ linv (st_heap s)
}.

(* constructions minus destructor calls minus callables still owned: grows exactly with abandoned callables *)
Definition cnt (s : state) (av : list avar) : Z :=
  n_ctor (st_led s) - n_dtor (st_led s) - Z.of_nat (length (owned av)).

Lemma sim_init nv : sim (init nv) (ainit nv) [].
Proof.
  unfold init, ainit. constructor; simpl.
  - rewrite !repeat_length. reflexivity.
  - intros i. rewrite !nget_repeat_none. tauto.
  - intros i t H. rewrite nget_repeat_none in H. discriminate.
  - intros i j ti tj pi pj _ [H _]. rewrite nget_repeat_none in H. discriminate.
  - reflexivity.
  - reflexivity.
  - intros b H. discriminate.
  - split; reflexivity.
  - split; apply linv0.
Qed.

(* the ledger part of OnceFunction(F&&): the caller's functor s0, the stored copy s1 *)
Lemma make_chain (byCopy : bool) g s0 :
  l_errs g = [] -> linv g -> (forall id, s0 <= id -> lget g id = Unborn) ->
  let k := if byCopy then KCopy else KMove in
  let g1 := construct KValue s0 g in
  let g2 := if byCopy then use s0 g1 else move_from s0 g1 in
  let g' := destroy s0 (construct k (s0 + 1) g2) in
  l_errs g' = [] /\ linv g' /\
  (forall id, lget g' id = if s0 =? id then Dead else if s0 + 1 =? id then Alive else lget g id) /\
  n_ctor g' = n_ctor g + 2 /\ n_dtor g' = n_dtor g + 1.
Proof.
  intros E LI FR. cbv zeta.
  assert (U0 : is_live (lget g s0) = false) by (rewrite FR by lia; reflexivity).
  destruct (construct_fact KValue s0 g E U0) as [E1 G1].
  set (g1 := construct KValue s0 g) in *.
  assert (LI1 : linv g1) by (apply construct_linv; exact LI).
  assert (X : exists g2, (if byCopy then use s0 g1 else move_from s0 g1) = g2 /\ l_errs g2 = [] /\ linv g2 /\
            is_live (lget g2 s0) = true /\ (forall id, (s0 =? id) = false -> lget g2 id = lget g1 id) /\
            n_ctor g2 = n_ctor g1 /\ n_dtor g2 = n_dtor g1).
  { destruct byCopy.
    - exists g1. rewrite use_live by (rewrite G1, Z.eqb_refl; reflexivity).
      split; [reflexivity|]. split; [exact E1|]. split; [exact LI1|].
      split; [rewrite G1, Z.eqb_refl; reflexivity|]. split; [reflexivity|]. split; reflexivity.
    - destruct (move_from_fact s0 g1 E1) as [E2 G2]; [rewrite G1, Z.eqb_refl; reflexivity|].
      eexists; split; [reflexivity|]. split; [exact E2|]. split; [apply move_from_linv; exact LI1|].
      split; [rewrite G2, Z.eqb_refl; reflexivity|]. split; [intros id Hn; rewrite G2, Hn; reflexivity|].
      split; [apply n_ctor_move_from | apply n_dtor_move_from]. }
  destruct X as [g2 [-> [E2 [LI2 [L2 [S2 [C2 D2]]]]]]].
  assert (N01 : (s0 =? s0 + 1) = false) by (apply Z.eqb_neq; lia).
  assert (U1 : is_live (lget g2 (s0 + 1)) = false).
  { rewrite S2 by exact N01. rewrite G1, N01. rewrite FR by lia. reflexivity. }
  destruct (construct_fact (if byCopy then KCopy else KMove) (s0 + 1) g2 E2 U1) as [E3 G3].
  set (g3 := construct (if byCopy then KCopy else KMove) (s0 + 1) g2) in *.
  assert (N10 : (s0 + 1 =? s0) = false) by (apply Z.eqb_neq; lia).
  destruct (destroy_fact s0 g3 E3) as [E4 G4]; [rewrite G3, N10; exact L2|].
  split; [exact E4|]. split; [apply destroy_linv, construct_linv; exact LI2|].
  split.
  - intros id. rewrite G4. destruct (s0 =? id) eqn:A; [reflexivity|].
    rewrite G3. destruct (s0 + 1 =? id) eqn:B; [reflexivity|]. rewrite S2 by exact A. rewrite G1, A. reflexivity.
  - rewrite n_ctor_destroy, n_dtor_destroy. unfold g3. rewrite n_ctor_construct, n_dtor_construct, C2, D2.
    unfold g1. rewrite n_ctor_construct, n_dtor_construct. lia.
Qed.

(* Alive objects have identities below the allocation counters *)
Lemma alive_below_led s av abl id : sim s av abl -> lget (st_led s) id = Alive -> id < st_ser s.
Proof.
  intros S A. destruct (Z.lt_ge_cases id (st_ser s)) as [L|L]; [exact L|].
  rewrite (sim_fresh_led _ _ _ S id L) in A. discriminate.
Qed.
Lemma alive_below_heap s av abl b : sim s av abl -> lget (st_heap s) b = Alive -> b < st_blk s.
Proof.
  intros S A. destruct (Z.lt_ge_cases b (st_blk s)) as [L|L]; [exact L|].
  rewrite (sim_fresh_heap _ _ _ S b L) in A. discriminate.
Qed.

(* Operations that only rearrange the variables (default construction, memcpy moves, dropping): every new owner is
   an old owner (at index sigma k) with the same bytes; old owners that disappear are recorded in abl'. *)
Lemma sim_relabel s av abl vs' av' abl' (sigma : nat -> nat) :
  sim s av abl ->
  length vs' = length av' ->
  (forall i, nget av' i = None <-> nget vs' i = None) ->
  (forall k t, nget av' k = Some (Some t) -> exists p, nget vs' k = Some (Some p) /\ owner (st_vars s) av (sigma k) t p) ->
  (forall k l t t', k <> l -> nget av' k = Some (Some t) -> nget av' l = Some (Some t') -> sigma k <> sigma l) ->
  (forall i t p, owner (st_vars s) av i t p -> (exists k, sigma k = i /\ owner vs' av' k t p) \/ In (p_blk p) abl') ->
  incl abl abl' ->
  sim (mkSt vs' (st_led s) (st_heap s) (st_ser s) (st_blk s)) av' abl'.
Proof.
  intros S L SC OW INJ KEEP INC. constructor; simpl.
  - exact L.
  - exact SC.
  - intros k t H. destruct (OW k t H) as [p [Hp [Ha Hv]]]. exists p. split; [exact Hp|].
    destruct (sim_own _ _ _ S _ _ Ha) as [p0 [Hp0 G]]. rewrite Hv in Hp0. inversion Hp0; subst. exact G.
  - intros k l tk tl pk pl Hne [Hak Hvk] [Hal Hvl].
    destruct (OW k tk Hak) as [pk' [Hpk O1]]. rewrite Hvk in Hpk. inversion Hpk; subst pk'.
    destruct (OW l tl Hal) as [pl' [Hpl O2]]. rewrite Hvl in Hpl. inversion Hpl; subst pl'.
    apply (sim_distinct _ _ _ S (sigma k) (sigma l) tk tl pk pl); [eapply INJ; eauto | exact O1 | exact O2].
  - apply (sim_fresh_led _ _ _ S).
  - apply (sim_fresh_heap _ _ _ S).
  - intros b Hb. destruct (sim_live_heap _ _ _ S b Hb) as [[i [t [p [O [SP PB]]]]] | I].
    + destruct (KEEP i t p O) as [[k [Hk O']] | I'].
      * left. exists k, t, p. auto.
      * right. subst b. exact I'.
    + right. apply INC. exact I.
  - apply (sim_errs _ _ _ S).
  - apply (sim_linv _ _ _ S).
Qed.

(* blocks that become unreachable when variable i is overwritten / dropped while it still owns a callable *)
Definition abl_after (vs : list var) (av : list avar) (i : nat) (abl : list Z) : list Z :=
  match nget av i, nget vs i with
  | Some (Some _), Some (Some p) => p_blk p :: abl
  | _, _ => abl
  end.

Ltac ngets :=
  repeat first [ rewrite nget_nset by (rewrite ?nset_length; first [assumption | lia]) ].

Ltac ngets_in H :=
  repeat first [ rewrite nget_nset in H by (rewrite ?nset_length; first [assumption | lia]) ].

(* variable i is set to a value that owns nothing (default construction: Some None; dropping: None) *)
Lemma sim_clear s av abl i (a : avar) (v : var) :
  sim s av abl -> (i < length av)%nat -> (a = None <-> v = None) -> is_owner a = 0 ->
  sim (mkSt (nset (st_vars s) i v) (st_led s) (st_heap s) (st_ser s) (st_blk s)) (nset av i a)
      (abl_after (st_vars s) av i abl).
Proof.
  intros S LA AV NO. pose proof (sim_len _ _ _ S) as L. assert (LV : (i < length (st_vars s))%nat) by lia.
  apply (sim_relabel s av abl _ _ _ (fun k => k) S).
  - rewrite !nset_length. exact L.
  - intros k. ngets. destruct (Nat.eqb i k); [exact AV | apply (sim_scope _ _ _ S)].
  - intros k t H. rewrite nget_nset in H by exact LA. destruct (Nat.eqb i k) eqn:E.
    + subst a. simpl in NO. discriminate.
    + destruct (sim_own _ _ _ S k t H) as [p [Hp _]]. exists p. ngets. rewrite E. split; [exact Hp | split; assumption].
  - intros k l t t' Hne _ _. exact Hne.
  - intros i0 t p [Ha Hv]. destruct (Nat.eqb i i0) eqn:E.
    + apply Nat.eqb_eq in E. subst i0. right. unfold abl_after. rewrite Ha, Hv. left. reflexivity.
    + left. exists i0. split; [reflexivity|]. split; ngets; rewrite E; assumption.
  - unfold abl_after. destruct (nget av i) as [[?|]|]; try apply incl_refl.
    destruct (nget (st_vars s) i) as [[?|]|]; try apply incl_refl. apply incl_tl, incl_refl.
Qed.

(* memcpy of variable j's bytes into variable i, j loses whatever it owned (abstractly) *)
Lemma sim_move s av abl i j xj bj :
  sim s av abl -> i <> j -> (i < length av)%nat -> nget av j = Some xj -> nget (st_vars s) j = Some bj ->
  sim (mkSt (nset (st_vars s) i (Some bj)) (st_led s) (st_heap s) (st_ser s) (st_blk s))
      (nset (nset av i (Some xj)) j (Some None)) (abl_after (st_vars s) av i abl).
Proof.
  intros S NE LA AJ VJ. pose proof (sim_len _ _ _ S) as L. assert (LV : (i < length (st_vars s))%nat) by lia.
  pose proof (nget_in_range _ _ _ AJ) as LJ.
  assert (Eij : Nat.eqb i j = false) by (apply Nat.eqb_neq; exact NE).
  assert (Eji : Nat.eqb j i = false) by (apply Nat.eqb_neq; auto).
  apply (sim_relabel s av abl _ _ _ (fun k => if Nat.eqb k i then j else k) S).
  - rewrite !nset_length. exact L.
  - intros k. ngets. destruct (Nat.eqb j k) eqn:Ejk.
    + apply Nat.eqb_eq in Ejk. subst k. rewrite Eij, VJ. split; discriminate.
    + destruct (Nat.eqb i k); [split; discriminate | apply (sim_scope _ _ _ S)].
  - intros k t H. ngets_in H.
    destruct (Nat.eqb j k) eqn:Ejk; [discriminate|].
    destruct (Nat.eqb i k) eqn:Eik.
    + apply Nat.eqb_eq in Eik. subst k. rewrite Nat.eqb_refl.
      assert (Hx : xj = Some t) by congruence. rewrite Hx in *.
      destruct (sim_own _ _ _ S j t AJ) as [p [Hp _]].
      assert (Hb : bj = Some p) by congruence. rewrite Hb in *.
      exists p. ngets. rewrite Nat.eqb_refl. split; [reflexivity | split; assumption].
    + assert (Eki : Nat.eqb k i = false) by (apply Nat.eqb_neq; apply Nat.eqb_neq in Eik; auto). rewrite Eki.
      destruct (sim_own _ _ _ S k t H) as [p [Hp _]]. exists p. ngets. rewrite Eik. split; [exact Hp | split; assumption].
  - intros k l t t' Hne Hk Hl. ngets_in Hk. ngets_in Hl.
    destruct (Nat.eqb j k) eqn:Ejk; [discriminate|]. destruct (Nat.eqb j l) eqn:Ejl; [discriminate|].
    apply Nat.eqb_neq in Ejk. apply Nat.eqb_neq in Ejl.
    destruct (Nat.eqb k i) eqn:Eki; destruct (Nat.eqb l i) eqn:Eli;
      try apply Nat.eqb_eq in Eki; try apply Nat.eqb_eq in Eli; subst; auto.
  - intros i0 t p [Ha Hv]. destruct (Nat.eqb i i0) eqn:E.
    + apply Nat.eqb_eq in E. subst i0. right. unfold abl_after. rewrite Ha, Hv. left. reflexivity.
    + destruct (Nat.eqb j i0) eqn:E2.
      * apply Nat.eqb_eq in E2. subst i0. left. exists i. rewrite Nat.eqb_refl. split; [reflexivity|].
        assert (Hx : xj = Some t) by congruence. assert (Hb : bj = Some p) by congruence. rewrite Hx, Hb in *.
        split; ngets; rewrite ?Eji, ?Nat.eqb_refl; reflexivity.
      * left. exists i0. assert (Nat.eqb i0 i = false) as -> by (apply Nat.eqb_neq; apply Nat.eqb_neq in E; auto).
        split; [reflexivity|]. split; ngets; rewrite ?E2, ?E; assumption.
  - unfold abl_after. destruct (nget av i) as [[?|]|]; try apply incl_refl.
    destruct (nget (st_vars s) i) as [[?|]|]; try apply incl_refl. apply incl_tl, incl_refl.
Qed.

Lemma abl_after_same vs av i abl : is_owner (nget av i) = 0 -> abl_after vs av i abl = abl.
Proof. unfold abl_after. destruct (nget av i) as [[?|]|]; simpl; intros H; try reflexivity; discriminate. Qed.

Lemma abandon_length x : Z.of_nat (length (abandoned (abandon x))) = is_owner (Some x).
Proof. destruct x; reflexivity. Qed.
Lemma abandon_project x : filter not_abandon (abandon x) = [].
Proof. destruct x; reflexivity. Qed.
Lemma abandon_nil x : abandoned (abandon x) = [] -> is_owner (Some x) = 0.
Proof. destruct x; simpl; [discriminate | reflexivity]. Qed.

(* what one step must establish *)
Definition step_goal (o : oracle) (s : state) (av : list avar) (abl : list Z) (x : op) (av' : list avar) (aevs : list aevent) : Prop :=
  exists s' evs abl',
    step o s x = Some (s', evs) /\ sim s' av' abl' /\
    project evs = filter not_abandon aevs /\ forallb ev_aligned evs = true /\
    cnt s' av' = cnt s av + Z.of_nat (length (abandoned aevs)) /\
    (abandoned aevs = [] -> abl' = abl).

Lemma in_range_lt {A} (l : list A) i : (i < length l)%nat -> in_range l i = true.
Proof. intros H. unfold in_range. apply Nat.ltb_lt. exact H. Qed.

Lemma in_range_eq s av abl i : sim s av abl -> in_range (st_vars s) i = in_range av i.
Proof. intros S. unfold in_range. rewrite (sim_len _ _ _ S). reflexivity. Qed.

Lemma step_default o s av abl i av' aevs : sim s av abl -> astep av (ODefault i) = Some (av', aevs) ->
  step_goal o s av abl (ODefault i) av' aevs.
Proof.
  intros S H. unfold astep in H. destruct (in_range av i) eqn:IR; simpl in H; [|discriminate].
  destruct (nget av i) eqn:Ea; [discriminate|]. inversion H; subst; clear H.
  pose proof (proj1 (sim_scope _ _ _ S i) Ea) as Ev. apply in_range_true in IR.
  exists (mkSt (nset (st_vars s) i (Some None)) (st_led s) (st_heap s) (st_ser s) (st_blk s)), [], (abl_after (st_vars s) av i abl).
  split; [unfold step; cbv zeta; rewrite (in_range_eq _ _ _ i S); rewrite (in_range_lt av i IR); simpl; rewrite Ev; reflexivity|].
  split; [apply sim_clear; auto; split; discriminate|].
  split; [reflexivity|]. split; [reflexivity|]. split.
  - unfold cnt; simpl. rewrite owned_length_nset by exact IR. rewrite Ea. simpl. lia.
  - intros _. apply abl_after_same. rewrite Ea. reflexivity.
Qed.

Lemma step_drop o s av abl i av' aevs : sim s av abl -> astep av (ODrop i) = Some (av', aevs) ->
  step_goal o s av abl (ODrop i) av' aevs.
Proof.
  intros S H. unfold astep in H. destruct (nget av i) as [xi|] eqn:Ea; [|discriminate]. inversion H; subst; clear H.
  pose proof (nget_in_range _ _ _ Ea) as IR.
  destruct (nget (st_vars s) i) as [bi|] eqn:Ev; [|apply (sim_scope _ _ _ S) in Ev; congruence].
  exists (mkSt (nset (st_vars s) i None) (st_led s) (st_heap s) (st_ser s) (st_blk s)), [], (abl_after (st_vars s) av i abl).
  split; [unfold step; cbv zeta; rewrite Ev; reflexivity|].
  split; [apply sim_clear; auto; tauto|].
  split; [rewrite abandon_project; reflexivity|]. split; [reflexivity|]. split.
  - unfold cnt; simpl. rewrite owned_length_nset by exact IR. rewrite Ea, abandon_length. destruct xi; simpl; lia.
  - intros N. apply abl_after_same. rewrite Ea. apply abandon_nil. exact N.
Qed.

Lemma step_movector o s av abl i j av' aevs : sim s av abl -> astep av (OMoveCtor i j) = Some (av', aevs) ->
  step_goal o s av abl (OMoveCtor i j) av' aevs.
Proof.
  intros S H. unfold astep in H. destruct (in_range av i) eqn:IR; simpl in H; [|discriminate].
  destruct (nget av i) eqn:Ea; [discriminate|]. destruct (nget av j) as [xj|] eqn:Eaj; [|discriminate].
  inversion H; subst; clear H. apply in_range_true in IR.
  pose proof (proj1 (sim_scope _ _ _ S i) Ea) as Ev.
  destruct (nget (st_vars s) j) as [bj|] eqn:Evj; [|apply (sim_scope _ _ _ S) in Evj; congruence].
  assert (NE : i <> j) by (intros ->; congruence).
  pose proof (nget_in_range _ _ _ Eaj) as JR.
  exists (mkSt (nset (st_vars s) i (Some bj)) (st_led s) (st_heap s) (st_ser s) (st_blk s)), [], (abl_after (st_vars s) av i abl).
  split; [unfold step; cbv zeta; rewrite (in_range_eq _ _ _ i S); rewrite (in_range_lt av i IR); simpl; rewrite Ev, Evj; reflexivity|].
  split; [apply sim_move; auto|].
  split; [reflexivity|]. split; [reflexivity|]. split.
  - unfold cnt; simpl. rewrite !owned_length_nset by (rewrite ?nset_length; lia).
    rewrite nget_nset_other by exact NE. rewrite Ea, Eaj. simpl. lia.
  - intros _. apply abl_after_same. rewrite Ea. reflexivity.
Qed.

Lemma step_moveassign o s av abl i j av' aevs : sim s av abl -> astep av (OMoveAssign i j) = Some (av', aevs) ->
  step_goal o s av abl (OMoveAssign i j) av' aevs.
Proof.
  intros S H. unfold astep in H. destruct (nget av i) as [xi|] eqn:Ea; [|discriminate].
  destruct (nget av j) as [xj|] eqn:Eaj; [|discriminate].
  pose proof (nget_in_range _ _ _ Ea) as IR. pose proof (nget_in_range _ _ _ Eaj) as JR.
  destruct (nget (st_vars s) i) as [bi|] eqn:Ev; [|apply (sim_scope _ _ _ S) in Ev; congruence].
  destruct (nget (st_vars s) j) as [bj|] eqn:Evj; [|apply (sim_scope _ _ _ S) in Evj; congruence].
  destruct (Nat.eqb i j) eqn:Eij; inversion H; subst; clear H.
  - apply Nat.eqb_eq in Eij. subst j. rewrite Ev in Evj. inversion Evj; subst bj.
    exists s, [], abl. split.
    + unfold step; cbv zeta. rewrite Ev. rewrite <- Ev. rewrite nset_id. destruct s; reflexivity.
    + split; [exact S|]. split; [reflexivity|]. split; [reflexivity|]. split; [simpl; lia | reflexivity].
  - apply Nat.eqb_neq in Eij.
    exists (mkSt (nset (st_vars s) i (Some bj)) (st_led s) (st_heap s) (st_ser s) (st_blk s)), [], (abl_after (st_vars s) av i abl).
    split; [unfold step; cbv zeta; rewrite Ev, Evj; reflexivity|].
    split; [apply sim_move; auto|].
    split; [rewrite abandon_project; reflexivity|]. split; [reflexivity|]. split.
    + unfold cnt; simpl. rewrite !owned_length_nset by (rewrite ?nset_length; lia).
      rewrite nget_nset_other by exact Eij. rewrite Ea, Eaj, abandon_length. destruct xi, xj; simpl; lia.
    + intros N. apply abl_after_same. rewrite Ea. apply abandon_nil. exact N.
Qed.

Lemma owner_fun vs av i t p t' p' : owner vs av i t p -> owner vs av i t' p' -> t = t' /\ p = p'.
Proof. intros [A V] [A' V']. split; congruence. Qed.

(* events of a stored callable are aligned *)
Lemma pay_aligned_inline o i p : oracle_ok o -> pay_ok p -> p_kind p = SInline -> alignedb (vaddr o i) (p_al p) = true.
Proof.
  intros [OV _] [P K] E. rewrite E in K. apply alignedb_divide; [exact P|].
  eapply Z.divide_trans; [exact K | apply OV].
Qed.
Lemma pay_aligned_spill p K : pay_ok p -> p_kind p = SSpill K ->
  alignedb (p_addr p) (p_al p) && alignedb (p_addr p) K = true.
Proof.
  intros [P H] E. rewrite E in H. destruct H as [KP [D1 D2]]. apply andb_true_iff. split.
  - apply alignedb_divide; [exact P | eapply Z.divide_trans; eauto].
  - apply alignedb_divide; assumption.
Qed.

(* operator() (run = true) and cleanupNotRun() (run = false) on a variable that owns callable t *)
Lemma step_invoke o s av abl i t (run : bool) : oracle_ok o -> sim s av abl -> nget av i = Some (Some t) ->
  step_goal o s av abl (if run then OCall i else OCleanup i) (nset av i (Some None))
            ((if run then [AInvoke t] else []) ++ [ADestroy t]).
Proof.
  intros OK S Ha. destruct (sim_own _ _ _ S i t Ha) as [p [Hv [Ht [AL [PO SH]]]]].
  pose proof (nget_in_range _ _ _ Ha) as IR.
  destruct (sim_errs _ _ _ S) as [EL EH]. destruct (sim_linv _ _ _ S) as [LL LH].
  assert (U : (if run then use (p_ser p) (st_led s) else st_led s) = st_led s)
    by (destruct run; [apply use_live; rewrite AL|]; reflexivity).
  destruct (destroy_fact (p_ser p) (st_led s) EL) as [EL' GL']; [rewrite AL; reflexivity|].
  (* the heap after the call, whatever the storage kind *)
  assert (HP : exists h, (match p_kind p with SInline => st_heap s | SSpill _ => destroy (p_blk p) (st_heap s) end) = h /\
           l_errs h = [] /\ linv h /\
           (forall b, lget h b = if is_spill p && (p_blk p =? b) then Dead else lget (st_heap s) b)).
  { unfold is_spill in *. destruct (p_kind p) as [|K] eqn:EK.
    - eexists; split; [reflexivity|]. split; [exact EH|]. split; [exact LH | reflexivity].
    - destruct (destroy_fact (p_blk p) (st_heap s) EH) as [EH' GH']; [rewrite SH; reflexivity|].
      eexists; split; [reflexivity|]. split; [exact EH'|]. split; [apply destroy_linv; exact LH | exact GH']. }
  destruct HP as [h [Eh [EH' [LH' GH']]]].
  set (g := destroy (p_ser p) (st_led s)) in *.
  assert (OWN_OLD : forall k t', nget (nset av i (Some None)) k = Some (Some t') -> k <> i /\ nget av k = Some (Some t')).
  { intros k t' H. rewrite nget_nset in H by exact IR. destruct (Nat.eqb i k) eqn:E; [discriminate|].
    apply Nat.eqb_neq in E. split; auto. }
  assert (SIM : sim (mkSt (st_vars s) g h (st_ser s) (st_blk s)) (nset av i (Some None)) abl).
  { constructor; cbn [st_vars st_led st_heap st_ser st_blk].
    - etransitivity; [apply (sim_len _ _ _ S) | symmetry; apply nset_length].
    - intros k. rewrite nget_nset by exact IR. destruct (Nat.eqb i k) eqn:E; [|apply (sim_scope _ _ _ S)].
      apply Nat.eqb_eq in E. subst k. rewrite Hv. split; discriminate.
    - intros k t' H. destruct (OWN_OLD k t' H) as [NE Hk].
      destruct (sim_own _ _ _ S k t' Hk) as [p' [Hv' [Ht' [AL' [PO' SH']]]]].
      destruct (sim_distinct _ _ _ S i k t t' p p' (not_eq_sym NE) (conj Ha Hv) (conj Hk Hv')) as [DS DB].
      exists p'. split; [exact Hv'|]. split; [exact Ht'|]. split.
      + rewrite GL'. destruct (p_ser p =? p_ser p') eqn:E; [apply Z.eqb_eq in E; contradiction | exact AL'].
      + split; [exact PO'|]. intros SP'. rewrite GH'. destruct (is_spill p) eqn:SP; simpl; [|apply SH'; exact SP'].
        destruct (p_blk p =? p_blk p') eqn:E; [apply Z.eqb_eq in E; exfalso; apply DB; auto | apply SH'; exact SP'].
    - intros k l tk tl pk pl NE [Hak Hvk] [Hal Hvl].
      destruct (OWN_OLD k tk Hak) as [_ Hk]. destruct (OWN_OLD l tl Hal) as [_ Hl].
      apply (sim_distinct _ _ _ S k l tk tl pk pl NE); split; assumption.
    - intros id Hid. rewrite GL'. pose proof (alive_below_led _ _ _ _ S AL) as B.
      destruct (p_ser p =? id) eqn:E; [apply Z.eqb_eq in E; lia | apply (sim_fresh_led _ _ _ S); exact Hid].
    - intros b Hb. rewrite GH'. destruct (is_spill p) eqn:SP; simpl; [|apply (sim_fresh_heap _ _ _ S); exact Hb].
      pose proof (alive_below_heap _ _ _ _ S (SH eq_refl)) as B.
      destruct (p_blk p =? b) eqn:E; [apply Z.eqb_eq in E; lia | apply (sim_fresh_heap _ _ _ S); exact Hb].
    - intros b Hb. rewrite GH' in Hb.
      assert (Hb0 : is_live (lget (st_heap s) b) = true /\ (is_spill p = true -> p_blk p <> b)).
      { destruct (is_spill p); simpl in Hb; [|split; [exact Hb | discriminate]].
        destruct (p_blk p =? b) eqn:E; [discriminate|]. apply Z.eqb_neq in E. split; [exact Hb | intros _; exact E]. }
      destruct Hb0 as [Hb0 NB].
      destruct (sim_live_heap _ _ _ S b Hb0) as [[k [tk [pk [[Hak Hvk] [SPk PBk]]]]] | I]; [|right; exact I].
      left. exists k, tk, pk. split; [|split; assumption].
      assert (NE : i <> k).
      { intros ->. rewrite Hv in Hvk. inversion Hvk; subst pk. apply NB; assumption. }
      split; [rewrite nget_nset_other by exact NE; exact Hak | exact Hvk].
    - split; assumption.
    - split; [apply destroy_linv; exact LL | exact LH']. }
  assert (CNT : cnt (mkSt (st_vars s) g h (st_ser s) (st_blk s)) (nset av i (Some None)) = cnt s av).
  { unfold cnt; simpl. unfold g. rewrite n_ctor_destroy, n_dtor_destroy, owned_length_nset by exact IR.
    rewrite Ha. simpl. lia. }
  assert (AB : abandoned ((if run then [AInvoke t] else []) ++ [ADestroy t]) = []) by (destruct run; reflexivity).
  assert (FL : filter not_abandon ((if run then [AInvoke t] else []) ++ [ADestroy t]) =
               (if run then [AInvoke t] else []) ++ [ADestroy t]) by (destruct run; reflexivity).
  (* now the two storage kinds: the step equation and the events *)
  unfold step_goal. rewrite AB, FL.
  destruct (p_kind p) as [|K] eqn:EK.
  - exists (mkSt (st_vars s) g h (st_ser s) (st_blk s)).
    exists ((if run then [EInvoke (p_tag p) (LInline i) (alignedb (vaddr o i) (p_al p))] else []) ++
            [EDestroy (p_tag p) (LInline i) (alignedb (vaddr o i) (p_al p))]), abl.
    split.
    { destruct run; unfold step; cbv zeta; rewrite Hv; unfold invoke; rewrite EK; rewrite ?U; fold g; rewrite <- Eh; reflexivity. }
    split; [exact SIM|]. rewrite (pay_aligned_inline o i p OK PO EK), Ht.
    split; [destruct run; reflexivity|]. split; [destruct run; reflexivity|]. split; [rewrite CNT; simpl; lia | reflexivity].
  - exists (mkSt (st_vars s) g h (st_ser s) (st_blk s)).
    exists ((if run then [EInvoke (p_tag p) LBlock (alignedb (p_addr p) (p_al p) && alignedb (p_addr p) K)] else []) ++
            [EDestroy (p_tag p) LBlock (alignedb (p_addr p) (p_al p) && alignedb (p_addr p) K)] ++
            [if from_pool K then EPoolFree K else EFree (am_request K K)]), abl.
    split.
    { destruct run; unfold step; cbv zeta; rewrite Hv; unfold invoke; rewrite EK; rewrite ?U; fold g; rewrite <- Eh; reflexivity. }
    split; [exact SIM|]. rewrite (pay_aligned_spill p K PO EK), Ht.
    split; [destruct run, (from_pool K); reflexivity|]. split; [destruct run, (from_pool K); reflexivity|].
    split; [rewrite CNT; simpl; lia | reflexivity].
Qed.

Lemma step_call o s av abl i av' aevs : oracle_ok o -> sim s av abl -> astep av (OCall i) = Some (av', aevs) ->
  step_goal o s av abl (OCall i) av' aevs.
Proof.
  intros OK S H. unfold astep in H. destruct (nget av i) as [[t|]|] eqn:Ea; try discriminate.
  inversion H; subst. apply (step_invoke o s av abl i t true OK S Ea).
Qed.

Lemma step_cleanup o s av abl i av' aevs : oracle_ok o -> sim s av abl -> astep av (OCleanup i) = Some (av', aevs) ->
  step_goal o s av abl (OCleanup i) av' aevs.
Proof.
  intros OK S H. unfold astep in H. destruct (nget av i) as [[t|]|] eqn:Ea; try discriminate.
  inversion H; subst. apply (step_invoke o s av abl i t false OK S Ea).
Qed.

(* OnceFunction(F&&): both storage kinds.  [h], [p], [alloc_ev] describe the storage-specific part. *)
Lemma step_make o s av abl i sz al t byCopy av' aevs : oracle_ok o -> sim s av abl -> type_ok sz al = true ->
  astep av (OMake i sz al t byCopy) = Some (av', aevs) ->
  step_goal o s av abl (OMake i sz al t byCopy) av' aevs.
Proof.
  intros OK S TY H. unfold astep in H. destruct (in_range av i) eqn:IR; simpl in H; [|discriminate].
  destruct (nget av i) eqn:Ea; [discriminate|]. inversion H; subst; clear H. apply in_range_true in IR.
  pose proof (proj1 (sim_scope _ _ _ S i) Ea) as Ev.
  pose proof (sim_len _ _ _ S) as L. assert (LV : (i < length (st_vars s))%nat) by (rewrite L; exact IR).
  destruct (sim_errs _ _ _ S) as [EL EH]. destruct (sim_linv _ _ _ S) as [LL LH].
  destruct (type_ok_facts _ _ TY) as [ALP _].
  destruct (make_chain byCopy (st_led s) (st_ser s) EL LL (sim_fresh_led _ _ _ S)) as [EL' [LL' [GL' [NC ND]]]].
  cbv zeta in EL', LL', GL', NC, ND.
  set (g := destroy (st_ser s) (construct (if byCopy then KCopy else KMove) (st_ser s + 1)
             (if byCopy then use (st_ser s) (construct KValue (st_ser s) (st_led s))
              else move_from (st_ser s) (construct KValue (st_ser s) (st_led s))))) in *.
  (* storage-specific part *)
  set (K := alloc_size sz al).
  set (b := st_blk s).
  set (a := if from_pool K then pool_addr o K b else am_base (malloc_ret o b) K).
  set (inl := fits_inline sz al).
  set (p := if inl then mkPay SInline t (st_ser s + 1) 0 0 al else mkPay (SSpill K) t (st_ser s + 1) b a al).
  set (h := if inl then st_heap s else construct KValue b (st_heap s)).
  set (blk' := if inl then st_blk s else b + 1).
  assert (PT : p_tag p = t /\ p_ser p = st_ser s + 1 /\ p_al p = al) by (unfold p; destruct inl; auto).
  destruct PT as [PT [PS PA]].
  assert (PO : pay_ok p).
  { unfold p, pay_ok. destruct inl eqn:EI; simpl.
    - split; [exact ALP | apply (inline_align_divides sz al TY EI)].
    - split; [exact ALP | apply (spill_block_aligned o sz al b OK TY)]. }
  assert (HF : l_errs h = [] /\ linv h /\
          (forall b', lget h b' = if negb inl && (b =? b') then Alive else lget (st_heap s) b')).
  { unfold h. destruct inl; simpl.
    - split; [exact EH|]. split; [exact LH | reflexivity].
    - destruct (construct_fact KValue b (st_heap s) EH) as [E1 G1].
      { rewrite (sim_fresh_heap _ _ _ S b); [reflexivity | unfold b; lia]. }
      split; [exact E1|]. split; [apply construct_linv; exact LH | exact G1]. }
  destruct HF as [EH' [LH' GH']].
  assert (SPB : is_spill p = negb inl /\ (is_spill p = true -> p_blk p = b)) by (unfold p, is_spill; destruct inl; simpl; (split; [reflexivity | intros X; try discriminate; reflexivity])).
  destruct SPB as [SP PB].
  set (vs' := nset (st_vars s) i (Some (Some p))).
  set (s' := mkSt vs' g h (st_ser s + 2) blk').
  (* old owners keep their ledger entries *)
  assert (OLD : forall k t', k <> i -> nget av k = Some (Some t') ->
            exists p', nget (st_vars s) k = Some (Some p') /\ good g h p' t' /\ p_ser p' < st_ser s /\
                       (is_spill p' = true -> p_blk p' < b)).
  { intros k t' NE Hk. destruct (sim_own _ _ _ S k t' Hk) as [p' [Hv' [Ht' [AL' [PO' SH']]]]].
    pose proof (alive_below_led _ _ _ _ S AL') as B1.
    exists p'. split; [exact Hv'|]. split; [|split; [exact B1|]].
    - split; [exact Ht'|]. split.
      + rewrite GL'. destruct (st_ser s =? p_ser p') eqn:E1; [apply Z.eqb_eq in E1; lia|].
        destruct (st_ser s + 1 =? p_ser p') eqn:E2; [apply Z.eqb_eq in E2; lia | exact AL'].
      + split; [exact PO'|]. intros SP'. pose proof (alive_below_heap _ _ _ _ S (SH' SP')) as B2.
        rewrite GH'. destruct (b =? p_blk p') eqn:E; [apply Z.eqb_eq in E; unfold b in E; lia|].
        rewrite andb_false_r. apply SH'. exact SP'.
    - intros SP'. apply (alive_below_heap _ _ _ _ S (SH' SP')). }
  assert (NEWOWN : forall k t', nget (nset av i (Some (Some t))) k = Some (Some t') ->
            (k = i /\ t' = t) \/ (k <> i /\ nget av k = Some (Some t'))).
  { intros k t' Hk. rewrite nget_nset in Hk by exact IR. destruct (Nat.eqb i k) eqn:E.
    - apply Nat.eqb_eq in E. left. split; [auto | congruence].
    - apply Nat.eqb_neq in E. right. split; auto. }
  assert (VI : nget vs' i = Some (Some p)) by (unfold vs'; apply nget_nset_same; exact LV).
  assert (VK : forall k, k <> i -> nget vs' k = nget (st_vars s) k) by (intros k NE; unfold vs'; apply nget_nset_other; auto).
  assert (SIM : sim s' (nset av i (Some (Some t))) abl).
  { constructor; cbn [st_vars st_led st_heap st_ser st_blk s'].
    - unfold vs'. etransitivity; [apply nset_length|]. etransitivity; [exact L | symmetry; apply nset_length].
    - intros k. unfold vs'. rewrite !nget_nset by assumption. destruct (Nat.eqb i k); [split; discriminate | apply (sim_scope _ _ _ S)].
    - intros k t' Hk. destruct (NEWOWN k t' Hk) as [[-> ->] | [NE Hk']].
      + exists p. split; [exact VI|]. split; [exact PT|]. split.
        * rewrite GL', PS. assert ((st_ser s =? st_ser s + 1) = false) as -> by (apply Z.eqb_neq; lia).
          rewrite Z.eqb_refl. reflexivity.
        * split; [exact PO|]. intros SPt. rewrite GH', (PB SPt), Z.eqb_refl. rewrite <- SP, SPt. reflexivity.
      + destruct (OLD k t' NE Hk') as [p' [Hv' [G' _]]]. exists p'. rewrite VK by exact NE. auto.
    - intros k l tk tl pk pl NE [Hak Hvk] [Hal Hvl].
      destruct (NEWOWN k tk Hak) as [[-> ->] | [NEk Hk']]; destruct (NEWOWN l tl Hal) as [[-> ->] | [NEl Hl']].
      + contradiction.
      + rewrite VI in Hvk. inversion Hvk; subst pk. rewrite VK in Hvl by exact NEl.
        destruct (OLD l tl NEl Hl') as [p' [Hv' [_ [B1 B2]]]]. rewrite Hv' in Hvl. inversion Hvl; subst pl.
        split; [lia|]. intros S1 S2. rewrite (PB S1). specialize (B2 S2). lia.
      + rewrite VI in Hvl. inversion Hvl; subst pl. rewrite VK in Hvk by exact NEk.
        destruct (OLD k tk NEk Hk') as [p' [Hv' [_ [B1 B2]]]]. rewrite Hv' in Hvk. inversion Hvk; subst pk.
        split; [lia|]. intros S1 S2. rewrite (PB S2). specialize (B2 S1). lia.
      + rewrite VK in Hvk by exact NEk. rewrite VK in Hvl by exact NEl.
        apply (sim_distinct _ _ _ S k l tk tl pk pl NE); split; assumption.
    - intros id Hid. rewrite GL'.
      destruct (st_ser s =? id) eqn:E1; [apply Z.eqb_eq in E1; lia|].
      destruct (st_ser s + 1 =? id) eqn:E2; [apply Z.eqb_eq in E2; lia|]. apply (sim_fresh_led _ _ _ S). lia.
    - intros b' Hb. rewrite GH'. unfold blk' in Hb. destruct inl; simpl.
      + apply (sim_fresh_heap _ _ _ S). exact Hb.
      + destruct (b =? b') eqn:E; [apply Z.eqb_eq in E; lia|]. apply (sim_fresh_heap _ _ _ S). unfold b in *. lia.
    - intros b' Hb. rewrite GH' in Hb.
      destruct (negb inl && (b =? b')) eqn:E.
      + apply andb_true_iff in E. destruct E as [E1 E2]. apply Z.eqb_eq in E2. subst b'.
        left. exists i, t, p. split; [split; [apply nget_nset_same; exact IR | exact VI]|].
        assert (SPt : is_spill p = true) by (rewrite SP; exact E1). split; [exact SPt | apply PB; exact SPt].
      + destruct (sim_live_heap _ _ _ S b' Hb) as [[k [tk [pk [[Hak Hvk] [SPk PBk]]]]] | I]; [|right; exact I].
        left. exists k, tk, pk. assert (NE : k <> i) by (intros ->; congruence).
        split; [|split; assumption]. split; [rewrite nget_nset_other by auto; exact Hak | rewrite VK by exact NE; exact Hvk].
    - split; assumption.
    - split; assumption. }
  assert (CNT : cnt s' (nset av i (Some (Some t))) = cnt s av).
  { unfold cnt; cbn [st_led s']. rewrite NC, ND, owned_length_nset by exact IR. rewrite Ea. simpl. lia. }
  unfold step_goal.
  exists s'.
  exists (if inl then [EConstruct KValue t LTemp true;
                       EConstruct (if byCopy then KCopy else KMove) t (LInline i) (alignedb (vaddr o i) al);
                       EDestroy (if byCopy then t else moved_tag) LTemp true]
          else [EConstruct KValue t LTemp true; (if from_pool K then EPoolAlloc K else EMalloc (am_request K K));
                EConstruct (if byCopy then KCopy else KMove) t LBlock (alignedb a al && alignedb a K);
                EDestroy (if byCopy then t else moved_tag) LTemp true]), abl.
  split.
  { unfold step; cbv zeta. rewrite (in_range_lt (st_vars s) i LV); simpl negb; cbv iota. rewrite Ev.
    unfold s', vs', p, h, blk', inl, g. fold K. fold b. destruct (fits_inline sz al); reflexivity. }
  split; [exact SIM|].
  split; [destruct inl, (from_pool K); reflexivity|].
  split.
  { destruct inl eqn:EI.
    - assert (A1 : alignedb (vaddr o i) al = true).
      { pose proof (pay_aligned_inline o i p OK PO) as X. rewrite PA in X. apply X. unfold p. reflexivity. }
      rewrite A1. reflexivity.
    - assert (A2 : alignedb a al && alignedb a K = true).
      { pose proof (pay_aligned_spill p K PO) as X. rewrite PA in X. unfold p in X at 1 2. simpl in X. apply X. unfold p. reflexivity. }
      rewrite A2. destruct (from_pool K); reflexivity. }
  split; [rewrite CNT; simpl; lia | reflexivity].
Qed.

(* ============================================================================================ whole runs *)
Lemma step_sim o s av abl x av' aevs : oracle_ok o -> sim s av abl -> types_ok [x] = true ->
  astep av x = Some (av', aevs) -> step_goal o s av abl x av' aevs.
Proof.
  intros OK S T H. destruct x.
  - simpl in T. rewrite andb_true_r in T. eapply step_make; eauto.
  - eapply step_default; eauto.
  - eapply step_movector; eauto.
  - eapply step_moveassign; eauto.
  - eapply step_call; eauto.
  - eapply step_cleanup; eauto.
  - eapply step_drop; eauto.
Qed.

Lemma abandoned_app a b : abandoned (a ++ b) = abandoned a ++ abandoned b.
Proof. unfold abandoned. apply flat_map_app. Qed.
Lemma destroyed_app a b : destroyed (a ++ b) = destroyed a ++ destroyed b.
Proof. unfold destroyed. apply flat_map_app. Qed.
Lemma invoked_app a b : invoked (a ++ b) = invoked a ++ invoked b.
Proof. unfold invoked. apply flat_map_app. Qed.

Lemma run_sim o ops : forall s av abl av' aevss, oracle_ok o -> sim s av abl -> types_ok ops = true ->
  arun av ops = Some (av', aevss) ->
  exists s' evss abl', run o s ops = Some (s', evss) /\ sim s' av' abl' /\
    map project evss = map (filter not_abandon) aevss /\
    forallb (forallb ev_aligned) evss = true /\
    cnt s' av' = cnt s av + Z.of_nat (length (abandoned (concat aevss))) /\
    (abandoned (concat aevss) = [] -> abl' = abl).
Proof.
  induction ops as [|x r IH]; intros s av abl av' aevss OK S T H; simpl in H.
  - inversion H; subst. exists s, [], abl. simpl.
    split; [reflexivity|]. split; [exact S|]. split; [reflexivity|]. split; [reflexivity|]. split; [lia | reflexivity].
  - destruct (astep av x) as [[av1 e]|] eqn:E; [|discriminate].
    destruct (arun av1 r) as [[av2 es]|] eqn:E2; [|discriminate]. inversion H; subst; clear H.
    simpl in T. apply andb_true_iff in T. destruct T as [T1 T2].
    assert (T1' : types_ok [x] = true) by (simpl; rewrite T1; reflexivity).
    destruct (step_sim o s av abl x av1 e OK S T1' E) as [s1 [ev1 [abl1 [St [S1 [P1 [A1 [C1 B1]]]]]]]].
    destruct (IH s1 av1 abl1 av' es OK S1 T2 E2) as [s2 [evs [abl2 [Rn [S2 [P2 [A2 [C2 B2]]]]]]]].
    exists s2, (ev1 :: evs), abl2. simpl. rewrite St, Rn.
    split; [reflexivity|]. split; [exact S2|]. split; [rewrite P1, P2; reflexivity|].
    split; [rewrite A1, A2; reflexivity|]. rewrite abandoned_app, app_length, Nat2Z.inj_add. split; [lia|].
    intros N. apply app_eq_nil in N. destruct N as [N1 N2]. rewrite B2 by exact N2. apply B1. exact N1.
Qed.

(* ============================================================================================ the protocol itself *)
Require Import Coq.Sorting.Permutation.

Definition otag (v : avar) : list Z := match v with Some (Some t) => [t] | _ => [] end.

Lemma owned_cons v av : owned (v :: av) = otag v ++ owned av.
Proof. unfold owned. simpl. destruct v as [[t|]|]; reflexivity. Qed.

Lemma owned_nset_perm av i v : (i < length av)%nat ->
  Permutation (otag (nget av i) ++ owned (nset av i v)) (otag v ++ owned av).
Proof.
  revert i; induction av as [|a r IH]; intros [|k] L; simpl in L; try lia.
  - simpl nset. unfold nget; simpl nth. rewrite !owned_cons. apply Permutation_app_swap_app.
  - simpl nset. unfold nget; simpl nth. rewrite !owned_cons. fold (nget r k).
    rewrite Permutation_app_swap_app. rewrite (IH k) by lia. apply Permutation_app_swap_app.
Qed.

Lemma owned_repeat_none n : owned (repeat None n) = [].
Proof. induction n; simpl; auto. Qed.

(* every tag that enters (owned before, or made by the operation) leaves as destroyed / abandoned / still owned *)
Lemma astep_perm av x av' e : astep av x = Some (av', e) ->
  Permutation (make_tags [x] ++ owned av) (destroyed e ++ abandoned e ++ owned av').
Proof.
  intros H. destruct x as [i sz al t c|i|i j|i j|i|i|i]; unfold astep in H; simpl make_tags.
  - destruct (in_range av i) eqn:IR; simpl in H; [|discriminate]. apply in_range_true in IR.
    destruct (nget av i) eqn:E; [discriminate|]. inversion H; subst; simpl.
    pose proof (owned_nset_perm av i (Some (Some t)) IR) as P. rewrite E in P. simpl in P. symmetry. exact P.
  - destruct (in_range av i) eqn:IR; simpl in H; [|discriminate]. apply in_range_true in IR.
    destruct (nget av i) eqn:E; [discriminate|]. inversion H; subst; simpl.
    pose proof (owned_nset_perm av i (Some None) IR) as P. rewrite E in P. simpl in P. symmetry. exact P.
  - destruct (in_range av i) eqn:IR; simpl in H; [|discriminate]. apply in_range_true in IR.
    destruct (nget av i) eqn:E; [discriminate|]. destruct (nget av j) as [xj|] eqn:Ej; [|discriminate].
    inversion H; subst; simpl. assert (NE : i <> j) by (intros ->; congruence).
    pose proof (nget_in_range _ _ _ Ej) as JR.
    pose proof (owned_nset_perm av i (Some xj) IR) as P1. rewrite E in P1. simpl in P1.
    pose proof (owned_nset_perm (nset av i (Some xj)) j (Some None)) as P2.
    rewrite nset_length, nget_nset_other, Ej in P2 by auto. specialize (P2 JR). simpl in P2.
    apply (Permutation_app_inv_l (otag (Some xj))). rewrite P2. rewrite P1. reflexivity.
  - destruct (nget av i) as [xi|] eqn:E; [|discriminate]. destruct (nget av j) as [xj|] eqn:Ej; [|discriminate].
    pose proof (nget_in_range _ _ _ E) as IR. pose proof (nget_in_range _ _ _ Ej) as JR.
    destruct (Nat.eqb i j) eqn:Eij; inversion H; subst; simpl; [reflexivity|]. apply Nat.eqb_neq in Eij.
    pose proof (owned_nset_perm av i (Some xj) IR) as P1. rewrite E in P1.
    pose proof (owned_nset_perm (nset av i (Some xj)) j (Some None)) as P2.
    rewrite nset_length, nget_nset_other, Ej in P2 by auto. specialize (P2 JR). simpl app in P2 at 2.
    assert (D : destroyed (abandon xi) = []) by (destruct xi; reflexivity). rewrite D. simpl app at 1.
    assert (A : abandoned (abandon xi) = otag (Some xi)) by (destruct xi; reflexivity). rewrite A.
    apply (Permutation_app_inv_l (otag (Some xj))).
    rewrite (Permutation_app_swap_app (otag (Some xj)) (otag (Some xi))). rewrite P2. symmetry. exact P1.
  - destruct (nget av i) as [[t|]|] eqn:E; try discriminate. inversion H; subst; simpl.
    pose proof (nget_in_range _ _ _ E) as IR.
    pose proof (owned_nset_perm av i (Some None) IR) as P. rewrite E in P. simpl in P. symmetry. exact P.
  - destruct (nget av i) as [[t|]|] eqn:E; try discriminate. inversion H; subst; simpl.
    pose proof (nget_in_range _ _ _ E) as IR.
    pose proof (owned_nset_perm av i (Some None) IR) as P. rewrite E in P. simpl in P. symmetry. exact P.
  - destruct (nget av i) as [xi|] eqn:E; [|discriminate]. inversion H; subst.
    pose proof (nget_in_range _ _ _ E) as IR.
    pose proof (owned_nset_perm av i None IR) as P. rewrite E in P. simpl in P.
    assert (D : destroyed (abandon xi) = []) by (destruct xi; reflexivity). rewrite D. simpl app at 1 2.
    assert (A : abandoned (abandon xi) = otag (Some xi)) by (destruct xi; reflexivity). rewrite A. symmetry. exact P.
Qed.

Lemma make_tags_cons x r : make_tags (x :: r) = make_tags [x] ++ make_tags r.
Proof. unfold make_tags. simpl. rewrite app_nil_r. reflexivity. Qed.

Lemma arun_perm ops : forall av av' es, arun av ops = Some (av', es) ->
  Permutation (make_tags ops ++ owned av) (destroyed (concat es) ++ abandoned (concat es) ++ owned av').
Proof.
  induction ops as [|x r IH]; intros av av' es H; simpl in H.
  - inversion H; subst. reflexivity.
  - destruct (astep av x) as [[av1 e]|] eqn:E; [|discriminate].
    destruct (arun av1 r) as [[av2 es2]|] eqn:E2; [|discriminate]. inversion H; subst; clear H.
    pose proof (astep_perm _ _ _ _ E) as P1. pose proof (IH _ _ _ E2) as P2.
    rewrite make_tags_cons. simpl concat. rewrite destroyed_app, abandoned_app.
    (* (m1 ++ mr) ++ owned av  ~  mr ++ (m1 ++ owned av) ~ mr ++ (d1 ++ a1 ++ owned av1) ~ d1 ++ a1 ++ (mr ++ owned av1) ~ ... *)
    rewrite <- app_assoc. rewrite (Permutation_app_swap_app (make_tags [x]) (make_tags r)). rewrite P1.
    rewrite (Permutation_app_swap_app (make_tags r)). rewrite (Permutation_app_swap_app (make_tags r) (abandoned e)).
    rewrite P2. rewrite <- !app_assoc.
    apply Permutation_app_head.
    rewrite (Permutation_app_swap_app (abandoned e)). apply Permutation_app_head. reflexivity.
Qed.

(* invocations are a sub-multiset of destructions (a call invokes and destroys, a clean-up only destroys) *)
Lemma astep_invoked_sub av x av' e : astep av x = Some (av', e) -> exists rest, Permutation (destroyed e) (invoked e ++ rest).
Proof.
  intros H. destruct x as [i sz al t c|i|i j|i j|i|i|i]; unfold astep in H.
  - destruct (negb (in_range av i)); [discriminate|]. destruct (nget av i); inversion H; subst. exists []. reflexivity.
  - destruct (negb (in_range av i)); [discriminate|]. destruct (nget av i); inversion H; subst. exists []. reflexivity.
  - destruct (negb (in_range av i)); [discriminate|]. destruct (nget av i); [discriminate|].
    destruct (nget av j); inversion H; subst. exists []. reflexivity.
  - destruct (nget av i) as [xi|]; [|discriminate]. destruct (nget av j); [|discriminate].
    destruct (Nat.eqb i j); inversion H; subst; exists []; destruct xi; reflexivity.
  - destruct (nget av i) as [[t|]|]; inversion H; subst. exists []. reflexivity.
  - destruct (nget av i) as [[t|]|]; inversion H; subst. exists [t]. reflexivity.
  - destruct (nget av i) as [xi|]; inversion H; subst. exists []. destruct xi; reflexivity.
Qed.

Lemma arun_invoked_sub ops : forall av av' es, arun av ops = Some (av', es) ->
  exists rest, Permutation (destroyed (concat es)) (invoked (concat es) ++ rest).
Proof.
  induction ops as [|x r IH]; intros av av' es H; simpl in H.
  - inversion H; subst. exists []. reflexivity.
  - destruct (astep av x) as [[av1 e]|] eqn:E; [|discriminate].
    destruct (arun av1 r) as [[av2 es2]|] eqn:E2; [|discriminate]. inversion H; subst; clear H.
    destruct (astep_invoked_sub _ _ _ _ E) as [r1 P1]. destruct (IH _ _ _ E2) as [r2 P2].
    exists (r1 ++ r2). simpl concat. rewrite destroyed_app, invoked_app, P1, P2. rewrite <- !app_assoc.
    apply Permutation_app_head. rewrite (Permutation_app_swap_app r1). reflexivity.
Qed.

Lemma NoDup_app_l {A} (l l' : list A) : NoDup (l ++ l') -> NoDup l.
Proof.
  induction l as [|a l IH]; simpl; intros H; [constructor|].
  inversion H as [|x xs Hn Hd]; subst. constructor; [|apply IH; exact Hd].
  intros I. apply Hn. apply in_or_app. left. exact I.
Qed.

(* with distinct tags: every callable is destroyed at most once, invoked at most once, and ends in exactly one of
   the three classes *)
Lemma protocol_once nv ops av es : arun (ainit nv) ops = Some (av, es) -> NoDup (make_tags ops) ->
  NoDup (invoked (concat es)) /\ NoDup (destroyed (concat es)) /\
  Permutation (make_tags ops) (destroyed (concat es) ++ abandoned (concat es) ++ owned av).
Proof.
  intros H ND. pose proof (arun_perm _ _ _ _ H) as P. unfold ainit in P. rewrite owned_repeat_none, app_nil_r in P.
  assert (ND2 : NoDup (destroyed (concat es) ++ abandoned (concat es) ++ owned av)) by (eapply Permutation_NoDup; eauto).
  pose proof (NoDup_app_l _ _ ND2) as ND3.
  destruct (arun_invoked_sub _ _ _ _ H) as [rest PI].
  split; [|split; [exact ND3 | exact P]].
  assert (ND4 : NoDup (invoked (concat es) ++ rest)) by (eapply Permutation_NoDup; eauto).
  apply (NoDup_app_l _ _ ND4).
Qed.

(* which operations invoke: exactly operator() on a variable that owns a callable *)
Lemma astep_invokes_on_call av x av' e : astep av x = Some (av', e) ->
  invoked e = match x with OCall i => otag (nget av i) | _ => [] end.
Proof.
  intros H. destruct x as [i sz al t c|i|i j|i j|i|i|i]; unfold astep in H.
  - destruct (negb (in_range av i)); [discriminate|]. destruct (nget av i); inversion H; subst. reflexivity.
  - destruct (negb (in_range av i)); [discriminate|]. destruct (nget av i); inversion H; subst. reflexivity.
  - destruct (negb (in_range av i)); [discriminate|]. destruct (nget av i); [discriminate|].
    destruct (nget av j); inversion H; subst. reflexivity.
  - destruct (nget av i) as [xi|]; [|discriminate]. destruct (nget av j); [|discriminate].
    destruct (Nat.eqb i j); inversion H; subst; destruct xi; reflexivity.
  - destruct (nget av i) as [[t|]|]; inversion H; subst. reflexivity.
  - destruct (nget av i) as [[t|]|]; inversion H; subst. reflexivity.
  - destruct (nget av i) as [xi|]; inversion H; subst. destruct xi; reflexivity.
Qed.

(* ============================================================================================ final statements *)
Lemma invoked_filter e : invoked (filter not_abandon e) = invoked e.
Proof. induction e as [|a e IH]; simpl; [reflexivity|]. destruct a; simpl; rewrite ?IH; reflexivity. Qed.
Lemma destroyed_filter e : destroyed (filter not_abandon e) = destroyed e.
Proof. induction e as [|a e IH]; simpl; [reflexivity|]. destruct a; simpl; rewrite ?IH; reflexivity. Qed.
Lemma invoked_concat_filter l : invoked (concat (map (filter not_abandon) l)) = invoked (concat l).
Proof. induction l as [|e l IH]; simpl; [reflexivity|]. rewrite !invoked_app, invoked_filter, IH. reflexivity. Qed.
Lemma destroyed_concat_filter l : destroyed (concat (map (filter not_abandon) l)) = destroyed (concat l).
Proof. induction l as [|e l IH]; simpl; [reflexivity|]. rewrite !destroyed_app, destroyed_filter, IH. reflexivity. Qed.

Lemma owned_nil_no_owner av i t : owned av = [] -> nget av i = Some (Some t) -> False.
Proof.
  revert i; induction av as [|a r IH]; intros i O H.
  - unfold nget in H. destruct i; discriminate.
  - rewrite owned_cons in O. apply app_eq_nil in O. destruct O as [O1 O2]. destruct i.
    + unfold nget in H; simpl in H. subst a. discriminate.
    + apply (IH i O2). exact H.
Qed.

Lemma cnt_init nv : cnt (init nv) (ainit nv) = 0.
Proof. unfold cnt, init, ainit; simpl. rewrite owned_repeat_none. reflexivity. Qed.

(* Everything at once: a sequence that respects the protocol runs on the concrete model, its events about stored
   callables are exactly the protocol's events, all events are aligned, the ledgers see no misuse, the accounting
   is exact, the owner of each callable holds bytes designating that (live) callable. *)
Lemma once_main o nv ops av aevss : oracle_ok o -> types_ok ops = true -> arun (ainit nv) ops = Some (av, aevss) ->
  exists s evss, run o (init nv) ops = Some (s, evss) /\
    map project evss = map (filter not_abandon) aevss /\
    forallb (forallb ev_aligned) evss = true /\
    ok (st_led s) /\ ok (st_heap s) /\
    n_ctor (st_led s) - n_dtor (st_led s) = Z.of_nat (length (owned av)) + Z.of_nat (length (abandoned (concat aevss))) /\
    (forall i t, nget av i = Some (Some t) ->
       exists p, nget (st_vars s) i = Some (Some p) /\ p_tag p = t /\ lget (st_led s) (p_ser p) = Alive) /\
    (forall i, nget av i = None <-> nget (st_vars s) i = None) /\
    (abandoned (concat aevss) = [] -> owned av = [] ->
       balanced (st_led s) /\ balanced (st_heap s) /\ n_ctor (st_led s) = n_dtor (st_led s)) /\
    (forall i t, nget av i = Some (Some t) ->
       exists s2 evs, step o s (OCall i) = Some (s2, evs) /\ project evs = [AInvoke t; ADestroy t] /\
                      forallb ev_aligned evs = true).
Proof.
  intros OK T H.
  destruct (run_sim o ops (init nv) (ainit nv) [] av aevss OK (sim_init nv) T H) as [s [evss [abl [R [S [P [A [C B]]]]]]]].
  rewrite cnt_init in C. unfold cnt in C.
  destruct (sim_errs _ _ _ S) as [EL EH]. destruct (sim_linv _ _ _ S) as [LL LH].
  exists s, evss. split; [exact R|]. split; [exact P|]. split; [exact A|]. split; [exact EL|]. split; [exact EH|].
  split; [lia|]. split.
  { intros i t Hi. destruct (sim_own _ _ _ S i t Hi) as [p [Hv [Ht [AL _]]]]. exists p. auto. }
  split; [apply (sim_scope _ _ _ S)|]. split.
  { intros NA NO. rewrite NA, NO in C. simpl in C.
    assert (E : n_ctor (st_led s) = n_dtor (st_led s)) by lia.
    split; [apply (linv_ok_balanced _ LL EL); exact E|]. split; [|exact E].
    intros b. destruct (is_live (lget (st_heap s) b)) eqn:L; [|reflexivity]. exfalso.
    rewrite (B NA) in S.
    destruct (sim_live_heap _ _ _ S b L) as [[i [t [p [[Ha _] _]]]] | []].
    eapply owned_nil_no_owner; eauto. }
  intros i t Hi.
  destruct (step_invoke o s av abl i t true OK S Hi) as [s2 [evs [abl2 [St [_ [Pj [Al _]]]]]]].
  exists s2, evs. split; [exact St|]. split; [exact Pj | exact Al].
Qed.

(* the accounting consequence: what is left alive is exactly what is still owned plus what was abandoned *)
Lemma once_live_count o nv ops av aevss s evss : oracle_ok o -> types_ok ops = true ->
  arun (ainit nv) ops = Some (av, aevss) -> run o (init nv) ops = Some (s, evss) ->
  live_count (st_led s) = Z.of_nat (length (owned av)) + Z.of_nat (length (abandoned (concat aevss))).
Proof.
  intros OK T H R.
  destruct (run_sim o ops (init nv) (ainit nv) [] av aevss OK (sim_init nv) T H) as [s' [evss' [abl [R' [S [_ [_ [C _]]]]]]]].
  rewrite R in R'. inversion R'; subst s' evss'. rewrite cnt_init in C. unfold cnt in C.
  destruct (sim_errs _ _ _ S) as [EL _]. destruct (sim_linv _ _ _ S) as [LL _].
  rewrite <- (linv_ok_live _ LL EL). lia.
Qed.

(* the same with the concrete run given *)
Lemma once_main_run o nv ops av aevss s evss : oracle_ok o -> types_ok ops = true ->
  arun (ainit nv) ops = Some (av, aevss) -> run o (init nv) ops = Some (s, evss) ->
    map project evss = map (filter not_abandon) aevss /\
    forallb (forallb ev_aligned) evss = true /\
    ok (st_led s) /\ ok (st_heap s) /\
    (forall i t, nget av i = Some (Some t) ->
       exists p, nget (st_vars s) i = Some (Some p) /\ p_tag p = t /\ lget (st_led s) (p_ser p) = Alive) /\
    (abandoned (concat aevss) = [] -> owned av = [] ->
       balanced (st_led s) /\ balanced (st_heap s) /\ n_ctor (st_led s) = n_dtor (st_led s)) /\
    (forall i t, nget av i = Some (Some t) ->
       exists s2 evs, step o s (OCall i) = Some (s2, evs) /\ project evs = [AInvoke t; ADestroy t] /\
                      forallb ev_aligned evs = true).
Proof.
  intros OK T H R. destruct (once_main o nv ops av aevss OK T H) as [s' [evss' [R' X]]].
  rewrite R in R'. inversion R'; subst s' evss'. tauto.
Qed.

Lemma at_most_once_proof : forall o nv ops av aevss s evss, oracle_ok o -> types_ok ops = true -> NoDup (make_tags ops) ->
  arun (ainit nv) ops = Some (av, aevss) -> run o (init nv) ops = Some (s, evss) ->
  map (fun e => invoked (project e)) evss = map invoked aevss /\
  NoDup (invoked (concat (map project evss))).
Proof.
  intros o nv ops av aevss s evss OK T ND H R.
  destruct (once_main_run o nv ops av aevss s evss OK T H R) as [P _].
  destruct (protocol_once nv ops av aevss H ND) as [NI _]. split.
  - rewrite <- (map_map project invoked), P, map_map. apply map_ext. intros e. apply invoked_filter.
  - rewrite P, invoked_concat_filter. exact NI.
Qed.

Lemma destroy_once_proof : forall o nv ops av aevss s evss, oracle_ok o -> types_ok ops = true -> NoDup (make_tags ops) ->
  arun (ainit nv) ops = Some (av, aevss) -> run o (init nv) ops = Some (s, evss) ->
  map (fun e => destroyed (project e)) evss = map destroyed aevss /\
  NoDup (destroyed (concat (map project evss))) /\
  ok (st_led s) /\ ok (st_heap s) /\
  Permutation (make_tags ops) (destroyed (concat aevss) ++ abandoned (concat aevss) ++ owned av) /\
  (abandoned (concat aevss) = [] -> owned av = [] ->
     balanced (st_led s) /\ balanced (st_heap s) /\ n_ctor (st_led s) = n_dtor (st_led s)).
Proof.
  intros o nv ops av aevss s evss OK T ND H R.
  destruct (once_main_run o nv ops av aevss s evss OK T H R) as [P [_ [OL [OH [_ [B _]]]]]].
  destruct (protocol_once nv ops av aevss H ND) as [_ [NDd PM]]. split.
  - rewrite <- (map_map project destroyed), P, map_map. apply map_ext. intros e. apply destroyed_filter.
  - split; [rewrite P, destroyed_concat_filter; exact NDd|]. auto.
Qed.

Lemma aligned_proof : forall o nv ops av aevss s evss, oracle_ok o -> types_ok ops = true ->
  arun (ainit nv) ops = Some (av, aevss) -> run o (init nv) ops = Some (s, evss) ->
  forallb (forallb ev_aligned) evss = true.
Proof. intros o nv ops av aevss s evss OK T H R. apply (once_main_run o nv ops av aevss s evss OK T H R). Qed.

Lemma move_transfers_proof : forall o nv ops av aevss s evss, oracle_ok o -> types_ok ops = true ->
  arun (ainit nv) ops = Some (av, aevss) -> run o (init nv) ops = Some (s, evss) ->
  forall i t, nget av i = Some (Some t) ->
    (exists p, nget (st_vars s) i = Some (Some p) /\ p_tag p = t /\ lget (st_led s) (p_ser p) = Alive) /\
    (exists s2 evs, step o s (OCall i) = Some (s2, evs) /\ project evs = [AInvoke t; ADestroy t] /\
                    forallb ev_aligned evs = true).
Proof.
  intros o nv ops av aevss s evss OK T H R i t Hi.
  destruct (once_main_run o nv ops av aevss s evss OK T H R) as [_ [_ [_ [_ [O [_ C]]]]]]. split; auto.
Qed.

Lemma protocol_runs_proof : forall o nv ops av aevss, oracle_ok o -> types_ok ops = true ->
  arun (ainit nv) ops = Some (av, aevss) -> exists s evss, run o (init nv) ops = Some (s, evss).
Proof. intros o nv ops av aevss OK T H. destruct (once_main o nv ops av aevss OK T H) as [s [evss [R _]]]. eauto. Qed.

(* what if neither operator() nor cleanupNotRun() happens: the callable stays alive -- one live object per callable
   that is still owned or was abandoned, so the run is balanced iff there is none *)
Lemma neither_leaks_proof : forall o nv ops av aevss s evss, oracle_ok o -> types_ok ops = true ->
  arun (ainit nv) ops = Some (av, aevss) -> run o (init nv) ops = Some (s, evss) ->
  live_count (st_led s) = Z.of_nat (length (owned av)) + Z.of_nat (length (abandoned (concat aevss))) /\
  (balanced (st_led s) <-> owned av = [] /\ abandoned (concat aevss) = []).
Proof.
  intros o nv ops av aevss s evss OK T H R.
  pose proof (once_live_count o nv ops av aevss s evss OK T H R) as C. split; [exact C|].
  destruct (run_sim o ops (init nv) (ainit nv) [] av aevss OK (sim_init nv) T H) as [s' [evss' [abl [R' [S _]]]]].
  rewrite R in R'. inversion R'; subst s' evss'. destruct (sim_linv _ _ _ S) as [[W _] _]. split.
  - intros B. apply balanced_complete in B; [|exact W]. unfold balancedb in B. apply Z.eqb_eq in B.
    destruct (owned av), (abandoned (concat aevss)); simpl in *; auto; lia.
  - intros [E1 E2]. apply balancedb_sound. unfold balancedb. rewrite C, E1, E2. reflexivity.
Qed.

Lemma oracle0_ok : oracle_ok oracle0.
Proof.
  unfold oracle_ok, oracle0; cbn [vaddr pool_addr malloc_ret]. split; [|split].
  - intros i. exists (Z.of_nat i + 3). ring.
  - intros K b. exists (b + 5). ring.
  - intros b. pose proof (Z.mod_pos_bound b 1000000 ltac:(lia)) as M.
    change (2 ^ 63) with 9223372036854775808. lia.
Qed.
