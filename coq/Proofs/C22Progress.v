(* C22 / C23 progress: from every reachable state of balanced scripts (lock_upgrade used under the documented
   single-writer discipline) a state in which every thread has finished remains reachable -- no deadlock and no
   spin-livelock trap, for any number of threads, any N, any K.
   Variant: Phi = sum over threads of (rank of the pc inside the current operation + weight of the remaining script).
   A step is "good" when it is not the failing iteration of a spin / drain loop; every good step decreases Phi; the
   invariant of Proofs/C22Proofs.v (word equation, owner intervals, no lost wake-up) plus ordered acquisition of the
   slots (rank argument: two spinning writers would both own slot 0) shows that a good step always exists. *)
From Coq Require Import ZArith List Bool Lia Arith.
From DV Require Import Base.MachInt Base.Sched Model.RWLockModel Proofs.C22Proofs.
Import ListNotations.
Local Open Scope Z_scope.

Section Progress.
  Variable N K : nat.
  Hypothesis N_pos : (0 < N)%nat.

  Ltac nat_cases := repeat match goal with
    | |- context [(?a <=? ?b)%nat] => destruct (Nat.leb_spec a b)
    | |- context [(?a <? ?b)%nat] => destruct (Nat.ltb_spec a b)
    | |- context [(?a =? ?b)%nat] => destruct (Nat.eqb_spec a b)
    | H : context [(?a <=? ?b)%nat] |- _ => destruct (Nat.leb_spec a b)
    | H : context [(?a <? ?b)%nat] |- _ => destruct (Nat.ltb_spec a b)
    | H : context [(?a =? ?b)%nat] |- _ => destruct (Nat.eqb_spec a b)
    end.
  Ltac ztest E := match type of E with
    | context [?a <? ?b] => let e := fresh "Ez" in destruct (a <? b) eqn:e; [apply Z.ltb_lt in e | apply Z.ltb_ge in e]
    | context [?a =? ?b] => let e := fresh "Ez" in destruct (a =? b) eqn:e; [apply Z.eqb_eq in e | apply Z.eqb_neq in e]
    | context [(?a <? ?b)%nat] => let e := fresh "En" in destruct (a <? b)%nat eqn:e; [apply Nat.ltb_lt in e | apply Nat.ltb_ge in e]
    end.

  (* ---------- a variant: rank of the pc inside the current operation + weight of the remaining script ---------- *)
  Definition rank0 (p : pc) : Z :=
    let n := Z.of_nat N in
    match p with
    | PDone | PCsExit _ => 0
    | PStart | PCsEnter => 1
    | PWaitLoad i _ => 4 * (n - Z.of_nat i - 1) + 2
    | PWoken i _ => 4 * (n - Z.of_nat i - 1) + 3
    | PBlocked i _ => 4 * (n - Z.of_nat i - 1) + 4
    | PWaitFutex i _ _ => 4 * (n - Z.of_nat i - 1) + 5
    | PUpSub => 4 * n + 2
    | PSetW i _ | PDTryOr i _ => (n - Z.of_nat i) + 4 * n + 2
    | PDTryRb j i _ => (Z.of_nat i - Z.of_nat j) + 1
    | PTryAnd _ => 2
    | PTrySpin j _ => 3 + Z.of_nat j
    | PTryOr _ => Z.of_nat K + 4
    | PUnlockAnd i _ => (n - Z.of_nat i) + 1
    | PDownAdd => n + 2
    | PLsAdd _ => 2
    | PLsSpin _ => 3
    | PRelWake _ _ => 4
    | PRelSub _ _ => 5
    | PTlsAdd _ _ => 6
    end.
  Definition rank (p : pc) : Z := match p with PCsExit o => rank0 (entry' N o) + 1 | _ => rank0 p end.
  Definition opw (o : op) : Z := rank0 (entry' N o) + 2.
  Definition progw (p : list op) : Z := sumZ opw p.
  Definition mu (th : thread) : Z := rank (tpc th) + progw (prog th).

  Lemma rank0_entry_nonneg o : 0 <= rank0 (entry' N o).
  Proof. destruct o; cbn -[Z.mul Z.add Z.sub Z.of_nat]; try lia. Qed.
  Ltac zc := cbn -[Z.mul Z.add Z.sub Z.of_nat Z.lt Z.le].
  Lemma opw_pos o : 0 < opw o.
  Proof. unfold opw. pose proof (rank0_entry_nonneg o). lia. Qed.
  Lemma progw_nonneg p : 0 <= progw p.
  Proof. induction p as [|o r IH]; [cbn; lia | pose proof (opw_pos o); unfold progw in *; cbn [sumZ]; lia]. Qed.
  Lemma progw_skipn n p : progw (skipn n p) <= progw p.
  Proof.
    revert p; induction n as [|n IH]; intros p; [cbn [skipn]; lia|]. destruct p as [|o r]; [cbn [skipn]; lia|].
    cbn [skipn]. specialize (IH r). unfold progw in *. cbn [sumZ]. pose proof (opw_pos o). lia.
  Qed.
  Lemma rank_entry m o : rank (entry N m o) <= rank0 (entry' N o) + 1.
  Proof. unfold entry. destruct (is_release o); [destruct m|]; destruct o; zc; lia. Qed.
  Lemma mu_next th : mu (next N th) <= progw (prog th).
  Proof.
    unfold next, mu. destruct (prog th) as [|o r]; cbn [tpc prog]; [cbn; lia|].
    pose proof (rank_entry (tmode th) o). unfold progw. cbn [sumZ]. unfold opw. lia.
  Qed.
  Definition goodb (th : thread) (w : Z) : bool :=
    match tpc th with
    | PSetW _ _ | PLsAdd _ | PLsSpin _ => 0 <=? w
    | PWaitLoad _ _ => w =? WB
    | PBlocked _ _ | PDone => false
    | _ => true
    end.

  Lemma good_step th w : wf_thread N true th -> goodb th w = true ->
    exists w' th' site wake, tstep N K w th = Some (w', th', site, wake) /\ mu th' < mu th.
  Proof.
    destruct th as [p pr rs m]. unfold wf_thread, goodb; cbn [tpc tmode prog]. intros W G.
    destruct m; [| destruct W as [_ W] | destruct W as [_ W]]; destruct p; try contradiction; try discriminate;
      unfold tstep; cbn [tpc tmode];
      repeat match goal with H : _ /\ _ |- _ => destruct H end;
      try (apply Z.leb_le in G); try (apply Z.eqb_eq in G);
      unfold drained, rel_done, try_failed, spin_or_and;
      try (destruct k);
      try match goal with |- context [match ?i with O => _ | S _ => _ end] => destruct i eqn:? end;
      repeat match goal with
             | |- context [if (?a <? ?b) then _ else _] => let e := fresh "Ez" in destruct (a <? b) eqn:e; [apply Z.ltb_lt in e | apply Z.ltb_ge in e]
             | |- context [if (?a =? ?b) then _ else _] => let e := fresh "Ez" in destruct (a =? b) eqn:e; [apply Z.eqb_eq in e | apply Z.eqb_neq in e]
             | |- context [if (?a <? ?b)%nat then _ else _] => let e := fresh "En" in destruct (a <? b)%nat eqn:e; [apply Nat.ltb_lt in e | apply Nat.ltb_ge in e]
             end;
      try lia;
      do 4 eexists; (split; [reflexivity|]).
    all: try (eapply Z.le_lt_trans; [apply mu_next|]);
      unfold mu, goto, acquire, skip, logr; cbn [tpc prog tmode res]; unfold rank; zc;
      try match goal with |- context [skipn ?n ?p] => pose proof (progw_skipn n p) end;
      try match goal with |- context [progw ?p] => pose proof (progw_nonneg p) end;
      try lia.
    all: destruct o; zc; lia.
  Qed.

  Definition Phi (s : state) : Z := sumZ mu (threads s).
  Definition gthread (s : state) (th : thread) : bool := goodb th (nth (pslot (tpc th)) (words s) 0).

  Lemma mu_wake1 i th : mu (wake1 i th) <= mu th.
  Proof.
    unfold wake1. destruct (tpc th) eqn:P; try lia. destruct (i0 =? i)%nat; [|lia].
    unfold mu, goto. cbn [tpc prog]. rewrite P. unfold rank. zc. lia.
  Qed.

  Lemma sumZ_map_le {A} (f : A -> Z) g l : (forall x, f (g x) <= f x) -> sumZ f (map g l) <= sumZ f l.
  Proof. intros H. induction l as [|a l IH]; cbn [map sumZ]; [lia | specialize (H a); lia]. Qed.

  Lemma good_step_global s t th :
    nth_error (threads s) t = Some th -> wf_thread N true th -> gthread s th = true ->
    exists s' site, step N K s t [] = Some (s', [], site) /\ Phi s' < Phi s.
  Proof.
    intros Ht W G. destruct (good_step _ _ W G) as (w' & th' & site & wake & Et & Hmu).
    unfold step. rewrite Ht, Et. eexists; eexists; split; [reflexivity|]. unfold Phi; cbn [threads].
    assert (Hnb : wake1 (pslot (tpc th)) th = th).
    { unfold wake1. unfold gthread, goodb in G. destruct (tpc th); try reflexivity; discriminate. }
    destruct wake.
    - assert (H1 : nth_error (wake_all (pslot (tpc th)) (threads s)) t = Some th).
      { unfold wake_all. erewrite map_nth_error; eauto. f_equal. exact Hnb. }
      rewrite (sumZ_set_nth _ _ _ _ _ H1).
      pose proof (sumZ_map_le mu (wake1 (pslot (tpc th))) (threads s) (mu_wake1 _)) as L. unfold wake_all, wake1 in *. lia.
    - rewrite (sumZ_set_nth _ _ _ _ _ Ht). lia.
  Qed.
  (* ---------- the single-writer discipline lock_upgrade needs, as a state invariant ---------- *)
  Definition pc_up (p : pc) : bool := match p with PCsExit OUpgrade | PSetW _ KUpgrade => true | _ => false end.
  Definition may_up (th : thread) : bool := pc_up (tpc th) || existsb is_upgrade (prog th).
  Definition pc_wr (p : pc) : bool :=
    match p with
    | PSetW _ _ | PWaitLoad _ _ | PWaitFutex _ _ _ | PBlocked _ _ | PWoken _ _ | PUpSub | PTryOr _ | PTrySpin _ _ | PTryAnd _
    | PDTryOr _ _ | PDTryRb _ _ _ | PUnlockAnd _ _ | PDownAdd | PCsExit OUpgrade => true
    | _ => false
    end.
  Definition may_wr (th : thread) : bool :=
    pc_wr (tpc th) || (match tmode th with MW => true | _ => false end) || existsb is_write_op (prog th).
  Definition Safe (s : state) : Prop :=
    forall t1 t2 th1 th2, t1 <> t2 -> nth_error (threads s) t1 = Some th1 -> nth_error (threads s) t2 = Some th2 ->
    may_up th1 = true -> may_wr th2 = false.

  Lemma existsb_skipn {A} (f : A -> bool) n l : existsb f (skipn n l) = true -> existsb f l = true.
  Proof.
    revert l; induction n as [|n IH]; intros l H; [exact H|]. destruct l as [|a l]; [exact H|].
    cbn [skipn] in H. cbn. rewrite (IH _ H). apply orb_true_r.
  Qed.

  Lemma may_next th :
    wfp N true (tmode th) (prog th) ->
    (may_up (next N th) = true -> existsb is_upgrade (prog th) = true) /\
    (may_wr (next N th) = true -> tmode th = MW \/ existsb is_write_op (prog th) = true).
  Proof.
    destruct th as [p pr rs m]. cbn [tmode prog]. intros W. unfold next, may_up, may_wr. cbn [prog tmode res].
    destruct pr as [|o r]; [cbn; split; intros H; [discriminate | destruct m; auto; discriminate]|].
    inversion W; subst; cbn [tpc prog tmode entry entry' is_release pc_up pc_wr existsb is_upgrade is_write_op orb]; split; intros H; auto;
      try (right; exact H); try discriminate; rewrite ?orb_false_r in *; auto.
  Qed.

  Lemma tstep_may th w w' th' site wake :
    wf_thread N true th -> tstep N K w th = Some (w', th', site, wake) ->
    (may_up th' = true -> may_up th = true) /\ (may_wr th' = true -> may_wr th = true).
  Proof.
    destruct th as [p pr rs m]. unfold wf_thread; cbn [tpc tmode prog]. intros W E.
    destruct m; [| destruct W as [_ W] | destruct W as [_ W]]; destruct p; try contradiction;
      unfold tstep, drained, rel_done, try_failed, spin_or_and in E; cbn [tpc tmode] in E; try discriminate;
      try (destruct k);
      repeat match goal with H : _ /\ _ |- _ => destruct H end;
      repeat ztest E;
      try match type of E with context [match ?i with O => _ | S _ => _ end] => destruct i end;
      repeat ztest E;
      injection E as <- <- _ <-;
      try match goal with Wo : wfp N true _ (_ :: _) |- _ => inversion Wo; subst end;
      (split; intros Hmay);
      try match goal with
          | Ws : wfp N true _ _, Hq : may_up (next N ?x) = true |- _ => destruct (may_next x Ws) as [U _]; specialize (U Hq); clear Hq
          | Ws : wfp N true _ _, Hq : may_wr (next N ?x) = true |- _ => destruct (may_next x Ws) as [_ U]; specialize (U Hq); clear Hq
          end;
      unfold may_up, may_wr, goto, acquire, logr, skip in *; cbn [tpc prog tmode res pc_up pc_wr orb entry'] in *;
      try reflexivity; try assumption;
      try (destruct U as [U|U]; [discriminate|]);
      try (match goal with U : existsb _ (skipn _ _) = true |- _ => apply existsb_skipn in U end);
      try (match goal with U : _ = true |- _ => rewrite U end); rewrite ?orb_true_r; try reflexivity.
  Qed.
  Lemma may_wake1 i th : may_up (wake1 i th) = may_up th /\ may_wr (wake1 i th) = may_wr th.
  Proof.
    unfold wake1. destruct (tpc th) eqn:P; try (split; reflexivity). destruct (i0 =? i)%nat; [|split; reflexivity].
    unfold may_up, may_wr, goto; cbn [tpc prog tmode]. rewrite P. split; reflexivity.
  Qed.

  Lemma step_pos s t ch s' ch' site :
    Inv N true s -> step N K s t ch = Some (s', ch', site) ->
    forall u y, nth_error (threads s') u = Some y ->
    exists x, nth_error (threads s) u = Some x /\ (may_up y = true -> may_up x = true) /\ (may_wr y = true -> may_wr x = true).
  Proof.
    intros (_ & _ & HT & _) E u y Hy. rewrite Forall_forall in HT. unfold step in E.
    destruct (nth_error (threads s) t) as [th|] eqn:Ht; [|discriminate].
    destruct (tstep N K (nth (pslot (tpc th)) (words s) 0) th) as [[[[w' th'] site'] wake]|] eqn:Et; [|discriminate].
    injection E as <- _ _. cbn [threads] in Hy.
    set (ths1 := if wake then wake_all (pslot (tpc th)) (threads s) else threads s) in *.
    assert (F2 : Forall2 (fun x y => (may_up y = true -> may_up x = true) /\ (may_wr y = true -> may_wr x = true)) (threads s) ths1).
    { unfold ths1. destruct wake.
      - unfold wake_all. apply (Forall2_map_r _ (wake1 (pslot (tpc th)))). intros x. destruct (may_wake1 (pslot (tpc th)) x) as [-> ->]. auto.
      - apply Forall2_refl. auto. }
    destruct (Nat.eq_dec u t) as [->|D].
    - destruct (Forall2_nth_error_l _ _ _ _ _ F2 Ht) as [y0 [Hy0 _]].
      rewrite (nth_error_set_nth_eq _ _ _ _ Hy0) in Hy. injection Hy as <-.
      exists th. split; [exact Ht|]. eapply tstep_may; eauto. apply HT. eapply nth_error_In; eauto.
    - rewrite nth_error_set_nth_neq in Hy by lia. destruct (Forall2_nth_error_r _ _ _ _ _ F2 Hy) as [x [Hx R]]. exists x. tauto.
  Qed.

  Lemma safe_step s t ch s' ch' site : Inv N true s -> Safe s -> step N K s t ch = Some (s', ch', site) -> Safe s'.
  Proof.
    intros I S E t1 t2 y1 y2 D H1 H2 U.
    destruct (step_pos _ _ _ _ _ _ I E _ _ H1) as (x1 & X1 & U1 & _).
    destruct (step_pos _ _ _ _ _ _ I E _ _ H2) as (x2 & X2 & _ & W2).
    pose proof (S _ _ _ _ D X1 X2 (U1 U)) as F. destruct (may_wr y2) eqn:Y; [|reflexivity]. rewrite (W2 eq_refl) in F. discriminate.
  Qed.
  Lemma sumZ_pos_ex {A} (f : A -> Z) l : (forall x, 0 <= f x) -> 0 < sumZ f l -> exists t x, nth_error l t = Some x /\ 0 < f x.
  Proof.
    intros P. induction l as [|a l IH]; cbn [sumZ]; [lia|]. intros H.
    destruct (Z_lt_le_dec 0 (f a)) as [Fa|Fa].
    - exists O, a. split; [reflexivity | exact Fa].
    - destruct IH as (t & x & Hx & Fx); [specialize (P a); lia|]. exists (S t), x. split; [exact Hx | exact Fx].
  Qed.

  Lemma existsb_false_all {A} (f : A -> bool) l : existsb f l = false -> forall x, In x l -> f x = false.
  Proof.
    induction l as [|a l IH]; cbn; [contradiction|]. intros H x [<-|Hx].
    - destruct (f a); [discriminate | reflexivity].
    - apply IH; [destruct (f a); [discriminate | exact H] | exact Hx].
  Qed.

  Section NoGood.
    Variable s : state.
    Hypothesis I : Inv N true s.
    Hypothesis S : Safe s.
    Hypothesis NG : forall th, In th (threads s) -> gthread s th = false.

    Let HT : forall x, In x (threads s) -> wf_thread N true x.
    Proof. destruct I as (_ & _ & F & _). rewrite Forall_forall in F. exact F. Qed.

    Lemma no_drainer d i k : In d (threads s) -> tpc d = PWaitLoad i k \/ tpc d = PBlocked i k -> False.
    Proof.
      intros Hd P. pose proof (HT _ Hd) as Wd. pose proof I as (HL & (HWl & HW) & _ & _ & HNL).
      assert (Md : tmode d = MIdle /\ (i < N)%nat).
      { unfold wf_thread in Wd. destruct P as [P|P]; rewrite P in Wd; destruct (tmode d); try tauto. }
      destruct Md as [Md Hi].
      assert (Od : ownz N d i = 1).
      { unfold ownz, own_range. rewrite Md. destruct P as [P|P]; rewrite P; cbn [own_range_pc fst snd]; nat_cases; cbn; lia. }
      assert (Hw : nth i (words s) 0 <> WB).
      { destruct P as [P|P].
        - pose proof (NG _ Hd) as G. unfold gthread, goodb in G. rewrite P in G. cbn [pslot] in G. apply Z.eqb_neq. exact G.
        - intros E. destruct (HNL i (ex_intro _ d (ex_intro _ k (conj Hd P))) E) as (p & kp & Hp & Pp).
          pose proof (NG _ Hp) as G. unfold gthread, goodb in G. rewrite Pp in G. discriminate. }
      destruct (HW i Hi) as [Ew Ho].
      apply In_nth_error in Hd. destruct Hd as [td Hd].
      pose proof (sumZ_ge (fun th => ownz N th i) _ _ _ (fun y => proj1 (ownz_range N N_pos y i)) Hd) as G1. cbn in G1. fold (nown N (threads s) i) in G1.
      pose proof (sumZ_bounds (fun th => rdz th i) (threads s) (fun y => rdz_range N N_pos y i)) as [C0 _]. fold (ncnt (threads s) i) in C0.
      assert (Cp : 0 < ncnt (threads s) i).
      { destruct (Z.eq_dec (ncnt (threads s) i) 0) as [Z0|]; [|lia]. exfalso. apply Hw. rewrite Ew, Z0. replace (nown N (threads s) i) with 1 by lia. lia. }
      destruct (sumZ_pos_ex (fun th => rdz th i) _ (fun y => proj1 (rdz_range N N_pos y i)) Cp) as (tr & r & Hr & Fr).
      pose proof (nth_error_In _ _ Hr) as Hrin. pose proof (HT _ Hrin) as Wr. pose proof (NG _ Hrin) as Gr.
      unfold rdz, rd in Fr. unfold wf_thread in Wr. unfold gthread, goodb in Gr.
      destruct (tmode r) eqn:Mr.
      - (* idle: holds a count as part of an operation *)
        destruct (tpc r) eqn:Pr; cbn [rd_pc] in Fr; try lia; try discriminate Gr.
        destruct k0; try lia.
        (* the upgrader: excluded by the single-writer discipline *)
        assert (Dt : tr <> td).
        { intros ->. rewrite Hd in Hr. injection Hr as ->. destruct P as [P|P]; congruence. }
        pose proof (S _ _ _ _ Dt Hr Hd) as F. unfold may_up, may_wr in F. rewrite Pr in F. cbn [pc_up orb] in F. specialize (F eq_refl).
        destruct P as [P|P]; rewrite P in F; cbn in F; discriminate.
      - lia.
      - destruct Wr as [_ Wr]. destruct (tpc r); try contradiction; try discriminate Gr. destruct Wr; discriminate.
    Qed.
    Lemma owner_of_set_bit i : (i < N)%nat -> nth i (words s) 0 < 0 -> exists o, In o (threads s) /\ ownz N o i = 1.
    Proof.
      intros Hi Hw. pose proof I as (HL & (HWl & HW) & _). destruct (HW i Hi) as [Ew Ho].
      pose proof (sumZ_bounds (fun th => rdz th i) (threads s) (fun y => rdz_range N N_pos y i)) as [C0 C1]. fold (ncnt (threads s) i) in C0, C1.
      pose proof (sumZ_bounds (fun th => ownz N th i) (threads s) (fun y => ownz_range N N_pos y i)) as [O0 _]. fold (nown N (threads s) i) in O0.
      assert (Op : 0 < nown N (threads s) i).
      { destruct (Z.eq_dec (nown N (threads s) i) 0) as [Z0|]; [|lia]. rewrite Z0 in Ew. lia. }
      destruct (sumZ_pos_ex (fun th => ownz N th i) _ (fun y => proj1 (ownz_range N N_pos y i)) Op) as (t & o & Hto & Fo).
      exists o. split; [eapply nth_error_In; eauto|]. pose proof (ownz_range N N_pos o i). lia.
    Qed.

    Lemma owner_chain o i :
      In o (threads s) -> ownz N o i = 1 ->
      exists i', tpc o = PSetW i' KLock /\ tmode o = MIdle /\ (i < i')%nat /\ (i' < N)%nat /\ nth i' (words s) 0 < 0.
    Proof.
      intros Ho Oo. pose proof (HT _ Ho) as Wo. pose proof (NG _ Ho) as Go.
      unfold wf_thread in Wo. unfold gthread, goodb in Go. unfold ownz, own_range in Oo.
      destruct (tmode o) eqn:Mo.
      - destruct (tpc o) eqn:Po; try discriminate Go; cbn [own_range_pc fst snd] in Oo;
          try (exfalso; revert Oo; nat_cases; cbn; lia).
        + destruct k; cbn [fst snd] in Oo; [| exfalso; revert Oo; nat_cases; cbn; lia | contradiction].
          exists i0. cbn [pslot] in Go. apply Z.leb_gt in Go. destruct Wo as [Hi0 _].
          repeat split; auto. revert Oo. nat_cases; cbn; lia.
        + exfalso. eapply no_drainer; eauto.
        + exfalso. eapply no_drainer; eauto.
      - destruct Wo as [_ Wo]. destruct (tpc o); try contradiction; try discriminate Go. destruct Wo; discriminate.
      - exfalso. revert Oo. cbn [fst snd]. nat_cases; cbn; lia.
    Qed.
    Lemma no_good_is_finished : finished s = true.
    Proof.
      destruct (finished s) eqn:Hf; [reflexivity | exfalso].
      destruct (forallb_false_ex _ _ Hf) as [x [Hx Px]].
      pose proof (HT _ Hx) as Wx. pose proof (NG _ Hx) as Gx. pose proof (pslot_lt N true N_pos _ Wx) as Hs.
      unfold gthread, goodb in Gx.
      assert (Hw : nth (pslot (tpc x)) (words s) 0 < 0).
      { destruct (tpc x) eqn:P; try discriminate Gx; try discriminate Px; cbn [pslot] in *; try (apply Z.leb_gt in Gx; exact Gx);
          exfalso; eapply no_drainer; eauto. }
      destruct (owner_of_set_bit _ Hs Hw) as (o1 & Ho1 & O1).
      destruct (owner_chain _ _ Ho1 O1) as (i1 & P1 & M1 & L1 & N1 & W1).
      destruct (owner_of_set_bit _ N1 W1) as (o2 & Ho2 & O2).
      destruct (owner_chain _ _ Ho2 O2) as (i2 & P2 & M2 & L2 & N2 & W2).
      assert (Z1 : ownz N o1 O = 1) by (unfold ownz, own_range; rewrite M1, P1; cbn [own_range_pc fst snd]; nat_cases; cbn; lia).
      assert (Z2 : ownz N o2 O = 1) by (unfold ownz, own_range; rewrite M2, P2; cbn [own_range_pc fst snd]; nat_cases; cbn; lia).
      apply In_nth_error in Ho1. destruct Ho1 as [t1 Ho1]. apply In_nth_error in Ho2. destruct Ho2 as [t2 Ho2].
      assert (D : t1 <> t2) by (intros ->; rewrite Ho1 in Ho2; injection Ho2 as ->; rewrite P1 in P2; injection P2 as ->; lia).
      pose proof (sumZ_ge2 (fun th => ownz N th O) _ _ _ _ _ (fun y => proj1 (ownz_range N N_pos y O)) D Ho1 Ho2) as G. cbn in G.
      destruct I as (_ & (_ & HW) & _). destruct (HW O N_pos) as [_ Hle]. unfold nown in Hle. lia.
    Qed.
  End NoGood.

  Lemma exists_good s :
    Inv N true s -> Safe s -> finished s = false ->
    exists t th, nth_error (threads s) t = Some th /\ gthread s th = true.
  Proof.
    intros I S Hf. destruct (existsb (gthread s) (threads s)) eqn:Ex.
    - apply existsb_exists in Ex. destruct Ex as (th & Hth & G). apply In_nth_error in Hth. destruct Hth as [t Ht]. eauto.
    - exfalso. pose proof (no_good_is_finished s I S (existsb_false_all _ _ Ex)). congruence.
  Qed.
  Lemma mu_nonneg th : wf_thread N true th -> 0 <= mu th.
  Proof.
    destruct th as [p pr rs m]. unfold wf_thread, mu; cbn [tpc tmode prog]. intros W. pose proof (progw_nonneg pr) as Pn.
    assert (0 <= rank p); [|lia].
    destruct m; [| destruct W as [_ W] | destruct W as [_ W]]; destruct p; try contradiction; unfold rank; zc;
      try (destruct k); repeat match goal with H : _ /\ _ |- _ => destruct H end; try lia;
      pose proof (rank0_entry_nonneg o); lia.
  Qed.

  Lemma Phi_nonneg s : Inv N true s -> 0 <= Phi s.
  Proof.
    intros (_ & _ & HT & _). unfold Phi. induction HT as [|a l Wa F IH]; cbn [sumZ]; [lia|]. pose proof (mu_nonneg _ Wa). lia.
  Qed.

  Lemma can_finish_from n : forall s, Phi s < Z.of_nat n -> Inv N true s -> Safe s ->
    exists s', reach (step N K) s s' /\ finished s' = true.
  Proof.
    induction n as [|n IH]; intros s Hn I S.
    - pose proof (Phi_nonneg s I). lia.
    - destruct (finished s) eqn:Hf; [exists s; split; [apply reach_refl | exact Hf]|].
      destruct (exists_good s I S Hf) as (t & th & Ht & G).
      assert (Wth : wf_thread N true th).
      { destruct I as (_ & _ & HT & _). rewrite Forall_forall in HT. apply HT. eapply nth_error_In; eauto. }
      destruct (good_step_global s t th Ht Wth G) as (s1 & site & E & Hphi).
      pose proof (step_inv N K true N_pos _ _ _ _ _ _ I E) as I1. pose proof (safe_step _ _ _ _ _ _ I S E) as S1.
      destruct (IH s1 ltac:(lia) I1 S1) as (s' & R & F).
      exists s'. split; [|exact F]. eapply reach_trans; [|exact R]. eapply reach_step; [apply reach_refl | exact E].
  Qed.

  (* scripts in which lock_upgrade is used under the documented discipline: a thread that may upgrade is the only one that
     ever acquires the lock for writing *)
  Definition upgrade_safe (progs : list (list op)) : Prop :=
    forall t1 t2 p1 p2, t1 <> t2 -> nth_error progs t1 = Some p1 -> nth_error progs t2 = Some p2 ->
    existsb is_upgrade p1 = true -> existsb is_write_op p2 = false.

  Lemma init_safe progs : upgrade_safe progs -> Safe (init N progs).
  Proof.
    intros U t1 t2 th1 th2 D H1 H2 M. unfold init in *. cbn [threads] in *.
    rewrite nth_error_map in H1, H2.
    destruct (nth_error progs t1) as [p1|] eqn:E1; [|discriminate]. destruct (nth_error progs t2) as [p2|] eqn:E2; [|discriminate].
    cbn in H1, H2. injection H1 as <-. injection H2 as <-. unfold may_up, may_wr in *. cbn in *.
    eapply U; eauto.
  Qed.

  Theorem can_always_finish progs s :
    scripts_ok N true progs -> upgrade_safe progs -> reach (step N K) (init N progs) s ->
    exists s', reach (step N K) s s' /\ finished s' = true.
  Proof.
    intros Sok U R.
    assert (IS : Inv N true s /\ Safe s).
    { apply (reach_inv (step N K) (fun s => Inv N true s /\ Safe s) (init N progs)); [| | exact R].
      - split; [destruct Sok as (_ & HL & F); apply init_inv; assumption | apply init_safe; exact U].
      - intros s1 t ch s1' ch' site [I1 S1] E. split; [eapply step_inv; eauto | eapply safe_step; eauto]. }
    destruct IS as [I S]. apply (can_finish_from (Z.to_nat (Phi s) + 1) s); auto. pose proof (Phi_nonneg s I). lia.
  Qed.
  (* the variant: in every reachable unfinished state some thread's next step strictly decreases Phi *)
  Theorem decreasing_step_exists progs s :
    scripts_ok N true progs -> upgrade_safe progs -> reach (step N K) (init N progs) s -> finished s = false ->
    exists t s' site, step N K s t [] = Some (s', [], site) /\ Phi s' < Phi s.
  Proof.
    intros Sok U R Hf.
    assert (IS : Inv N true s /\ Safe s).
    { apply (reach_inv (step N K) (fun s => Inv N true s /\ Safe s) (init N progs)); [| | exact R].
      - split; [destruct Sok as (_ & HL & F); apply init_inv; assumption | apply init_safe; exact U].
      - intros s1 t ch s1' ch' site [I1 S1] E. split; [eapply step_inv; eauto | eapply safe_step; eauto]. }
    destruct IS as [I S]. destruct (exists_good s I S Hf) as (t & th & Ht & G).
    assert (Wth : wf_thread N true th).
    { destruct I as (_ & _ & HT & _). rewrite Forall_forall in HT. apply HT. eapply nth_error_In; eauto. }
    destruct (good_step_global s t th Ht Wth G) as (s1 & site & E & Hphi). exists t, s1, site. auto.
  Qed.
End Progress.

Lemma no_upgrade_safe progs : Forall (fun p => existsb is_upgrade p = false) progs -> upgrade_safe progs.
Proof.
  intros F t1 t2 p1 p2 _ H1 _ U. rewrite Forall_forall in F. rewrite (F p1) in U; [discriminate | eapply nth_error_In; eauto].
Qed.

(* ---------- the discipline is needed: two upgraders (the misuse the header of rw_lock_impl.h warns about) ----------
   Both threads hold the lock shared; thread 0 claims the writer bit, gives up its own count and sleeps in the drain wait
   (word = WB|1); thread 1 spins in setWriteBit forever.  The state is a fixed point of the only enabled step. *)
Definition up2_progs : list (list op) := [[OLockShared 0; OUpgrade; OUnlock]; [OLockShared 0; OUpgrade; OUnlock]].
Definition up2_sched : list Z := [0; 1; 0; 1; 0; 1; 0; 1; 0; 0; 0; 0].
Definition up2_state : state := Eval vm_compute in fst (fst (run_rw 12 1 16 up2_progs up2_sched)).

Lemma up2_reachable : reach (step 1 16) (init 1 up2_progs) up2_state.
Proof. change up2_state with (fst (fst (run_rw 12 1 16 up2_progs up2_sched))). apply run_rw_reach. Qed.

Lemma up2_shape : words up2_state = [WB + 1] /\ map tpc (threads up2_state) = [PBlocked 0 KUpgrade; PSetW 0 KUpgrade] /\ finished up2_state = false.
Proof. vm_compute. repeat split; reflexivity. Qed.

Lemma up2_closed s' : reach (step 1 16) up2_state s' -> s' = up2_state.
Proof.
  intros R. induction R as [|s1 t ch s2 ch' site R IH E]; [reflexivity|]. subst s1.
  destruct t as [|[|t]].
  - vm_compute in E. discriminate.
  - unfold step in E. cbn in E. injection E as <- _ _. reflexivity.
  - unfold step in E. cbn in E. destruct t; discriminate.
Qed.

Theorem two_upgraders_never_finish :
  scripts_ok 1 true up2_progs /\ reach (step 1 16) (init 1 up2_progs) up2_state /\
  forall s', reach (step 1 16) up2_state s' -> finished s' = false.
Proof.
  split; [apply scripts_ok_of_wfb; [constructor | reflexivity | vm_compute; reflexivity]|].
  split; [exact up2_reachable|]. intros s' R. rewrite (up2_closed s' R). apply up2_shape.
Qed.
