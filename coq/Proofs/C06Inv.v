(* C06, part 2: the invariant of Model/NestedWaitModel.v for programs without waits on futures of enclosing bodies
   (noup), and its preservation by every step. *)
From Coq Require Import ZArith List Bool Arith Lia.
From DV Require Import Base.Sched Model.NestedWaitModel Proofs.C06Measure.
Import ListNotations.

Definition acts (s : state) : list act := flat_map stack (agents s).

Fixpoint sorted_desc (l : list nat) : Prop :=
  match l with [] => True | x :: r => (forall y, In y r -> y < x) /\ sorted_desc r end.

Definition ostart_of (s : state) (t : nat) : nat := j_ostart (join_of s (t_join (task_of s t))).

Record Inv (s : state) : Prop := {
  i_range : tiers_in_range s;
  i_sorted : forall g, In g (agents s) -> sorted_desc (map a_start (stack g));
  i_clock : forall x, In x (acts s) -> a_start x <= clock s;
  i_jclock : forall j, In j (joins s) -> j_ostart j <= clock s;
  i_own : forall x n gj, In x (acts s) -> In (n, gj) (a_own x) -> gj < length (joins s) /\ j_ostart (join_of s gj) = a_start x;
  i_mode : forall x gj, In x (acts s) -> (a_mode x = MWaitSet gj \/ a_mode x = MWaitFut gj) -> j_ostart (join_of s gj) = a_start x;
  i_noup_a : forall x, In x (acts s) -> noup (a_ops x) = true;
  i_noup_t : forall t, In t (tasks s) -> noup (t_body t) = true;
  i_active : forall t, t < length (tasks s) -> t_st (task_of s t) = TActive ->
             exists x, In x (acts s) /\ a_task x = t /\ ostart_of s t < a_start x;
  i_queued : forall t, t < length (tasks s) -> t_st (task_of s t) = TQueued -> In t (cq s ++ steal s);
  i_fut : forall gj, gj < length (joins s) -> j_kind (join_of s gj) = JFut ->
          j_ftask (join_of s gj) < length (tasks s) /\ t_join (task_of s (j_ftask (join_of s gj))) = gj;
  i_waitfut : forall x gj, In x (acts s) -> a_mode x = MWaitFut gj ->
              gj < length (joins s) /\ j_kind (join_of s gj) = JFut /\ t_st (task_of s (j_ftask (join_of s gj))) <> TQueued;
  i_parked : forall g, In g (agents s) -> parked g = true -> stack g = [];
  i_steal : steal s <> [] -> exists w, In w (agents s) /\ worker w = true /\ parked w = false /\
            forall t x, In t (steal s) -> In x (stack w) -> ostart_of s t < a_start x;
  i_root : 0 < length (agents s) /\ worker (agent_of s 0) = false
}.

(* ---------- lists / agents ---------- *)
Lemma in_set_nth {A} (l : list A) n y g : In g (set_nth l n y) -> g = y \/ In g l.
Proof.
  revert n; induction l as [|z r IH]; intros [|n]; cbn; try tauto.
  - intros [->|H]; auto.
  - intros [->|H]; auto. apply IH in H. tauto.
Qed.

Lemma set_nth_in_new {A} (l : list A) n y : n < length l -> In y (set_nth l n y).
Proof. revert n; induction l as [|z r IH]; intros [|n] H; cbn in *; try lia; auto. right. apply IH. lia. Qed.

Lemma set_nth_in_other {A} (l : list A) n m y d : m <> n -> m < length l -> In (nth m l d) (set_nth l n y).
Proof.
  revert n m; induction l as [|z r IH]; intros [|n] [|m] Hne H; cbn in *; try lia; auto.
  - right. apply nth_In. lia.
  - right. apply IH; lia.
Qed.

Lemma in_acts s x : In x (acts s) <-> exists g, In g (agents s) /\ In x (stack g).
Proof. unfold acts. rewrite in_flat_map. tauto. Qed.

Lemma agent_in s a : a < length (agents s) -> In (agent_of s a) (agents s).
Proof. intros H. unfold agent_of. apply nth_In. exact H. Qed.

Lemma agents_with_agent s a g : agents (with_agent s a g) = set_nth (agents s) a g.
Proof. reflexivity. Qed.

(* elements of the new agent list *)
Lemma in_agents_with_stack s a st g : In g (agents (with_stack s a st)) ->
  g = AG st (parked (agent_of s a)) (worker (agent_of s a)) \/ In g (agents s).
Proof. unfold with_stack. rewrite agents_with_agent. apply in_set_nth. Qed.

Lemma acts_with_stack_in s a st x : In x (acts (with_stack s a st)) -> In x st \/ In x (acts s).
Proof.
  rewrite in_acts. intros (g & Hg & Hx). apply in_agents_with_stack in Hg. destruct Hg as [->|Hg].
  - left. exact Hx.
  - right. apply in_acts. exists g. tauto.
Qed.

Lemma acts_with_stack_new s a st x : a < length (agents s) -> In x st -> In x (acts (with_stack s a st)).
Proof.
  intros Ha Hx. apply in_acts. exists (AG st (parked (agent_of s a)) (worker (agent_of s a))). split; [|exact Hx].
  unfold with_stack. rewrite agents_with_agent. apply set_nth_in_new. exact Ha.
Qed.

Lemma in_nth_ex {A} (l : list A) x d : In x l -> exists n, n < length l /\ nth n l d = x.
Proof. intros H. apply In_nth. exact H. Qed.

Lemma acts_with_stack_keep s a st x : In x (acts s) -> In x (stack (agent_of s a)) \/ In x (acts (with_stack s a st)).
Proof.
  rewrite in_acts. intros (g & Hg & Hx). destruct (in_nth_ex _ _ dagent Hg) as (b & Hb & Eb).
  destruct (Nat.eq_dec b a) as [->|Hne].
  - left. unfold agent_of. rewrite Eb. exact Hx.
  - right. apply in_acts. exists g. split; [|exact Hx]. unfold with_stack. rewrite agents_with_agent. rewrite <- Eb.
    apply set_nth_in_other; assumption.
Qed.

Lemma sorted_desc_tail x r : sorted_desc (x :: r) -> sorted_desc r.
Proof. cbn. tauto. Qed.

Lemma join_ostart_le s gj : (forall j, In j (joins s) -> j_ostart j <= clock s) -> j_ostart (join_of s gj) <= clock s.
Proof.
  intros H. unfold join_of. destruct (Nat.lt_ge_cases gj (length (joins s))) as [Hl|Hl].
  - apply H. apply nth_In. exact Hl.
  - rewrite nth_overflow by exact Hl. cbn. lia.
Qed.

(* ---------- kind 1: the top activation of agent a is rewritten in place ---------- *)
Definition mode_ok (s : state) (x : act) (m : mode) : Prop :=
  match m with
  | MRun => True
  | MWaitSet gj => j_ostart (join_of s gj) = a_start x
  | MWaitFut gj => j_ostart (join_of s gj) = a_start x /\ gj < length (joins s) /\ j_kind (join_of s gj) = JFut /\
                   t_st (task_of s (j_ftask (join_of s gj))) <> TQueued
  end.

Lemma inv_top s a x below ops m : Inv s -> a < length (agents s) -> stack (agent_of s a) = x :: below ->
  noup ops = true -> mode_ok s x m -> Inv (with_stack s a (set_top x ops m :: below)).
Proof.
  intros I Ha Hst Hn Hm. set (x' := set_top x ops m). set (s' := with_stack s a (x' :: below)).
  assert (Hx : In x (acts s)) by (apply in_acts; exists (agent_of s a); split; [apply agent_in; exact Ha | rewrite Hst; left; reflexivity]).
  assert (Hbelow : forall y, In y below -> In y (acts s)).
  { intros y Hy. apply in_acts. exists (agent_of s a). split; [apply agent_in; exact Ha | rewrite Hst; right; exact Hy]. }
  (* every activation of s' is x' or an activation of s; and conversely every activation of s other than x survives *)
  assert (Hin : forall y, In y (acts s') -> y = x' \/ In y (acts s)).
  { intros y Hy. apply acts_with_stack_in in Hy. destruct Hy as [[<-|Hy]|Hy]; auto. }
  assert (Hkeep : forall y, In y (acts s) -> y = x \/ In y (acts s')).
  { intros y Hy. destruct (acts_with_stack_keep s a (x' :: below) y Hy) as [H|H]; [|right; exact H].
    rewrite Hst in H. destruct H as [<-|H]; [left; reflexivity|]. right. apply acts_with_stack_new; [exact Ha | right; exact H]. }
  assert (Hx' : In x' (acts s')) by (apply acts_with_stack_new; [exact Ha | left; reflexivity]).
  assert (Pf : parked (agent_of s a) = false).
  { destruct (parked (agent_of s a)) eqn:E; [|reflexivity]. pose proof (i_parked s I _ (agent_in s a Ha) E) as C. rewrite Hst in C. discriminate. }
  constructor.
  - exact (i_range s I).
  - intros g Hg. apply in_agents_with_stack in Hg. destruct Hg as [->|Hg]; [|apply (i_sorted s I); exact Hg].
    cbn [stack map]. pose proof (i_sorted s I _ (agent_in s a Ha)) as S. rewrite Hst in S. exact S.
  - intros y Hy. destruct (Hin y Hy) as [->|H]; [apply (i_clock s I x Hx) | apply (i_clock s I y H)].
  - exact (i_jclock s I).
  - intros y n gj Hy Hn'. destruct (Hin y Hy) as [->|H]; [apply (i_own s I x n gj Hx Hn') | apply (i_own s I y n gj H Hn')].
  - intros y gj Hy Hmo. destruct (Hin y Hy) as [->|H]; [|apply (i_mode s I y gj H Hmo)].
    cbn [x' set_top a_mode a_start] in *. destruct Hmo as [->|->]; cbn in Hm; [exact Hm | tauto].
  - intros y Hy. destruct (Hin y Hy) as [->|H]; [exact Hn | apply (i_noup_a s I y H)].
  - exact (i_noup_t s I).
  - intros t Ht Hs. destruct (i_active s I t Ht Hs) as (y & Hy & Ey & Ly).
    destruct (Hkeep y Hy) as [->|H]; [exists x'; auto | exists y; auto].
  - exact (i_queued s I).
  - exact (i_fut s I).
  - intros y gj Hy Hmo. destruct (Hin y Hy) as [->|H]; [|apply (i_waitfut s I y gj H Hmo)].
    cbn [x' set_top a_mode] in Hmo. subst m. cbn in Hm. tauto.
  - intros g Hg Hp. apply in_agents_with_stack in Hg. destruct Hg as [->|Hg]; [cbn in Hp; rewrite Pf in Hp; discriminate | apply (i_parked s I g Hg Hp)].
  - intros Hne. destruct (i_steal s I Hne) as (w & Hw & Ww & Pw & Hall).
    destruct (in_nth_ex _ _ dagent Hw) as (b & Hb & Eb).
    destruct (Nat.eq_dec b a) as [->|Hneq].
    + exists (AG (x' :: below) (parked (agent_of s a)) (worker (agent_of s a))).
      assert (Ew : w = agent_of s a) by (unfold agent_of; rewrite Eb; reflexivity). subst w.
      split; [unfold s', with_stack; rewrite agents_with_agent; apply set_nth_in_new; exact Ha|].
      split; [exact Ww|]. split; [exact Pw|].
      intros t y Ht Hy. cbn [stack] in Hy. destruct Hy as [<-|Hy].
      * apply (Hall t x Ht). rewrite Hst. left. reflexivity.
      * apply (Hall t y Ht). rewrite Hst. right. exact Hy.
    + exists w. split; [unfold s', with_stack; rewrite agents_with_agent; rewrite <- Eb; apply set_nth_in_other; assumption|]. auto.
  - destruct (i_root s I) as [H0 Hw]. split; [unfold s', with_stack; rewrite agents_with_agent, set_nth_length; exact H0|].
    unfold s', with_stack, agent_of. rewrite agents_with_agent. destruct (Nat.eq_dec a 0) as [->|Hne].
    + rewrite nth_set_nth_same by exact H0. exact Hw.
    + rewrite nth_set_nth_other by exact Hne. exact Hw.
Qed.
