(* C06, part 2: the invariant of Model/NestedWaitModel.v for programs without waits on futures of enclosing bodies
   (noup), and its preservation by every step. *)
From Coq Require Import ZArith List Bool Arith Lia.
From DV Require Import Base.Sched Model.NestedWaitModel Proofs.C06Measure.
Import ListNotations.

Definition acts (s : state) : list act := flat_map stack (agents s).

Fixpoint sorted_desc (l : list nat) : Prop :=
  match l with [] => True | x :: r => (forall y, In y r -> y < x) /\ sorted_desc r end.

Definition ostart_of (s : state) (t : nat) : nat := j_ostart (join_of s (t_join (task_of s t))).

Record Inv (s : state) : Prop := {
  i_range : tiers_in_range s;
  i_sorted : forall g, In g (agents s) -> sorted_desc (map a_start (stack g));
  i_clock : forall x, In x (acts s) -> a_start x <= clock s;
  i_jclock : forall j, In j (joins s) -> j_ostart j <= clock s;
  i_own : forall x n gj, In x (acts s) -> In (n, gj) (a_own x) -> gj < length (joins s) /\ j_ostart (join_of s gj) = a_start x;
  i_mode : forall x gj, In x (acts s) -> (a_mode x = MWaitSet gj \/ a_mode x = MWaitFut gj) ->
           gj < length (joins s) /\ j_ostart (join_of s gj) = a_start x;
  i_noup_a : forall x, In x (acts s) -> noup (a_ops x) = true;
  i_noup_t : forall t, In t (tasks s) -> noup (t_body t) = true;
  i_active : forall t, t < length (tasks s) -> t_st (task_of s t) = TActive ->
             exists x, In x (acts s) /\ a_task x = t /\ ostart_of s t < a_start x;
  i_queued : forall t, t < length (tasks s) -> t_st (task_of s t) = TQueued -> In t (cq s ++ steal s);
  i_fut : forall gj, gj < length (joins s) -> is_set (j_kind (join_of s gj)) = false ->
          j_ftask (join_of s gj) < length (tasks s) /\ t_join (task_of s (j_ftask (join_of s gj))) = gj;
  i_waitfut : forall x gj, In x (acts s) -> a_mode x = MWaitFut gj ->
              gj < length (joins s) /\ is_set (j_kind (join_of s gj)) = false /\ t_st (task_of s (j_ftask (join_of s gj))) <> TQueued;
  i_parked : forall g, In g (agents s) -> parked g = true -> stack g = [];
  i_steal : steal s <> [] -> exists w, In w (agents s) /\ worker w = true /\ parked w = false /\
            forall t x, In t (steal s) -> In x (stack w) -> ostart_of s t < a_start x;
  i_root : 0 < length (agents s) /\ worker (agent_of s 0) = false;
  i_tjoin : forall t, t < length (tasks s) -> t_join (task_of s t) < length (joins s)
}.

(* ---------- lists / agents ---------- *)
Lemma in_set_nth {A} (l : list A) n y g : In g (set_nth l n y) -> g = y \/ In g l.
Proof.
  revert n; induction l as [|z r IH]; intros [|n]; cbn; try tauto.
  - intros [->|H]; auto.
  - intros [->|H]; auto. apply IH in H. tauto.
Qed.

Lemma set_nth_in_new {A} (l : list A) n y : n < length l -> In y (set_nth l n y).
Proof. revert n; induction l as [|z r IH]; intros [|n] H; cbn in *; try lia; auto. right. apply IH. lia. Qed.

Lemma set_nth_in_other {A} (l : list A) n m y d : m <> n -> m < length l -> In (nth m l d) (set_nth l n y).
Proof.
  revert n m; induction l as [|z r IH]; intros [|n] [|m] Hne H; cbn in *; try lia; auto.
  - right. apply nth_In. lia.
  - right. apply IH; lia.
Qed.

Lemma in_acts s x : In x (acts s) <-> exists g, In g (agents s) /\ In x (stack g).
Proof. unfold acts. rewrite in_flat_map. tauto. Qed.

Lemma agent_in s a : a < length (agents s) -> In (agent_of s a) (agents s).
Proof. intros H. unfold agent_of. apply nth_In. exact H. Qed.

Lemma agents_with_agent s a g : agents (with_agent s a g) = set_nth (agents s) a g.
Proof. reflexivity. Qed.

(* elements of the new agent list *)
Lemma in_agents_with_stack s a st g : In g (agents (with_stack s a st)) ->
  g = AG st (parked (agent_of s a)) (worker (agent_of s a)) \/ In g (agents s).
Proof. unfold with_stack. rewrite agents_with_agent. apply in_set_nth. Qed.

Lemma acts_with_stack_in s a st x : In x (acts (with_stack s a st)) -> In x st \/ In x (acts s).
Proof.
  rewrite in_acts. intros (g & Hg & Hx). apply in_agents_with_stack in Hg. destruct Hg as [->|Hg].
  - left. exact Hx.
  - right. apply in_acts. exists g. tauto.
Qed.

Lemma acts_with_stack_new s a st x : a < length (agents s) -> In x st -> In x (acts (with_stack s a st)).
Proof.
  intros Ha Hx. apply in_acts. exists (AG st (parked (agent_of s a)) (worker (agent_of s a))). split; [|exact Hx].
  unfold with_stack. rewrite agents_with_agent. apply set_nth_in_new. exact Ha.
Qed.

Lemma in_nth_ex {A} (l : list A) x d : In x l -> exists n, n < length l /\ nth n l d = x.
Proof. intros H. apply In_nth. exact H. Qed.

Lemma acts_with_stack_keep s a st x : In x (acts s) -> In x (stack (agent_of s a)) \/ In x (acts (with_stack s a st)).
Proof.
  rewrite in_acts. intros (g & Hg & Hx). destruct (in_nth_ex _ _ dagent Hg) as (b & Hb & Eb).
  destruct (Nat.eq_dec b a) as [->|Hne].
  - left. unfold agent_of. rewrite Eb. exact Hx.
  - right. apply in_acts. exists g. split; [|exact Hx]. unfold with_stack. rewrite agents_with_agent. rewrite <- Eb.
    apply set_nth_in_other; assumption.
Qed.

Lemma sorted_desc_tail x r : sorted_desc (x :: r) -> sorted_desc r.
Proof. cbn. tauto. Qed.

Lemma join_ostart_le s gj : (forall j, In j (joins s) -> j_ostart j <= clock s) -> j_ostart (join_of s gj) <= clock s.
Proof.
  intros H. unfold join_of. destruct (Nat.lt_ge_cases gj (length (joins s))) as [Hl|Hl].
  - apply H. apply nth_In. exact Hl.
  - rewrite nth_overflow by exact Hl. cbn. lia.
Qed.

(* ---------- kind 1: the top activation of agent a is rewritten in place ---------- *)
Definition mode_ok (s : state) (x : act) (m : mode) : Prop :=
  match m with
  | MRun => True
  | MWaitSet gj => gj < length (joins s) /\ j_ostart (join_of s gj) = a_start x
  | MWaitFut gj => (gj < length (joins s) /\ j_ostart (join_of s gj) = a_start x) /\ gj < length (joins s) /\ is_set (j_kind (join_of s gj)) = false /\
                   t_st (task_of s (j_ftask (join_of s gj))) <> TQueued
  end.

Lemma inv_top s a x below ops m : Inv s -> a < length (agents s) -> stack (agent_of s a) = x :: below ->
  noup ops = true -> mode_ok s x m -> Inv (with_stack s a (set_top x ops m :: below)).
Proof.
  intros I Ha Hst Hn Hm. set (x' := set_top x ops m). set (s' := with_stack s a (x' :: below)).
  assert (Hx : In x (acts s)) by (apply in_acts; exists (agent_of s a); split; [apply agent_in; exact Ha | rewrite Hst; left; reflexivity]).
  assert (Hbelow : forall y, In y below -> In y (acts s)).
  { intros y Hy. apply in_acts. exists (agent_of s a). split; [apply agent_in; exact Ha | rewrite Hst; right; exact Hy]. }
  (* every activation of s' is x' or an activation of s; and conversely every activation of s other than x survives *)
  assert (Hin : forall y, In y (acts s') -> y = x' \/ In y (acts s)).
  { intros y Hy. apply acts_with_stack_in in Hy. destruct Hy as [[<-|Hy]|Hy]; auto. }
  assert (Hkeep : forall y, In y (acts s) -> y = x \/ In y (acts s')).
  { intros y Hy. destruct (acts_with_stack_keep s a (x' :: below) y Hy) as [H|H]; [|right; exact H].
    rewrite Hst in H. destruct H as [<-|H]; [left; reflexivity|]. right. apply acts_with_stack_new; [exact Ha | right; exact H]. }
  assert (Hx' : In x' (acts s')) by (apply acts_with_stack_new; [exact Ha | left; reflexivity]).
  assert (Pf : parked (agent_of s a) = false).
  { destruct (parked (agent_of s a)) eqn:E; [|reflexivity]. pose proof (i_parked s I _ (agent_in s a Ha) E) as C. rewrite Hst in C. discriminate. }
  constructor.
  - exact (i_range s I).
  - intros g Hg. apply in_agents_with_stack in Hg. destruct Hg as [->|Hg]; [|apply (i_sorted s I); exact Hg].
    cbn [stack map]. pose proof (i_sorted s I _ (agent_in s a Ha)) as S. rewrite Hst in S. exact S.
  - intros y Hy. destruct (Hin y Hy) as [->|H]; [apply (i_clock s I x Hx) | apply (i_clock s I y H)].
  - exact (i_jclock s I).
  - intros y n gj Hy Hn'. destruct (Hin y Hy) as [->|H]; [apply (i_own s I x n gj Hx Hn') | apply (i_own s I y n gj H Hn')].
  - intros y gj Hy Hmo. destruct (Hin y Hy) as [->|H]; [|apply (i_mode s I y gj H Hmo)].
    cbn [x' set_top a_mode a_start] in *. destruct Hmo as [-> | ->]; cbn in Hm; [exact Hm | tauto].
  - intros y Hy. destruct (Hin y Hy) as [->|H]; [exact Hn | apply (i_noup_a s I y H)].
  - exact (i_noup_t s I).
  - intros t Ht Hs. destruct (i_active s I t Ht Hs) as (y & Hy & Ey & Ly).
    destruct (Hkeep y Hy) as [->|H]; [exists x'; auto | exists y; auto].
  - exact (i_queued s I).
  - exact (i_fut s I).
  - intros y gj Hy Hmo. destruct (Hin y Hy) as [->|H]; [|apply (i_waitfut s I y gj H Hmo)].
    cbn [x' set_top a_mode] in Hmo. subst m. cbn in Hm. tauto.
  - intros g Hg Hp. apply in_agents_with_stack in Hg. destruct Hg as [->|Hg]; [cbn [parked] in Hp; rewrite Pf in Hp; discriminate | apply (i_parked s I g Hg Hp)].
  - intros Hne. destruct (i_steal s I Hne) as (w & Hw & Ww & Pw & Hall).
    destruct (in_nth_ex _ _ dagent Hw) as (b & Hb & Eb).
    destruct (Nat.eq_dec b a) as [->|Hneq].
    + exists (AG (x' :: below) (parked (agent_of s a)) (worker (agent_of s a))).
      assert (Ew : w = agent_of s a) by (unfold agent_of; rewrite Eb; reflexivity). rewrite Ew in Hall, Ww, Pw.
      split; [unfold s', with_stack; rewrite agents_with_agent; apply set_nth_in_new; exact Ha|].
      split; [exact Ww|]. split; [exact Pw|].
      intros t y Ht Hy. cbn [stack] in Hy. destruct Hy as [<-|Hy].
      * apply (Hall t x Ht). rewrite Hst. left. reflexivity.
      * apply (Hall t y Ht). rewrite Hst. right. exact Hy.
    + exists w. split; [unfold s', with_stack; rewrite agents_with_agent; rewrite <- Eb; apply set_nth_in_other; assumption|]. auto.
  - destruct (i_root s I) as [H0 Hw]. split; [unfold s', with_stack; rewrite agents_with_agent, set_nth_length; exact H0|].
    unfold s', with_stack, agent_of. rewrite agents_with_agent. destruct (Nat.eq_dec a 0) as [->|Hne].
    + rewrite nth_set_nth_same by exact H0. exact Hw.
    + rewrite nth_set_nth_other by exact Hne. exact Hw.
  - exact (i_tjoin s I).
Qed.

(* ---------- with_tstate ---------- *)
Lemma tasks_len_tstate s t x : length (tasks (with_tstate s t x)) = length (tasks s).
Proof. unfold with_tstate. cbn [tasks]. apply set_nth_length. Qed.

Lemma task_of_tstate_same s t x : t < length (tasks s) ->
  task_of (with_tstate s t x) t = TR (t_body (task_of s t)) (t_cap (task_of s t)) (t_join (task_of s t)) x.
Proof. intros H. unfold task_of at 1, with_tstate. cbn [tasks]. apply nth_set_nth_same. exact H. Qed.

Lemma task_of_tstate_other s t x u : u <> t -> task_of (with_tstate s t x) u = task_of s u.
Proof. intros H. unfold task_of, with_tstate. cbn [tasks]. apply nth_set_nth_other. auto. Qed.

Lemma tjoin_tstate s t x u : t_join (task_of (with_tstate s t x) u) = t_join (task_of s u).
Proof.
  destruct (Nat.eq_dec u t) as [->|Hne]; [|rewrite task_of_tstate_other by exact Hne; reflexivity].
  destruct (Nat.lt_ge_cases t (length (tasks s))) as [Hl|Hl]; [rewrite task_of_tstate_same by exact Hl; reflexivity|].
  unfold task_of, with_tstate. cbn [tasks]. rewrite !nth_overflow; [reflexivity | exact Hl | rewrite set_nth_length; exact Hl].
Qed.

Lemma tst_tstate s t x u : u < length (tasks s) -> t_st (task_of (with_tstate s t x) u) = if Nat.eqb u t then x else t_st (task_of s u).
Proof.
  intros Hu. destruct (Nat.eqb u t) eqn:E.
  - apply Nat.eqb_eq in E. subst. rewrite task_of_tstate_same by exact Hu. reflexivity.
  - apply Nat.eqb_neq in E. rewrite task_of_tstate_other by exact E. reflexivity.
Qed.

Lemma set_nth_overflow {A} (l : list A) n y : length l <= n -> set_nth l n y = l.
Proof. revert n; induction l as [|z r IH]; intros [|n] H; cbn in *; try lia; auto. f_equal. apply IH. lia. Qed.

Lemma in_tasks_tstate s t x tr : In tr (tasks (with_tstate s t x)) -> exists tr0, In tr0 (tasks s) /\ t_body tr = t_body tr0.
Proof.
  unfold with_tstate. cbn [tasks]. destruct (Nat.lt_ge_cases t (length (tasks s))) as [Hl|Hl].
  - intros H. apply in_set_nth in H. destruct H as [->|H]; [|exists tr; auto].
    exists (task_of s t). split; [unfold task_of; apply nth_In; exact Hl | reflexivity].
  - rewrite set_nth_overflow by exact Hl. intros H. exists tr. auto.
Qed.

Lemma ostart_tstate s t x u : ostart_of (with_tstate s t x) u = ostart_of s u.
Proof. unfold ostart_of. rewrite tjoin_tstate. reflexivity. Qed.

(* ---------- kind 2: the top activation finishes ---------- *)
Lemma inv_finish s a x below : Inv s -> a < length (agents s) -> stack (agent_of s a) = x :: below ->
  Inv (with_stack (with_tstate s (a_task x) TDone) a below).
Proof.
  intros I Ha Hst. set (tk := a_task x). set (s1 := with_tstate s tk TDone). set (s' := with_stack s1 a below).
  assert (Hst1 : stack (agent_of s1 a) = x :: below) by exact Hst.
  assert (Hin : forall y, In y (acts s') -> In y (acts s)).
  { intros y Hy. apply acts_with_stack_in in Hy. destruct Hy as [Hy|Hy]; [|exact Hy].
    apply in_acts. exists (agent_of s a). split; [apply agent_in; exact Ha | rewrite Hst; right; exact Hy]. }
  assert (Hkeep : forall y, In y (acts s) -> y = x \/ In y (acts s')).
  { intros y Hy. destruct (acts_with_stack_keep s1 a below y Hy) as [H|H]; [|right; exact H].
    rewrite Hst1 in H. destruct H as [<-|H]; [left; reflexivity|]. right. apply acts_with_stack_new; [exact Ha | exact H]. }
  assert (Pf : parked (agent_of s a) = false).
  { destruct (parked (agent_of s a)) eqn:E; [|reflexivity]. pose proof (i_parked s I _ (agent_in s a Ha) E) as C. rewrite Hst in C. discriminate. }
  constructor.
  - intros t Ht. change (length (tasks s')) with (length (tasks s1)). unfold s1. rewrite tasks_len_tstate. apply (i_range s I). exact Ht.
  - intros g Hg. apply in_agents_with_stack in Hg. destruct Hg as [->|Hg]; [|apply (i_sorted s I); exact Hg].
    cbn [stack]. pose proof (i_sorted s I _ (agent_in s a Ha)) as S. rewrite Hst in S. apply (sorted_desc_tail _ _ S).
  - intros y Hy. apply (i_clock s I y (Hin y Hy)).
  - exact (i_jclock s I).
  - intros y n gj Hy Hn. apply (i_own s I y n gj (Hin y Hy) Hn).
  - intros y gj Hy Hm. apply (i_mode s I y gj (Hin y Hy) Hm).
  - intros y Hy. apply (i_noup_a s I y (Hin y Hy)).
  - intros tr Htr. apply in_tasks_tstate in Htr. destruct Htr as (tr0 & H0 & E). rewrite E. apply (i_noup_t s I tr0 H0).
  - intros t Ht Hs. change (length (tasks s')) with (length (tasks s1)) in Ht. unfold s1 in Ht. rewrite tasks_len_tstate in Ht.
    change (task_of s' t) with (task_of s1 t) in Hs. unfold s1 in Hs. rewrite tst_tstate in Hs by exact Ht.
    destruct (Nat.eqb t tk) eqn:E; [discriminate|]. apply Nat.eqb_neq in E.
    destruct (i_active s I t Ht Hs) as (y & Hy & Ey & Ly). destruct (Hkeep y Hy) as [->|H]; [exfalso; apply E; symmetry; exact Ey|].
    exists y. split; [exact H|]. split; [exact Ey|]. change (ostart_of s' t) with (ostart_of s1 t). unfold s1. rewrite ostart_tstate. exact Ly.
  - intros t Ht Hs. change (length (tasks s')) with (length (tasks s1)) in Ht. unfold s1 in Ht. rewrite tasks_len_tstate in Ht.
    change (task_of s' t) with (task_of s1 t) in Hs. unfold s1 in Hs. rewrite tst_tstate in Hs by exact Ht.
    destruct (Nat.eqb t tk); [discriminate|]. apply (i_queued s I t Ht Hs).
  - intros gj Hg Hk. destruct (i_fut s I gj Hg Hk) as [F1 F2]. split.
    + change (length (tasks s')) with (length (tasks s1)). unfold s1. rewrite tasks_len_tstate. exact F1.
    + change (task_of s' (j_ftask (join_of s' gj))) with (task_of s1 (j_ftask (join_of s gj))). unfold s1. rewrite tjoin_tstate. exact F2.
  - intros y gj Hy Hm. destruct (i_waitfut s I y gj (Hin y Hy) Hm) as (R & K & Q). split; [exact R|]. split; [exact K|].
    destruct (i_fut s I gj R K) as [F1 _].
    change (task_of s' (j_ftask (join_of s' gj))) with (task_of s1 (j_ftask (join_of s gj))). unfold s1. rewrite tst_tstate by exact F1.
    destruct (Nat.eqb (j_ftask (join_of s gj)) tk); [discriminate | exact Q].
  - intros g Hg Hp. apply in_agents_with_stack in Hg. destruct Hg as [->|Hg]; [cbn [parked] in Hp; change (agent_of s1 a) with (agent_of s a) in Hp; rewrite Pf in Hp; discriminate | apply (i_parked s I g Hg Hp)].
  - intros Hne. destruct (i_steal s I Hne) as (w & Hw & Ww & Pw & Hall).
    destruct (in_nth_ex _ _ dagent Hw) as (b & Hb & Eb).
    destruct (Nat.eq_dec b a) as [->|Hneq].
    + exists (AG below (parked (agent_of s a)) (worker (agent_of s a))).
      assert (Ew : w = agent_of s a) by (unfold agent_of; rewrite Eb; reflexivity). rewrite Ew in Hall, Ww, Pw.
      split; [unfold s', with_stack; rewrite agents_with_agent; apply set_nth_in_new; exact Ha|].
      split; [exact Ww|]. split; [exact Pw|].
      intros t y Ht Hy. cbn [stack] in Hy. change (ostart_of s' t) with (ostart_of s1 t). unfold s1. rewrite ostart_tstate.
      apply (Hall t y Ht). rewrite Hst. right. exact Hy.
    + exists w. split; [unfold s', with_stack; rewrite agents_with_agent; rewrite <- Eb; apply set_nth_in_other; assumption|].
      split; [exact Ww|]. split; [exact Pw|]. intros t y Ht Hy. change (ostart_of s' t) with (ostart_of s1 t). unfold s1. rewrite ostart_tstate. apply (Hall t y Ht Hy).
  - destruct (i_root s I) as [H0 Hw]. split; [unfold s', with_stack; rewrite agents_with_agent, set_nth_length; exact H0|].
    unfold s', with_stack, agent_of. rewrite agents_with_agent. destruct (Nat.eq_dec a 0) as [->|Hne].
    + rewrite nth_set_nth_same by exact H0. exact Hw.
    + rewrite nth_set_nth_other by exact Hne. exact Hw.
  - intros t Ht. change (length (tasks s')) with (length (tasks s1)) in Ht. unfold s1 in Ht. rewrite tasks_len_tstate in Ht.
    change (task_of s' t) with (task_of s1 t). unfold s1. rewrite tjoin_tstate. apply (i_tjoin s I t Ht).
Qed.

(* ---------- kind 3: a queued task is started on top of agent a's stack ---------- *)
Lemma inv_start s a c' st' t : Inv s -> a < length (agents s) -> parked (agent_of s a) = false ->
  (forall u, In u (c' ++ st') -> In u (cq s ++ steal s)) ->
  (forall u, In u (cq s ++ steal s) -> u <> t -> In u (c' ++ st')) ->
  (forall u, In u st' -> In u (steal s)) ->
  In t (cq s ++ steal s) ->
  Inv (start_task (with_queues s c' st') a (stack (agent_of s a)) t).
Proof.
  intros I Ha Pf Hsub Hrest Hsts Htin.
  set (old := stack (agent_of s a)).
  set (sT := with_tstate s t TActive).
  set (n := ACT t (t_body (task_of s t)) [] (t_cap (task_of s t)) MRun (S (clock s))).
  set (s1 := ST (tasks sT) (joins s) c' st' (agents s) (S (clock s))).
  change (start_task (with_queues s c' st') a old t) with (with_stack s1 a (n :: old)).
  set (s' := with_stack s1 a (n :: old)).
  assert (Htr : t < length (tasks s)) by (apply (i_range s I); exact Htin).
  assert (Hold : forall y, In y old -> In y (acts s)).
  { intros y Hy. apply in_acts. exists (agent_of s a). split; [apply agent_in; exact Ha | exact Hy]. }
  assert (Hin : forall y, In y (acts s') -> y = n \/ In y (acts s)).
  { intros y Hy. apply acts_with_stack_in in Hy. destruct Hy as [[<-|Hy]|Hy]; auto. }
  assert (Hkeep : forall y, In y (acts s) -> In y (acts s')).
  { intros y Hy. destruct (acts_with_stack_keep s1 a (n :: old) y Hy) as [H|H]; [|exact H].
    apply acts_with_stack_new; [exact Ha | right; exact H]. }
  assert (Hn : In n (acts s')) by (apply acts_with_stack_new; [exact Ha | left; reflexivity]).
  assert (Hos : forall u, ostart_of s' u = ostart_of s u) by (intros u; change (ostart_of s' u) with (ostart_of sT u); apply ostart_tstate).
  assert (Hlen : length (tasks s') = length (tasks s)) by (change (length (tasks s')) with (length (tasks sT)); apply tasks_len_tstate).
  assert (Hole : forall u, ostart_of s u <= clock s) by (intros u; unfold ostart_of; apply join_ostart_le; exact (i_jclock s I)).
  constructor.
  - intros u Hu. rewrite Hlen. apply (i_range s I). apply Hsub. exact Hu.
  - intros g Hg. apply in_agents_with_stack in Hg. destruct Hg as [->|Hg]; [|apply (i_sorted s I); exact Hg].
    cbn [stack map sorted_desc]. split; [|apply (i_sorted s I _ (agent_in s a Ha))].
    intros z Hz. apply in_map_iff in Hz. destruct Hz as (y & <- & Hy). pose proof (i_clock s I y (Hold y Hy)). cbn. lia.
  - intros y Hy. change (clock s') with (S (clock s)). destruct (Hin y Hy) as [->|H]; [cbn; lia | pose proof (i_clock s I y H); lia].
  - intros j Hj. change (clock s') with (S (clock s)). pose proof (i_jclock s I j Hj). lia.
  - intros y m gj Hy Hm. destruct (Hin y Hy) as [->|H]; [cbn in Hm; contradiction | apply (i_own s I y m gj H Hm)].
  - intros y gj Hy Hm. destruct (Hin y Hy) as [->|H]; [cbn in Hm; destruct Hm; discriminate | apply (i_mode s I y gj H Hm)].
  - intros y Hy. destruct (Hin y Hy) as [->|H]; [|apply (i_noup_a s I y H)].
    cbn [a_ops n]. apply (i_noup_t s I). unfold task_of. apply nth_In. exact Htr.
  - intros tr Htr'. change (tasks s') with (tasks sT) in Htr'. apply in_tasks_tstate in Htr'. destruct Htr' as (tr0 & H0 & E). rewrite E. apply (i_noup_t s I tr0 H0).
  - intros u Hu Hs. rewrite Hlen in Hu. rewrite Hos. destruct (Nat.eq_dec u t) as [->|Hne].
    + exists n. split; [exact Hn|]. split; [reflexivity|]. pose proof (Hole t). cbn. lia.
    + change (task_of s' u) with (task_of sT u) in Hs. unfold sT in Hs. rewrite task_of_tstate_other in Hs by exact Hne.
      destruct (i_active s I u Hu Hs) as (y & Hy & Ey & Ly). exists y. auto.
  - intros u Hu Hs. rewrite Hlen in Hu. change (task_of s' u) with (task_of sT u) in Hs. unfold sT in Hs. rewrite tst_tstate in Hs by exact Hu.
    destruct (Nat.eqb u t) eqn:E; [discriminate|]. apply Nat.eqb_neq in E.
    change (cq s' ++ steal s') with (c' ++ st'). apply Hrest; [apply (i_queued s I u Hu Hs) | exact E].
  - intros gj Hg Hk. destruct (i_fut s I gj Hg Hk) as [F1 F2]. split; [rewrite Hlen; exact F1|].
    change (task_of s' (j_ftask (join_of s' gj))) with (task_of sT (j_ftask (join_of s gj))). unfold sT. rewrite tjoin_tstate. exact F2.
  - intros y gj Hy Hm. destruct (Hin y Hy) as [->|H]; [cbn in Hm; discriminate|].
    destruct (i_waitfut s I y gj H Hm) as (R & K & Q). split; [exact R|]. split; [exact K|].
    destruct (i_fut s I gj R K) as [F1 _].
    change (task_of s' (j_ftask (join_of s' gj))) with (task_of sT (j_ftask (join_of s gj))). unfold sT. rewrite tst_tstate by exact F1.
    destruct (Nat.eqb (j_ftask (join_of s gj)) t); [discriminate | exact Q].
  - intros g Hg Hp. apply in_agents_with_stack in Hg. destruct Hg as [->|Hg]; [cbn [parked] in Hp; change (agent_of s1 a) with (agent_of s a) in Hp; rewrite Pf in Hp; discriminate | apply (i_parked s I g Hg Hp)].
  - intros Hne. change (steal s') with st' in *.
    assert (Hne0 : steal s <> []) by (destruct st' as [|u0 r0]; [contradiction|]; intros E; specialize (Hsts u0 (or_introl eq_refl)); rewrite E in Hsts; contradiction).
    destruct (i_steal s I Hne0) as (w & Hw & Ww & Pw & Hall).
    destruct (in_nth_ex _ _ dagent Hw) as (b & Hb & Eb).
    destruct (Nat.eq_dec b a) as [->|Hneq].
    + exists (AG (n :: old) (parked (agent_of s a)) (worker (agent_of s a))).
      assert (Ew : w = agent_of s a) by (unfold agent_of; rewrite Eb; reflexivity). rewrite Ew in Hall, Ww, Pw.
      split; [unfold s', with_stack; rewrite agents_with_agent; apply set_nth_in_new; exact Ha|].
      split; [exact Ww|]. split; [exact Pw|].
      intros u y Hu Hy. rewrite Hos. cbn [stack] in Hy. destruct Hy as [<-|Hy].
      * pose proof (Hole u). cbn. lia.
      * apply (Hall u y (Hsts u Hu) Hy).
    + exists w. split; [unfold s', with_stack; rewrite agents_with_agent; rewrite <- Eb; apply set_nth_in_other; assumption|].
      split; [exact Ww|]. split; [exact Pw|]. intros u y Hu Hy. rewrite Hos. apply (Hall u y (Hsts u Hu) Hy).
  - destruct (i_root s I) as [H0 Hw]. split; [unfold s', with_stack; rewrite agents_with_agent, set_nth_length; exact H0|].
    unfold s', with_stack, agent_of. rewrite agents_with_agent. destruct (Nat.eq_dec a 0) as [->|Hne].
    + rewrite nth_set_nth_same by exact H0. exact Hw.
    + rewrite nth_set_nth_other by exact Hne. exact Hw.
  - intros u Hu. rewrite Hlen in Hu. change (task_of s' u) with (task_of sT u). unfold sT. rewrite tjoin_tstate. apply (i_tjoin s I u Hu).
Qed.

(* ---------- kinds 4/5: only the parked flag of agent a changes (a worker parks; a parked worker is claimed) ---------- *)
Lemma inv_flags s a g' : Inv s -> a < length (agents s) ->
  stack g' = stack (agent_of s a) -> worker g' = worker (agent_of s a) ->
  (parked g' = true -> stack g' = [] /\ steal s = []) ->
  Inv (with_agent s a g').
Proof.
  intros I Ha Hs Hw Hp. set (s' := with_agent s a g').
  assert (Hin : forall y, In y (acts s') <-> In y (acts s)).
  { intros y. rewrite !in_acts. split.
    - intros (g & Hg & Hy). unfold s' in Hg. rewrite agents_with_agent in Hg. apply in_set_nth in Hg. destruct Hg as [->|Hg].
      + exists (agent_of s a). split; [apply agent_in; exact Ha | rewrite <- Hs; exact Hy].
      + exists g. auto.
    - intros (g & Hg & Hy). destruct (in_nth_ex _ _ dagent Hg) as (b & Hb & Eb). destruct (Nat.eq_dec b a) as [->|Hne].
      + exists g'. split; [unfold s'; rewrite agents_with_agent; apply set_nth_in_new; exact Ha|].
        rewrite Hs. unfold agent_of. rewrite Eb. exact Hy.
      + exists g. split; [unfold s'; rewrite agents_with_agent; rewrite <- Eb; apply set_nth_in_other; assumption | exact Hy]. }
  constructor.
  - exact (i_range s I).
  - intros g Hg. unfold s' in Hg. rewrite agents_with_agent in Hg. apply in_set_nth in Hg. destruct Hg as [->|Hg]; [|apply (i_sorted s I g Hg)].
    rewrite Hs. apply (i_sorted s I _ (agent_in s a Ha)).
  - intros y Hy. apply (i_clock s I y). apply Hin. exact Hy.
  - exact (i_jclock s I).
  - intros y n gj Hy Hn. apply (i_own s I y n gj); [apply Hin; exact Hy | exact Hn].
  - intros y gj Hy Hm. apply (i_mode s I y gj); [apply Hin; exact Hy | exact Hm].
  - intros y Hy. apply (i_noup_a s I y). apply Hin. exact Hy.
  - exact (i_noup_t s I).
  - intros t Ht Hst. destruct (i_active s I t Ht Hst) as (y & Hy & E & L). exists y. split; [apply Hin; exact Hy | auto].
  - exact (i_queued s I).
  - exact (i_fut s I).
  - intros y gj Hy Hm. apply (i_waitfut s I y gj); [apply Hin; exact Hy | exact Hm].
  - intros g Hg Hpk. unfold s' in Hg. rewrite agents_with_agent in Hg. apply in_set_nth in Hg. destruct Hg as [->|Hg]; [apply Hp; exact Hpk | apply (i_parked s I g Hg Hpk)].
  - intros Hne. change (steal s') with (steal s) in *. destruct (i_steal s I Hne) as (w & Hw0 & Ww & Pw & Hall).
    destruct (in_nth_ex _ _ dagent Hw0) as (b & Hb & Eb). destruct (Nat.eq_dec b a) as [->|Hneq].
    + assert (Ew : w = agent_of s a) by (unfold agent_of; rewrite Eb; reflexivity). rewrite Ew in Hall, Ww, Pw.
      exists g'. split; [unfold s'; rewrite agents_with_agent; apply set_nth_in_new; exact Ha|].
      split; [rewrite Hw; exact Ww|]. split.
      * destruct (parked g') eqn:E; [|reflexivity]. destruct (Hp eq_refl) as [_ C]. contradiction.
      * intros t y Ht Hy. rewrite Hs in Hy. apply (Hall t y Ht Hy).
    + exists w. split; [unfold s'; rewrite agents_with_agent; rewrite <- Eb; apply set_nth_in_other; assumption | auto].
  - destruct (i_root s I) as [H0 Hw0]. split; [unfold s'; rewrite agents_with_agent, set_nth_length; exact H0|].
    unfold s', agent_of. rewrite agents_with_agent. destruct (Nat.eq_dec a 0) as [->|Hne].
    + rewrite nth_set_nth_same by exact H0. rewrite Hw. exact Hw0.
    + rewrite nth_set_nth_other by exact Hne. exact Hw0.
  - exact (i_tjoin s I).
Qed.
