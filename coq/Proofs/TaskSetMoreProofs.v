(* C05 (delivery tickets: no captured exception is rethrown twice) and C47 (ForceQueuingTag paths never run a body) on
   Model/TaskSetModel.v, over all interleavings. *)
From Coq Require Import ZArith List Bool Lia.
From DV Require Import Base.MachInt Base.Sched Model.TaskSetModel Proofs.TaskSetProofs.
Import ListNotations.
Local Open Scope Z_scope.

(* ---------- tickets: every write of the exception slot gets the clock of the write as ticket; a ticket is in the slot, in the
   hands of one waiter between move and rethrow, or in the delivered log -- at most one of these, at most once ---------- *)
Definition slotk (t : tset) (tk : Z) : Z := if tick t =? tk then 1 else 0.
Definition holdtk (T : nat) (tk : Z) (f : frame) : Z :=
  match f with FTestReset T0 _ _ tk0 => if Nat.eqb T T0 && (tk0 =? tk) then 1 else 0 | _ => 0 end.
Fixpoint cntd (T : nat) (tk : Z) (l : list (nat * Z)) : Z :=
  match l with [] => 0 | (T0, tk0) :: r => (if Nat.eqb T T0 && (tk0 =? tk) then 1 else 0) + cntd T tk r end.
Lemma holdtk_nonneg T tk f : 0 <= holdtk T tk f.
Proof. destruct f; cbn; try lia. destruct (Nat.eqb T T0 && (tk0 =? tk)); lia. Qed.
Lemma cntd_nonneg T tk l : 0 <= cntd T tk l.
Proof. induction l as [|[T0 tk0] r IH]; cbn; [lia|]. destruct (Nat.eqb T T0 && (tk0 =? tk)); lia. Qed.
Lemma slotk_nonneg t tk : 0 <= slotk t tk. Proof. unfold slotk. destruct (tick t =? tk); lia. Qed.

Definition weight (s : state) (T : nat) (tk : Z) : Z :=
  slotk (sets (sh s) T) tk + tsum (holdtk T tk) (threads s) + cntd T tk (delivered (sh s)).
Definition Tickets (s : state) : Prop :=
  0 <= clock (sh s) /\ forall T tk, (tk <> 0 -> weight s T tk <= 1) /\ (clock (sh s) < tk -> weight s T tk = 0).

Lemma holdtk_plain T tk f : plain_frame f -> holdtk T tk f = 0.
Proof. destruct f; cbn; intros; try reflexivity; contradiction. Qed.
Lemma fsum_holdtk_plain T tk l : Forall plain_frame l -> fsum (holdtk T tk) l = 0.
Proof. induction 1 as [|f l H _ IH]; cbn; [reflexivity | rewrite (holdtk_plain _ _ _ H), IH; reflexivity]. Qed.

Ltac tk_simpl :=
  cbn -[Z.of_nat Z.add Z.sub Z.mul Nat.eqb Z.eqb] in *; rewrite ?fsum_app in *; cbn -[Z.of_nat Z.add Z.sub Z.mul Nat.eqb Z.eqb] in *.
Ltac fin_tk T tk :=
  tk_simpl; unfold slotk, upd in *; tk_simpl;
  repeat match goal with
         | |- context [Nat.eqb T ?x] => let E := fresh "E" in destruct (Nat.eqb_spec T x) as [E|E]; [try rewrite <- E in *|]
         end;
  tk_simpl; unfold ts_outst, ts_cancel, ts_guard, ts_cas_won, ts_slot in *; cbn [tick andb] in *;
  repeat match goal with |- context [?a =? ?b] => destruct (Z.eqb_spec a b) end;
  cbn [andb] in *; try lia.

Lemma step_top_tk s th f rest c s' l e T tk :
  step_top s th f rest c = Some (s', l, e) -> c = (if sited (cfg s) f then clock s + 1 else clock s) -> tk <> 0 ->
  let W := slotk (sets s T) tk + fsum (holdtk T tk) (f :: rest) + cntd T tk (delivered s) in
  let W' := slotk (sets s' T) tk + fsum (holdtk T tk) l + cntd T tk (delivered s') in
  W' <= W \/ (tk = clock s + 1 /\ c = clock s + 1 /\ W' <= W + 1).
Proof.
  intros H Hc NZ. destruct f; cbn [step_top] in H.
  - inv_ok H. fin_tk T tk.
  - destruct ops as [|o r]; [inv_ok H; fin_tk T tk|].
    destruct (dispatch s o c) as [[s1 fr] e1] eqn:D. inv_ok H. apply dispatch_spec in D. destruct D as (S1 & _ & _ & _ & _ & _ & _ & _ & D1 & _ & Fp).
    cbn zeta. rewrite S1, D1, fsum_app, (fsum_holdtk_plain _ _ _ Fp). left. cbn. lia.
  - destruct ops as [|o r]; [inv_ok H; fin_tk T tk|].
    destruct (dispatch s o c) as [[s1 fr] e1] eqn:D. inv_ok H. apply dispatch_spec in D. destruct D as (S1 & _ & _ & _ & _ & _ & _ & _ & D1 & _ & Fp).
    cbn zeta. rewrite S1, D1, fsum_app, (fsum_holdtk_plain _ _ _ Fp). left. cbn. lia.
  - inv_ok H. fin_tk T tk.
  - destruct rest as [|g r]; [inv_ok H; fin_tk T tk|].
    destruct g; try solve [inv_ok H; fin_tk T tk]; split_hyp H; inv_ok H; fin_tk T tk.
  - discriminate.
  - split_hyp H; inv_ok H; fin_tk T tk.
  - split_hyp H; inv_ok H; fin_tk T tk.
  - split_hyp H; inv_ok H; fin_tk T tk.
  - destruct second; split_hyp H; inv_ok H; fin_tk T tk.
  - split_hyp H; inv_ok H; fin_tk T tk.
  - inv_ok H; fin_tk T tk.
  - inv_ok H; fin_tk T tk.
  - inv_ok H; fin_tk T tk.
  - split_hyp H; inv_ok H; fin_tk T tk.
  - (* FWrap *) destruct st; try (destruct (exc_step s T0 _ c) as [s1 nx] eqn:X; unfold exc_step in X; try (destruct (guard (sets s T0) =? 0)); injection X as <- <-; inv_ok H; cbn in Hc; fin_tk T tk).
    + split_hyp H; inv_ok H; fin_tk T tk.
    + inv_ok H; fin_tk T tk.
    + inv_ok H; fin_tk T tk.
    + inv_ok H; fin_tk T tk.
  - inv_ok H; fin_tk T tk.
  - split_hyp H; [|split_hyp H]; inv_ok H; fin_tk T tk.
  - split_hyp H; inv_ok H; fin_tk T tk.
  - inv_ok H; fin_tk T tk.
  - split_hyp H; inv_ok H; fin_tk T tk.
  - split_hyp H; [|split_hyp H]; inv_ok H; fin_tk T tk.
  - split_hyp H; inv_ok H; fin_tk T tk.
  - inv_ok H; fin_tk T tk.
  - split_hyp H; inv_ok H; fin_tk T tk.
  - split_hyp H; [|split_hyp H]; inv_ok H; fin_tk T tk.
  - (* FInl *) destruct st; try (destruct (exc_step s T0 _ c) as [s1 nx] eqn:X; unfold exc_step in X; try (destruct (guard (sets s T0) =? 0)); injection X as <- <-; inv_ok H; cbn in Hc; fin_tk T tk).
    + inv_ok H; fin_tk T tk.
    + inv_ok H; fin_tk T tk.
    + inv_ok H; fin_tk T tk.
    + inv_ok H; fin_tk T tk.
  - destruct (deq_tok s T0) as [[x s1]|] eqn:D; inv_ok H; [|fin_tk T tk].
    destruct (deq_tok_spec _ _ _ _ D) as [S1 _ _ _ _ _ _ _ D1 _]. cbn zeta. rewrite S1, D1. fin_tk T tk.
  - split_hyp H; inv_ok H; fin_tk T tk.
  - destruct (deq_any s) as [[x s1]|] eqn:D; inv_ok H; [|fin_tk T tk].
    destruct (deq_any_spec _ _ _ D) as [S1 _ _ _ _ _ _ _ D1 _]. cbn zeta. rewrite S1, D1. fin_tk T tk.
  - destruct (if 0 <? nrings s then deq_any s else None) as [[x s1]|] eqn:D; inv_ok H; [|fin_tk T tk].
    destruct (0 <? nrings s); [|discriminate]. destruct (deq_any_spec _ _ _ D) as [S1 _ _ _ _ _ _ _ D1 _]. cbn zeta. rewrite S1, D1. fin_tk T tk.
  - inv_ok H; fin_tk T tk.
  - split_hyp H; inv_ok H; fin_tk T tk.
  - destruct (deq_tok s T0) as [[x s1]|] eqn:D; inv_ok H; [|fin_tk T tk].
    destruct (deq_tok_spec _ _ _ _ D) as [S1 _ _ _ _ _ _ _ D1 _]. cbn zeta. rewrite S1, D1. fin_tk T tk.
  - split_hyp H; inv_ok H; fin_tk T tk.
  - destruct (deq_any s) as [[x s1]|] eqn:D; inv_ok H; [|fin_tk T tk].
    destruct (deq_any_spec _ _ _ D) as [S1 _ _ _ _ _ _ _ D1 _]. cbn zeta. rewrite S1, D1. fin_tk T tk.
  - destruct (if 0 <? nrings s then deq_any s else None) as [[x s1]|] eqn:D; inv_ok H; [|fin_tk T tk].
    destruct (0 <? nrings s); [|discriminate]. destruct (deq_any_spec _ _ _ D) as [S1 _ _ _ _ _ _ _ D1 _]. cbn zeta. rewrite S1, D1. fin_tk T tk.
  - split_hyp H; inv_ok H; fin_tk T tk.
  - split_hyp H; inv_ok H; fin_tk T tk.
  - inv_ok H; fin_tk T tk.
  - inv_ok H; fin_tk T tk.
  - inv_ok H; fin_tk T tk.
  - inv_ok H; fin_tk T tk.
  - destruct l0; inv_ok H; fin_tk T tk.
  - destruct (deq_any s) as [[x s1]|] eqn:D; inv_ok H; [|fin_tk T tk].
    destruct (deq_any_spec _ _ _ D) as [S1 _ _ _ _ _ _ _ D1 _]. cbn zeta. rewrite S1, D1. fin_tk T tk.
Qed.

Lemma weight_nonneg s T tk : 0 <= weight s T tk.
Proof.
  unfold weight. pose proof (slotk_nonneg (sets (sh s) T) tk). pose proof (tsum_nonneg (holdtk T tk) (threads s) (holdtk_nonneg T tk)).
  pose proof (cntd_nonneg T tk (delivered (sh s))). lia.
Qed.

Lemma step1_tickets s t ch s' ch' site : Tickets s -> step1 s t ch = Some (s', ch', site) -> Tickets s'.
Proof.
  intros [C0 I] H. apply step1_inv in H. destruct H as (th & f & rest & sh' & l & e & N & K & E & ->).
  set (c := if sited (cfg (sh s)) f then clock (sh s) + 1 else clock (sh s)) in *.
  assert (Lc : clock (sh s) <= c) by (unfold c; destruct (sited (cfg (sh s)) f); lia).
  split; [cbn; lia|]. intros T tk.
  assert (D : tk <> 0 -> weight (ST (sh_clock sh' c) (set_nth (threads s) t (TH l (e ++ res th) (tpool th) (dep0 th)))) T tk <= weight s T tk \/
              (tk = clock (sh s) + 1 /\ c = clock (sh s) + 1 /\
               weight (ST (sh_clock sh' c) (set_nth (threads s) t (TH l (e ++ res th) (tpool th) (dep0 th)))) T tk <= weight s T tk + 1)).
  { intros NZ. unfold weight. cbn [sh threads]. change (sets (sh_clock sh' c)) with (sets sh'). change (delivered (sh_clock sh' c)) with (delivered sh').
    rewrite (tsum_set_nth _ _ _ _ _ N). cbn [stk]. rewrite K.
    pose proof (step_top_tk _ _ _ _ _ _ _ _ T tk E eq_refl NZ) as X. cbn zeta in X. fold c in X. clearbody c. clear E. destruct X as [X|(X1 & X2 & X3)]; [left; lia | right; split; [exact X1 | split; [exact X2 | lia]]]. }
  pose proof (weight_nonneg (ST (sh_clock sh' c) (set_nth (threads s) t (TH l (e ++ res th) (tpool th) (dep0 th)))) T tk) as NN.
  destruct (I T tk) as [I1 I2]. split.
  - intros NZ. destruct (D NZ) as [D1|(D1 & D2 & D3)]; [specialize (I1 NZ); lia|]. assert (weight s T tk = 0) by (apply I2; lia). lia.
  - cbn [sh clock sh_clock]. intros Hk. assert (NZ : tk <> 0) by lia. destruct (D NZ) as [D1|(D1 & D2 & D3)]; [|lia].
    assert (weight s T tk = 0) by (apply I2; lia). lia.
Qed.
Lemma init_tickets u : Tickets (init u).
Proof.
  split; [cbn; lia|]. intros T tk. unfold weight.
  assert (Z0 : tsum (holdtk T tk) (threads (init u)) = 0).
  { cbn. induction (su_progs u) as [|p l IH]; cbn; [reflexivity | rewrite IH; reflexivity]. }
  rewrite Z0. cbn. unfold slotk. cbn. destruct tk; split; intros A; cbn in A; lia.
Qed.
Theorem tickets u s : reach step1 (init u) s -> Tickets s.
Proof.
  intros R. apply (reach_inv step1 Tickets (init u)); [apply init_tickets | | exact R].
  intros s1 t ch s1' ch' site I E. eapply step1_tickets; eauto.
Qed.
(* delivered_at_most_once: no capture (set, ticket of the slot write) appears twice in the log of rethrows -- for ALL interleavings *)
Theorem delivered_at_most_once u s T tk : reach step1 (init u) s -> tk <> 0 -> cntd T tk (delivered (sh s)) <= 1.
Proof.
  intros R NZ. destruct (tickets _ _ R) as [_ I]. destruct (I T tk) as [I1 _]. specialize (I1 NZ). unfold weight in I1.
  pose proof (slotk_nonneg (sets (sh s) T) tk). pose proof (tsum_nonneg (holdtk T tk) (threads s) (holdtk_nonneg T tk)). lia.
Qed.

(* ============================================================================================================
   C47: the ForceQueuingTag paths.  With numThreads >= 1 every frame of such a path steps to frames of the same path
   (or returns), enqueues, and logs no body event: no step of the enqueue paths executes a task body.
   ============================================================================================================ *)
Definition force_frame (f : frame) : bool :=
  match f with
  | FRet tag _ => negb (tag =? t_b)
  | FPkgInc _ _ _ how | FPkgEnq _ _ _ how => negb (how =? 0)
  | FBulkStart _ force _ _ _ => force
  | FBulkLoop _ mode _ _ _ _ | FBulkCanc _ mode _ _ _ _ | FBulkInc _ mode _ _ _ _ _ | FBulkEnq _ mode _ _ _ _ _ => mode =? 2
  | _ => false
  end.
Definition no_body_event (e : list ev) : Prop := Forall (fun x => fst (fst x) <> t_b) e.

Lemma force_dispatch s T skip b c s' fr e : dispatch s (OSched T true skip b) c = (s', fr, e) -> forallb force_frame fr = true /\ no_body_event e.
Proof.
  cbn. intros H. injection H as _ <- <-. split; [|constructor]. destruct (concurrent (cfg s T) && heavy (cfg s T)); reflexivity.
Qed.
Lemma force_dispatch_bulk s T n b c s' fr e : dispatch s (OBulk T true n b) c = (s', fr, e) -> forallb force_frame fr = true /\ no_body_event e.
Proof. cbn. intros H. destruct n; injection H as _ <- <-; split; try reflexivity; constructor. Qed.

Theorem force_never_inline s th f rest c s' l e :
  1 <= nthr s -> force_frame f = true -> step_top s th f rest c = Some (s', l, e) ->
  (exists l0, l = l0 ++ rest /\ forallb force_frame l0 = true) /\ no_body_event e.
Proof.
  intros N1 FF H. assert (NZ : (nthr s =? 0) = false) by (apply Z.eqb_neq; lia).
  destruct f; cbn in FF; try discriminate; cbn [step_top] in H.
  - (* FRet *) inv_ok H. split; [exists []; split; reflexivity|]. constructor; [|constructor]. cbn. apply negb_true_iff, Z.eqb_neq in FF. exact FF.
  - (* FPkgInc *) inv_ok H. split; [|constructor]. exists [FPkgEnq T k b how]. split; [reflexivity|]. cbn. rewrite FF. reflexivity.
  - (* FPkgEnq *) apply negb_true_iff in FF. rewrite FF, NZ in H. cbn in H. inv_ok H. split; [exists []; split; reflexivity | constructor].
  - (* FBulkStart *) subst force. inv_ok H. split; [|constructor]. exists [FBulkLoop T 2 base 0 n b]. split; reflexivity.
  - (* FBulkLoop *) apply Z.eqb_eq in FF. subst mode. split_hyp H; inv_ok H; (split; [|constructor]).
    + exists [FBulkCanc T 2 base i n b]. split; reflexivity.
    + exists []. split; reflexivity.
  - (* FBulkCanc *) apply Z.eqb_eq in FF. subst mode. split_hyp H; inv_ok H; (split; [|constructor]).
    + exists []. split; reflexivity.
    + eexists [_]. split; reflexivity.
  - (* FBulkInc *) apply Z.eqb_eq in FF. subst mode. inv_ok H. split; [|constructor]. eexists [_]. split; reflexivity.
  - (* FBulkEnq *) apply Z.eqb_eq in FF. subst mode. cbn in H. inv_ok H. split; [|constructor]. eexists [_]. split; reflexivity.
Qed.

(* the frames an OSched/OBulk with ForceQueuingTag pushes are force frames, and (by the theorem above, applied step after step) remain so
   until they are popped; a force frame never pushes a wrapper, a raw functor call or a body, and logs no body event *)
Corollary force_path_closed s th f rest c s' l e :
  1 <= nthr s -> force_frame f = true -> step_top s th f rest c = Some (s', l, e) ->
  forall g, In g l -> In g rest \/ force_frame g = true.
Proof.
  intros N1 FF H g Hg. destruct (force_never_inline _ _ _ _ _ _ _ _ N1 FF H) as [[l0 [-> F0]] _].
  apply in_app_or in Hg. destruct Hg as [Hg|Hg]; [right | left; exact Hg].
  rewrite forallb_forall in F0. apply F0, Hg.
Qed.

(* ---------- C02 / C04 corollaries stated on thread frames ---------- *)
Lemma wait_is_barrier u s t th T rest :
  reach step1 (init u) s -> nth_error (threads s) t = Some th -> stk th = FWaitLoad T :: rest -> outst (sets (sh s) T) = 0 ->
  step_top (sh s) th (FWaitLoad T) rest (clock (sh s) + 1) = Some (sh s, FTestGuard T false :: rest, []) /\
  (forall k, counted (ledger (sh s) k) T = false) /\
  qcount T (queue (sh s)) = 0 /\ (forall th' f, In th' (threads s) -> In f (stk th') -> contrib T f = 0).
Proof.
  intros R N K Z. split; [cbn [step_top]; rewrite Z; reflexivity|].
  split; [apply (zero_is_barrier u s T R Z)|]. apply counts_zero; [apply (outstanding_counts u s R) | exact Z].
Qed.
Lemma trywait_true_sound u s t th T rest :
  reach step1 (init u) s -> nth_error (threads s) t = Some th -> stk th = FTwLoad2 T :: rest ->
  (outst (sets (sh s) T) <> 0 -> exists c, step_top (sh s) th (FTwLoad2 T) rest c = Some (sh s, rest, [(t_tw, enc 0 T, c)])) /\
  (outst (sets (sh s) T) = 0 ->
     (forall k, counted (ledger (sh s) k) T = false) /\ qcount T (queue (sh s)) = 0 /\
     (forall th' f, In th' (threads s) -> In f (stk th') -> contrib T f = 0)).
Proof.
  intros R N K. split.
  - intros NZ. exists 0. cbn [step_top]. destruct (Z.eqb_spec (outst (sets (sh s) T)) 0); [contradiction | reflexivity].
  - intros Z. split; [apply (zero_is_barrier u s T R Z)|]. apply counts_zero; [apply (outstanding_counts u s R) | exact Z].
Qed.
Lemma quiescent_zero u s T : reach step1 (init u) s -> qcount T (queue (sh s)) = 0 ->
  (forall th f, In th (threads s) -> In f (stk th) -> contrib T f = 0) -> outst (sets (sh s) T) = 0.
Proof. intros R. apply counts_quiescent. apply (outstanding_counts u s R). Qed.

Lemma throw_preserves_accounting u s T : reach step1 (init u) s ->
  outst (sets (sh s) T) = qcount T (queue (sh s)) + tsum (contrib T) (threads s) /\
  (qcount T (queue (sh s)) = 0 -> (forall th f, In th (threads s) -> In f (stk th) -> contrib T f = 0) -> outst (sets (sh s) T) = 0).
Proof. intros R. split; [apply (outstanding_counts u s R) | apply (quiescent_zero u s T R)]. Qed.
Lemma force_dispatch_both s T skip b n c s' fr e :
  (dispatch s (OSched T true skip b) c = (s', fr, e) -> forallb force_frame fr = true /\ no_body_event e) /\
  (dispatch s (OBulk T true n b) c = (s', fr, e) -> forallb force_frame fr = true /\ no_body_event e).
Proof. split; [apply force_dispatch | apply force_dispatch_bulk]. Qed.

(* ---------- C04 regression: the former refutation witness.  cancel(); schedule(f) on a ConcurrentTaskSet with workRemaining_ 40 >
   poolLoadFactor_ 32: after the fix the second fallback loads canceled_ (true), packages and queues; no body starts ---------- *)
Definition c04_witness : setup := SU [TC true false 4 []] [] 40 1 32 3 0 [] [([OCancel 0; OSched 0 false false []], false, 0)].
Lemma c04_regression :
  let '(s, tr, st) := run_ts 20 c04_witness [0; 0; 0; 0; 0; 0; 0; 0] in
  st = SDone /\ map snd tr = [0; sc 42 0; sc 4 0; sc 1 0; sc 10 0] /\ length (queue (sh s)) = 1%nat /\ ledger (sh s) 1 = LPend 0 /\
  existsb (fun e => fst (fst e) =? t_b) (res (nth 0 (threads s) (TH [] [] false 0))) = false.
Proof. vm_compute. repeat split; reflexivity. Qed.
