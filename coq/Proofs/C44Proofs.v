(* C44: the statements of Props/Properties_C44.v, about the definitions REGENERATED from /repo (Gen/GenBitMath.v),
   obtained from the model-level proofs (Proofs/BitMathProofs.v) through the tie (GenTie/BitMathGenTie.v);
   and: the executable specification used by the correspondence (Model/C44Check.v) accepts the model on every input. *)
From Coq Require Import ZArith List Bool Lia.
From DV Require Import Base.MachInt Model.BitMathModel Proofs.BitMathProofs Gen.GenBitMath GenTie.BitMathGenTie Model.C44Check.
Import ListNotations.
Local Open Scope Z_scope.

(* ---------------------------------------------------------------- nextPow2 *)
Lemma C44_nextPow2_spec_proof : forall v, 1 <= v <= 2 ^ 63 ->
  gen_nextPow2 v = 2 ^ Z.log2_up v /\
  (exists k, 0 <= k <= 63 /\ gen_nextPow2 v = 2 ^ k) /\ v <= gen_nextPow2 v /\
  (forall j, 0 <= j -> v <= 2 ^ j -> gen_nextPow2 v <= 2 ^ j).
Proof.
  intros v Hv. rewrite tie_nextPow2. split; [apply nextPow2_m_log2_up; exact Hv | apply nextPow2_m_least; exact Hv].
Qed.

Lemma C44_nextPow2_corners_proof :
  gen_nextPow2 0 = 0 /\ (forall v, 2 ^ 63 < v < 2 ^ 64 -> gen_nextPow2 v = 0).
Proof. split; [reflexivity | intros v Hv; rewrite tie_nextPow2; apply nextPow2_m_big; exact Hv]. Qed.

(* ---------------------------------------------------------------- log2const *)
Lemma C44_log2const_spec_proof :
  (forall v, 1 <= v < 2 ^ 64 -> gen_log2const_u64 v = Some (Z.log2 v)) /\
  (forall v, 1 <= v < 2 ^ 32 -> gen_log2const_u32 v = Some (Z.log2 v)) /\
  gen_log2const_u64 0 = Some 0 /\ gen_log2const_u32 0 = Some 0.
Proof.
  split; [|split; [|split; reflexivity]].
  - intros v Hv. rewrite tie_log2const_u64, log2const64_m_spec by exact Hv. reflexivity.
  - intros v Hv. rewrite tie_log2const_u32, log2const32_m_spec by exact Hv. reflexivity.
Qed.

(* ---------------------------------------------------------------- alignToCacheLine *)
Lemma C44_alignToCacheLine_spec_proof : forall val, 0 <= val -> val + 63 < 2 ^ 64 ->
  let r := gen_bm_alignToCacheLine val in
  (c_bm_kCacheLineSize | r) /\ val <= r < val + c_bm_kCacheLineSize /\
  (forall m, (c_bm_kCacheLineSize | m) -> val <= m -> r <= m).
Proof.
  intros val H0 H1. cbv zeta. rewrite tie_alignToCacheLine, tie_kCacheLineSize. unfold cacheLine.
  apply alignToCacheLine_m_spec; assumption.
Qed.

Lemma C44_alignToCacheLine_wrap_proof : forall val, 2 ^ 64 - 64 < val < 2 ^ 64 -> gen_bm_alignToCacheLine val = 0.
Proof. intros val H. rewrite tie_alignToCacheLine. apply alignToCacheLine_m_wrap; exact H. Qed.

(* ---------------------------------------------------------------- the checker accepts the model (all inputs) *)
Lemma is_pow2b_pow2 k : 0 <= k < 200 -> is_pow2b (2 ^ k) = true.
Proof.
  intros Hk. unfold is_pow2b. rewrite Z.log2_pow2 by lia.
  assert (P : 0 < 2 ^ k) by (apply Z.pow_pos_nonneg; lia).
  replace (0 <? 2 ^ k) with true by (symmetry; apply Z.ltb_lt; exact P).
  replace (k <? 200) with true by (symmetry; apply Z.ltb_lt; lia).
  cbn [andb]. apply Z.eqb_refl.
Qed.

Lemma log2_okb_log2 v : 0 < v < 2 ^ 64 -> log2_okb v (Z.log2 v) = true.
Proof.
  intros Hv. unfold log2_okb.
  assert (L : 0 <= Z.log2 v < 64) by (split; [apply Z.log2_nonneg | apply Z.log2_lt_pow2; lia]).
  replace (0 <=? Z.log2 v) with true by (symmetry; apply Z.leb_le; lia).
  replace (Z.log2 v <? 200) with true by (symmetry; apply Z.ltb_lt; lia).
  cbn [andb]. pose proof (Z.log2_spec v ltac:(lia)) as S. unfold Z.succ in S.
  apply andb_true_iff; split; [apply Z.leb_le | apply Z.ltb_lt]; lia.
Qed.

Lemma dom_range (a b v : Z) : (a <=? v) && (v <? b) = true -> a <= v < b.
Proof. intros H; apply andb_true_iff in H; destruct H as [H1 H2]; apply Z.leb_le in H1; apply Z.ltb_lt in H2; lia. Qed.

Lemma bm_prop_model_1 v : bm_domain 1 v = true -> bm_prop 1 v (bm_model 1 v) = true.
Proof.
  cbn [bm_domain bm_prop bm_model]. intros H. apply andb_true_iff in H; destruct H as [H1 H2].
  apply Z.leb_le in H1; apply Z.leb_le in H2.
  rewrite nextPow2_m_log2_up by lia.
  assert (L0 : 0 <= Z.log2_up v) by apply Z.log2_up_nonneg.
  assert (L63 : Z.log2_up v <= 63) by (apply Z.log2_up_le_pow2; lia).
  rewrite is_pow2b_pow2 by lia. cbn [andb].
  apply andb_true_iff; split; [apply Z.leb_le; apply Z.log2_up_le_pow2; lia | apply Z.ltb_lt].
  destruct (Z.eq_dec v 1) as [-> | N]; [reflexivity|].
  pose proof (Z.log2_up_spec v ltac:(lia)) as S.
  assert (LP : 0 < Z.log2_up v) by (apply Z.log2_up_pos; lia).
  replace (Z.log2_up v) with (Z.succ (Z.pred (Z.log2_up v))) at 1 by lia.
  rewrite Z.pow_succ_r by lia. lia.
Qed.

Lemma bm_prop_model_log2 fn v : In fn [2; 3; 4; 5] -> bm_domain fn v = true -> bm_prop fn v (bm_model fn v) = true.
Proof.
  assert (P : 2 ^ 32 < 2 ^ 64) by reflexivity.
  intros [<- | [<- | [<- | [<- | []]]]]; cbn [bm_domain bm_prop bm_model]; intros H; apply dom_range in H.
  - rewrite log2const64_m_spec by lia. apply log2_okb_log2; lia.
  - rewrite log2const32_m_spec by lia. apply log2_okb_log2; lia.
  - apply log2_okb_log2; lia.
  - apply log2_okb_log2; lia.
Qed.

Lemma bm_prop_model_6 v : bm_domain 6 v = true -> bm_prop 6 v (bm_model 6 v) = true.
Proof.
  cbn [bm_domain bm_prop bm_model]. intros H; apply dom_range in H.
  destruct (ctz_m_spec v ltac:(lia)) as (R & T & _). destruct (ctz_m_divides v ltac:(lia)) as [D _].
  replace (0 <=? ctz_m v) with true by (symmetry; apply Z.leb_le; lia).
  replace (ctz_m v <? 200) with true by (symmetry; apply Z.ltb_lt; lia).
  cbn [andb]. rewrite T, D. reflexivity.
Qed.

Lemma bm_prop_model_7 v : bm_domain 7 v = true -> bm_prop 7 v (bm_model 7 v) = true.
Proof. intros _. cbn [bm_prop bm_model]. apply Z.eqb_refl. Qed.

Lemma bm_prop_model_8 v : bm_domain 8 v = true -> bm_prop 8 v (bm_model 8 v) = true.
Proof.
  cbn [bm_domain bm_prop bm_model]. intros H. apply andb_true_iff in H; destruct H as [H1 H2].
  apply Z.leb_le in H1; apply Z.ltb_lt in H2.
  destruct (alignToCacheLine_m_spec v H1 H2) as ([q Hq] & B & _).
  apply andb_true_iff; split; [apply andb_true_iff; split|].
  - apply Z.eqb_eq. rewrite Hq. apply Z.mod_mul; lia.
  - apply Z.leb_le; lia.
  - apply Z.ltb_lt; lia.
Qed.

(* on every in-domain input the correspondence verdict for the model's own output is 0 *)
Lemma C44_checker_accepts_model_proof : forall fn v, In fn [1; 2; 3; 4; 5; 6; 7; 8] -> bm_domain fn v = true ->
  judge_bm (fn, v, bm_model fn v) = 0.
Proof.
  intros fn v Hin Hd. unfold judge_bm. rewrite Hd, Z.eqb_refl.
  assert (P : bm_prop fn v (bm_model fn v) = true).
  { destruct Hin as [<- | Hin]; [apply bm_prop_model_1; exact Hd|].
    destruct Hin as [<- | Hin]; [apply bm_prop_model_log2; [cbn; tauto | exact Hd]|].
    destruct Hin as [<- | Hin]; [apply bm_prop_model_log2; [cbn; tauto | exact Hd]|].
    destruct Hin as [<- | Hin]; [apply bm_prop_model_log2; [cbn; tauto | exact Hd]|].
    destruct Hin as [<- | Hin]; [apply bm_prop_model_log2; [cbn; tauto | exact Hd]|].
    destruct Hin as [<- | Hin]; [apply bm_prop_model_6; exact Hd|].
    destruct Hin as [<- | Hin]; [apply bm_prop_model_7; exact Hd|].
    destruct Hin as [<- | []]. apply bm_prop_model_8; exact Hd. }
  rewrite P. reflexivity.
Qed.

Lemma is_pow2b_inv a : is_pow2b a = true -> 0 < a /\ a = 2 ^ Z.log2 a.
Proof.
  unfold is_pow2b. destruct (0 <? a) eqn:E; cbn [andb]; [|discriminate].
  apply Z.ltb_lt in E. destruct (Z.log2 a <? 200); [|discriminate].
  intros H; apply Z.eqb_eq in H. split; [exact E | symmetry; exact H].
Qed.

(* same for alignedMalloc/alignedFree: what the model computes passes the executable specification *)
Lemma C44_am_checker_accepts_model_proof : forall p bytes a, am_domain p bytes a = true ->
  judge_am (p, bytes, a, (am_request bytes a, am_base p a, p, p)) = 0.
Proof.
  intros p bytes a Hd. unfold judge_am. rewrite Hd. unfold am_domain in Hd.
  apply andb_true_iff in Hd; destruct Hd as [Hd H]. apply andb_true_iff in Hd; destruct Hd as [Hd H0].
  apply andb_true_iff in Hd; destruct Hd as [Hd H1]. apply andb_true_iff in Hd; destruct Hd as [Hd H2].
  destruct (is_pow2b_inv a Hd) as [Pa Ea].
  apply Z.ltb_lt in H2. apply Z.eqb_eq in H1. apply Z.leb_le in H0. apply Z.ltb_lt in H.
  set (k := Z.log2 a) in *.
  assert (K0 : 0 <= k) by apply Z.log2_nonneg.
  assert (K63 : k <= 63).
  { assert (a < 2 ^ 64) by lia. assert (k < 64); [apply Z.log2_lt_pow2; lia | lia]. }
  assert (D8 : (8 | p)) by (apply Z.mod_divide; lia).
  pose proof (alignedMalloc_aligned_proof k p bytes (fun _ => 0) ltac:(lia) H2 D8 H0) as S.
  rewrite <- Ea in S. specialize (S H). cbv zeta in S.
  unfold am_model_agrees. destruct (alignedMalloc_m (fun _ : Z => 0) p a) as [m' r] eqn:EM.
  unfold alignedMalloc_m in EM. injection EM as Em Er. subst r.
  destruct S as (Sreq & Sdiv & Slo & Shi & Srec & Sfree & _).
  assert (Pp : am_prop p bytes a (am_request bytes a) (am_base p a) p p = true).
  { unfold am_prop. rewrite !Z.eqb_refl.
    replace (am_base p a mod a =? 0) with true by (symmetry; apply Z.eqb_eq; apply Z.mod_divide; [lia | exact Sdiv]).
    replace (p + 8 <=? am_base p a) with true by (symmetry; apply Z.leb_le; exact Slo).
    replace (am_base p a + bytes <=? p + am_request bytes a) with true by (symmetry; apply Z.leb_le; exact Shi).
    reflexivity. }
  rewrite Pp. cbn [negb andb].
  rewrite Sfree, !Z.eqb_refl. rewrite <- Em.
  rewrite load64_store64 by lia. rewrite Z.eqb_refl.
  replace (am_recovery p a =? am_base p a - 8) with true by (symmetry; apply Z.eqb_eq; exact Srec).
  reflexivity.
Qed.
