(* C19: then-chain and task-set counter invariants over ALL interleavings of Model/FutureModel.v, on top of the C18
   invariant (Proofs/C18Proofs.v); when_all / when_any over Model/FutureCombModel.v are in the second half. *)
From Coq Require Import ZArith List Bool Lia.
From DV Require Import Base.MachInt Base.Sched Model.FutureModel Proofs.C18Proofs.
Import ListNotations.
Local Open Scope Z_scope.

(* ---------- D1: every link id is conserved: in a program, in a pc, in the chain, in a drained list, or dispatched ---------- *)
Definition ind (k x : Z) : Z := if x =? k then 1 else 0.
Definition cnt (k : Z) (l : list Z) : Z := zsum (ind k) l.
Definition pcount (k : Z) (p : list op) : Z := zsum (fun o => match o with OThen j => ind k j | _ => 0 end) p.
Definition pcids (p : pc) : list Z :=
  match p with
  | PDispatch _ id rest => id :: rest
  | PThenInc id | PThenLoad0 id | PThenDirect id | PThenLoadHead id | PThenCas id _ => [id]
  | _ => []
  end.
Definition tcnt (k : Z) (th : thread) : Z := cnt k (pcids (tpc th)) + pcount k (prog th).

Lemma cnt_cons k a l : cnt k (a :: l) = ind k a + cnt k l. Proof. reflexivity. Qed.
Lemma cnt_nil k : cnt k [] = 0. Proof. reflexivity. Qed.
Lemma ind_range k x : 0 <= ind k x <= 1. Proof. unfold ind. destruct (x =? k); lia. Qed.
Lemma cnt_nonneg k l : 0 <= cnt k l. Proof. apply zsum_nonneg. intros x _. apply ind_range. Qed.
Lemma pcount_nonneg k p : 0 <= pcount k p.
Proof. apply zsum_nonneg. intros o _. destruct o; try lia. apply ind_range. Qed.
Lemma tcnt_nonneg k th : 0 <= tcnt k th.
Proof. unfold tcnt. pose proof (cnt_nonneg k (pcids (tpc th))). pose proof (pcount_nonneg k (prog th)). lia. Qed.

Lemma tcnt_next k X : tcnt k (next X) = pcount k (prog X).
Proof.
  unfold tcnt, next. destruct (prog X) as [|o r]; cbn [tpc prog]; [reflexivity|].
  change (pcount k (o :: r)) with ((match o with OThen j => ind k j | _ => 0 end) + pcount k r).
  destruct o; cbn [entry pcids]; rewrite ?cnt_cons, ?cnt_nil; lia.
Qed.
Lemma tcnt_finish k X K : tcnt k (finish X K) = pcount k (prog X).
Proof. destruct K as [|[|]|p u|]; unfold finish; rewrite ?tcnt_next; unfold tcnt; cbn [tpc prog goto logr pcids]; rewrite ?cnt_nil; lia. Qed.
Lemma tcnt_fallback k X K : tcnt k (fallback X K) = pcount k (prog X).
Proof. destruct K as [|g|p [|]|]; unfold fallback; rewrite ?tcnt_next; unfold tcnt; cbn [tpc prog goto logr pcids]; rewrite ?cnt_nil; lia. Qed.
Lemma tcnt_wake1 k x : tcnt k (wake1 x) = tcnt k x.
Proof. unfold tcnt, wake1. destruct (tpc x) eqn:E; cbn [tpc prog goto]; rewrite ?E; reflexivity. Qed.

Lemma D1_tstep k c g th ch g' th' wk ch' site :
  tstep c g th ch = Some (g', th', wk, ch', site) ->
  cnt k (disp g') + cnt k (chain g') + tcnt k th' = cnt k (disp g) + cnt k (chain g) + tcnt k th.
Proof.
  intros T. tcases T; zb; subst; rewrite ?tcnt_next, ?tcnt_finish, ?tcnt_fallback; unfold tcnt; rewrite ?Epc; fsimp;
    cbn [pcids]; try match goal with H : chain _ = _ |- _ => rewrite ?H end; rewrite ?cnt_cons, ?cnt_nil; lia.
Qed.

(* ---------- D2: a non-empty chain of a Ready future always has a thread committed to draining it ---------- *)
Definition committed (p : pc) : bool :=
  match p with PNotifyWake _ | PTsc _ | PChainLoad _ | PChainCas _ _ | PThenRecheck => true | _ => false end.
Lemma committed_wake1 x : committed (tpc (wake1 x)) = committed (tpc x).
Proof. unfold wake1. destruct (tpc x) eqn:E; cbn [tpc goto]; rewrite ?E; reflexivity. Qed.

Lemma J_tstep c g th ch g' th' wk ch' site :
  tstep c g th ch = Some (g', th', wk, ch', site) ->
  committed (tpc th') = true \/ (chain g' = [] \/ word g' <> 2) \/
  (committed (tpc th) = false /\ chain g' = chain g /\ word g' = word g).
Proof.
  intros T. tcases T; zb; subst; rewrite ?Epc; fsimp;
    first [ left; reflexivity
          | right; left; first [left; first [reflexivity | assumption] | right; lia]
          | right; right; split; [reflexivity | split; reflexivity] ].
Qed.

(* ---------- D3: dispatch only when Ready ---------- *)
Lemma D3_tstep c g th ch g' th' wk ch' site :
  tstep c g th ch = Some (g', th', wk, ch', site) -> rr_ok g th -> bad_disp g = false -> bad_disp g' = false.
Proof.
  intros T R Hb. unfold rr_ok in R. tcases T; fsimp; try exact Hb;
    (assert (W : word g = 2) by (apply R; reflexivity)); rewrite Hb, W; reflexivity.
Qed.

(* ---------- D4: the task-set counter is decremented once, after the Ready store ---------- *)
Definition pre (th : thread) : Z := match tpc th with PFunc _ | PNotifyStore _ | PNotifyWake _ | PTsc _ => 1 | _ => 0 end.
Definition z0 (w : Z) : Z := if w =? 0 then 1 else 0.
Lemma pre_next th : pre (next th) = 0.
Proof. unfold pre. destruct (next_pc_cases th) as [->|[o ->]]; [reflexivity | destruct o; reflexivity]. Qed.
Lemma pre_finish th k : pre (finish th k) = 0.
Proof. destruct k as [|[|]|p u|]; cbn [finish]; try reflexivity; apply pre_next. Qed.
Lemma pre_fallback th k : pre (fallback th k) = 0.
Proof. destruct k as [|g|p [|]|]; cbn [fallback]; try reflexivity; apply pre_next. Qed.
Lemma pre_wake1 x : pre (wake1 x) = pre x.
Proof. unfold wake1, pre. destruct (tpc x) eqn:E; cbn [tpc goto]; rewrite ?E; reflexivity. Qed.
Lemma win_le_pre x : 0 <= win x <= pre x. Proof. unfold win, pre. destruct (tpc x); lia. Qed.

Lemma D4_tstep c g th ch g' th' wk ch' site :
  tstep c g th ch = Some (g', th', wk, ch', site) -> hasTsc c = true -> (win th = 1 -> word g = 1) ->
  tsc g' - pre th' - z0 (word g') = tsc g - pre th - z0 (word g).
Proof.
  intros T H Hw. tcases T; zb; try discriminate; rewrite ?pre_next, ?pre_finish, ?pre_fallback;
    unfold pre, win in *; rewrite ?Epc in *; fsimp; unfold z0;
    try (assert (word g = 1) by (apply Hw; reflexivity)); eqb_goal; lia.
Qed.

(* ---------- bookkeeping: a finished thread has no program left; task-set waits report readiness ---------- *)
Definition done_ok (th : thread) : Prop := tpc th = PDone -> prog th = [].
Lemma done_next X : done_ok (next X).
Proof. unfold done_ok, next. destruct (prog X) as [|o r]; cbn; [reflexivity | destruct o; discriminate]. Qed.
Lemma done_finish X K : done_ok (finish X K).
Proof. destruct K as [|[|]|p u|]; cbn [finish]; try apply done_next; discriminate. Qed.
Lemma done_fallback X K : done_ok (fallback X K).
Proof. destruct K as [|g|p [|]|]; cbn [fallback]; try apply done_next; discriminate. Qed.
Lemma done_wake1 x : done_ok x -> done_ok (wake1 x).
Proof. unfold done_ok, wake1. destruct (tpc x) eqn:E; cbn [tpc prog goto]; rewrite ?E; auto; discriminate. Qed.

Lemma done_tstep c g th ch g' th' wk ch' site :
  tstep c g th ch = Some (g', th', wk, ch', site) -> done_ok th -> done_ok th'.
Proof.
  intros T D. tcases T; first [apply done_next | apply done_finish | apply done_fallback | (unfold done_ok; fsimp; rewrite ?Epc; discriminate)].
Qed.

Definition tsw_ok (th : thread) : Prop := Forall (fun p => fst p = r_tswait -> snd p = 1) (res th).
Lemma tsw_finish X K : tsw_ok X -> tsw_ok (finish X K).
Proof.
  unfold tsw_ok. intros G. destruct K as [|[|]|p u|]; cbn [finish]; rewrite ?res_next; cbn [res logr goto]; try exact G;
    (constructor; [cbn; unfold r_tswait, r_wait, r_waitfor; lia | exact G]).
Qed.
Lemma tsw_wake1 x : tsw_ok x -> tsw_ok (wake1 x).
Proof. unfold tsw_ok. destruct (wake1_fields x) as (_ & -> & _). exact (fun H => H). Qed.

Lemma E_tstep c g th ch g' th' wk ch' site :
  tstep c g th ch = Some (g', th', wk, ch', site) -> tsw_ok th -> (tsc g = 0 -> word g = 2) -> tsw_ok th'.
Proof.
  intros T G H. tcases T; fsimp; try apply tsw_finish; unfold tsw_ok in *; rewrite ?res_next, ?res_fallback; cbn [res logr goto addh untok];
    repeat (constructor; [cbn [fst snd]; unfold r_get, r_getx, r_wait, r_waitfor, r_ready, r_func, r_disp, r_dealloc, r_tswait; try lia|]);
    try exact G.
  zb. intros _. rewrite (H Heqb). reflexivity.
Qed.

Lemma D6_tstep c g th ch g' th' wk ch' site :
  tstep c g th ch = Some (g', th', wk, ch', site) -> rr_ok g th -> (disp g <> [] -> word g = 2) -> disp g' <> [] -> word g' = 2.
Proof.
  intros T R H. unfold rr_ok in R. tcases T; zb; fsimp; try exact H; try (intros _; reflexivity);
    try (intros _; apply R; reflexivity).
  intros D. specialize (H D). lia.
Qed.

Lemma zsum_zero_in {A} (f : A -> Z) l : (forall x, In x l -> f x = 0) -> zsum f l = 0.
Proof.
  induction l as [|a l IH]; intros H; [reflexivity|]. change (f a + zsum f l = 0).
  rewrite (H a (or_introl eq_refl)), IH; [reflexivity | intros; apply H; right; assumption].
Qed.

(* ---------- the global C19 invariant ---------- *)
Definition Jinv (s : state) : Prop :=
  word (sh s) = 2 -> chain (sh s) <> [] -> exists th, In th (threads s) /\ committed (tpc th) = true.

Record Inv19 (B : Z) (N : Z -> Z) (s : state) : Prop := {
  j18 : Inv18 B s;
  jD1 : forall k, cnt k (disp (sh s)) + cnt k (chain (sh s)) + zsum (tcnt k) (threads s) = N k;
  jD2 : Jinv s;
  jD3 : bad_disp (sh s) = false;
  jD4 : hasTsc (conf s) = true -> tsc (sh s) = zsum pre (threads s) + z0 (word (sh s));
  jD5 : Forall done_ok (threads s);
  jD6 : disp (sh s) <> [] -> word (sh s) = 2;
  jE : hasTsc (conf s) = true -> Forall tsw_ok (threads s) }.

Lemma tsc_zero_ready B N s : Inv19 B N s -> hasTsc (conf s) = true -> tsc (sh s) = 0 -> word (sh s) = 2.
Proof.
  intros [I _ _ _ D4 _ _ _] H Z. specialize (D4 H). destruct I as [K A1 A2 B1 B2 B3 C1 C2 C3 C4 C5 F1 F2].
  assert (0 <= zsum pre (threads s)) by (apply zsum_nonneg; intros x _; pose proof (win_le_pre x); lia).
  assert (zsum win (threads s) <= zsum pre (threads s)) by (apply zsum_le; intros x _; pose proof (win_le_pre x); lia).
  assert (0 <= zsum win (threads s)) by (apply zsum_nonneg; intros x _; pose proof (win_range x); lia).
  unfold z0, b1, word_ok in *. destruct A1 as [W|[W|W]]; rewrite W in *; cbn in *; lia.
Qed.

Lemma In_woken_keeps wk ths t th th' x :
  nth_error ths t = Some th -> In x ths -> committed (tpc x) = true -> committed (tpc th) = false ->
  exists y, In y (set_nth (woken wk ths) t th') /\ committed (tpc y) = true.
Proof.
  intros N Hx Cx Cth. destruct wk; cbn [woken].
  - exists (wake1 x). split; [|rewrite committed_wake1; exact Cx].
    eapply set_nth_keeps; [exact (nth_woken true _ _ _ N) | unfold wake_all; apply in_map; exact Hx|].
    cbn. intros E. pose proof (committed_wake1 x) as E1. pose proof (committed_wake1 th) as E2. rewrite E in E1. congruence.
  - exists x. split; [|exact Cx]. eapply set_nth_keeps; [exact N | exact Hx|]. intros ->. congruence.
Qed.

Lemma Inv19_step B N s t ch s' ch' site : Inv19 B N s -> step s t ch = Some (s', ch', site) -> Inv19 B N s'.
Proof.
  intros I E. pose proof (tsc_zero_ready _ _ _ I) as TZ.
  destruct I as [I D1 D2 D3 D4 D5 D6 E1]. pose proof (Inv18_step _ _ _ _ _ _ _ I E) as I'.
  destruct I as [K A1 A2 B1 B2 B3 C1 C2 C3 C4 C5 F1 F2].
  destruct (step_inv _ _ _ _ _ _ E) as (th & g' & th' & wk & Nn & T & ->). clear E.
  pose proof (nth_error_In _ _ Nn) as Hin.
  pose proof A2 as A2'. rewrite Forall_forall in A2'. pose proof (A2' _ Hin) as Rth.
  pose proof D5 as D5'. rewrite Forall_forall in D5'. pose proof (D5' _ Hin) as Dth.
  assert (Hw : win th = 1 -> word (sh s) = 1).
  { intros W1. pose proof (zsum_ge_elem win _ _ (fun y _ => proj1 (win_range y)) Hin) as L. rewrite B1 in L. unfold b1 in L.
    destruct (Z.eqb_spec (word (sh s)) 1); [assumption | lia]. }
  constructor; cbn [conf sh threads].
  - exact I'.
  - intros k. rewrite (zsum_step (tcnt k) wk _ t th th' (tcnt_wake1 k) Nn). pose proof (D1_tstep k _ _ _ _ _ _ _ _ _ T). specialize (D1 k). lia.
  - unfold Jinv; cbn [sh threads]. intros W Cn.
    destruct (J_tstep _ _ _ _ _ _ _ _ _ T) as [Ct|[[Ce|Wn]|(Cth & Ec & Ew)]].
    + exists th'. split; [eapply set_nth_in; exact (nth_woken wk _ _ _ Nn) | exact Ct].
    + contradiction.
    + contradiction.
    + rewrite Ec in Cn. rewrite Ew in W. destruct (D2 W Cn) as (x & Hx & Cx). eapply In_woken_keeps; eauto.
  - eapply D3_tstep; eauto.
  - intros H. rewrite (zsum_step pre wk _ t th th' pre_wake1 Nn). pose proof (D4_tstep _ _ _ _ _ _ _ _ _ T H Hw). specialize (D4 H). lia.
  - apply Forall_step with (P := done_ok); auto; [apply done_wake1 | eapply done_tstep; eauto].
  - eapply D6_tstep; eauto.
  - intros H. specialize (E1 H). pose proof E1 as E1'. rewrite Forall_forall in E1'. pose proof (E1' _ Hin) as Eth.
    apply Forall_step with (P := tsw_ok); auto; [apply tsw_wake1 | eapply E_tstep; eauto].
Qed.

(* number of then() registrations with link id k in the initial programs *)
Definition total (ds : list tdesc) (k : Z) : Z := zsum (fun d => let '(_, _, p) := d in pcount k p) ds.

Lemma Inv19_init B c ds : wf_init B c ds -> Inv19 B (total ds) (init c ds).
Proof.
  intros W. constructor; cbn [conf sh threads init init_sh word chain disp bad_disp tsc].
  - apply Inv18_init; exact W.
  - intros k. rewrite zsum_map. unfold total. rewrite cnt_nil.
    rewrite (zsum_ext (fun x => tcnt k (mk_thread x)) (fun d => let '(_, _, p) := d in pcount k p)); [rewrite !Z.add_0_l; reflexivity|].
    intros [[h kk] p]. unfold tcnt; cbn [mk_thread tpc prog pcids]. rewrite cnt_nil. lia.
  - intros _ C. contradiction C; reflexivity.
  - reflexivity.
  - intros H. rewrite H. rewrite zsum_map. rewrite (zsum_const0 (fun x => pre (mk_thread x))); [reflexivity | intros [[h kk] p]; reflexivity].
  - apply Forall_forall. intros x Hx. apply in_map_iff in Hx. destruct Hx as [[[h kk] p] [<- _]]. intros D; discriminate D.
  - intros D; contradiction D; reflexivity.
  - intros _. apply Forall_forall. intros x Hx. apply in_map_iff in Hx. destruct Hx as [[[h kk] p] [<- _]]. constructor.
Qed.

Theorem inv19_reach B c ds s : wf_init B c ds -> reach step (init c ds) s -> Inv19 B (total ds) s.
Proof.
  intros W R. apply (reach_inv step (Inv19 B (total ds)) (init c ds)); [apply Inv19_init; exact W | | exact R].
  intros s1 t ch s1' ch' site I E. eapply Inv19_step; eauto.
Qed.

Lemma finished_all_done s : finished s = true -> forall th, In th (threads s) -> tpc th = PDone.
Proof.
  unfold finished. rewrite forallb_forall. intros F th Hth. specialize (F _ Hth). destruct (tpc th); try discriminate; reflexivity.
Qed.

Theorem then_runs_once_after_ready B c ds s : wf_init B c ds -> reach step (init c ds) s ->
  (* dispatch only after Ready *)
  bad_disp (sh s) = false /\
  (forall th, In th (threads s) -> (exists K id r, tpc th = PDispatch K id r) \/ (exists id, tpc th = PThenDirect id) -> word (sh s) = kReady) /\
  (* conservation: every registered link is in exactly one place *)
  (forall k, cnt k (disp (sh s)) + cnt k (chain (sh s)) + zsum (tcnt k) (threads s) = total ds k) /\
  (forall k, 0 <= cnt k (disp (sh s)) <= total ds k) /\
  (* no link is stranded: a Ready future with a non-empty chain has a thread committed to draining it *)
  (word (sh s) = kReady -> chain (sh s) <> [] -> exists th, In th (threads s) /\ committed (tpc th) = true) /\
  (* hence at the end: Ready => chain empty and every registered link dispatched exactly as often as registered *)
  (finished s = true -> word (sh s) = kReady -> chain (sh s) = [] /\ forall k, cnt k (disp (sh s)) = total ds k) /\
  (* and while the future is not Ready nothing has been dispatched *)
  (word (sh s) <> kReady -> disp (sh s) = []).
Proof.
  intros W R. pose proof (inv19_reach _ _ _ _ W R) as [I D1 D2 D3 D4 D5 D6 E1].
  destruct I as [K A1 A2 B1 B2 B3 C1 C2 C3 C4 C5 F1 F2]. unfold kReady.
  split; [exact D3|]. split.
  { intros th Hth P. rewrite Forall_forall in A2. specialize (A2 _ Hth). unfold rr_ok in A2.
    destruct P as [(K0 & id & r & P)|(id & P)]; rewrite P in A2; apply A2; reflexivity. }
  split; [exact D1|]. split.
  { intros k. specialize (D1 k). pose proof (cnt_nonneg k (disp (sh s))). pose proof (cnt_nonneg k (chain (sh s))).
    assert (0 <= zsum (tcnt k) (threads s)) by (apply zsum_nonneg; intros x _; apply tcnt_nonneg). lia. }
  split; [exact D2|]. split.
  { intros Fin Wr. pose proof (finished_all_done _ Fin) as AD.
    assert (Ce : chain (sh s) = []).
    { destruct (chain (sh s)) eqn:Ec; [reflexivity|]. exfalso. unfold Jinv in D2. rewrite Ec in D2.
      destruct (D2 Wr ltac:(discriminate)) as (x & Hx & Cx). rewrite (AD _ Hx) in Cx. discriminate. }
    split; [exact Ce|]. intros k. specialize (D1 k). rewrite Ce, cnt_nil in D1.
    rewrite (zsum_zero_in (tcnt k)) in D1; [lia|]. intros x Hx. rewrite Forall_forall in D5. pose proof (D5 _ Hx (AD _ Hx)) as Px.
    unfold tcnt. rewrite (AD _ Hx), Px. reflexivity. }
  intros Wn. destruct (disp (sh s)) eqn:Ed; [reflexivity|]. exfalso. apply Wn. apply D6. discriminate.
Qed.

Theorem taskset_wait_implies_ready B c ds s : wf_init B c ds -> hasTsc c = true -> reach step (init c ds) s ->
  (tsc (sh s) = 0 -> word (sh s) = kReady) /\ 0 <= tsc (sh s) /\
  (forall th tag v, In th (threads s) -> In (tag, v) (res th) -> tag = r_tswait -> v = 1).
Proof.
  intros W H R. pose proof (inv19_reach _ _ _ _ W R) as I. pose proof (tsc_zero_ready _ _ _ I) as TZ.
  rewrite (conf_reach _ _ _ R) in TZ. destruct I as [I D1 D2 D3 D4 D5 D6 E1]. rewrite (conf_reach _ _ _ R) in *.
  split; [intros Z; apply TZ; assumption|]. split.
  - rewrite (D4 H). assert (0 <= zsum pre (threads s)) by (apply zsum_nonneg; intros x _; pose proof (win_le_pre x); lia).
    unfold z0. destruct (word (sh s) =? 0); lia.
  - intros th tag v Hth Hr Ht. specialize (E1 H). rewrite Forall_forall in E1. specialize (E1 _ Hth). unfold tsw_ok in E1.
    rewrite Forall_forall in E1. exact (E1 _ Hr Ht).
Qed.
