(* C30: the graph executors.  One interleaving semantics (Model/GraphModel.v: step / run_sched) covers the three
   executors: wave = true is SingleThreadExecutor (a particular schedule) and ParallelForExecutor (any schedule),
   wave = false is ConcurrentTaskSetExecutor (any schedule).  The invariant [Inv] below is preserved by every step
   from every PREPARED counter state (preparedb); everything in Props/Properties_C30.v follows from it. *)
From Coq Require Import ZArith List Bool PArith FMapPositive Lia Arith.
From DV Require Import Base.MachInt Model.GraphModel.
Import ListNotations.
Local Open Scope Z_scope.

(* ------------------------------------------------------------------------------------------------ small facts *)

Arguments countp : simpl never.

Lemma wrap64_small z : 0 <= z < 18446744073709551616 -> wrap64 z = z.
Proof. intros H. unfold wrap64, wrap. change (2 ^ 64) with 18446744073709551616. apply Z.mod_small; exact H. Qed.

Lemma getz_add_same m n v : getz (PM.add n v m) n = v.
Proof. unfold getz. rewrite PM.gss. reflexivity. Qed.
Lemma getz_add_other m n k v : n <> k -> getz (PM.add k v m) n = getz m n.
Proof. intros H. unfold getz. rewrite PM.gso by exact H. reflexivity. Qed.

Lemma memp_In x l : memp x l = true <-> In x l.
Proof.
  unfold memp. rewrite existsb_exists. split.
  - intros [y [Hy E]]. apply Pos.eqb_eq in E. subst. exact Hy.
  - intros H. exists x. split; [exact H | apply Pos.eqb_refl].
Qed.
Lemma memp_false x l : memp x l = false <-> ~ In x l.
Proof. rewrite <- memp_In. destruct (memp x l); split; congruence. Qed.

Lemma countp_app d l1 l2 : countp d (l1 ++ l2) = (countp d l1 + countp d l2)%nat.
Proof. unfold countp. apply count_occ_app. Qed.
Lemma countp_cons d a l : countp d (a :: l) = ((if Pos.eq_dec a d then 1 else 0) + countp d l)%nat.
Proof. unfold countp. simpl. destruct (Pos.eq_dec a d); reflexivity. Qed.
Lemma countp_nil d : countp d [] = 0%nat.
Proof. reflexivity. Qed.
Lemma countp_In d l : In d l <-> (1 <= countp d l)%nat.
Proof. unfold countp. rewrite (count_occ_In Pos.eq_dec). lia. Qed.
Lemma countp_NoDup l : NoDup l <-> forall d, (countp d l <= 1)%nat.
Proof. unfold countp. apply (NoDup_count_occ Pos.eq_dec). Qed.

Lemma nodupb_NoDup l : nodupb l = true -> NoDup l.
Proof.
  induction l as [|a l IH]; simpl; intros H; [constructor|].
  apply andb_true_iff in H. destruct H as [H1 H2]. constructor; [|apply IH; exact H2].
  apply negb_true_iff in H1. apply memp_false in H1. exact H1.
Qed.

Definition tsum {A} (f : A -> nat) (l : list A) : nat := list_sum (map f l).

Arguments tsum : simpl never.

Lemma tsum_app {A} (f : A -> nat) l1 l2 : tsum f (l1 ++ l2) = (tsum f l1 + tsum f l2)%nat.
Proof. unfold tsum. rewrite map_app, list_sum_app. reflexivity. Qed.
Lemma tsum_cons {A} (f : A -> nat) a l : tsum f (a :: l) = (f a + tsum f l)%nat.
Proof. reflexivity. Qed.

Lemma set_nth_split {A} (l : list A) k old new :
  nth_error l k = Some old -> exists l1 l2, l = l1 ++ old :: l2 /\ set_nth k new l = l1 ++ new :: l2.
Proof.
  revert k. induction l as [|a l IH]; intros k H.
  - destruct k; discriminate.
  - destruct k as [|k]; simpl in H.
    + injection H as ->. exists [], l. split; reflexivity.
    + destruct (IH k H) as [l1 [l2 [E1 E2]]]. exists (a :: l1), l2. simpl. rewrite <- E1, E2. split; reflexivity.
Qed.

Lemma tsum_set_nth {A} (f : A -> nat) l k old new :
  nth_error l k = Some old -> (tsum f (set_nth k new l) + f old = tsum f l + f new)%nat.
Proof.
  intros H. destruct (set_nth_split l k old new H) as [l1 [l2 [E1 E2]]]. rewrite E2, E1.
  rewrite !tsum_app, !tsum_cons. lia.
Qed.

Lemma Forall_set_nth {A} (P : A -> Prop) l k new : Forall P l -> P new -> Forall P (set_nth k new l).
Proof.
  revert k. induction l as [|a l IH]; intros k Hl Hn; [destruct k; constructor|].
  inversion Hl; subst. destruct k; simpl; constructor; auto.
Qed.

Lemma tsum_zero {A} (f : A -> nat) l : (forall a, In a l -> f a = 0%nat) -> tsum f l = 0%nat.
Proof.
  induction l as [|a l IH]; intros H; [reflexivity|]. rewrite tsum_cons. rewrite (H a) by (left; reflexivity).
  rewrite IH; [reflexivity|]. intros b Hb. apply H. right. exact Hb.
Qed.
Lemma tsum_zero_inv {A} (f : A -> nat) l a : tsum f l = 0%nat -> In a l -> f a = 0%nat.
Proof.
  induction l as [|b l IH]; intros H Ha; [destruct Ha|]. rewrite tsum_cons in H. destruct Ha as [->|Ha]; [lia|].
  apply IH; [lia | exact Ha].
Qed.

(* changing the summand at one point of a duplicate-free list *)
Lemma tsum_change_one (f g : positive -> nat) l n :
  NoDup l -> In n l -> (forall p, p <> n -> f p = g p) -> (tsum f l + g n = tsum g l + f n)%nat.
Proof.
  induction l as [|a l IH]; intros Hnd Hin Hfg; [destruct Hin|].
  inversion Hnd as [|? ? Hna Hnd']; subst. rewrite !tsum_cons. destruct Hin as [->|Hin].
  - assert (E : tsum f l = tsum g l).
    { unfold tsum. f_equal. apply map_ext_in. intros p Hp. apply Hfg. intros ->. contradiction. }
    lia.
  - assert (a <> n) by (intros ->; contradiction). rewrite (Hfg a) by assumption. specialize (IH Hnd' Hin Hfg). lia.
Qed.

(* ------------------------------------------------------------------------------------------------ observations of a state *)

Definition started_l (l : list ev) : list positive := flat_map (fun e => match e with EvS n => [n] | EvF _ => [] end) l.
Definition finl (l : list ev) : list positive := flat_map (fun e => match e with EvF n => [n] | EvS _ => [] end) l.

Lemma started_S n l : started_l (EvS n :: l) = n :: started_l l. Proof. reflexivity. Qed.
Lemma started_F n l : started_l (EvF n :: l) = started_l l. Proof. reflexivity. Qed.
Lemma finl_S n l : finl (EvS n :: l) = finl l. Proof. reflexivity. Qed.
Lemma finl_F n l : finl (EvF n :: l) = n :: finl l. Proof. reflexivity. Qed.

Definition phase_held (ph : phase) : list positive :=
  match ph with
  | PStart n => [n]
  | PDec _ _ (Some d) => [d]
  | PSub _ _ _ (Some d) => [d]
  | _ => []
  end.
Definition phase_run (ph : phase) : list positive := match ph with PRun n => [n] | _ => [] end.
Definition pend (d : positive) (ph : phase) : nat :=
  match ph with
  | PDec _ r _ => countp d r
  | PSub _ d' r _ => countp d (d' :: r)
  | _ => 0%nat
  end.

Section Exec.
  Variable x : xg.
  Variable wave : bool.
  Variable c0 : zmap.

  Definition St (s : st) (n : positive) : nat := countp n (started_l (s_log s)).
  Definition Fi (s : st) (n : positive) : nat := countp n (finl (s_log s)).
  Definition Hel (s : st) (n : positive) : nat := (tsum (fun ph => countp n (phase_held ph)) (s_tasks s) + countp n (s_buf s))%nat.
  Definition Ru (s : st) (n : positive) : nat := tsum (fun ph => countp n (phase_run ph)) (s_tasks s).
  Definition Pe (s : st) (d : positive) : nat := tsum (pend d) (s_tasks s).
  (* dependents-list occurrences of d in nodes that were incomplete at the start and have not finished yet *)
  Definition Uw (s : st) (d : positive) (p : positive) : nat :=
    if incb c0 p && (Fi s p =? 0)%nat then countp d (x_deps x p) else 0%nat.
  Definition Un (s : st) (d : positive) : nat := tsum (Uw s d) (x_nodes x).
  Definition rem (s : st) (d : positive) : nat := (Un s d + Pe s d)%nat.

  Definition rest_ok (r : list positive) : Prop :=
    forall y, In y r -> In y (x_nodes x) /\ (x_bip x = false -> incb c0 y = true).
  Definition phase_ok (ph : phase) : Prop :=
    match ph with
    | PDec _ r _ => rest_ok r
    | PSub _ d r _ => In d (x_nodes x) /\ incb c0 d = true /\ rest_ok r
    | _ => True
    end.

  (* newest event first: when d starts, every predecessor that was incomplete at the beginning has finished *)
  Fixpoint log_ok (l : list ev) : Prop :=
    match l with
    | [] => True
    | EvS d :: r => (forall p, In p (x_nodes x) -> incb c0 p = true -> In d (x_deps x p) -> In p (finl r)) /\ log_ok r
    | EvF _ :: r => log_ok r
    end.

  Record Inv (s : st) : Prop := mkInv {
    i_once : forall n, (Hel s n + St s n <= 1)%nat;
    i_held : forall n, (1 <= Hel s n + St s n)%nat -> In n (x_nodes x) /\ incb c0 n = true /\ rem s n = 0%nat;
    i_cnt : forall d, In d (x_nodes x) -> incb c0 d = true -> Fi s d = 0%nat ->
                      getz (s_cnt s) d = Z.of_nat (rem s d) /\ Z.of_nat (rem s d) < K64;
    i_ready : forall d, In d (x_nodes x) -> incb c0 d = true -> Fi s d = 0%nat -> rem s d = 0%nat -> (1 <= Hel s d + St s d)%nat;
    i_fin : forall d, (1 <= Fi s d)%nat -> getz (s_cnt s) d = K64;
    i_compl : forall d, In d (x_nodes x) -> incb c0 d = false -> getz (s_cnt s) d = K64;
    i_run : forall n, St s n = (Ru s n + Fi s n)%nat;
    i_ph : Forall phase_ok (s_tasks s);
    i_log : log_ok (s_log s) }.

  (* hypotheses on the initial counters = preparedb, in Prop form *)
  Definition cnt0 (d : positive) : nat := tsum (fun p => if incb c0 p then countp d (x_deps x p) else 0%nat) (x_nodes x).
  Record Prepared : Prop := mkPrep {
    p_nodup : NoDup (x_nodes x);
    p_closed : forall p d, In p (x_nodes x) -> In d (x_deps x p) -> In d (x_nodes x);
    p_cnt : forall d, In d (x_nodes x) -> incb c0 d = true -> getz c0 d = Z.of_nat (cnt0 d) /\ Z.of_nat (cnt0 d) < K64;
    p_compl : forall d, In d (x_nodes x) -> incb c0 d = false -> getz c0 d = K64;
    p_fwd : x_bip x = false -> forall p d, In p (x_nodes x) -> incb c0 p = true -> In d (x_deps x p) -> incb c0 d = true }.

  Lemma preparedb_Prepared : preparedb x c0 = true -> Prepared.
  Proof.
    unfold preparedb, wfxb. intros H.
    apply andb_true_iff in H. destruct H as [H Hf]. apply andb_true_iff in H. destruct H as [Hw Hc].
    apply andb_true_iff in Hw. destruct Hw as [Hnd Hcl].
    rewrite forallb_forall in Hcl, Hc.
    constructor.
    - apply nodupb_NoDup. exact Hnd.
    - intros p d Hp Hd. specialize (Hcl p Hp). rewrite forallb_forall in Hcl. apply memp_In. apply Hcl. exact Hd.
    - intros d Hd Hi. specialize (Hc d Hd). apply andb_true_iff in Hc. destruct Hc as [Hr Hv].
      apply andb_true_iff in Hr. destruct Hr as [_ Hle]. apply Z.leb_le in Hle.
      unfold incb in Hi. apply negb_true_iff in Hi. rewrite Hi in Hv. simpl in Hv. apply Z.eqb_eq in Hv.
      apply Z.eqb_neq in Hi. unfold cnt0, inc_preds, tsum in *. split; [exact Hv | lia].
    - intros d Hd Hi. unfold incb in Hi. apply negb_false_iff in Hi. apply Z.eqb_eq in Hi. exact Hi.
    - intros Hb p d Hp Hi Hd. rewrite Hb in Hf. simpl in Hf. rewrite forallb_forall in Hf. specialize (Hf p Hp).
      rewrite Hi in Hf. simpl in Hf. rewrite forallb_forall in Hf. apply Hf. exact Hd.
  Qed.

  Hypothesis HP : Prepared.

  (* ---------------------------------------------------------------------------------------------- initial state *)

  Lemma started_init : started_l [] = []. Proof. reflexivity. Qed.

  Lemma tsum_map_start (f : phase -> nat) (g : positive -> nat) l :
    (forall n, f (PStart n) = g n) -> tsum f (map PStart l) = tsum g l.
  Proof. intros H. unfold tsum. rewrite map_map. f_equal. apply map_ext. exact H. Qed.

  Lemma tsum_count_self n l : tsum (fun m => countp n [m]) l = countp n l.
  Proof.
    induction l as [|a l IH]; [reflexivity|]. rewrite tsum_cons, IH. cbv beta. rewrite !countp_cons, countp_nil. lia.
  Qed.

  Lemma Hd_init n : Hel (init_st x c0) n = countp n (filter (fun n => getz c0 n =? 0) (x_nodes x)).
  Proof.
    unfold Hel, init_st. simpl. rewrite (tsum_map_start _ (fun m => countp n [m])) by reflexivity.
    rewrite tsum_count_self, countp_nil. lia.
  Qed.

  Lemma countp_filter_le n f l : (countp n (filter f l) <= countp n l)%nat.
  Proof.
    induction l as [|a l IH]; [simpl; lia|]. cbn [filter]. destruct (f a); rewrite ?countp_cons; lia.
  Qed.

  Lemma inv_init : Inv (init_st x c0).
  Proof.
    assert (HR : forall n, Ru (init_st x c0) n = 0%nat).
    { intros n. unfold Ru, init_st. simpl. apply tsum_zero. intros a Ha. apply in_map_iff in Ha. destruct Ha as [m [<- _]]. reflexivity. }
    assert (HPe : forall n, Pe (init_st x c0) n = 0%nat).
    { intros n. unfold Pe, init_st. simpl. apply tsum_zero. intros a Ha. apply in_map_iff in Ha. destruct Ha as [m [<- _]]. reflexivity. }
    assert (HU : forall d, Un (init_st x c0) d = cnt0 d).
    { intros d. unfold Un, cnt0, tsum. f_equal. apply map_ext. intros p. unfold Uw, Fi. simpl. rewrite andb_true_r. reflexivity. }
    assert (HS : forall n, St (init_st x c0) n = 0%nat) by reflexivity.
    assert (HF : forall n, Fi (init_st x c0) n = 0%nat) by reflexivity.
    constructor.
    - intros n. rewrite Hd_init, HS. pose proof (countp_filter_le n (fun n => getz c0 n =? 0) (x_nodes x)).
      pose proof (proj1 (countp_NoDup _) (p_nodup HP) n). lia.
    - intros n Hn. rewrite Hd_init, HS in Hn. assert (Hin : In n (filter (fun n => getz c0 n =? 0) (x_nodes x))) by (apply countp_In; lia).
      apply filter_In in Hin. destruct Hin as [Hin Hz]. apply Z.eqb_eq in Hz.
      assert (Hi : incb c0 n = true). { unfold incb. rewrite Hz. reflexivity. }
      split; [exact Hin|]. split; [exact Hi|]. unfold rem. rewrite HU, HPe. destruct (p_cnt HP n Hin Hi) as [E _]. lia.
    - intros d Hd Hi _. unfold rem. rewrite HU, HPe, Nat.add_0_r. simpl. apply (p_cnt HP); assumption.
    - intros d Hd Hi _ Hr. unfold rem in Hr. rewrite HU, HPe in Hr. rewrite Hd_init, HS.
      destruct (p_cnt HP d Hd Hi) as [E _].
      assert (Hin : In d (filter (fun n => getz c0 n =? 0) (x_nodes x))).
      { apply filter_In. split; [exact Hd|]. apply Z.eqb_eq. lia. }
      apply countp_In in Hin. lia.
    - intros d Hd. rewrite HF in Hd. lia.
    - intros d Hd Hi. simpl. apply (p_compl HP); assumption.
    - intros n. rewrite HS, HR, HF. reflexivity.
    - unfold init_st. simpl. apply Forall_forall. intros a Ha. apply in_map_iff in Ha. destruct Ha as [m [<- _]]. exact I.
    - exact I.
  Qed.


  (* ---------------------------------------------------------------------------------------------- the five kinds of transitions *)

  Lemma Un_ext s s' d : (forall p, Fi s' p = Fi s p) -> Un s' d = Un s d.
  Proof. intros H. unfold Un, tsum. f_equal. apply map_ext. intros p. unfold Uw. rewrite H. reflexivity. Qed.

  Lemma one_cases (m n : positive) : (m = n /\ countp m [n] = 1%nat) \/ (m <> n /\ countp m [n] = 0%nat).
  Proof. rewrite countp_cons, countp_nil. destruct (Pos.eq_dec n m); [left | right]; split; try lia; congruence. Qed.

  (* nothing observable changes *)
  Lemma pres_silent s s' :
    Inv s ->
    (forall m, Hel s' m = Hel s m) -> s_log s' = s_log s -> (forall m, Ru s' m = Ru s m) -> (forall m, Pe s' m = Pe s m) ->
    s_cnt s' = s_cnt s -> Forall phase_ok (s_tasks s') -> Inv s'.
  Proof.
    intros HI EH EL ER EP EC HF.
    assert (ES : forall m, St s' m = St s m) by (intros; unfold St; rewrite EL; reflexivity).
    assert (EF : forall m, Fi s' m = Fi s m) by (intros; unfold Fi; rewrite EL; reflexivity).
    assert (EU : forall m, Un s' m = Un s m) by (intros; apply Un_ext; exact EF).
    assert (ERm : forall m, rem s' m = rem s m) by (intros; unfold rem; rewrite EU, EP; reflexivity).
    destruct HI. constructor; intros; rewrite ?EH, ?ES, ?EF, ?ERm, ?ER, ?EC in *; auto.
    rewrite EL. assumption.
  Qed.

  (* PStart n -> PRun n *)
  Lemma pres_start s s' n :
    Inv s ->
    (forall m, (Hel s' m + countp m [n] = Hel s m)%nat) -> s_log s' = EvS n :: s_log s ->
    (forall m, Ru s' m = (Ru s m + countp m [n])%nat) -> (forall m, Pe s' m = Pe s m) ->
    s_cnt s' = s_cnt s -> Forall phase_ok (s_tasks s') -> Inv s'.
  Proof.
    intros HI EH EL ER EP EC HF.
    assert (ES : forall m, St s' m = (St s m + countp m [n])%nat).
    { intros. unfold St. rewrite EL, started_S. rewrite countp_cons, (countp_cons m n), countp_nil. lia. }
    assert (EF : forall m, Fi s' m = Fi s m) by (intros; unfold Fi; rewrite EL; reflexivity).
    assert (EU : forall m, Un s' m = Un s m) by (intros; apply Un_ext; exact EF).
    assert (ERm : forall m, rem s' m = rem s m) by (intros; unfold rem; rewrite EU, EP; reflexivity).
    assert (EHS : forall m, (Hel s' m + St s' m = Hel s m + St s m)%nat) by (intros m; specialize (EH m); rewrite ES; lia).
    destruct HI as [I1 I2 I3 I4 I5 I6 I7 I8 I9]. constructor.
    - intros m. rewrite EHS. apply I1.
    - intros m Hm. rewrite EHS in Hm. rewrite ERm. apply I2. exact Hm.
    - intros d Hd Hi Hf. rewrite EF in Hf. rewrite ERm, EC. apply I3; assumption.
    - intros d Hd Hi Hf Hr. rewrite EF in Hf. rewrite ERm in Hr. rewrite EHS. apply I4; assumption.
    - intros d Hd. rewrite EF in Hd. rewrite EC. apply I5. exact Hd.
    - intros d Hd Hi. rewrite EC. apply I6; assumption.
    - intros m. rewrite ES, ER, EF, I7. lia.
    - exact HF.
    - rewrite EL. cbn [log_ok]. split; [|exact I9].
      intros p Hp Hi Hd.
      assert (Hn : (1 <= Hel s n + St s n)%nat).
      { specialize (EH n). destruct (one_cases n n) as [[_ E]|[E _]]; [lia | congruence]. }
      destruct (I2 n Hn) as [_ [_ Hr]]. unfold rem in Hr.
      assert (HU : Uw s n p = 0%nat) by (apply (tsum_zero_inv (Uw s n) (x_nodes x)); [unfold Un in Hr; lia | exact Hp]).
      unfold Uw in HU. rewrite Hi in HU. simpl in HU. apply countp_In in Hd.
      destruct (Fi s p =? 0)%nat eqn:E; [lia|]. apply Nat.eqb_neq in E. apply countp_In. unfold Fi in E. lia.
  Qed.

  (* PRun n -> PDec n (dependents) None: EvF n, cnt[n] := kCompleted *)
  Lemma pres_finish s s' n :
    Inv s ->
    (forall m, Hel s' m = Hel s m) -> s_log s' = EvF n :: s_log s ->
    (forall m, (Ru s' m + countp m [n] = Ru s m)%nat) -> (forall m, Pe s' m = (Pe s m + countp m (x_deps x n))%nat) ->
    s_cnt s' = PM.add n K64 (s_cnt s) ->
    (rest_ok (x_deps x n) -> Forall phase_ok (s_tasks s')) -> Inv s'.
  Proof.
    intros HI EH EL ER EP EC HF.
    assert (ES : forall m, St s' m = St s m) by (intros; unfold St; rewrite EL; reflexivity).
    assert (EF : forall m, Fi s' m = (Fi s m + countp m [n])%nat).
    { intros. unfold Fi. rewrite EL, finl_F. rewrite countp_cons, (countp_cons m n), countp_nil. lia. }
    destruct HI as [I1 I2 I3 I4 I5 I6 I7 I8 I9].
    assert (Hn : Ru s n = 1%nat /\ St s n = 1%nat /\ Hel s n = 0%nat /\ Fi s n = 0%nat).
    { specialize (ER n). specialize (I1 n). specialize (I7 n). destruct (one_cases n n) as [[_ E]|[E _]]; [lia | congruence]. }
    destruct Hn as [Hn1 [Hn2 [Hn3 Hn4]]].
    destruct (I2 n ltac:(lia)) as [Hnn [Hni Hnr]].
    assert (EU : forall d, Un s d = (Un s' d + countp d (x_deps x n))%nat).
    { intros d. unfold Un.
      pose proof (tsum_change_one (Uw s d) (Uw s' d) (x_nodes x) n (p_nodup HP) Hnn) as T.
      assert (Hoth : forall p, p <> n -> Uw s d p = Uw s' d p).
      { intros p Hp. unfold Uw. rewrite EF. destruct (one_cases p n) as [[E _]|[_ E]]; [congruence|]. rewrite E, Nat.add_0_r. reflexivity. }
      specialize (T Hoth).
      assert (A : Uw s d n = countp d (x_deps x n)). { unfold Uw. rewrite Hni, Hn4. reflexivity. }
      assert (B : Uw s' d n = 0%nat).
      { unfold Uw. rewrite EF, Hn4. destruct (one_cases n n) as [[_ E]|[E _]]; [|congruence]. rewrite E. simpl. rewrite andb_false_r. reflexivity. }
      lia. }
    assert (ERm : forall m, rem s' m = rem s m) by (intros m; unfold rem; rewrite (EU m), EP; lia).
    assert (Hrest : rest_ok (x_deps x n)).
    { intros y Hy. split; [eapply (p_closed HP); eauto|]. intros Hb. eapply (p_fwd HP); eauto. }
    constructor.
    - intros m. rewrite EH, ES. apply I1.
    - intros m Hm. rewrite EH, ES in Hm. rewrite ERm. apply I2. exact Hm.
    - intros d Hd Hi Hf. rewrite EF in Hf. destruct (one_cases d n) as [[E E1]|[E E1]]; [lia|].
      rewrite ERm, EC, getz_add_other by exact E. apply I3; [assumption | assumption | lia].
    - intros d Hd Hi Hf Hr. rewrite EF in Hf. rewrite ERm in Hr. rewrite EH, ES. apply I4; [assumption | assumption | lia | assumption].
    - intros d Hd. rewrite EF in Hd. rewrite EC. destruct (one_cases d n) as [[E E1]|[E E1]].
      + subst. apply getz_add_same.
      + rewrite getz_add_other by exact E. apply I5. lia.
    - intros d Hd Hi. rewrite EC. destruct (Pos.eq_dec d n) as [->|E]; [congruence|]. rewrite getz_add_other by exact E. apply I6; assumption.
    - intros m. rewrite ES, EF, I7. specialize (ER m). lia.
    - apply HF. exact Hrest.
    - rewrite EL. exact I9.
  Qed.

  (* BiPropNode: the load saw kCompleted, the decrement of d is skipped *)
  Lemma pres_skip s s' d :
    Inv s ->
    (forall m, Hel s' m = Hel s m) -> s_log s' = s_log s -> (forall m, Ru s' m = Ru s m) ->
    (forall m, (Pe s' m + countp m [d] = Pe s m)%nat) -> s_cnt s' = s_cnt s ->
    In d (x_nodes x) -> getz (s_cnt s) d = K64 -> Forall phase_ok (s_tasks s') -> Inv s'.
  Proof.
    intros HI EH EL ER EP EC Hdn Hk HF.
    assert (ES : forall m, St s' m = St s m) by (intros; unfold St; rewrite EL; reflexivity).
    assert (EF : forall m, Fi s' m = Fi s m) by (intros; unfold Fi; rewrite EL; reflexivity).
    assert (EU : forall m, Un s' m = Un s m) by (intros; apply Un_ext; exact EF).
    destruct HI as [I1 I2 I3 I4 I5 I6 I7 I8 I9].
    assert (Hpd : (1 <= Pe s d)%nat). { specialize (EP d). destruct (one_cases d d) as [[_ E]|[E _]]; [lia | congruence]. }
    assert (Hni : incb c0 d = false).
    { destruct (incb c0 d) eqn:Hi; [|reflexivity]. exfalso.
      destruct (Nat.eq_dec (Fi s d) 0) as [Hf|Hf].
      - destruct (I3 d Hdn Hi Hf) as [A B]. lia.
      - assert (Hs : (1 <= Hel s d + St s d)%nat) by (rewrite I7; lia). destruct (I2 d Hs) as [_ [_ Hr]]. unfold rem in Hr. lia. }
    assert (ERm : forall m, incb c0 m = true -> rem s' m = rem s m).
    { intros m Hm. unfold rem. rewrite EU. specialize (EP m). destruct (one_cases m d) as [[E _]|[_ E]]; [congruence | lia]. }
    constructor.
    - intros m. rewrite EH, ES. apply I1.
    - intros m Hm. rewrite EH, ES in Hm. destruct (I2 m Hm) as [A [B C]]. rewrite ERm by exact B. auto.
    - intros m Hm Hi Hf. rewrite EF in Hf. rewrite ERm, EC by exact Hi. apply I3; assumption.
    - intros m Hm Hi Hf Hr. rewrite EF in Hf. rewrite ERm in Hr by exact Hi. rewrite EH, ES. apply I4; assumption.
    - intros m Hm. rewrite EF in Hm. rewrite EC. apply I5. exact Hm.
    - intros m Hm Hi. rewrite EC. apply I6; assumption.
    - intros m. rewrite ES, ER, EF. apply I7.
    - exact HF.
    - rewrite EL. exact I9.
  Qed.

  (* fetch_sub(1) on d *)
  Lemma pres_sub s s' d :
    Inv s ->
    s_log s' = s_log s -> (forall m, Ru s' m = Ru s m) ->
    (forall m, (Pe s' m + countp m [d] = Pe s m)%nat) ->
    s_cnt s' = PM.add d (wrap64 (getz (s_cnt s) d - 1)) (s_cnt s) ->
    (forall m, Hel s' m = (Hel s m + (if Z.eqb (getz (s_cnt s) d) 1 then countp m [d] else 0))%nat) ->
    In d (x_nodes x) -> incb c0 d = true -> Forall phase_ok (s_tasks s') -> Inv s'.
  Proof.
    intros HI EL ER EP EC EH Hdn Hdi HF.
    assert (ES : forall m, St s' m = St s m) by (intros; unfold St; rewrite EL; reflexivity).
    assert (EF : forall m, Fi s' m = Fi s m) by (intros; unfold Fi; rewrite EL; reflexivity).
    assert (EU : forall m, Un s' m = Un s m) by (intros; apply Un_ext; exact EF).
    destruct HI as [I1 I2 I3 I4 I5 I6 I7 I8 I9].
    assert (Hpd : (1 <= Pe s d)%nat). { specialize (EP d). destruct (one_cases d d) as [[_ E]|[E _]]; [lia | congruence]. }
    assert (Hf0 : Fi s d = 0%nat).
    { destruct (Nat.eq_dec (Fi s d) 0) as [Hf|Hf]; [exact Hf|]. exfalso.
      assert (Hs : (1 <= Hel s d + St s d)%nat) by (rewrite I7; lia). destruct (I2 d Hs) as [_ [_ Hr]]. unfold rem in Hr. lia. }
    destruct (I3 d Hdn Hdi Hf0) as [Hc Hlt].
    assert (Hr1 : (1 <= rem s d)%nat) by (unfold rem; lia).
    assert (Hnh : (Hel s d + St s d = 0)%nat).
    { destruct (Nat.eq_dec (Hel s d + St s d) 0) as [E|E]; [exact E|]. destruct (I2 d ltac:(lia)) as [_ [_ Hr]]. lia. }
    assert (ERd : (rem s' d + 1 = rem s d)%nat).
    { unfold rem in *. rewrite EU. specialize (EP d). destruct (one_cases d d) as [[_ E]|[E _]]; [lia | congruence]. }
    assert (ERm : forall m, m <> d -> rem s' m = rem s m).
    { intros m Hm. unfold rem. rewrite EU. specialize (EP m). destruct (one_cases m d) as [[E _]|[_ E]]; [congruence | lia]. }
    assert (Hcd : getz (s_cnt s') d = Z.of_nat (rem s' d)).
    { rewrite EC, getz_add_same, Hc. rewrite wrap64_small; unfold K64 in *; lia. }
    assert (Hco : forall m, m <> d -> getz (s_cnt s') m = getz (s_cnt s) m) by (intros m Hm; rewrite EC; apply getz_add_other; exact Hm).
    constructor.
    - intros m. rewrite EH, ES. specialize (I1 m). destruct (getz (s_cnt s) d =? 1); [|lia].
      destruct (one_cases m d) as [[E E1]|[E E1]]; rewrite E1; [subst; lia | lia].
    - intros m Hm. rewrite EH, ES in Hm. destruct (Pos.eq_dec m d) as [->|E].
      + split; [exact Hdn|]. split; [exact Hdi|]. destruct (getz (s_cnt s) d =? 1) eqn:E1; [apply Z.eqb_eq in E1; lia | lia].
      + rewrite ERm by exact E. apply I2. destruct (getz (s_cnt s) d =? 1); [|lia].
        destruct (one_cases m d) as [[E2 _]|[_ E2]]; [congruence | lia].
    - intros m Hm Hi Hf. rewrite EF in Hf. destruct (Pos.eq_dec m d) as [->|E].
      + split; [exact Hcd | lia].
      + rewrite ERm, Hco by exact E. apply I3; assumption.
    - intros m Hm Hi Hf Hr. rewrite EF in Hf. rewrite EH, ES. destruct (Pos.eq_dec m d) as [->|E].
      + assert (E1 : getz (s_cnt s) d = 1) by lia. rewrite E1. simpl. destruct (one_cases d d) as [[_ E2]|[E2 _]]; [lia | congruence].
      + rewrite ERm in Hr by exact E. specialize (I4 m Hm Hi Hf Hr). lia.
    - intros m Hm. rewrite EF in Hm. assert (m <> d) by (intros ->; lia). rewrite Hco by assumption. apply I5. exact Hm.
    - intros m Hm Hi. assert (m <> d) by (intros ->; congruence). rewrite Hco by assumption. apply I6; assumption.
    - intros m. rewrite ES, ER, EF. apply I7.
    - exact HF.
    - rewrite EL. exact I9.
  Qed.


  (* ---------------------------------------------------------------------------------------------- every step preserves Inv *)

  Lemma tsum_nil {A} (f : A -> nat) : tsum f [] = 0%nat. Proof. reflexivity. Qed.

  Ltac upd Hk ph' :=
    pose proof (fun m => tsum_set_nth (fun ph => countp m (phase_held ph)) _ _ _ ph' Hk) as UH;
    pose proof (fun m => tsum_set_nth (fun ph => countp m (phase_run ph)) _ _ _ ph' Hk) as UR;
    pose proof (fun m => tsum_set_nth (pend m) _ _ _ ph' Hk) as UP;
    cbn [phase_held phase_run pend] in UH, UR, UP.

  Ltac obs UH UR UP :=
    let m := fresh "m" in
    intros m; unfold Hel, Ru, Pe; cbn [s_tasks s_buf]; specialize (UH m); specialize (UR m); specialize (UP m);
    rewrite ?tsum_app, ?tsum_cons, ?tsum_nil; cbn [phase_held phase_run pend];
    rewrite ?countp_app, ?countp_nil in *; try lia.

  Lemma phase_ok_nth s k ph : Inv s -> nth_error (s_tasks s) k = Some ph -> phase_ok ph.
  Proof. intros HI Hk. apply nth_error_In in Hk. pose proof (i_ph s HI) as F. rewrite Forall_forall in F. apply F. exact Hk. Qed.

  Lemma do_sub_inv s k ph n d rest il :
    Inv s -> nth_error (s_tasks s) k = Some ph ->
    (forall m, pend m ph = (countp m [d] + countp m rest)%nat) ->
    (forall m, countp m (phase_held ph) = countp m (phase_held (PDec n rest il))) ->
    (forall m, countp m (phase_run ph) = 0%nat) ->
    rest_ok rest -> In d (x_nodes x) -> incb c0 d = true -> Inv (do_sub wave s k n d rest il).
  Proof.
    intros HI Hk Hpe Hhe Hru Hrest Hdn Hdi.
    unfold do_sub. destruct (getz (s_cnt s) d =? 1) eqn:E1; [destruct wave; [|destruct il as [i|]] |].
    - upd Hk (PDec n rest il).
      apply (pres_sub s _ d HI); cbn [s_log s_cnt s_tasks s_buf]; try reflexivity; try assumption.
      + obs UH UR UP. rewrite Hru in UR. lia.
      + obs UH UR UP. rewrite Hpe in UP. lia.
      + rewrite E1. obs UH UR UP. rewrite Hhe in UH. cbn [phase_held] in UH. lia.
      + apply Forall_set_nth; [apply (i_ph s HI) | exact Hrest].
    - upd Hk (PDec n rest (Some i)).
      apply (pres_sub s _ d HI); cbn [s_log s_cnt s_tasks s_buf]; try reflexivity; try assumption.
      + obs UH UR UP. rewrite Hru in UR. lia.
      + obs UH UR UP. rewrite Hpe in UP. lia.
      + rewrite E1. obs UH UR UP. rewrite Hhe in UH. cbn [phase_held] in UH. lia.
      + apply Forall_app. split; [apply Forall_set_nth; [apply (i_ph s HI) | exact Hrest] | constructor; [exact I | constructor]].
    - upd Hk (PDec n rest (Some d)).
      apply (pres_sub s _ d HI); cbn [s_log s_cnt s_tasks s_buf]; try reflexivity; try assumption.
      + obs UH UR UP. rewrite Hru in UR. lia.
      + obs UH UR UP. rewrite Hpe in UP. lia.
      + rewrite E1. obs UH UR UP. rewrite Hhe in UH. cbn [phase_held] in UH. rewrite ?countp_nil in UH. lia.
      + apply Forall_set_nth; [apply (i_ph s HI) | exact Hrest].
    - upd Hk (PDec n rest il).
      apply (pres_sub s _ d HI); cbn [s_log s_cnt s_tasks s_buf]; try reflexivity; try assumption.
      + obs UH UR UP. rewrite Hru in UR. lia.
      + obs UH UR UP. rewrite Hpe in UP. lia.
      + rewrite E1. obs UH UR UP. rewrite Hhe in UH. cbn [phase_held] in UH. lia.
      + apply Forall_set_nth; [apply (i_ph s HI) | exact Hrest].
  Qed.

  Lemma all_done_tsum (f : phase -> nat) l : f PDone = 0%nat -> forallb is_done l = true -> tsum f l = 0%nat.
  Proof.
    intros Hf H. apply tsum_zero. intros a Ha. rewrite forallb_forall in H. specialize (H a Ha). destruct a; try discriminate. exact Hf.
  Qed.

  Lemma step_inv s t s' : Inv s -> step x wave s t = Some s' -> Inv s'.
  Proof.
    intros HI Hs. destruct t as [|k]; cbn [step] in Hs.
    - (* the barrier between two waves *)
      unfold step_main in Hs. destruct (wave && all_done s); [|discriminate].
      assert (Hs' : s' = mkSt (s_cnt s) (s_tasks s ++ map PStart (s_buf s)) [] (s_log s)).
      { destruct (s_buf s); [discriminate | injection Hs as <-; reflexivity]. }
      subst s'. clear Hs.
      apply (pres_silent s); cbn [s_log s_cnt s_tasks s_buf]; try reflexivity; try assumption.
      + intros m. unfold Hel. cbn [s_tasks s_buf]. rewrite tsum_app.
        rewrite (tsum_map_start _ (fun q => countp m [q])) by reflexivity. rewrite tsum_count_self, countp_nil. lia.
      + intros m. unfold Ru. cbn [s_tasks]. rewrite tsum_app.
        rewrite (tsum_map_start _ (fun q => 0%nat)) by reflexivity. rewrite (tsum_zero (fun _ => 0%nat)) by reflexivity. lia.
      + intros m. unfold Pe. cbn [s_tasks]. rewrite tsum_app.
        rewrite (tsum_map_start _ (fun q => 0%nat)) by reflexivity. rewrite (tsum_zero (fun _ => 0%nat)) by reflexivity. lia.
      + apply Forall_app. split; [apply (i_ph s HI)|]. apply Forall_forall. intros a Ha. apply in_map_iff in Ha. destruct Ha as [q [<- _]]. exact I.
    - unfold step_task in Hs. destruct (nth_error (s_tasks s) k) as [ph|] eqn:Hk; [|discriminate].
      pose proof (phase_ok_nth s k ph HI Hk) as Hok.
      destruct ph as [n|n|n rest il|n d rest il|].
      + (* PStart n *)
        injection Hs as <-. upd Hk (PRun n).
        apply (pres_start s _ n HI); cbn [s_log s_cnt s_tasks s_buf]; try reflexivity.
        * obs UH UR UP.
        * obs UH UR UP.
        * obs UH UR UP.
        * apply Forall_set_nth; [apply (i_ph s HI) | exact I].
      + (* PRun n *)
        injection Hs as <-. upd Hk (PDec n (x_deps x n) None).
        apply (pres_finish s _ n HI); cbn [s_log s_cnt s_tasks s_buf]; try reflexivity.
        * obs UH UR UP.
        * obs UH UR UP.
        * obs UH UR UP.
        * intros Hr. apply Forall_set_nth; [apply (i_ph s HI) | exact Hr].
      + destruct rest as [|d rest].
        * (* dependents exhausted *)
          injection Hs as <-. cbn [phase_ok] in Hok.
          destruct il as [i|].
          -- upd Hk (PStart i). apply (pres_silent s); cbn [s_log s_cnt s_tasks s_buf]; try reflexivity; try assumption.
             ++ obs UH UR UP.
             ++ obs UH UR UP.
             ++ obs UH UR UP.
             ++ apply Forall_set_nth; [apply (i_ph s HI) | exact I].
          -- upd Hk PDone. apply (pres_silent s); cbn [s_log s_cnt s_tasks s_buf]; try reflexivity; try assumption.
             ++ obs UH UR UP.
             ++ obs UH UR UP.
             ++ obs UH UR UP.
             ++ apply Forall_set_nth; [apply (i_ph s HI) | exact I].
        * cbn [phase_ok] in Hok.
          assert (Hd1 : In d (x_nodes x) /\ (x_bip x = false -> incb c0 d = true)) by (apply Hok; left; reflexivity).
          assert (Hrest : rest_ok rest) by (intros y Hy; apply Hok; right; exact Hy).
          destruct (x_bip x) eqn:Eb.
          -- destruct (getz (s_cnt s) d =? K64) eqn:EK; injection Hs as <-.
             ++ (* load saw kCompleted: skip *)
                apply Z.eqb_eq in EK. upd Hk (PDec n rest il).
                apply (pres_skip s _ d HI); cbn [s_log s_cnt s_tasks s_buf]; try reflexivity; try tauto.
                ** obs UH UR UP.
                ** obs UH UR UP.
                ** obs UH UR UP. change (d :: rest) with ([d] ++ rest) in UP. rewrite countp_app in UP. lia.
                ** apply Forall_set_nth; [apply (i_ph s HI) | exact Hrest].
             ++ (* go on to the fetch_sub *)
                apply Z.eqb_neq in EK. upd Hk (PSub n d rest il).
                apply (pres_silent s); cbn [s_log s_cnt s_tasks s_buf]; try reflexivity; try assumption.
                ** obs UH UR UP.
                ** obs UH UR UP.
                ** obs UH UR UP.
                ** apply Forall_set_nth; [apply (i_ph s HI)|]. cbn [phase_ok]. split; [tauto|]. split; [|exact Hrest].
                   destruct (incb c0 d) eqn:Hi; [reflexivity|]. exfalso. apply EK. apply (i_compl s HI); tauto.
          -- injection Hs as <-.
             apply (do_sub_inv s k (PDec n (d :: rest) il)); try assumption; try tauto.
             intros m. cbn [pend]. change (d :: rest) with ([d] ++ rest). apply countp_app.
      + (* PSub *)
        injection Hs as <-. cbn [phase_ok] in Hok. destruct Hok as [Hdn [Hdi Hrest]].
        apply (do_sub_inv s k (PSub n d rest il)); try assumption.
        * intros m. cbn [pend]. change (d :: rest) with ([d] ++ rest). apply countp_app.
        * intros m. reflexivity.
        * intros m. reflexivity.
      + discriminate.
  Qed.

  Lemma run_sched_inv sched : forall s, Inv s -> Inv (run_sched x wave s sched).
  Proof.
    induction sched as [|t r IH]; intros s HI; [exact HI|]. cbn [run_sched].
    destruct (step x wave s t) as [s'|] eqn:E; [apply IH; eapply step_inv; eauto | apply IH; exact HI].
  Qed.

  Lemma run_pol_is_sched pick fuel : forall i s, exists sched, run_pol x wave pick fuel i s = run_sched x wave s sched.
  Proof.
    induction fuel as [|f IH]; intros i s; [exists []; reflexivity|]. cbn [run_pol].
    destruct (step x wave s (pick s i)) as [s'|] eqn:E.
    - destruct (IH (S i) s') as [sched Hs]. exists (pick s i :: sched). cbn [run_sched]. rewrite E. exact Hs.
    - exists []. reflexivity.
  Qed.

End Exec.

(* ------------------------------------------------------------------------------------------------ consequences *)

Definition acyclic (x : xg) : Prop :=
  exists rk : positive -> nat, forall p d, In p (x_nodes x) -> In d (x_deps x p) -> (rk p < rk d)%nat.

(* readable form of log_ok: the log is newest-first, so "l1" is what happened BEFORE the start of d *)
Definition respects_dependencies (x : xg) (c : zmap) (log : list ev) : Prop :=
  forall l2 l1 d p, log = l2 ++ EvS d :: l1 -> In p (x_nodes x) -> incb c p = true -> In d (x_deps x p) -> In (EvF p) l1.

Lemma finl_In p l : In p (finl l) <-> In (EvF p) l.
Proof.
  induction l as [|e l IH]; [simpl; tauto|]. destruct e as [n|n].
  - rewrite finl_S, IH. simpl. split; [tauto|]. intros [H|H]; [discriminate | exact H].
  - rewrite finl_F. simpl. rewrite IH. split; intros [H|H]; auto; left; congruence.
Qed.

Lemma log_ok_respects x c log : log_ok x c log -> respects_dependencies x c log.
Proof.
  intros H l2. revert log H. induction l2 as [|e l2 IH]; intros log H l1 d p E Hp Hi Hd; subst log.
  - simpl in H. destruct H as [H _]. apply finl_In. apply H; assumption.
  - simpl in H. destruct e as [n|n]; [destruct H as [_ H]|]; eapply IH; eauto.
Qed.

Section Final.
  Variable x : xg.
  Variable wave : bool.
  Variable c : zmap.
  Hypothesis HP : Prepared x c.

  Lemma reach_inv sched : Inv x c (run_sched x wave (init_st x c) sched).
  Proof. apply run_sched_inv; [exact HP | apply inv_init; exact HP]. Qed.

  Lemma exec_safe sched :
    let s := run_sched x wave (init_st x c) sched in
    (forall n, (countp n (started_l (s_log s)) <= 1)%nat /\ (countp n (finl (s_log s)) <= 1)%nat) /\
    (forall n, In n (started_l (s_log s)) -> In n (x_nodes x) /\ incb c n = true) /\
    respects_dependencies x c (s_log s) /\
    (forall n, In n (finl (s_log s)) -> getz (s_cnt s) n = K64 /\ In n (started_l (s_log s))) /\
    (forall n, In n (x_nodes x) -> incb c n = false -> getz (s_cnt s) n = K64 /\ ~ In n (started_l (s_log s))).
  Proof.
    intros s. pose proof (reach_inv sched) as HI. fold s in HI.
    assert (Hst : forall n, (St s n <= 1)%nat) by (intros n; pose proof (i_once x c s HI n); lia).
    split; [|split; [|split; [|split]]].
    - intros n. split; [apply Hst|]. pose proof (i_run x c s HI n). specialize (Hst n). unfold St, Fi in *. lia.
    - intros n Hn. apply countp_In in Hn. destruct (i_held x c s HI n) as [A [B _]]; [unfold St; lia | auto].
    - apply log_ok_respects. apply (i_log x c s HI).
    - intros n Hn. apply countp_In in Hn. split; [apply (i_fin x c s HI); exact Hn|].
      apply countp_In. pose proof (i_run x c s HI n). unfold St, Fi in *. lia.
    - intros n Hn Hi. split; [apply (i_compl x c s HI); assumption|]. intros Hs. apply countp_In in Hs.
      destruct (i_held x c s HI n) as [_ [B _]]; [unfold St; lia | congruence].
  Qed.

  Lemma exec_live sched :
    acyclic x ->
    let s := run_sched x wave (init_st x c) sched in
    quiescent s = true ->
    forall n, In n (x_nodes x) ->
      getz (s_cnt s) n = K64 /\
      (incb c n = true -> countp n (started_l (s_log s)) = 1%nat /\ countp n (finl (s_log s)) = 1%nat).
  Proof.
    intros [rk Hrk] s Hq. pose proof (reach_inv sched) as HI. fold s in HI.
    unfold quiescent in Hq. apply andb_true_iff in Hq. destruct Hq as [Hd Hb]. unfold all_done in Hd.
    assert (Hbuf : s_buf s = []) by (destruct (s_buf s); [reflexivity | discriminate]).
    assert (HH : forall n, Hel s n = 0%nat).
    { intros n. unfold Hel. rewrite Hbuf, countp_nil. rewrite (all_done_tsum _ _ eq_refl Hd). reflexivity. }
    assert (HR : forall n, Ru s n = 0%nat) by (intros n; unfold Ru; apply (all_done_tsum _ _ eq_refl Hd)).
    assert (HPe : forall n, Pe s n = 0%nat) by (intros n; unfold Pe; apply (all_done_tsum _ _ eq_refl Hd)).
    assert (Hfin : forall r n, (rk n < r)%nat -> In n (x_nodes x) -> incb c n = true -> Fi s n = 1%nat).
    { induction r as [|r IH]; intros n Hr Hn Hi; [lia|].
      pose proof (i_once x c s HI n) as H1. pose proof (i_run x c s HI n) as H7. rewrite HH, HR in *.
      destruct (Nat.eq_dec (Fi s n) 0) as [Hf|Hf]; [|unfold St, Fi in *; lia]. exfalso.
      assert (HU : Un x c s n = 0%nat).
      { unfold Un. apply tsum_zero. intros p Hp. unfold Uw. destruct (incb c p) eqn:Hip; [|reflexivity]. simpl.
        destruct (Fi s p =? 0)%nat eqn:Hfp; [|reflexivity]. apply Nat.eqb_eq in Hfp.
        destruct (Nat.eq_dec (countp n (x_deps x p)) 0) as [E|E]; [exact E|]. exfalso.
        assert (Hin : In n (x_deps x p)) by (apply countp_In; lia).
        specialize (Hrk p n Hp Hin). specialize (IH p ltac:(lia) Hp Hip). lia. }
      pose proof (i_ready x c s HI n Hn Hi Hf) as H4. unfold rem in H4. rewrite HU, HPe in H4. specialize (H4 eq_refl).
      rewrite HH in H4. unfold St, Fi in *. lia. }
    intros n Hn. destruct (incb c n) eqn:Hi.
    - assert (Hf : Fi s n = 1%nat) by (apply (Hfin (S (rk n))); auto).
      split; [apply (i_fin x c s HI); lia|]. intros _.
      pose proof (i_once x c s HI n) as H1. pose proof (i_run x c s HI n) as H7. rewrite HH, HR in *. unfold St, Fi in *. lia.
    - split; [apply (i_compl x c s HI); assumption | discriminate].
  Qed.

End Final.

(* ------------------------------------------------------------------------------------------------ progress: no deadlock *)

Lemma first_active_spec l k0 :
  match first_active l k0 with
  | Some k => exists ph, nth_error l (k - k0) = Some ph /\ is_done ph = false /\ (k0 <= k)%nat
  | None => forallb is_done l = true
  end.
Proof.
  revert k0. induction l as [|p l IH]; intros k0; [reflexivity|]. cbn [first_active forallb].
  destruct (is_done p) eqn:E.
  - specialize (IH (S k0)). destruct (first_active l (S k0)) as [k|]; [|exact IH].
    destruct IH as [ph [H1 [H2 H3]]]. exists ph. replace (k - k0)%nat with (S (k - S k0)) by lia. simpl. auto with arith.
  - exists p. rewrite Nat.sub_diag. simpl. auto.
Qed.

Lemma step_task_enabled x wave s k ph : nth_error (s_tasks s) k = Some ph -> is_done ph = false -> step_task x wave s k <> None.
Proof.
  intros Hk Hd. unfold step_task. rewrite Hk. destruct ph as [n|n|n [|d r] il|n d r il|]; try discriminate.
  destruct (x_bip x); [destruct (getz (s_cnt s) d =? K64)|]; discriminate.
Qed.

(* a state that is not quiescent can move (wave executors: a task or the barrier; concurrent executor: a task,
   its buffer is never used) *)
Lemma progress x wave s : quiescent s = false -> (wave = true \/ s_buf s = []) -> exists t, step x wave s t <> None.
Proof.
  intros Hq Hw. unfold quiescent, all_done in Hq.
  pose proof (first_active_spec (s_tasks s) 0) as F. destruct (first_active (s_tasks s) 0) as [k|].
  - destruct F as [ph [H1 [H2 _]]]. rewrite Nat.sub_0_r in H1. exists (S k). cbn [step]. eapply step_task_enabled; eauto.
  - rewrite F in Hq. simpl in Hq. destruct (s_buf s) as [|b bs] eqn:Eb; [discriminate|].
    destruct Hw as [->|Hw]; [|discriminate]. exists O. cbn [step]. unfold step_main, all_done. rewrite F, Eb. discriminate.
Qed.

(* ------------------------------------------------------------------------------------------------ setAllNodesIncomplete *)

Lemma getz_fold_add (f : positive -> Z) l : forall m k,
  getz (fold_left (fun m n => PM.add n (f n) m) l m) k = if memp k l then f k else getz m k.
Proof.
  induction l as [|a l IH]; intros m k; [reflexivity|]. cbn [fold_left]. rewrite IH.
  unfold memp. cbn [existsb]. fold (memp k l). destruct (memp k l); [rewrite orb_true_r; reflexivity|].
  rewrite orb_false_r. destruct (Pos.eqb k a) eqn:E.
  - apply Pos.eqb_eq in E. subst. apply getz_add_same.
  - apply Pos.eqb_neq in E. apply getz_add_other. exact E.
Qed.

Lemma setAll_prepared g : wfgb g = true -> preparedb (xg_of (set_all_incomplete g)) (g_cnt (set_all_incomplete g)) = true.
Proof.
  unfold wfgb. intros H. apply andb_true_iff in H. destruct H as [H Hlt]. apply andb_true_iff in H. destruct H as [Hwf Hnp].
  rewrite forallb_forall in Hlt, Hnp.
  set (g' := set_all_incomplete g).
  assert (Hx : xg_of g' = xg_of g) by reflexivity.
  assert (Hc : forall n, In n (g_nodes g) -> getz (g_cnt g') n = Z.of_nat (np_count g n)).
  { intros n Hn. unfold g', set_all_incomplete, with_cnt. cbn [g_cnt]. rewrite getz_fold_add.
    apply memp_In in Hn. rewrite Hn. specialize (Hnp n (proj1 (memp_In _ _) Hn)). apply Z.eqb_eq in Hnp. exact Hnp. }
  assert (Hi : forall n, In n (g_nodes g) -> incb (g_cnt g') n = true).
  { intros n Hn. unfold incb. rewrite (Hc n Hn). specialize (Hlt n Hn). apply Z.ltb_lt in Hlt. apply negb_true_iff. apply Z.eqb_neq. lia. }
  assert (Hip : forall d, inc_preds (xg_of g) (g_cnt g') d = np_count g d).
  { intros d. unfold inc_preds, np_count. f_equal. apply map_ext_in. intros p Hp. cbn [xg_of x_nodes] in Hp. rewrite (Hi p Hp). reflexivity. }
  unfold preparedb. rewrite Hx, Hwf. cbn [andb]. apply andb_true_iff. split.
  - apply forallb_forall. intros d Hd. cbn [xg_of x_nodes] in Hd. rewrite Hip, (Hc d Hd).
    specialize (Hlt d Hd). apply Z.ltb_lt in Hlt. rewrite Z.eqb_refl, orb_true_r.
    apply andb_true_iff. split; apply andb_true_iff || idtac; try split; try apply Z.leb_le; lia.
  - apply orb_true_iff. right. apply forallb_forall. intros p Hp. cbn [xg_of x_nodes] in Hp. rewrite (Hi p Hp). cbn [negb orb].
    apply forallb_forall. intros d Hd. apply Hi.
    apply andb_true_iff in Hwf. destruct Hwf as [_ Hcl]. rewrite forallb_forall in Hcl. specialize (Hcl p Hp).
    rewrite forallb_forall in Hcl. apply memp_In. apply Hcl. exact Hd.
Qed.

(* ------------------------------------------------------------------------------------------------ statements used by Props/Properties_C30.v
   (same bodies as the definitions there) *)

Definition build_ops (bip : bool) (ops : list op) : option graph :=
  fold_left (fun og o => match og with Some g => apply_op g o | None => None end) ops (Some (empty_graph bip)).

Definition safety_stmt (x : xg) (c : zmap) (s : st) : Prop :=
  (forall n, (countp n (started_l (s_log s)) <= 1)%nat /\ (countp n (finl (s_log s)) <= 1)%nat) /\
  (forall n, In n (started_l (s_log s)) -> In n (x_nodes x) /\ incb c n = true) /\
  respects_dependencies x c (s_log s) /\
  (forall n, In n (finl (s_log s)) -> getz (s_cnt s) n = K64 /\ In n (started_l (s_log s))) /\
  (forall n, In n (x_nodes x) -> incb c n = false -> getz (s_cnt s) n = K64 /\ ~ In n (started_l (s_log s))).

Definition final_stmt (x : xg) (c : zmap) (s : st) : Prop :=
  quiescent s = true ->
  forall n, In n (x_nodes x) ->
    getz (s_cnt s) n = K64 /\ (incb c n = true -> countp n (started_l (s_log s)) = 1%nat /\ countp n (finl (s_log s)) = 1%nat).

Lemma C30_holds_except_proof : forall x c wave sched,
  negb (preparedb x c) = false ->
  let s := run_sched x wave (init_st x c) sched in
  safety_stmt x c s /\ (acyclic x -> final_stmt x c s).
Proof.
  intros x c wave sched H. apply negb_false_iff in H. split.
  - apply exec_safe. apply preparedb_Prepared. exact H.
  - intros Ha Hq. apply exec_live; [apply preparedb_Prepared; exact H | exact Ha | exact Hq].
Qed.

Lemma C30_single_thread_proof : forall x c,
  negb (preparedb x c) = false ->
  let s := exec_seq x c in safety_stmt x c s /\ (acyclic x -> final_stmt x c s).
Proof.
  intros x c H. unfold exec_seq. destruct (run_pol_is_sched x true pick_seq (exec_fuel x) 0%nat (init_st x c)) as [sched E].
  rewrite E. apply C30_holds_except_proof. exact H.
Qed.

Definition fresh_chain : list op := [ONode 0; ONode 0; ONode 0; ODep 2 3; ODep 1 2].

Lemma C30_refuted_proof :
  exists g, build_ops false fresh_chain = Some g /\ acyclic (xg_of g) /\
    (forall n, In n (g_nodes g) -> incb (g_cnt g) n = true) /\
    negb (preparedb (xg_of g) (g_cnt g)) = true /\
    (let s := exec_seq (xg_of g) (g_cnt g) in
     quiescent s = true /\ rev (started_l (s_log s)) = [1; 2; 3]%positive /\
     ~ respects_dependencies (xg_of g) (g_cnt g) (s_log s) /\ getz (s_cnt s) 1 <> K64) /\
    (forall wave, ~ respects_dependencies (xg_of g) (g_cnt g) (s_log (run_sched (xg_of g) wave (init_st (xg_of g) (g_cnt g)) [1%nat]))).
Proof.
  eexists. split; [vm_compute; reflexivity|]. split; [|split; [|split; [|split]]].
  - exists (fun n => match n with 3%positive => 0%nat | 2%positive => 1%nat | _ => 2%nat end).
    intros p d Hp Hd. vm_compute in Hp.
    destruct Hp as [<-|[<-|[<-|[]]]]; vm_compute in Hd; try contradiction; destruct Hd as [<-|[]]; vm_compute; lia.
  - intros n Hn. vm_compute in Hn. destruct Hn as [<-|[<-|[<-|[]]]]; reflexivity.
  - vm_compute. reflexivity.
  - cbv zeta. split; [vm_compute; reflexivity|]. split; [vm_compute; reflexivity|]. split.
    + intros H.
      specialize (H [EvF 3; EvS 3; EvF 2; EvS 2; EvF 1]%positive [] 1%positive 2%positive).
      apply H; [vm_compute; reflexivity | vm_compute; auto | vm_compute; reflexivity | vm_compute; auto].
    + vm_compute. discriminate.
  - intros wave H. specialize (H [] [] 1%positive 2%positive).
    apply H; [destruct wave; vm_compute; reflexivity | vm_compute; auto | vm_compute; reflexivity | vm_compute; auto].
Qed.

Lemma C30_full_statement_false_proof :
  ~ (forall bip ops g, build_ops bip ops = Some g -> acyclic (xg_of g) ->
     forall wave sched,
       let s := run_sched (xg_of g) wave (init_st (xg_of g) (g_cnt g)) sched in
       safety_stmt (xg_of g) (g_cnt g) s /\ final_stmt (xg_of g) (g_cnt g) s).
Proof.
  intros H. destruct C30_refuted_proof as [g [Hb [Ha [_ [_ [_ Hc]]]]]].
  destruct (H false fresh_chain g Hb Ha true [1%nat]) as [[_ [_ [Hr _]]] _]. exact (Hc true Hr).
Qed.
