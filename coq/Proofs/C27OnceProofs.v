(* C27, consequences of the flow invariant: at-most-once per (stage, item), stage order, predecessor's output as input.
   All statements are about the event log of ANY reachable state (any schedule, any number of threads). *)
From Coq Require Import ZArith List Bool Lia.
From DV Require Import Base.MachInt Base.Sched Model.PipelineModel Proofs.PipelineProofs Proofs.C27FlowProofs.
Import ListNotations.
Local Open Scope Z_scope.

(* ---------- linear combinations of measures ---------- *)
Lemma sumf_plus {A} (a b : A -> Z) l : sumf (fun x => a x + b x) l = sumf a l + sumf b l.
Proof. induction l as [|x l IH]; cbn; [reflexivity | rewrite IH; lia]. Qed.
Lemma sumf_scale {A} k (a : A -> Z) l : sumf (fun x => k * a x) l = k * sumf a l.
Proof. induction l as [|x l IH]; cbn; [lia | rewrite IH; lia]. Qed.

Definition mplus (a b : meas) : meas :=
  MS (fun f => mf a f + mf b f) (fun j x => mq a j x + mq b j x) (fun x => mb a x + mb b x) (fun e => me a e + me b e).
Definition mscale (k : Z) (a : meas) : meas :=
  MS (fun f => k * mf a f) (fun j x => k * mq a j x) (fun x => k * mb a x) (fun e => k * me a e).

Lemma gatesw_plus a b k gs : gatesw (mplus a b) k gs = gatesw a k gs + gatesw b k gs.
Proof. revert k; induction gs as [|g r IH]; intros k; cbn [gatesw]; [reflexivity|]. rewrite IH. unfold qw; cbn [mq mplus]. rewrite sumf_plus. lia. Qed.
Lemma gatesw_scale c a k gs : gatesw (mscale c a) k gs = c * gatesw a k gs.
Proof. revert k; induction gs as [|g r IH]; intros k; cbn [gatesw]; [lia|]. rewrite IH. unfold qw; cbn [mq mscale]. rewrite sumf_scale. lia. Qed.

Lemma total_plus a b s : total (mplus a b) s = total a s + total b s.
Proof.
  unfold total, shw, thsw, bagw, logw, stackw. rewrite gatesw_plus. cbn [mb me mf mplus]. rewrite !sumf_plus.
  assert (E : sumf (fun th => sumf (fun f => mf a f + mf b f) (stack th)) (threads s) =
              sumf (fun th => sumf (mf a) (stack th)) (threads s) + sumf (fun th => sumf (mf b) (stack th)) (threads s)).
  { rewrite <- sumf_plus. apply sumf_ext. intros th. apply sumf_plus. }
  rewrite E. lia.
Qed.
Lemma total_scale k a s : total (mscale k a) s = k * total a s.
Proof.
  unfold total, shw, thsw, bagw, logw, stackw. rewrite gatesw_scale. cbn [mb me mf mscale]. rewrite !sumf_scale.
  assert (E : sumf (fun th => sumf (fun f => k * mf a f) (stack th)) (threads s) = k * sumf (fun th => sumf (mf a) (stack th)) (threads s)).
  { rewrite <- sumf_scale. apply sumf_ext. intros th. apply sumf_scale. }
  rewrite E. lia.
Qed.
Lemma gatesw_ext a b k gs : (forall j x, mq a j x = mq b j x) -> gatesw a k gs = gatesw b k gs.
Proof. intros E. revert k; induction gs as [|g r IH]; intros k; cbn [gatesw]; [reflexivity|]. rewrite IH. unfold qw. f_equal. apply sumf_ext. intros; apply E. Qed.
Lemma total_ext a b s :
  (forall f, mf a f = mf b f) -> (forall j x, mq a j x = mq b j x) -> (forall x, mb a x = mb b x) -> (forall e, me a e = me b e) ->
  total a s = total b s.
Proof.
  intros F Q B E. unfold total, shw, thsw, bagw, logw, stackw. rewrite (gatesw_ext a b) by exact Q.
  rewrite (sumf_ext (fun e => mb a (snd e)) (fun e => mb b (snd e))) by (intros; apply B).
  rewrite (sumf_ext (me a) (me b)) by exact E.
  rewrite (sumf_ext (fun th => sumf (mf a) (stack th)) (fun th => sumf (mf b) (stack th))) by (intros; apply sumf_ext; exact F).
  reflexivity.
Qed.

(* ---------- the components of the flow measures ---------- *)
Definition z3 : nat -> item -> Z := fun _ _ => 0.
Definition m_pre (j : nat) (tag : Z) : meas := MS (pre_f j tag) (pre_q j tag) (pre_b j tag) (fun _ => 0).
Definition m_post (j : nat) (tag : Z) : meas := MS (post_f j tag) z3 (fun _ => 0) (fun _ => 0).
Definition m_ev (k : Z) (j : nat) (tag : Z) : meas := MS (fun _ => 0) z3 (fun _ => 0) (evw k j tag).
Definition m_lost (j : nat) (tag : Z) : meas := MS (fun _ => 0) z3 (fun _ => 0) (lostw j tag).

Ltac nn := repeat match goal with |- context [match ?x with _ => _ end] => destruct x end; try apply bz_nonneg; try lia.
Lemma nonneg_pre j tag : nonneg (m_pre j tag).
Proof. repeat split; intros; cbn; unfold pre_f, pre_q, pre_b; nn. Qed.
Lemma nonneg_post j tag : nonneg (m_post j tag).
Proof. repeat split; intros; cbn; unfold post_f, z3; nn. Qed.
Lemma nonneg_ev k j tag : nonneg (m_ev k j tag).
Proof. repeat split; intros; cbn; unfold evw, z3; nn. Qed.
Lemma nonneg_lost j tag : nonneg (m_lost j tag).
Proof.
  repeat split; intros; cbn; unfold z3; try lia. unfold lostw.
  pose proof (bz_nonneg ((e_kind x =? 7) && (e_j x =? Z.of_nat j) && (e_tag x =? tag))).
  pose proof (bz_nonneg ((e_kind x =? 8) && (e_j x =? Z.of_nat j) && (e_tag x =? tag))).
  pose proof (bz_nonneg ((e_kind x =? 11) && (e_j x =? Z.of_nat j) && (e_tag x =? tag))).
  pose proof (bz_nonneg ((e_kind x =? 12) && (e_j x =? Z.of_nat j) && (e_tag x =? tag))).
  pose proof (bz_nonneg ((e_kind x =? 15) && (e_j x =? Z.of_nat j) && (e_tag x =? tag))).
  unfold evw. lia.
Qed.

(* number of events of kind k for (stage j, item tag) in a log *)
Definition count_ev (k : Z) (j : nat) (tag : Z) (l : list event) : Z := sumf (evw k j tag) l.
Lemma total_ev k j tag s : total (m_ev k j tag) s = count_ev k j tag (log (sh s)).
Proof.
  unfold total, shw, count_ev. rewrite gatesw_zero by reflexivity.
  assert (B : bagw (m_ev k j tag) (bag (sh s)) = 0) by (unfold bagw; apply sumf_zero; intros; reflexivity).
  assert (T : thsw (m_ev k j tag) (threads s) = 0).
  { unfold thsw. apply sumf_zero. intros th _. unfold stackw. apply sumf_zero. intros; reflexivity. }
  rewrite B, T. unfold logw. cbn [me m_ev]. lia.
Qed.

Lemma Q_split j0 tag s :
  total (mQ j0 tag) s =
  total (m_post j0 tag) s + total (m_ev 3 j0 tag) s + total (m_ev 17 j0 tag) s + total (m_pre (S j0) tag) s +
  total (m_ev 1 (S j0) tag) s + total (m_lost (S j0) tag) s - total (m_ev 1 j0 tag) s.
Proof.
  rewrite (total_ext (mQ j0 tag)
            (mplus (m_post j0 tag) (mplus (m_ev 3 j0 tag) (mplus (m_ev 17 j0 tag) (mplus (m_pre (S j0) tag)
               (mplus (m_ev 1 (S j0) tag) (mplus (m_lost (S j0) tag) (mscale (-1) (m_ev 1 j0 tag))))))))).
  - rewrite !total_plus, total_scale. lia.
  - intros f. cbn [mf mQ mQ0 mplus mscale m_post m_ev m_pre m_lost m_gen4]. lia.
  - intros j x. cbn [mq mQ mQ0 mplus mscale m_post m_ev m_pre m_lost m_gen4]. unfold z3. lia.
  - intros x. cbn [mb mQ mQ0 mplus mscale m_post m_ev m_pre m_lost m_gen4]. lia.
  - intros e. cbn [me mQ mQ0 mplus mscale m_post m_ev m_pre m_lost m_gen4]. lia.
Qed.

Definition m_gen4c (tag : Z) : meas := m_gen4 tag.
Lemma Q0_split tag s :
  total (mQ0 tag) s = total (m_pre 0 tag) s + total (m_ev 1 0 tag) s + total (m_lost 0 tag) s - total (m_gen4 tag) s.
Proof.
  rewrite (total_ext (mQ0 tag) (mplus (m_pre 0 tag) (mplus (m_ev 1 0 tag) (mplus (m_lost 0 tag) (mscale (-1) (m_gen4 tag)))))).
  - rewrite !total_plus, total_scale. lia.
  - intros f. cbn [mf mQ mQ0 mplus mscale m_post m_ev m_pre m_lost m_gen4]. lia.
  - intros j x. cbn [mq mQ mQ0 mplus mscale m_post m_ev m_pre m_lost m_gen4]. unfold z3. lia.
  - intros x. cbn [mb mQ mQ0 mplus mscale m_post m_ev m_pre m_lost m_gen4]. lia.
  - intros e. cbn [me mQ mQ0 mplus mscale m_post m_ev m_pre m_lost m_gen4]. lia.
Qed.

Lemma gen4_val_le1 c s tag : 0 <= gen4_val c s tag <= 1.
Proof. unfold gen4_val. destruct (_ && _)%bool; cbn; lia. Qed.

(* ---------- at most once, and in stage order ---------- *)
Theorem entered_le_generated c s tag :
  (0 < nstages c)%nat -> reach (mstep c) (init c) s -> count_ev 1 0 tag (log (sh s)) <= gen4_val c (sh s) tag.
Proof.
  intros H0 R. destruct (flow_invariant c s H0 R tag) as (I0 & I4 & _). rewrite Q0_split in I0. rewrite <- total_ev.
  pose proof (total_nonneg _ s (nonneg_pre 0 tag)). pose proof (total_nonneg _ s (nonneg_lost 0 tag)). lia.
Qed.

Theorem entered_monotone c s j tag :
  (0 < nstages c)%nat -> reach (mstep c) (init c) s -> count_ev 1 (S j) tag (log (sh s)) <= count_ev 1 j tag (log (sh s)).
Proof.
  intros H0 R. destruct (flow_invariant c s H0 R tag) as (_ & _ & IQ). specialize (IQ j). rewrite Q_split in IQ. rewrite <- !total_ev.
  pose proof (total_nonneg _ s (nonneg_post j tag)). pose proof (total_nonneg _ s (nonneg_ev 3 j tag)).
  pose proof (total_nonneg _ s (nonneg_ev 17 j tag)). pose proof (total_nonneg _ s (nonneg_pre (S j) tag)).
  pose proof (total_nonneg _ s (nonneg_lost (S j) tag)). lia.
Qed.

Theorem each_item_each_stage_at_most_once c s j tag :
  (0 < nstages c)%nat -> reach (mstep c) (init c) s -> count_ev 1 j tag (log (sh s)) <= 1.
Proof.
  intros H0 R. induction j as [|j IH].
  - pose proof (entered_le_generated c s tag H0 R). pose proof (gen4_val_le1 c (sh s) tag). lia.
  - pose proof (entered_monotone c s j tag H0 R). lia.
Qed.

(* ---------- entered = in the user function + thrown + exited ---------- *)
Definition body_f (j0 : nat) (tag : Z) (f : frame) : Z :=
  match f with FTask _ j it TBody _ => bz (Nat.eqb j0 j && tagis tag it) | _ => 0 end.
Definition mB (j0 : nat) (tag : Z) : meas := MS
  (body_f j0 tag) z3 (fun _ => 0) (fun e => evw 3 j0 tag e + evw 2 j0 tag e - evw 1 j0 tag e).
Definition m_body (j : nat) (tag : Z) : meas := MS (body_f j tag) z3 (fun _ => 0) (fun _ => 0).

Lemma B_local c t s th ch s1 th1 ch1 site wake j0 tag :
  (0 < nstages c)%nat -> wf_shared c s -> wf_thread c th ->
  mstep_thread c t s th ch = Some (s1, th1, ch1, site, wake) -> dlt (mB j0 tag) s th s1 th1 = 0.
Proof.
  intros H0 [[WL WG] WB] WT H. unfold wf_thread in *. unfold dlt. step_cases H th; wf_fin; subst.
  all: acct_pre Hst.
  all: rewrite ?(gatesw_zero (mB j0 tag)) by reflexivity; rewrite ?(strandw_zero (mB j0 tag)) by (intros; cbn; unfold evw; cbn; lia).
  all: cbn [mf mq mb me mB]; unfold body_f, evw, tagis, z3.
  all: acct_fin.
Qed.

Theorem body_invariant c s j0 tag : (0 < nstages c)%nat -> reach (mstep c) (init c) s -> total (mB j0 tag) s = 0.
Proof.
  intros H0 R.
  assert (X : WF c s /\ total (mB j0 tag) s = 0).
  { apply (reach_inv (mstep c) (fun s => WF c s /\ total (mB j0 tag) s = 0) (init c)); [split; [apply WF_init | apply init_total_frames; reflexivity] | | exact R].
    intros s1 t ch s1' ch' site [[WS WT] I] E. split; [eapply WF_mstep; eauto; split; assumption|].
    apply mstep_inv in E. destruct E as (th & s2 & th1 & wake & N & M & ->).
    assert (Wth : wf_thread c th) by (eapply Forall_nth_error; eauto).
    pose proof (B_local c t (sh s1) th ch s2 th1 ch' site wake j0 tag H0 WS Wth M) as D.
    pose proof (total_step (mB j0 tag) (threads s1) t th (sh s1) s2 th1 wake eq_refl N) as T1.
    destruct s1 as [s0 ths]; cbn [sh threads] in *. lia. }
  exact (proj2 X).
Qed.

Lemma B_split j0 tag s :
  total (mB j0 tag) s = total (m_body j0 tag) s + total (m_ev 3 j0 tag) s + total (m_ev 2 j0 tag) s - total (m_ev 1 j0 tag) s.
Proof.
  rewrite (total_ext (mB j0 tag) (mplus (m_body j0 tag) (mplus (m_ev 3 j0 tag) (mplus (m_ev 2 j0 tag) (mscale (-1) (m_ev 1 j0 tag)))))).
  - rewrite !total_plus, total_scale. lia.
  - intros f. cbn [mf mB mplus mscale m_body m_ev]. lia.
  - intros j x. cbn [mq mB mplus mscale m_body m_ev]. unfold z3. lia.
  - intros x. cbn [mb mB mplus mscale m_body m_ev]. lia.
  - intros e. cbn [me mB mplus mscale m_body m_ev]. lia.
Qed.

Lemma body_le_post j tag s : total (m_body j tag) s <= total (m_post j tag) s.
Proof.
  unfold total.
  assert (E : shw (m_body j tag) (sh s) = shw (m_post j tag) (sh s)).
  { unfold shw. rewrite !gatesw_zero by reflexivity. reflexivity. }
  rewrite E. assert (thsw (m_body j tag) (threads s) <= thsw (m_post j tag) (threads s)); [|lia].
  unfold thsw. apply sumf_le. intros th _. unfold stackw. apply sumf_le. intros f _. cbn [mf m_body m_post]. unfold body_f, post_f.
  destruct f; try lia. destruct pc; cbn [post_pc]; rewrite ?andb_false_r; cbn [bz]; try apply bz_nonneg; try lia.
  rewrite andb_true_r. lia.
Qed.

(* an item enters stage j+1 only after it has LEFT stage j (normally) *)
Theorem next_stage_after_exit c s j tag :
  (0 < nstages c)%nat -> reach (mstep c) (init c) s -> count_ev 1 (S j) tag (log (sh s)) <= count_ev 2 j tag (log (sh s)).
Proof.
  intros H0 R. destruct (flow_invariant c s H0 R tag) as (_ & _ & IQ). specialize (IQ j). rewrite Q_split in IQ.
  pose proof (body_invariant c s j tag H0 R) as IB. rewrite B_split in IB. rewrite <- !total_ev.
  pose proof (body_le_post j tag s). pose proof (total_nonneg _ s (nonneg_ev 17 j tag)). pose proof (total_nonneg _ s (nonneg_pre (S j) tag)).
  pose proof (total_nonneg _ s (nonneg_lost (S j) tag)). lia.
Qed.

(* ---------- every stage receives its predecessor's output ---------- *)
Definition val_item (j : nat) (it : item) : Prop := snd it = chain j (fst it).
Definition val_task (tk : ptask) : Prop := match tk with TGen => True | TL j it | TU j it => val_item j it end.
Definition val_frame (f : frame) : Prop :=
  match f with
  | FGen (GSched it _) => val_item 0 it
  | FTask _ j it _ _ => val_item j it
  | FMain (MWait j pc held) => wait_holds pc = true -> val_item j held
  | FPool tk _ => val_task tk
  | _ => True
  end.
Definition val_event (e : event) : Prop := e_kind e = 1 -> e_val e = chain (Z.to_nat (e_j e)) (e_tag e).
Fixpoint val_gates (j : nat) (gs : list gate) : Prop :=
  match gs with [] => True | g :: r => Forall (fun e => val_item j (snd e)) (g_q g) /\ val_gates (S j) r end.
Definition val_shared (s : shared) : Prop :=
  val_gates 0 (gates s) /\ Forall (fun e => val_task (snd e)) (bag s) /\ Forall val_event (log s).
Definition val_thread (th : thread) : Prop := Forall val_frame (stack th).

Lemma val_gates_nth k gs j : val_gates k gs -> Forall (fun e => val_item (k + j) (snd e)) (g_q (nth j gs dflt_gate)).
Proof.
  revert k j; induction gs as [|g r IH]; intros k j V; [destruct j; constructor|].
  destruct V as [V1 V2]. destruct j as [|j]; cbn [nth]; [rewrite Nat.add_0_r; exact V1|].
  replace (k + S j)%nat with (S k + j)%nat by lia. apply IH. exact V2.
Qed.
Lemma val_gates_upd k gs j f :
  val_gates k gs -> Forall (fun e => val_item (k + j) (snd e)) (g_q (f (nth j gs dflt_gate))) -> val_gates k (upd_nth j f gs).
Proof.
  revert k j; induction gs as [|g r IH]; intros k j V F; [destruct j; exact I|].
  destruct V as [V1 V2]. destruct j as [|j]; cbn [upd_nth val_gates nth] in *; [rewrite Nat.add_0_r in F; split; assumption|].
  split; [exact V1|]. apply IH; [exact V2|]. replace (S k + j)%nat with (k + S j)%nat by lia. exact F.
Qed.
Lemma val_gates_emptied k gs : val_gates k (map (fun g => g_w_q [] (g_prods g) g) gs).
Proof. revert k; induction gs as [|g r IH]; intros k; cbn; [exact I | split; [constructor | apply IH]]. Qed.
Lemma strand_q_log t j q s : Forall val_event (log s) -> Forall val_event (log (strand_q t j q s)).
Proof.
  revert s; induction q as [|[p it] q IH]; intros s F; cbn; [exact F|]. apply IH. cbn. constructor; [|exact F].
  unfold val_event; cbn. discriminate.
Qed.
Lemma strand_gates_log t j gs s : Forall val_event (log s) -> Forall val_event (log (strand_gates t j gs s)).
Proof. revert j s; induction gs as [|g r IH]; intros j s F; cbn; [exact F|]. apply IH. apply strand_q_log. exact F. Qed.

Lemma chain_S j tag : chain (S j) tag = sval j (chain j tag). Proof. reflexivity. Qed.

Ltac val_fin :=
  repeat match goal with
  | H : Forall _ (_ :: _) |- _ => inversion H; subst; clear H
  | H : val_frame _ |- _ => cbn [val_frame val_task wait_holds] in H
  | H : true = true -> _ |- _ => specialize (H eq_refl)
  | H : _ /\ _ |- _ => destruct H
  end.

Ltac val_solve VG VB :=
  repeat match goal with
  | |- _ /\ _ => split
  | |- Forall _ (_ :: _) => constructor
  | |- Forall _ [] => constructor
  | |- Forall _ (_ ++ [_]) => apply Forall_snoc
  | |- Forall _ (remove_at _ _) => apply Forall_remove_at
  | |- val_gates _ (upd_nth _ (g_w_res _) _) => apply val_gates_upd; [assumption | cbn [g_q g_w_res]; apply (val_gates_nth 0); assumption]
  | |- val_gates _ (upd_nth _ (g_w_out _) _) => apply val_gates_upd; [assumption | cbn [g_q g_w_out]; apply (val_gates_nth 0); assumption]
  | |- val_gates _ (upd_nth _ _ _) => apply val_gates_upd; [assumption | cbn [g_q g_w_q]]
  | |- val_gates _ (map _ _) => apply val_gates_emptied
  | |- Forall val_event (log (strand_gates _ _ _ _)) => apply strand_gates_log
  | |- context [bag (strand_gates _ _ _ _)] => rewrite strand_gates_bag
  | |- val_frame (FMain (first_wait _)) => unfold first_wait; destruct (Nat.ltb _ _)
  | |- val_frame (FMain (after_wait _ _)) => unfold after_wait; destruct (Nat.ltb _ _)
  | |- val_frame _ => cbn [val_frame val_task wait_holds]
  | |- val_task _ => cbn [val_task snd fst]
  | |- val_event _ => unfold val_event; cbn [e_kind e_val e_j e_tag ev zj]; try discriminate; intros _; rewrite ?Nat2Z.id
  | |- false = true -> _ => discriminate
  | |- true = true -> _ => intros _
  end; cbn [gates bag log snd fst] in *; try assumption; try exact I;
  try (apply (val_gates_nth 0); assumption);
  unfold val_item in *; cbn [fst snd plus] in *; rewrite ?Nat2Z.id, ?Z2Nat.inj_pos, ?SuccNat2Pos.id_succ; try assumption; try reflexivity;
  try (rewrite chain_S; congruence).

Lemma val_local c t s th ch s1 th1 ch1 site wake :
  val_shared s -> val_thread th ->
  mstep_thread c t s th ch = Some (s1, th1, ch1, site, wake) -> val_shared s1 /\ val_thread th1.
Proof.
  intros (VG & VB & VL) VT H. unfold val_thread in *. step_cases H th; val_fin.
  all: try (match goal with Hn : nth_error (bag _) _ = Some (_, ?tk) |- _ =>
              let K := fresh "K" in pose proof (Forall_nth_error _ _ _ _ VB Hn) as K; cbn [snd] in K end).
  all: try (match goal with Hn : nth_error (g_q (gate_at ?s ?j)) _ = Some (_, ?x) |- _ =>
              let K := fresh "K" in pose proof (Forall_nth_error _ _ _ _ (val_gates_nth 0 (gates s) j VG) Hn) as K; cbn [snd plus] in K end).
  all: unfold val_shared, val_thread; mnorm; cbn [stack]; try rewrite Hst.
  all: val_solve VG VB.
Qed.

Definition ValInv (s : state) : Prop := val_shared (sh s) /\ Forall val_thread (threads s).

Lemma val_gates_init k l : val_gates k (map init_gate l).
Proof. revert k; induction l as [|a l IH]; intros k; cbn; [exact I | split; [constructor | apply IH]]. Qed.

Lemma ValInv_init c : ValInv (init c).
Proof.
  split; [split; [apply val_gates_init | split; constructor]|].
  cbn. constructor; [repeat constructor|]. apply Forall_forall. intros th Hth. apply in_map_iff in Hth. destruct Hth as [w [<- _]].
  repeat constructor.
Qed.

Lemma val_wake1 th : val_thread th -> val_thread (wake1 th).
Proof.
  unfold val_thread, wake1. intros F. destruct (stack th) as [|f r] eqn:S; [rewrite S; exact F|].
  destruct f; try (rewrite S; exact F). destruct pc; try (rewrite S; exact F). cbn. inversion F; subst. constructor; [exact I | assumption].
Qed.

Lemma ValInv_mstep c s t ch s' ch' site : ValInv s -> mstep c s t ch = Some (s', ch', site) -> ValInv s'.
Proof.
  intros [VS VT] H. split.
  - pose proof H as H'. apply mstep_inv in H'. destruct H' as (th & s1 & th1 & wake & N & M & ->). cbn [sh].
    eapply val_local; eauto. eapply Forall_nth_error; eauto.
  - eapply (Forall_threads_mstep val_thread); eauto using val_wake1.
    intros th th1 wake N P M. eapply val_local; eauto.
Qed.

(* every "enter" event carries the value computed by the chain of the predecessor stages from the generated value *)
Theorem stage_gets_predecessor_output c s e :
  reach (mstep c) (init c) s -> In e (log (sh s)) -> e_kind e = 1 -> e_val e = chain (Z.to_nat (e_j e)) (e_tag e).
Proof.
  intros R Hin K.
  assert (V : ValInv s).
  { apply (reach_inv (mstep c) ValInv (init c)); [apply ValInv_init | | exact R]. intros s1 t ch s1' ch' site I E. eapply ValInv_mstep; eauto. }
  destruct V as [(_ & _ & VL) _]. rewrite Forall_forall in VL. exact (VL e Hin K).
Qed.
