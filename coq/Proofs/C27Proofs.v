(* C27: the pipeline delivers every item through every stage exactly once -- accounting invariants over all interleavings of
   Model/PipelineModel.v (any number of stages / items / threads, every queue policy, every inline policy):
     PoolInv  outstanding pool tasks = bag + wrappers being run
     OutInv   outstanding_ of a gate = the items between its increment and its decrement (+ those lost to the cancelled wrapper)
     GenInv   the completion latch = generator instances not yet past their CompletionGuard
     FlowInv  per item and stage: entered = in the stage + thrown + finished here + waiting for / entered / lost at the next stage
   and, for pipelines without throwing stages, the "closed" phase argument that makes wait()'s drain loops sufficient. *)
From Coq Require Import ZArith List Bool Lia.
From DV Require Import Base.MachInt Base.Sched Model.PipelineModel Proofs.PipelineProofs.
Import ListNotations.
Local Open Scope Z_scope.

Ltac nn := repeat match goal with |- context [match ?x with _ => _ end] => destruct x end; try apply bz_nonneg; try lia.

(* ---------- pool accounting ---------- *)
Definition m_pool : meas := MS (fun f => match f with FPool _ _ => 1 | _ => 0 end) (fun _ _ => 0) (fun _ => 1) (fun _ => 0).

Lemma pool_local c t s th ch s1 th1 ch1 site wake :
  mstep_thread c t s th ch = Some (s1, th1, ch1, site, wake) -> dlt m_pool s th s1 th1 = pout s1 - pout s.
Proof.
  intros H. unfold dlt. step_cases H th.
  all: acct_pre Hst.
  all: rewrite ?(gatesw_zero m_pool) by reflexivity.
  all: rewrite ?(strandw_zero m_pool) by (intros; reflexivity).
  all: cbn [mf mq mb me m_pool pout w_pout w_exc w_result].
  all: acct_fin.
Qed.

Definition PoolInv (s : state) : Prop := pout (sh s) = total m_pool s.

Lemma PoolInv_init c : PoolInv (init c).
Proof.
  unfold PoolInv, total, init, shw, thsw; cbn [sh threads gates bag log pout]. rewrite gatesw_zero by reflexivity. cbn.
  rewrite sumf_zero; [lia|]. intros x Hx. apply in_map_iff in Hx. destruct Hx as [w [<- _]]. reflexivity.
Qed.

Lemma PoolInv_mstep c s t ch s' ch' site : PoolInv s -> mstep c s t ch = Some (s', ch', site) -> PoolInv s'.
Proof.
  unfold PoolInv. intros I H. apply mstep_inv in H. destruct H as (th & s1 & th1 & wake & N & M & ->).
  pose proof (pool_local c t (sh s) th ch s1 th1 ch' site wake M) as D.
  pose proof (total_step m_pool (threads s) t th (sh s) s1 th1 wake eq_refl N) as T1.
  destruct s as [s0 ths]; cbn [sh threads] in *. lia.
Qed.

Theorem pool_invariant c s : reach (mstep c) (init c) s -> PoolInv s.
Proof.
  intros R. apply (reach_inv (mstep c) PoolInv (init c)); [apply PoolInv_init | | exact R].
  intros s1 t ch s1' ch' site I E. eapply PoolInv_mstep; eauto.
Qed.

(* ---------- outstanding_ accounting ---------- *)
Definition m_out (j0 : nat) : meas := MS
  (fun f => match f with
            | FGen (GSched _ SEnq) => bz (Nat.eqb j0 0)
            | FTask _ j _ (TSched SEnq) _ => bz (Nat.eqb j0 j) + bz (Nat.eqb j0 (S j))
            | FTask _ j _ _ _ => bz (Nat.eqb j0 j)
            | FMain (MWait j pc _) => bz (Nat.eqb j0 j && wait_holds pc)
            | FPool (TL j _) PRun | FPool (TU j _) PRun => bz (Nat.eqb j0 j)
            | _ => 0 end)
  (fun j _ => bz (Nat.eqb j0 j))
  (fun tk => match tk with TL j _ | TU j _ => bz (Nat.eqb j0 j) | TGen => 0 end)
  (fun e => bz (((e_kind e =? 8) || (e_kind e =? 12) || (e_kind e =? 11)) && (e_j e =? Z.of_nat j0))).

Lemma nonneg_out j0 : nonneg (m_out j0).
Proof. repeat split; intros; cbn; nn; try (pose proof (bz_nonneg (Nat.eqb j0 j)); pose proof (bz_nonneg (Nat.eqb j0 (S j))); lia). Qed.

Lemma strandw_out j0 t k gs : strandw (m_out j0) t k gs = gatesw (m_out j0) k gs.
Proof.
  apply strandw_eq_gatesw. intros j it. cbn. rewrite zof_eqb. destruct (Nat.eqb_spec j j0), (Nat.eqb_spec j0 j); try reflexivity; congruence.
Qed.

Lemma out_local c t s th ch s1 th1 ch1 site wake j0 :
  (0 < nstages c)%nat -> wf_shared c s -> wf_thread c th -> (j0 < nstages c)%nat ->
  mstep_thread c t s th ch = Some (s1, th1, ch1, site, wake) ->
  dlt (m_out j0) s th s1 th1 = g_out (gate_at s1 j0) - g_out (gate_at s j0).
Proof.
  intros H0 [WL WB] WT J0 H. unfold wf_thread in *. unfold dlt. step_cases H th; wf_fin; subst.
  all: try (pose proof (nth_error_gate_lt _ _ _ _ Hn)).
  all: acct_pre Hst.
  all: rewrite ?strandw_out.
  all: repeat (first [ rewrite gatesw_upd_q by lia | rewrite gatesw_upd_enq by lia ]).
  all: try (erewrite !qw_rem by eassumption).
  all: cbn [mf mq mb me m_out wait_holds].
  all: acct_fin.
Qed.
