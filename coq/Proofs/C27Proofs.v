(* C27: the pipeline delivers every item through every stage exactly once -- accounting invariants over all interleavings of
   Model/PipelineModel.v (any number of stages / items / threads, every queue policy, every inline policy):
     PoolInv  outstanding pool tasks = bag + wrappers being run
     OutInv   outstanding_ of a gate = the items between its increment and its decrement (+ those lost to the cancelled wrapper)
     GenInv   the completion latch = generator instances not yet past their CompletionGuard
     FlowInv  per item and stage: entered = in the stage + thrown + finished here + waiting for / entered / lost at the next stage
   and, for pipelines without throwing stages, the "closed" phase argument that makes wait()'s drain loops sufficient. *)
From Coq Require Import ZArith List Bool Lia.
From DV Require Import Base.MachInt Base.Sched Model.PipelineModel Proofs.PipelineProofs.
Import ListNotations.
Local Open Scope Z_scope.

Ltac nn := repeat match goal with |- context [match ?x with _ => _ end] => destruct x end; try apply bz_nonneg; try lia.

(* ---------- pool accounting ---------- *)
Definition m_pool : meas := MS (fun f => match f with FPool _ _ => 1 | _ => 0 end) (fun _ _ => 0) (fun _ => 1) (fun _ => 0).

Lemma pool_local c t s th ch s1 th1 ch1 site wake :
  mstep_thread c t s th ch = Some (s1, th1, ch1, site, wake) -> dlt m_pool s th s1 th1 = pout s1 - pout s.
Proof.
  intros H. unfold dlt. step_cases H th.
  all: acct_pre Hst.
  all: rewrite ?(gatesw_zero m_pool) by reflexivity.
  all: rewrite ?(strandw_zero m_pool) by (intros; reflexivity).
  all: cbn [mf mq mb me m_pool pout w_pout w_exc w_result].
  all: acct_fin.
Qed.

Definition PoolInv (s : state) : Prop := pout (sh s) = total m_pool s.

Lemma PoolInv_init c : PoolInv (init c).
Proof.
  unfold PoolInv, total, init, shw, thsw; cbn [sh threads gates bag log pout]. rewrite gatesw_zero by reflexivity. cbn.
  rewrite sumf_zero; [lia|]. intros x Hx. apply in_map_iff in Hx. destruct Hx as [w [<- _]]. reflexivity.
Qed.

Lemma PoolInv_mstep c s t ch s' ch' site : PoolInv s -> mstep c s t ch = Some (s', ch', site) -> PoolInv s'.
Proof.
  unfold PoolInv. intros I H. apply mstep_inv in H. destruct H as (th & s1 & th1 & wake & N & M & ->).
  pose proof (pool_local c t (sh s) th ch s1 th1 ch' site wake M) as D.
  pose proof (total_step m_pool (threads s) t th (sh s) s1 th1 wake eq_refl N) as T1.
  destruct s as [s0 ths]; cbn [sh threads] in *. lia.
Qed.

Theorem pool_invariant c s : reach (mstep c) (init c) s -> PoolInv s.
Proof.
  intros R. apply (reach_inv (mstep c) PoolInv (init c)); [apply PoolInv_init | | exact R].
  intros s1 t ch s1' ch' site I E. eapply PoolInv_mstep; eauto.
Qed.

(* ---------- outstanding_ accounting ---------- *)
Definition m_out (j0 : nat) : meas := MS
  (fun f => match f with
            | FGen (GSched _ SEnq) => bz (Nat.eqb j0 0)
            | FTask _ j _ (TSched SEnq) _ => bz (Nat.eqb j0 j) + bz (Nat.eqb j0 (S j))
            | FTask _ j _ _ _ => bz (Nat.eqb j0 j)
            | FMain (MWait j pc _) => bz (Nat.eqb j0 j && wait_holds pc)
            | FPool (TL j _) PRun | FPool (TU j _) PRun => bz (Nat.eqb j0 j)
            | _ => 0 end)
  (fun j _ => bz (Nat.eqb j0 j))
  (fun tk => match tk with TL j _ | TU j _ => bz (Nat.eqb j0 j) | TGen => 0 end)
  (fun e => bz (((e_kind e =? 8) || (e_kind e =? 12) || (e_kind e =? 11)) && (e_j e =? Z.of_nat j0))).

Lemma nonneg_out j0 : nonneg (m_out j0).
Proof. repeat split; intros; cbn; nn; try (pose proof (bz_nonneg (Nat.eqb j0 j)); pose proof (bz_nonneg (Nat.eqb j0 (S j))); lia). Qed.

Lemma strandw_out j0 t k gs : strandw (m_out j0) t k gs = gatesw (m_out j0) k gs.
Proof.
  apply strandw_eq_gatesw. intros j it. cbn. rewrite zof_eqb. destruct (Nat.eqb_spec j j0), (Nat.eqb_spec j0 j); try reflexivity; congruence.
Qed.

Lemma out_local c t s th ch s1 th1 ch1 site wake j0 :
  (0 < nstages c)%nat -> wf_shared c s -> wf_thread c th -> (j0 < nstages c)%nat ->
  mstep_thread c t s th ch = Some (s1, th1, ch1, site, wake) ->
  dlt (m_out j0) s th s1 th1 = g_out (gate_at s1 j0) - g_out (gate_at s j0).
Proof.
  intros H0 [[WL WG] WB] WT J0 H. unfold wf_thread in *. unfold dlt. step_cases H th; wf_fin; subst.
  all: try (pose proof (nth_error_gate_lt _ _ _ _ Hn)).
  all: acct_pre Hst.
  all: rewrite ?strandw_out.
  all: repeat (first [ rewrite gatesw_upd_q by lia | rewrite gatesw_upd_enq by lia ]).
  all: try (erewrite !qw_rem by eassumption).
  all: cbn [mf mq mb me m_out wait_holds].
  all: acct_fin.
Qed.

Definition OutInv (c : cfg) (s : state) : Prop :=
  forall j0, (j0 < nstages c)%nat -> g_out (gate_at (sh s) j0) = total (m_out j0) s.

Lemma total_init0 m c :
  (forall j x, mq m j x = 0) -> mf m (FMain MStart) = 0 -> mf m (FWorker false) = 0 -> total m (init c) = 0.
Proof.
  intros Q F1 F2. unfold total, init, shw, thsw; cbn [sh threads gates bag log]. rewrite gatesw_zero by exact Q. cbn. rewrite F1.
  rewrite sumf_zero; [lia|]. intros x Hx. apply in_map_iff in Hx. destruct Hx as [w [<- _]]. cbn. rewrite F2. lia.
Qed.

Lemma gate_at_init c j : (j < nstages c)%nat -> gate_at (sh (init c)) j = init_gate (stage_at c j).
Proof.
  intros L. unfold gate_at, init, stage_at; cbn [sh gates]. unfold nstages in L.
  rewrite (nth_indep _ dflt_gate (init_gate dflt_sc)) by (rewrite map_length; exact L). apply map_nth.
Qed.

Lemma OutInv_init c : OutInv c (init c).
Proof.
  intros j0 L. rewrite gate_at_init by exact L. cbn [g_out init_gate].
  unfold total, init, shw, thsw; cbn [sh threads gates bag log].
  assert (G : forall k l, gatesw (m_out j0) k (map init_gate l) = 0) by (intros k l; revert k; induction l as [|a l IH]; intros k; cbn; [reflexivity | rewrite IH; reflexivity]).
  rewrite G. cbn. rewrite sumf_zero; [lia|]. intros x Hx. apply in_map_iff in Hx. destruct Hx as [w [<- _]]. reflexivity.
Qed.

Lemma OutInv_mstep c s t ch s' ch' site :
  (0 < nstages c)%nat -> WF c s -> OutInv c s -> mstep c s t ch = Some (s', ch', site) -> OutInv c s'.
Proof.
  intros H0 [WS WT] I H j0 L. apply mstep_inv in H. destruct H as (th & s1 & th1 & wake & N & M & ->).
  assert (Wth : wf_thread c th) by (eapply Forall_nth_error; eauto).
  pose proof (out_local c t (sh s) th ch s1 th1 ch' site wake j0 H0 WS Wth L M) as D.
  pose proof (total_step (m_out j0) (threads s) t th (sh s) s1 th1 wake eq_refl N) as T1.
  specialize (I j0 L). destruct s as [s0 ths]; cbn [sh threads] in *. lia.
Qed.

(* ---------- the completion latch of the generator ---------- *)
Definition m_genc (c : cfg) : meas := MS
  (fun f => match f with
            | FMain MStart => ninst c
            | FMain (MExec g) => ninst c - g
            | FGen pc => bz (gen_live pc)
            | FPool TGen PRun | FPool TGen PSkipGen => 1     (* a skipped task still owns its CompletionGuard *)
            | _ => 0 end)
  (fun _ _ => 0) (fun tk => match tk with TGen => 1 | _ => 0 end) (fun _ => 0).
Definition m_nst : meas := MS (fun f => match f with FGen GNStore => 1 | _ => 0 end) (fun _ _ => 0) (fun _ => 0) (fun _ => 0).

Lemma genc_local c t s th ch s1 th1 ch1 site wake :
  (0 < nstages c)%nat -> wf_shared c s -> wf_thread c th ->
  (forall r, stack th = FGen GNStore :: r -> compl s = 0) ->
  mstep_thread c t s th ch = Some (s1, th1, ch1, site, wake) ->
  dlt (m_genc c) s th s1 th1 = compl s1 - compl s /\
  (compl s1 = 0 \/ (compl s1 = compl s /\ dlt m_nst s th s1 th1 <= 0) \/
   (dlt m_nst s th s1 th1 = 0 /\ exists f r, stack th = f :: r /\ 1 <= mf (m_genc c) f)).
Proof.
  intros H0 [[WL WG] WB] WT NS H. unfold wf_thread in *. unfold dlt. step_cases H th; wf_fin; subst.
  all: try (specialize (NS _ eq_refl)).
  all: try (match goal with |- _ /\ (_ \/ _ \/ (_ /\ exists f r, ?a :: ?b = _ /\ _)) => split; [|first [ left; cbn [compl w_compl]; lia | idtac ]] end).
  all: acct_pre Hst.
  all: rewrite ?(gatesw_zero (m_genc c)), ?(gatesw_zero m_nst) by reflexivity.
  all: rewrite ?(strandw_zero (m_genc c)), ?(strandw_zero m_nst) by (intros; reflexivity).
  all: cbn [mf mq mb me m_genc m_nst compl w_compl].
  all: try (timeout 30 acct_fin).
  all: try (right; left; split; [reflexivity|]; timeout 30 acct_fin).
  all: try (right; right; split; [timeout 30 acct_fin | eexists; eexists; split; [reflexivity | cbn; lia]]).
Qed.

Lemma nonneg_nst : nonneg m_nst.
Proof. repeat split; intros; cbn; nn. Qed.

Lemma top_le_total m s t th f r :
  nonneg m -> nth_error (threads s) t = Some th -> stack th = f :: r -> mf m f <= total m s.
Proof.
  intros N Hn Hs. pose proof N as (F & Q & B & E). unfold total.
  assert (0 <= shw m (sh s)).
  { pose proof (gatesw_nonneg m 0 (gates (sh s)) N). unfold shw, bagw, logw.
    assert (0 <= sumf (fun e => mb m (snd e)) (bag (sh s))) by (apply sumf_nonneg; intros; apply B).
    assert (0 <= sumf (me m) (log (sh s))) by (apply sumf_nonneg; exact E). lia. }
  assert (stackw m (stack th) <= thsw m (threads s)).
  { unfold thsw. apply (sumf_in_le (fun th => stackw m (stack th))); [intros; apply sumf_nonneg; exact F | eapply nth_error_In; eauto]. }
  assert (mf m f <= stackw m (stack th)).
  { rewrite Hs. unfold stackw; cbn. pose proof (sumf_nonneg (mf m) r F). lia. }
  lia.
Qed.

Definition GenInv (c : cfg) (s : state) : Prop :=
  compl (sh s) = total (m_genc c) s /\ (0 < total m_nst s -> compl (sh s) = 0).

Lemma GenInv_init c : GenInv c (init c).
Proof.
  split.
  - unfold total, init, shw, thsw; cbn [sh threads gates bag log compl]. rewrite gatesw_zero by reflexivity. cbn.
    rewrite sumf_zero; [lia|]. intros x Hx. apply in_map_iff in Hx. destruct Hx as [w [<- _]]. reflexivity.
  - rewrite total_init0 by reflexivity. lia.
Qed.

(* the weights of m_genc are non-negative on well-formed states only (MExec g with g <= ninst) *)
Lemma genc_top_le c s t th f r :
  WF c s -> nth_error (threads s) t = Some th -> stack th = f :: r -> mf (m_genc c) f <= total (m_genc c) s.
Proof.
  intros [WS WT] Hn Hs. pose proof (ninst_pos c) as NP. unfold total.
  assert (0 <= shw (m_genc c) (sh s)).
  { unfold shw. rewrite gatesw_zero by reflexivity. unfold bagw, logw.
    assert (0 <= sumf (fun e => mb (m_genc c) (snd e)) (bag (sh s))) by (apply sumf_nonneg; intros [p []]; cbn; lia).
    assert (0 <= sumf (me (m_genc c)) (log (sh s))) by (apply sumf_nonneg; intros; cbn; lia). lia. }
  assert (FN : forall th', In th' (threads s) -> forall f', In f' (stack th') -> 0 <= mf (m_genc c) f').
  { intros th' Ht f' Hf. rewrite Forall_forall in WT. specialize (WT th' Ht). unfold wf_thread in WT. rewrite Forall_forall in WT.
    specialize (WT f' Hf). destruct f'; cbn; try lia; [destruct pc; cbn in *; lia | apply bz_nonneg | destruct tk; try lia; destruct pc; lia]. }
  assert (SN : forall th', In th' (threads s) -> 0 <= stackw (m_genc c) (stack th')).
  { intros th' Ht. unfold stackw. apply sumf_nonneg_in. intros f' Hf. eapply FN; eauto. }
  assert (stackw (m_genc c) (stack th) <= thsw (m_genc c) (threads s)).
  { unfold thsw. apply (sumf_in_le_in (fun th0 => stackw (m_genc c) (stack th0))); [exact SN | eapply nth_error_In; eauto]. }
  assert (mf (m_genc c) f <= stackw (m_genc c) (stack th)).
  { unfold stackw. apply sumf_in_le_in; [intros; eapply FN; eauto using nth_error_In | rewrite Hs; left; reflexivity]. }
  lia.
Qed.

Lemma GenInv_mstep c s t ch s' ch' site :
  (0 < nstages c)%nat -> WF c s -> GenInv c s -> mstep c s t ch = Some (s', ch', site) -> GenInv c s'.
Proof.
  intros H0 W [I1 I2] H. pose proof W as [WS WT]. apply mstep_inv in H. destruct H as (th & s1 & th1 & wake & N & M & ->).
  assert (Wth : wf_thread c th) by (eapply Forall_nth_error; eauto).
  assert (NS : forall r, stack th = FGen GNStore :: r -> compl (sh s) = 0).
  { intros r Hs. apply I2. pose proof (top_le_total m_nst s t th _ r nonneg_nst N Hs) as K. cbn in K. lia. }
  destruct (genc_local c t (sh s) th ch s1 th1 ch' site wake H0 WS Wth NS M) as [D1 D2].
  pose proof (total_step (m_genc c) (threads s) t th (sh s) s1 th1 wake eq_refl N) as T1.
  pose proof (total_step m_nst (threads s) t th (sh s) s1 th1 wake eq_refl N) as T2.
  split; [destruct s as [s0 ths]; cbn [sh threads] in *; lia|].
  intros P. cbn [sh]. destruct D2 as [D2|[[D2 D3]|[D3 (f & r & Hs & Hf)]]]; [exact D2| |].
  - rewrite D2. apply I2. destruct s as [s0 ths]; cbn [sh threads] in *. lia.
  - exfalso. assert (compl (sh s) = 0) by (apply I2; destruct s as [s0 ths]; cbn [sh threads] in *; lia).
    pose proof (genc_top_le c s t th f r W N Hs). lia.
Qed.

Theorem acct_invariants c s :
  (0 < nstages c)%nat -> reach (mstep c) (init c) s -> WF c s /\ PoolInv s /\ OutInv c s /\ GenInv c s.
Proof.
  intros H0 R.
  apply (reach_inv (mstep c) (fun s => WF c s /\ PoolInv s /\ OutInv c s /\ GenInv c s) (init c)); [| | exact R].
  - split; [apply WF_init|]. split; [apply PoolInv_init|]. split; [apply OutInv_init | apply GenInv_init].
  - intros s1 t ch s1' ch' site (W & P & O & G) E.
    split; [eapply WF_mstep; eauto|]. split; [eapply PoolInv_mstep; eauto|]. split; [eapply OutInv_mstep; eauto | eapply GenInv_mstep; eauto].
Qed.
