(* C41: SmallBufferAllocator hands out exclusive aligned blocks -- invariants over ALL interleavings of Model/SmallBufModel.v
   (any number of threads, any programs, any schedule, any central queue satisfying the multiset specification), the refutation of
   lock mutual exclusion (bytesAllocated's compare-exchange retry), and the carving arithmetic. *)
From Coq Require Import ZArith List Bool Lia.
From DV Require Import Base.MachInt Base.Sched Model.SmallBufModel Proofs.SmallBufLemmas.
Import ListNotations.
Local Open Scope Z_scope.

Ltac zb :=
  repeat match goal with
  | H : (_ <=? _) = true |- _ => apply Z.leb_le in H
  | H : (_ <=? _) = false |- _ => apply Z.leb_gt in H
  | H : (_ <? _) = true |- _ => apply Z.ltb_lt in H
  | H : (_ <? _) = false |- _ => apply Z.ltb_ge in H
  | H : (_ =? _) = true |- _ => apply Z.eqb_eq in H
  | H : (_ =? _) = false |- _ => apply Z.eqb_neq in H
  end.

Section Spec.
  Variable Q : Type.
  Variable qenq : Q -> list Z -> Q.
  Variable qdeq : Q -> nat -> list Z -> list Z * Q.
  Variable qcont : Q -> list Z.
  Variable c : cfg.
  (* the multiset specification of the central store: enqueue adds exactly the given blocks, dequeue removes exactly the returned
     ones (whatever the oracle says); nothing is required about WHICH blocks or HOW MANY are returned *)
  Hypothesis enq_spec : forall q l b, cnt b (qcont (qenq q l)) = (cnt b (qcont q) + cnt b l)%nat.
  Hypothesis deq_spec : forall q n h l q', qdeq q n h = (l, q') -> forall b, cnt b (qcont q) = (cnt b l + cnt b (qcont q'))%nat.
  Hypothesis cfg_ok : 0 < ideal c <= pm c.

  Notation stepQ := (step Q qenq qdeq c).
  Notation allb := (all_blocks Q qcont c).
  Notation stateQ := (state Q).
  Notation ownedc := (owned c).

  Definition nsl (s : stateQ) : Z := Z.of_nat (length (backing s)).

  Definition wf_th (th : thread) : Prop :=
    match tpc th with
    | PGrabDeq | PGrabFadd | PGrabSpin | PGrabPush | PGrabEnq _ | PGrabStore _ => cache th = []
    | _ => True
    end.

  (* every block of every carved slab is in EXACTLY ONE place (user / central store / a thread), and nothing else exists *)
  Definition BInv (s : stateQ) : Prop :=
    Forall wf_th (threads s) /\
    forall b, cnt b (allb s) = if (0 <=? b) && (b <? nsl s * pm c) then 1%nat else O.

  Lemma allb_mk lk bk q us mo ths b :
    cnt b (allb (mk Q lk bk q us mo ths)) = (cnt b us + cnt b (qcont q) + cnt b (flat_map ownedc ths))%nat.
  Proof. unfold all_blocks, mk. cbn [user central threads]. rewrite !cnt_app. lia. Qed.

  Lemma allb_eq (s : stateQ) b :
    cnt b (allb s) = (cnt b (user s) + cnt b (qcont (central s)) + cnt b (flat_map ownedc (threads s)))%nat.
  Proof. unfold all_blocks. rewrite !cnt_app. lia. Qed.

  Lemma nsl_mk lk bk q us mo ths : nsl (mk Q lk bk q us mo ths) = Z.of_nat (length bk).
  Proof. reflexivity. Qed.

  Lemma owned_next th : ownedc (next th) = cache th.
  Proof. unfold owned, next. destruct (prog th); cbn; apply app_nil_r. Qed.
  Lemma owned_goto th p : ownedc (goto th p) = cache th ++ pending c p.
  Proof. reflexivity. Qed.
  Lemma owned_eq th : ownedc th = cache th ++ pending c (tpc th).
  Proof. reflexivity. Qed.
  Lemma wf_next th : wf_th (next th).
  Proof. unfold wf_th, next. destruct (prog th); cbn; exact I. Qed.
  Lemma cache_next th : cache (next th) = cache th.
  Proof. unfold next. destruct (prog th); reflexivity. Qed.

  Lemma length_nonnil {A} (l : list A) : (0 < length l)%nat -> l <> [].
  Proof. destruct l; cbn; [lia | discriminate]. Qed.

  Ltac own P := rewrite ?owned_next; unfold owned; cbn [cache tpc goto logr logl setc setreg]; rewrite ?P; cbn [pending];
                rewrite ?app_nil_r, ?cnt_app, ?cnt_nil.

  Lemma step_blocks s t ch s' ch' site : BInv s -> stepQ s t ch = Some (s', ch', site) -> BInv s'.
  Proof.
    intros [W B] E. unfold step in E. destruct (nth_error (threads s) t) as [th|] eqn:N; [|discriminate].
    assert (Wth : wf_th th) by (rewrite Forall_forall in W; apply W; eapply nth_error_In; eauto).
    pose (us0 := user s). assert (Hus0 : us0 = user s) by reflexivity. clearbody us0.
    assert (KEY : forall th' us q (bk : list Z) lk mo,
              wf_th th' ->
              (forall b, (cnt b us + cnt b (qcont q) + cnt b (ownedc th') =
                          cnt b us0 + cnt b (qcont (central s)) + cnt b (ownedc th))%nat) ->
              length bk = length (backing s) ->
              BInv (mk Q lk bk q us mo (set_nth (threads s) t th'))).
    { intros th' us q bk lk mo W' Hc Hl. split.
      - unfold mk; cbn [threads]. apply Forall_set_nth; assumption.
      - intros b. rewrite allb_mk. pose proof (cnt_flat_map_set_nth ownedc _ _ th' _ b N) as HF.
        specialize (B b). rewrite allb_eq in B. specialize (Hc b). rewrite nsl_mk, Hl. fold (nsl s). rewrite Hus0 in Hc. lia. }
    unfold wf_th in Wth. destruct (tpc th) eqn:P.
    - (* PStart *) injection E as <- _ _. apply KEY; [apply wf_next | | reflexivity].
      intros b. rewrite Hus0. own P. lia.
    - discriminate.
    - (* POp *) destruct o.
      + (* alloc *) destruct (cache th) as [|x l] eqn:C.
        * injection E as <- _ _. apply KEY; [unfold wf_th; cbn; exact C | | reflexivity].
          intros b. rewrite Hus0. own P. rewrite C. rewrite ?cnt_nil. lia.
        * unfold pop_cache in E. injection E as <- _ _. apply KEY; [apply wf_next | | reflexivity].
          intros b. rewrite Hus0. own P. rewrite C.
          rewrite (cnt_removelast_last (x :: l) b) by discriminate. lia.
      + (* dealloc *) destruct (user s) as [|u0 us] eqn:U.
        * injection E as <- _ _. apply KEY; [apply wf_next | | reflexivity].
          intros b. rewrite Hus0. own P. lia.
        * rewrite <- U in E, Hus0.
          assert (Hi : (Z.to_nat (k mod Z.of_nat (length (user s))) < length (user s))%nat).
          { assert (0 < Z.of_nat (length (user s))) by (rewrite U; cbn [length]; lia).
            pose proof (Z.mod_pos_bound k _ H). lia. }
          injection E as <- _ _.
          set (i := Z.to_nat (k mod Z.of_nat (length (user s)))) in *.
          match goal with |- context [set_nth _ _ ?x] => set (th2 := x) end.
          assert (O2 : ownedc th2 = cache th ++ [nth i (user s) 0]).
          { subst th2. match goal with |- context [if ?bb then _ else _] => destruct bb end.
            - unfold owned. cbn. apply app_nil_r.
            - rewrite owned_next. reflexivity. }
          assert (W2 : wf_th th2).
          { subst th2. match goal with |- context [if ?bb then _ else _] => destruct bb end; [exact I | apply wf_next]. }
          apply KEY; [exact W2 | | reflexivity].
          intros b. rewrite Hus0. rewrite O2. own P.
          rewrite (cnt_remove_nth (user s) i Hi b). lia.
      + (* bytes *) injection E as <- _ _. apply KEY; [exact I | | reflexivity].
        intros b. rewrite Hus0. own P. lia.
      + (* exit *) injection E as <- _ _. destruct (reg th); (apply KEY; [try exact I; apply wf_next | | reflexivity]);
          intros b; rewrite Hus0; own P; lia.
    - (* PGrabDeq *) destruct (take_hint ch) as [h ch1]. destruct (qdeq (central s) (Z.to_nat (ideal c)) h) as [l q'] eqn:D.
      pose proof (deq_spec _ _ _ _ _ D) as DS. destruct l as [|x l].
      + injection E as <- _ _. apply KEY; [exact Wth | | reflexivity].
        intros b. rewrite Hus0. specialize (DS b). own P. rewrite Wth. rewrite ?cnt_nil in *. lia.
      + assert (Hne : x :: l <> []) by discriminate. remember (x :: l) as xl eqn:Hxl. clear Hxl.
        unfold pop_cache in E. injection E as <- _ _. apply KEY; [apply wf_next | | reflexivity].
        intros b. rewrite Hus0. specialize (DS b). own P. rewrite Wth. rewrite ?cnt_nil.
        rewrite (cnt_removelast_last xl b Hne) in DS. lia.
    - (* PGrabFadd *) injection E as <- _ _. apply KEY; [|intros b; rewrite Hus0 | reflexivity].
      + unfold wf_th. cbn. destruct (lock s =? 0); exact Wth.
      + destruct (lock s =? 0); own P; lia.
    - (* PGrabSpin *) injection E as <- _ _. apply KEY; [|intros b; rewrite Hus0 | reflexivity].
      + unfold wf_th. cbn. destruct (lock s =? 0); exact Wth.
      + destruct (lock s =? 0); own P; lia.
    - (* PGrabPush: a new slab *) injection E as <- _ _. split.
      + unfold mk; cbn [threads]. apply Forall_set_nth; [exact W | exact Wth].
      + intros b. rewrite allb_mk. rewrite nsl_mk, app_length. cbn [length].
        replace (Z.of_nat (length (backing s) + 1)) with (nsl s + 1) by (unfold nsl; lia). fold (nsl s).
        match goal with |- context [set_nth _ _ ?x] => pose proof (cnt_flat_map_set_nth ownedc _ _ x _ b N) as HF end.
        specialize (B b). rewrite allb_eq in B. rewrite owned_goto, (owned_eq th), P, Wth in HF.
        cbn [pending app] in HF. rewrite cnt_chunks in HF. rewrite Z2Nat.id in HF by lia. rewrite cnt_nil in HF.
        replace ((nsl s + 1) * pm c) with (nsl s * pm c + pm c) by ring.
        assert (0 <= nsl s) by (unfold nsl; lia). assert (0 <= nsl s * pm c) by (apply Z.mul_nonneg_nonneg; lia).
        destruct (0 <=? b) eqn:A1; destruct (b <? nsl s * pm c) eqn:A2; destruct (nsl s * pm c + 0 <=? b) eqn:A3;
          destruct (b <? nsl s * pm c + 0 + pm c) eqn:A4; destruct (b <? nsl s * pm c + pm c) eqn:A5; cbn [andb] in *; zb; try lia.
    - (* PGrabEnq *) injection E as <- _ _. apply KEY; [exact Wth | | reflexivity].
      intros b. rewrite Hus0. rewrite enq_spec. own P. rewrite Wth. rewrite ?cnt_nil.
      replace (Z.to_nat (pm c)) with (Z.to_nat (npush c) + Z.to_nat (ideal c))%nat by (unfold npush; lia).
      rewrite chunks_split, cnt_app. rewrite Z2Nat.id by (unfold npush; lia). lia.
    - (* PGrabStore *) unfold pop_cache in E. injection E as <- _ _. apply KEY; [apply wf_next | | reflexivity].
      intros b. rewrite Hus0. own P. rewrite Wth. rewrite ?cnt_nil.
      rewrite (cnt_removelast_last (chunks c slab (npush c) (Z.to_nat (ideal c))) b); [lia|].
      apply length_nonnil. rewrite length_chunks. lia.
    - (* PRecycle *) injection E as <- _ _. apply KEY; [apply wf_next | | reflexivity].
      intros b. rewrite Hus0. rewrite enq_spec. own P.
      rewrite (cnt_firstn_skipn (Z.to_nat (ideal c)) (cache th) b). lia.
    - (* PBytesCas *) destruct (lock s =? a); injection E as <- _ _; (apply KEY; [exact I | | reflexivity]);
        intros b; rewrite Hus0; own P; lia.
    - (* PBytesSize *) injection E as <- _ _. apply KEY; [exact I | | reflexivity]. intros b; rewrite Hus0; own P; lia.
    - (* PBytesStore *) injection E as <- _ _. apply KEY; [apply wf_next | | reflexivity].
      intros b. rewrite Hus0. own P. lia.
    - (* PExitFlush *) injection E as <- _ _. apply KEY; [apply wf_next | | reflexivity].
      intros b. rewrite Hus0. rewrite enq_spec. own P. lia.
  Qed.

  Lemma init_BInv q0 progs : qcont q0 = [] -> BInv (init Q q0 progs).
  Proof.
    intros H0. split.
    - unfold init; cbn. apply Forall_forall. intros th Hth. apply in_map_iff in Hth. destruct Hth as [p [<- _]]. exact I.
    - intros b. unfold all_blocks, init, nsl. cbn. rewrite H0. cbn.
      assert (F : forall l : list (list op), flat_map ownedc (map (fun p => TH PStart p [] [] false) l) = []) by (induction l; cbn; auto).
      rewrite F. destruct (0 <=? b) eqn:A1; destruct (b <? 0) eqn:A2; cbn; zb; try reflexivity; lia.
  Qed.

  Theorem reach_BInv q0 progs s : qcont q0 = [] -> reach stepQ (init Q q0 progs) s -> BInv s.
  Proof.
    intros H0 R. apply (reach_inv stepQ BInv (init Q q0 progs)); [apply init_BInv; exact H0 | | exact R].
    intros s1 t ch s1' ch' site I E. eapply step_blocks; eauto.
  Qed.

  (* ---------- blocks_exclusive ---------- *)
  Theorem blocks_exclusive q0 progs s : qcont q0 = [] -> reach stepQ (init Q q0 progs) s -> NoDup (allb s).
  Proof.
    intros H0 R. destruct (reach_BInv _ _ _ H0 R) as [_ B]. apply NoDup_cnt. intros b. rewrite B.
    destruct ((0 <=? b) && (b <? nsl s * pm c)); lia.
  Qed.

  (* nothing is lost either: every chunk of every slab is somewhere, and only those *)
  Theorem blocks_conserved q0 progs s b : qcont q0 = [] -> reach stepQ (init Q q0 progs) s ->
    In b (allb s) <-> 0 <= b < nsl s * pm c.
  Proof.
    intros H0 R. destruct (reach_BInv _ _ _ H0 R) as [_ B]. rewrite cnt_In, B.
    destruct (0 <=? b) eqn:A1; destruct (b <? nsl s * pm c) eqn:A2; cbn; zb; split; intros; lia.
  Qed.

  (* ---------- no_reissue_before_dealloc: whenever a step hands a block to a user, that block is not live ---------- *)
  Theorem no_reissue_before_dealloc q0 progs s t ch s' ch' site b :
    qcont q0 = [] -> reach stepQ (init Q q0 progs) s -> stepQ s t ch = Some (s', ch', site) ->
    user s' = user s ++ [b] -> ~ In b (user s) /\ NoDup (user s').
  Proof.
    intros H0 R E U.
    assert (R' : reach stepQ (init Q q0 progs) s') by (eapply reach_step; eauto).
    pose proof (blocks_exclusive _ _ _ H0 R') as ND. unfold all_blocks in ND. apply NoDup_app_l in ND.
    split; [|exact ND]. rewrite U in ND. apply NoDup_snoc_notin. exact ND.
  Qed.

  (* ---------- lock mutual exclusion, for ALL programs (bytesAllocated included) ---------- *)
  (* the expected value of bytesAllocated's compare-exchange is always 0 (the retry loop resets it) *)
  Definition wf_cas (th : thread) : Prop := match tpc th with PBytesCas a => a = 0 | _ => True end.
  (* threads that have incremented / set the lock word since it was last 0: holders and spinners *)
  Definition inc_pc (p : pc) : bool :=
    match p with PGrabPush | PGrabEnq _ | PGrabStore _ | PGrabSpin | PBytesSize | PBytesStore _ => true | _ => false end.
  Definition incn (ths : list thread) : Z := Z.of_nat (length (filter (fun th => inc_pc (tpc th)) ths)).

  Definition LInv (s : stateQ) : Prop :=
    Forall wf_cas (threads s) /\ Z.of_nat (length (threads s)) < 2 ^ 32 /\
    occ (threads s) <= 1 /\ (occ (threads s) = 1 -> 1 <= lock s) /\ 0 <= lock s <= incn (threads s) /\ maxocc s <= 1.

  Lemma wc_next th : wf_cas (next th).
  Proof. unfold wf_cas, next. destruct (prog th); cbn; exact I. Qed.

  Lemma next_flags th : in_cs (tpc (next th)) = false /\ inc_pc (tpc (next th)) = false.
  Proof. unfold next. destruct (prog th); cbn; auto. Qed.
  Ltac nxt := match goal with |- context [next ?y] => destruct (next_flags y) as [F1 F2]; rewrite F1, F2 end.

  Ltac finl := cbv zeta; cbn [in_cs inc_pc b2z tpc goto]; intros; repeat split; intros; lia.

  Lemma step_lock s t ch s' ch' site : LInv s -> stepQ s t ch = Some (s', ch', site) -> LInv s'.
  Proof.
    intros (NB & Hn & Ho & Hl & Hr & Hm) E. unfold step in E. destruct (nth_error (threads s) t) as [th|] eqn:N; [|discriminate].
    assert (Wc : wf_cas th) by (rewrite Forall_forall in NB; apply NB; eapply nth_error_In; eauto).
    assert (KEY : forall th' lk bk q us,
              wf_cas th' ->
              (let o' := occ (threads s) - b2z (in_cs (tpc th)) + b2z (in_cs (tpc th')) in
               let i' := incn (threads s) - b2z (inc_pc (tpc th)) + b2z (inc_pc (tpc th')) in
               i' <= Z.of_nat (length (threads s)) -> o' <= 1 /\ (o' = 1 -> 1 <= lk) /\ 0 <= lk <= i') ->
              LInv (mk Q lk bk q us (maxocc s) (set_nth (threads s) t th'))).
    { intros th' lk bk q us NB' H.
      pose proof (filter_len_set_nth (fun th0 => in_cs (tpc th0)) _ _ th' _ N) as F1.
      pose proof (filter_len_set_nth (fun th0 => inc_pc (tpc th0)) _ _ th' _ N) as F2.
      pose proof (filter_len_le (fun th0 => inc_pc (tpc th0)) (set_nth (threads s) t th')) as F3. rewrite length_set_nth in F3.
      unfold LInv, mk. cbn [threads lock maxocc]. unfold occ, incn in *. rewrite F1, F2. rewrite length_set_nth.
      cbn zeta in H. specialize (H ltac:(lia)). destruct H as (A1 & A2 & A3).
      split; [apply Forall_set_nth; assumption|]. repeat split; try lia. }
    pose proof (filter_len_ge (fun th0 => in_cs (tpc th0)) _ _ _ N) as Ho1. fold (occ (threads s)) in Ho1.
    pose proof (filter_len_ge (fun th0 => inc_pc (tpc th0)) _ _ _ N) as Hi1. fold (incn (threads s)) in Hi1. cbv beta in Ho1, Hi1.
    assert (Hi0 : 0 <= incn (threads s)) by (unfold incn; lia).
    assert (Ho0 : 0 <= occ (threads s)) by (unfold occ; lia).
    unfold wf_cas in Wc.
    destruct (tpc th) eqn:P; cbn [in_cs inc_pc b2z] in Ho1, Hi1.
    - (* PStart *) injection E as <- _ _. apply KEY; [apply wc_next|]. nxt; finl.
    - discriminate.
    - (* POp *) destruct o.
      + destruct (cache th) as [|x l].
        * injection E as <- _ _. apply KEY; [exact I|]. finl.
        * unfold pop_cache in E. injection E as <- _ _. apply KEY; [apply wc_next|]. nxt; finl.
      + destruct (user s) as [|u0 us] eqn:U.
        * injection E as <- _ _. rewrite <- U. apply KEY; [apply wc_next|]. nxt; finl.
        * rewrite <- U in E. injection E as <- _ _.
          match goal with |- context [set_nth _ _ ?x] => set (th2 := x) end.
          assert (T2 : wf_cas th2 /\ in_cs (tpc th2) = false /\ inc_pc (tpc th2) = false).
          { subst th2. match goal with |- context [if ?bb then _ else _] => destruct bb end.
            - repeat split.
            - split; [apply wc_next | apply next_flags]. }
          destruct T2 as (T2 & T3 & T4). apply KEY; [exact T2 | rewrite T3, T4; finl].
      + (* bytes *) injection E as <- _ _. apply KEY; [reflexivity|]. finl.
      + destruct (reg th); injection E as <- _ _.
        * apply KEY; [exact I|]. finl.
        * apply KEY; [apply wc_next|]. nxt; finl.
    - (* PGrabDeq *) destruct (take_hint ch) as [h ch1]. destruct (qdeq (central s) (Z.to_nat (ideal c)) h) as [l q']. destruct l as [|x l].
      + injection E as <- _ _. apply KEY; [exact I|]. finl.
      + unfold pop_cache in E. injection E as <- _ _. apply KEY; [apply wc_next|]. nxt; finl.
    - (* PGrabFadd *) injection E as <- _ _. destruct (lock s =? 0) eqn:L0; zb.
      + apply KEY; [exact I|]. rewrite L0. change (wrap 32 (0 + 1)) with 1. finl.
      + apply KEY; [exact I|]. cbv zeta; cbn [in_cs inc_pc b2z tpc goto]; intros Hb. rewrite wrap_small by lia. repeat split; intros; lia.
    - (* PGrabSpin *) injection E as <- _ _. destruct (lock s =? 0) eqn:L0; zb.
      + apply KEY; [exact I|]. finl.
      + apply KEY; [exact I|]. finl.
    - (* PGrabPush *) injection E as <- _ _. apply KEY; [exact I|]. finl.
    - (* PGrabEnq *) injection E as <- _ _. apply KEY; [exact I|]. finl.
    - (* PGrabStore *) unfold pop_cache in E. injection E as <- _ _. apply KEY; [apply wc_next|]. nxt; finl.
    - (* PRecycle *) injection E as <- _ _. apply KEY; [apply wc_next|]. nxt; finl.
    - (* PBytesCas: the expected value is 0, so it succeeds only on a free lock *) subst a. destruct (lock s =? 0) eqn:L0; injection E as <- _ _; zb.
      + apply KEY; [exact I|]. finl.
      + apply KEY; [reflexivity|]. finl.
    - (* PBytesSize *) injection E as <- _ _. apply KEY; [exact I|]. finl.
    - (* PBytesStore *) injection E as <- _ _. apply KEY; [apply wc_next|]. nxt; finl.
    - (* PExitFlush *) injection E as <- _ _. apply KEY; [apply wc_next|]. nxt; finl.
  Qed.

  Lemma init_LInv q0 progs : Z.of_nat (length progs) < 2 ^ 32 -> LInv (init Q q0 progs).
  Proof.
    intros Hn. unfold LInv, init. cbn [threads lock maxocc].
    assert (F1 : forall l : list (list op), filter (fun th => in_cs (tpc th)) (map (fun p => TH PStart p [] [] false) l) = []) by (induction l; cbn; auto).
    assert (F2 : forall l : list (list op), filter (fun th => inc_pc (tpc th)) (map (fun p => TH PStart p [] [] false) l) = []) by (induction l; cbn; auto).
    unfold occ, incn. rewrite F1, F2, map_length. cbn. repeat split; try lia.
    apply Forall_forall. intros th Hth. apply in_map_iff in Hth. destruct Hth as [p [<- Hp]]. exact I.
  Qed.

  (* lock_mutual_exclusion: at most one thread is ever between a successful acquisition of backingStoreLock (fetch_add that
     returned 0, or compare-exchange 0 -> 1) and its store(0) -- any programs, any schedule, any queue, any class *)
  Theorem lock_mutual_exclusion q0 progs s :
    Z.of_nat (length progs) < 2 ^ 32 -> reach stepQ (init Q q0 progs) s ->
    occ (threads s) <= 1 /\ maxocc s <= 1 /\ (occ (threads s) = 1 -> 1 <= lock s).
  Proof.
    intros Hn R.
    assert (L : LInv s).
    { apply (reach_inv stepQ LInv (init Q q0 progs)); [apply init_LInv; assumption | | exact R].
      intros s1 t ch s1' ch' site I E. eapply step_lock; eauto. }
    destruct L as (_ & _ & A & C & _ & B). repeat split; assumption.
  Qed.
End Spec.

(* ---------- the two queue implementations satisfy the specification ---------- *)
Lemma lq_enq_spec q l b : cnt b (lq_cont (lq_enq q l)) = (cnt b (lq_cont q) + cnt b l)%nat.
Proof. unfold lq_cont, lq_enq. apply cnt_app. Qed.

Lemma lq_deq_spec q n h l q' : lq_deq q n h = (l, q') -> forall b, cnt b (lq_cont q) = (cnt b l + cnt b (lq_cont q'))%nat.
Proof. unfold lq_deq, lq_cont. intros E b. injection E as <- <-. apply cnt_firstn_skipn. Qed.

Lemma remove_one_spec x : forall l l', remove_one x l = Some l' -> forall b, cnt b l = (cnt b [x] + cnt b l')%nat.
Proof.
  induction l as [|y r IH]; intros l' E b; cbn in E; [discriminate|].
  destruct (y =? x) eqn:Y.
  - apply Z.eqb_eq in Y. subst y. injection E as <-. change (x :: r) with ([x] ++ r). apply cnt_app.
  - destruct (remove_one x r) as [r'|] eqn:R; [|discriminate]. injection E as <-.
    change (y :: r) with ([y] ++ r). change (y :: r') with ([y] ++ r'). rewrite !cnt_app. rewrite (IH _ eq_refl b). lia.
Qed.

Lemma remove_all_spec : forall h l l', remove_all h l = Some l' -> forall b, cnt b l = (cnt b h + cnt b l')%nat.
Proof.
  induction h as [|x r IH]; intros l l' E b; cbn in E.
  - injection E as <-. cbn. lia.
  - destruct (remove_one x l) as [l1|] eqn:R; [|discriminate].
    change (x :: r) with ([x] ++ r). rewrite cnt_app. rewrite (remove_one_spec _ _ _ R b). rewrite (IH _ _ E b). lia.
Qed.

Lemma oq_deq_spec q n h l q' : oq_deq q n h = (l, q') -> forall b, cnt b (lq_cont q) = (cnt b l + cnt b (lq_cont q'))%nat.
Proof.
  unfold oq_deq. intros E b. destruct h as [|x r].
  - destruct q as [|y q0]; [injection E as <- <-; reflexivity | eapply lq_deq_spec; exact E].
  - destruct (length (x :: r) <=? n)%nat; [|eapply lq_deq_spec; exact E].
    destruct (remove_all (x :: r) q) as [q1|] eqn:R; [|eapply lq_deq_spec; exact E].
    injection E as <- <-. unfold lq_cont. apply (remove_all_spec _ _ _ R).
Qed.

(* ---------- regression: the schedule that used to break lock mutual exclusion ---------- *)
(* Before the repair (bytesAllocated retried its compare-exchange with the observed value): T0 inside grabFromCentralStore's
   critical section, T1's second compare-exchange succeeded (occupancy 2), its store(0) released T0's lock and T2's fetch_add
   returned 0.  On the repaired code the same decisions leave T1 retrying with expected value 0 and T2 spinning. *)
Definition c4k : cfg := cfg_of_chunk 4096.
Definition regress_progs : list (list op) := [[OAlloc; OExit]; [OBytes; OExit]; [OAlloc; OExit]].
(* decisions; the 0 following the decision of a dequeue step is that step's oracle "0 blocks" *)
Definition regress_sched : list Z := [0; 0; 0; 0; 0;   1; 1; 1; 1; 1; 1;   2; 2; 2; 0; 2].
Definition stepL := step (list Z) lq_enq oq_deq c4k.
Definition regress_state : state (list Z) :=
  fst (fst (run stepL (cands (list Z)) (finished (list Z)) 15 (init (list Z) [] regress_progs) regress_sched [])).

Lemma regress_run :
  map tpc (threads regress_state) = [PGrabPush; PBytesCas 0; PGrabSpin] /\ occ (threads regress_state) = 1 /\
  maxocc regress_state = 1 /\ lock regress_state = 2.
Proof. vm_compute. repeat split; reflexivity. Qed.

(* ---------- blocks_sized_aligned: the carving arithmetic ---------- *)
Section Carve.
  Variable c : cfg.
  Variable chunk : Z.
  Variable base : Z -> Z.                       (* address of slab k = what alignedMalloc(kMallocBytes, kChunkSize) returned *)
  Hypothesis chunk_pos : 0 < chunk.
  Hypothesis pm_pos : 0 < pm c.
  Hypothesis fits : pm c * chunk <= mbytes c.     (* kBuffersPerMalloc = kMallocBytes / kChunkSize *)
  Hypothesis base_aligned : forall k, base k mod chunk = 0.                       (* alignedMalloc's contract *)
  Hypothesis slabs_disjoint : forall k k', k <> k' -> base k + mbytes c <= base k' \/ base k' + mbytes c <= base k.

  (* address of block id b = slab * pm + idx:   buffer + idx * kChunkSize *)
  Definition addr (b : Z) : Z := base (b / pm c) + (b mod pm c) * chunk.

  Theorem block_aligned b : addr b mod chunk = 0.
  Proof. unfold addr. rewrite Z.mod_add by lia. apply base_aligned. Qed.

  Theorem block_within_slab b :
    base (b / pm c) <= addr b /\ addr b + chunk <= base (b / pm c) + mbytes c.
  Proof.
    unfold addr. pose proof (Z.mod_pos_bound b (pm c) pm_pos) as M. split; [nia|].
    assert ((b mod pm c + 1) * chunk <= pm c * chunk) by (apply Z.mul_le_mono_nonneg_r; lia). lia.
  Qed.

  Theorem blocks_disjoint b b' : b <> b' -> addr b + chunk <= addr b' \/ addr b' + chunk <= addr b.
  Proof.
    intros D. destruct (Z.eq_dec (b / pm c) (b' / pm c)) as [E|E].
    - assert (M : b mod pm c <> b' mod pm c).
      { intros M. apply D. rewrite (Z.div_mod b (pm c)), (Z.div_mod b' (pm c)) by lia. rewrite E, M. reflexivity. }
      unfold addr. rewrite E. destruct (Z_lt_le_dec (b mod pm c) (b' mod pm c)) as [L|L]; [left | right].
      + assert ((b mod pm c + 1) * chunk <= (b' mod pm c) * chunk) by (apply Z.mul_le_mono_nonneg_r; lia). lia.
      + assert ((b' mod pm c + 1) * chunk <= (b mod pm c) * chunk) by (apply Z.mul_le_mono_nonneg_r; lia). lia.
    - pose proof (block_within_slab b). pose proof (block_within_slab b'). destruct (slabs_disjoint _ _ E); [left | right]; lia.
  Qed.
End Carve.

(* the class constants computed as in the header for every class the library instantiates (4..256) and the three extra classes
   the harness instantiates (2048, 4096, 8192): positive, ideal <= per-malloc, the slab holds per-malloc chunks *)
Definition class_ok (chunk : Z) : bool :=
  let c := cfg_of_chunk chunk in
  (0 <? ideal c) && (ideal c <=? pm c) && (pm c * chunk <=? mbytes c) && (2 * ideal c <=? pm c).

Lemma classes_ok : forallb class_ok [4; 8; 16; 32; 64; 128; 256; 2048; 4096; 8192] = true.
Proof. vm_compute. reflexivity. Qed.

(* a request of N bytes (N a power of two, 1 <= N <= 256, as allocSmallBuffer<N> requires) is served by a class whose chunk
   size is at least N and a multiple of N -- so a chunk-aligned block is N-aligned and large enough *)
Lemma class_serves_request k : 0 <= k <= 8 ->
  let n := 2 ^ k in n <= class_chunk n /\ class_chunk n mod n = 0 /\ In (class_chunk n) [4; 8; 16; 32; 64; 128; 256].
Proof.
  intros H. assert (k = 0 \/ k = 1 \/ k = 2 \/ k = 3 \/ k = 4 \/ k = 5 \/ k = 6 \/ k = 7 \/ k = 8) as C by lia.
  destruct C as [->|[->|[->|[->|[->|[->|[->|[->| ->]]]]]]]]; vm_compute; repeat split; try discriminate; auto 10.
Qed.

Lemma aligned_to_divisor a chunk n : 0 < n -> chunk mod n = 0 -> a mod chunk = 0 -> a mod n = 0.
Proof.
  intros Hn H1 H2. apply Z.mod_divide in H1; [|lia].
  destruct (Z.eq_dec chunk 0) as [->|Hc].
  - rewrite Zmod_0_r in H2. subst a. apply Z.mod_0_l. lia.
  - apply Z.mod_divide in H2; [|exact Hc]. apply Z.mod_divide; [lia|]. eapply Z.divide_trans; eauto.
Qed.

Theorem sb_run_reach Q qenq qdeq c fuel q0 progs sched :
  reach (step Q qenq qdeq c) (init Q q0 progs) (fst (fst (run_sb Q qenq qdeq c fuel q0 progs sched))).
Proof. apply run_reach. apply reach_refl. Qed.
