(* C28: pipeline stages never exceed their concurrency limit -- slot accounting of LimitGatedScheduler over all interleavings,
   any number of stages / items / threads, every queue policy and every inline policy of the task set (Model/PipelineModel.v). *)
From Coq Require Import ZArith List Bool Lia.
From DV Require Import Base.MachInt Base.Sched Model.PipelineModel Proofs.PipelineProofs.
Import ListNotations.
Local Open Scope Z_scope.

(* "hard" slot holders of stage j0: a thread between a fetch_sub that returned > 0 and its dispatch / its fetch_add (schedule's
   try_dequeue), every dispatched task of the stage that has not yet released or handed over its slot (in the pool bag, popped but
   not started, running), and the slots lost for good: tasks skipped by the cancelled packageTask wrapper (log kind 8) *)
Definition m_hard (j0 : nat) : meas := MS
  (fun f => match f with
            | FGen (GSched _ SDeq) => bz (Nat.eqb j0 0)
            | FTask _ j _ (TSched SDeq) _ => bz (Nat.eqb j0 (S j))
            | FTask true j _ pc a => bz (Nat.eqb j0 j && tok_pc pc a)
            | FPool (TL j _) PRun => bz (Nat.eqb j0 j)
            | _ => 0 end)
  (fun _ _ => 0)
  (fun tk => match tk with TL j _ => bz (Nat.eqb j0 j) | _ => 0 end)
  (fun e => bz ((e_kind e =? 8) && (e_j e =? Z.of_nat j0))).
(* "soft" holders: threads between a fetch_sub and the fetch_add that undoes it *)
Definition m_soft (j0 : nat) : meas := MS
  (fun f => match f with
            | FGen (GSched _ SAdd) => bz (Nat.eqb j0 0)
            | FTask _ j _ (TSched SAdd) _ => bz (Nat.eqb j0 (S j))
            | FMain (MWait j WAdd _) => bz (Nat.eqb j0 j)
            | _ => 0 end)
  (fun _ _ => 0) (fun _ => 0) (fun _ => 0).
(* invocations of stage j0's user function in progress *)
Definition m_inflight (j0 : nat) : meas := MS
  (fun f => match f with FTask _ j _ TBody _ => bz (Nat.eqb j0 j) | _ => 0 end) (fun _ _ => 0) (fun _ => 0) (fun _ => 0).

Ltac nn := repeat match goal with |- context [match ?x with _ => _ end] => destruct x end; try apply bz_nonneg; try lia.
Lemma nonneg_hard j0 : nonneg (m_hard j0).
Proof. repeat split; intros; cbn; nn. Qed.
Lemma nonneg_soft j0 : nonneg (m_soft j0).
Proof. repeat split; intros; cbn; nn. Qed.

Lemma tok_local c t s th ch s1 th1 ch1 site wake j0 :
  (0 < nstages c)%nat -> wf_shared c s -> wf_thread c th -> (j0 < nstages c)%nat ->
  mstep_thread c t s th ch = Some (s1, th1, ch1, site, wake) ->
  dlt (m_hard j0) s th s1 th1 + dlt (m_soft j0) s th s1 th1 = g_res (gate_at s j0) - g_res (gate_at s1 j0) /\
  (dlt (m_hard j0) s th s1 th1 <= 0 \/ (dlt (m_hard j0) s th s1 th1 = 1 /\ 0 < g_res (gate_at s j0))).
Proof.
  intros H0 [[WL WG] WB] WT J0 H. unfold wf_thread in *. unfold dlt. step_cases H th; wf_fin; subst.
  all: acct_pre Hst.
  all: rewrite ?(gatesw_zero (m_hard j0)), ?(gatesw_zero (m_soft j0)) by reflexivity.
  all: rewrite ?(strandw_zero (m_hard j0)), ?(strandw_zero (m_soft j0)) by (intros; reflexivity).
  all: cbn [mf mq mb me m_hard m_soft tok_pc].
  all: acct_fin.
Qed.

(* the slot invariant: resources_ + holders = limit, and the hard holders alone never exceed the limit *)
Definition TokInv (c : cfg) (s : state) : Prop :=
  forall j0, (j0 < nstages c)%nat ->
    g_res (gate_at (sh s) j0) + total (m_hard j0) s + total (m_soft j0) s = lim_of (stage_at c j0) /\
    total (m_hard j0) s <= lim_of (stage_at c j0).

Lemma total_init_zero m c :
  (forall f, mf m f = 0) -> total m (init c) = 0.
Proof.
  intros F. unfold total, init, shw, thsw; cbn [sh threads gates bag log].
  assert (G : forall k l, gatesw m k (map init_gate l) = 0) by (intros k l; revert k; induction l as [|a l IH]; intros k; cbn; [reflexivity | rewrite IH; reflexivity]).
  rewrite G. cbn. rewrite F. rewrite sumf_zero; [lia|]. intros x Hx. apply in_map_iff in Hx. destruct Hx as [w [<- _]]. cbn. rewrite F. lia.
Qed.

Lemma gate_at_init c j : (j < nstages c)%nat -> gate_at (sh (init c)) j = init_gate (stage_at c j).
Proof.
  intros L. unfold gate_at, init, stage_at; cbn [sh gates]. unfold nstages in L.
  rewrite (nth_indep _ dflt_gate (init_gate dflt_sc)) by (rewrite map_length; exact L). apply map_nth.
Qed.

Lemma TokInv_init c : TokInv c (init c).
Proof.
  intros j0 L. rewrite gate_at_init by exact L. cbn [g_res init_gate].
  assert (H1 : total (m_hard j0) (init c) = 0).
  { unfold total, init, shw, thsw; cbn [sh threads gates bag log]. rewrite gatesw_zero by reflexivity. cbn.
    rewrite sumf_zero; [lia|]. intros x Hx. apply in_map_iff in Hx. destruct Hx as [w [<- _]]. reflexivity. }
  assert (H2 : total (m_soft j0) (init c) = 0).
  { unfold total, init, shw, thsw; cbn [sh threads gates bag log]. rewrite gatesw_zero by reflexivity. cbn.
    rewrite sumf_zero; [lia|]. intros x Hx. apply in_map_iff in Hx. destruct Hx as [w [<- _]]. reflexivity. }
  rewrite H1, H2. unfold lim_of. lia.
Qed.

Lemma TokInv_mstep c s t ch s' ch' site :
  (0 < nstages c)%nat -> WF c s -> TokInv c s -> mstep c s t ch = Some (s', ch', site) -> TokInv c s'.
Proof.
  intros H0 [WS WT] I H j0 L. apply mstep_inv in H. destruct H as (th & s1 & th1 & wake & N & M & ->).
  assert (Wth : wf_thread c th) by (eapply Forall_nth_error; eauto).
  destruct (tok_local c t (sh s) th ch s1 th1 ch' site wake j0 H0 WS Wth L M) as [D1 D2].
  pose proof (total_step (m_hard j0) (threads s) t th (sh s) s1 th1 wake eq_refl N) as T1.
  pose proof (total_step (m_soft j0) (threads s) t th (sh s) s1 th1 wake eq_refl N) as T2.
  destruct (I j0 L) as [E B]. destruct s as [s0 ths]; cbn [sh threads] in *.
  pose proof (total_nonneg (m_soft j0) (ST s0 ths) (nonneg_soft j0)) as NS.
  split; [lia|]. destruct D2 as [D2|[D2 R]]; lia.
Qed.

Theorem tok_invariant c s : (0 < nstages c)%nat -> reach (mstep c) (init c) s -> TokInv c s.
Proof.
  intros H0 R.
  assert (X : WF c s /\ TokInv c s).
  { apply (reach_inv (mstep c) (fun s => WF c s /\ TokInv c s) (init c)); [split; [apply WF_init | apply TokInv_init] | | exact R].
    intros s1 t ch s1' ch' site [W I] E. split; [eapply WF_mstep; eauto | eapply TokInv_mstep; eauto]. }
  exact (proj2 X).
Qed.

(* ---------- in-flight invocations of a limited stage are hard holders ---------- *)
Lemma shw_inflight_zero j0 s : shw (m_inflight j0) s = 0.
Proof.
  unfold shw. rewrite gatesw_zero by reflexivity. unfold bagw, logw. rewrite !sumf_zero; [reflexivity | |]; intros; reflexivity.
Qed.

Lemma inflight_le_hard c s j0 :
  WF c s -> unlimited c j0 = false -> total (m_inflight j0) s <= total (m_hard j0) s.
Proof.
  intros [WS WT] U. unfold total. rewrite shw_inflight_zero.
  assert (0 <= shw (m_hard j0) (sh s)).
  { pose proof (nonneg_hard j0) as N. pose proof (gatesw_nonneg (m_hard j0) 0 (gates (sh s)) N). destruct N as (_ & _ & B & E).
    unfold shw, bagw, logw. assert (0 <= sumf (fun e => mb (m_hard j0) (snd e)) (bag (sh s))) by (apply sumf_nonneg; intros; apply B).
    assert (0 <= sumf (me (m_hard j0)) (log (sh s))) by (apply sumf_nonneg; exact E). lia. }
  assert (thsw (m_inflight j0) (threads s) <= thsw (m_hard j0) (threads s)); [|lia].
  unfold thsw. apply sumf_le. intros th Hth. unfold stackw. apply sumf_le. intros f Hf.
  rewrite Forall_forall in WT. specialize (WT th Hth). unfold wf_thread in WT. rewrite Forall_forall in WT. specialize (WT f Hf).
  assert (NN : 0 <= mf (m_hard j0) f) by apply nonneg_hard.
  destruct f; try (cbn [mf m_inflight]; exact NN). destruct pc; try (cbn [mf m_inflight]; exact NN).
  cbn in WT. destruct WT as (_ & LU & _ & AL & _). cbn [mf m_inflight m_hard]. destruct (Nat.eqb_spec j0 j); [subst j|destruct lim; cbn; lia].
  destruct lim; [subst armed; cbn; lia|]. rewrite LU in U by reflexivity. discriminate.
Qed.

Theorem stage_inflight_le_limit c s j0 :
  (0 < nstages c)%nat -> reach (mstep c) (init c) s -> (j0 < nstages c)%nat -> unlimited c j0 = false ->
  total (m_inflight j0) s <= lim_of (stage_at c j0).
Proof.
  intros H0 R L U. pose proof (WF_reach c s H0 R) as W. destruct (tok_invariant c s H0 R j0 L) as [_ B].
  pose proof (inflight_le_hard c s j0 W U). lia.
Qed.

(* a new slot holder appears only when resources_ was positive (a fetch_sub that returned > 0); everything else is a hand-over or
   a release *)
Theorem dispatch_needs_slot c s t ch s' ch' site j0 :
  (0 < nstages c)%nat -> reach (mstep c) (init c) s -> (j0 < nstages c)%nat -> mstep c s t ch = Some (s', ch', site) ->
  total (m_hard j0) s' <= total (m_hard j0) s \/ (total (m_hard j0) s' = total (m_hard j0) s + 1 /\ 0 < g_res (gate_at (sh s) j0)).
Proof.
  intros H0 R L H. destruct (WF_reach c s H0 R) as [WS WT]. apply mstep_inv in H. destruct H as (th & s1 & th1 & wake & N & M & ->).
  assert (Wth : wf_thread c th) by (eapply Forall_nth_error; eauto).
  destruct (tok_local c t (sh s) th ch s1 th1 ch' site wake j0 H0 WS Wth L M) as [_ D2].
  pose proof (total_step (m_hard j0) (threads s) t th (sh s) s1 th1 wake eq_refl N) as T1.
  destruct s as [s0 ths]; cbn [sh threads] in *. destruct D2 as [D2|[D2 P]]; [left | right]; lia.
Qed.

(* ---------- generator instances ---------- *)
Definition m_gen (c : cfg) : meas := MS
  (fun f => match f with
            | FMain MStart => ninst c
            | FMain (MExec g) => ninst c - g
            | FGen _ => 1
            | FPool TGen PRun | FPool TGen PSkipGen => 1
            | _ => 0 end)
  (fun _ _ => 0) (fun tk => match tk with TGen => 1 | _ => 0 end) (fun _ => 0).
Definition m_geninst : meas := MS (fun f => match f with FGen _ => 1 | _ => 0 end) (fun _ _ => 0) (fun _ => 0) (fun _ => 0).

Lemma gen_local c t s th ch s1 th1 ch1 site wake :
  (0 < nstages c)%nat -> wf_shared c s -> wf_thread c th ->
  mstep_thread c t s th ch = Some (s1, th1, ch1, site, wake) -> dlt (m_gen c) s th s1 th1 <= 0.
Proof.
  intros H0 [[WL WG] WB] WT H. unfold wf_thread in *. unfold dlt. step_cases H th; wf_fin; subst.
  all: acct_pre Hst.
  all: rewrite ?(gatesw_zero (m_gen c)) by reflexivity.
  all: rewrite ?(strandw_zero (m_gen c)) by (intros; reflexivity).
  all: cbn [mf mq mb me m_gen].
  all: acct_fin.
Qed.

Theorem gen_invariant c s : (0 < nstages c)%nat -> reach (mstep c) (init c) s -> total (m_gen c) s <= ninst c.
Proof.
  intros H0 R.
  assert (X : WF c s /\ total (m_gen c) s <= ninst c).
  { apply (reach_inv (mstep c) (fun s => WF c s /\ total (m_gen c) s <= ninst c) (init c)); [split; [apply WF_init|] | | exact R].
    - unfold total, init, shw, thsw; cbn [sh threads gates bag log]. rewrite gatesw_zero by reflexivity. cbn.
      rewrite sumf_zero; [lia|]. intros x Hx. apply in_map_iff in Hx. destruct Hx as [w [<- _]]. reflexivity.
    - intros s1 t ch s1' ch' site [[WS WT] I] E. split; [eapply WF_mstep; eauto; split; assumption|].
      apply mstep_inv in E. destruct E as (th & s2 & th1 & wake & N & M & ->).
      assert (Wth : wf_thread c th) by (eapply Forall_nth_error; eauto).
      pose proof (gen_local c t (sh s1) th ch s2 th1 ch' site wake H0 WS Wth M) as D.
      pose proof (total_step (m_gen c) (threads s1) t th (sh s1) s2 th1 wake eq_refl N) as T1.
      destruct s1 as [s0 ths]; cbn [sh threads] in *. lia. }
  exact (proj2 X).
Qed.

Lemma geninst_le_gen c s : WF c s -> total m_geninst s <= total (m_gen c) s.
Proof.
  intros [WS WT]. unfold total.
  assert (S0 : shw m_geninst (sh s) = 0).
  { unfold shw. rewrite gatesw_zero by reflexivity. unfold bagw, logw. rewrite !sumf_zero; [reflexivity | |]; intros; reflexivity. }
  assert (S1 : 0 <= shw (m_gen c) (sh s)).
  { unfold shw. rewrite gatesw_zero by reflexivity. unfold bagw, logw.
    assert (0 <= sumf (fun e => mb (m_gen c) (snd e)) (bag (sh s))) by (apply sumf_nonneg; intros [p []]; cbn; lia).
    rewrite (sumf_zero (me (m_gen c))) by (intros; reflexivity). lia. }
  assert (thsw m_geninst (threads s) <= thsw (m_gen c) (threads s)); [|lia].
  unfold thsw. apply sumf_le. intros th Hth. unfold stackw. apply sumf_le. intros f Hf.
  rewrite Forall_forall in WT. specialize (WT th Hth). unfold wf_thread in WT. rewrite Forall_forall in WT. specialize (WT f Hf).
  pose proof (ninst_pos c). destruct f; cbn; try lia.
  - destruct pc; cbn in *; lia.
  - destruct tk; try lia. destruct pc; lia.
Qed.

Theorem generator_instances_le_limit c s :
  (0 < nstages c)%nat -> reach (mstep c) (init c) s -> total m_geninst s <= ninst c /\ ninst c <= Z.max 1 (c_glimit c).
Proof.
  intros H0 R. split; [|unfold ninst; lia].
  pose proof (geninst_le_gen c s (WF_reach c s H0 R)). pose proof (gen_invariant c s H0 R). lia.
Qed.
