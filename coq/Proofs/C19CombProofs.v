(* C19, part 2: when_all / when_any -- invariants over all interleavings of Model/FutureCombModel.v *)
From Coq Require Import ZArith List Bool Lia.
From DV Require Import Base.MachInt Base.Sched Model.FutureModel Model.FutureCombModel Proofs.C18Proofs.
Import ListNotations.
Local Open Scope Z_scope.

(* ---------- bit lists ---------- *)
Lemma nth_set_nth_same {A} (l : list A) n x d : (n < length l)%nat -> nth n (set_nth l n x) d = x.
Proof. revert n; induction l as [|a l IH]; intros [|n] H; cbn in *; try lia; [reflexivity | apply IH; lia]. Qed.
Lemma nth_set_nth_other {A} (l : list A) n m x d : n <> m -> nth m (set_nth l n x) d = nth m l d.
Proof. revert n m; induction l as [|a l IH]; intros [|n] [|m] H; cbn; try reflexivity; try contradiction. apply IH. congruence. Qed.
Lemma length_set_nth {A} (l : list A) n x : length (set_nth l n x) = length l.
Proof. revert n; induction l as [|a l IH]; intros [|n]; cbn; try reflexivity. rewrite IH. reflexivity. Qed.

Lemma rd_range l i : rd l i = true -> 0 <= i < Z.of_nat (length l).
Proof.
  unfold rd. intros H. apply andb_prop in H. destruct H as [H0 H1]. apply Z.leb_le in H0. split; [exact H0|].
  destruct (Nat.lt_ge_cases (Z.to_nat i) (length l)) as [L|G]; [lia|]. rewrite nth_overflow in H1 by exact G. discriminate.
Qed.
Lemma length_setb l i : length (setb l i) = length l.
Proof. unfold setb. destruct (0 <=? i); [apply length_set_nth | reflexivity]. Qed.
Lemma rd_setb_same l i : 0 <= i < Z.of_nat (length l) -> rd (setb l i) i = true.
Proof.
  intros H. unfold rd, setb. destruct (Z.leb_spec 0 i); [|lia]. cbn. apply nth_set_nth_same. lia.
Qed.
Lemma rd_setb_mono l i j : rd l j = true -> rd (setb l i) j = true.
Proof.
  intros H. pose proof (rd_range _ _ H) as R. unfold rd, setb in *. destruct (Z.leb_spec 0 i); [|exact H].
  destruct (Z.eq_dec i j) as [->|N].
  - apply andb_prop in H. destruct H as [Ha _]. rewrite Ha. cbn. apply nth_set_nth_same. lia.
  - rewrite nth_set_nth_other; [exact H|]. intros E. apply N. lia.
Qed.
Lemma rd_setb_inv l i j : rd (setb l i) j = true -> j = i \/ rd l j = true.
Proof.
  intros H. destruct (Z.eq_dec j i) as [->|N]; [left; reflexivity | right].
  unfold rd, setb in *. destruct (Z.leb_spec 0 i); [|exact H].
  apply andb_prop in H. destruct H as [Ha Hb]. rewrite Ha. cbn. rewrite nth_set_nth_other in Hb; [exact Hb|].
  apply Z.leb_le in Ha. intros E. apply N. lia.
Qed.

Definition ones (l : list bool) : Z := zsum b2z l.
Lemma ones_le_length l : 0 <= ones l <= Z.of_nat (length l).
Proof. unfold ones. induction l as [|a l IH]; [cbn; lia|]. change (0 <= b2z a + zsum b2z l <= Z.of_nat (S (length l))). destruct a; cbn [b2z]; lia. Qed.
Lemma ones_set_nth l n : (n < length l)%nat -> nth n l false = false -> ones (set_nth l n true) = ones l + 1.
Proof.
  unfold ones. revert n; induction l as [|a l IH]; intros [|n] H E; cbn [length] in *; try lia.
  - cbn in E. subst a. change (1 + zsum b2z l = 0 + zsum b2z l + 1). lia.
  - change (b2z a + zsum b2z (set_nth l n true) = b2z a + zsum b2z l + 1). rewrite IH; [lia | lia | exact E].
Qed.
Lemma ones_setb l i : 0 <= i < Z.of_nat (length l) -> rd l i = false -> ones (setb l i) = ones l + 1.
Proof.
  intros R E. unfold setb, rd in *. destruct (Z.leb_spec 0 i); [|lia]. cbn in E. apply ones_set_nth; [lia | exact E].
Qed.
Lemma ones_full l i : ones l = Z.of_nat (length l) -> 0 <= i < Z.of_nat (length l) -> rd l i = true.
Proof.
  intros F R. destruct (rd l i) eqn:E; [reflexivity|]. exfalso.
  pose proof (ones_setb l i R E) as S. pose proof (ones_le_length (setb l i)) as B. rewrite length_setb in B. lia.
Qed.

(* ---------- invariants ---------- *)
Definition allready (g : cshared) : Prop := forall i, 0 <= i < nin g -> rd (ready g) i = true.
Definition resok (g : cshared) (v : Z) : Prop :=
  if any g then 0 <= v < nin g /\ rd (ready g) v = true else v = 1 /\ allready g.

Definition shok (g : cshared) : Prop :=
  0 < nin g < SMAX /\ Z.of_nat (length (ready g)) = nin g /\ Z.of_nat (length (started g)) = nin g /\
  (forall i, rd (started g) i = true -> rd (ready g) i = true) /\
  (any g = false -> count g = nin g - ones (started g)) /\
  (winner g = SMAX \/ (0 <= winner g < nin g /\ rd (ready g) (winner g) = true)) /\
  (rstatus g = 2 -> resok g (rval g)).

Definition pcok (g : cshared) (p : cpc) : Prop :=
  match p with
  | CWcCount j _ | CWcWait j _ => any g = false /\ 0 <= j /\ forall i, 0 <= i < j -> rd (ready g) i = true
  | CAnyLoad0 _ | CAnyWait _ => any g = true
  | CAnyCas _ => any g = true /\ rd (ready g) 0 = true
  | CAnyLoad _ => any g = true /\ winner g <> SMAX
  | CResStore _ v => resok g v
  | CContSub _ => any g = false
  | CContCas _ => any g = true
  | _ => True
  end.
Definition thok (g : cshared) (th : cthread) : Prop := pcok g (cpcv th) /\ Forall (resok g) (cres th).

(* the shared state only grows *)
Definition gle (g g' : cshared) : Prop :=
  any g' = any g /\ nin g' = nin g /\ (forall i, rd (ready g) i = true -> rd (ready g') i = true) /\
  (winner g <> SMAX -> winner g' = winner g).

Lemma resok_mono g g' v : gle g g' -> resok g v -> resok g' v.
Proof.
  intros (Ea & En & Hr & _). unfold resok, allready. rewrite Ea, En. destruct (any g); intros (H1 & H2); split; auto.
Qed.
Lemma thok_mono g g' th : gle g g' -> thok g th -> thok g' th.
Proof.
  intros L (P & F). split.
  - pose proof L as (Ea & En & Hr & Hw). destruct (cpcv th); cbn [pcok] in *; rewrite ?Ea; try exact P; try exact I.
    all: try (destruct P as (A & J & H); repeat split; auto; fail).
    all: try (destruct P as (A & H); split; [exact A | first [apply Hr; exact H | rewrite (Hw H); exact H]]; fail).
    all: eapply resok_mono; eauto.
  - eapply Forall_impl; [|exact F]. intros v. apply resok_mono; exact L.
Qed.

Lemma pcok_cnext g th : (forall i, pcok g (CContSub i) <-> any g = false) -> pcok g (cpcv (cnext (any g) th)).
Proof. intros _. unfold cnext. destruct (cprog th) as [|o r]; cbn; [exact I|]. destruct o; cbn; auto. destruct (any g) eqn:E; cbn; auto. Qed.
Lemma pcok_next g th : pcok g (cpcv (cnext (any g) th)).
Proof. unfold cnext. destruct (cprog th) as [|o r]; cbn; [exact I|]. destruct o; cbn; auto. destruct (any g) eqn:E; cbn; auto. Qed.
Lemma cres_next a th : cres (cnext a th) = cres th.
Proof. unfold cnext. destruct (cprog th); reflexivity. Qed.

Lemma gle_refl g : gle g g.
Proof. repeat split; auto. Qed.
Lemma thok_next g X : Forall (resok g) (cres X) -> thok g (cnext (any g) X).
Proof. intros F. split; [apply pcok_next | rewrite cres_next; exact F]. Qed.
Lemma thok_goto g X p : pcok g p -> Forall (resok g) (cres X) -> thok g (cgoto X p).
Proof. intros P F. split; assumption. Qed.
Lemma wrap64_small z : 0 <= z < 18446744073709551616 -> wrap 64 z = z.
Proof. intros H. apply wrap_small. change (2 ^ 64) with 18446744073709551616. exact H. Qed.

Ltac csimp := cbn [any nin ready started count winner rstatus rval rfc upd cpcv cprog cres cgoto clog] in *.

Lemma comb_tstep g th g' th' site :
  ctstep g th = Some (g', th', site) -> shok g -> thok g th -> shok g' /\ thok g' th' /\ gle g g'.
Proof.
  intros T SH (P & F). pose proof SH as (N0 & Lr & Ls & S & Cn & V & R).
  unfold ctstep in T. destruct (cguard g (cpcv th)) eqn:G; cbn [negb] in T; [|discriminate].
  destruct (cpcv th) eqn:E; cbn [cguard pcok] in *.
  - (* CStart *) injection T as <- <- _. split; [exact SH|]. split; [apply thok_next; exact F | apply gle_refl].
  - (* CSetReady *) injection T as <- <- _.
    assert (L : gle g (upd g (setb (ready g) i) (started g) (count g) (winner g) (rstatus g) (rval g) (rfc g))).
    { repeat split; csimp; auto. intros j Hj. apply rd_setb_mono; exact Hj. }
    split; [|split; [|exact L]].
    + unfold shok; csimp. rewrite length_setb. repeat split; try lia; auto.
      * intros j Hj. apply rd_setb_mono, S, Hj.
      * destruct V as [V|(V1 & V2)]; [left; exact V | right; split; [exact V1 | apply rd_setb_mono; exact V2]].
      * intros R2. eapply resok_mono; [exact L | apply R; exact R2].
    + change (thok (upd g (setb (ready g) i) (started g) (count g) (winner g) (rstatus g) (rval g) (rfc g))
                (cnext (any (upd g (setb (ready g) i) (started g) (count g) (winner g) (rstatus g) (rval g) (rfc g))) th)).
      apply thok_next. eapply Forall_impl; [|exact F]. intros v. apply resok_mono; exact L.
  - (* CContSub *) apply andb_prop in G. destruct G as [G1 G2]. apply negb_true_iff in G2.
    pose proof (rd_range _ _ G1) as Ri. rewrite Lr in Ri.
    assert (O1 : ones (setb (started g) i) = ones (started g) + 1) by (apply ones_setb; [rewrite Ls; exact Ri | exact G2]).
    pose proof (ones_le_length (setb (started g) i)) as O2. rewrite length_setb, Ls in O2.
    pose proof (ones_le_length (started g)) as O3. specialize (Cn P).
    set (g1 := upd g (ready g) (setb (started g) i) (wrap 64 (count g - 1)) (winner g) (rstatus g) (rval g) (rfc g)).
    assert (L : gle g g1) by (repeat split; auto).
    assert (SH1 : shok g1).
    { unfold shok, g1; csimp. rewrite length_setb. repeat split; try lia; auto.
      - intros j Hj. destruct (rd_setb_inv _ _ _ Hj) as [->|Hj']; [exact G1 | apply S; exact Hj'].
      - intros _. rewrite wrap64_small by (unfold SMAX in *; lia). lia. }
    assert (F1 : Forall (resok g1) (cres th)) by (eapply Forall_impl; [|exact F]; intros v; apply resok_mono; exact L).
    destruct (count g =? 1); injection T as <- <- _; (split; [exact SH1|]); (split; [|exact L]).
    + apply thok_goto; [exact I | exact F1].
    + change (thok g1 (cnext (any g1) th)). apply thok_next; exact F1.
  - (* CContCas *) apply andb_prop in G. destruct G as [G1 G2]. apply negb_true_iff in G2.
    pose proof (rd_range _ _ G1) as Ri. rewrite Lr in Ri.
    destruct (Z.eqb_spec (winner g) SMAX) as [Ew|Nw]; injection T as <- <- _.
    + set (g1 := upd g (ready g) (setb (started g) i) (count g) i (rstatus g) (rval g) (rfc g)).
      assert (L : gle g g1) by (repeat split; auto; intros Hn; contradiction).
      split; [|split; [|exact L]].
      * unfold shok, g1; csimp. rewrite length_setb. repeat split; try lia; auto.
        -- intros j Hj. destruct (rd_setb_inv _ _ _ Hj) as [->|Hj']; [exact G1 | apply S; exact Hj'].
        -- intros A. congruence.
      * apply thok_goto; [exact I|]. eapply Forall_impl; [|exact F]. intros v. apply resok_mono; exact L.
    + set (g1 := upd g (ready g) (setb (started g) i) (count g) (winner g) (rstatus g) (rval g) (rfc g)).
      assert (L : gle g g1) by (repeat split; auto).
      split; [|split; [|exact L]].
      * unfold shok, g1; csimp. rewrite length_setb. repeat split; try lia; auto.
        -- intros j Hj. destruct (rd_setb_inv _ _ _ Hj) as [->|Hj']; [exact G1 | apply S; exact Hj'].
        -- intros A. congruence.
      * change (thok g1 (cnext (any g1) th)). apply thok_next. eapply Forall_impl; [|exact F]. intros v. apply resok_mono; exact L.
  - (* CFire *) destruct (Z.eqb_spec (rstatus g) 0) as [E0|N0']; injection T as <- <- _.
    + set (g1 := upd g (ready g) (started g) (count g) (winner g) 1 (rval g) (rfc g + 1)).
      assert (L : gle g g1) by (repeat split; auto).
      split; [|split; [|exact L]].
      * unfold shok, g1; csimp. repeat split; try lia; auto.
      * apply thok_goto; [|exact F]. unfold wc_entry, g1; csimp. destruct (any g) eqn:A; cbn [pcok]; csimp; [exact A|].
        split; [exact A|]. split; [lia|]. intros j Hj. lia.
    + split; [exact SH|]. split; [apply thok_next; exact F | apply gle_refl].
  - (* CGetLoad *) destruct (Z.eqb_spec (rstatus g) 2) as [E2|N2]; [|destruct (rstatus g =? 0)]; injection T as <- <- _;
      (split; [exact SH|]); (split; [|apply gle_refl]).
    + apply thok_next. cbn [cres clog]. constructor; [apply R; exact E2 | exact F].
    + apply thok_goto; [exact I | exact F].
    + apply thok_goto; [exact I | exact F].
  - (* CGetCas *) destruct (Z.eqb_spec (rstatus g) 0) as [E0|N0']; injection T as <- <- _.
    + set (g1 := upd g (ready g) (started g) (count g) (winner g) 1 (rval g) (rfc g + 1)).
      assert (L : gle g g1) by (repeat split; auto).
      split; [|split; [|exact L]].
      * unfold shok, g1; csimp. repeat split; try lia; auto.
      * apply thok_goto; [|exact F]. unfold wc_entry, g1; csimp. destruct (any g) eqn:A; cbn [pcok]; csimp; [exact A|].
        split; [exact A|]. split; [lia|]. intros j Hj. lia.
    + split; [exact SH|]. split; [apply thok_goto; [exact I | exact F] | apply gle_refl].
  - (* CGetWait *) apply Z.eqb_eq in G. injection T as <- <- _. split; [exact SH|]. split; [|apply gle_refl].
    apply thok_next. cbn [cres clog]. constructor; [apply R; exact G | exact F].
  - (* CWcCount *) destruct P as (A & J0 & HJ). destruct (Z.eqb_spec (count g) 0) as [C0|C1]; injection T as <- <- _;
      (split; [exact SH|]); (split; [|apply gle_refl]); (apply thok_goto; [|exact F]); cbn [pcok].
    + unfold resok. rewrite A. split; [reflexivity|]. intros i Hi. apply S. apply ones_full; [|rewrite Ls; exact Hi].
      specialize (Cn A). lia.
    + auto.
  - (* CWcWait *) destruct P as (A & J0 & HJ). injection T as <- <- _. split; [exact SH|]. split; [|apply gle_refl].
    apply thok_goto; [|exact F]. unfold wc_next. destruct (Z.ltb_spec (j + 1) (nin g)); cbn [pcok].
    + split; [exact A|]. split; [lia|]. intros i Hi. destruct (Z.eq_dec i j) as [->|Ne]; [exact G | apply HJ; lia].
    + unfold resok. rewrite A. split; [reflexivity|]. intros i Hi. destruct (Z.eq_dec i j) as [->|Ne]; [exact G | apply HJ; lia].
  - (* CAnyLoad0 *) destruct (Z.eqb_spec (winner g) SMAX) as [Ew|Nw]; injection T as <- <- _;
      (split; [exact SH|]); (split; [|apply gle_refl]); (apply thok_goto; [|exact F]); cbn [pcok]; [exact P|].
    unfold resok. rewrite P. destruct V as [V|V]; [contradiction | exact V].
  - (* CAnyWait *) injection T as <- <- _. split; [exact SH|]. split; [|apply gle_refl]. apply thok_goto; [|exact F]. cbn [pcok]. auto.
  - (* CAnyCas *) destruct P as (A & R0). destruct (Z.eqb_spec (winner g) SMAX) as [Ew|Nw]; injection T as <- <- _.
    + set (g1 := upd g (ready g) (started g) (count g) 0 (rstatus g) (rval g) (rfc g)).
      assert (L : gle g g1) by (repeat split; auto; intros Hn; contradiction).
      split; [|split; [|exact L]].
      * unfold shok, g1; csimp. repeat split; try lia; auto. right. split; [lia | exact R0].
      * apply thok_goto; [|eapply Forall_impl; [|exact F]; intros v; apply resok_mono; exact L].
        cbn [pcok]; unfold g1; csimp. split; [exact A|]. unfold SMAX. lia.
    + split; [exact SH|]. split; [|apply gle_refl]. apply thok_goto; [|exact F]. cbn [pcok]. auto.
  - (* CAnyLoad *) destruct P as (A & Nw). injection T as <- <- _. split; [exact SH|]. split; [|apply gle_refl].
    apply thok_goto; [|exact F]. cbn [pcok]. unfold resok. rewrite A. destruct V as [V|V]; [contradiction | exact V].
  - (* CResStore *)
    set (g1 := upd g (ready g) (started g) (count g) (winner g) 2 v (rfc g)).
    assert (L : gle g g1) by (repeat split; auto).
    assert (SH1 : shok g1) by (unfold shok, g1; csimp; repeat split; try lia; auto).
    assert (F1 : Forall (resok g1) (cres th)) by (eapply Forall_impl; [|exact F]; intros x; apply resok_mono; exact L).
    destruct g0; injection T as <- <- _; (split; [exact SH1|]); (split; [|exact L]); change (any g) with (any g1); apply thok_next.
    + cbn [cres clog]. constructor; [eapply resok_mono; [exact L | exact P] | exact F1].
    + exact F1.
  - discriminate.
Qed.

(* ---------- global invariant ---------- *)
Definition CInv (a : bool) (n : Z) (s : cstate) : Prop :=
  any (csh s) = a /\ nin (csh s) = n /\ shok (csh s) /\ Forall (thok (csh s)) (cthreads s).

Lemma CInv_step a n s t ch s' ch' site : CInv a n s -> cstep s t ch = Some (s', ch', site) -> CInv a n s'.
Proof.
  intros (Ea & En & SH & F) E. unfold cstep in E.
  destruct (nth_error (cthreads s) t) as [th|] eqn:N; [|discriminate].
  destruct (ctstep (csh s) th) as [[[g' th'] site1]|] eqn:T; [|discriminate]. injection E as <- _ _.
  pose proof F as F'. rewrite Forall_forall in F'. pose proof (F' _ (nth_error_In _ _ N)) as TH.
  destruct (comb_tstep _ _ _ _ _ T SH TH) as (SH' & TH' & L). pose proof L as (La & Ln & _).
  unfold CInv. cbn [csh cthreads]. split; [rewrite La; exact Ea|]. split; [rewrite Ln; exact En|]. split; [exact SH'|].
  apply Forall_set_nth; [|exact TH']. eapply Forall_impl; [|exact F]. intros x. apply thok_mono; exact L.
Qed.

Lemma rd_repeat_false m i : rd (repeat false m) i = false.
Proof.
  unfold rd. destruct (0 <=? i); [|reflexivity]. cbn. generalize (Z.to_nat i). induction m as [|m IH]; intros [|k]; cbn; auto.
Qed.
Lemma ones_repeat_false m : ones (repeat false m) = 0.
Proof. unfold ones. induction m as [|m IH]; [reflexivity|]. change (0 + zsum b2z (repeat false m) = 0). lia. Qed.

Lemma CInv_init a n progs : 0 < n < SMAX -> CInv a n (cinit a n progs).
Proof.
  intros Hn. unfold CInv, cinit; cbn [csh cthreads any nin]. split; [reflexivity|]. split; [reflexivity|]. split.
  - unfold shok; cbn [any nin ready started count winner rstatus rval]. rewrite repeat_length, ones_repeat_false.
    repeat split; try lia; auto.
  - apply Forall_forall. intros x Hx. apply in_map_iff in Hx. destruct Hx as [p [<- _]]. split; [exact I | constructor].
Qed.

Theorem cinv_reach a n progs s : 0 < n < SMAX -> reach cstep (cinit a n progs) s -> CInv a n s.
Proof.
  intros Hn R. apply (reach_inv cstep (CInv a n) (cinit a n progs)); [apply CInv_init; exact Hn | | exact R].
  intros s1 t ch s1' ch' site I E. eapply CInv_step; eauto.
Qed.

Theorem when_all_ready_after_all n progs s : 0 < n < SMAX -> reach cstep (cinit false n progs) s ->
  (rstatus (csh s) = 2 -> forall i, 0 <= i < n -> rd (ready (csh s)) i = true) /\
  (forall th v, In th (cthreads s) -> In v (cres th) -> forall i, 0 <= i < n -> rd (ready (csh s)) i = true).
Proof.
  intros Hn R. destruct (cinv_reach _ _ _ _ Hn R) as (Ea & En & SH & F). destruct SH as (_ & _ & _ & _ & _ & _ & RS). split.
  - intros R2 i Hi. specialize (RS R2). unfold resok in RS. rewrite Ea in RS. destruct RS as (_ & AR). apply AR. rewrite En. exact Hi.
  - intros th v Hth Hv i Hi. rewrite Forall_forall in F. destruct (F _ Hth) as (_ & FR). rewrite Forall_forall in FR.
    specialize (FR _ Hv). unfold resok in FR. rewrite Ea in FR. destruct FR as (_ & AR). apply AR. rewrite En. exact Hi.
Qed.

Theorem when_any_index_ready n progs s : 0 < n < SMAX -> reach cstep (cinit true n progs) s ->
  (rstatus (csh s) = 2 -> 0 <= rval (csh s) < n /\ rd (ready (csh s)) (rval (csh s)) = true) /\
  (forall th v, In th (cthreads s) -> In v (cres th) -> 0 <= v < n /\ rd (ready (csh s)) v = true) /\
  (winner (csh s) = SMAX \/ (0 <= winner (csh s) < n /\ rd (ready (csh s)) (winner (csh s)) = true)).
Proof.
  intros Hn R. destruct (cinv_reach _ _ _ _ Hn R) as (Ea & En & SH & F). destruct SH as (_ & _ & _ & _ & _ & V & RS). split; [|split].
  - intros R2. specialize (RS R2). unfold resok in RS. rewrite Ea, En in RS. exact RS.
  - intros th v Hth Hv. rewrite Forall_forall in F. destruct (F _ Hth) as (_ & FR). rewrite Forall_forall in FR.
    specialize (FR _ Hv). unfold resok in FR. rewrite Ea, En in FR. exact FR.
  - rewrite En in V. exact V.
Qed.

(* any system that refines the protocol model (each of its steps is a stutter or a protocol step) inherits the theorems *)
Lemma refine_reach {St : Type} (pstep : St -> nat -> list Z -> option (St * list Z * Z)) (abs : St -> cstate) s0 :
  (forall s t ch s' ch' site, pstep s t ch = Some (s', ch', site) ->
     abs s' = abs s \/ exists t' ch1 ch2 site', cstep (abs s) t' ch1 = Some (abs s', ch2, site')) ->
  forall s, reach pstep s0 s -> reach cstep (abs s0) (abs s).
Proof.
  intros Sim s R. induction R as [|s t ch s' ch' site R IH E]; [apply reach_refl|].
  destruct (Sim _ _ _ _ _ _ E) as [->|(t' & ch1 & ch2 & site' & E')]; [exact IH | eapply reach_step; eauto].
Qed.

(* ---------- non-vacuity witnesses ---------- *)
Definition nv_all_progs : list (list cop) := [[CComplete 0; CCont 0]; [CComplete 1; CCont 1]; [CGet]].
Definition nv_when_all : Prop :=
  let '(s, _, st) := run_comb 60 false 2 nv_all_progs [2;2;2;0;0;1;1;0;1;0;1;0;1;0;1;0;1;0;1;0;0;0;0;0;0;0;0;0;0;0;0;0;0;0;0;0;0;0;0;0] in
  st = SDone /\ rstatus (csh s) = 2 /\ ready (csh s) = [true; true] /\ rfc (csh s) = 1 /\ map cres (cthreads s) = [[]; []; [1]].
Lemma nonvacuous_when_all : nv_when_all.
Proof. vm_compute. repeat split; reflexivity. Qed.
Definition nv_when_any : Prop :=
  let '(s, _, st) := run_comb 60 true 2 nv_all_progs [1;1;1;1;1;1;1;2;2;2;2;2;0;0;0;0;0;0;0;0;0;0;0;0;0;0;0;0;0;0;0;0;0;0;0;0;0;0;0;0] in
  st = SDone /\ rstatus (csh s) = 2 /\ rval (csh s) = 1 /\ rfc (csh s) = 1 /\ map cres (cthreads s) = [[]; []; [1]].
Lemma nonvacuous_when_any : nv_when_any.
Proof. vm_compute. repeat split; reflexivity. Qed.
