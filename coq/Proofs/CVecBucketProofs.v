(* C32, part 1: bucket arithmetic of ConcurrentVector (bucketAndSubIndex is a bijection with the documented
   capacities) and the array laws of the bucketed storage. *)
From Coq Require Import ZArith List Bool Lia.
From DV Require Import Base.MachInt Base.Life Model.CVecModel.
Import ListNotations.
Local Open Scope Z_scope.

Ltac Zify.zify_post_hook ::= Z.div_mod_to_equations.

(* ------------------------------------------------------------------------------------------------ bsi *)
Lemma pow2_le_mono a b : 0 <= a <= b -> 2 ^ a <= 2 ^ b.
Proof. intros; apply Z.pow_le_mono_r; lia. Qed.
Lemma pow2_lt_mono a b : 0 <= a < b -> 2 ^ a < 2 ^ b.
Proof. intros; apply Z.pow_lt_mono_r; lia. Qed.
Lemma pow2_succ a : 0 <= a -> 2 ^ (a + 1) = 2 * 2 ^ a.
Proof. intros H. replace (a + 1) with (Z.succ a) by (unfold Z.succ; reflexivity). rewrite Z.pow_succ_r by exact H. reflexivity. Qed.

Lemma bucket_cap_pos shift b : 0 <= shift -> 0 <= b -> 0 < bucket_cap shift b.
Proof. intros; unfold bucket_cap; destruct (b <=? 1) eqn:E; apply pow2_pos; lia. Qed.

Lemma bucket_start_next shift b : 0 <= shift -> 0 <= b ->
  bucket_start shift (b + 1) = bucket_start shift b + bucket_cap shift b.
Proof.
  intros Hs Hb. unfold bucket_start, bucket_cap.
  destruct (b + 1 <=? 0) eqn:E1; [lia|].
  destruct (b <=? 0) eqn:E2.
  - assert (b = 0) by lia. subst. simpl. replace (shift + 1 - 1) with shift by lia. lia.
  - destruct (b <=? 1) eqn:E3.
    + assert (b = 1) by lia. subst. replace (shift + (1 + 1) - 1) with (shift + 1) by lia.
      replace (shift + 1 - 1) with shift by lia. rewrite pow2_succ by lia. lia.
    + replace (shift + (b + 1) - 1) with (shift + b - 1 + 1) by lia. rewrite pow2_succ by lia. lia.
Qed.

Lemma bucket_cap_next shift b : 0 <= shift -> 1 <= b -> bucket_cap shift (b + 1) = 2 * bucket_cap shift b.
Proof.
  intros Hs Hb. unfold bucket_cap.
  destruct (b + 1 <=? 1) eqn:E1; [lia|]. destruct (b <=? 1) eqn:E2.
  - assert (b = 1) by lia. subst. replace (shift + (1 + 1) - 1) with (shift + 1) by lia. apply pow2_succ; lia.
  - replace (shift + (b + 1) - 1) with (shift + b - 1 + 1) by lia. apply pow2_succ; lia.
Qed.

Lemma bucket_start_mono shift b b' : 0 <= shift -> 0 <= b <= b' -> bucket_start shift b <= bucket_start shift b'.
Proof.
  intros Hs H. unfold bucket_start.
  destruct (b <=? 0) eqn:E1; destruct (b' <=? 0) eqn:E2; try lia.
  apply pow2_le_mono; lia.
Qed.

(* index -> (bucket, sub-index, capacity) *)
Lemma bsi_spec shift i : 0 <= shift -> 0 <= i ->
  let '(b, s, c) := bsi shift i in
  0 <= b /\ 0 <= s < c /\ c = bucket_cap shift b /\ bucket_start shift b + s = i.
Proof.
  intros Hs Hi. unfold bsi. destruct (i <? 2 ^ shift) eqn:E.
  - unfold bucket_cap, bucket_start; simpl. lia.
  - assert (P : 0 < 2 ^ shift) by (apply pow2_pos; lia).
    assert (Hi' : 0 < i) by lia.
    pose proof (Z.log2_spec i Hi') as [L1 L2].
    assert (Hl : shift <= Z.log2 i).
    { apply Z.log2_le_pow2; lia. }
    cbv zeta. unfold bucket_cap, bucket_start.
    replace (Z.succ (Z.log2 i)) with (Z.log2 i + 1) in L2 by lia. rewrite pow2_succ in L2 by lia.
    set (l := Z.log2 i) in *. clearbody l.
    destruct (l + 1 - shift <=? 1) eqn:E1; destruct (l + 1 - shift <=? 0) eqn:E2; try lia.
    + assert (l = shift) by lia. subst l. replace (shift + (shift + 1 - shift) - 1) with shift by lia. lia.
    + replace (shift + (l + 1 - shift) - 1) with l by lia. lia.
Qed.

(* (bucket, sub-index) -> index *)
Lemma bsi_inv shift b s : 0 <= shift -> 0 <= b -> 0 <= s < bucket_cap shift b ->
  bsi shift (bucket_start shift b + s) = (b, s, bucket_cap shift b).
Proof.
  intros Hs Hb Hsub. unfold bsi, bucket_start, bucket_cap in *.
  assert (P : 0 < 2 ^ shift) by (apply pow2_pos; lia).
  destruct (b <=? 0) eqn:E0.
  - assert (b = 0) by lia; subst. simpl in *. destruct (s <? 2 ^ shift) eqn:E; [reflexivity | lia].
  - destruct (b <=? 1) eqn:E1.
    + assert (b = 1) by lia; subst. replace (shift + 1 - 1) with shift by lia.
      destruct (2 ^ shift + s <? 2 ^ shift) eqn:E; [lia|].
      assert (L : Z.log2 (2 ^ shift + s) = shift).
      { apply Z.log2_unique; [lia|]. replace (Z.succ shift) with (shift + 1) by lia. rewrite pow2_succ by lia. lia. }
      cbv zeta. rewrite L. replace (shift + 1 - shift) with 1 by lia. replace (2 ^ shift + s - 2 ^ shift) with s by lia. reflexivity.
    + assert (Q : 2 ^ shift <= 2 ^ (shift + b - 1)) by (apply pow2_le_mono; lia).
      destruct (2 ^ (shift + b - 1) + s <? 2 ^ shift) eqn:E; [lia|].
      assert (L : Z.log2 (2 ^ (shift + b - 1) + s) = shift + b - 1).
      { apply Z.log2_unique; [lia|]. replace (Z.succ (shift + b - 1)) with (shift + b - 1 + 1) by lia. rewrite pow2_succ by lia. lia. }
      cbv zeta. rewrite L. replace (shift + b - 1 + 1 - shift) with b by lia.
      replace (2 ^ (shift + b - 1) + s - 2 ^ (shift + b - 1)) with s by lia. reflexivity.
Qed.

Definition bkt (shift i : Z) : Z := fst (fst (bsi shift i)).
Definition sub (shift i : Z) : Z := snd (fst (bsi shift i)).
Definition capof (shift i : Z) : Z := snd (bsi shift i).
Lemma bsi_eta shift i : bsi shift i = (bkt shift i, sub shift i, capof shift i).
Proof. unfold bkt, sub, capof. destruct (bsi shift i) as [[? ?] ?]; reflexivity. Qed.

Lemma bsi_facts shift i : 0 <= shift -> 0 <= i ->
  0 <= bkt shift i /\ 0 <= sub shift i < capof shift i /\ capof shift i = bucket_cap shift (bkt shift i) /\
  bucket_start shift (bkt shift i) + sub shift i = i.
Proof. intros Hs Hi. pose proof (bsi_spec shift i Hs Hi) as H. rewrite bsi_eta in H. exact H. Qed.

(* two indices with the same (bucket, sub-index) are equal *)
Lemma bsi_inj shift i j : 0 <= shift -> 0 <= i -> 0 <= j ->
  bkt shift i = bkt shift j -> sub shift i = sub shift j -> i = j.
Proof.
  intros Hs Hi Hj Hb Hsub.
  pose proof (bsi_facts shift i Hs Hi) as (_ & _ & _ & Ei).
  pose proof (bsi_facts shift j Hs Hj) as (_ & _ & _ & Ej).
  rewrite Hb, Hsub in Ei. lia.
Qed.

(* the bucket number is monotone in the index *)
Lemma bkt_mono shift i j : 0 <= shift -> 0 <= i <= j -> bkt shift i <= bkt shift j.
Proof.
  intros Hs Hij.
  pose proof (bsi_facts shift i Hs ltac:(lia)) as (Bi & Si & Ci & Ei).
  pose proof (bsi_facts shift j Hs ltac:(lia)) as (Bj & Sj & Cj & Ej).
  destruct (Z_le_gt_dec (bkt shift i) (bkt shift j)) as [|G]; [assumption|exfalso].
  (* bucket j + 1 <= bucket i: start(bucket i) >= start(bucket j + 1) = start + cap > j *)
  pose proof (bucket_start_mono shift (bkt shift j + 1) (bkt shift i) Hs ltac:(lia)) as M.
  rewrite bucket_start_next in M by lia. lia.
Qed.

Lemma bkt_of_start shift b s : 0 <= shift -> 0 <= b -> 0 <= s < bucket_cap shift b ->
  bkt shift (bucket_start shift b + s) = b /\ sub shift (bucket_start shift b + s) = s /\
  capof shift (bucket_start shift b + s) = bucket_cap shift b.
Proof. intros. unfold bkt, sub, capof. rewrite bsi_inv by assumption. auto. Qed.

(* the index after i: same bucket with sub-index + 1, or sub-index 0 of the next bucket *)
Lemma bsi_succ shift i : 0 <= shift -> 0 <= i ->
  (sub shift i + 1 < capof shift i /\ bkt shift (i + 1) = bkt shift i /\ sub shift (i + 1) = sub shift i + 1 /\
   capof shift (i + 1) = capof shift i) \/
  (sub shift i + 1 = capof shift i /\ bkt shift (i + 1) = bkt shift i + 1 /\ sub shift (i + 1) = 0).
Proof.
  intros Hs Hi.
  pose proof (bsi_facts shift i Hs Hi) as (Bi & Si & Ci & Ei).
  destruct (Z_lt_ge_dec (sub shift i + 1) (capof shift i)) as [L|G].
  - left. split; [exact L|].
    pose proof (bkt_of_start shift (bkt shift i) (sub shift i + 1) Hs Bi ltac:(lia)) as (A & B & C).
    replace (bucket_start shift (bkt shift i) + (sub shift i + 1)) with (i + 1) in * by lia.
    rewrite A, B, C. auto.
  - right. split; [lia|].
    pose proof (bucket_cap_pos shift (bkt shift i + 1) Hs ltac:(lia)) as P.
    pose proof (bkt_of_start shift (bkt shift i + 1) 0 Hs ltac:(lia) ltac:(lia)) as (A & B & C).
    rewrite bucket_start_next in A, B by lia.
    replace (bucket_start shift (bkt shift i) + bucket_cap shift (bkt shift i) + 0) with (i + 1) in * by lia.
    auto.
Qed.
