(* C36: ChaseLevDeque delivers each element exactly once -- invariant over ALL interleavings of Model/ChaseLevModel.v
   (one owner, any number of thieves, any power-of-two capacity, sequentially consistent memory). *)
From Coq Require Import ZArith List Bool Lia Permutation.
From DV Require Import Base.MachInt Base.Sched Model.ChaseLevModel Proofs.ChaseLevLemmas.
Import ListNotations.
Local Open Scope Z_scope.

Definition contC (tp bt : Z) (sl : list Z) (cp : Z) (ow : thread) : list Z := cont tp (bt + resv (tpc ow)) sl cp.

Lemma content_contC s : content s = contC (top s) (bot s) (slots s) (cap s) (owner s).
Proof. reflexivity. Qed.

Ltac zb :=
  repeat match goal with
  | H : (_ <=? _) = true |- _ => apply Z.leb_le in H
  | H : (_ <=? _) = false |- _ => apply Z.leb_gt in H
  | H : (_ <? _) = true |- _ => apply Z.ltb_lt in H
  | H : (_ <? _) = false |- _ => apply Z.ltb_ge in H
  | H : (_ =? _) = true |- _ => apply Z.eqb_eq in H
  | H : (_ =? _) = false |- _ => apply Z.eqb_neq in H
  end.

Ltac base := cbn [steal_ok owner_ok nores goto tpc]; repeat split; auto; try lia; try apply next_owner_ok; try apply next_steal_ok.
Ltac thw := try (eapply thieves_weaken; [eassumption|]; intros A B; cbn in *; repeat split; auto; try lia; try apply next_nores).

(* ---------- a step of the owner ---------- *)
Lemma owner_step tp0 bt0 sl0 cp ow ths tp bt sl th' site :
  InvC tp0 bt0 sl0 cp ow ths -> exec tp0 bt0 sl0 cp ow = Some (tp, bt, sl, th', site) ->
  InvC tp bt sl cp th' ths /\
  exists e, logged ow th' e /\ eff e (contC tp0 bt0 sl0 cp ow) (contC tp bt sl cp th').
Proof.
  intros (Hc & Hl & Hr & Ho & Hs & Ht) E. unfold contC, InvC.
  pose proof (pow2cap_pos _ Hc) as Hcp.
  destruct ow as [p pr rs]. unfold exec in E. cbn [tpc] in *.
  destruct p; cbn [resv owner_ok steal_ok] in *.
  - (* PStart *) injection E as <- <- <- <- _. rewrite next_resv. split.
    + base; thw.
    + exists None. split; [unfold logged; apply res_next | reflexivity].
  - discriminate.
  - (* PPushLoadB *) injection E as <- <- <- <- _. cbn [goto tpc resv]. split.
    + base; thw.
    + exists None. split; reflexivity.
  - (* PPushLoadT *) subst b. destruct (cp <=? bt0 - tp0) eqn:C; injection E as <- <- <- <- _; zb.
    + rewrite fin_resv. split.
      * base; thw.
      * exists (Some (RPushFull, v)). split; [apply res_fin | reflexivity].
    + cbn [goto tpc resv]. split.
      * base; thw.
      * exists None. split; reflexivity.
  - (* PPushSlot *) destruct Ho as [-> Hb]. injection E as <- <- <- <- _. cbn [goto tpc resv]. split.
    + base; try (unfold wr; rewrite length_set_nth; exact Hl); try (apply rd_wr_same; assumption).
      eapply thieves_weaken; [exact Ht|]. intros A B. cbn. repeat split; auto.
      apply rd_wr_other. apply sidx_neq; [exact Hc | lia].
    + exists None. split; [reflexivity|]. cbn. apply cont_wr; [exact Hc | lia | lia].
  - (* PPushStoreB *) destruct Ho as (-> & Hb & Hv). injection E as <- <- <- <- _. rewrite fin_resv. split.
    + base; thw.
    + exists (Some (RPushOk, v)). split; [apply res_fin|]. cbn.
      rewrite !Z.add_0_r. rewrite cont_snoc by lia. rewrite Hv. reflexivity.
  - (* PPopLoadB *) injection E as <- <- <- <- _. cbn [goto tpc resv]. split.
    + base; thw.
    + exists None. split; reflexivity.
  - (* PPopStoreB *) subst b. injection E as <- <- <- <- _. cbn [goto tpc resv]. split.
    + replace (bt0 - 1 + 1) with (bt0 + 0) by lia. base; thw.
    + exists None. split; [reflexivity|]. cbn. f_equal; lia.
  - (* PPopLoadT *) subst b. destruct (bt0 <? tp0) eqn:C; injection E as <- <- <- <- _; zb; cbn [goto tpc resv]; split.
    + base; thw.
    + exists None. split; reflexivity.
    + base; thw.
    + exists None. split; reflexivity.
  - (* PPopRestore *) subst b. injection E as <- <- <- <- _. rewrite fin_resv. split.
    + replace (bt0 + 1 + 0) with (bt0 + 1) by lia. base; thw.
    + exists (Some (RPopFail, 0)). split; [apply res_fin|]. cbn. f_equal; lia.
  - (* PPopSlot *) destruct Ho as (-> & Htb & Hlt). destruct (t <? bt0) eqn:C; injection E as <- <- <- <- _; zb.
    + rewrite fin_resv. specialize (Hlt C). split.
      * base; thw.
      * exists (Some (RPopOk, rd cp sl0 bt0)). split; [apply res_fin|]. cbn.
        rewrite Z.add_0_r. apply cont_snoc. lia.
    + cbn [goto tpc resv]. split.
      * base; thw.
      * exists None. split; reflexivity.
  - (* PPopStoreB2 *) destruct Ho as (-> & -> & Hout). injection E as <- <- <- <- _. cbn [goto tpc resv]. split.
    + replace (bt0 + 1 + 0) with (bt0 + 1) by lia. base; thw.
    + exists None. split; [reflexivity|]. cbn. f_equal; lia.
  - (* PPopCas *) destruct Ho as (-> & -> & Hout). destruct (tp0 =? b) eqn:C; injection E as <- <- <- <- _; zb; rewrite fin_resv; split.
    + subst tp0. base; eapply thieves_incr; exact Ht.
    + subst tp0. exists (Some (RPopOk, out)). split; [apply res_fin|]. cbn.
      rewrite !Z.add_0_r. rewrite (cont_head b (b + 1)) by lia. rewrite (cont_empty (b + 1)) by lia. rewrite Hout. reflexivity.
    + base; thw.
    + exists (Some (RPopFail, 0)). split; [apply res_fin | reflexivity].
  - (* PStealLoadT *) injection E as <- <- <- <- _. cbn [goto tpc resv]. split.
    + base; thw.
    + exists None. split; reflexivity.
  - (* PStealLoadB *) destruct (bt0 <=? t) eqn:C; injection E as <- <- <- <- _; zb.
    + rewrite fin_resv. split.
      * base; thw.
      * exists (Some (RStealFail, 0)). split; [apply res_fin | reflexivity].
    + cbn [goto tpc resv]. split.
      * base; thw.
      * exists None. split; reflexivity.
  - (* PStealSlot *) destruct Hs as [Hs1 Hs2]. injection E as <- <- <- <- _. cbn [goto tpc resv]. split.
    + base; try (intros X; destruct (Hs2 X); auto; lia); thw.
    + exists None. split; reflexivity.
  - (* PStealCas *) destruct Hs as [Hs1 Hs2]. destruct (tp0 =? t) eqn:C; injection E as <- <- <- <- _; zb; rewrite fin_resv; split.
    + subst tp0. destruct (Hs2 eq_refl) as (A & _ & Hout).
      base; eapply thieves_incr; exact Ht.
    + subst tp0. destruct (Hs2 eq_refl) as (A & _ & Hout).
      exists (Some (RStealOk, out)). split; [apply res_fin|]. cbn. rewrite Hout. apply cont_head. lia.
    + base; thw.
    + exists (Some (RStealFail, 0)). split; [apply res_fin | reflexivity].
Qed.

(* ---------- a step of a thief ---------- *)
Lemma owner_ok_incr tp bt sl cp p : owner_ok tp bt sl cp p -> nores p tp -> owner_ok (tp + 1) bt sl cp p.
Proof. destruct p; cbn; intuition lia. Qed.

Lemma owner_ok_nores tp bt sl cp p t : owner_ok tp bt sl cp p -> t < bt -> nores p t.
Proof. destruct p; cbn; intuition lia. Qed.

Lemma resv_range p : 0 <= resv p <= 1.
Proof. destruct p; cbn; lia. Qed.

Lemma thief_step tp0 bt0 sl0 cp ow ths k th tp bt sl th' site :
  InvC tp0 bt0 sl0 cp ow ths -> nth_error ths k = Some th -> exec tp0 bt0 sl0 cp th = Some (tp, bt, sl, th', site) ->
  InvC tp bt sl cp ow (set_nth ths k th') /\
  exists e, logged th th' e /\ eff e (contC tp0 bt0 sl0 cp ow) (contC tp bt sl cp ow) /\
            (e = None \/ e = Some (RStealFail, 0) \/ exists v, e = Some (RStealOk, v)).
Proof.
  intros (Hc & Hl & Hr & Ho & Hs & Ht) N E. unfold contC, InvC.
  pose proof (pow2cap_pos _ Hc) as Hcp. pose proof (resv_range (tpc ow)) as Hrv.
  pose proof Ht as Ht'. rewrite Forall_forall in Ht'. destruct (Ht' _ (nth_error_In _ _ N)) as [[Hp Hpr] Hst]. clear Ht'.
  destruct th as [p pr rs]. unfold exec in E. cbn [tpc prog] in *.
  destruct p; cbn in Hp; try discriminate; cbn [steal_ok] in Hst.
  - (* PStart *) injection E as <- <- <- <- _. split.
    + base. apply Forall_set_nth; [exact Ht|]. split; [apply next_steal_only; exact Hpr | apply next_steal_ok].
    + exists None. split; [unfold logged; apply res_next|]. split; [reflexivity | auto].
  - (* PStealLoadT *) injection E as <- <- <- <- _. split.
    + base. apply Forall_set_nth; [exact Ht|]. split; [split; [reflexivity | exact Hpr] | cbn; lia].
    + exists None. split; [reflexivity|]. split; [reflexivity | auto].
  - (* PStealLoadB *) destruct (bt0 <=? t) eqn:C; injection E as <- <- <- <- _; zb; split.
    + base. apply Forall_set_nth; [exact Ht|]. split; [apply next_steal_only; exact Hpr | apply next_steal_ok].
    + exists (Some (RStealFail, 0)). split; [apply res_fin|]. split; [reflexivity | auto].
    + base. apply Forall_set_nth; [exact Ht|]. split; [split; [reflexivity | exact Hpr]|].
      cbn. split; [exact Hst|]. intros X. split; [lia|]. eapply owner_ok_nores; [exact Ho | lia].
    + exists None. split; [reflexivity|]. split; [reflexivity | auto].
  - (* PStealSlot *) destruct Hst as [Hs1 Hs2]. injection E as <- <- <- <- _. split.
    + base. apply Forall_set_nth; [exact Ht|]. split; [split; [reflexivity | exact Hpr]|].
      cbn. split; [exact Hs1|]. intros X. destruct (Hs2 X). auto.
    + exists None. split; [reflexivity|]. split; [reflexivity | auto].
  - (* PStealCas *) destruct Hst as [Hs1 Hs2]. destruct (tp0 =? t) eqn:C; injection E as <- <- <- <- _; zb; split.
    + subst tp0. destruct (Hs2 eq_refl) as (A & B & Hout).
      base; [apply owner_ok_incr; assumption | eapply steal_ok_incr; exact Hs |].
      apply Forall_set_nth; [eapply thieves_incr; exact Ht|].
      split; [apply next_steal_only; exact Hpr | apply next_steal_ok].
    + subst tp0. destruct (Hs2 eq_refl) as (A & B & Hout).
      exists (Some (RStealOk, out)). split; [apply res_fin|]. split; [|right; right; eauto].
      cbn. rewrite Hout. apply cont_head. lia.
    + base. apply Forall_set_nth; [exact Ht|]. split; [apply next_steal_only; exact Hpr | apply next_steal_ok].
    + exists (Some (RStealFail, 0)). split; [apply res_fin|]. split; [reflexivity | auto].
Qed.

(* ---------- the global step ---------- *)
Definition gain_push (e : option (rtag * Z)) (l : list Z) : list Z :=
  match e with Some (RPushOk, v) => v :: l | _ => l end.
Definition gain_take (e : option (rtag * Z)) (l : list Z) : list Z :=
  match e with Some (RPopOk, v) | Some (RStealOk, v) => v :: l | _ => l end.

Lemma vals_logged f th th' e :
  logged th th' e ->
  vals f (res th') = match e with Some (g, v) => if f g then v :: vals f (res th) else vals f (res th) | None => vals f (res th) end.
Proof. unfold logged. intros ->. destruct e as [[g v]|]; [|reflexivity]. unfold vals. cbn. destruct (f g); reflexivity. Qed.

Lemma step_full s t ch s' ch' site :
  Inv s -> step s t ch = Some (s', ch', site) ->
  Inv s' /\ cap s' = cap s /\
  exists th th' e, thr s t = Some th /\ thr s' t = Some th' /\ logged th th' e /\
    eff e (content s) (content s') /\
    pushed s' = gain_push e (pushed s) /\ Permutation (returned s') (gain_take e (returned s)).
Proof.
  intros I E. destruct s as [tp0 bt0 sl0 cp ow ths]. unfold Inv in I. cbn [top bot slots cap owner thieves] in I.
  destruct t as [|k]; cbn [step top bot slots cap owner thieves] in E.
  - destruct (exec tp0 bt0 sl0 cp ow) as [[[[[tp bt] sl] th'] st]|] eqn:X; [|discriminate]. injection E as <- _ _.
    destruct (owner_step _ _ _ _ _ _ _ _ _ _ _ I X) as [I' [e [Lg Ef]]].
    split; [exact I'|]. split; [reflexivity|]. exists ow, th', e. cbn [thr owner]. repeat split; auto.
    + unfold pushed. cbn [owner]. rewrite (vals_logged _ _ _ _ Lg). destruct e as [[g v]|]; [destruct g|]; reflexivity.
    + unfold returned. cbn [owner thieves]. rewrite (vals_logged _ _ _ _ Lg). destruct e as [[g v]|]; [destruct g|]; reflexivity.
  - destruct (nth_error ths k) as [th|] eqn:N; [|discriminate].
    destruct (exec tp0 bt0 sl0 cp th) as [[[[[tp bt] sl] th'] st]|] eqn:X; [|discriminate]. injection E as <- _ _.
    destruct (thief_step _ _ _ _ _ _ _ _ _ _ _ _ _ I N X) as [I' [e [Lg [Ef Ek]]]].
    split; [exact I'|]. split; [reflexivity|]. exists th, th', e. cbn [thr thieves].
    split; [exact N|]. split; [eapply nth_error_set_nth_same; exact N|]. split; [exact Lg|]. split; [exact Ef|].
    unfold pushed, returned. cbn [owner thieves].
    destruct Ek as [->|[->|[v ->]]]; cbn [gain_push gain_take].
    + split; [reflexivity|]. erewrite flat_map_set_nth_same; [reflexivity | exact N |]. rewrite (vals_logged _ _ _ _ Lg). reflexivity.
    + split; [reflexivity|]. erewrite flat_map_set_nth_same; [reflexivity | exact N |]. rewrite (vals_logged _ _ _ _ Lg). reflexivity.
    + split; [reflexivity|].
      rewrite (flat_map_set_nth_cons (fun th0 => vals is_take_ok (res th0)) ths k th' th v N).
      * symmetry. apply Permutation_middle.
      * rewrite (vals_logged _ _ _ _ Lg). reflexivity.
Qed.

(* ---------- exactly once, in push order ---------- *)
Inductive sublist {A} : list A -> list A -> Prop :=
| sl_nil l : sublist [] l
| sl_cons x l1 l2 : sublist l1 l2 -> sublist (x :: l1) (x :: l2)
| sl_skip x l1 l2 : sublist l1 l2 -> sublist l1 (x :: l2).

Lemma sublist_snoc {A} (l1 l2 : list A) x : sublist l1 l2 -> sublist (l1 ++ [x]) (l2 ++ [x]).
Proof.
  induction 1 as [l|y l1 l2 H IH|y l1 l2 H IH]; cbn.
  - induction l as [|a l IH]; cbn; [apply sl_cons, sl_nil | apply sl_skip, IH].
  - apply sl_cons, IH.
  - apply sl_skip, IH.
Qed.

Lemma sublist_tail {A} (l1 l2 : list A) x : sublist (x :: l1) l2 -> sublist l1 l2.
Proof.
  intros H. remember (x :: l1) as l eqn:E. revert E. induction H as [l|y k1 k2 H IH|y k1 k2 H IH]; intros E.
  - discriminate.
  - injection E as -> ->. apply sl_skip, H.
  - apply sl_skip, IH, E.
Qed.

Lemma sublist_front {A} (l1 l2 : list A) x : sublist (l1 ++ [x]) l2 -> sublist l1 l2.
Proof.
  intros H. remember (l1 ++ [x]) as l eqn:E. revert l1 E. induction H as [l|y k1 k2 H IH|y k1 k2 H IH]; intros l1 E.
  - destruct l1; discriminate.
  - destruct l1 as [|a l1]; cbn in E.
    + apply sl_nil.
    + injection E as -> ->. apply sl_cons, IH. reflexivity.
  - apply sl_skip, IH, E.
Qed.

Definition ExOnce (s : state) : Prop := Permutation (pushed s) (returned s ++ content s).
Definition InOrder (s : state) : Prop := sublist (content s) (rev (pushed s)).
Definition Full (s : state) : Prop := Inv s /\ ExOnce s /\ InOrder s.

Lemma step_Full s t ch s' ch' site : Full s -> step s t ch = Some (s', ch', site) -> Full s'.
Proof.
  intros (I & X & O) E. destruct (step_full _ _ _ _ _ _ I E) as (I' & _ & th & th' & e & _ & _ & _ & Ef & Hp & Hr).
  split; [exact I'|]. unfold ExOnce, InOrder in *. rewrite Hp, Hr.
  destruct e as [[g v]|]; [destruct g|]; cbn [eff gain_push gain_take] in *; try (rewrite Ef; auto; fail).
  - (* push *) rewrite Ef. split.
    + rewrite app_assoc. rewrite <- Permutation_cons_append. apply perm_skip. exact X.
    + cbn [rev]. apply sublist_snoc. exact O.
  - (* pop *) rewrite Ef in X, O. split.
    + rewrite X. rewrite app_assoc. rewrite <- Permutation_cons_append. reflexivity.
    + eapply sublist_front. exact O.
  - (* steal *) rewrite Ef in X, O. split.
    + rewrite X. symmetry. apply Permutation_middle.
    + eapply sublist_tail. exact O.
Qed.

Lemma flat_map_nil {A B} (f : A -> list B) l : (forall x, In x l -> f x = []) -> flat_map f l = [].
Proof. induction l as [|a l IH]; intros H; cbn; [reflexivity|]. rewrite (H a) by (left; reflexivity). apply IH. intros x Hx. apply H. right. exact Hx. Qed.

Definition wf_thieves (tprogs : list (list op)) : Prop := Forall (Forall steal_op) tprogs.

Lemma init_Full cp i0 oprog tprogs : pow2cap cp -> wf_thieves tprogs -> Full (init cp i0 oprog tprogs).
Proof.
  intros P W. pose proof (pow2cap_pos _ P) as Hcp.
  assert (C0 : content (init cp i0 oprog tprogs) = []) by (unfold content, lbot, init; cbn; apply cont_empty; lia).
  split; [|split].
  - unfold Inv, InvC, init. cbn. repeat split; auto; try lia.
    + apply repeat_length.
    + apply Forall_forall. intros th Hth. apply in_map_iff in Hth. destruct Hth as [p [<- Hp]].
      unfold wf_thieves in W. rewrite Forall_forall in W. repeat split; cbn; auto.
  - unfold ExOnce. rewrite C0. unfold pushed, returned, init. cbn.
    rewrite flat_map_nil; [reflexivity|]. intros th Hth. apply in_map_iff in Hth. destruct Hth as [p [<- _]]. reflexivity.
  - unfold InOrder. rewrite C0. apply sl_nil.
Qed.

Theorem reach_Full cp i0 oprog tprogs s :
  pow2cap cp -> wf_thieves tprogs -> reach step (init cp i0 oprog tprogs) s -> Full s.
Proof.
  intros P W R. apply (reach_inv step Full (init cp i0 oprog tprogs)); [apply init_Full; assumption | | exact R].
  intros s1 t ch s1' ch' site F E. eapply step_Full; eauto.
Qed.

(* ---------- the theorems ---------- *)
Theorem cl_invariant cp i0 oprog tprogs s :
  pow2cap cp -> wf_thieves tprogs -> reach step (init cp i0 oprog tprogs) s -> Inv s.
Proof. intros P W R. exact (proj1 (reach_Full _ _ _ _ _ P W R)). Qed.

Theorem cl_exactly_once cp i0 oprog tprogs s :
  pow2cap cp -> wf_thieves tprogs -> reach step (init cp i0 oprog tprogs) s ->
  Permutation (pushed s) (returned s ++ content s).
Proof. intros P W R. exact (proj1 (proj2 (reach_Full _ _ _ _ _ P W R))). Qed.

(* tagged (pairwise distinct) elements: nothing is returned twice, nothing returned is still inside, nothing is invented *)
Corollary cl_no_duplicates cp i0 oprog tprogs s :
  pow2cap cp -> wf_thieves tprogs -> reach step (init cp i0 oprog tprogs) s ->
  NoDup (pushed s) -> NoDup (returned s ++ content s) /\ (forall v, In v (returned s ++ content s) <-> In v (pushed s)).
Proof.
  intros P W R N. pose proof (cl_exactly_once _ _ _ _ _ P W R) as X. split.
  - eapply Permutation_NoDup; eauto.
  - intros v. split; intros H; [eapply Permutation_in; [symmetry; exact X | exact H] | eapply Permutation_in; eauto].
Qed.

Theorem cl_content_in_push_order cp i0 oprog tprogs s :
  pow2cap cp -> wf_thieves tprogs -> reach step (init cp i0 oprog tprogs) s -> sublist (content s) (rev (pushed s)).
Proof. intros P W R. exact (proj2 (proj2 (reach_Full _ _ _ _ _ P W R))). Qed.

Lemma quiescent_owner s : quiescent s = true -> resv (tpc (owner s)) = 0.
Proof.
  unfold quiescent. cbn [forallb]. intros H. apply andb_true_iff in H. destruct H as [H _].
  unfold at_entry in H. destruct (tpc (owner s)); try discriminate; reflexivity.
Qed.

(* in a quiescent state the content is exactly slots[top .. bottom) *)
Theorem quiescent_content s : quiescent s = true -> content s = cont (top s) (bot s) (slots s) (cap s).
Proof. intros Q. unfold content, lbot. rewrite (quiescent_owner _ Q). f_equal. lia. Qed.

Lemma cons_neq {A} (x : A) l : l <> x :: l.
Proof. intros E. apply (f_equal (@length A)) in E. cbn in E. lia. Qed.

Lemma logged_inv th th' e x : logged th th' e -> res th' = x :: res th -> e = Some x.
Proof.
  unfold logged. intros L E. rewrite L in E. destruct e as [y|].
  - injection E as ->. reflexivity.
  - exfalso. eapply cons_neq. exact E.
Qed.

Lemma step_thr s t ch s' ch' site th th' :
  Inv s -> step s t ch = Some (s', ch', site) -> thr s t = Some th -> thr s' t = Some th' ->
  exists e, logged th th' e /\ eff e (content s) (content s').
Proof.
  intros I E T T'. destruct (step_full _ _ _ _ _ _ I E) as (_ & _ & a & a' & e & Ta & Ta' & L & Ef & _).
  rewrite T in Ta. rewrite T' in Ta'. injection Ta as <-. injection Ta' as <-. eauto.
Qed.

(* a successful owner pop returns the NEWEST remaining element (the last of the content, which is in push order) *)
Theorem owner_pop_newest cp i0 oprog tprogs s ch s' ch' site v :
  pow2cap cp -> wf_thieves tprogs -> reach step (init cp i0 oprog tprogs) s ->
  step s 0 ch = Some (s', ch', site) -> res (owner s') = (RPopOk, v) :: res (owner s) ->
  content s = content s' ++ [v].
Proof.
  intros P W R E Hr. pose proof (cl_invariant _ _ _ _ _ P W R) as I.
  destruct (step_thr s 0 ch s' ch' site (owner s) (owner s') I E eq_refl eq_refl) as [e [L Ef]].
  rewrite (logged_inv _ _ _ _ L Hr) in Ef. exact Ef.
Qed.

(* a successful steal (by any thread) returns the OLDEST remaining element *)
Theorem steal_oldest cp i0 oprog tprogs s t ch s' ch' site th th' v :
  pow2cap cp -> wf_thieves tprogs -> reach step (init cp i0 oprog tprogs) s ->
  step s t ch = Some (s', ch', site) -> thr s t = Some th -> thr s' t = Some th' -> res th' = (RStealOk, v) :: res th ->
  content s = v :: content s'.
Proof.
  intros P W R E T T' Hr. pose proof (cl_invariant _ _ _ _ _ P W R) as I.
  destruct (step_thr s t ch s' ch' site th th' I E T T') as [e [L Ef]].
  rewrite (logged_inv _ _ _ _ L Hr) in Ef. exact Ef.
Qed.

(* a successful push appends at the bottom; a failed operation and every intermediate step leave the content unchanged *)
Theorem push_appends cp i0 oprog tprogs s ch s' ch' site v :
  pow2cap cp -> wf_thieves tprogs -> reach step (init cp i0 oprog tprogs) s ->
  step s 0 ch = Some (s', ch', site) -> res (owner s') = (RPushOk, v) :: res (owner s) ->
  content s' = content s ++ [v].
Proof.
  intros P W R E Hr. pose proof (cl_invariant _ _ _ _ _ P W R) as I.
  destruct (step_thr s 0 ch s' ch' site (owner s) (owner s') I E eq_refl eq_refl) as [e [L Ef]].
  rewrite (logged_inv _ _ _ _ L Hr) in Ef. exact Ef.
Qed.

Theorem other_steps_keep_content cp i0 oprog tprogs s t ch s' ch' site th th' :
  pow2cap cp -> wf_thieves tprogs -> reach step (init cp i0 oprog tprogs) s ->
  step s t ch = Some (s', ch', site) -> thr s t = Some th -> thr s' t = Some th' ->
  (forall v, res th' <> (RPushOk, v) :: res th /\ res th' <> (RPopOk, v) :: res th /\ res th' <> (RStealOk, v) :: res th) ->
  content s' = content s.
Proof.
  intros P W R E T T' Hn. pose proof (cl_invariant _ _ _ _ _ P W R) as I.
  destruct (step_thr s t ch s' ch' site th th' I E T T') as [e [L Ef]].
  destruct e as [[g v]|]; [|exact Ef]. unfold logged in L. destruct (Hn v) as (A & B & C).
  destruct g; cbn in Ef; try exact Ef; contradiction.
Qed.

(* the deque never holds more than its capacity: neither logically nor as bottom_ - top_ *)
Theorem cl_bounded cp i0 oprog tprogs s :
  pow2cap cp -> wf_thieves tprogs -> reach step (init cp i0 oprog tprogs) s ->
  Z.of_nat (length (content s)) <= cap s /\ bot s - top s <= cap s /\ top s <= bot s + 1.
Proof.
  intros P W R. destruct (cl_invariant _ _ _ _ _ P W R) as (_ & _ & Hr & _).
  pose proof (resv_range (tpc (owner s))). unfold content. rewrite cont_length. unfold lbot. lia.
Qed.

Theorem cl_run_reach fuel cp i0 oprog tprogs sched :
  reach step (init cp i0 oprog tprogs) (fst (fst (run_cl fuel cp i0 oprog tprogs sched))).
Proof. apply run_reach. apply reach_refl. Qed.

(* ---------- quiescent states: pop and steal succeed iff the deque is non-empty ---------- *)
Fixpoint iter_exec (n : nat) (tp bt : Z) (sl : list Z) (cp : Z) (th : thread) : option (Z * Z * list Z * thread) :=
  match n with
  | O => Some (tp, bt, sl, th)
  | S m => match exec tp bt sl cp th with
           | Some (tp', bt', sl', th', _) => iter_exec m tp' bt' sl' cp th'
           | None => None
           end
  end.

Lemma solo_owner n : forall tp bt sl cp ow ths,
  solo n (ST tp bt sl cp ow ths) 0 =
  match iter_exec n tp bt sl cp ow with Some (tp', bt', sl', ow') => Some (ST tp' bt' sl' cp ow' ths) | None => None end.
Proof.
  induction n as [|n IH]; intros; cbn [solo iter_exec step top bot slots cap owner thieves]; [reflexivity|].
  destruct (exec tp bt sl cp ow) as [[[[[tp' bt'] sl'] th'] st]|]; [apply IH | reflexivity].
Qed.

Lemma set_nth_set_nth {A} (l : list A) k x y : set_nth (set_nth l k x) k y = set_nth l k y.
Proof. revert k; induction l as [|a l IH]; intros [|k]; cbn; auto. f_equal. apply IH. Qed.

Lemma set_nth_id {A} (l : list A) k x : nth_error l k = Some x -> set_nth l k x = l.
Proof. revert k; induction l as [|a l IH]; intros [|k] H; cbn in *; try discriminate; [injection H as ->; reflexivity | f_equal; auto]. Qed.

Lemma solo_thief n : forall tp bt sl cp ow ths k th, nth_error ths k = Some th ->
  solo n (ST tp bt sl cp ow ths) (S k) =
  match iter_exec n tp bt sl cp th with Some (tp', bt', sl', th') => Some (ST tp' bt' sl' cp ow (set_nth ths k th')) | None => None end.
Proof.
  induction n as [|n IH]; intros tp bt sl cp ow ths k th N; cbn [solo iter_exec step top bot slots cap owner thieves].
  - rewrite (set_nth_id _ _ _ N). reflexivity.
  - rewrite N. destruct (exec tp bt sl cp th) as [[[[[tp' bt'] sl'] th'] st]|]; [|reflexivity].
    rewrite (IH tp' bt' sl' cp ow (set_nth ths k th') k th' (nth_error_set_nth_same _ _ _ _ N)).
    destruct (iter_exec n tp' bt' sl' cp th') as [[[[a b] c] d]|]; [|reflexivity]. rewrite set_nth_set_nth. reflexivity.
Qed.

Lemma next_at_entry th : at_entry (next th) = true.
Proof. unfold next, at_entry. destruct (prog th) as [|o r]; cbn; [reflexivity | destruct o; reflexivity]. Qed.

(* try_pop run alone on slots[tp..bt) *)
Lemma pop_alone tp bt sl cp pr rs : tp <= bt ->
  exists n tp' bt' th',
    iter_exec n tp bt sl cp (TH PPopLoadB pr rs) = Some (tp', bt', sl, th') /\ at_entry th' = true /\ resv (tpc th') = 0 /\
    ((tp < bt /\ res th' = (RPopOk, rd cp sl (bt - 1)) :: rs /\ cont tp bt sl cp = cont tp' bt' sl cp ++ [rd cp sl (bt - 1)]) \/
     (tp = bt /\ res th' = (RPopFail, 0) :: rs /\ tp' = tp /\ bt' = bt)).
Proof.
  intros H. destruct (Z_lt_le_dec tp (bt - 1)) as [A|A]; [|destruct (Z.eq_dec tp (bt - 1)) as [B|B]].
  - (* several elements: no CAS *)
    exists 4%nat, tp, (bt - 1), (fin (TH (PPopSlot (bt - 1) tp) pr rs) RPopOk (rd cp sl (bt - 1))).
    cbn [iter_exec]. unfold exec at 1. cbn [tpc goto prog res]. unfold exec at 1. cbn [tpc goto prog res].
    unfold exec at 1. cbn [tpc goto prog res]. replace (bt - 1 <? tp) with false by (symmetry; apply Z.ltb_ge; lia).
    unfold exec at 1. cbn [tpc goto prog res]. replace (tp <? bt - 1) with true by (symmetry; apply Z.ltb_lt; lia).
    split; [reflexivity|]. split; [apply next_at_entry|]. split; [apply fin_resv|]. left.
    split; [lia|]. split; [apply res_fin|]. replace bt with (bt - 1 + 1) at 1 by lia. apply cont_snoc. lia.
  - (* last element: CAS, nobody else runs *)
    exists 6%nat, (tp + 1), bt, (fin (TH (PPopCas (bt - 1) tp (rd cp sl (bt - 1))) pr rs) RPopOk (rd cp sl (bt - 1))).
    cbn [iter_exec]. unfold exec at 1. cbn [tpc goto prog res]. unfold exec at 1. cbn [tpc goto prog res].
    unfold exec at 1. cbn [tpc goto prog res]. replace (bt - 1 <? tp) with false by (symmetry; apply Z.ltb_ge; lia).
    unfold exec at 1. cbn [tpc goto prog res]. replace (tp <? bt - 1) with false by (symmetry; apply Z.ltb_ge; lia).
    unfold exec at 1. cbn [tpc goto prog res]. unfold exec at 1. cbn [tpc goto prog res]. rewrite Z.eqb_refl.
    replace (bt - 1 + 1) with bt by lia.
    split; [reflexivity|]. split; [apply next_at_entry|]. split; [apply fin_resv|]. left.
    split; [lia|]. split; [apply res_fin|]. rewrite (cont_empty (tp + 1) bt) by lia. cbn [app].
    rewrite (cont_head tp bt) by lia. rewrite (cont_empty (tp + 1) bt) by lia. rewrite B. reflexivity.
  - (* empty *)
    exists 4%nat, tp, bt, (fin (TH (PPopRestore (bt - 1)) pr rs) RPopFail 0).
    cbn [iter_exec]. unfold exec at 1. cbn [tpc goto prog res]. unfold exec at 1. cbn [tpc goto prog res].
    unfold exec at 1. cbn [tpc goto prog res]. replace (bt - 1 <? tp) with true by (symmetry; apply Z.ltb_lt; lia).
    unfold exec at 1. cbn [tpc goto prog res]. replace (bt - 1 + 1) with bt by lia.
    split; [reflexivity|]. split; [apply next_at_entry|]. split; [apply fin_resv|]. right.
    split; [lia|]. split; [apply res_fin|]. split; reflexivity.
Qed.

(* try_steal run alone on slots[tp..bt) *)
Lemma steal_alone tp bt sl cp pr rs : tp <= bt ->
  exists n tp' th',
    iter_exec n tp bt sl cp (TH PStealLoadT pr rs) = Some (tp', bt, sl, th') /\ at_entry th' = true /\ resv (tpc th') = 0 /\
    ((tp < bt /\ res th' = (RStealOk, rd cp sl tp) :: rs /\ cont tp bt sl cp = rd cp sl tp :: cont tp' bt sl cp) \/
     (tp = bt /\ res th' = (RStealFail, 0) :: rs /\ tp' = tp)).
Proof.
  intros H. destruct (Z_lt_le_dec tp bt) as [A|A].
  - exists 4%nat, (tp + 1), (fin (TH (PStealCas tp (rd cp sl tp)) pr rs) RStealOk (rd cp sl tp)).
    cbn [iter_exec]. unfold exec at 1. cbn [tpc goto prog res].
    unfold exec at 1. cbn [tpc goto prog res]. replace (bt <=? tp) with false by (symmetry; apply Z.leb_gt; lia).
    unfold exec at 1. cbn [tpc goto prog res]. unfold exec at 1. cbn [tpc goto prog res]. rewrite Z.eqb_refl.
    split; [reflexivity|]. split; [apply next_at_entry|]. split; [apply fin_resv|]. left.
    split; [lia|]. split; [apply res_fin|]. apply cont_head. lia.
  - exists 2%nat, tp, (fin (TH (PStealLoadB tp) pr rs) RStealFail 0).
    cbn [iter_exec]. unfold exec at 1. cbn [tpc goto prog res].
    unfold exec at 1. cbn [tpc goto prog res]. replace (bt <=? tp) with true by (symmetry; apply Z.leb_le; lia).
    split; [reflexivity|]. split; [apply next_at_entry|]. split; [apply fin_resv|]. right.
    split; [lia|]. split; [apply res_fin | reflexivity].
Qed.

(* quiescent state, the owner is about to pop and runs alone: the pop succeeds iff the deque is non-empty, and then returns
   the newest element; it leaves the deque quiescent again *)
Theorem quiescent_pop_iff_nonempty s :
  Inv s -> quiescent s = true -> tpc (owner s) = PPopLoadB ->
  exists n s' g v, solo n s 0 = Some s' /\ res (owner s') = (g, v) :: res (owner s) /\ at_entry (owner s') = true /\
    (g = RPopOk <-> content s <> []) /\
    ((g = RPopOk /\ content s = content s' ++ [v]) \/ (g = RPopFail /\ content s = [] /\ content s' = [])).
Proof.
  intros I Q Pc. destruct s as [tp bt sl cp ow ths]. cbn [owner] in Pc. destruct ow as [p pr rs]. cbn [tpc] in Pc. subst p.
  unfold Inv, InvC in I. cbn in I. destruct I as (_ & _ & Hr & _).
  destruct (pop_alone tp bt sl cp pr rs ltac:(lia)) as (n & tp' & bt' & th' & X & Ae & Rv & Hcase).
  exists n, (ST tp' bt' sl cp th' ths). unfold content, lbot. cbn [top bot slots cap owner tpc resv res]. rewrite Rv, !Z.add_0_r.
  destruct Hcase as [(A & Rs & Cn)|(A & Rs & -> & ->)].
  - exists RPopOk, (rd cp sl (bt - 1)). rewrite solo_owner, X. split; [reflexivity|]. split; [exact Rs|]. split; [exact Ae|].
    split; [|left; split; [reflexivity | exact Cn]].
    split; [intros _; rewrite Cn; intros Z0; apply app_eq_nil in Z0; destruct Z0; discriminate | reflexivity].
  - exists RPopFail, 0. rewrite solo_owner, X. split; [reflexivity|]. split; [exact Rs|]. split; [exact Ae|].
    rewrite (cont_empty tp bt) by lia.
    split; [split; [discriminate | intros Z0; contradiction] | right; auto].
Qed.

(* quiescent state, thread t (owner or thief) is about to steal and runs alone: the steal succeeds iff the deque is non-empty,
   and then returns the oldest element *)
Theorem quiescent_steal_iff_nonempty s t th :
  Inv s -> quiescent s = true -> thr s t = Some th -> tpc th = PStealLoadT ->
  exists n s' th' g v, solo n s t = Some s' /\ thr s' t = Some th' /\ res th' = (g, v) :: res th /\ at_entry th' = true /\
    (g = RStealOk <-> content s <> []) /\
    ((g = RStealOk /\ content s = v :: content s') \/ (g = RStealFail /\ content s = [] /\ content s' = [])).
Proof.
  intros I Q T Pc. pose proof (quiescent_owner _ Q) as Rv0.
  destruct s as [tp bt sl cp ow ths]. destruct th as [p pr rs]. cbn [tpc] in Pc. subst p. cbn [owner] in Rv0.
  unfold Inv, InvC in I. cbn [top bot slots cap owner thieves] in I. destruct I as (_ & _ & Hr & _). rewrite Rv0 in Hr.
  destruct (steal_alone tp bt sl cp pr rs ltac:(lia)) as (n & tp' & th' & X & Ae & Rv & Hcase).
  destruct t as [|k]; cbn [thr owner thieves] in T.
  - injection T as ->. exists n, (ST tp' bt sl cp th' ths), th'. unfold content, lbot. cbn [top bot slots cap owner tpc resv res thr].
    rewrite Rv, !Z.add_0_r. destruct Hcase as [(A & Rs & Cn)|(A & Rs & ->)].
    + exists RStealOk, (rd cp sl tp). rewrite solo_owner, X. repeat split; auto; try discriminate.
      * intros _. rewrite Cn. discriminate.
    + exists RStealFail, 0. rewrite solo_owner, X. rewrite (cont_empty tp bt) by lia. repeat split; auto; try discriminate.
      intros Z0; contradiction.
  - exists n, (ST tp' bt sl cp ow (set_nth ths k th')), th'. unfold content, lbot. cbn [top bot slots cap owner tpc resv res thr thieves].
    rewrite Rv0, !Z.add_0_r. rewrite (solo_thief n tp bt sl cp ow ths k _ T), X.
    rewrite (nth_error_set_nth_same _ _ _ _ T). destruct Hcase as [(A & Rs & Cn)|(A & Rs & ->)].
    + exists RStealOk, (rd cp sl tp). repeat split; auto; try discriminate.
      * intros _. rewrite Cn. discriminate.
    + exists RStealFail, 0. rewrite (cont_empty tp bt) by lia. repeat split; auto; try discriminate.
      intros Z0; contradiction.
Qed.
