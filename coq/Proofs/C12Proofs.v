(* C12: the body invocations of parallel_for tile [start, end) -- assembly of the per-path results at the level of
   the user-visible configuration (pfcfg), on top of the leaves regenerated from /repo. *)
From Coq Require Import ZArith List Bool Lia Zdiv Permutation.
From DV Require Import Base.MachInt Model.ChunkModel Proofs.ChunkProofs Proofs.StaticBoundsProofs Gen.GenChunk GenTie.ChunkGenTie
  Model.ParForModel Proofs.C17Proofs Model.DynLeafModel GenTie.DynGenTie Proofs.DynLeafProofs Model.DynModel Proofs.DynListProofs
  Proofs.DynDecideProofs Proofs.DynProofs Model.StripeModel Proofs.StripeProofs Base.Corr Model.C12Check.
Import ListNotations.
Local Open Scope Z_scope.
Ltac Zify.zify_post_hook ::= idtac.   (* divisions are handled by explicit lemmas here: the contexts are large *)

(* the invocations, as a multiset, tile [s, e): nothing for an empty range, otherwise some ordering of them is a
   contiguous chain from s to e *)
Definition is_partition (s e : Z) (l : list (Z * Z)) : Prop :=
  (e <= s -> l = []) /\ (s < e -> exists l', Permutation l l' /\ contiguous s l' e).

Lemma is_partition_of_perm s e l l' : s < e -> Permutation l l' -> contiguous s l' e -> is_partition s e l.
Proof. intros H P C. split; [lia|]. intros _. exists l'. split; assumption. Qed.

(* consequence in terms of indices: every index of [s,e) is covered by exactly one invocation, none lies outside *)
Lemma partition_indices s e l : is_partition s e l ->
  (forall i, s <= i < e -> length (filter (covers i) l) = 1%nat) /\
  (forall a b, In (a, b) l -> s <= a /\ a <= b /\ b <= e).
Proof.
  intros [H0 H1]. destruct (Z.le_gt_cases e s) as [L|L].
  - rewrite (H0 L). split; [intros; lia | intros a b []].
  - destruct (H1 L) as (l' & P & C). split.
    + intros i Hi. rewrite <- (contiguous_cover_once s l' e i C Hi).
      apply Permutation_length. clear - P. induction P; cbn [filter].
      * constructor.
      * destruct (covers i x); [constructor|]; exact IHP.
      * destruct (covers i x), (covers i y); try constructor; try apply Permutation_refl. 
      * eapply Permutation_trans; eassumption.
    + intros a b Hin. apply (contiguous_inside s l' e a b C). eapply Permutation_in; eassumption.
Qed.

Lemma dom_kind c : pf_dom c -> wf_kind (kind_of (pf_kn c)) /\ ik_w (kind_of (pf_kn c)) <= 64.
Proof. intros (Hkn & _). apply kind_of_wf. exact Hkn. Qed.

Lemma in_kind_mid k a x b : in_kind k a -> in_kind k b -> a <= x <= b -> in_kind k x.
Proof. unfold in_kind. lia. Qed.

(* ---------------------------------------------------------------- static / serial / empty *)
Lemma static_numThreads_range kn s e N mt g : (kn < 8)%nat -> s < e -> e - s < 2 ^ 63 -> 1 <= N -> 2 <= mt -> 1 <= g ->
  1 <= static_numThreads kn s e N mt g <= e - s.
Proof.
  intros Hkn Hse Hfit HN Hmt Hg. unfold static_numThreads.
  rewrite tie_range_size_of, range_size_id by (try exact Hkn; lia).
  destruct (1 <? g) eqn:G; [|lia].
  rewrite quot_div_nonneg by lia.
  assert (0 <= (e - s) / g <= e - s) by (split; [apply Z.div_pos; lia | apply Z.div_le_upper_bound; nia]).
  destruct ((e - s) / g <? Z.min (Z.min (N + 1) mt) (e - s)); lia.
Qed.

Lemma C12_static_proof c : pf_dom c ->
  pf_mode c = MEmpty \/ pf_mode c = MSerial \/ pf_mode c = MStatic ->
  exists l, static_calls c = Some l /\ contiguous (pf_s c) l (Z.max (pf_s c) (pf_e c)) /\ (pf_e c <= pf_s c -> l = []).
Proof.
  intros D M. pose proof D as (Hkn & Hs & He & Hub & HN & HmT & Hmi & Hgr & Hfit & Hch).
  destruct (dom_kind c D) as [Hwf Hw64].
  unfold pf_mode in M. unfold static_calls.
  destruct (decide_inv c D) as [[E0 Pth]|[[E0 Pth]|[F Pth]]].
  - rewrite Pth. exists []. rewrite Z.max_l by lia. split; [reflexivity|]. split; [reflexivity | auto].
  - rewrite Pth. exists [(pf_s c, pf_e c)]. rewrite Z.max_r by lia. split; [reflexivity|].
    split; [cbn [contiguous]; lia | intros; lia].
  - destruct F as [Flt Fg Fg1 Fe Fdiv Ftt Ftf Frem FN Fmt Fmi Fadj]. destruct Pth as [Pth|[[Pth _]|[Pth _]]]; rewrite Pth in *.
    2:{ destruct (pf_wait c); destruct M as [M|[M|M]]; discriminate. }
    2:{ destruct M as [M|[M|M]]; discriminate. }
    set (d := pf_decide c) in *. set (n := static_numThreads (pf_kn c) (pf_s c) (d_trimmedEnd d) (pf_N c) (d_maxThreads d) (d_g d)).
    pose proof (static_numThreads_range (pf_kn c) (pf_s c) (d_trimmedEnd d) (pf_N c) (d_maxThreads d) (d_g d) Hkn ltac:(lia) ltac:(lia) FN Fmt Fg1) as Nr.
    fold n in Nr.
    pose proof (C17_boundaries_partition_proof (pf_kn c) (pf_s c) (d_trimmedEnd d) n (d_g d) Hkn) as C17.
    cbv zeta in C17. rewrite (kind_of_nth _ Hkn) in C17.
    destruct C17 as [C17 _]; try assumption; try lia.
    { apply (in_kind_mid _ (pf_s c) _ (pf_e c)); [assumption|assumption|lia]. }
    { intros Sg W32. specialize (Hub Sg W32). lia. }
    rewrite Z.max_r by lia.
    eexists. split; [reflexivity|]. split; [|intros; lia].
    destruct (d_hasTail d) eqn:T.
    + eapply contiguous_app; [exact C17|]. specialize (Ftt eq_refl). cbn [contiguous]. lia.
    + rewrite app_nil_r. rewrite <- (Ftf eq_refl). exact C17.
Qed.

(* ---------------------------------------------------------------- dynamic *)
Lemma effective_groups_range l3 tw : 1 <= tw -> 1 <= effective_groups l3 tw <= tw.
Proof.
  intros H. unfold effective_groups. destruct ((1 <? l3) && (16 <? tw)) eqn:E.
  - apply andb_true_iff in E. destruct E as [E1 E2]. apply Z.ltb_lt in E1. lia.
  - rewrite quot_div_nonneg by lia. assert ((tw + 15) / 16 <= tw) by (apply Z.div_le_upper_bound; lia). lia.
Qed.

Lemma kmax_kind_pos kn : (kn < 8)%nat -> 127 <= kmax (kind_of kn).
Proof. intros H. unfold kind_of. do 8 (destruct kn as [|kn]; [vm_compute; discriminate|]). lia. Qed.

Lemma dyn_assemble k s e' e cs nl wait eg tail :
  wf_kind k -> ik_w k <= 64 -> in_kind k s -> in_kind k e' -> s < e' -> 1 <= cs -> e' - s < 2 ^ 63 ->
  1 <= nl + b2z wait -> 1 <= eg <= nl + b2z wait ->
  (tail = [] /\ e' = e) \/ (tail = [(e', e)] /\ e' <= e) ->
  let dc := DC k s e' cs ((e' - s + cs - 1) / cs) nl wait eg tail in
  (forall sched, dyn_complete dc sched = true -> Permutation (dyn_calls dc sched) (dyn_canon dc)) /\
  contiguous s (dyn_canon dc) e.
Proof.
  intros Hwf Hw64 Hs He Hse Hcs Hfit Hw Hg Ht dc. split.
  - intros sched Hc. apply (dyn_partition dc); try assumption.
    + subst dc; cbn [dc_nc]. apply Z.div_pos; lia.
    + subst dc; unfold dc_workers; cbn [dc_wait dc_launch]. intros ->. cbn [b2z]. lia.
    + subst dc; cbn [dc_tail]. destruct Ht as [[-> _]|[-> _]]; simpl; lia.
  - apply (dyn_canon_contiguous dc); subst dc; cbn [dc_k dc_s dc_e dc_cs dc_nc dc_tail]; try assumption. reflexivity.
Qed.

Lemma pf_tail_shape c : par_facts c ->
  (pf_tail c = [] /\ d_trimmedEnd (pf_decide c) = pf_e c) \/
  (pf_tail c = [(d_trimmedEnd (pf_decide c), pf_e c)] /\ d_trimmedEnd (pf_decide c) <= pf_e c).
Proof.
  intros F. destruct F as [Flt Fg Fg1 Fe Fdiv Ftt Ftf Frem FN Fmt Fmi Fadj]. unfold pf_tail.
  destruct (d_hasTail (pf_decide c)); [right; split; [reflexivity | lia] | left; split; [reflexivity | apply Ftf; reflexivity]].
Qed.

Lemma div_antitone a m n : 0 <= a -> 0 < m -> m <= n -> a / n <= a / m.
Proof. intros. apply Z.div_le_compat_l; lia. Qed.
Lemma div_le_ceil a m : 0 < m -> a / m <= (a + m - 1) / m.
Proof. intros. apply Z.div_le_mono; lia. Qed.

(* what calcChunkSize returns on the two non-static paths of an auto-chunked range *)
Lemma auto_chunk_size c md : pf_dom c -> par_facts c -> pf_chunk c = 0 -> d_path (pf_decide c) = PAdaptive ->
  md = 16 \/ md = 64 ->
  let d := pf_decide c in
  let nl := pf_numToLaunch c in
  1 <= nl <= pf_N c /\ nl + b2z (pf_wait c) <= d_maxThreads d /\
  exists cs, m_calcChunkSize (kind_of (pf_kn c)) (pf_s c) (d_trimmedEnd d) 0 nl (pf_wait c) (d_minItems d) (d_g d) md
             = Some (cs, (d_trimmedEnd d - pf_s c + cs - 1) / cs) /\
             1 <= cs <= d_trimmedEnd d - pf_s c /\ (1 < d_g d -> (d_g d | cs)).
Proof.
  intros D F C0 Pth Hmd. pose proof D as (Hkn & Hs & He & Hub & HN & HmT & Hmi & Hgr & Hfit & Hch).
  destruct (dom_kind c D) as [Hwf Hw64].
  destruct F as [Flt Fg Fg1 Fe Fdiv Ftt Ftf Frem FN Fmt Fmi Fadj]. cbv zeta.
  set (d := pf_decide c) in *. unfold pf_numToLaunch. fold d.
  assert (B : 0 <= b2z (pf_wait c) <= 1) by (destruct (pf_wait c); simpl; lia).
  destruct Fadj as (st' & ADJ & ST).
  assert (st' = false) by (destruct st'; [destruct ST as [ST _]; specialize (ST eq_refl); rewrite Pth in ST; discriminate | reflexivity]).
  subst st'. rewrite C0 in ADJ.
  assert (IS : m_isStatic (kind_of (pf_kn c)) 0 = false).
  { unfold m_isStatic. apply Z.eqb_neq. pose proof (kmax_kind_pos _ Hkn). lia. }
  rewrite IS in ADJ.
  pose proof (adjust_auto_spec (kind_of (pf_kn c)) (pf_s c) (d_trimmedEnd d) (Z.max (wrap_s 32 (pf_maxThreads c)) 1)
                (Z.max 1 (pf_minItems c)) (pf_N c) (pf_wait c) ltac:(lia) ltac:(lia) ltac:(lia) HN ltac:(lia)) as AS.
  rewrite ADJ in AS. destruct (AS eq_refl Fmt) as (A1 & A2 & A3 & A4).
  set (nl := Z.min (d_maxThreads d - b2z (pf_wait c)) (pf_N c)).
  assert (NL : 1 <= nl <= pf_N c /\ nl + b2z (pf_wait c) <= d_maxThreads d) by (subst nl; lia).
  split; [tauto|]. split; [tauto|].
  set (size := d_trimmedEnd d - pf_s c) in *.
  assert (G32 : 0 <= d_g d < 2 ^ 32 /\ d_g d <= pf_gran c + 1).
  { rewrite Fg. destruct ((pf_chunk c =? 0) || (pf_chunk c =? kmax (kind_of (pf_kn c)))); [|split; [|lia]; split; [lia|]; apply (Z.pow_pos_nonneg 2 32); lia]. lia. }
  assert (WLE : nl + b2z (pf_wait c) <= size).
  { destruct (Z.le_gt_cases (Z.max 1 (pf_minItems c)) 1) as [L|L]; [specialize (A4 L); lia|].
    specialize (A3 L).
    assert (2 <= size / (d_maxThreads d + b2z (pf_wait c))) by lia.
    pose proof (Z.mul_div_le size (d_maxThreads d + b2z (pf_wait c)) ltac:(lia)).
    assert ((d_maxThreads d + b2z (pf_wait c)) * 2 <= (d_maxThreads d + b2z (pf_wait c)) * (size / (d_maxThreads d + b2z (pf_wait c))))
      by (apply Z.mul_le_mono_nonneg_l; lia).
    lia. }
  assert (MIN : Z.max 1 (pf_minItems c) <= csz size (nl + b2z (pf_wait c)) (d_g d) 1).
  { pose proof (csz_bounds size (nl + b2z (pf_wait c)) (d_g d) 1 ltac:(lia) ltac:(lia) ltac:(lia) ltac:(lia) ltac:(intros; exact Fdiv)) as (C1 & C2 & C3).
    destruct (Z.le_gt_cases (Z.max 1 (pf_minItems c)) 1) as [L|L]; [lia|]. specialize (A3 L).
    pose proof (div_antitone size (nl + b2z (pf_wait c)) (d_maxThreads d + b2z (pf_wait c)) ltac:(lia) ltac:(lia) ltac:(lia)).
    pose proof (div_le_ceil size (nl + b2z (pf_wait c)) ltac:(lia)).
    rewrite !Z.mul_1_l in C2.
    lia. }
  rewrite Fmi.
  destruct (calc_auto_spec (kind_of (pf_kn c)) (pf_s c) (d_trimmedEnd d) ltac:(lia) (nl + b2z (pf_wait c)) (d_g d) (Z.max 1 (pf_minItems c))
              ltac:(lia) ltac:(lia) ltac:(intros; exact Fdiv) ltac:(fold size; lia) MIN nl (pf_wait c) md Hmd ltac:(lia) eq_refl WLE)
    as (cs & E & C1 & C2 & C3).
  exists cs. split; [exact E|]. split; [exact C1 | exact C3].
Qed.

(* the dynamic configuration parallel_for builds, in closed form *)
Lemma C12_dynamic_facts c l3 : pf_dom c -> pf_mode c = MDynamic ->
  par_facts c /\
  exists cs eg,
    pf_dyncfg c l3 = Some (DC (kind_of (pf_kn c)) (pf_s c) (d_trimmedEnd (pf_decide c)) cs
                              ((d_trimmedEnd (pf_decide c) - pf_s c + cs - 1) / cs) (pf_numToLaunch c) (pf_wait c) eg (pf_tail c)) /\
    1 <= cs /\ d_trimmedEnd (pf_decide c) - pf_s c < 2 ^ 63 /\ (d_g (pf_decide c) | cs) /\
    1 <= pf_numToLaunch c + b2z (pf_wait c) /\ 1 <= eg <= pf_numToLaunch c + b2z (pf_wait c).
Proof.
  intros D M. pose proof D as (Hkn & Hs & He & Hub & HN & HmT & Hmi & Hgr & Hfit & Hch).
  destruct (dom_kind c D) as [Hwf Hw64]. unfold pf_mode in M.
  destruct (decide_inv c D) as [[E0 Pth]|[[E0 Pth]|[F Pth]]]; [rewrite Pth in M; discriminate | rewrite Pth in M; discriminate|].
  split; [exact F|].
  pose proof F as [Flt Fg Fg1 Fe Fdiv Ftt Ftf Frem FN Fmt Fmi Fadj].
  unfold pf_dyncfg. rewrite tie_calcChunkSize_of by exact Hkn.
  destruct Pth as [Pth|[[Pth C0]|[Pth [C0 C1]]]]; rewrite Pth in M; [discriminate| |].
  - (* auto-chunked, wait = false *)
    destruct (pf_wait c) eqn:Wt; [discriminate|].
    destruct (auto_chunk_size c 16 D F C0 Pth ltac:(left; reflexivity)) as (NL & NL2 & cs & E & Cs & Dv).
    rewrite Wt in *. rewrite C0. rewrite E. exists cs. eexists. split; [reflexivity|]. cbn [b2z] in *.
    split; [lia|]. split; [lia|]. split.
    { destruct (Z.le_gt_cases (d_g (pf_decide c)) 1) as [L|L]; [replace (d_g (pf_decide c)) with 1 by lia; apply Z.divide_1_l | apply Dv; lia]. }
    split; [lia|]. apply effective_groups_range. lia.
  - (* explicit chunk size *)
    assert (Ch : 1 <= pf_chunk c < kmax (kind_of (pf_kn c))) by (destruct Hch as [?|[?|?]]; [contradiction|contradiction|assumption]).
    rewrite calc_explicit_spec by lia. exists (pf_chunk c). eexists. split; [reflexivity|].
    assert (B : 0 <= b2z (pf_wait c) <= 1) by (destruct (pf_wait c); simpl; lia).
    assert (G1 : d_g (pf_decide c) = 1).
    { rewrite Fg. replace (pf_chunk c =? 0) with false by (symmetry; apply Z.eqb_neq; lia).
      replace (pf_chunk c =? kmax (kind_of (pf_kn c))) with false by (symmetry; apply Z.eqb_neq; lia). reflexivity. }
    unfold pf_numToLaunch.
    split; [lia|]. split; [lia|]. split; [rewrite G1; apply Z.divide_1_l|].
    split; [lia|]. apply effective_groups_range. lia.
Qed.

Lemma C12_dynamic_proof c l3 : pf_dom c -> pf_mode c = MDynamic ->
  pf_s c < pf_e c /\
  exists dc, pf_dyncfg c l3 = Some dc /\
    (forall sched, dyn_complete dc sched = true -> Permutation (dyn_calls dc sched) (dyn_canon dc)) /\
    contiguous (pf_s c) (dyn_canon dc) (pf_e c).
Proof.
  intros D M. pose proof D as (Hkn & Hs & He & Hub & HN & HmT & Hmi & Hgr & Hfit & Hch).
  destruct (dom_kind c D) as [Hwf Hw64].
  destruct (C12_dynamic_facts c l3 D M) as (F & cs & eg & E & Cs & Fit & _ & W1 & W2).
  pose proof (pf_tail_shape c F) as TS. destruct F as [Flt Fg Fg1 Fe Fdiv Ftt Ftf Frem FN Fmt Fmi Fadj].
  split; [exact Flt|]. eexists. split; [exact E|].
  apply dyn_assemble; try assumption; try lia.
  apply (in_kind_mid _ (pf_s c) _ (pf_e c)); [assumption|assumption|lia].
Qed.

(* ---------------------------------------------------------------- adaptive (stripes) *)
Lemma kmin_wide_le k z : wf_kind k -> ik_w k <= 64 -> kmin k <= z -> kmin (wide k) <= z.
Proof.
  intros Hwf Hw64 H. pose proof (kmax_lt_p64 k Hwf Hw64) as (_ & K & _).
  unfold kmin, wide in *; simpl. destruct (ik_signed k); change (2 ^ (64 - 1)) with (2 ^ 63); lia.
Qed.

Lemma stripe_assemble k s e' e P cs g tail :
  wf_kind k -> ik_w k <= 64 -> in_kind k s -> in_kind k e' -> s < e' -> (0 < P)%nat -> Z.of_nat P < 2 ^ 32 ->
  1 <= cs ->
  (tail = [] /\ e' = e) \/ (tail = [(e', e)] /\ e' <= e) ->
  let sc := SC k s e' P cs g tail in
  (forall sched, stripe_complete sc sched = true -> stripe_nowrap sc sched = true ->
                 Permutation (stripe_calls sc sched) (stripe_canon sc)) /\
  contiguous s (stripe_canon sc) e /\
  (forall sched F, 0 <= F -> (forall j, stripe_excess sc sched j <= F) ->
                   e' + (F + 1) * cs <= kmax (wide k) + 1 -> stripe_nowrap sc sched = true).
Proof.
  intros Hwf Hw64 Hs He Hse HP HP32 Hcs Ht sc.
  assert (ST : sc_step sc = cs) by reflexivity.
  destruct (stripe_bounds_from_spec k s e' (Z.of_nat P) g P 0 s ltac:(lia) ltac:(lia) HP) as [BC BL].
  assert (SBD : stripe_bounds sc = stripe_bounds_from k s e' (Z.of_nat P) g P 0 s) by reflexivity.
  assert (IN : forall j, s <= fst (sb sc j) /\ fst (sb sc j) <= snd (sb sc j) /\ snd (sb sc j) <= e').
  { intros j. unfold sb. destruct (Nat.lt_ge_cases j P) as [L|L].
    - assert (Hin : In (nth j (stripe_bounds sc) (sc_e sc, sc_e sc)) (stripe_bounds sc)) by (apply nth_In; rewrite SBD, BL; exact L).
      destruct (nth j (stripe_bounds sc) (sc_e sc, sc_e sc)) as [a b]. rewrite SBD in Hin.
      apply (contiguous_inside s _ e' a b BC Hin).
    - rewrite nth_overflow by (rewrite SBD, BL; exact L). subst sc; cbn [sc_e fst snd]. lia. }
  assert (H1 : 1 <= sc_step sc) by (rewrite ST; exact Hcs).
  assert (H2 : length (stripe_bounds sc) = sc_P sc) by (rewrite SBD; exact BL).
  assert (H3 : forall j, (j < sc_P sc)%nat -> in_kind (sc_k sc) (Bj sc j) /\ in_kind (sc_k sc) (Ej sc j)).
  { intros j _. destruct (IN j) as (I1 & I2 & I3). unfold Bj, Ej.
    change (sc_k sc) with k. split; apply (in_kind_mid _ s _ e'); try assumption; lia. }
  assert (H4 : forall j, kmin (wide (sc_k sc)) <= Bj sc j).
  { intros j. change (sc_k sc) with k. apply kmin_wide_le; try assumption. destruct (IN j) as (I1 & _). unfold Bj. unfold in_kind in Hs. lia. }
  split; [|split].
  - intros sched Hc Hn. exact (stripe_partition sc H1 HP HP32 Hwf H2 H3 sched Hc Hn).
  - unfold stripe_canon. rewrite ST. subst sc; cbn [sc_tail].
    assert (C : contiguous s (flat_map (stripe_chunks cs) (stripe_bounds (SC k s e' P cs g tail))) e').
    { apply contiguous_flat_map; [rewrite SBD; exact BC|]. intros b e0 Hb. apply stripe_chunks_contiguous; assumption. }
    destruct Ht as [[-> <-]|[-> Hle]]; [rewrite app_nil_r; exact C|].
    eapply contiguous_app; [exact C|]. cbn [contiguous]. auto.
  - intros sched F HF Hex Hroom. apply (nowrap_of_budget sc H1 HP HP32 H2 H3 H4 sched F e' HF); [|exact Hex|rewrite ST; exact Hroom].
    intros j. destruct (IN j) as (I1 & I2 & I3). unfold Bj, Ej. lia.
Qed.

(* the stripe configuration parallel_for_adaptiveWaitDispatch builds, in closed form *)
Lemma C12_adaptive_facts c : pf_dom c -> pf_mode c = MAdaptive -> 
  par_facts c /\ pf_wait c = true /\ pf_chunk c = 0 /\
  exists cs,
    pf_scfg c = Some (SC (kind_of (pf_kn c)) (pf_s c) (d_trimmedEnd (pf_decide c))
                         (Z.to_nat (pf_numToLaunch c + 1)) cs (d_g (pf_decide c)) (pf_tail c)) /\
    1 <= cs <= d_trimmedEnd (pf_decide c) - pf_s c /\ (d_g (pf_decide c) | cs) /\
    1 <= pf_numToLaunch c <= pf_N c.
Proof.
  intros D M. pose proof D as (Hkn & Hs & He & Hub & HN & HmT & Hmi & Hgr & Hfit & Hch).
  destruct (dom_kind c D) as [Hwf Hw64].
  pose proof M as M'. unfold pf_mode in M'.
  destruct (decide_inv c D) as [[E0 Pth]|[[E0 Pth]|[F Pth]]]; [rewrite Pth in M'; discriminate | rewrite Pth in M'; discriminate|].
  split; [exact F|].
  pose proof F as [Flt Fg Fg1 Fe Fdiv Ftt Ftf Frem FN Fmt Fmi Fadj].
  destruct Pth as [Pth|[[Pth C0]|[Pth [C0 C1]]]]; rewrite Pth in M'; [discriminate| |discriminate].
  destruct (pf_wait c) eqn:Wt; [|discriminate].
  split; [reflexivity|]. split; [exact C0|].
  destruct (auto_chunk_size c 64 D F C0 Pth ltac:(right; reflexivity)) as (NL & NL2 & cs & E & Cs & Dv).
  rewrite Wt in E.
  assert (P31 : 2 ^ 31 < 2 ^ 32) by (apply Z.pow_lt_mono_r; lia).
  assert (W32 : wrap 32 (pf_numToLaunch c + 1) = pf_numToLaunch c + 1) by (apply wrap_small; lia).
  assert (SCE : pf_scfg c = Some (SC (kind_of (pf_kn c)) (pf_s c) (d_trimmedEnd (pf_decide c))
                                    (Z.to_nat (pf_numToLaunch c + 1)) cs (d_g (pf_decide c)) (pf_tail c))).
  { unfold pf_scfg. rewrite tie_calcChunkSize_of by exact Hkn. rewrite C0, E, W32. reflexivity. }
  exists cs. split; [exact SCE|]. split; [exact Cs|]. split.
  { destruct (Z.le_gt_cases (d_g (pf_decide c)) 1) as [L|L]; [replace (d_g (pf_decide c)) with 1 by lia; apply Z.divide_1_l | apply Dv; lia]. }
  exact NL.
Qed.

Lemma C12_adaptive_proof c : pf_dom c -> pf_mode c = MAdaptive -> 
  pf_s c < pf_e c /\
  exists sc, pf_scfg c = Some sc /\
    (forall sched, stripe_complete sc sched = true -> stripe_nowrap sc sched = true ->
                   Permutation (stripe_calls sc sched) (stripe_canon sc)) /\
    contiguous (pf_s c) (stripe_canon sc) (pf_e c) /\
    (forall sched F, 0 <= F -> (forall j, stripe_excess sc sched j <= F) -> c12_wrap_domain F c = false ->
                     stripe_nowrap sc sched = true).
Proof.
  intros D M. pose proof D as (Hkn & Hs & He & Hub & HN & HmT & Hmi & Hgr & Hfit & Hch).
  destruct (dom_kind c D) as [Hwf Hw64].
  destruct (C12_adaptive_facts c D M) as (F & Wt & C0 & cs & SCE & Cs & Dv & NL).
  pose proof (pf_tail_shape c F) as TS.
  pose proof F as [Flt Fg Fg1 Fe Fdiv Ftt Ftf Frem FN Fmt Fmi Fadj].
  split; [exact Flt|].
  assert (InE : in_kind (kind_of (pf_kn c)) (d_trimmedEnd (pf_decide c))) by (apply (in_kind_mid _ (pf_s c) _ (pf_e c)); [assumption|assumption|lia]).
  assert (P31 : 2 ^ 31 < 2 ^ 32) by (apply Z.pow_lt_mono_r; lia).
  eexists. split; [exact SCE|].
  destruct (stripe_assemble (kind_of (pf_kn c)) (pf_s c) (d_trimmedEnd (pf_decide c)) (pf_e c) (Z.to_nat (pf_numToLaunch c + 1)) cs
              (d_g (pf_decide c)) (pf_tail c) Hwf Hw64 Hs InE ltac:(lia) ltac:(lia) ltac:(lia) ltac:(lia) TS) as (A1 & A2 & A3).
  split; [exact A1|]. split; [exact A2|].
  intros sched Fb HF Hex Hdom. apply (A3 sched Fb HF Hex).
  unfold c12_wrap_domain in Hdom. rewrite M, SCE in Hdom. apply Z.ltb_ge in Hdom.
  unfold sc_step in Hdom; cbn [sc_k sc_cs sc_e] in Hdom. lia.
Qed.

(* ---------------------------------------------------------------- all modes *)
(* trace-level hypothesis of the adaptive path: no cursor fetch_add of this execution left the 64-bit cursor type *)
Definition c12_nowrap (c : pfcfg) (x : exec) : bool :=
  match pf_mode c, pf_scfg c with
  | MAdaptive, Some sc => stripe_nowrap sc (ex_stripe x)
  | _, _ => true
  end.
(* every stripe saw at most F failed claims *)
Definition c12_fail_bound (F : Z) (c : pfcfg) (x : exec) : Prop :=
  match pf_mode c, pf_scfg c with
  | MAdaptive, Some sc => forall j, stripe_excess sc (ex_stripe x) j <= F
  | _, _ => True
  end.

Lemma C12_holds_except_proof c x : pf_dom c -> pf_complete c x = true ->
  c12_nowrap c x = true ->
  exists l, pf_calls c x = Some l /\ is_partition (pf_s c) (pf_e c) l.
Proof.
  intros D Hc Nw. unfold pf_calls, pf_complete, c12_nowrap in *.
  destruct (pf_mode c) eqn:M.
  - destruct (C12_static_proof c D ltac:(left; exact M)) as (l & E & C & Z0). exists l. split; [exact E|].
    split; [exact Z0|]. intros Lt. exists l. split; [apply Permutation_refl|]. rewrite Z.max_r in C by lia. exact C.
  - destruct (C12_static_proof c D ltac:(right; left; exact M)) as (l & E & C & Z0). exists l. split; [exact E|].
    split; [exact Z0|]. intros Lt. exists l. split; [apply Permutation_refl|]. rewrite Z.max_r in C by lia. exact C.
  - destruct (C12_static_proof c D ltac:(right; right; exact M)) as (l & E & C & Z0). exists l. split; [exact E|].
    split; [exact Z0|]. intros Lt. exists l. split; [apply Permutation_refl|]. rewrite Z.max_r in C by lia. exact C.
  - destruct (C12_adaptive_proof c D M) as (Lt & sc & E & A1 & A2 & _). rewrite E in *.
    eexists. split; [reflexivity|]. eapply is_partition_of_perm; [exact Lt | apply A1; assumption | exact A2].
  - destruct (C12_dynamic_proof c (ex_l3 x) D M) as (Lt & dc & E & A1 & A2). rewrite E in *.
    eexists. split; [reflexivity|]. eapply is_partition_of_perm; [exact Lt | apply A1; assumption | exact A2].
Qed.

(* the same with the no-wrap hypothesis discharged from a bound on failed claims and the domain predicate *)
Lemma C12_holds_except_budget_proof c x F : pf_dom c -> pf_complete c x = true -> 0 <= F ->
  c12_wrap_domain F c = false -> c12_fail_bound F c x ->
  exists l, pf_calls c x = Some l /\ is_partition (pf_s c) (pf_e c) l.
Proof.
  intros D Hc HF Wd Fb. apply C12_holds_except_proof; try assumption.
  unfold c12_nowrap, c12_fail_bound in *. destruct (pf_mode c) eqn:M; try reflexivity.
  destruct (C12_adaptive_proof c D M) as (Lt & sc & E & _ & _ & A3). rewrite E in *. apply (A3 _ F); assumption.
Qed.

(* ---------------------------------------------------------------- refutation *)
Lemma stripe_run_app c : forall a b st,
  stripe_run c st (a ++ b) =
  let '(st1, c1) := stripe_run c st a in let '(st2, c2) := stripe_run c st1 b in (st2, c1 ++ c2).
Proof.
  induction a as [|ev r IH]; intros b st.
  - cbn [app stripe_run]. destruct (stripe_run c st b). reflexivity.
  - cbn [app stripe_run]. destruct (stripe_step c st ev) as [st1 cl]. rewrite IH.
    destruct (stripe_run c st1 r) as [st2 c2]. destruct (stripe_run c st2 b) as [st3 c3]. rewrite app_assoc. reflexivity.
Qed.

(* what a prefix of the execution has handed to the body stays handed to the body *)
Lemma stripe_calls_prefix c pre more x : In x (stripe_calls c pre) -> In x (stripe_calls c (pre ++ more)).
Proof.
  unfold stripe_calls. rewrite stripe_run_app.
  destruct (stripe_run c (stripe_init c) pre) as [st1 c1]. destruct (stripe_run c st1 more) as [st2 c2]. cbn [snd].
  rewrite map_app. intros H. apply in_app_or in H. apply in_or_app. destruct H as [H|H]; [left; apply in_or_app; left; exact H | right; exact H].
Qed.

Lemma outside_not_partition s e l a b : In (a, b) l -> a < s \/ e < b -> ~ is_partition s e l.
Proof.
  intros Hin Out P. destruct (Z.le_gt_cases e s) as [L|L].
  - destruct P as [P _]. rewrite (P L) in Hin. destruct Hin.
  - destruct (partition_indices s e l P) as [_ I]. specialize (I a b Hin). lia.
Qed.

Lemma In_of_existsb (l : list (Z * Z)) x : existsb (Corr.zpair_eqb x) l = true -> In x l.
Proof.
  intros H. apply existsb_exists in H. destruct H as (y & Hy & E). unfold Corr.zpair_eqb in E.
  apply andb_true_iff in E. destruct E as [E1 E2]. apply Z.eqb_eq in E1, E2.
  destruct x, y; cbn [fst snd] in *; subst. exact Hy.
Qed.

(* the 64-bit wrap witness: uint64 range [2^64-101, 2^64-1), adaptive, 1-thread pool (2 workers), minItemsPerChunk 7
   (chunk size 7).  Each worker drains its own stripe -- no steal needed: the last claim of stripe 1 advances the cursor
   past 2^64; it wraps to 5 and the owner's next claim succeeds with [5,12), outside the range. *)
Definition c12_witness : pfcfg := PF 7 (2 ^ 64 - 101) (2 ^ 64 - 1) 0 1 2147483647 7 1 true.
Definition c12_witness_prefix : list (nat * nat) := own_then_poll 2 9.

Lemma c12_witness_dom : pf_dom c12_witness.
Proof.
  unfold pf_dom, pf_dom_wide. cbn [c12_witness pf_kn pf_s pf_e pf_chunk pf_N pf_maxThreads pf_minItems pf_gran].
  split; [lia|]. unfold kind_of, in_kind; cbn [nth all_kinds U64 kmin kmax ik_signed ik_w].
  repeat split; try lia; try (intros; discriminate).
Qed.

Lemma C12_refuted_proof :
  pf_dom c12_witness /\ pf_mode c12_witness = MAdaptive /\
  forall more l, pf_calls c12_witness (EX 0 [] (c12_witness_prefix ++ more)) = Some l ->
    In (5, 12) l /\ ~ is_partition (pf_s c12_witness) (pf_e c12_witness) l.
Proof.
  split; [exact c12_witness_dom|]. split; [vm_compute; reflexivity|].
  intros more l. unfold pf_calls. replace (pf_mode c12_witness) with MAdaptive by (vm_compute; reflexivity).
  destruct (pf_scfg c12_witness) as [sc|] eqn:E; [|vm_compute in E; discriminate].
  cbn [ex_stripe]. intros H. inversion H; subst l; clear H.
  assert (I : In (5, 12) (stripe_calls sc (c12_witness_prefix ++ more))).
  { apply stripe_calls_prefix. vm_compute in E. inversion E; subst sc; clear E.
    apply In_of_existsb.
    vm_compute. reflexivity. }
  split; [exact I|]. apply (outside_not_partition _ _ _ 5 12 I). left. vm_compute. reflexivity.
Qed.

(* ---------------------------------------------------------------- statements used by Props/Properties_C12.v *)
Lemma C12_static_partition_proof c : pf_dom c ->
  pf_mode c = MEmpty \/ pf_mode c = MSerial \/ pf_mode c = MStatic ->
  exists l, static_calls c = Some l /\ is_partition (pf_s c) (pf_e c) l.
Proof.
  intros D M. destruct (C12_static_proof c D M) as (l & E & C & Z0). exists l. split; [exact E|].
  split; [exact Z0|]. intros Lt. exists l. split; [apply Permutation_refl|]. rewrite Z.max_r in C by lia. exact C.
Qed.

Lemma C12_dynamic_partition_proof c l3 sched : pf_dom c -> pf_mode c = MDynamic ->
  exists dc, pf_dyncfg c l3 = Some dc /\
    (dyn_complete dc sched = true -> is_partition (pf_s c) (pf_e c) (dyn_calls dc sched)).
Proof.
  intros D M. destruct (C12_dynamic_proof c l3 D M) as (Lt & dc & E & A1 & A2). exists dc. split; [exact E|].
  intros Hc. eapply is_partition_of_perm; [exact Lt | apply A1; exact Hc | exact A2].
Qed.

Lemma C12_adaptive_partition_proof c sched : pf_dom c -> pf_mode c = MAdaptive -> 
  exists sc, pf_scfg c = Some sc /\
    (stripe_complete sc sched = true -> stripe_nowrap sc sched = true ->
     is_partition (pf_s c) (pf_e c) (stripe_calls sc sched)) /\
    (forall F, 0 <= F -> (forall j, stripe_excess sc sched j <= F) -> c12_wrap_domain F c = false ->
               stripe_nowrap sc sched = true).
Proof.
  intros D M. destruct (C12_adaptive_proof c D M) as (Lt & sc & E & A1 & A2 & A3). exists sc. split; [exact E|]. split.
  - intros Hc Hn. eapply is_partition_of_perm; [exact Lt | apply A1; assumption | exact A2].
  - intros F. apply A3.
Qed.


(* the witness of the former finding explicit-chunk-overflow-64bit (uint64 [0,100) with explicit chunk 2^64-50, 4-thread
   pool: numChunks = (size + chunk - 1) / chunk wrapped to 0 and the body was never called); numChunks is now computed as
   size / chunk + (size % chunk != 0) *)
Definition c12_chunkovf_witness : pfcfg := PF 7 0 100 (2 ^ 64 - 50) 4 2147483647 1 1 true.

(* ---------------------------------------------------------------- static path: the caller's ring index is irrelevant *)
Lemma seq_as_map a b : seq a b = map (Nat.add a) (seq 0 b).
Proof.
  revert a; induction b as [|b IH]; intros a; [reflexivity|].
  cbn [seq map]. f_equal; [lia|]. rewrite IH, <- seq_shift, map_map. apply map_ext. intros i. lia.
Qed.

Lemma static_chunk_indices_perm n wait ring : 1 <= n ->
  Permutation (static_chunk_indices n wait ring) (zrange 0 (Z.to_nat n)).
Proof.
  intros Hn. unfold static_chunk_indices. destruct wait.
  - set (cc := static_caller_chunk n true ring).
    assert (Hc : 0 <= cc <= n - 1).
    { subst cc. unfold static_caller_chunk. cbn [andb].
      destruct ((0 <=? ring) && (ring <? n)) eqn:E; [|lia]. apply andb_true_iff in E. destruct E as [E1 E2].
      apply Z.leb_le in E1. apply Z.ltb_lt in E2. lia. }
    replace (Z.to_nat (n - 1)) with (Z.to_nat cc + Z.to_nat (n - 1 - cc))%nat by lia.
    rewrite seq_app, map_app. cbn [Nat.add]. rewrite (seq_as_map (Z.to_nat cc)), map_map.
    rewrite (map_ext_in _ (fun i => 0 + Z.of_nat i) (seq 0 (Z.to_nat cc))).
    2:{ intros i Hi. apply in_seq in Hi. unfold static_sched_chunk. cbn [andb].
        replace (cc <=? Z.of_nat i) with false by (symmetry; apply Z.leb_gt; lia). lia. }
    rewrite (map_ext_in _ (fun i => (cc + 1) + Z.of_nat i) (seq 0 (Z.to_nat (n - 1 - cc)))).
    2:{ intros i Hi. apply in_seq in Hi. unfold static_sched_chunk. cbn [andb].
        replace (cc <=? Z.of_nat (Z.to_nat cc + i)) with true by (symmetry; apply Z.leb_le; lia). lia. }
    rewrite <- !zrange_seq.
    replace (Z.to_nat n) with (Z.to_nat cc + (1 + Z.to_nat (n - 1 - cc)))%nat by lia.
    rewrite (zrange_app 0), (zrange_app (0 + Z.of_nat (Z.to_nat cc))). cbn [zrange Z.of_nat].
    rewrite <- app_assoc. apply Permutation_app_head.
    replace (0 + Z.of_nat (Z.to_nat cc)) with cc by lia.
    replace (cc + Z.pos 1) with (cc + 1) by lia.
    apply Permutation_sym. apply (Permutation_cons_append (zrange (cc + 1) (Z.to_nat (n - 1 - cc))) cc).
  - rewrite app_nil_r. rewrite (map_ext _ (fun i => 0 + Z.of_nat i)) by (intros i; unfold static_sched_chunk; cbn [andb]; lia).
    rewrite <- zrange_seq. apply Permutation_refl.
Qed.

(* the chunks executed for any caller ring index are, as a multiset, the chunks of the plan *)
Lemma static_ring_independent {A} (B : list A) (d : A) wait ring : (1 <= length B)%nat ->
  Permutation (map (fun i => nth (Z.to_nat i) B d) (static_chunk_indices (Z.of_nat (length B)) wait ring)) B.
Proof.
  intros HB. eapply Permutation_trans; [apply Permutation_map, static_chunk_indices_perm; lia|].
  rewrite Nat2Z.id, zrange_seq, map_map.
  rewrite (map_ext _ (fun j => nth j B d)) by (intros j; f_equal; lia).
  rewrite <- (list_as_nth B d). apply Permutation_refl.
Qed.
