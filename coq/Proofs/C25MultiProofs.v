(* C25 -- several pools: every step of the multi-pool model (Model/ResPoolMultiModel.v) is, for each pool, either invisible
   or ONE step of the single-pool model (Model/ResPoolModel.v) on the projection, so every reachable multi-pool state
   projects, pool by pool, to a state the single-pool theorems speak about.  A move assignment onto a handle of another
   pool is a release in the destination's old pool and a move construction in the source's pool. *)
From Coq Require Import List Bool Arith PeanoNat Lia.
From DV Require Import Model.ResPoolModel Model.ResPoolMultiModel Proofs.C25Proofs.
Import ListNotations.

Lemma mp_nth_upd_eq {A} n (x d : A) l : n < length l -> nth n (upd n x l) d = x.
Proof. intro H. apply nth_error_nth, rp_nth_upd_eq, H. Qed.

Lemma mp_nth_upd_neq {A} n m (x d : A) l : n <> m -> nth m (upd n x l) d = nth m l d.
Proof.
  revert n m; induction l as [|y r IH]; intros [|n] [|m] H; simpl; auto; try congruence.
  all: try (apply IH; congruence).
Qed.

Lemma mp_map_upd {A B} (f : A -> B) n x l : map f (upd n x l) = upd n (f x) (map f l).
Proof. revert n; induction l as [|y r IH]; intros [|n]; simpl; auto. f_equal; apply IH. Qed.

Lemma mp_upd_same {A} n (x : A) l : nth_error l n = Some x -> upd n x l = l.
Proof.
  revert n; induction l as [|y r IH]; intros [|n] H; simpl in *; try discriminate; auto.
  - injection H as ->; reflexivity.
  - f_equal; apply IH, H.
Qed.

Lemma mp_nth_error_lt {A} (l : list A) n x : nth_error l n = Some x -> n < length l.
Proof. intro H. apply nth_error_Some. congruence. Qed.

Section MultiProofs.
  Variable Q : Type.
  Variable q_empty : Q.
  Variable q_enq : Q -> nat -> Q.
  Variable q_deq : Q -> nat -> option (nat * Q).

  Notation mstate := (mstate Q).
  Notation mstep := (mstep Q q_enq q_deq).
  Notation mrun := (mrun Q q_enq q_deq).
  Notation proj := (proj Q q_empty).
  Notation pstep := (pstep Q q_enq q_deq).
  Notation prun := (prun Q q_enq q_deq).

  Lemma projh_map_nth p hs h x : nth_error hs h = Some x -> nth_error (map (projh p) hs) h = Some (projh p x).
  Proof. intro H. rewrite nth_error_map, H. reflexivity. Qed.

  Lemma projh_same p p' r : p' = p -> projh p (MLive p' r) = HLive r.
  Proof. intros ->. simpl. rewrite Nat.eqb_refl. reflexivity. Qed.

  Lemma projh_other p p' r : p' <> p -> projh p (MLive p' r) = HDead.
  Proof. intro H. simpl. destruct (Nat.eqb_spec p' p); [contradiction|reflexivity]. Qed.

  (* the queue of pool p after a recycle at pool p0 *)
  Lemma mrecycle_same qs p r q : nth_error qs p = Some q ->
    nth p (mrecycle Q q_enq qs p r) q_empty = recycle Q q_enq (nth p qs q_empty) r.
  Proof.
    intro H. unfold mrecycle, recycle. rewrite H, (nth_error_nth _ _ q_empty H).
    destruct r as [x|]; [|apply nth_error_nth, H].
    apply mp_nth_upd_eq. eapply mp_nth_error_lt, H.
  Qed.

  Lemma mrecycle_other qs p p0 r : p0 <> p -> nth p (mrecycle Q q_enq qs p0 r) q_empty = nth p qs q_empty.
  Proof.
    intro H. unfold mrecycle. destruct r as [x|]; [|reflexivity].
    destruct (nth_error qs p0) as [q|]; [|reflexivity]. apply mp_nth_upd_neq, H.
  Qed.

  Lemma mrecycle_length qs p r : length (mrecycle Q q_enq qs p r) = length qs.
  Proof. unfold mrecycle. destruct r; [|reflexivity]. destruct (nth_error qs p); [apply rp_upd_length|reflexivity]. Qed.

  (* a live handle always names an existing pool *)
  Definition mwf (s : mstate) : Prop :=
    forall h p r, nth_error (m_handles s) h = Some (MLive p r) -> p < length (m_qs s).

  Lemma mstep_shape s o s' : mstep s o = Some s' ->
    length (m_qs s') = length (m_qs s) /\ m_sizes s' = m_sizes s /\ length (m_handles s') = length (m_handles s).
  Proof.
    destruct o as [p0 h k|h|d s0|d s0]; unfold ResPoolMultiModel.mstep; intro H.
    - destruct (nth_error (m_handles s) h) as [[|? ?]|]; try discriminate.
      destruct (nth_error (m_qs s) p0) as [q|]; try discriminate.
      destruct (q_deq q k) as [[x q']|]; try discriminate. injection H as <-. simpl. rewrite !rp_upd_length. auto.
    - destruct (nth_error (m_handles s) h) as [[|p0 r]|]; try discriminate. injection H as <-. simpl.
      rewrite mrecycle_length, rp_upd_length. auto.
    - destruct (nth_error (m_handles s) d) as [[|? ?]|]; try discriminate.
      destruct (nth_error (m_handles s) s0) as [[|p0 r]|]; try discriminate. injection H as <-. simpl. rewrite !rp_upd_length. auto.
    - destruct (nth_error (m_handles s) d) as [[|pd rd]|]; try discriminate.
      destruct (nth_error (m_handles s) s0) as [[|ps rs]|]; try discriminate.
      destruct (Nat.eqb d s0); injection H as <-; auto. simpl. rewrite mrecycle_length, !rp_upd_length. auto.
  Qed.

  Lemma mwf_step s o s' : mwf s -> mstep s o = Some s' -> mwf s'.
  Proof.
    intros W H. pose proof (mstep_shape _ _ _ H) as (L & _ & _). unfold mwf. rewrite L. clear L.
    destruct o as [p0 h k|h|d s0|d s0]; unfold ResPoolMultiModel.mstep in H.
    - destruct (nth_error (m_handles s) h) as [[|? ?]|] eqn:Eh; try discriminate.
      destruct (nth_error (m_qs s) p0) as [q|] eqn:Eq; try discriminate.
      destruct (q_deq q k) as [[x q']|]; try discriminate. injection H as <-. simpl. intros h1 p r H1.
      destruct (Nat.eq_dec h h1) as [->|N].
      + rewrite rp_nth_upd_eq in H1 by (eapply mp_nth_error_lt, Eh). injection H1 as <- <-. eapply mp_nth_error_lt, Eq.
      + rewrite rp_nth_upd_neq in H1 by exact N. eapply W, H1.
    - destruct (nth_error (m_handles s) h) as [[|p0 r0]|] eqn:Eh; try discriminate. injection H as <-. simpl. intros h1 p r H1.
      destruct (Nat.eq_dec h h1) as [->|N].
      + rewrite rp_nth_upd_eq in H1 by (eapply mp_nth_error_lt, Eh). discriminate.
      + rewrite rp_nth_upd_neq in H1 by exact N. eapply W, H1.
    - destruct (nth_error (m_handles s) d) as [[|? ?]|] eqn:Ed; try discriminate.
      destruct (nth_error (m_handles s) s0) as [[|p0 r0]|] eqn:Es; try discriminate. injection H as <-. simpl. intros h1 p r H1.
      destruct (Nat.eq_dec s0 h1) as [->|N].
      + rewrite rp_nth_upd_eq in H1 by (rewrite rp_upd_length; eapply mp_nth_error_lt, Es). injection H1 as <- <-. eapply W, Es.
      + rewrite rp_nth_upd_neq in H1 by exact N. destruct (Nat.eq_dec d h1) as [->|N2].
        * rewrite rp_nth_upd_eq in H1 by (eapply mp_nth_error_lt, Ed). injection H1 as <- <-. eapply W, Es.
        * rewrite rp_nth_upd_neq in H1 by exact N2. eapply W, H1.
    - destruct (nth_error (m_handles s) d) as [[|pd rd]|] eqn:Ed; try discriminate.
      destruct (nth_error (m_handles s) s0) as [[|ps rs]|] eqn:Es; try discriminate.
      destruct (Nat.eqb d s0); injection H as <-; [exact W|]. simpl. intros h1 p r H1.
      destruct (Nat.eq_dec s0 h1) as [->|N].
      + rewrite rp_nth_upd_eq in H1 by (rewrite rp_upd_length; eapply mp_nth_error_lt, Es). injection H1 as <- <-. eapply W, Es.
      + rewrite rp_nth_upd_neq in H1 by exact N. destruct (Nat.eq_dec d h1) as [->|N2].
        * rewrite rp_nth_upd_eq in H1 by (eapply mp_nth_error_lt, Ed). injection H1 as <- <-. eapply W, Es.
        * rewrite rp_nth_upd_neq in H1 by exact N2. eapply W, H1.
  Qed.

  (* ---- the refinement step *)
  Lemma wf_queue s h p r : mwf s -> nth_error (m_handles s) h = Some (MLive p r) -> exists q, nth_error (m_qs s) p = Some q.
  Proof.
    intros W H. specialize (W _ _ _ H). destruct (nth_error (m_qs s) p) as [q|] eqn:E; [eauto|].
    apply nth_error_None in E. lia.
  Qed.

  Theorem mstep_refines s o s' p : mwf s -> mstep s o = Some s' ->
    proj p s' = proj p s \/ exists o', pstep (proj p s) o' = Some (proj p s').
  Proof.
    intros W H. pose proof (mstep_shape _ _ _ H) as (_ & SZ & _).
    destruct o as [p0 h k|h|d s0|d s0]; unfold ResPoolMultiModel.mstep in H.
    - (* acquire *)
      destruct (nth_error (m_handles s) h) as [[|? ?]|] eqn:Eh; try discriminate.
      destruct (nth_error (m_qs s) p0) as [q|] eqn:Eq; try discriminate.
      destruct (q_deq q k) as [[x q']|] eqn:Edq; try discriminate. injection H as <-.
      destruct (Nat.eq_dec p0 p) as [->|N].
      + right. exists (PAcquire h k). unfold ResPoolMultiModel.proj, ResPoolModel.pstep, valid_op; simpl.
        rewrite (projh_map_nth p _ _ _ Eh). simpl. rewrite (nth_error_nth _ _ q_empty Eq), Edq.
        rewrite mp_nth_upd_eq by (eapply mp_nth_error_lt, Eq). rewrite mp_map_upd, projh_same by reflexivity. reflexivity.
      + left. unfold ResPoolMultiModel.proj; simpl. rewrite mp_nth_upd_neq by exact N.
        rewrite mp_map_upd, projh_other by exact N. rewrite mp_upd_same by (apply (projh_map_nth p _ _ _ Eh)). reflexivity.
    - (* release *)
      destruct (nth_error (m_handles s) h) as [[|p0 r]|] eqn:Eh; try discriminate. injection H as <-.
      destruct (Nat.eq_dec p0 p) as [->|N].
      + destruct (wf_queue _ _ _ _ W Eh) as [q Eq].
        right. exists (PRelease h). unfold ResPoolMultiModel.proj, ResPoolModel.pstep, valid_op; simpl.
        rewrite (projh_map_nth p _ _ _ Eh), projh_same by reflexivity. simpl.
        rewrite (mrecycle_same _ _ _ _ Eq), mp_map_upd. reflexivity.
      + left. unfold ResPoolMultiModel.proj; simpl. rewrite mrecycle_other by exact N.
        rewrite mp_map_upd. simpl. rewrite mp_upd_same; [reflexivity|].
        rewrite (projh_map_nth p _ _ _ Eh), projh_other by exact N. reflexivity.
    - (* move construction: the pool of the source sees a move construction, the others nothing *)
      destruct (nth_error (m_handles s) d) as [[|? ?]|] eqn:Ed; try discriminate.
      destruct (nth_error (m_handles s) s0) as [[|p0 r]|] eqn:Es; try discriminate. injection H as <-.
      destruct (Nat.eq_dec p0 p) as [->|N].
      + right. exists (PMoveCtor d s0). unfold ResPoolMultiModel.proj, ResPoolModel.pstep, valid_op; simpl.
        rewrite (projh_map_nth p _ _ _ Ed), (projh_map_nth p _ _ _ Es), projh_same by reflexivity. simpl.
        rewrite !mp_map_upd, !projh_same by reflexivity. reflexivity.
      + left. unfold ResPoolMultiModel.proj; simpl. rewrite !mp_map_upd, !projh_other by exact N.
        assert (Hd : upd d HDead (map (projh p) (m_handles s)) = map (projh p) (m_handles s))
          by (apply mp_upd_same, (projh_map_nth p _ _ _ Ed)).
        rewrite Hd. rewrite mp_upd_same; [reflexivity|].
        rewrite (projh_map_nth p _ _ _ Es), projh_other by exact N. reflexivity.
    - (* move assignment *)
      destruct (nth_error (m_handles s) d) as [[|pd rd]|] eqn:Ed; try discriminate.
      destruct (nth_error (m_handles s) s0) as [[|ps rs]|] eqn:Es; try discriminate.
      destruct (Nat.eqb_spec d s0) as [E|NE]; injection H as <-; [left; reflexivity|].
      destruct (Nat.eq_dec pd p) as [->|Nd]; destruct (Nat.eq_dec ps p) as [->|Ns].
      + (* both handles belong to pool p: the single-pool move assignment *)
        destruct (wf_queue _ _ _ _ W Ed) as [q Eq].
        right. exists (PMoveAssign d s0). unfold ResPoolMultiModel.proj, ResPoolModel.pstep, valid_op; simpl.
        rewrite (projh_map_nth p _ _ _ Ed), (projh_map_nth p _ _ _ Es), !projh_same by reflexivity. simpl.
        destruct (Nat.eqb_spec d s0) as [E|_]; [contradiction|].
        rewrite (mrecycle_same _ _ _ _ Eq), !mp_map_upd, !projh_same by reflexivity. reflexivity.
      + (* the destination leaves pool p for the source's pool: pool p sees ~Resource on d *)
        destruct (wf_queue _ _ _ _ W Ed) as [q Eq].
        right. exists (PRelease d). unfold ResPoolMultiModel.proj, ResPoolModel.pstep, valid_op; simpl.
        rewrite (projh_map_nth p _ _ _ Ed), projh_same by reflexivity. simpl.
        rewrite (mrecycle_same _ _ _ _ Eq), !mp_map_upd, !projh_other by exact Ns.
        do 2 f_equal. symmetry. apply mp_upd_same. rewrite rp_nth_upd_neq by exact NE.
        rewrite (projh_map_nth p _ _ _ Es), projh_other by exact Ns. reflexivity.
      + (* the destination joins pool p from another pool: pool p sees a move construction into a slot without object *)
        right. exists (PMoveCtor d s0). unfold ResPoolMultiModel.proj, ResPoolModel.pstep, valid_op; simpl.
        rewrite (projh_map_nth p _ _ _ Ed), (projh_map_nth p _ _ _ Es), projh_other by exact Nd.
        rewrite projh_same by reflexivity. simpl.
        rewrite mrecycle_other by exact Nd. rewrite !mp_map_upd, !projh_same by reflexivity. reflexivity.
      + (* neither handle concerns pool p *)
        left. unfold ResPoolMultiModel.proj; simpl. rewrite mrecycle_other by exact Nd.
        rewrite !mp_map_upd, !projh_other by exact Ns.
        assert (Hd : upd d HDead (map (projh p) (m_handles s)) = map (projh p) (m_handles s)).
        { apply mp_upd_same. rewrite (projh_map_nth p _ _ _ Ed), projh_other by exact Nd. reflexivity. }
        rewrite Hd. rewrite mp_upd_same; [reflexivity|].
        rewrite (projh_map_nth p _ _ _ Es), projh_other by exact Ns. reflexivity.
  Qed.

  Lemma prun_app l1 : forall l2 st, prun st (l1 ++ l2) = prun (prun st l1) l2.
  Proof. induction l1 as [|o r IH]; intros l2 st; simpl; [reflexivity|]. destruct (pstep st o); apply IH. Qed.

  Lemma mwf_init sizes nh : mwf (minit Q q_empty q_enq sizes nh).
  Proof. intros h p r H. simpl in H. apply nth_error_In, repeat_spec in H. discriminate. Qed.

  Lemma proj_init sizes nh p : p < length sizes ->
    proj p (minit Q q_empty q_enq sizes nh) = pinit Q q_empty q_enq (nth p sizes 0) nh.
  Proof.
    intro H. unfold ResPoolMultiModel.proj, minit, pinit; simpl. f_equal.
    - rewrite (nth_indep _ q_empty (fill Q q_enq q_empty 0 0)) by (rewrite map_length; exact H).
      apply (map_nth (fun n => fill Q q_enq q_empty 0 n)).
    - induction nh as [|n IH]; simpl; [reflexivity|f_equal; exact IH].
  Qed.

  (* every multi-pool run projects, for each pool, to a single-pool run from that pool's initial state *)
  Theorem mrun_refines sizes nh p : p < length sizes -> forall ops,
    exists pops, proj p (mrun (minit Q q_empty q_enq sizes nh) ops) = prun (pinit Q q_empty q_enq (nth p sizes 0) nh) pops.
  Proof.
    intros Hp ops.
    assert (G : forall ops s pops0, mwf s -> proj p s = prun (pinit Q q_empty q_enq (nth p sizes 0) nh) pops0 ->
                exists pops, proj p (mrun s ops) = prun (pinit Q q_empty q_enq (nth p sizes 0) nh) pops).
    { clear ops. induction ops as [|o r IH]; intros s pops0 W E; simpl.
      - exists pops0; exact E.
      - destruct (mstep s o) as [s'|] eqn:St; [|eapply IH; eauto].
        pose proof (mwf_step _ _ _ W St) as W'.
        destruct (mstep_refines _ _ _ p W St) as [Same|[o' St']].
        + eapply (IH s' pops0); [exact W'|]. rewrite Same; exact E.
        + eapply (IH s' (pops0 ++ [o'])); [exact W'|].
          rewrite prun_app. simpl. rewrite <- E, St'. reflexivity. }
    eapply (G ops _ []); [apply mwf_init|]. simpl. apply proj_init, Hp.
  Qed.
End MultiProofs.
