(* C48 -- maxThreads bounds the concurrency of parallel loops: proofs over the Plan model (parallel_for) and
   Model/ForEachModel.v (for_each). *)
From Coq Require Import ZArith List Bool Lia.
From DV Require Import Base.MachInt Model.ChunkModel Gen.GenChunk Model.ParForModel Model.PlanModel Model.ForEachModel
  Proofs.PlanProofs Proofs.C15Proofs.
Import ListNotations.
Local Open Scope Z_scope.

Definition c48_witness_tail : pfcfg := PF 4 0 1003 2147483647 4 2 1 8 false.
(* explicit chunk size 1, int32 [0,5), 7 pool threads, maxThreads 2, wait=true: the witness of the repaired finding
   explicit-chunk-small-range-ignores-maxThreads *)
Definition c48_witness_override : pfcfg := PF 4 0 5 1 7 2 1 1 true.

Lemma C48_refuted_proof :
  exists c ring cl l,
    pf_claims_ok c cl = true /\ antichain (pf_plan c ring cl) l /\ Z.of_nat (length l) > user_maxThreads c /\
    c48_dom_tail c = true /\ c = c48_witness_tail /\
    l = [CALL (Task 0) 0 0 0 504; CALL (Task 1) 0 1 504 1000; CALL CallerPre 1 0 1000 1003].
Proof.
  exists c48_witness_tail, (-1), [],
    [CALL (Task 0) 0 0 0 504; CALL (Task 1) 0 1 504 1000; CALL CallerPre 1 0 1000 1003].
  split; [reflexivity|]. split; [|split; [vm_compute; reflexivity|split; [vm_compute; reflexivity|split; reflexivity]]].
  change (pf_plan c48_witness_tail (-1) [])
    with [CALL (Task 0) 0 0 0 504; CALL (Task 1) 0 1 504 1000; CALL CallerPre 1 0 1000 1003].
  split; [|split].
  - repeat constructor; simpl; intuition discriminate.
  - apply incl_refl.
  - intros a b Ha Hb Hab. simpl in Ha, Hb.
    destruct Ha as [<-|[<-|[<-|[]]]]; destruct Hb as [<-|[<-|[<-|[]]]]; try reflexivity; exfalso; apply Hab; reflexivity.
Qed.

(* adjustChunkSizing never raises maxThreads (all 8 index kinds) *)
Lemma adj_le kn s e ch m st mi N w : fst (gen_adjustChunkSizing_of kn s e ch m st mi N w) <= m.
Proof.
  destruct kn as [|[|[|[|[|[|[|kn]]]]]]];
    cbv [gen_adjustChunkSizing_of
         gen_adjustChunkSizing_i8 gen_adjustChunkSizing_u8 gen_adjustChunkSizing_i16 gen_adjustChunkSizing_u16
         gen_adjustChunkSizing_i32 gen_adjustChunkSizing_u32 gen_adjustChunkSizing_i64 gen_adjustChunkSizing_u64];
    destr_ifs; cbn [fst snd]; try lia;
    match goal with H : (_ <? _) = true |- _ => apply Z.ltb_lt in H; lia end.
Qed.

Lemma pf_decide_le c : 2 <= path_code (d_path (pf_decide c)) -> d_maxThreads (pf_decide c) <= user_maxThreads c.
Proof.
  unfold user_maxThreads, pf_decide.
  destruct (gen_range_empty_of (pf_kn c) (pf_s c) (pf_e c)); [simpl; lia|].
  destruct (gen_computeGranularity_of (pf_kn c) (pf_s c) (pf_e c) (pf_chunk c) (pf_gran c)) as [[g te] ht].
  destruct (gen_range_empty_of (pf_kn c) (pf_s c) te || (pf_N c =? 0)); [simpl; lia|].
  pose proof (adj_le (pf_kn c) (pf_s c) te (pf_chunk c) (Z.max (wrap_s 32 (pf_maxThreads c)) 1)
                (gen_range_isStatic_of (pf_kn c) (pf_chunk c)) (Z.max 1 (pf_minItems c)) (pf_N c) (pf_wait c)) as A.
  destruct (gen_adjustChunkSizing_of (pf_kn c) (pf_s c) te (pf_chunk c) (Z.max (wrap_s 32 (pf_maxThreads c)) 1)
              (gen_range_isStatic_of (pf_kn c) (pf_chunk c)) (Z.max 1 (pf_minItems c)) (pf_N c) (pf_wait c)) as [m' st'].
  simpl in A.
  destruct (m' <? 2); [simpl; lia|].
  destruct st'; [|destruct (pf_chunk c =? 0)]; simpl; intros _; lia.
Qed.

(* regression for the repaired finding: the former witness now keeps the caller's limit (1 task + the caller) *)
Lemma C48_override_regression_proof :
  d_maxThreads (pf_decide c48_witness_override) = 2 /\ pf_numToLaunch c48_witness_override (pf_decide c48_witness_override) = 1 /\
  pf_width c48_witness_override = 2 /\ pf_states_needed c48_witness_override = 2 /\ c48_dom c48_witness_override = false.
Proof. vm_compute. repeat split; reflexivity. Qed.

Lemma worker_ids_length T wait : Z.of_nat (length (worker_ids T wait)) = Z.max 1 T + b2z wait.
Proof.
  unfold worker_ids. rewrite app_length, Nat2Z.inj_add, zrange_length. destruct wait; simpl; lia.
Qed.

Lemma static_ids_length c d :
  Z.of_nat (length (static_ids c d)) = Z.max 0 (static_nsched c d) + (if pf_wait c || d_hasTail d then 1 else 0).
Proof.
  unfold static_ids. rewrite app_length, Nat2Z.inj_add, zrange_length. destruct (pf_wait c || d_hasTail d); simpl; lia.
Qed.

Lemma C48_holds_except_proof : forall c ring cl,
  pf_claims_ok c cl = true -> c48_dom c = false ->
  forall l, antichain (pf_plan c ring cl) l -> Z.of_nat (length l) <= user_maxThreads c.
Proof.
  intros c ring cl Hok Hdom l Hl.
  pose proof (user_maxThreads_range c) as U.
  unfold c48_dom in Hdom. rename Hdom into Dt.
  unfold c48_dom_tail, dom_static_nowait_tail, is_static_path in Dt.
  pose proof (pf_decide_par c) as Q. cbv zeta in Q. pose proof (pf_decide_le c) as Do.
  unfold pf_plan, pf_claims_ok in *.
  destruct (d_path (pf_decide c)) eqn:P; simpl in Dt, Do, Q.
  - destruct Hl as (_ & Hinc & _). destruct l as [|a l]; [simpl; lia|]. exfalso. apply (Hinc a). left. reflexivity.
  - destruct Hl as (Hnd & Hinc & _). pose proof (NoDup_incl_length Hnd Hinc) as L. simpl in L. lia.
  - destruct (Q ltac:(lia) ltac:(lia)) as (M & Ms). specialize (Ms eq_refl).
    pose proof (antichain_bound _ (static_ids c (pf_decide c))
                  (static_plan_chain_ids c (pf_decide c) ring) (static_plan_chain_cmp c (pf_decide c) ring) l Hl) as B.
    apply Nat2Z.inj_le in B. rewrite static_ids_length in B.
    pose proof (static_numThreads_le (pf_kn c) (pf_s c) (d_trimmedEnd (pf_decide c)) (pf_N c)
                  (d_maxThreads (pf_decide c)) (d_g (pf_decide c)) ltac:(lia)) as Hn.
    fold (static_n c (pf_decide c)) in Hn. unfold static_nsched in B.
    destruct (pf_wait c); simpl in *.
    + lia.
    + destruct (d_hasTail (pf_decide c)); simpl in *; [|lia].
      apply Z.ltb_ge in Dt. lia.
  - destruct (Q ltac:(lia) ltac:(lia)) as (M & _). specialize (Do ltac:(lia)).
    pose proof (antichain_bound _ (worker_ids (pf_numToLaunch c (pf_decide c)) (pf_wait c))
                  (fun a => worker_plan_chain_ids c (pf_decide c) cl a Hok)
                  (fun a b => worker_plan_chain_cmp c (pf_decide c) cl a b Hok) l Hl) as B.
    apply Nat2Z.inj_le in B. rewrite worker_ids_length in B.
    pose proof (numToLaunch_le c (pf_decide c)) as T.
    assert (2 ^ 31 < 2 ^ 63) by reflexivity. lia.
  - destruct (Q ltac:(lia) ltac:(lia)) as (M & _). specialize (Do ltac:(lia)).
    pose proof (antichain_bound _ (worker_ids (pf_numToLaunch c (pf_decide c)) (pf_wait c))
                  (fun a => worker_plan_chain_ids c (pf_decide c) cl a Hok)
                  (fun a b => worker_plan_chain_cmp c (pf_decide c) cl a b Hok) l Hl) as B.
    apply Nat2Z.inj_le in B. rewrite worker_ids_length in B.
    pose proof (numToLaunch_le c (pf_decide c)) as T.
    assert (2 ^ 31 < 2 ^ 63) by reflexivity. lia.
Qed.

(* maxThreads 0 or 1 => serial: a single invocation on the calling thread, for every configuration *)
Lemma C48_serial_proof : forall c ring cl,
  user_maxThreads c = 1 ->
  pf_plan c ring cl = [] \/ pf_plan c ring cl = [CALL CallerPre 0 0 (pf_s c) (pf_e c)].
Proof.
  intros c ring cl U.
  pose proof (pf_decide_par c) as Q. cbv zeta in Q. pose proof (pf_decide_le c) as Do. unfold pf_plan.
  destruct (d_path (pf_decide c)) eqn:P; simpl in Do, Q.
  - left. reflexivity.
  - right. reflexivity.
  - destruct (Q ltac:(lia) ltac:(lia)) as (M & _). specialize (Do ltac:(lia)). lia.
  - destruct (Q ltac:(lia) ltac:(lia)) as (M & _). specialize (Do ltac:(lia)). lia.
  - destruct (Q ltac:(lia) ltac:(lia)) as (M & _). specialize (Do ltac:(lia)). lia.
Qed.

(* the adjusted thread count never exceeds the caller's limit (the repaired defect) *)
Lemma C48_limit_respected_proof : forall c,
  2 <= path_code (d_path (pf_decide c)) -> d_maxThreads (pf_decide c) <= user_maxThreads c.
Proof. exact pf_decide_le. Qed.

(* ---- for_each ---- *)
Lemma C48_foreach_proof : forall c l, NoDup l -> incl l (fe_plan c) ->
  Z.of_nat (length l) <= Z.max 1 (wrap_s 32 (fe_maxThreads c)).
Proof.
  intros c l Hnd Hinc. pose proof (NoDup_incl_length Hnd Hinc) as L.
  pose proof (fe_plan_length_proof c). lia.
Qed.
