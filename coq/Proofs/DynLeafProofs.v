(* Specifications of the kind-generic leaf mirrors (Model/DynLeafModel.v) in plain integer arithmetic. *)
From Coq Require Import ZArith List Bool Lia Zdiv.
From DV Require Import Base.MachInt Model.ChunkModel Proofs.ChunkProofs Model.DynLeafModel.
Import ListNotations.
Local Open Scope Z_scope.
Ltac Zify.zify_post_hook ::= Z.div_mod_to_equations.

Lemma p63_lt_p64 : 2 ^ 63 < 2 ^ 64.
Proof. apply Z.pow_lt_mono_r; lia. Qed.

Lemma W_id k z : 0 <= z < 2 ^ 63 -> W k z = z.
Proof.
  intros H. unfold W, wop, wide; simpl. destruct (ik_signed k); [reflexivity|].
  apply wrap_small. pose proof p63_lt_p64. lia.
Qed.

Lemma range_size_id k s e : 0 <= e - s < 2 ^ 63 -> range_size k s e = e - s.
Proof. intros H. apply (W_id k). exact H. Qed.

Lemma kmax_lt_p64 k : wf_kind k -> ik_w k <= 64 -> kmax k < 2 ^ 64 /\ - 2 ^ 63 <= kmin k /\ kmin k <= 0 /\ 0 <= kmax k.
Proof.
  intros Hwf Hw64. unfold kmax, kmin, wf_kind in *.
  assert (P : 2 ^ ik_w k <= 2 ^ 64) by (apply Z.pow_le_mono_r; lia).
  assert (E : 2 ^ ik_w k = 2 * 2 ^ (ik_w k - 1)).
  { replace (ik_w k) with (Z.succ (ik_w k - 1)) at 1 by lia. rewrite Z.pow_succ_r by lia. reflexivity. }
  assert (Q : 0 < 2 ^ (ik_w k - 1)) by (apply pow2_pos; lia).
  assert (Q1 : 2 ^ 1 <= 2 ^ ik_w k) by (apply Z.pow_le_mono_r; lia).
  change (2 ^ 64) with (2 * 2 ^ 63) in *. change (2 ^ 1) with 2 in Q1.
  destruct (ik_signed k); lia.
Qed.

Section Leaves.
  Variable k : ikind.
  Hypothesis Hwf : wf_kind k.
  Hypothesis Hw64 : ik_w k <= 64.
  Variables s e : Z.
  Hypothesis Hs : in_kind k s.
  Hypothesis He : in_kind k e.
  Hypothesis Hse : s < e.
  Hypothesis Hfit : e - s < 2 ^ 63.
  Hypothesis Hub : ik_signed k = true -> 32 <= ik_w k -> e - s <= kmax k.

  (* static_cast<IntegerT>(range.end - static_cast<IntegerT>(rem)) is exact *)
  Lemma m_trim_exact rem : 0 <= rem <= e - s -> m_trim k e rem = e - rem.
  Proof.
    intros Hr. unfold m_trim.
    assert (IN : in_kind k (e - rem)) by (unfold in_kind in *; lia).
    destruct (ik_signed k) eqn:Sg.
    - destruct (32 <=? ik_w k) eqn:W32; [apply Z.leb_le in W32|].
      + destruct (64 <=? ik_w k); [reflexivity|].
        rewrite castk_id; [reflexivity | assumption |].
        specialize (Hub eq_refl W32). pose proof (kmax_lt_p64 k Hwf Hw64). unfold in_kind. lia.
      + rewrite castk_sub_r by assumption. apply castk_id; assumption.
    - destruct (64 <=? ik_w k); [apply castk_id; assumption|].
      rewrite castk_sub_r by assumption. apply castk_id; assumption.
  Qed.

  Lemma cg_spec chunk req : 0 <= req < 2 ^ 32 ->
    let '(g, e', tail) := m_computeGranularity k s e chunk req in
    g = (if (chunk =? 0) || (chunk =? kmax k) then Z.max 1 req else 1) /\ 1 <= g /\
    s <= e' <= e /\ (g | e' - s) /\ (tail = true -> e' < e) /\ (tail = false -> e' = e) /\ e - e' < g.
  Proof.
    intros Hreq. unfold m_computeGranularity.
    set (g := if (chunk =? 0) || (chunk =? kmax k) then Z.max 1 req else 1).
    assert (G1 : 1 <= g) by (subst g; destruct ((chunk =? 0) || (chunk =? kmax k)); lia).
    rewrite range_size_id by lia.
    destruct (1 <? g) eqn:Eg; [apply Z.ltb_lt in Eg | apply Z.ltb_ge in Eg].
    - rewrite rem_mod_nonneg by lia.
      pose proof (Z.mod_pos_bound (e - s) g ltac:(lia)) as B.
      assert (Rle : (e - s) mod g <= e - s) by (apply Z.mod_le; lia).
      destruct (0 <? (e - s) mod g) eqn:Er; [apply Z.ltb_lt in Er | apply Z.ltb_ge in Er].
      + rewrite m_trim_exact by lia.
        split; [reflexivity|]. split; [lia|]. split; [lia|].
        split; [exists ((e - s) / g); pose proof (Z.div_mod (e - s) g ltac:(lia)); lia|].
        split; [intros _; lia|]. split; [intros; discriminate|]. lia.
      + split; [reflexivity|]. split; [lia|]. split; [lia|].
        split; [apply Z.mod_divide; lia|].
        split; [intros; discriminate|]. split; [reflexivity|]. lia.
    - assert (g = 1) by lia.
      split; [reflexivity|]. split; [lia|]. split; [lia|].
      split; [exists (e - s); lia|].
      split; [intros; discriminate|]. split; [reflexivity|]. lia.
  Qed.
End Leaves.

(* ---------- calcChunkSize ---------- *)
(* chunk size the do-while computes for a given dynFactor *)
Definition csz (size Wt g d : Z) : Z :=
  let c0 := (size + d * Wt - 1) / (d * Wt) in
  if 1 <? g then (c0 + g - 1) / g * g else c0.

Lemma csz_bounds size Wt g d : 1 <= size -> 1 <= Wt -> 1 <= d -> 0 <= g -> (1 < g -> (g | size)) ->
  1 <= csz size Wt g d <= size /\ (size + d * Wt - 1) / (d * Wt) <= csz size Wt g d /\ (1 < g -> (g | csz size Wt g d)).
Proof.
  intros Hs HW Hd Hg Hdiv. unfold csz.
  assert (P : 1 <= d * Wt) by nia.
  pose proof (ceil_div_bounds size (d * Wt) ltac:(lia) ltac:(lia)) as B. cbv zeta in B.
  set (c0 := (size + d * Wt - 1) / (d * Wt)) in *.
  assert (C0 : 1 <= c0 <= size) by nia.
  destruct (1 <? g) eqn:Eg; [apply Z.ltb_lt in Eg | apply Z.ltb_ge in Eg].
  - pose proof (ceil_div_bounds c0 g ltac:(lia) ltac:(lia)) as B2. cbv zeta in B2.
    set (q := (c0 + g - 1) / g) in *.
    destruct (Hdiv Eg) as [m Hm].
    assert (q <= m) by nia.
    split; [nia|]. split; [nia|]. intros _. exists q. lia.
  - split; [lia|]. split; [lia|]. intros; lia.
Qed.

Section CalcChunk.
  Variable k : ikind.
  Variables s e : Z.
  Hypothesis Hse : s < e.
  Variables Wt g minChunk : Z.
  Hypothesis HW : 1 <= Wt.
  Hypothesis Hg : 0 <= g < 2 ^ 32.
  Hypothesis Hdiv : 1 < g -> (g | e - s).
  Hypothesis Hfit : 2 * (e - s) + 64 * Wt + g < 2 ^ 63.
  Hypothesis Hmin : minChunk <= csz (e - s) Wt g 1.

  Local Notation size := (e - s).

  Lemma loop_body_eq d : 1 <= d <= 64 ->
    let roughChunks := W k (d * Wt) in
    let chunkSize := Z.quot (W k (W k (range_size k s e + roughChunks) - 1)) roughChunks in
    (if 1 <? g then W k (Z.quot (W k (W k (chunkSize + g) - 1)) g * g) else chunkSize) = csz size Wt g d
    /\ W k (d - 1) = d - 1.
  Proof.
    intros Hd. cbv zeta.
    assert (P : 1 <= d * Wt <= 64 * Wt) by nia.
    rewrite range_size_id by lia.
    rewrite (W_id k (d * Wt)) by lia.
    rewrite (W_id k (size + d * Wt)) by lia.
    rewrite (W_id k (size + d * Wt - 1)) by lia.
    rewrite (W_id k (d - 1)) by lia.
    rewrite (quot_div_nonneg (size + d * Wt - 1) (d * Wt)) by lia.
    unfold csz.
    pose proof (ceil_div_bounds size (d * Wt) ltac:(lia) ltac:(lia)) as B. cbv zeta in B.
    set (c0 := (size + d * Wt - 1) / (d * Wt)) in *.
    assert (C0 : 1 <= c0 <= size) by nia.
    destruct (1 <? g) eqn:Eg; [apply Z.ltb_lt in Eg | split; reflexivity].
    rewrite (W_id k (c0 + g)) by lia.
    rewrite (W_id k (c0 + g - 1)) by lia.
    rewrite (quot_div_nonneg (c0 + g - 1) g) by lia.
    pose proof (ceil_div_bounds c0 g ltac:(lia) ltac:(lia)) as B2. cbv zeta in B2.
    rewrite W_id by nia. split; reflexivity.
  Qed.

  Lemma ccs_loop_spec md nl one chunk : forall fuel cs0 d,
    1 <= d <= 64 -> (Z.to_nat d <= fuel)%nat ->
    exists cs d',
      m_ccs_loop k fuel cs0 d g md minChunk nl one chunk e s Wt =
        Some (cs, d', g, md, minChunk, nl, one, chunk, e, s, Wt) /\
      1 <= cs <= size /\ minChunk <= cs /\ (1 < g -> (g | cs)).
  Proof.
    induction fuel as [|fuel IH]; intros cs0 d Hd Hf; [lia|].
    cbn [m_ccs_loop].
    destruct (loop_body_eq d Hd) as [E1 E2]. cbv zeta in E1. rewrite E1, E2.
    pose proof (csz_bounds size Wt g d ltac:(lia) HW ltac:(lia) ltac:(lia) Hdiv) as (B1 & B2 & B3).
    destruct (csz size Wt g d <? minChunk) eqn:Lt; [apply Z.ltb_lt in Lt | apply Z.ltb_ge in Lt].
    - assert (d <> 1) by (intros ->; lia).
      apply IH; lia.
    - exists (csz size Wt g d), (d - 1). split; [reflexivity|]. split; [lia|]. split; [lia|]. exact B3.
  Qed.

  (* calcChunkSize for an auto-chunked range (chunk == 0), maxDynFactor 16 (dynamic) or 64 (adaptive) *)
  Lemma calc_auto_spec nl one md : md = 16 \/ md = 64 -> 0 <= nl < 2 ^ 31 -> Wt = nl + b2z one -> Wt <= size ->
    exists cs, m_calcChunkSize k s e 0 nl one minChunk g md = Some (cs, (size + cs - 1) / cs) /\
               1 <= cs <= size /\ minChunk <= cs /\ (1 < g -> (g | cs)).
  Proof.
    intros Hmd Hnl HWt Hle. unfold m_calcChunkSize. cbn [Z.eqb negb].
    assert (P31 : 2 ^ 31 < 2 ^ 63) by (apply Z.pow_lt_mono_r; lia).
    assert (B : 0 <= b2z one <= 1) by (destruct one; simpl; lia).
    assert (WT : W k ((if ik_signed k then wrap_s 64 nl else nl) + b2z one) = Wt).
    { replace (if ik_signed k then wrap_s 64 nl else nl) with nl.
      - rewrite W_id by lia. lia.
      - destruct (ik_signed k); [|reflexivity]. symmetry. apply wrap_s_small; [lia|]. change (2 ^ (64 - 1)) with (2 ^ 63). lia. }
    rewrite WT. rewrite range_size_id by lia.
    set (d0 := Z.min md (Z.quot size Wt)).
    assert (D0 : 1 <= d0 <= 64).
    { subst d0. rewrite quot_div_nonneg by lia.
      assert (1 <= size / Wt) by (apply Z.div_le_lower_bound; lia). destruct Hmd; subst md; lia. }
    destruct (ccs_loop_spec md nl one 0 (S (Z.to_nat md)) 0 d0 D0) as (cs & d' & E & C1 & C2 & C3).
    { subst d0. destruct Hmd; subst md; lia. }
    rewrite E. exists cs. split; [|tauto].
    rewrite range_size_id by lia. rewrite (W_id k (size + cs)) by lia. rewrite W_id by lia.
    rewrite quot_div_nonneg by lia. reflexivity.
  Qed.
End CalcChunk.

(* calcChunkSize for an explicit chunk size *)
Lemma ceil_as_quot_plus a c : 0 <= a -> 1 <= c ->
  a / c + (if negb (a mod c =? 0) then 1 else 0) = (a + c - 1) / c.
Proof.
  intros Ha Hc. pose proof (Z.div_mod a c ltac:(lia)) as DM. pose proof (Z.mod_pos_bound a c ltac:(lia)) as MB.
  destruct (a mod c =? 0) eqn:E; [apply Z.eqb_eq in E | apply Z.eqb_neq in E]; cbn [negb].
  - apply (Z.div_unique (a + c - 1) c (a / c + 0) (c - 1)); [left; lia | lia].
  - apply (Z.div_unique (a + c - 1) c (a / c + 1) (a mod c - 1)); [left; lia | lia].
Qed.

Lemma calc_explicit_spec k s e chunk nl one mc g md : s < e -> 1 <= chunk -> chunk <> kmax k -> e - s < 2 ^ 63 ->
  m_calcChunkSize k s e chunk nl one mc g md = Some (chunk, (e - s + chunk - 1) / chunk).
Proof.
  intros Hse Hc Hk Hfit. unfold m_calcChunkSize.
  replace (chunk =? 0) with false by (symmetry; apply Z.eqb_neq; lia). cbn [negb].
  replace (chunk =? kmax k) with false by (symmetry; apply Z.eqb_neq; lia).
  rewrite range_size_id by lia. rewrite quot_div_nonneg, rem_mod_nonneg by lia.
  assert (Q : 0 <= (e - s) / chunk <= e - s) by (split; [apply Z.div_pos; lia | apply Z.div_le_upper_bound; nia]).
  rewrite (W_id k (if negb ((e - s) mod chunk =? 0) then 1 else 0)) by (destruct (negb ((e - s) mod chunk =? 0)); lia).
  rewrite ceil_as_quot_plus by lia.
  pose proof (ceil_div_bounds (e - s) chunk ltac:(lia) ltac:(lia)) as B. cbv zeta in B.
  rewrite W_id by nia. reflexivity.
Qed.

(* adjustChunkSizing for an auto-chunked range that stays non-static with at least two threads *)
Lemma adjust_auto_spec k s e mt minItems N wait : s < e -> e - s < 2 ^ 63 -> 1 <= mt -> 0 <= N < 2 ^ 31 -> 0 <= minItems ->
  let '(mt', st') := m_adjustChunkSizing k s e 0 mt false minItems N wait in
  st' = false -> 2 <= mt' ->
  mt' <= N + 1 /\ mt' <= mt /\ (1 < minItems -> minItems <= (e - s) / (mt' + b2z wait)) /\ (minItems <= 1 -> N + b2z wait < e - s).
Proof.
  intros Hse Hfit Hmt HN Hmi. unfold m_adjustChunkSizing. cbn [m_isAuto Z.eqb andb].
  assert (P31 : 2 ^ 31 < 2 ^ 63) by (apply Z.pow_lt_mono_r; lia).
  assert (B : 0 <= b2z wait <= 1) by (destruct wait; simpl; lia).
  rewrite range_size_id by lia. rewrite (W_id k (N + 1)) by lia. rewrite (W_id k (N + b2z wait)) by lia.
  set (mt1 := Z.min mt (N + 1)).
  assert (M1 : 1 <= mt1 <= N + 1 /\ mt1 <= mt) by (subst mt1; lia).
  destruct (1 <? minItems) eqn:E1; [apply Z.ltb_lt in E1 | apply Z.ltb_ge in E1].
  - rewrite (quot_div_nonneg (e - s) minItems) by lia.
    assert (MW : 0 <= (e - s) / minItems <= e - s).
    { split; [apply Z.div_pos; lia|]. apply Z.div_le_upper_bound; nia. }
    destruct ((e - s) / minItems <? mt1) eqn:E2; [apply Z.ltb_lt in E2 | apply Z.ltb_ge in E2].
    + rewrite (W_id k ((e - s) / minItems + b2z wait)) by lia.
      destruct (0 <? (e - s) / minItems) eqn:E3; [apply Z.ltb_lt in E3 | apply Z.ltb_ge in E3]; cbn [andb].
      * rewrite (quot_div_nonneg (e - s) ((e - s) / minItems + b2z wait)) by lia.
        destruct ((e - s) / ((e - s) / minItems + b2z wait) <? minItems) eqn:E4;
          [intros; discriminate | apply Z.ltb_ge in E4].
        intros _ H2. split; [lia|]. split; [lia|]. split; [intros _; exact E4 | intros; lia].
      * intros _ H2. lia.
    + rewrite (W_id k (mt1 + b2z wait)) by lia.
      replace (0 <? mt1) with true by (symmetry; apply Z.ltb_lt; lia). cbn [andb].
      rewrite (quot_div_nonneg (e - s) (mt1 + b2z wait)) by lia.
      destruct ((e - s) / (mt1 + b2z wait) <? minItems) eqn:E4; [intros; discriminate | apply Z.ltb_ge in E4].
      intros _ H2. split; [lia|]. split; [lia|]. split; [intros _; exact E4 | intros; lia].
  - destruct (e - s <=? N + b2z wait) eqn:E2; [intros; discriminate | apply Z.leb_gt in E2].
    intros _ H2. split; [lia|]. split; [lia|]. split; [intros; lia | intros _; exact E2].
Qed.
