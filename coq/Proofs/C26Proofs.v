(* C26: TimedTask run count, cancellation and teardown -- invariants over all interleavings of Model/TimedTaskModel.v *)
From Coq Require Import ZArith List Bool Lia.
From DV Require Import Base.MachInt Base.Sched Model.TimedTaskModel.
Import ListNotations.
Local Open Scope Z_scope.

(* ---------- counting pool threads by pc ---------- *)
Fixpoint cnt (f : wpc -> bool) (l : list wpc) : Z :=
  match l with [] => 0 | p :: r => b2z (f p) + cnt f r end.

Definition inwrap (p : wpc) : bool :=
  match p with WFlags | WCall | WStore0 | WOr | WClear | WCount | WDec => true | _ => false end.
Definition prewrap (p : wpc) : bool := match p with WFlags | WCall => true | _ => false end.
Definition atcall (p : wpc) : bool := match p with WCall => true | _ => false end.

(* the scheduler role holds a ticket: between the fetch_sub that returned >= 1 and the end of the call of func *)
Definition hold (p : spc) : Z :=
  match p with SCall _ | SFuncFlags _ | SFuncInc _ | SFuncSched _ => 1 | _ => 0 end.
Definition insched (p : spc) : Z := match p with SFuncSched _ => 1 | _ => 0 end.

Lemma b2z_range b : 0 <= b2z b <= 1.
Proof. destruct b; cbn; lia. Qed.

Lemma cnt_nonneg f l : 0 <= cnt f l.
Proof. induction l as [|p r IH]; cbn; [lia|]. pose proof (b2z_range (f p)). lia. Qed.

Lemma cnt_set_nth f l i p p' :
  nth_error l i = Some p -> cnt f (set_nth l i p') = cnt f l - b2z (f p) + b2z (f p').
Proof.
  revert i; induction l as [|a l IH]; intros [|i] H; cbn in *; try discriminate.
  - injection H as ->. lia.
  - rewrite (IH _ H). lia.
Qed.

Lemma cnt_zero_nth f l i p : cnt f l = 0 -> nth_error l i = Some p -> f p = false.
Proof.
  revert i; induction l as [|a l IH]; intros [|i] Z H; cbn in *; try discriminate.
  - injection H as ->. pose proof (cnt_nonneg f l). destruct (f p); cbn in Z; [lia | reflexivity].
  - pose proof (cnt_nonneg f l). pose proof (b2z_range (f a)). eapply IH; [lia | exact H].
Qed.

Lemma cnt_pos_nth f l i p : nth_error l i = Some p -> f p = true -> 1 <= cnt f l.
Proof.
  revert i; induction l as [|a l IH]; intros [|i] H F; cbn in *; try discriminate.
  - injection H as ->. rewrite F. pose proof (cnt_nonneg f l). cbn. lia.
  - pose proof (b2z_range (f a)). specialize (IH _ H F). lia.
Qed.

Lemma cnt_repeat_start f n : f WStart = false -> cnt f (repeat WStart n) = 0.
Proof. intros F. induction n as [|n IH]; cbn; [reflexivity|]. rewrite F, IH. reflexivity. Qed.

(* ---------- shape of a step ---------- *)
Lemma step_shape s t ch s' ch' site :
  step s t ch = Some (s', ch', site) ->
  (t = 0%nat /\ step_sched s = Some (s', site)) \/
  (t = 1%nat /\ step_user s = Some (s', site)) \/
  (exists i, t = S (S i) /\ step_pool s i = Some (s', site)).
Proof.
  unfold step. destruct t as [|[|i]].
  - destruct (step_sched s) as [[a b]|]; [|discriminate]. intros E. injection E as <- _ <-. left. auto.
  - destruct (step_user s) as [[a b]|]; [|discriminate]. intros E. injection E as <- _ <-. right. left. auto.
  - destruct (step_pool s i) as [[a b]|]; [|discriminate]. intros E. injection E as <- _ <-. right. right. exists i. auto.
Qed.

(* the user thread's "next operation" helper *)
Lemma unext_m s x gh : m (unext s x gh) = x.
Proof. unfold unext. destruct (uprog s); reflexivity. Qed.
Lemma unext_g s x gh : g (unext s x gh) = gh.
Proof. unfold unext. destruct (uprog s); reflexivity. Qed.
Lemma unext_sp s x gh : sp (unext s x gh) = sp s.
Proof. unfold unext. destruct (uprog s); reflexivity. Qed.
Lemma unext_pool s x gh : pool (unext s x gh) = pool s.
Proof. unfold unext. destruct (uprog s); reflexivity. Qed.
Lemma unext_up s x gh : up (unext s x gh) = UDone \/ exists o, up (unext s x gh) = uentry o.
Proof. unfold unext. destruct (uprog s) as [|o r]; cbn; [left; reflexivity | right; exists o; reflexivity]. Qed.
Lemma uentry_not_or o d : uentry o <> UCancelOr d.
Proof. destruct o; discriminate. Qed.
Lemma uentry_not_spin o : uentry o <> UDtorSpin /\ uentry o <> UDtorClear.
Proof. destruct o; split; discriminate. Qed.

Lemma unext_up_not_or s x gh d : up (unext s x gh) <> UCancelOr d.
Proof. destruct (unext_up s x gh) as [->|[o ->]]; [discriminate | apply uentry_not_or]. Qed.
Lemma unext_up_not_spin s x gh : ~ (up (unext s x gh) = UDtorSpin \/ up (unext s x gh) = UDtorClear).
Proof.
  destruct (unext_up s x gh) as [->|[o ->]]; [intros [H|H]; discriminate|].
  destruct (uentry_not_spin o) as [A B]. intros [H|H]; contradiction.
Qed.
