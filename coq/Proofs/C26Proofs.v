(* C26: TimedTask run count, cancellation and teardown -- invariants over all interleavings of Model/TimedTaskModel.v *)
From Coq Require Import ZArith List Bool Lia.
From DV Require Import Base.MachInt Base.Sched Model.TimedTaskModel.
Import ListNotations.
Local Open Scope Z_scope.

(* ---------- counting pool threads by pc ---------- *)
Fixpoint cnt (f : wpc -> bool) (l : list wpc) : Z :=
  match l with [] => 0 | p :: r => b2z (f p) + cnt f r end.

Definition inwrap (p : wpc) : bool :=
  match p with WFlags | WCall | WStore0 | WOr | WClear | WCount | WDec => true | _ => false end.
Definition prewrap (p : wpc) : bool := match p with WFlags | WCall => true | _ => false end.
Definition atcall (p : wpc) : bool := match p with WCall => true | _ => false end.

(* the scheduler role holds a ticket: between the fetch_sub that returned >= 1 and the end of the call of func *)
Definition hold (p : spc) : Z :=
  match p with SCall _ | SFuncFlags _ | SFuncInc _ | SFuncSched _ => 1 | _ => 0 end.
Definition insched (p : spc) : Z := match p with SFuncSched _ => 1 | _ => 0 end.

Lemma b2z_range b : 0 <= b2z b <= 1.
Proof. destruct b; cbn; lia. Qed.

Lemma cnt_nonneg f l : 0 <= cnt f l.
Proof. induction l as [|p r IH]; cbn; [lia|]. pose proof (b2z_range (f p)). lia. Qed.

Lemma cnt_set_nth f l i p p' :
  nth_error l i = Some p -> cnt f (set_nth l i p') = cnt f l - b2z (f p) + b2z (f p').
Proof.
  revert i; induction l as [|a l IH]; intros [|i] H; cbn in *; try discriminate.
  - injection H as E. subst a. lia.
  - rewrite (IH _ H). lia.
Qed.

Lemma cnt_zero_nth f l i p : cnt f l = 0 -> nth_error l i = Some p -> f p = false.
Proof.
  revert i; induction l as [|a l IH]; intros [|i] Hz H; cbn in *; try discriminate.
  - injection H as E. subst a. pose proof (cnt_nonneg f l) as Q. destruct (f p); [cbn [b2z] in Hz; lia | reflexivity].
  - pose proof (cnt_nonneg f l) as Q. pose proof (b2z_range (f a)) as R. eapply IH; [lia | exact H].
Qed.

Lemma cnt_pos_nth f l i p : nth_error l i = Some p -> f p = true -> 1 <= cnt f l.
Proof.
  revert i; induction l as [|a l IH]; intros [|i] H F; cbn in *; try discriminate.
  - injection H as E. subst a. rewrite F. pose proof (cnt_nonneg f l). cbn [b2z]. lia.
  - pose proof (b2z_range (f a)). specialize (IH _ H F). lia.
Qed.

Lemma cnt_repeat_start f n : f WStart = false -> cnt f (repeat WStart n) = 0.
Proof. intros F. induction n as [|n IH]; cbn; [reflexivity|]. rewrite F, IH. reflexivity. Qed.

(* ---------- shape of a step ---------- *)
Lemma step_shape s t ch s' ch' site :
  step s t ch = Some (s', ch', site) ->
  (t = 0%nat /\ step_sched s = Some (s', site)) \/
  (t = 1%nat /\ step_user s = Some (s', site)) \/
  (exists i, t = S (S i) /\ step_pool s i = Some (s', site)).
Proof.
  unfold step. destruct t as [|[|i]].
  - destruct (step_sched s) as [[a b]|]; [|discriminate]. intros E. inversion E; subst. left. split; reflexivity.
  - destruct (step_user s) as [[a b]|]; [|discriminate]. intros E. inversion E; subst. right. left. split; reflexivity.
  - destruct (step_pool s i) as [[a b]|] eqn:Q; [|discriminate]. intros E. inversion E; subst. right. right. exists i. split; [reflexivity | exact Q].
Qed.

(* the user thread's "next operation" helper *)
Lemma unext_m s x gh : m (unext s x gh) = x.
Proof. unfold unext. destruct (uprog s); reflexivity. Qed.
Lemma unext_g s x gh : g (unext s x gh) = gh.
Proof. unfold unext. destruct (uprog s); reflexivity. Qed.
Lemma unext_sp s x gh : sp (unext s x gh) = sp s.
Proof. unfold unext. destruct (uprog s); reflexivity. Qed.
Lemma unext_pool s x gh : pool (unext s x gh) = pool s.
Proof. unfold unext. destruct (uprog s); reflexivity. Qed.
Lemma unext_up s x gh : up (unext s x gh) = UDone \/ exists o, up (unext s x gh) = uentry o.
Proof. unfold unext. destruct (uprog s) as [|o r]; cbn; [left; reflexivity | right; exists o; reflexivity]. Qed.
Lemma uentry_not_or o d : uentry o <> UCancelOr d.
Proof. destruct o; discriminate. Qed.
Lemma uentry_not_spin o : uentry o <> UDtorSpin /\ uentry o <> UDtorClear.
Proof. destruct o; split; discriminate. Qed.

Lemma unext_up_not_or s x gh d : up (unext s x gh) <> UCancelOr d.
Proof. destruct (unext_up s x gh) as [->|[o ->]]; [discriminate | apply uentry_not_or]. Qed.
Lemma unext_up_not_spin s x gh : ~ (up (unext s x gh) = UDtorSpin \/ up (unext s x gh) = UDtorClear).
Proof.
  destruct (unext_up s x gh) as [->|[o ->]]; [intros [H|H]; discriminate|].
  destruct (uentry_not_spin o) as [A B]. intros [H|H]; contradiction.
Qed.

Local Arguments Z.add : simpl never.
Local Arguments Z.sub : simpl never.
Local Arguments Z.mul : simpl never.
Local Arguments Z.pow : simpl never.
Local Arguments wrap : simpl never.

Lemma pow32_lt_64 : 2 ^ 32 < 2 ^ 64.
Proof. reflexivity. Qed.
Lemma pow32_val : 2 ^ 32 = 4294967296.
Proof. reflexivity. Qed.
Lemma pow64_val : 2 ^ 64 = 18446744073709551616.
Proof. reflexivity. Qed.

(* ---------- the main invariant ---------- *)
Section Main.
  Variable N : Z.                      (* timesToRun given at creation *)
  Hypothesis HN : 0 <= N < 2 ^ 32.

  Record Inv (s : state) : Prop := mkInv {
    i_tk : 0 <= tickets (g s) <= N;
    i_ttr : sdone (sp s) = false -> 0 <= ttr (m s) /\ ttr (m s) + tickets (g s) <= N;
    i_zero : zeroed (g s) = true -> sdone (sp s) = true \/ ttr (m s) = 0;
    i_q : 0 <= q (m s);
    i_st : 0 <= starts (g s);
    (* every ticket is in one place: held by the scheduler role, queued, inside a wrapper, or retired *)
    i_pipe : q (m s) + cnt inwrap (pool s) + hold (sp s) <= tickets (g s);
    i_pre : starts (g s) + q (m s) + cnt prewrap (pool s) + hold (sp s) <= tickets (g s);
    (* inProgress counts exactly the wrappers handed over and not finished *)
    i_inp : inprog (m s) = q (m s) + cnt inwrap (pool s) + insched (sp s);
    i_uor : forall d, up s = UCancelOr d -> zeroed (g s) = true;
    i_udt : up s = UDtorSpin \/ up s = UDtorClear -> zeroed (g s) = true /\ fcanc (m s) = true;
    i_cret : cancel_ret (g s) = true -> zeroed (g s) = true /\ fcanc (m s) = true;
    i_dret : dtor_ret (g s) = true -> zeroed (g s) = true /\ fcanc (m s) = true }.

  Lemma init_inv npool rs prog : Inv (init N npool rs prog).
  Proof.
    constructor; cbn; try lia; try (intros; discriminate).
    - rewrite cnt_repeat_start by reflexivity. lia.
    - rewrite cnt_repeat_start by reflexivity. lia.
    - rewrite cnt_repeat_start by reflexivity. lia.
    - intros [H|H]; discriminate.
  Qed.

  Ltac bounds := pose proof pow32_val; pose proof pow64_val.

  Lemma inv_sched s s' site : Inv s -> step_sched s = Some (s', site) -> Inv s'.
  Proof.
    intros I E. destruct I as [Itk Ittr Izero Iq Ist Ipipe Ipre Iinp Iuor Iudt Icret Idret].
    unfold step_sched in E. destruct (sp s) eqn:P; cbn in Ittr, Izero, Ipipe, Ipre, Iinp.
    - (* SStart *) injection E as <- <-. constructor; cbn; auto; try lia.
    - (* SPick *) injection E as <- <-. constructor; cbn; auto; try lia.
    - (* SKickSub *)
      destruct (Ittr eq_refl) as [T0 T1].
      destruct (ttr (m s) =? 0) eqn:R; injection E as <- <-.
      + constructor; cbn; auto; try lia; try discriminate.
      + apply Z.eqb_neq in R. bounds.
        assert (W : wrap 64 (ttr (m s) - 1) = ttr (m s) - 1) by (apply wrap_small; lia).
        constructor; cbn; auto; try lia.
        intros Hz. destruct (Izero Hz) as [Hd|Hd]; [discriminate | lia].
    - (* SCall *)
      destruct (alive (m s)); injection E as <- <-; constructor; cbn; auto; try lia; try discriminate.
    - (* SFuncFlags *)
      destruct (fcanc (m s)) eqn:C; injection E as <- <-.
      + destruct last; constructor; cbn; auto; try lia; try discriminate; try (intuition congruence).
      + constructor; cbn; auto; try lia; try (intuition congruence).
    - (* SFuncInc *) injection E as <- <-. bounds.
      assert (Q0 := cnt_nonneg inwrap (pool s)).
      assert (W : wrap 32 (inprog (m s) + 1) = inprog (m s) + 1) by (apply wrap_small; lia).
      constructor; cbn; auto; try lia.
    - (* SFuncSched *) injection E as <- <-.
      destruct last; constructor; cbn; auto; try lia; try discriminate.
    - discriminate.
  Qed.

  Ltac unx := rewrite ?unext_m, ?unext_g, ?unext_sp, ?unext_pool.
  Ltac upx := first [ solve [intros ? Hx; exfalso; exact (unext_up_not_or _ _ _ _ Hx)]
                    | solve [intros Hx; exfalso; exact (unext_up_not_spin _ _ _ Hx)] ].

  Lemma inv_user s s' site : Inv s -> step_user s = Some (s', site) -> Inv s'.
  Proof.
    intros I E. destruct I as [Itk Ittr Izero Iq Ist Ipipe Ipre Iinp Iuor Iudt Icret Idret].
    unfold step_user in E. destruct (up s) eqn:P.
    - (* UStart *) injection E as <- <-. constructor; unx; auto; upx.
    - (* UCancelStore *) injection E as <- <-. constructor; cbn; auto; try lia.
      + intros [H|H]; discriminate.
      + intros H. split; [reflexivity | apply Icret; exact H].
      + intros H. split; [reflexivity | apply Idret; exact H].
    - (* UCancelOr *) pose proof (Iuor d eq_refl) as Zr. destruct d; injection E as <- <-.
      + constructor; cbn; auto; try lia; try discriminate; intuition.
      + constructor; unx; cbn; auto; try upx; intuition.
    - (* UDetachOr *) injection E as <- <-. constructor; unx; cbn; auto; upx.
    - (* UCallsLoad *) injection E as <- <-. constructor; unx; cbn; auto; upx.
    - (* UDtorFlags *) destruct (fdet (m s)); injection E as <- <-; constructor; cbn; auto; try discriminate;
        try (intros [H|H]; discriminate).
    - (* UDtorSpin *) destruct (inprog (m s) =? 0); injection E as <- <-; constructor; cbn; auto; try discriminate.
    - (* UDtorClear *) injection E as <- <-. constructor; cbn; auto; try discriminate.
    - discriminate.
  Qed.

  Lemma inv_pool s i s' site : Inv s -> step_pool s i = Some (s', site) -> Inv s'.
  Proof.
    intros I E. destruct I as [Itk Ittr Izero Iq Ist Ipipe Ipre Iinp Iuor Iudt Icret Idret].
    unfold step_pool in E. destruct (nth_error (pool s) i) as [p|] eqn:Hn; [|discriminate].
    pose proof (cnt_set_nth inwrap _ _ _ WPoll Hn) as Cw. pose proof (cnt_set_nth prewrap _ _ _ WPoll Hn) as Cp.
    pose proof (cnt_nonneg inwrap (pool s)) as Nw. pose proof (cnt_nonneg prewrap (pool s)) as Np.
    clear Cw Cp.
    destruct p.
    - (* WStart *) injection E as <- <-.
      constructor; cbn; rewrite ?(cnt_set_nth _ _ _ _ _ Hn); cbn; auto; try lia.
    - (* WPoll *)
      destruct (0 <? q (m s)) eqn:Q.
      + apply Z.ltb_lt in Q. injection E as <- <-.
        constructor; cbn; rewrite ?(cnt_set_nth _ _ _ _ _ Hn); cbn; auto; try lia.
      + destruct (sdone (sp s)) eqn:D; injection E as <- <-;
          constructor; cbn; rewrite ?(cnt_set_nth _ _ _ _ _ Hn); cbn; auto; try lia; try (intuition congruence).
    - (* WFlags *)
      destruct (fcanc (m s)) eqn:C; injection E as <- <-;
        constructor; cbn; rewrite ?(cnt_set_nth _ _ _ _ _ Hn); cbn; auto; try lia; try (intuition congruence).
    - (* WCall *)
      injection E as <- <-.
      destruct (hd true (rets (m s)));
        constructor; cbn; rewrite ?(cnt_set_nth _ _ _ _ _ Hn); cbn; auto; try lia.
    - (* WStore0 *) injection E as <- <-.
      constructor; cbn; rewrite ?(cnt_set_nth _ _ _ _ _ Hn); cbn; auto; try lia; try (intuition congruence).
    - (* WOr *) injection E as <- <-.
      constructor; cbn; rewrite ?(cnt_set_nth _ _ _ _ _ Hn); cbn; auto; try lia; try (intuition congruence).
    - (* WClear *) injection E as <- <-.
      constructor; cbn; rewrite ?(cnt_set_nth _ _ _ _ _ Hn); cbn; auto; try lia.
    - (* WCount *) injection E as <- <-.
      constructor; cbn; rewrite ?(cnt_set_nth _ _ _ _ _ Hn); cbn; auto; try lia.
    - (* WDec *) injection E as <- <-.
      pose proof (cnt_pos_nth inwrap _ _ _ Hn eq_refl) as Pos.
      pose proof pow32_val as P32.
      assert (Hh : 0 <= insched (sp s) <= hold (sp s)) by (destruct (sp s); cbn; lia).
      assert (W : wrap 32 (inprog (m s) - 1) = inprog (m s) - 1) by (apply wrap_small; lia).
      constructor; cbn; rewrite ?(cnt_set_nth _ _ _ _ _ Hn); cbn; auto; try lia.
    - discriminate.
  Qed.

  Lemma step_inv s t ch s' ch' site : Inv s -> step s t ch = Some (s', ch', site) -> Inv s'.
  Proof.
    intros I E. destruct (step_shape _ _ _ _ _ _ E) as [[_ E1]|[[_ E1]|[i [_ E1]]]].
    - eapply inv_sched; eauto.
    - eapply inv_user; eauto.
    - eapply inv_pool; eauto.
  Qed.

  Lemma reach_Inv s0 s : Inv s0 -> reach step s0 s -> Inv s.
  Proof.
    intros I0 R. apply (reach_inv step Inv s0); [exact I0 | | exact R].
    intros s1 t ch s1' ch' site I E. eapply step_inv; eauto.
  Qed.

  Lemma reachable_Inv npool rs prog s : reach step (init N npool rs prog) s -> Inv s.
  Proof. apply reach_Inv, init_inv. Qed.

  (* ---------- (1) run count ---------- *)
  Lemma hold_nonneg p : 0 <= hold p.
  Proof. destruct p; cbn; lia. Qed.
  Lemma insched_nonneg p : 0 <= insched p.
  Proof. destruct p; cbn; lia. Qed.

  Theorem at_most_timesToRun npool rs prog s :
    reach step (init N npool rs prog) s -> 0 <= starts (g s) <= tickets (g s) /\ tickets (g s) <= N.
  Proof.
    intros R. destruct (reachable_Inv _ _ _ _ R) as [Itk _ _ Iq Ist _ Ipre _ _ _ _ _].
    pose proof (cnt_nonneg prewrap (pool s)). pose proof (hold_nonneg (sp s)). lia.
  Qed.

  Ltac ifs E := repeat match type of E with context [if ?c then _ else _] => let H := fresh "C" in destruct c eqn:H end.

  (* once some store of 0 to timesToRun has executed, fetch_sub never hands out another ticket *)
  Lemma zeroed_step s t ch s' ch' site :
    Inv s -> zeroed (g s) = true -> step s t ch = Some (s', ch', site) ->
    zeroed (g s') = true /\ tickets (g s') = tickets (g s).
  Proof.
    intros I Hz E. destruct (step_shape _ _ _ _ _ _ E) as [[_ E1]|[[_ E1]|[i [_ E1]]]]; clear E.
    - unfold step_sched in E1. destruct (sp s) eqn:P; ifs E1; try discriminate; injection E1 as <- <-; cbn; auto.
      exfalso. destruct (i_zero _ I Hz) as [D|D]; [rewrite P in D; discriminate|].
      rewrite D in C. discriminate.
    - unfold step_user in E1. destruct (up s) eqn:P; ifs E1; try discriminate; injection E1 as <- <-;
        rewrite ?unext_g; cbn; auto.
    - unfold step_pool in E1. destruct (nth_error (pool s) i) as [p|] eqn:Hn; [|discriminate].
      destruct p; ifs E1; try discriminate; injection E1 as <- <-; cbn; auto.
  Qed.

  Theorem no_ticket_after_zero_store npool rs prog s s' :
    reach step (init N npool rs prog) s -> zeroed (g s) = true -> reach step s s' ->
    tickets (g s') = tickets (g s) /\ starts (g s') <= tickets (g s).
  Proof.
    intros R Hz R'. pose proof (reachable_Inv _ _ _ _ R) as I.
    assert (J : Inv s' /\ zeroed (g s') = true /\ tickets (g s') = tickets (g s)).
    { apply (reach_inv step (fun x => Inv x /\ zeroed (g x) = true /\ tickets (g x) = tickets (g s)) s); [auto | | exact R'].
      intros s1 t ch s1' ch' site (I1 & Z1 & T1) E. split; [eapply step_inv; eauto|].
      destruct (zeroed_step _ _ _ _ _ _ I1 Z1 E) as [Z2 T2]. split; [exact Z2 | lia]. }
    destruct J as (I' & _ & T). split; [exact T|].
    destruct I' as [_ _ _ Iq _ _ Ipre _ _ _ _ _].
    pose proof (cnt_nonneg prewrap (pool s')). pose proof (hold_nonneg (sp s')). lia.
  Qed.

  (* ---------- (3) after the cancelled bit is set only wrappers between their flag load and f() can still start ---------- *)
  Lemma cancelled_step s t ch s' ch' site :
    fcanc (m s) = true -> step s t ch = Some (s', ch', site) ->
    fcanc (m s') = true /\ starts (g s) <= starts (g s') /\
    starts (g s') + cnt atcall (pool s') <= starts (g s) + cnt atcall (pool s).
  Proof.
    intros Hc E. destruct (step_shape _ _ _ _ _ _ E) as [[_ E1]|[[_ E1]|[i [_ E1]]]]; clear E.
    - unfold step_sched in E1. destruct (sp s) eqn:P; ifs E1; try discriminate; injection E1 as <- <-; cbn; repeat split; auto; try lia.
    - unfold step_user in E1. destruct (up s) eqn:P; ifs E1; try discriminate; injection E1 as <- <-;
        rewrite ?unext_g, ?unext_m, ?unext_pool; cbn; repeat split; auto; try lia.
    - unfold step_pool in E1. destruct (nth_error (pool s) i) as [p|] eqn:Hn; [|discriminate].
      destruct p; ifs E1; try discriminate; try congruence; injection E1 as <- <-; cbn;
        rewrite ?(cnt_set_nth _ _ _ _ _ Hn); cbn; repeat split; auto; try lia.
  Qed.

  Theorem starts_bounded_after_cancelled s s' :
    fcanc (m s) = true -> reach step s s' ->
    starts (g s) <= starts (g s') <= starts (g s) + cnt atcall (pool s).
  Proof.
    intros Hc R.
    assert (J : fcanc (m s') = true /\ starts (g s) <= starts (g s') /\
                starts (g s') + cnt atcall (pool s') <= starts (g s) + cnt atcall (pool s)).
    { apply (reach_inv step (fun x => fcanc (m x) = true /\ starts (g s) <= starts (g x) /\
                                      starts (g x) + cnt atcall (pool x) <= starts (g s) + cnt atcall (pool s)) s);
        [repeat split; auto; lia | | exact R].
      intros s1 t ch s1' ch' site (C1 & A1 & B1) E.
      destruct (cancelled_step _ _ _ _ _ _ C1 E) as (C2 & A2 & B2). repeat split; auto; lia. }
    destruct J as (_ & A & B). pose proof (cnt_nonneg atcall (pool s')). lia.
  Qed.

  (* ---------- (4) teardown: a quiet state stays quiet and nothing touches the closure any more ---------- *)
  Definition quiet (s : state) : Prop :=
    fcanc (m s) = true /\ zeroed (g s) = true /\ inprog (m s) = 0 /\ hold (sp s) = 0.

  (* what "touching the functor" means: closure accesses (incl. starting f) and calls of the emptied func *)
  Definition touches (s : state) : Z * Z * Z := (acc (g s), starts (g s), badcall (g s)).

  Lemma quiet_step s t ch s' ch' site :
    Inv s -> quiet s -> step s t ch = Some (s', ch', site) -> quiet s' /\ touches s' = touches s.
  Proof.
    intros I (Hc & Hz & Hi & Hh) E.
    pose proof (i_inp _ I) as Iinp. pose proof (i_q _ I) as Iq.
    pose proof (cnt_nonneg inwrap (pool s)) as Nw. pose proof (insched_nonneg (sp s)) as Ns.
    assert (Q0 : q (m s) = 0) by lia. assert (W0 : cnt inwrap (pool s) = 0) by lia.
    unfold quiet, touches.
    destruct (step_shape _ _ _ _ _ _ E) as [[_ E1]|[[_ E1]|[i [_ E1]]]]; clear E.
    - unfold step_sched in E1. destruct (sp s) eqn:P; cbn in Hh; try discriminate; try lia;
        ifs E1; try discriminate; injection E1 as <- <-; cbn; repeat split; auto.
      exfalso. destruct (i_zero _ I Hz) as [D|D]; [rewrite P in D; discriminate|].
      rewrite D in C. discriminate.
    - unfold step_user in E1. destruct (up s) eqn:P; ifs E1; try discriminate; injection E1 as <- <-;
        rewrite ?unext_g, ?unext_m, ?unext_sp; cbn; repeat split; auto.
    - unfold step_pool in E1. destruct (nth_error (pool s) i) as [p|] eqn:Hn; [|discriminate].
      pose proof (cnt_zero_nth _ _ _ _ W0 Hn) as F.
      destruct p; cbn in F; try discriminate; ifs E1; try discriminate; try (rewrite Q0 in *; discriminate);
        injection E1 as <- <-; cbn; repeat split; auto.
  Qed.

  Lemma quiet_reach s s' : Inv s -> quiet s -> reach step s s' -> quiet s' /\ touches s' = touches s.
  Proof.
    intros I Q R.
    assert (J : Inv s' /\ quiet s' /\ touches s' = touches s).
    { apply (reach_inv step (fun x => Inv x /\ quiet x /\ touches x = touches s) s); [auto | | exact R].
      intros s1 t ch s1' ch' site (I1 & Q1 & T1) E. split; [eapply step_inv; eauto|].
      destruct (quiet_step _ _ _ _ _ _ I1 Q1 E) as [Q2 T2]. split; [exact Q2 | congruence]. }
    tauto.
  Qed.

  (* The destructor's successful inProgress load (state s: user at the spin, inProgress == 0) with the scheduler role
     NOT holding a ticket: from then on no closure access, no invocation, no call of the emptied func, ever. *)
  Theorem dtor_quiescent_except npool rs prog s s' :
    reach step (init N npool rs prog) s ->
    up s = UDtorSpin -> inprog (m s) = 0 -> hold (sp s) = 0 ->
    reach step s s' -> touches s' = touches s.
  Proof.
    intros R U Hi Hh R'. pose proof (reachable_Inv _ _ _ _ R) as I.
    destruct (i_udt _ I (or_introl U)) as [Hz Hc].
    apply (quiet_reach s s' I); [repeat split; assumption | exact R'].
  Qed.
End Main.

(* ---------- (2) the clock layer ---------- *)
Lemma nonsched_step s t ch s' ch' site :
  t <> 0%nat -> step s t ch = Some (s', ch', site) -> sp s' = sp s /\ tickets (g s') = tickets (g s).
Proof.
  intros Ht E. destruct (step_shape _ _ _ _ _ _ E) as [[T _]|[[_ E1]|[i [_ E1]]]]; [contradiction| |]; clear E.
  - unfold step_user in E1. destruct (up s) eqn:P;
      repeat match type of E1 with context [if ?c then _ else _] => destruct c end;
      try discriminate; injection E1 as <- <-; rewrite ?unext_g, ?unext_sp; cbn; auto.
  - unfold step_pool in E1. destruct (nth_error (pool s) i) as [p|] eqn:Hn; [|discriminate].
    destruct p; repeat match type of E1 with context [if ?c then _ else _] => destruct c end;
      try discriminate; injection E1 as <- <-; cbn; auto.
Qed.

Lemma cstep_base eps period steady s t s' :
  cstep eps period steady s (Thr t) = Some s' -> exists ch' site, step (base s) t [] = Some (base s', ch', site).
Proof.
  unfold cstep. destruct (step (base s) t []) as [[[b' ch'] site]|] eqn:Hs; [|discriminate].
  intros E. exists ch', site.
  destruct t as [|t'].
  - destruct (is_pick (sp (base s))).
    + destruct (nextAbs s - now s <? eps); [|discriminate]. injection E as <-. reflexivity.
    + destruct (is_requeue (sp (base s)) (sp b')); injection E as <-; reflexivity.
  - destruct (at_call (base s) (S t')); injection E as <-; reflexivity.
Qed.

Section Clock.
  Variables (eps period : Z) (steady : bool) (N first : Z) (npool : nat) (rs : list bool) (prog : list uop).
  Hypothesis HN : 0 <= N < 2 ^ 32.

  Definition CInv (s : cstate) : Prop :=
    reach step (init N npool rs prog) (base s) /\
    match tfirst s with
    | None => (sp (base s) = SStart \/ sp (base s) = SPick) /\ tickets (g (base s)) = 0 /\ nextAbs s = first /\ tlog s = []
    | Some t0 => first - eps < t0 /\ t0 <= now s /\ Forall (fun t => t0 <= t) (tlog s)
    end.

  Lemma at_call_tickets s t : Inv N s -> at_call s t = true -> 1 <= tickets (g s).
  Proof.
    intros I A. destruct t as [|[|i]]; cbn in A; try discriminate.
    destruct (nth_error (pool s) i) as [p|] eqn:Hn; [|discriminate]. destruct p; try discriminate.
    pose proof (cnt_pos_nth prewrap _ _ _ Hn eq_refl) as Pos.
    destruct I as [_ _ _ Iq Ist _ Ipre _ _ _ _ _]. pose proof (hold_nonneg (sp s)). lia.
  Qed.

  Lemma cstep_inv s e s' : CInv s -> cstep eps period steady s e = Some s' -> CInv s'.
  Proof.
    intros [R C] E. unfold cstep in E. destruct e as [d|t].
    - destruct (0 <=? d) eqn:D; [|discriminate]. apply Z.leb_le in D. injection E as <-. split; [exact R|]. cbn.
      destruct (tfirst s) as [t0|]; [|exact C]. destruct C as (A & B & F). repeat split; auto; lia.
    - destruct (step (base s) t []) as [[[b' ch'] site]|] eqn:Hs; [|discriminate].
      assert (R' : reach step (init N npool rs prog) b') by (eapply reach_step; eauto).
      destruct t as [|t'].
      + destruct (is_pick (sp (base s))) eqn:Pk.
        * destruct (nextAbs s - now s <? eps) eqn:G; [|discriminate]. apply Z.ltb_lt in G. injection E as <-.
          split; [exact R'|]. cbn. destruct (tfirst s) as [t0|]; [exact C|].
          destruct C as (_ & _ & Nx & L). rewrite L. repeat split; [lia | lia | constructor].
        * assert (Keep : tfirst s = None -> (sp b' = SStart \/ sp b' = SPick) /\ tickets (g b') = 0 /\
                                            is_requeue (sp (base s)) (sp b') = false).
          { intros Tn. rewrite Tn in C. destruct C as ([Sp|Sp] & Tk & _ & _); [|rewrite Sp in Pk; discriminate].
            unfold step, step_sched in Hs. rewrite Sp in Hs. injection Hs as <- _ _. cbn. rewrite Sp. auto. }
          destruct (is_requeue (sp (base s)) (sp b')) eqn:Rq; injection E as <-; (split; [exact R'|]); cbn;
            destruct (tfirst s) as [t0|]; try exact C.
          -- destruct (Keep eq_refl) as (_ & _ & X). discriminate.
          -- destruct (Keep eq_refl) as (A & B & _). destruct C as (_ & _ & Nx & L). auto.
      + destruct (nonsched_step _ _ _ _ _ _ (Nat.neq_succ_0 t') Hs) as [Sp Tk].
        destruct (at_call (base s) (S t')) eqn:A; injection E as <-; (split; [exact R'|]); cbn;
          destruct (tfirst s) as [t0|].
        * destruct C as (X & Y & F). repeat split; auto.
        * exfalso. destruct C as (_ & T0 & _ & _).
          pose proof (at_call_tickets _ _ (reachable_Inv N HN _ _ _ _ R) A). lia.
        * exact C.
        * rewrite Sp, Tk. exact C.
  Qed.

  Lemma crun_inv evs : forall s s', CInv s -> crun eps period steady s evs = Some s' -> CInv s'.
  Proof.
    induction evs as [|e r IH]; intros s s' I E; cbn in E; [injection E as <-; exact I|].
    destruct (cstep eps period steady s e) as [s1|] eqn:Hs; [|discriminate].
    eapply IH; [eapply cstep_inv; eauto | exact E].
  Qed.

  (* no invocation starts before the first scheduled time minus eps (= kSmallTimeBuffer) *)
  Theorem not_before_first_time_minus_eps t0 evs s :
    crun eps period steady (cinit t0 first N npool rs prog) evs = Some s ->
    Forall (fun t => first - eps < t) (tlog s).
  Proof.
    intros E. assert (I0 : CInv (cinit t0 first N npool rs prog)).
    { split; [apply reach_refl|]. cbn. auto. }
    destruct (crun_inv _ _ _ I0 E) as [_ C]. destruct (tfirst s) as [tf|].
    - destruct C as (A & _ & F). rewrite Forall_forall in *. intros t Ht. specialize (F t Ht). lia.
    - destruct C as (_ & _ & _ & L). rewrite L. constructor.
  Qed.

  (* the clocked system is a restriction of the untimed one validated by the lockstep tie *)
  Theorem clocked_refines_untimed s t s' :
    cstep eps period steady s (Thr t) = Some s' -> exists ch' site, step (base s) t [] = Some (base s', ch', site).
  Proof. apply cstep_base. Qed.
End Clock.

(* ---------- domain predicates of the findings (Gallina booleans on the state) ---------- *)
Definition wrapper_in_window (s : state) : bool := existsb atcall (pool s).      (* some wrapper is between its flag load and f() *)
Definition holds_ticket (p : spc) : bool :=                                       (* the scheduler role is between a fetch_sub >= 1 and the end of func *)
  match p with SCall _ | SFuncFlags _ | SFuncInc _ | SFuncSched _ => true | _ => false end.

Lemma existsb_cnt f l : existsb f l = false -> cnt f l = 0.
Proof.
  induction l as [|p r IH]; cbn; [reflexivity|]. intros H. apply orb_false_iff in H. destruct H as [A B].
  rewrite A, (IH B). reflexivity.
Qed.
Lemma holds_ticket_hold p : holds_ticket p = false -> hold p = 0.
Proof. destruct p; cbn; intros; try discriminate; reflexivity. Qed.

Theorem no_start_after_cancel_except N npool rs prog s s' :
  0 <= N < 2 ^ 32 -> reach step (init N npool rs prog) s ->
  cancel_ret (g s) = true -> wrapper_in_window s = false -> reach step s s' -> starts (g s') = starts (g s).
Proof.
  intros HN R Hc Hw R'. pose proof (reachable_Inv N HN _ _ _ _ R) as I.
  destruct (i_cret _ _ I Hc) as [_ Fc].
  pose proof (starts_bounded_after_cancelled _ _ Fc R') as B. rewrite (existsb_cnt _ _ Hw) in B. lia.
Qed.

Theorem no_start_after_false_except s s' :
  false_ret (g s) = true -> fcanc (m s) = true -> wrapper_in_window s = false -> reach step s s' ->
  starts (g s') = starts (g s).
Proof.
  intros _ Fc Hw R'. pose proof (starts_bounded_after_cancelled _ _ Fc R') as B. rewrite (existsb_cnt _ _ Hw) in B. lia.
Qed.

(* ---------- refutation witnesses (schedules replayed on the real code by props/C26.py) ---------- *)
Definition run_from (fuel : nat) (s : state) (sched : list Z) : state := fst (fst (run step cands finished fuel s sched [])).
Lemma run_from_reach fuel s sched : reach step s (run_from fuel s sched).
Proof. unfold run_from. apply run_reach. apply reach_refl. Qed.

(* destructor: timesToRun = 1, one pool thread, the user only destroys the handle *)
Definition wd_init := init 1 1 [] [UDtor].
Definition wd_sched1 : list Z := [0;0;0;0;0; 1;1;1;1;1;1].     (* scheduler up to func's cancelled-check, then the whole destructor *)
Definition wd_sched2 : list Z := [0;0; 0;0;0;0;0].             (* scheduler: inProgress++, schedule(wrap); then the pool thread *)
Definition wd_s := run_from 11 wd_init wd_sched1.
Definition wd_s' := run_from 7 wd_s wd_sched2.
Lemma wd_facts :
  dtor_ret (g wd_s) = true /\ up wd_s = UDone /\ sp wd_s = SFuncInc true /\ alive (m wd_s) = false /\
  acc (g wd_s') = acc (g wd_s) + 2 /\ uaf (g wd_s') = 2 /\ late_acc (g wd_s') = 2 /\ finished wd_s' = true.
Proof. vm_compute. repeat split; reflexivity. Qed.

(* cancel: timesToRun = 1, one pool thread, the user calls cancel() *)
Definition wc_init := init 1 1 [] [UCancel].
Definition wc_sched1 : list Z := [0;0;0;0;0;0;0; 1;1;1; 0;0;0].  (* kick-off; wrapper up to its flag load; cancel() *)
Definition wc_sched2 : list Z := [0;0;0;0].                       (* the wrapper calls f *)
Definition wc_s := run_from 13 wc_init wc_sched1.
Definition wc_s' := run_from 4 wc_s wc_sched2.
Lemma wc_facts :
  cancel_ret (g wc_s) = true /\ up wc_s = UDone /\ wrapper_in_window wc_s = true /\ starts (g wc_s) = 0 /\
  starts (g wc_s') = 1 /\ late_start (g wc_s') = 1 /\ finished wc_s' = true.
Proof. vm_compute. repeat split; reflexivity. Qed.

(* false return: timesToRun = 2, two pool threads, the first invocation returns false *)
Definition wf_init := init 2 2 [false] [].
Definition wf_sched1 : list Z := [1; 0;0;0;0;0;0;0;0;0;0;0;0;0; 0;0;0; 1;1;1; 0].  (* both wrappers past their flag load; the first returns false *)
Definition wf_sched2 : list Z := [1].                                               (* the second starts f *)
Definition wf_sched3 : list Z := [1; 0;0;0; 1].   (* alternative continuation: the first wrapper stores 0, sets the bit, clears func; then the second calls f *)
Definition wf_s := run_from 21 wf_init wf_sched1.
Definition wf_s' := run_from 1 wf_s wf_sched2.
Lemma wf_facts :
  false_ret (g wf_s) = true /\ starts (g wf_s) = 1 /\ wrapper_in_window wf_s = true /\
  starts (g wf_s') = 2 /\ late_false (g wf_s') = 1.
Proof. vm_compute. repeat split; reflexivity. Qed.

(* observations beyond the property text: the wrapper's func = {} after a false return frees the functor that another
   wrapper then calls; and the scheduler role can call the emptied func (std::bad_function_call on its thread) *)
Definition wo_sched : list Z := [1; 0;0;0;0;0;0;0;0;0;0;0;0;0; 0;0;0; 1;1;1; 0; 0;0;0; 1].
Definition wo_s := run_from 25 wf_init wo_sched.
Lemma wo_facts : dtor_ret (g wo_s) = false /\ alive (m wo_s) = false /\ uaf (g wo_s) = 1 /\ starts (g wo_s) = 2.
Proof. vm_compute. repeat split; reflexivity. Qed.

Definition wb_init := init 1 1 [] [UDtor].
Definition wb_sched : list Z := [0;0;0; 1;1;1;1;1;1; 0].     (* fetch_sub takes the ticket; the whole destructor; then func(...) on the emptied func *)
Definition wb_s := run_from 10 wb_init wb_sched.
Lemma wb_facts : dtor_ret (g wb_s) = true /\ badcall (g wb_s) = 1 /\ late_acc (g wb_s) = 1 /\ sp wb_s = SEnd.
Proof. vm_compute. repeat split; reflexivity. Qed.

Lemma refuted_dtor :
  exists s s', reach step (init 1 1 [] [UDtor]) s /\ dtor_ret (g s) = true /\ up s = UDone /\
               reach step s s' /\ acc (g s) < acc (g s') /\ 0 < uaf (g s').
Proof.
  exists wd_s, wd_s'. destruct wd_facts as (A & B & _ & _ & C & D & _ & _).
  split; [apply run_from_reach|]. split; [exact A|]. split; [exact B|]. split; [apply run_from_reach|]. split; lia.
Qed.

Lemma refuted_cancel :
  exists s s', reach step (init 1 1 [] [UCancel]) s /\ cancel_ret (g s) = true /\ up s = UDone /\
               reach step s s' /\ starts (g s) < starts (g s').
Proof.
  exists wc_s, wc_s'. destruct wc_facts as (A & B & _ & C & D & _ & _).
  split; [apply run_from_reach|]. split; [exact A|]. split; [exact B|]. split; [apply run_from_reach|]. lia.
Qed.

Lemma refuted_false :
  exists s s', reach step (init 2 2 [false] []) s /\ false_ret (g s) = true /\ reach step s s' /\ starts (g s) < starts (g s').
Proof.
  exists wf_s, wf_s'. destruct wf_facts as (A & B & _ & C & _).
  split; [apply run_from_reach|]. split; [exact A|]. split; [apply run_from_reach|]. lia.
Qed.

Lemma observed_false_return_frees_functor_in_use :
  exists s, reach step (init 2 2 [false] []) s /\ dtor_ret (g s) = false /\ cancel_ret (g s) = false /\ 0 < uaf (g s).
Proof.
  exists wo_s. destruct wo_facts as (A & _ & C & _).
  split; [apply run_from_reach|]. split; [exact A|]. split; [vm_compute; reflexivity|]. lia.
Qed.

Lemma observed_bad_function_call :
  exists s, reach step (init 1 1 [] [UDtor]) s /\ dtor_ret (g s) = true /\ 0 < badcall (g s).
Proof.
  exists wb_s. destruct wb_facts as (A & B & _ & _). split; [apply run_from_reach|]. split; [exact A|]. lia.
Qed.

(* non-vacuity run: 3 runs on 2 pool threads, the user reads calls() and destroys the handle after everything ran *)
Definition nv_sched : list Z :=
  [0;0;0;0;0;0;0;0;0;0;0;0;0;0;0;0;0;0;0; 1;1;1;1;1;1;1;1;1;1;1;1;1;1;1;1;1; 1;1; 0;0;0;0;0;0;0;0;0;0].
Lemma nonvacuous_run :
  let '(s, tr, st) := run_tt 60 3 2 [] [UCalls; UDtor] nv_sched in
  st = SDone /\ starts (g s) = 3 /\ count (m s) = 3 /\ tickets (g s) = 3 /\ uaf (g s) = 0 /\ dtor_ret (g s) = true /\
  ures s = [(r_calls, 3)].
Proof. vm_compute. repeat split; reflexivity. Qed.

Lemma dtor_quiescent_except_b N npool rs prog s s' :
  0 <= N < 2 ^ 32 -> reach step (init N npool rs prog) s ->
  up s = UDtorSpin -> inprog (m s) = 0 -> holds_ticket (sp s) = false ->
  reach step s s' -> touches s' = touches s.
Proof. intros HN R U Hi Hh R'. eapply dtor_quiescent_except; eauto. apply holds_ticket_hold. exact Hh. Qed.

Lemma inprogress_exact N npool rs prog s :
  0 <= N < 2 ^ 32 -> reach step (init N npool rs prog) s ->
  inprog (m s) = q (m s) + cnt inwrap (pool s) + insched (sp s).
Proof. intros HN R. exact (i_inp _ _ (reachable_Inv N HN _ _ _ _ R)). Qed.

Lemma full_statement_false :
  ~ (forall N npool rs prog s, 0 <= N < 2 ^ 32 -> reach step (init N npool rs prog) s ->
       starts (g s) <= N /\
       forall s', reach step s s' ->
         (false_ret (g s) = true -> starts (g s') = starts (g s)) /\
         (cancel_ret (g s) = true -> starts (g s') = starts (g s)) /\
         (dtor_ret (g s) = true -> touches s' = touches s)).
Proof.
  intros F. destruct refuted_cancel as (s & s' & R & C & _ & R' & L).
  assert (HN : 0 <= 1 < 2 ^ 32) by (rewrite pow32_val; lia).
  destruct (F 1 1%nat [] [UCancel] s HN R) as [_ G]. destruct (G s' R') as (_ & X & _). specialize (X C). lia.
Qed.

(* the eps in (b) is tight: a clocked run in which the single invocation starts at first - eps + 1 (first = 1 ms, eps = 10 us) *)
Definition we_evs : list cev := [Thr 0; Thr 0; Thr 0; Thr 0; Thr 0; Thr 0; Thr 0; Thr 2; Thr 2; Thr 2; Thr 2].
Lemma eps_early_possible :
  match crun 10000 0 false (cinit 990001 1000000 1 1 [] []) we_evs with
  | Some s => tlog s = [1000000 - 10000 + 1] /\ starts (g (base s)) = 1
  | None => False
  end.
Proof. vm_compute. split; reflexivity. Qed.
