(* C07, ring fast path with complete groups: scheduleBulkToRings(k) into the clean fully parked pool when the count covers every
   affected wake group completely -- invariant over all interleavings of Model/WakeModel.v. *)
From Coq Require Import ZArith List Bool Arith Lia.
From DV Require Import Base.MachInt Base.Sched Model.WakeModel Model.WakeCheck Model.C07Check Proofs.WakeLemmas Proofs.C09Proofs Proofs.C07Proofs.
Import ListNotations.
Local Open Scope Z_scope.

(* worker pcs while every running flag is true, including the execution of a cascade-host task *)
Definition wpcR (i : nat) (p : pc) : Prop :=
  match p with
  | PCaLoad _ (Some j) | PCaBump _ _ (Some j) | PCaWake _ _ (Some j) => j = i
  | _ => wpc7 i p
  end.

(* the worker will pop its own ring again before it can park *)
Definition prepoll (th : thread) : Prop :=
  match tpc th with
  | PBlocked _ _ => lfail th = O
  | PWoken _ _ | PWf2 _ _ | PExit1 _ _ | PExit2 _ _ | PProbe _ | PTop _ | PRing _ | PFlush _
  | PCaLoad _ _ | PCaBump _ _ _ | PCaWake _ _ _ => True
  | _ => False
  end.

Definition Rw (i : nat) (bit : bool) (ring : list task) (th : thread) : Prop :=
  wpcR i (tpc th) /\ prog th = [] /\ bit = inS (tpc th) /\ (ring <> [] -> prepoll th) /\ (parkseq (tpc th) = true -> (0 < lfail th)%nat).

Lemma nth_repeat_same0 {A} (x : A) k m : nth k (repeat x m) x = x.
Proof. revert k; induction m as [|m IH]; intros [|k]; cbn; auto. Qed.

Lemma nth_repeat_lt0 {A} (x d : A) k m : (k < m)%nat -> nth k (repeat x m) d = x.
Proof. revert k; induction m as [|m IH]; intros [|k] H; cbn; auto; try (exfalso; inversion H; fail). apply IH. apply Nat.succ_lt_mono. exact H. Qed.

Definition gsz (c : cfg) (g : nat) : nat := Nat.min (c_gs c) (c_n c - g * c_gs c).

Lemma length_grp_bits c bs g : length bs = c_n c -> length (grp_bits c bs g) = gsz c g.
Proof. intros L. unfold grp_bits, gsz. rewrite firstn_length, skipn_length, L. reflexivity. Qed.

Lemma popcount_le m : (popcount m <= length m)%nat.
Proof. induction m as [|[|] m IH]; cbn; lia. Qed.

Lemma popcount_all m : (forall k, (k < length m)%nat -> nth k m false = true) -> popcount m = length m.
Proof.
  induction m as [|b m IH]; intros H; [reflexivity|].
  assert (b = true) by (apply (H O); cbn; lia). subst b. cbn. f_equal. apply IH. intros k Hk. apply (H (S k)). cbn; lia.
Qed.

Lemma grp_range c i g : (0 < c_gs c)%nat -> (grp c i = g <-> (g * c_gs c <= i < (g + 1) * c_gs c)%nat).
Proof.
  intros G. unfold grp.
  pose proof (Nat.div_mod i (c_gs c) ltac:(lia)) as D. pose proof (Nat.mod_upper_bound i (c_gs c) ltac:(lia)) as M.
  split.
  - intros <-. nia.
  - intros [L U]. symmetry. apply (Nat.div_unique i (c_gs c) g (i - g * c_gs c)); lia.
Qed.

(* all bits of a group set => the (possibly range-restricted) popcount is the size of the group *)
Lemma popcount_group_full c bs g :
  (0 < c_gs c)%nat -> length bs = c_n c -> (forall i, (i < c_n c)%nat -> grp c i = g -> nth i bs false = true) ->
  popcount (grp_bits c bs g) = gsz c g.
Proof.
  intros G L A. rewrite <- (length_grp_bits c bs g L). apply popcount_all. intros k Hk.
  rewrite (length_grp_bits c bs g L) in Hk. unfold gsz in Hk.
  assert (E : grp c (g * c_gs c + k) = g) by (apply grp_range; lia).
  pose proof (nth_grp_bits c bs g (g * c_gs c + k) G E) as N.
  replace (g * c_gs c + k - g * c_gs c)%nat with k in N by lia. rewrite N. apply A; [lia | exact E].
Qed.

Lemma tids_where_bound f l k lo hi :
  (forall u th, nth_error l (u - k) = Some th -> (k <= u)%nat -> f th = true -> (lo <= u < hi)%nat) ->
  (length (tids_where f l k) <= hi - Nat.max lo k)%nat.
Proof.
  revert k; induction l as [|a r IH]; intros k H; cbn; [lia|].
  assert (H' : forall u th, nth_error r (u - S k) = Some th -> (S k <= u)%nat -> f th = true -> (lo <= u < hi)%nat).
  { intros u th N Lk F. apply (H u th); auto; [|lia]. replace (u - k)%nat with (S (u - S k)) by lia. exact N. }
  specialize (IH (S k) H').
  destruct (f a) eqn:Fa; cbn.
  - assert (lo <= k < hi)%nat by (apply (H k a); auto; rewrite Nat.sub_diag; reflexivity). lia.
  - lia.
Qed.

Section Ring.
  Variable c : cfg.
  Hypothesis gs_pos : (0 < c_gs c)%nat.
  Hypothesis n_pos : (0 < c_n c)%nat.
  Hypothesis wake_mode : c_wake c = true.
  Hypothesis no_tmo : c_tmo c = false.

  Lemma RwR_after_task i th : wpcR i (tpc (after_task i th)) /\ prog (after_task i th) = prog th /\ inS (tpc (after_task i th)) = false
      /\ prepoll (after_task i th) /\ parkseq (tpc (after_task i th)) = false /\ ~ pristine (after_task i th).
  Proof.
    unfold after_task, prepoll, pristine. destruct (8 <=? _)%nat; cbn; repeat split; auto; intros [[j H] _]; discriminate.
  Qed.

  Lemma Rw_round_fail i th : prog th = [] -> Rw i false [] (round_fail c i th) /\ ~ pristine (round_fail c i th).
  Proof.
    intros P. split; [|apply (nb_round_fail c wake_mode)].
    unfold round_fail, park_start. rewrite wake_mode.
    destruct (0 <? ldone th)%nat; [destruct (lwork th); unfold Rw; cbn; repeat split; auto; try discriminate; try congruence|].
    destruct (_ <? c_spins c)%nat; [unfold Rw; cbn; repeat split; auto; try discriminate; try congruence|].
    cbn. destruct (lwork th); unfold Rw; cbn; repeat split; auto; try congruence; lia.
  Qed.

  Lemma after_task_pc i th : tpc (after_task i th) = PFlush i \/ tpc (after_task i th) = PRing i.
  Proof. unfold after_task. destruct (8 <=? _)%nat; cbn; auto. Qed.

  Lemma round_fail_not_cabump i th g n kc : tpc (round_fail c i th) <> PCaBump g n kc.
  Proof.
    unfold round_fail, park_start. rewrite wake_mode.
    destruct (0 <? ldone th)%nat; [destruct (lwork th); cbn; discriminate|].
    destruct (_ <? c_spins c)%nat; [cbn; discriminate|]. cbn. destruct (lwork th); cbn; discriminate.
  Qed.

  Lemma round_fail_pc i th :
    let p := tpc (round_fail c i th) in
    p = PWorkSub i \/ p = PMarkWork i \/ p = PTop i \/ p = PMarkIdle i false \/ p = PEnter1 i WLoop.
  Proof.
    unfold round_fail, park_start. rewrite wake_mode.
    destruct (0 <? ldone th)%nat; [destruct (lwork th); cbn; auto|].
    destruct (_ <? c_spins c)%nat; [cbn; auto 6|]. cbn. destruct (lwork th); cbn; auto 6.
  Qed.

  Lemma Rw_ring i b r th : Rw i b [] th -> (r <> [] -> False) -> Rw i b r th.
  Proof. intros H NE. destruct r; [exact H|]. exfalso. apply NE. discriminate. Qed.

  Ltac wkd := repeat match goal with k : wk |- _ => destruct k end.

  Lemma worker_stepR i th w p N o :
    Rw i (nth i (bits w) false) (nth i (rings p) []) th -> (i < c_n c)%nat ->
    length (bits w) = c_n c -> length (rings p) = c_n c ->
    flags_true p -> hint p = false -> central p = O -> steals_zero p ->
    tstep c w p N th = Some o ->
    Rw i (nth i (bits (o_w o)) false) (nth i (rings (o_p o)) []) (o_th o) /\
    runflags (o_p o) = runflags p /\ hint (o_p o) = false /\ central (o_p o) = O /\ steals (o_p o) = steals p /\
    (forall j, j <> i -> nth j (bits (o_w o)) false = nth j (bits w) false) /\
    (forall j, j <> i -> nth j (rings (o_p o)) [] = nth j (rings p) []) /\
    (nth i (rings (o_p o)) [] <> [] -> nth i (rings p) [] <> []) /\
    length (bits (o_w o)) = c_n c /\ length (rings (o_p o)) = c_n c /\
    ~ pristine (o_th o) /\
    (o_wake o = None \/ exists g n, o_wake o = Some (g, n) /\ tpc th = PCaWake g n (Some i)) /\
    (forall g n kc, tpc (o_th o) = PCaBump g n kc -> tpc th = PCaLoad g kc /\ n = popcount (grp_bits c (bits w) g) \/ tpc th = PCaBump g n kc) /\
    (forall g n kc, tpc (o_th o) = PCaWake g n kc -> tpc th = PCaBump g n kc) /\
    (forall sd g l k n lg, tpc (o_th o) <> PRgBump sd g l k n lg /\ tpc (o_th o) <> PRgWake sd g l k n lg).
  Proof.
    intros (HW & Hprog & Hbit & Hring & Hps) Hi Lb Lr FT HH CZ SZ T. unfold tstep in T.
    destruct (tpc th) eqn:P; cbn in HW; try (exfalso; exact HW).
    all: wkd; cbn in HW; try (exfalso; exact HW).
    all: try (match goal with e : bool |- _ => destruct e; cbn in HW; try (exfalso; exact HW) end).
    all: try (match goal with kc : option nat |- _ => destruct kc; cbn in HW; try (exfalso; exact HW) end).
    all: try subst i.
    all: cbn in T; rewrite ?Hprog, ?wake_mode, ?no_tmo, ?FT, ?SZ, ?HH, ?CZ in T; cbn in T.
    all: repeat match type of T with
         | context [if ?b then _ else _] => destruct b eqn:?
         | context [match nth ?a (rings ?b) ?d with _ => _ end] => destruct (nth a (rings b) d) eqn:?
         | context [match lowest_set ?x with _ => _ end] => destruct (lowest_set x) eqn:?
         | context [match ?t with TPlain => _ | TCasc _ => _ end] => destruct t eqn:?
         | context [match ?n with O => _ | S _ => _ end] => destruct n eqn:?
         end.
    all: try discriminate T.
    all: injection T as <-; cbn.
    all: cbn in Hbit, Hps; unfold prepoll in Hring; rewrite P in Hring; cbn in Hring.
    all: (split; [|repeat match goal with |- _ /\ _ => split end]).
    all: try reflexivity.
    all: try solve [ auto | left; reflexivity | intros; rewrite nth_upd_neq by auto; reflexivity | rewrite length_upd; auto
                   | intros [[j0 Hj] Hl]; cbn in *; try discriminate; lia
                   | intros g0 n0 kc0 E0; discriminate E0
                   | right; do 2 eexists; split; reflexivity
                   | apply (RwR_after_task) | apply Rw_round_fail; auto ].
    all: try solve [ intros ? ? ? E0; discriminate E0
                   | intros ? ? ? E0; injection E0 as <- <- <-; left; split; reflexivity
                   | intros ? ? ? E0; injection E0 as <- <- <-; reflexivity
                   | intros; split; discriminate
                   | intros; split; match goal with |- tpc (after_task ?i ?t) <> _ => destruct (after_task_pc i t) as [Q|Q]; rewrite Q; discriminate end
                   | intros ? ? ? E0; exfalso; match type of E0 with tpc (after_task ?i ?t) = _ => destruct (after_task_pc i t) as [Q|Q]; rewrite Q in E0; discriminate end
                   | intros ? ? ? E0; exfalso; apply (round_fail_not_cabump _ _ _ _ _ E0)
                   | intros _; discriminate ].
    all: rewrite ?(nth_upd_eq (bits w)) by lia; rewrite ?(nth_upd_eq (rings p)) by lia.
    all: try solve [ rewrite Hbit; apply Rw_ring; [apply Rw_round_fail; auto | tauto] ].
    all: try match goal with |- context [after_task ?i ?t] =>
           destruct (RwR_after_task i t) as (A1 & A2 & A3 & A4 & A5 & A6); rewrite Hbit; unfold Rw; rewrite A2, A3, A5; cbn;
           repeat split; auto; try discriminate end.
    all: try solve [ rewrite ?Hbit; unfold Rw, prepoll; cbn; repeat split; auto; try discriminate; try tauto; try lia ].
    all: try solve [ intros ? ? ? E0; exfalso; match type of E0 with tpc (round_fail c ?i ?t) = _ =>
                       destruct (round_fail_pc i t) as [Q|[Q|[Q|[Q|Q]]]]; rewrite Q in E0; discriminate end
                   | intros; split; match goal with |- tpc (round_fail c ?i ?t) <> _ =>
                       destruct (round_fail_pc i t) as [Q|[Q|[Q|[Q|Q]]]]; rewrite Q; discriminate end ].
  Qed.

  (* ---------- the submission: scheduleBulkToRings(k), every affected group completely covered ---------- *)
  Variable k : nat.
  Hypothesis k_pos : (0 < k)%nat.
  Hypothesis k_le : (k <= c_n c)%nat.
  Hypothesis full : partial_count c k = false.
  Definition last : nat := seed_last c k.

  Lemma last_eq : last = ((k - 1) / c_gs c)%nat.
  Proof.
    unfold last, seed_last. apply Nat.min_l. unfold ngroups.
    assert ((k - 1) / c_gs c <= (c_n c - 1) / c_gs c)%nat by (apply Nat.div_le_mono; lia).
    assert ((c_n c + c_gs c - 1) / c_gs c = (c_n c - 1) / c_gs c + 1)%nat.
    { replace (c_n c + c_gs c - 1)%nat with ((c_n c - 1) + 1 * c_gs c)%nat by lia. rewrite Nat.div_add by lia. reflexivity. }
    lia.
  Qed.

  Lemma full_firstn bs : length bs = c_n c -> firstn (k - last * c_gs c) (grp_bits c bs last) = grp_bits c bs last.
  Proof.
    intros L. apply firstn_all2. rewrite (length_grp_bits c bs last L). unfold gsz.
    pose proof full as F. unfold partial_count in F. rewrite <- last_eq in F. apply Nat.ltb_ge in F. exact F.
  Qed.

  Lemma grp_le_last i : (i < k)%nat -> (grp c i <= last)%nat.
  Proof. intros H. rewrite last_eq. unfold grp. apply Nat.div_le_mono; lia. Qed.

  Definition allpr (s : state) (g : nat) : Prop :=
    forall i th, (i < c_n c)%nat -> grp c i = g -> nth_error (threads s) i = Some th -> pristine th.
  Definition nopr (s : state) (g : nat) : Prop :=
    forall i th, (i < c_n c)%nat -> grp c i = g -> nth_error (threads s) i = Some th -> ~ pristine th.

  (* in-flight wake operations: while the whole target group is still in its initial wait, the count they loaded covers the group *)
  Definition R3 (s : state) (th : thread) : Prop :=
    match tpc th with
    | PCaBump g m _ | PCaWake g m _ | PRgBump _ g _ _ m _ | PRgWake _ g _ _ m _ => allpr s g -> (gsz c g <= m)%nat
    | _ => True
    end.

  Definition Pp (s : state) (th : thread) : Prop :=
    match tpc th with
    | PStart => prog th = [ORings k] /\ (forall g, allpr s g) /\ total (wks s) = Z.of_nat (c_n c)
    | PRiAdd k' | PRiTotal k' => k' = k /\ prog th = [] /\ (forall g, allpr s g) /\ total (wks s) = Z.of_nat (c_n c)
    | PRiPush k' _ r => k' = k /\ prog th = [] /\ (forall g, allpr s g) /\ total (wks s) = Z.of_nat (c_n c) /\ (r < Nat.min k (c_n c))%nat
    | PSeedTotal k' lg => k' = k /\ lg = false /\ prog th = [] /\ (forall g, allpr s g) /\ total (wks s) = Z.of_nat (c_n c)
    | PRgLoad sd g l k' lg | PRgBump sd g l k' _ lg | PRgWake sd g l k' _ lg =>
        k' = k /\ lg = false /\ l = last /\ prog th = [] /\ (g <= last)%nat /\ (forall g', (g' < g)%nat -> nopr s g')
    | PDone => forall g', (g' <= last)%nat -> nopr s g'
    | _ => False
    end.

  Definition InvR (s : state) : Prop :=
    cf s = c /\ length (threads s) = S (c_n c) /\ length (bits (wks s)) = c_n c /\ length (rings (pl s)) = c_n c /\
    flags_true (pl s) /\ hint (pl s) = false /\ central (pl s) = O /\ steals_zero (pl s) /\
    (forall i, nth i (rings (pl s)) [] <> [] -> (i < k)%nat) /\
    (forall i, (i < c_n c)%nat -> exists th, nth_error (threads s) i = Some th /\
         Rw i (nth i (bits (wks s)) false) (nth i (rings (pl s)) []) th /\ R3 s th) /\
    (exists thp, nth_error (threads s) (c_n c) = Some thp /\ Pp s thp /\ R3 s thp) /\
    (forall g, allpr s g \/ nopr s g).

  (* ---------- transfer of the group predicates along a step ---------- *)
  Lemma in_remove_nth {A} (l : list A) j x : In x (remove_nth j l) -> In x l.
  Proof. revert j; induction l as [|a l IH]; intros [|j] H; cbn in *; auto. destruct H as [->|H]; auto. right. eapply IH; eauto. Qed.

  Lemma wake_pick_subset m ws ch acc u : In u (fst (wake_pick m ws ch acc)) -> In u ws \/ In u acc.
  Proof.
    revert ws ch acc; induction m as [|m IH]; intros ws ch acc H; [right; exact H|].
    destruct ws as [|w0 wr]; [right; exact H|]. cbn [wake_pick] in H.
    destruct (S m <? length (w0 :: wr))%nat; apply IH in H.
    - destruct H as [H|[E|H]].
      + left. eapply in_remove_nth; eauto.
      + left. rewrite <- E.
        match goal with |- In (nth ?j ?l ?d) _ => destruct (nth_in_or_default j l d) as [Hn|Hn]; [exact Hn | rewrite Hn; left; reflexivity] end.
      + right. exact H.
    - destruct H as [H|[E|H]].
      + left. right. exact H.
      + left. left. exact E.
      + right. exact H.
  Qed.

  Section Transfer.
    Variables (s s' : state) (t : nat) (th' : thread) (woken : list nat).
    Hypothesis HT : threads s' = upd (wake_tids (threads s) O woken) t th'.
    Hypothesis HL : length (threads s) = S (c_n c).
    Hypothesis Hcf : cf s = c.
    Hypothesis HWk : forall i, (i < c_n c)%nat -> exists th, nth_error (threads s) i = Some th /\ wpcR i (tpc th).
    Hypothesis HP : exists thp, nth_error (threads s) (c_n c) = Some thp /\ forall j w, tpc thp <> PBlocked j w.
    Hypothesis Ht : (t < S (c_n c))%nat.
    Hypothesis Hnp : (t < c_n c)%nat -> ~ pristine th'.

    Lemma new_self : nth_error (threads s') t = Some th'.
    Proof. rewrite HT. apply nth_error_upd_eq. rewrite length_wake_tids, HL. exact Ht. Qed.

    Lemma new_other i th : i <> t -> nth_error (threads s) i = Some th ->
      nth_error (threads s') i = Some (if existsb (Nat.eqb i) woken then wake_thread th else th).
    Proof. intros D N. rewrite HT, nth_error_upd_neq by auto. rewrite nth_error_wake_tids, N. reflexivity. Qed.

    Lemma nopr_fwd g : nopr s g -> nopr s' g.
    Proof.
      intros NP i th Hi Hg N. destruct (Nat.eq_dec i t) as [->|D].
      - rewrite new_self in N. injection N as <-. apply Hnp. exact Hi.
      - destruct (HWk i Hi) as (tho & No & _). rewrite (new_other i tho D No) in N. injection N as <-.
        specialize (NP i tho Hi Hg No). destruct (existsb _ woken); [apply pristine_wake; exact NP | exact NP].
    Qed.

    Lemma allpr_back g : allpr s' g -> allpr s g.
    Proof.
      intros AP i th Hi Hg N. destruct (Nat.eq_dec i t) as [->|D].
      - exfalso. apply (Hnp Hi). apply (AP t th' Hi Hg). apply new_self.
      - pose proof (AP i _ Hi Hg (new_other i th D N)) as Q. destruct (existsb _ woken); [|exact Q].
        destruct (tpc th) eqn:P; try (rewrite wake_thread_id in Q by (intros; congruence); exact Q).
        exfalso. destruct Q as [[j Hj] _]. rewrite wake_thread_pc, P in Hj. discriminate.
    Qed.

    (* every woken thread is a worker of the woken group, provided the woken set comes from that group's waiters *)
    Lemma waiter_is_group_worker gw u : In u (waiters s gw) -> (u < c_n c)%nat /\ grp c u = gw.
    Proof.
      intros I. apply in_waiters in I. destruct I as (th & N & B).
      assert (Lu : (u < S (c_n c))%nat) by (rewrite <- HL; apply nth_error_Some; congruence).
      unfold blocked_on in B. destruct (tpc th) eqn:P; try discriminate.
      destruct (Nat.eq_dec u (c_n c)) as [->|D].
      - exfalso. destruct HP as (thp & Np & NB). rewrite N in Np. injection Np as <-. eapply NB; eauto.
      - assert (Hu : (u < c_n c)%nat) by lia. split; [exact Hu|].
        destruct (HWk u Hu) as (tho & No & W). rewrite N in No. injection No as <-. rewrite P in W. cbn in W.
        destruct w; try contradiction. subst i. rewrite Hcf in B. apply Nat.eqb_eq in B. exact B.
    Qed.

    Lemma allpr_keep g gw :
      allpr s g -> (forall u, In u woken -> In u (waiters s gw)) -> g <> gw -> ((t < c_n c)%nat -> grp c t <> g) -> allpr s' g.
    Proof.
      intros AP Sub D Dt i th Hi Hg N. destruct (Nat.eq_dec i t) as [->|Di]; [exfalso; apply (Dt Hi); exact Hg|].
      destruct (HWk i Hi) as (tho & No & _). rewrite (new_other i tho Di No) in N. injection N as <-.
      destruct (existsb (Nat.eqb i) woken) eqn:X; [|apply (AP i tho Hi Hg No)].
      exfalso. apply existsb_exists in X. destruct X as (u & Iu & Eu). apply Nat.eqb_eq in Eu. subst u.
      destruct (waiter_is_group_worker gw i (Sub i Iu)) as [_ G]. congruence.
    Qed.

    Lemma waiters_bound gw : (length (waiters s gw) <= gsz c gw)%nat.
    Proof.
      unfold waiters.
      pose proof (tids_where_bound (blocked_on (cf s) gw) (threads s) O (gw * c_gs c) (Nat.min ((gw + 1) * c_gs c) (c_n c))) as B.
      assert (H : forall u th, nth_error (threads s) (u - 0) = Some th -> (0 <= u)%nat -> blocked_on (cf s) gw th = true ->
                  (gw * c_gs c <= u < Nat.min ((gw + 1) * c_gs c) (c_n c))%nat).
      { intros u th N _ Bl. rewrite Nat.sub_0_r in N.
        assert (I : In u (waiters s gw)) by (apply in_waiters; eauto).
        destruct (waiter_is_group_worker gw u I) as [Hu G]. apply grp_range in G; [|exact gs_pos]. lia. }
      specialize (B H). unfold gsz. lia.
    Qed.

    Lemma wake_makes_nopr gw m ch :
      allpr s gw -> (gsz c gw <= m)%nat -> woken = fst (wake_pick m (waiters s gw) ch []) -> nopr s' gw.
    Proof.
      intros AP Hm Ew i th Hi Hg N. destruct (Nat.eq_dec i t) as [->|Di].
      - rewrite new_self in N. injection N as <-. apply Hnp. exact Hi.
      - destruct (HWk i Hi) as (tho & No & W). rewrite (new_other i tho Di No) in N. injection N as <-.
        pose proof (AP i tho Hi Hg No) as Pr. destruct Pr as [[j Pj] Lf].
        assert (Ji : j = i). { rewrite Pj in W. cbn in W. exact W. } subst j.
        assert (Iw : In i woken).
        { rewrite Ew. apply wake_pick_all_in; [pose proof (waiters_bound gw); lia|].
          apply in_waiters. exists tho. split; [exact No|]. unfold blocked_on. rewrite Pj, Hcf, Hg. apply Nat.eqb_refl. }
        assert (X : existsb (Nat.eqb i) woken = true) by (apply existsb_exists; exists i; split; [exact Iw | apply Nat.eqb_refl]).
        rewrite X. unfold pristine, wake_thread. rewrite Pj. cbn. intros [[j' Hj'] _]. discriminate.
    Qed.
  End Transfer.

  (* ---------- small frames ---------- *)
  Lemma Rw_wake i b r th : Rw i b r th -> Rw i b r (wake_thread th).
  Proof.
    intros J. unfold wake_thread. destruct (tpc th) eqn:P; try exact J.
    destruct J as (W & Pg & Bi & Ri & Ps). rewrite P in W, Bi. cbn in W, Bi. destruct w; try contradiction.
    unfold Rw, prepoll; cbn. repeat split; auto; discriminate.
  Qed.

  Lemma R3_back s s' th : R3 s th -> (forall g, allpr s' g -> allpr s g) -> R3 s' th.
  Proof. unfold R3. intros H B. destruct (tpc th); auto. Qed.

  Lemma R3_wake s th : R3 s th -> R3 s (wake_thread th).
  Proof. unfold R3. rewrite wake_thread_pc. destruct (tpc th); auto. Qed.

  Lemma Pp_not_blocked s th : Pp s th -> forall j w, tpc th <> PBlocked j w.
  Proof. unfold Pp. intros H j w E. rewrite E in H. exact H. Qed.

  Lemma Pp_fwd s s' th :
    Pp s th -> (exists g, ~ allpr s g) -> (forall g, nopr s g -> nopr s' g) -> Pp s' th.
  Proof.
    unfold Pp. intros H [g0 NA] F.
    destruct (tpc th) eqn:P; try exact H.
    - (* PStart *) exfalso. apply NA. apply (proj1 (proj2 H)).
    - (* PDone *) intros g' Hg. apply F. apply H. exact Hg.
    - (* PSeedTotal *) exfalso. apply NA. destruct H as (_ & _ & _ & H & _). apply H.
    - (* PRgLoad *) destruct H as (A1 & A2 & A3 & A4 & A5 & A6). repeat split; auto.
    - (* PRgBump *) destruct H as (A1 & A2 & A3 & A4 & A5 & A6). repeat split; auto.
    - (* PRgWake *) destruct H as (A1 & A2 & A3 & A4 & A5 & A6). repeat split; auto.
    - (* PRiAdd *) exfalso. apply NA. destruct H as (_ & _ & H & _). apply H.
    - (* PRiTotal *) exfalso. apply NA. destruct H as (_ & _ & H & _). apply H.
    - (* PRiPush *) exfalso. apply NA. destruct H as (_ & _ & H & _). apply H.
  Qed.

  Lemma bits_of_allpr s g :
    (forall i, (i < c_n c)%nat -> exists th, nth_error (threads s) i = Some th /\
         Rw i (nth i (bits (wks s)) false) (nth i (rings (pl s)) []) th /\ R3 s th) ->
    allpr s g -> forall i, (i < c_n c)%nat -> grp c i = g -> nth i (bits (wks s)) false = true.
  Proof.
    intros Wk AP i Hi Hg. destruct (Wk i Hi) as (th & N & (_ & _ & Bi & _) & _).
    destruct (AP i th Hi Hg N) as [[j Pj] _]. rewrite Pj in Bi. exact Bi.
  Qed.

  Lemma same_workers s s' :
    (forall i, (i < c_n c)%nat -> nth_error (threads s') i = nth_error (threads s) i) ->
    (forall g, allpr s' g <-> allpr s g) /\ (forall g, nopr s' g <-> nopr s g).
  Proof.
    intros Sm. split; intros g; split; intros H i th Hi Hg N.
    - apply (H i th Hi Hg). rewrite Sm; auto.
    - apply (H i th Hi Hg). rewrite <- Sm; auto.
    - apply (H i th Hi Hg). rewrite Sm; auto.
    - apply (H i th Hi Hg). rewrite <- Sm; auto.
  Qed.

  Lemma prepoll_pristine th : pristine th -> prepoll th.
  Proof. intros [[j Pj] Lf]. unfold prepoll. rewrite Pj. exact Lf. Qed.

  (* a producer step that wakes nobody and leaves the worker threads alone *)
  Lemma producer_frame s s' thn :
    InvR s ->
    cf s' = c -> threads s' = upd (threads s) (c_n c) thn -> bits (wks s') = bits (wks s) ->
    runflags (pl s') = runflags (pl s) -> hint (pl s') = false -> central (pl s') = O -> steals (pl s') = steals (pl s) ->
    length (rings (pl s')) = c_n c ->
    (forall i, nth i (rings (pl s')) [] <> [] -> (i < k)%nat /\ (nth i (rings (pl s)) [] <> [] \/ forall g, allpr s g)) ->
    Pp s' thn -> R3 s' thn -> InvR s'.
  Proof.
    intros (Hcf & Len & Lb & Lr & FT & HH & CZ & SZ & RK & Wk & (thp & Np & PP & R3p) & R2) Cf' Et Bs Rf Hh Cz Sz Lr' Rg PP' R3'.
    assert (Sm : forall i, (i < c_n c)%nat -> nth_error (threads s') i = nth_error (threads s) i).
    { intros i Hi. rewrite Et. apply nth_error_upd_neq. lia. }
    destruct (same_workers s s' Sm) as [AS NS].
    split; [exact Cf'|]. split; [rewrite Et, length_upd; exact Len|]. split; [rewrite Bs; exact Lb|]. split; [exact Lr'|].
    split; [unfold flags_true; rewrite Rf; exact FT|]. split; [exact Hh|]. split; [exact Cz|].
    split; [unfold steals_zero; rewrite Sz; exact SZ|].
    split; [intros i NE; apply (Rg i NE)|].
    split.
    { intros i Hi. destruct (Wk i Hi) as (thi & Ni & (W & Pg & Bi & Ri & Ps) & R3i).
      exists thi. split; [rewrite Sm; auto|]. rewrite Bs. split.
      - repeat split; auto. intros NE. destruct (proj2 (Rg i NE)) as [Old|AP]; [apply Ri; exact Old|].
        apply prepoll_pristine. apply (AP (grp c i) i thi Hi eq_refl Ni).
      - eapply R3_back; [exact R3i|]. intros g. apply AS. }
    split.
    { exists thn. split; [rewrite Et; apply nth_error_upd_eq; rewrite Len; lia|]. split; assumption. }
    intros g. destruct (R2 g) as [A|Nn]; [left; apply AS; exact A | right; apply NS; exact Nn].
  Qed.

  (* ---------- the inductive step ---------- *)
  Opaque Nat.ltb Nat.min Nat.eqb.
  Lemma step_invR s t ch s' ch' site : InvR s -> step s t ch = Some (s', ch', site) -> InvR s'.
  Proof.
    intros IR E. pose proof IR as (Hcf & Len & Lb & Lr & FT & HH & CZ & SZ & RK & Wk & (thp & Np & PP & R3p) & R2).
    destruct (step_decomp _ _ _ _ _ _ E) as (th & o & woken & N & T & Ec & Ew & Ep & Et & Ewk).
    rewrite Hcf in T.
    assert (Ltt : (t < S (c_n c))%nat) by (rewrite <- Len; apply nth_error_Some; congruence).
    assert (Len' : length (threads s') = S (c_n c)) by (rewrite Et, length_upd, length_wake_tids; exact Len).
    assert (HWk : forall i, (i < c_n c)%nat -> exists th, nth_error (threads s) i = Some th /\ wpcR i (tpc th)).
    { intros i Hi. destruct (Wk i Hi) as (x & Nx & (W & _) & _). eauto. }
    assert (HP : exists thp, nth_error (threads s) (c_n c) = Some thp /\ forall j w, tpc thp <> PBlocked j w).
    { exists thp. split; [exact Np | apply (Pp_not_blocked s); exact PP]. }
    destruct (Nat.eq_dec t (c_n c)) as [Etn|Dt].
    2: {
      (* ---- a worker steps ---- *)
      assert (Lt1 : (t < c_n c)%nat) by lia.
      destruct (Wk t Lt1) as (thw & Nw & RWt & R3t). rewrite N in Nw. injection Nw as <-.
      destruct (worker_stepR t th _ _ _ o RWt Lt1 Lb Lr FT HH CZ SZ T)
        as (RW' & Rf & Hh' & Cz' & Sz' & Bo & Ro & Rnb & Lb' & Lr' & NP' & Wake & CaB & CaW & NoRg).
      assert (NPt : ~ pristine th).
      { intros [[j Pj] _]. unfold tstep in T. rewrite Pj, no_tmo in T. discriminate. }
      assert (NAt : ~ allpr s (grp c t)) by (intros A; apply NPt; apply (A t th Lt1 eq_refl N)).
      assert (Hnp : (t < c_n c)%nat -> ~ pristine (o_th o)) by (intros _; exact NP').
      pose proof (nopr_fwd s s' t (o_th o) woken Et Len HWk Ltt Hnp) as NF.
      pose proof (allpr_back s s' t (o_th o) woken Et Len Ltt Hnp) as AB.
      assert (Sub : exists gw, forall u, In u woken -> In u (waiters s gw)).
      { destruct Wake as [Wn|(g & m & Wg & _)].
        - rewrite Wn in Ewk. subst woken. exists O. intros u [].
        - rewrite Wg in Ewk. exists g. intros u Iu. rewrite Ewk in Iu. apply wake_pick_subset in Iu. destruct Iu as [Iu|[]]. exact Iu. }
      split; [congruence|]. split; [exact Len'|]. rewrite Ew, Ep.
      split; [exact Lb'|]. split; [exact Lr'|].
      split; [unfold flags_true; rewrite Rf; exact FT|]. split; [exact Hh'|]. split; [exact Cz'|].
      split; [unfold steals_zero; rewrite Sz'; exact SZ|].
      split.
      { intros i NE. destruct (Nat.eq_dec i t) as [->|D]; [apply RK; apply Rnb; exact NE | rewrite Ro in NE by exact D; apply RK; exact NE]. }
      split.
      { intros i Hi. destruct (Nat.eq_dec i t) as [->|D].
        - exists (o_th o). split; [apply (new_self s s' t (o_th o) woken Et Len Ltt)|]. split; [exact RW'|].
          unfold R3. destruct (tpc (o_th o)) eqn:Pn; auto.
          + (* PRgBump *) exfalso. eapply (proj1 (NoRg _ _ _ _ _ _)); eauto.
          + (* PRgWake *) exfalso. eapply (proj2 (NoRg _ _ _ _ _ _)); eauto.
          + (* PCaBump *) intros A. apply AB in A. destruct (CaB _ _ _ eq_refl) as [[Po ->]|Po].
            * rewrite (popcount_group_full c (bits (wks s)) g gs_pos Lb (bits_of_allpr s g Wk A)). lia.
            * unfold R3 in R3t. rewrite Po in R3t. apply R3t. exact A.
          + (* PCaWake *) intros A. apply AB in A. pose proof (CaW _ _ _ eq_refl) as Po. unfold R3 in R3t. rewrite Po in R3t. apply R3t. exact A.
        - destruct (Wk i Hi) as (thi & Ni & RWi & R3i).
          rewrite (Bo i D), (Ro i D).
          eexists. split; [apply (new_other s s' t (o_th o) woken Et i thi D Ni)|].
          destruct (existsb (Nat.eqb i) woken).
          + split; [apply Rw_wake; exact RWi | apply R3_wake; eapply R3_back; eauto].
          + split; [exact RWi | eapply R3_back; eauto]. }
      split.
      { exists thp. split.
        - rewrite (new_other s s' t (o_th o) woken Et (c_n c) thp ltac:(lia) Np).
          rewrite (wake_thread_id thp (Pp_not_blocked s thp PP)). destruct (existsb _ woken); reflexivity.
        - split; [eapply Pp_fwd; eauto | eapply R3_back; eauto]. }
      intros g. destruct (R2 g) as [A|Nn]; [|right; apply NF; exact Nn].
      assert (Dg : grp c t <> g) by (intros <-; exact (NAt A)).
      destruct Sub as (gw & Sub).
      destruct (Nat.eq_dec g gw) as [->|Dgw].
      - (* the woken group *)
        destruct Wake as [Wn|(g1 & m & Wg & Po)].
        + rewrite Wn in Ewk. subst woken. left.
          apply (allpr_keep s s' t (o_th o) [] Et Len Hcf HWk HP Ltt Hnp gw (S gw) A); [intros u [] | lia | intros _; exact Dg].
        + rewrite Wg in Ewk.
          destruct (Nat.eq_dec g1 gw) as [->|D1].
          * right. unfold R3 in R3t. rewrite Po in R3t.
            apply (wake_makes_nopr s s' t (o_th o) woken Et Len Hcf HWk HP Ltt Hnp gw m ch A (R3t A) Ewk).
          * left. apply (allpr_keep s s' t (o_th o) woken Et Len Hcf HWk HP Ltt Hnp gw g1 A); [|exact (not_eq_sym D1)|intros _; exact Dg].
            intros u Iu. rewrite Ewk in Iu. apply wake_pick_subset in Iu. destruct Iu as [Iu|[]]. exact Iu.
      - left. apply (allpr_keep s s' t (o_th o) woken Et Len Hcf HWk HP Ltt Hnp g gw A Sub Dgw). intros _; exact Dg. }
    (* ---- the producer steps ---- *)
    subst t. rewrite N in Np. injection Np as <-.
    assert (Hnp : (c_n c < c_n c)%nat -> ~ pristine (o_th o)) by lia.
    pose proof (nopr_fwd s s' (c_n c) (o_th o) woken Et Len HWk Ltt Hnp) as NF.
    pose proof (allpr_back s s' (c_n c) (o_th o) woken Et Len Ltt Hnp) as AB.
    assert (NW : o_wake o = None -> threads s' = upd (threads s) (c_n c) (o_th o) /\
                 (forall g, allpr s' g <-> allpr s g) /\ (forall g, nopr s' g <-> nopr s g)).
    { intros Wn. rewrite Wn in Ewk. subst woken. rewrite wake_tids_nil in Et. split; [exact Et|].
      apply same_workers. intros i Hi. rewrite Et. apply nth_error_upd_neq. lia. }
    assert (Cf' : cf s' = c) by congruence.
    unfold tstep in T. unfold Pp in PP.
    destruct (tpc th) eqn:P; try contradiction; cbn in T.
    - (* PStart *) destruct PP as (Pg & AA & Tt). unfold next in T. rewrite Pg in T. cbn in T. injection T as <-.
      destruct (NW eq_refl) as (Et' & AS & NS). cbn in *.
      apply (producer_frame s s' _ IR Cf' Et'); rewrite ?Ew, ?Ep; cbn; auto;
        try (intros i NE; split; [apply RK; exact NE | left; exact NE]); try exact I.
      unfold Pp; cbn. split; [first [reflexivity | exact Pg]|]. split; [first [reflexivity | exact Pg]|]. split; [intros gq; apply AS; apply AA | rewrite Ew; exact Tt].
    - (* PDone *) discriminate.
    - (* PSeedTotal *) destruct PP as (-> & -> & Pg & AA & Tt). rewrite Tt in T.
      replace (Z.of_nat (c_n c) =? 0) with false in T by (symmetry; apply Z.eqb_neq; lia).
      injection T as <-. destruct (NW eq_refl) as (Et' & AS & NS). cbn in *.
      apply (producer_frame s s' _ IR Cf' Et'); rewrite ?Ew, ?Ep; cbn; auto;
        try (intros i NE; split; [apply RK; exact NE | left; exact NE]); try exact I.
      unfold Pp; cbn. split; [first [reflexivity | exact Pg]|]. split; [first [reflexivity | exact Pg]|]. split; [first [reflexivity | exact Pg]|]. split; [first [reflexivity | exact Pg]|]. split; [lia|]. intros g' Hg'. lia.
    - (* PRgLoad *) destruct PP as (-> & -> & -> & Pg & Gl & Nb). injection T as <-.
      destruct (NW eq_refl) as (Et' & AS & NS). cbn in *.
      apply (producer_frame s s' _ IR Cf' Et'); rewrite ?Ew, ?Ep; cbn; auto;
        try (intros i NE; split; [apply RK; exact NE | left; exact NE]); try exact I.
      + unfold Pp; cbn. split; [first [reflexivity | exact Pg]|]. split; [first [reflexivity | exact Pg]|]. split; [first [reflexivity | exact Pg]|]. split; [first [reflexivity | exact Pg]|]. split; [exact Gl|]. intros g' Hg'. apply NS. apply Nb. exact Hg'.
      + unfold R3; cbn. intros A. apply AS in A.
        assert (Fm : (if (g =? last)%nat then firstn (k - g * c_gs c) (grp_bits c (bits (wks s)) g) else grp_bits c (bits (wks s)) g)
                     = grp_bits c (bits (wks s)) g).
        { destruct (g =? last)%nat eqn:Q; [|reflexivity]. apply Nat.eqb_eq in Q. subst g. apply full_firstn. exact Lb. }
        rewrite Fm. rewrite (popcount_group_full c (bits (wks s)) g gs_pos Lb (bits_of_allpr s g Wk A)). lia.
    - (* PRgBump *) destruct PP as (-> & -> & -> & Pg & Gl & Nb). unfold R3 in R3p. rewrite P in R3p.
      destruct n as [|m].
      + (* nothing to wake: bump only *)
        injection T as <-. destruct (NW eq_refl) as (Et' & AS & NS). cbn in *.
        assert (Ng : nopr s g).
        { destruct (R2 g) as [A|Nn]; [|exact Nn]. specialize (R3p A). intros i thi Hi Hg _. exfalso.
          apply grp_range in Hg; [|exact gs_pos]. unfold gsz in R3p. lia. }
        apply (producer_frame s s' _ IR Cf' Et'); rewrite ?Ew, ?Ep; cbn; auto;
          try (intros i NE; split; [apply RK; exact NE | left; exact NE]).
        * unfold Pp. destruct (g <? last)%nat eqn:Q; cbn.
          -- apply Nat.ltb_lt in Q. split; [first [reflexivity | exact Pg]|]. split; [first [reflexivity | exact Pg]|]. split; [first [reflexivity | exact Pg]|]. split; [first [reflexivity | exact Pg]|]. split; [lia|].
             intros g' Hg'. apply NS. destruct (Nat.eq_dec g' g) as [->|D]; [exact Ng | apply Nb; lia].
          -- apply Nat.ltb_ge in Q. unfold next. rewrite Pg. cbn. intros g' Hg'. apply NS.
             destruct (Nat.eq_dec g' g) as [->|D]; [exact Ng | apply Nb; lia].
        * unfold R3. destruct (g <? last)%nat; cbn; [exact I|]. unfold next. rewrite Pg. cbn. exact I.
      + injection T as <-. destruct (NW eq_refl) as (Et' & AS & NS). cbn in *.
        apply (producer_frame s s' _ IR Cf' Et'); rewrite ?Ew, ?Ep; cbn; auto;
          try (intros i NE; split; [apply RK; exact NE | left; exact NE]).
        all: try (unfold R3; cbn; intros A; apply R3p; apply AS; exact A).
        all: unfold Pp; cbn. all: split; [first [reflexivity | exact Pg]|]. all: split; [first [reflexivity | exact Pg]|]. all: split; [first [reflexivity | exact Pg]|]. all: split; [first [reflexivity | exact Pg]|]. all: split; [exact Gl|]. all: intros g' Hg'; apply NS; apply Nb; exact Hg'.
    - (* PRgWake *) destruct PP as (-> & -> & -> & Pg & Gl & Nb). unfold R3 in R3p. rewrite P in R3p.
      injection T as <-. cbn in Ewk, Ew, Ep.
      assert (Sub : forall u, In u woken -> In u (waiters s g)).
      { intros u Iu. rewrite Ewk in Iu. apply wake_pick_subset in Iu. destruct Iu as [Iu|[]]. exact Iu. }
      assert (Ng' : nopr s' g).
      { destruct (R2 g) as [A|Nn]; [|apply NF; exact Nn].
        apply (wake_makes_nopr s s' (c_n c) _ woken Et Len Hcf HWk HP Ltt Hnp g n ch A (R3p A) Ewk). }
      split; [exact Cf'|]. split; [exact Len'|]. rewrite Ew, Ep.
      split; [exact Lb|]. split; [exact Lr|]. split; [exact FT|]. split; [exact HH|]. split; [exact CZ|]. split; [exact SZ|].
      split; [exact RK|].
      split.
      { intros i Hi. destruct (Wk i Hi) as (thi & Ni & RWi & R3i).
        eexists. split; [apply (new_other s s' (c_n c) _ woken Et i thi ltac:(lia) Ni)|].
        destruct (existsb (Nat.eqb i) woken).
        - split; [apply Rw_wake; exact RWi | apply R3_wake; eapply R3_back; eauto].
        - split; [exact RWi | eapply R3_back; eauto]. }
      split.
      { eexists. split; [apply (new_self s s' (c_n c) _ woken Et Len Ltt)|]. cbn.
        unfold Pp, R3. destruct (g <? last)%nat eqn:Q; cbn.
        - apply Nat.ltb_lt in Q. split; [|exact I]. split; [first [reflexivity | exact Pg]|]. split; [first [reflexivity | exact Pg]|]. split; [first [reflexivity | exact Pg]|]. split; [first [reflexivity | exact Pg]|]. split; [lia|].
          intros g' Hg'. destruct (Nat.eq_dec g' g) as [->|D]; [exact Ng' | apply NF; apply Nb; lia].
        - apply Nat.ltb_ge in Q. unfold next. rewrite Pg. cbn. split; [|exact I]. intros g' Hg'.
          destruct (Nat.eq_dec g' g) as [->|D]; [exact Ng' | apply NF; apply Nb; lia]. }
      intros g''. destruct (Nat.eq_dec g'' g) as [->|D]; [right; exact Ng'|].
      destruct (R2 g'') as [A|Nn]; [left|right; apply NF; exact Nn].
      apply (allpr_keep s s' (c_n c) _ woken Et Len Hcf HWk HP Ltt Hnp g'' g A Sub D). lia.
    - (* PRiAdd *) destruct PP as (-> & Pg & AA & Tt). injection T as <-.
      destruct (NW eq_refl) as (Et' & AS & NS). cbn in *.
      apply (producer_frame s s' _ IR Cf' Et'); rewrite ?Ew, ?Ep; cbn; auto;
        try (intros i NE; split; [apply RK; exact NE | left; exact NE]); try exact I.
      unfold Pp; cbn. split; [first [reflexivity | exact Pg]|]. split; [first [reflexivity | exact Pg]|]. split; [intros gq; apply AS; apply AA | rewrite Ew; exact Tt].
    - (* PRiTotal *) destruct PP as (-> & Pg & AA & Tt). injection T as <-.
      destruct (NW eq_refl) as (Et' & AS & NS). cbn in *.
      apply (producer_frame s s' _ IR Cf' Et'); rewrite ?Ew, ?Ep; cbn; auto;
        try (intros i NE; split; [apply RK; exact NE | left; exact NE]); try exact I.
      unfold Pp; cbn. split; [first [reflexivity | exact Pg]|]. split; [first [reflexivity | exact Pg]|]. split; [intros gq; apply AS; apply AA|]. split; [rewrite Ew; exact Tt|]. apply Nat.min_glb_lt; lia.
    - (* PRiPush *) destruct PP as (-> & Pg & AA & Tt & Hr). injection T as <-.
      destruct (NW eq_refl) as (Et' & AS & NS). cbn in *.
      apply (producer_frame s s' _ IR Cf' Et'); rewrite ?Ew, ?Ep; cbn; auto.
      + rewrite length_upd. exact Lr.
      + intros i NE. destruct (Nat.eq_dec i r) as [->|D].
        * split; [lia | right; exact AA].
        * rewrite nth_upd_neq in NE by auto. split; [apply RK; exact NE | left; exact NE].
      + unfold Pp. destruct (S r <? Nat.min k (c_n c))%nat eqn:Q; cbn.
        * apply Nat.ltb_lt in Q. split; [first [reflexivity | exact Pg]|]. split; [first [reflexivity | exact Pg]|]. split; [intros gq; apply AS; apply AA|]. split; [rewrite Ew; exact Tt | exact Q].
        * split; [first [reflexivity | exact Pg]|]. split; [first [reflexivity | exact Pg]|]. split; [first [reflexivity | exact Pg]|]. split; [intros gq; apply AS; apply AA | rewrite Ew; exact Tt].
      + unfold R3. destruct (S r <? Nat.min k (c_n c))%nat; cbn; exact I.
  Qed.

  Transparent Nat.ltb Nat.min Nat.eqb.

  (* ---------- initial state and the theorem ---------- *)
  Lemma init_invR e : InvR (parked c e [[ORings k]]).
  Proof.
    assert (NW : forall i, (i < c_n c)%nat -> nth_error (threads (parked c e [[ORings k]])) i = Some (parked_worker e i))
      by (intros i Hi; apply (nth_error_parked_worker c e [[ORings k]] i Hi)).
    assert (AP : forall g, allpr (parked c e [[ORings k]]) g).
    { intros g i th Hi Hg N. rewrite (NW i Hi) in N. injection N as <-. split; [exists i; reflexivity | reflexivity]. }
    split; [reflexivity|].
    split; [unfold parked; cbn; rewrite app_length, map_length, seq_length; cbn; lia|].
    split; [unfold parked; cbn; apply repeat_length|].
    split; [unfold parked; cbn; apply repeat_length|].
    split; [intros i; unfold parked; cbn; apply nth_repeat_same0|].
    split; [reflexivity|]. split; [reflexivity|].
    split; [intros i; unfold parked; cbn; apply nth_repeat_same0|].
    split. { intros i NE. exfalso. apply NE. unfold parked; cbn. apply nth_repeat_same0. }
    split.
    { intros i Hi. exists (parked_worker e i). split; [apply NW; exact Hi|]. split; [|exact I].
      unfold parked; cbn. rewrite (nth_repeat_lt0 true false i (c_n c) Hi). rewrite nth_repeat_same0.
      unfold Rw; cbn. repeat split; auto; try discriminate; try (intros NE; exfalso; apply NE; reflexivity). }
    split.
    { exists (mk_thread PStart [ORings k]). split.
      - unfold parked; cbn. rewrite nth_error_app2 by (rewrite map_length, seq_length; lia).
        rewrite map_length, seq_length, Nat.sub_diag. reflexivity.
      - split; [|exact I]. unfold Pp; cbn. split; [reflexivity|]. split; [exact AP | reflexivity]. }
    intros g. left. apply AP.
  Qed.

  Theorem ring_invariant e s : reach step (parked c e [[ORings k]]) s -> InvR s.
  Proof.
    intros R. apply (reach_inv step InvR (parked c e [[ORings k]])); [apply init_invR | | exact R].
    intros s1 t ch s1' ch' site I E. eapply step_invR; eauto.
  Qed.

  (* no quiescent state with pending work: scheduleBulkToRings(k) into the clean fully parked pool, complete groups *)
  Theorem no_quiescent_with_pending_ring e s :
    reach step (parked c e [[ORings k]]) s -> quiescent s = true -> tiers_empty s = true.
  Proof.
    intros R Q.
    destruct (ring_invariant e s R) as (Hcf & Len & Lb & Lr & FT & HH & CZ & SZ & RK & Wk & (thp & Np & PP & _) & R2).
    unfold quiescent in Q. destruct (cands s) eqn:Cs; [|discriminate]. unfold cands in Cs. rewrite Hcf, no_tmo, app_nil_r in Cs.
    assert (NR : forall u th, nth_error (threads s) u = Some th -> runnable_in (pl s) th = false)
      by (intros u th N; eapply not_in_tids_where; eauto).
    assert (PD : forall g', (g' <= last)%nat -> nopr s g').
    { specialize (NR _ _ Np). unfold Pp in PP. unfold runnable_in in NR. destruct (tpc thp); try discriminate; try contradiction. exact PP. }
    assert (RE : forall i, nth i (rings (pl s)) [] = []).
    { intros i. destruct (nth i (rings (pl s)) []) eqn:Ri; [reflexivity|]. exfalso.
      assert (NE : nth i (rings (pl s)) [] <> []) by (rewrite Ri; discriminate).
      pose proof (RK i NE) as Hik. assert (Hi : (i < c_n c)%nat) by lia.
      destruct (Wk i Hi) as (th & N & (W & Pg & Bi & Rp & Ps) & _).
      specialize (Rp NE). specialize (NR _ _ N). unfold runnable_in in NR. unfold prepoll in Rp.
      destruct (tpc th) eqn:P; try discriminate; cbn in W; try contradiction.
      destruct w; try contradiction. subst i0.
      apply (PD (grp c i) (grp_le_last i Hik) i th Hi eq_refl N). split; [exists i; exact P | exact Rp]. }
    unfold tiers_empty. rewrite CZ. cbn. rewrite andb_true_r. apply andb_true_iff. split.
    - apply forallb_nth with (d := []). intros i. rewrite RE. reflexivity.
    - apply forallb_nth with (d := O). intros i. rewrite SZ. reflexivity.
  Qed.
End Ring.
