(* Proofs for C40 (OpResult, after the fix of the move constructor / move assignment): refinement to std::optional
   and lifetime balance for all operation sequences; the former witnesses of the defect as regression facts.  Statements are repeated in Props/Properties_C40.v. *)
From Coq Require Import ZArith List Bool Lia.
From DV Require Import Base.Life Model.OpResultModel.
Import ListNotations.
Local Open Scope Z_scope.

(* ---------------------------------------------------------------------------------------------- variables *)
Lemma vset_length vs i x : length (vset vs i x) = length vs.
Proof. revert i; induction vs as [|y r IH]; intros [|k]; simpl; auto. Qed.

Lemma vget_vset_same vs i x : (i < length vs)%nat -> vget (vset vs i x) i = x.
Proof.
  unfold vget. revert i; induction vs as [|y r IH]; intros [|k]; simpl; intros H; try lia; auto.
  apply IH. lia.
Qed.

Lemma vget_vset_other vs i j x : i <> j -> vget (vset vs i x) j = vget vs j.
Proof.
  unfold vget. revert i j; induction vs as [|y r IH]; intros [|k] [|m]; simpl; intros H; auto; try congruence.
Qed.

Lemma vget_in_range vs i v : vget vs i = Some v -> (i < length vs)%nat.
Proof.
  unfold vget. intros H. destruct (Nat.lt_ge_cases i (length vs)) as [L|L]; [exact L|].
  rewrite nth_overflow in H by exact L. discriminate.
Qed.

Lemma vset_id vs i : vset vs i (vget vs i) = vs.
Proof. unfold vget. revert i; induction vs as [|y r IH]; intros [|k]; simpl; auto. f_equal. apply IH. Qed.

Lemma in_range_true vs i : in_range vs i = true <-> (i < length vs)%nat.
Proof. unfold in_range. apply Nat.ltb_lt. Qed.

(* ---------------------------------------------------------------------------------------------- refinement *)
Lemma vars_rel_length m s : vars_rel m s = true -> length m = length s.
Proof.
  revert s; induction m as [|a m IH]; intros [|b s]; simpl; intros H; try discriminate; auto.
  apply andb_true_iff in H. destruct H as [_ H]. f_equal. apply IH. exact H.
Qed.

Lemma vars_rel_vget m s i : vars_rel m s = true -> var_rel (vget m i) (vget s i) = true.
Proof.
  unfold vget. revert s i; induction m as [|a m IH]; intros [|b s] i; simpl; intros H; try discriminate.
  - destruct i; reflexivity.
  - apply andb_true_iff in H. destruct H as [H1 H2]. destruct i; [exact H1 | apply IH; exact H2].
Qed.

Lemma vars_rel_vset m s i a b : vars_rel m s = true -> var_rel a b = true -> vars_rel (vset m i a) (vset s i b) = true.
Proof.
  revert s i; induction m as [|x m IH]; intros [|y s] i; simpl; intros H R; try discriminate; auto.
  apply andb_true_iff in H. destruct H as [H1 H2].
  destruct i; simpl; apply andb_true_iff; split; auto.
Qed.

Lemma vars_rel_vset_r m s j b : vars_rel m s = true -> var_rel (vget m j) b = true -> vars_rel m (vset s j b) = true.
Proof. intros H R. rewrite <- (vset_id m j). apply vars_rel_vset; assumption. Qed.

Lemma vars_rel_refl m : vars_rel m m = true.
Proof.
  induction m as [|a m IH]; simpl; [reflexivity|]. apply andb_true_iff. split; [|exact IH].
  destruct a as [[t|]|]; simpl; auto. apply Z.eqb_refl.
Qed.

Ltac rel_close :=
  repeat (apply vars_rel_vset; [| simpl; auto using Z.eqb_refl]); auto.

Lemma step_rel s sp o s' : vars_rel (st_vars s) sp = true -> step s o = Some s' ->
  exists sp', spec_step sp o = Some sp' /\ vars_rel (st_vars s') sp' = true.
Proof.
  intros R H. destruct s as [vs g]. simpl in R.
  pose proof (vars_rel_length _ _ R) as L.
  destruct o as [i|i t|i t|i j|i j|i j|i j|i t|i t|i]; unfold step in H; simpl in H; unfold spec_step, in_range in *;
    try rewrite <- L.
  - (* ODefault *)
    pose proof (vars_rel_vget _ _ i R) as Ri.
    destruct (negb (i <? length vs)%nat); [discriminate|].
    destruct (vget vs i) as [[a|]|], (vget sp i) as [[b|]|]; simpl in Ri; try discriminate.
    inversion H; subst; simpl. eexists; split; [reflexivity|]. rel_close.
  - (* OValueMove *)
    pose proof (vars_rel_vget _ _ i R) as Ri.
    destruct (negb (i <? length vs)%nat); [discriminate|].
    destruct (vget vs i) as [[a|]|], (vget sp i) as [[b|]|]; simpl in Ri; try discriminate.
    inversion H; subst; simpl. eexists; split; [reflexivity|]. rel_close.
  - (* OValueCopy *)
    pose proof (vars_rel_vget _ _ i R) as Ri.
    destruct (negb (i <? length vs)%nat); [discriminate|].
    destruct (vget vs i) as [[a|]|], (vget sp i) as [[b|]|]; simpl in Ri; try discriminate.
    inversion H; subst; simpl. eexists; split; [reflexivity|]. rel_close.
  - (* OCopy *)
    pose proof (vars_rel_vget _ _ i R) as Ri. pose proof (vars_rel_vget _ _ j R) as Rj.
    destruct (negb (i <? length vs)%nat); [discriminate|].
    destruct (vget vs i) as [[a|]|], (vget sp i) as [[b|]|]; simpl in Ri; try discriminate;
    destruct (vget vs j) as [[c|]|], (vget sp j) as [[d|]|]; simpl in Rj; try discriminate;
    inversion H; subst; simpl; (eexists; split; [reflexivity|]); rel_close.
  - (* OMove *)
    pose proof (vars_rel_vget _ _ i R) as Ri. pose proof (vars_rel_vget _ _ j R) as Rj.
    destruct (negb (i <? length vs)%nat); [discriminate|].
    destruct (vget vs i) as [[a|]|] eqn:Evi, (vget sp i) as [[b|]|]; simpl in Ri; try discriminate.
    assert (NE : i <> j) by (intros ->; rewrite Evi in H; destruct (vget vs j) as [[?|]|]; discriminate).
    destruct (vget vs j) as [[c|]|] eqn:Evj, (vget sp j) as [[d|]|]; simpl in Rj; try discriminate;
    inversion H; subst; simpl; (eexists; split; [reflexivity|]); rel_close.
    all: apply vars_rel_vset_r; [rel_close | rewrite vget_vset_other by exact NE; rewrite Evj; simpl; auto using Z.eqb_refl].
  - (* OCopyAssign *)
    pose proof (vars_rel_vget _ _ i R) as Ri. pose proof (vars_rel_vget _ _ j R) as Rj.
    destruct (vget vs i) as [vi|] eqn:Evi; [|discriminate].
    destruct (vget vs j) as [vj|] eqn:Evj; [|discriminate].
    destruct (vget sp i) as [si|] eqn:Esi; [|destruct vi; discriminate].
    destruct (vget sp j) as [sj|] eqn:Esj; [|destruct vj; discriminate].
    destruct (Nat.eqb i j) eqn:E.
    + apply Nat.eqb_eq in E. subst j. inversion H; subst; simpl.
      eexists; split; [reflexivity|]. rewrite <- Esj, vset_id. exact R.
    + destruct vj as [c|]; inversion H; subst; simpl; (eexists; split; [reflexivity|]); rel_close.
  - (* OMoveAssign *)
    pose proof (vars_rel_vget _ _ i R) as Ri. pose proof (vars_rel_vget _ _ j R) as Rj.
    destruct (vget vs i) as [vi|] eqn:Evi; [|discriminate].
    destruct (vget vs j) as [vj|] eqn:Evj; [|discriminate].
    destruct (vget sp i) as [si|] eqn:Esi; [|destruct vi; discriminate].
    destruct (vget sp j) as [sj|] eqn:Esj; [|destruct vj; discriminate].
    destruct (Nat.eqb i j) eqn:E.
    + inversion H; subst; simpl. eexists; split; [reflexivity|]. exact R.
    + apply Nat.eqb_neq in E.
      destruct vj as [c|], sj as [d|]; simpl in Rj; try discriminate;
        inversion H; subst; simpl; (eexists; split; [reflexivity|]); rel_close.
      all: apply vars_rel_vset_r; [rel_close | rewrite vget_vset_other by exact E; rewrite Evj; simpl; auto using Z.eqb_refl].
  - (* OEmplace *)
    pose proof (vars_rel_vget _ _ i R) as Ri.
    destruct (vget vs i) as [vi|] eqn:Evi; [|discriminate].
    destruct (vget sp i) as [si|] eqn:Esi; [|destruct vi; discriminate].
    inversion H; subst; simpl. eexists; split; [reflexivity|]. rel_close.
  - (* OPoke *)
    pose proof (vars_rel_vget _ _ i R) as Ri.
    destruct (vget vs i) as [[a|]|], (vget sp i) as [[b|]|]; simpl in Ri; try discriminate.
    inversion H; subst; simpl. eexists; split; [reflexivity|]. rel_close.
  - (* ODestroy *)
    pose proof (vars_rel_vget _ _ i R) as Ri.
    destruct (vget vs i) as [vi|] eqn:Evi; [|discriminate].
    destruct (vget sp i) as [si|] eqn:Esi; [|destruct vi; discriminate].
    inversion H; subst; simpl. eexists; split; [reflexivity|]. rel_close.
Qed.

Lemma run_rel ops : forall s sp s', vars_rel (st_vars s) sp = true -> run s ops = Some s' ->
  exists sp', spec_run sp ops = Some sp' /\ vars_rel (st_vars s') sp' = true.
Proof.
  induction ops as [|o r IH]; simpl; intros s sp s' R H.
  - inversion H; subst. eauto.
  - destruct (step s o) as [s1|] eqn:E; [|discriminate].
    destruct (step_rel _ _ _ _ R E) as [sp1 [E1 R1]]. rewrite E1. eapply IH; eauto.
Qed.

Lemma refines_optional_proof : forall nv ops s, run (init nv) ops = Some s ->
  exists sp, spec_run (repeat None nv) ops = Some sp /\ vars_rel (st_vars s) sp = true.
Proof. intros nv ops s H. eapply run_rel; [|exact H]. simpl. apply vars_rel_refl. Qed.

(* ---------------------------------------------------------------------------------------------- exactness *)
Lemma step_exact s o s' : moves_engaged (st_vars s) o = false -> step s o = Some s' ->
  spec_step (st_vars s) o = Some (st_vars s').
Proof.
  destruct s as [vs g]. simpl. intros D H.
  destruct o as [i|i t|i t|i j|i j|i j|i j|i t|i t|i]; unfold step in H; simpl in H; unfold spec_step; simpl in D.
  - destruct (negb (in_range vs i)); [discriminate|]. destruct (vget vs i); inversion H; subst; reflexivity.
  - destruct (negb (in_range vs i)); [discriminate|]. destruct (vget vs i); inversion H; subst; reflexivity.
  - destruct (negb (in_range vs i)); [discriminate|]. destruct (vget vs i); inversion H; subst; reflexivity.
  - destruct (negb (in_range vs i)); [discriminate|].
    destruct (vget vs i); [discriminate|]. destruct (vget vs j) as [[c|]|]; inversion H; subst; reflexivity.
  - destruct (negb (in_range vs i)); [discriminate|].
    destruct (vget vs i) eqn:Evi; [discriminate|]. destruct (vget vs j) as [[c|]|] eqn:Evj; try discriminate.
    inversion H; subst; simpl.
    assert (NE : i <> j) by (intros ->; congruence).
    assert (X : vget (vset vs i (Some None)) j = Some None) by (rewrite vget_vset_other; auto).
    rewrite <- X at 2. rewrite vset_id. reflexivity.
  - destruct (vget vs i) as [vi|] eqn:Evi; [|discriminate].
    destruct (vget vs j) as [vj|] eqn:Evj; [|discriminate].
    destruct (Nat.eqb i j) eqn:E.
    + apply Nat.eqb_eq in E. subst j. inversion H; subst; simpl. rewrite <- Evj, vset_id. reflexivity.
    + destruct vj; inversion H; subst; reflexivity.
  - destruct (vget vs i) as [vi|] eqn:Evi; [|discriminate].
    destruct (vget vs j) as [vj|] eqn:Evj; [|discriminate].
    destruct (Nat.eqb i j) eqn:E; simpl in D.
    + inversion H; subst; reflexivity.
    + destruct vj as [c|]; [discriminate|]. inversion H; subst; simpl.
      apply Nat.eqb_neq in E.
      assert (X : vget (vset vs i (Some None)) j = Some None) by (rewrite vget_vset_other; auto).
      rewrite <- X at 2. rewrite vset_id. reflexivity.
  - destruct (vget vs i); inversion H; subst; reflexivity.
  - destruct (vget vs i) as [[a|]|]; inversion H; subst; reflexivity.
  - destruct (vget vs i); inversion H; subst; reflexivity.
Qed.

Lemma run_exact ops : forall s s', has_engaged_move s ops = false -> run s ops = Some s' ->
  spec_run (st_vars s) ops = Some (st_vars s').
Proof.
  induction ops as [|o r IH]; simpl; intros s s' D H.
  - inversion H; subst. reflexivity.
  - apply orb_false_iff in D. destruct D as [D1 D2].
    destruct (step s o) as [s1|] eqn:E; [|discriminate].
    rewrite (step_exact _ _ _ D1 E). apply IH; assumption.
Qed.

(* ---------------------------------------------------------------------------------------------- lifetimes *)
Definition engagedb (v : var) : bool := match v with Some (Some _) => true | _ => false end.

(* should ledger id hold a live object, given the variables? *)
Definition expected (vs : vars) (id : Z) : bool :=
  if id <? 0 then false else engagedb (vget vs (Z.to_nat id)).

Definition slots_ok (vs : vars) (g : ledger) : Prop :=
  forall id, (expected vs id = true -> lget g id = Alive) /\ (expected vs id = false -> is_live (lget g id) = false).

Definition inv (s : state) : Prop :=
  linv (st_led s) /\ ok (st_led s) /\ slots_ok (st_vars s) (st_led s).

Lemma expected_slot vs i : expected vs (slot i) = engagedb (vget vs i).
Proof.
  unfold expected, slot. destruct (Z.of_nat i <? 0) eqn:E; [apply Z.ltb_lt in E; lia|]. rewrite Nat2Z.id. reflexivity.
Qed.

Lemma expected_tmp vs : expected vs tmp_slot = false.
Proof. reflexivity. Qed.

Lemma expected_vset vs i x id : (i < length vs)%nat ->
  expected (vset vs i x) id = if slot i =? id then engagedb x else expected vs id.
Proof.
  intros L. unfold expected, slot. destruct (id <? 0) eqn:E.
  - apply Z.ltb_lt in E. destruct (Z.of_nat i =? id) eqn:E2; [apply Z.eqb_eq in E2; lia | reflexivity].
  - apply Z.ltb_ge in E. destruct (Z.of_nat i =? id) eqn:E2.
    + apply Z.eqb_eq in E2. subst id. rewrite Nat2Z.id. rewrite vget_vset_same by exact L. reflexivity.
    + apply Z.eqb_neq in E2. rewrite vget_vset_other; [reflexivity|]. intros ->. apply E2. rewrite Z2Nat.id; lia.
Qed.

Lemma slot_neq_tmp i : (slot i =? tmp_slot) = false.
Proof. unfold slot, tmp_slot. apply Z.eqb_neq. lia. Qed.
Lemma tmp_neq_slot i : (tmp_slot =? slot i) = false.
Proof. unfold slot, tmp_slot. apply Z.eqb_neq. lia. Qed.

Lemma slot_inj i j : (slot i =? slot j) = Nat.eqb i j.
Proof.
  unfold slot. destruct (Nat.eqb i j) eqn:E.
  - apply Nat.eqb_eq in E. subst. apply Z.eqb_refl.
  - apply Nat.eqb_neq in E. apply Z.eqb_neq. lia.
Qed.

(* the engaged state of a variable as seen by the ledger *)
Lemma slots_engaged vs g i t : slots_ok vs g -> vget vs i = Some (Some t) -> lget g (slot i) = Alive.
Proof. intros S E. apply (S (slot i)). rewrite expected_slot, E. reflexivity. Qed.
Lemma slots_not_engaged vs g i : slots_ok vs g -> engagedb (vget vs i) = false -> is_live (lget g (slot i)) = false.
Proof. intros S E. apply (S (slot i)). rewrite expected_slot. exact E. Qed.
Lemma slots_tmp vs g : slots_ok vs g -> is_live (lget g tmp_slot) = false.
Proof. intros S. apply (S tmp_slot). reflexivity. Qed.

Lemma slot_tmp_absurd i id : (slot i =? id) = true -> (tmp_slot =? id) = true -> False.
Proof. unfold slot, tmp_slot. intros A B. apply Z.eqb_eq in A. apply Z.eqb_eq in B. lia. Qed.

Lemma expected_tmp_eq vs id : (tmp_slot =? id) = true -> expected vs id = false.
Proof. intros E. apply Z.eqb_eq in E. subst id. reflexivity. Qed.

Local Opaque slot tmp_slot.

(* closing tactic for the "slots_ok after the step" goals: all lookups have been rewritten to nested ifs *)
Ltac slots_close S :=
  let id := fresh "id" in
  let S1 := fresh "S1" in
  let S2 := fresh "S2" in
  intros id; destruct (S id) as [S1 S2];
  repeat match goal with
  | |- context [?a =? id] => let E := fresh "E" in destruct (a =? id) eqn:E
  end;
  simpl;
  try (exfalso; eapply slot_tmp_absurd; eassumption);
  try match goal with E : (tmp_slot =? ?x) = true |- _ => rewrite (expected_tmp_eq _ x E) in * end;
  try (split; intros; auto; try discriminate; try congruence).

(* Preservation for one step *)
Lemma step_inv s o s' : inv s -> step s o = Some s' -> inv s'.
Proof.
  destruct s as [vs g]. unfold inv. simpl. intros [LI [OK S]] H. unfold ok in *.
  destruct o as [i|i t|i t|i j|i j|i j|i j|i t|i t|i]; unfold step in H; simpl in H.
  - (* ODefault *)
    destruct (in_range vs i) eqn:IR; simpl in H; [|discriminate]. apply in_range_true in IR.
    destruct (vget vs i) eqn:Ev; [discriminate|]. inversion H; subst; simpl. split; [exact LI|]. split; [exact OK|].
    intros id. rewrite expected_vset by exact IR. specialize (S id).
    destruct (slot i =? id) eqn:E; simpl; [|exact S].
    apply Z.eqb_eq in E. subst id. rewrite expected_slot, Ev in S. simpl in S. split; [discriminate | apply S].
  - (* OValueMove *)
    destruct (in_range vs i) eqn:IR; simpl in H; [|discriminate]. apply in_range_true in IR.
    destruct (vget vs i) eqn:Ev; [discriminate|]. inversion H; subst; simpl. clear H.
    pose proof (slots_tmp _ _ S) as T0.
    assert (N0 : is_live (lget g (slot i)) = false) by (apply (slots_not_engaged vs); [exact S | rewrite Ev; reflexivity]).
    destruct (construct_fact KValue tmp_slot g OK T0) as [E1 G1].
    set (g1 := construct KValue tmp_slot g) in *.
    destruct (move_from_fact tmp_slot g1 E1) as [E2 G2]; [rewrite G1, Z.eqb_refl; reflexivity|].
    set (g2 := move_from tmp_slot g1) in *.
    destruct (construct_fact KMove (slot i) g2 E2) as [E3 G3]; [rewrite G2, G1, tmp_neq_slot; exact N0|].
    set (g3 := construct KMove (slot i) g2) in *.
    destruct (destroy_fact tmp_slot g3 E3) as [E4 G4]; [rewrite G3, slot_neq_tmp, G2, Z.eqb_refl; reflexivity|].
    split; [repeat first [apply destroy_linv | apply construct_linv | apply move_from_linv]; exact LI|].
    split; [exact E4|].
    intros id. rewrite expected_vset by exact IR. rewrite G4, G3, G2, G1. revert id. slots_close S.
  - (* OValueCopy *)
    destruct (in_range vs i) eqn:IR; simpl in H; [|discriminate]. apply in_range_true in IR.
    destruct (vget vs i) eqn:Ev; [discriminate|]. inversion H; subst; simpl. clear H.
    pose proof (slots_tmp _ _ S) as T0.
    assert (N0 : is_live (lget g (slot i)) = false) by (apply (slots_not_engaged vs); [exact S | rewrite Ev; reflexivity]).
    destruct (construct_fact KValue tmp_slot g OK T0) as [E1 G1].
    set (g1 := construct KValue tmp_slot g) in *.
    assert (U : use tmp_slot g1 = g1) by (apply use_live; rewrite G1, Z.eqb_refl; reflexivity).
    rewrite U.
    destruct (construct_fact KCopy (slot i) g1 E1) as [E3 G3]; [rewrite G1, tmp_neq_slot; exact N0|].
    set (g3 := construct KCopy (slot i) g1) in *.
    destruct (destroy_fact tmp_slot g3 E3) as [E4 G4]; [rewrite G3, slot_neq_tmp, G1, Z.eqb_refl; reflexivity|].
    split; [repeat first [apply destroy_linv | apply construct_linv | apply move_from_linv]; exact LI|].
    split; [exact E4|].
    intros id. rewrite expected_vset by exact IR. rewrite G4, G3, G1. revert id. slots_close S.
  - (* OCopy *)
    destruct (in_range vs i) eqn:IR; simpl in H; [|discriminate]. apply in_range_true in IR.
    destruct (vget vs i) eqn:Ev; [discriminate|].
    assert (N0 : is_live (lget g (slot i)) = false) by (apply (slots_not_engaged vs); [exact S | rewrite Ev; reflexivity]).
    destruct (vget vs j) as [[c|]|] eqn:Evj; [| |discriminate]; inversion H; subst; simpl; clear H.
    + pose proof (slots_engaged _ _ _ _ S Evj) as A.
      assert (U : use (slot j) g = g) by (apply use_live; rewrite A; reflexivity). rewrite U.
      destruct (construct_fact KCopy (slot i) g OK N0) as [E3 G3].
      split; [apply construct_linv; exact LI|]. split; [exact E3|].
      intros id. rewrite expected_vset by exact IR. rewrite G3. revert id. slots_close S.
    + split; [exact LI|]. split; [exact OK|].
      intros id. rewrite expected_vset by exact IR. revert id. slots_close S.
      apply Z.eqb_eq in E. subst id. exact N0.
  - (* OMove *)
    destruct (in_range vs i) eqn:IR; simpl in H; [|discriminate]. apply in_range_true in IR.
    destruct (vget vs i) eqn:Ev; [discriminate|].
    assert (N0 : is_live (lget g (slot i)) = false) by (apply (slots_not_engaged vs); [exact S | rewrite Ev; reflexivity]).
    destruct (vget vs j) as [[c|]|] eqn:Evj; [| |discriminate]; inversion H; subst; simpl; clear H.
    + (* engaged source: move-construct, then destroy the moved-from object *)
      pose proof (vget_in_range _ _ _ Evj) as JR.
      assert (NE : Nat.eqb i j = false) by (apply Nat.eqb_neq; intros ->; congruence).
      assert (NE' : Nat.eqb j i = false) by (apply Nat.eqb_neq; apply Nat.eqb_neq in NE; auto).
      pose proof (slots_engaged _ _ _ _ S Evj) as A.
      destruct (move_from_fact (slot j) g OK) as [E1 G1]; [rewrite A; reflexivity|].
      set (g1 := move_from (slot j) g) in *.
      destruct (construct_fact KMove (slot i) g1 E1) as [E2 G2]; [rewrite G1, slot_inj, NE'; exact N0|].
      set (g2 := construct KMove (slot i) g1) in *.
      destruct (destroy_fact (slot j) g2 E2) as [E3 G3]; [rewrite G2, slot_inj, NE, G1, Z.eqb_refl; reflexivity|].
      split; [apply destroy_linv, construct_linv, move_from_linv; exact LI|]. split; [exact E3|].
      intros id. rewrite expected_vset by (rewrite vset_length; exact JR). rewrite expected_vset by exact IR.
      rewrite G3, G2, G1. revert id. slots_close S.
    + split; [exact LI|]. split; [exact OK|].
      intros id. rewrite expected_vset by exact IR. revert id. slots_close S.
      apply Z.eqb_eq in E. subst id. exact N0.
  - (* OCopyAssign *)
    destruct (vget vs i) as [vi|] eqn:Evi; [|discriminate].
    destruct (vget vs j) as [vj|] eqn:Evj; [|discriminate].
    pose proof (vget_in_range _ _ _ Evi) as IR.
    destruct (Nat.eqb i j) eqn:Eij; [inversion H; subst; simpl; auto|].
    (* after `if (ptr_) ptr_->~T()`: slot i is not live, everything else unchanged *)
    assert (P : exists g1, destroy_if_engaged i vi g = g1 /\ linv g1 /\ l_errs g1 = [] /\
              is_live (lget g1 (slot i)) = false /\ forall id, slot i =? id = false -> lget g1 id = lget g id).
    { destruct vi as [a|]; simpl.
      - pose proof (slots_engaged _ _ _ _ S Evi) as A.
        destruct (destroy_fact (slot i) g OK) as [E1 G1]; [rewrite A; reflexivity|].
        eexists; split; [reflexivity|]. split; [apply destroy_linv; exact LI|]. split; [exact E1|].
        split; [rewrite G1, Z.eqb_refl; reflexivity|]. intros id Hne. rewrite G1, Hne. reflexivity.
      - eexists; split; [reflexivity|]. split; [exact LI|]. split; [exact OK|].
        split; [apply (slots_not_engaged vs); [exact S | rewrite Evi; reflexivity] | reflexivity]. }
    destruct P as [g1 [Eg1 [LI1 [OK1 [N1 Same]]]]]. rewrite Eg1 in H. clear Eg1.
    destruct vj as [c|]; inversion H; subst; simpl; clear H.
    + pose proof (slots_engaged _ _ _ _ S Evj) as A.
      assert (A1 : lget g1 (slot j) = Alive) by (rewrite Same; [exact A | rewrite slot_inj; exact Eij]).
      assert (U : use (slot j) g1 = g1) by (apply use_live; rewrite A1; reflexivity). rewrite U.
      destruct (construct_fact KCopy (slot i) g1 OK1 N1) as [E3 G3].
      split; [apply construct_linv; exact LI1|]. split; [exact E3|].
      intros id. rewrite expected_vset by exact IR. rewrite G3. specialize (S id).
      destruct (slot i =? id) eqn:E; simpl; [split; [reflexivity | discriminate]|].
      rewrite Same by exact E. exact S.
    + split; [exact LI1|]. split; [exact OK1|].
      intros id. rewrite expected_vset by exact IR. specialize (S id).
      destruct (slot i =? id) eqn:E; simpl.
      * apply Z.eqb_eq in E. subst id. split; [discriminate | intros _; exact N1].
      * rewrite Same by exact E. exact S.
  - (* OMoveAssign *)
    destruct (vget vs i) as [vi|] eqn:Evi; [|discriminate].
    destruct (vget vs j) as [vj|] eqn:Evj; [|discriminate].
    pose proof (vget_in_range _ _ _ Evi) as IR. pose proof (vget_in_range _ _ _ Evj) as JR.
    destruct (Nat.eqb i j) eqn:Eij; [inversion H; subst; simpl; auto|].
    assert (Eji : Nat.eqb j i = false) by (apply Nat.eqb_neq; apply Nat.eqb_neq in Eij; auto).
    (* after `if (ptr_) ptr_->~T()`: slot i is not live, everything else unchanged *)
    assert (P : exists g1, destroy_if_engaged i vi g = g1 /\ linv g1 /\ l_errs g1 = [] /\
              is_live (lget g1 (slot i)) = false /\ forall id, slot i =? id = false -> lget g1 id = lget g id).
    { destruct vi as [a|]; simpl.
      - pose proof (slots_engaged _ _ _ _ S Evi) as A.
        destruct (destroy_fact (slot i) g OK) as [E1 G1]; [rewrite A; reflexivity|].
        eexists; split; [reflexivity|]. split; [apply destroy_linv; exact LI|]. split; [exact E1|].
        split; [rewrite G1, Z.eqb_refl; reflexivity|]. intros id Hne. rewrite G1, Hne. reflexivity.
      - eexists; split; [reflexivity|]. split; [exact LI|]. split; [exact OK|].
        split; [apply (slots_not_engaged vs); [exact S | rewrite Evi; reflexivity] | reflexivity]. }
    destruct P as [g1 [Eg1 [LI1 [OK1 [N1 Same]]]]]. rewrite Eg1 in H. clear Eg1.
    destruct vj as [c|]; inversion H; subst; simpl; clear H.
    + (* engaged source: move-construct, then destroy the moved-from object *)
      pose proof (slots_engaged _ _ _ _ S Evj) as A.
      assert (A1 : lget g1 (slot j) = Alive) by (rewrite Same; [exact A | rewrite slot_inj; exact Eij]).
      destruct (move_from_fact (slot j) g1 OK1) as [E2 G2]; [rewrite A1; reflexivity|].
      set (g2 := move_from (slot j) g1) in *.
      destruct (construct_fact KMove (slot i) g2 E2) as [E3 G3]; [rewrite G2, slot_inj, Eji; exact N1|].
      set (g3 := construct KMove (slot i) g2) in *.
      destruct (destroy_fact (slot j) g3 E3) as [E4 G4]; [rewrite G3, slot_inj, Eij, G2, Z.eqb_refl; reflexivity|].
      split; [apply destroy_linv, construct_linv, move_from_linv; exact LI1|]. split; [exact E4|].
      intros id. rewrite expected_vset by (rewrite vset_length; exact JR). rewrite expected_vset by exact IR.
      rewrite G4, G3, G2. specialize (S id).
      destruct (slot j =? id) eqn:Ej; simpl; [split; [discriminate | reflexivity]|].
      destruct (slot i =? id) eqn:Ei; simpl; [split; [reflexivity | discriminate]|].
      rewrite Same by exact Ei. exact S.
    + split; [exact LI1|]. split; [exact OK1|].
      intros id. rewrite expected_vset by exact IR. specialize (S id).
      destruct (slot i =? id) eqn:E; simpl.
      * apply Z.eqb_eq in E. subst id. split; [discriminate | intros _; exact N1].
      * rewrite Same by exact E. exact S.
  - (* OEmplace *)
    destruct (vget vs i) as [vi|] eqn:Evi; [|discriminate].
    pose proof (vget_in_range _ _ _ Evi) as IR.
    destruct vi as [a|]; simpl in H; inversion H; subst; simpl; clear H.
    + pose proof (slots_engaged _ _ _ _ S Evi) as A.
      destruct (destroy_fact (slot i) g OK) as [E1 G1]; [rewrite A; reflexivity|].
      set (g1 := destroy (slot i) g) in *.
      destruct (construct_fact KValue (slot i) g1 E1) as [E2 G2]; [rewrite G1, Z.eqb_refl; reflexivity|].
      split; [apply construct_linv, destroy_linv; exact LI|]. split; [exact E2|].
      intros id. rewrite expected_vset by exact IR. rewrite G2, G1. revert id. slots_close S.
    + assert (N0 : is_live (lget g (slot i)) = false) by (apply (slots_not_engaged vs); [exact S | rewrite Evi; reflexivity]).
      destruct (construct_fact KValue (slot i) g OK N0) as [E2 G2].
      split; [apply construct_linv; exact LI|]. split; [exact E2|].
      intros id. rewrite expected_vset by exact IR. rewrite G2. revert id. slots_close S.
  - (* OPoke *)
    destruct (vget vs i) as [[a|]|] eqn:Evi; try discriminate.
    pose proof (vget_in_range _ _ _ Evi) as IR.
    inversion H; subst; simpl; clear H.
    pose proof (slots_engaged _ _ _ _ S Evi) as A.
    assert (U : use (slot i) g = g) by (apply use_live; rewrite A; reflexivity). rewrite U.
    split; [exact LI|]. split; [exact OK|].
    intros id. rewrite expected_vset by exact IR. revert id. slots_close S.
    apply Z.eqb_eq in E. subst id. exact A.
  - (* ODestroy *)
    destruct (vget vs i) as [vi|] eqn:Evi; [|discriminate].
    pose proof (vget_in_range _ _ _ Evi) as IR.
    destruct vi as [a|]; simpl in H; inversion H; subst; simpl; clear H.
    + pose proof (slots_engaged _ _ _ _ S Evi) as A.
      destruct (destroy_fact (slot i) g OK) as [E1 G1]; [rewrite A; reflexivity|].
      split; [apply destroy_linv; exact LI|]. split; [exact E1|].
      intros id. rewrite expected_vset by exact IR. rewrite G1. revert id. slots_close S.
    + split; [exact LI|]. split; [exact OK|].
      intros id. rewrite expected_vset by exact IR. revert id. slots_close S.
      apply Z.eqb_eq in E. subst id. apply (slots_not_engaged vs); [exact S | rewrite Evi; reflexivity].
Qed.

Local Transparent slot tmp_slot.

Lemma vget_repeat_none nv i : vget (repeat None nv) i = None.
Proof. unfold vget. revert i; induction nv as [|n IH]; intros [|k]; simpl; auto. Qed.

Lemma inv_init nv : inv (init nv).
Proof.
  unfold inv, init; simpl. split; [apply linv0|]. split; [reflexivity|].
  intros id. unfold expected. rewrite vget_repeat_none. simpl.
  destruct (id <? 0); split; intros; try discriminate; reflexivity.
Qed.

Lemma run_inv ops : forall s s', inv s -> run s ops = Some s' -> inv s'.
Proof.
  induction ops as [|o r IH]; simpl; intros s s' I H.
  - inversion H; subst. exact I.
  - destruct (step s o) as [s1|] eqn:E; [|discriminate].
    eapply IH; [eapply step_inv; eauto | exact H].
Qed.

Lemma all_gone_vget vs i : all_gone vs = true -> vget vs i = None.
Proof.
  unfold all_gone, vget. revert i; induction vs as [|v r IH]; intros i; simpl; intros H.
  - destruct i; reflexivity.
  - apply andb_true_iff in H. destruct H as [H1 H2]. destruct i; [destruct v; [discriminate | reflexivity] | apply IH; exact H2].
Qed.

(* live objects are exactly the contents of engaged variables *)
Lemma inv_live_is_content s : inv s -> forall id, is_live (lget (st_led s) id) = true ->
  exists i t, id = slot i /\ vget (st_vars s) i = Some (Some t).
Proof.
  intros [_ [_ S]] id L. destruct (S id) as [S1 S2].
  destruct (expected (st_vars s) id) eqn:E; [|rewrite S2 in L by reflexivity; discriminate].
  unfold expected in E. destruct (id <? 0) eqn:E0; [discriminate|]. apply Z.ltb_ge in E0.
  exists (Z.to_nat id). unfold engagedb in E. destruct (vget (st_vars s) (Z.to_nat id)) as [[t|]|]; try discriminate.
  exists t. split; [unfold slot; rewrite Z2Nat.id; lia | reflexivity].
Qed.

Lemma inv_balanced s : inv s -> all_gone (st_vars s) = true ->
  balanced (st_led s) /\ n_ctor (st_led s) = n_dtor (st_led s).
Proof.
  intros I G.
  assert (B : balanced (st_led s)).
  { intros id. destruct (is_live (lget (st_led s) id)) eqn:L; [|reflexivity].
    destruct (inv_live_is_content s I id L) as [i [t [_ E]]]. rewrite all_gone_vget in E by exact G. discriminate. }
  split; [exact B|]. destruct I as [LI [OK _]]. apply (linv_ok_balanced _ LI OK). exact B.
Qed.

(* balanced lifetimes, for ALL operation sequences *)
Lemma opresult_balanced_proof : forall nv ops s, run (init nv) ops = Some s ->
  ok (st_led s) /\
  (forall i t, vget (st_vars s) i = Some (Some t) -> lget (st_led s) (slot i) = Alive) /\
  (forall id, is_live (lget (st_led s) id) = true -> exists i t, id = slot i /\ vget (st_vars s) i = Some (Some t)) /\
  (all_gone (st_vars s) = true -> balanced (st_led s) /\ n_ctor (st_led s) = n_dtor (st_led s)).
Proof.
  intros nv ops s H.
  pose proof (run_inv ops _ _ (inv_init nv) H) as I.
  split; [apply I|].
  split; [intros i t E; destruct I as [_ [_ S]]; eapply slots_engaged; eauto|].
  split; [apply inv_live_is_content; exact I | apply inv_balanced; exact I].
Qed.

(* where no engaged value is moved, OpResult and std::optional agree exactly *)
Lemma exact_proof : forall nv ops s, run (init nv) ops = Some s -> has_engaged_move (init nv) ops = false ->
  spec_run (repeat None nv) ops = Some (st_vars s).
Proof. intros nv ops s H D. apply (run_exact ops (init nv) s D H). Qed.

(* the property at full strength *)
Definition full_statement : Prop :=
  forall nv ops s, run (init nv) ops = Some s ->
    (exists sp, spec_run (repeat None nv) ops = Some sp /\ vars_rel (st_vars s) sp = true) /\
    ok (st_led s) /\
    (all_gone (st_vars s) = true -> balanced (st_led s) /\ n_ctor (st_led s) = n_dtor (st_led s)).

Lemma holds_proof : full_statement.
Proof.
  intros nv ops s H. split; [apply refines_optional_proof; exact H|].
  destruct (opresult_balanced_proof nv ops s H) as [O [_ [_ B]]]. split; assumption.
Qed.

(* regression: the former witnesses of the defect (moved-from object never destroyed) are balanced now *)
Definition witness : list op := [ODefault 0; OEmplace 0 7; OMove 1 0; ODestroy 0; ODestroy 1].
Definition witness_assign : list op := [OValueMove 0 5; ODefault 1; OMoveAssign 1 0; ODestroy 0; ODestroy 1].
Definition witness_overwrite : list op := [ODefault 0; OEmplace 0 7; OMove 1 0; OEmplace 0 8; ODestroy 0; ODestroy 1].

Definition summary (ops : list op) :=
  option_map (fun s => (all_gone (st_vars s), n_ctor (st_led s), n_dtor (st_led s), live_count (st_led s), okb (st_led s)))
             (run (init 2) ops).

Lemma regression_proof :
  summary witness = Some (true, 2, 2, 0, true) /\
  summary witness_assign = Some (true, 3, 3, 0, true) /\
  summary witness_overwrite = Some (true, 3, 3, 0, true).
Proof. repeat split; vm_compute; reflexivity. Qed.
