(* C08: work accounting of the thread-pool core model.  Invariant over ALL accepted event sequences:
     workRemaining = #queued + #popped-or-executing-not-yet-decremented + sum localWorkDone + pending decrements
                     + additions not yet placed.
   (Before the fix 8892b78 the ring / steal-ring drain loops of resizeLocked and ~ThreadPool ran task() with no decrement and the
   invariant needed a ghost LEAKED term; the drain pops are now accounted like executeNext.) *)
From Coq Require Import ZArith List Bool Lia.
From DV Require Import Model.PoolModel Proofs.PoolProofs.
Import ListNotations.
Local Open Scope Z_scope.

Definition counted (k : hkind) : Z := match k with KLocal | KExec => 1 | _ => 0 end.
Definition held_acc (h : option (id * hkind)) : Z := match h with Some (_, k) => counted k | None => 0 end.
Definition th_acc (th : thread) : Z :=
  credit th + held_acc (held th) + sumf (fun x => counted (snd x)) (exec th) + lwd th + owed th.
Definition acc (s : state) : Z :=
  len (central s) + sumf len (rings s) + sumf len (steals s) + sumf th_acc (threads s).

Ltac simp_acc :=
  cbn [th_acc held_acc counted sumf snd fst
       trole pend held exec tpc pcstk lwd owed credit ringCount
       with_pend with_held with_exec with_pc with_pcstk with_lwd with_owed with_credit with_ringCount with_role] in *.
Ltac rw_eqs := repeat match goal with H : ?x = _ |- context[?x] => rewrite H end.
Ltac len_norm := repeat first [rewrite len_app | rewrite len_cons | rewrite len_nil | rewrite len_map].
Ltac pose_len :=
  repeat match goal with
  | |- context[firstn ?n ?l] => lazymatch goal with H : len (firstn n l) + _ = _ |- _ => fail | _ => pose proof (len_firstn_skipn n l); pose proof (len_nonneg l) end
  end;
  repeat match goal with
  | |- context[firstn (Z.to_nat ?n) ?l] => lazymatch goal with H : _ -> len (firstn (Z.to_nat n) l) = n |- _ => fail | _ => pose proof (len_firstn n l) end
  end;
  repeat match goal with
  | H : take_central _ _ _ = Some _ |- _ => pose proof (take_central_len _ _ _ _ H); clear H
  end.

Section C08.
  Variables rcap scap share : Z.
  Local Notation accept := (accept rcap scap share).
  Local Notation accepts := (accepts rcap scap share).

  Lemma accept_acc_delta s tid e s' : accept s tid e = Some s' ->
    wr s' - acc s' = wr s - acc s.
  Proof.
    intros H. unfold accept, accept_rz, getT in H.
    set (th := lget th0 tid (threads s)) in *.
    destruct (trole th) eqn:Hrole; try discriminate H.
    all: destruct e; cbn [is_rz_event] in *; inv_guards H; subst s'; unfold acc; simp_proj;
      rewrite ?(sumf_lset len [] (eq_refl _)), ?(sumf_lset th_acc th0 (eq_refl _)), ?sumf_app, ?(sumf_repeat0 len [] _ (eq_refl _));
      fold th; simp_proj.
    all: repeat match goal with |- context[match ?k with KInline => _ | KLocal => _ | KExec => _ end] => destruct k end.
    all: unfold th_acc in *; simp_acc; bool_hyps; rw_eqs; simp_acc; pose_len; len_norm.
    all: repeat match goal with |- context[if ?b then _ else _] => destruct b end; simp_acc.
    all: lia.
  Qed.

  Lemma acc_init n0 : wr (init share n0) = acc (init share n0).
  Proof. unfold acc, init. cbn. rewrite !(sumf_repeat0 len [] _ (eq_refl _)). reflexivity. Qed.

  Lemma accepts_acc tr : forall s s', accepts s tr = Some s' -> wr s' - acc s' = wr s - acc s.
  Proof.
    induction tr as [|[t e] r IH]; cbn [PoolModel.accepts]; intros s s' H; [injection H as <-; lia|].
    destruct (accept s t e) as [s1|] eqn:E; [|discriminate].
    pose proof (accept_acc_delta _ _ _ _ E). pose proof (IH _ _ H). lia.
  Qed.

  (* the accounting invariant, for all accepted event sequences *)
  Theorem accounting n0 tr s : accepts (init share n0) tr = Some s -> wr s = acc s.
  Proof. intros H. pose proof (accepts_acc _ _ _ H). pose proof (acc_init n0). lia. Qed.

  Lemma idle_thread_acc th : idle_thread th = true -> th_acc th = 0.
  Proof.
    unfold idle_thread, th_acc. intros H. bool_hyps.
    repeat match goal with H : _ = [] |- _ => rewrite H end. cbn. lia.
  Qed.

  Lemma sumf_all0 {A} (f : A -> Z) l : (forall x, In x l -> f x = 0) -> sumf f l = 0.
  Proof. induction l as [|x r IH]; cbn; intros H; [reflexivity|]. rewrite (H x) by (left; reflexivity). rewrite IH by (intros; apply H; right; assumption). reflexivity. Qed.

  Lemma quiescent_acc s : quiescent s = true -> acc s = 0.
  Proof.
    unfold quiescent, acc. intros H.
    apply andb_prop in H. destruct H as [H Ht]. apply andb_prop in H. destruct H as [H Hs]. apply andb_prop in H. destruct H as [Hc Hr].
    apply nilb_true in Hc. rewrite Hc.
    rewrite (sumf_all0 len (rings s)), (sumf_all0 len (steals s)), (sumf_all0 th_acc (threads s)).
    - cbn. lia.
    - intros x Hx. apply idle_thread_acc. exact (proj1 (forallb_forall _ _) Ht x Hx).
    - intros x Hx. pose proof (proj1 (forallb_forall _ _) Hs x Hx) as E. apply nilb_true in E. subst. reflexivity.
    - intros x Hx. pose proof (proj1 (forallb_forall _ _) Hr x Hx) as E. apply nilb_true in E. subst. reflexivity.
  Qed.

  (* C08: at quiescence the counter is zero, for every history of submissions, waits and resizes *)
  Theorem wr_zero_at_quiescence n0 tr s : accepts (init share n0) tr = Some s -> quiescent s = true -> wr s = 0.
  Proof. intros H Q. rewrite (accounting _ _ _ H). apply quiescent_acc. exact Q. Qed.
End C08.

(* ---------- regression: the event trace of the REAL code (after the fix) on the former counterexample
   "pool(4); TaskSet::scheduleBulk(2) (ring fast path); resize(2) before any worker pops" (props/pool_common.py WITNESSES[0]) ---------- *)
Definition c08_witness : list (nat * event) :=
  [(1%nat,EWorkerBegin 0); (2%nat,EWorkerBegin 1); (3%nat,EWorkerBegin 2); (4%nat,EWorkerBegin 3); (0%nat,EAdd 2 3); (0%nat,ELoadNumRings 4 2);
   (0%nat,EGen 0); (0%nat,ERingPushEnd 0); (0%nat,EGen 1); (0%nat,ERingPushEnd 1); (0%nat,EResizeBegin 2); (0%nat,EStopAll); (0%nat,EWakeAll);
   (0%nat,ECentralDone 0); (0%nat,EJoinBegin); (1%nat,EWorkerEnd 0); (2%nat,EWorkerEnd 1); (3%nat,EWorkerEnd 2); (4%nat,EWorkerEnd 3);
   (0%nat,EJoinDone); (0%nat,EDrainRing 0 0); (0%nat,EBodyBegin 0); (0%nat,EBodyEnd 0); (0%nat,ESub 1 5); (0%nat,ERingDone 0); (0%nat,EDrainRing 1 1);
   (0%nat,EBodyBegin 1); (0%nat,EBodyEnd 1); (0%nat,ESub 1 5); (0%nat,ERingDone 1); (0%nat,ERingDone 2); (0%nat,ERingDone 3); (0%nat,EStealDone 0);
   (0%nat,EStoreNumRings 2); (0%nat,EStoreNumSteal 1); (0%nat,EStoreNumThreads 2); (0%nat,EThreadsStarted 2); (5%nat,EWorkerBegin 0);
   (6%nat,EWorkerBegin 1); (0%nat,EResizeEnd)].

Lemma c08_regression_witness :
  exists s, accepts 16 32 8 (init 8 4) c08_witness = Some s /\ quiescent s = true /\ rz s = RIdle /\
            done s = [1; 0] /\ wr s = 0.
Proof. eexists. vm_compute. repeat split. Qed.
