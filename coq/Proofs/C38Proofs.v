(* C38: proofs about the SmallVector model (Model/SmallVecModel.v). *)
From Coq Require Import ZArith List Bool Lia Arith.
From DV Require Import Model.SmallVecLife Model.SmallVecModel.
Import ListNotations.
Local Open Scope Z_scope.

(* ------------------------------------------------------------------ lists *)
Lemma upd_length {A} (l : list A) i x : length (upd l i x) = length l.
Proof. revert i; induction l as [|y l IH]; intros [|i]; simpl; auto. Qed.

Lemma nth_error_mid {A} (a : list A) x b i : length a = i -> nth_error (a ++ x :: b) i = Some x.
Proof. intros <-. induction a; simpl; auto. Qed.

Lemma upd_mid {A} (a : list A) x b i y : length a = i -> upd (a ++ x :: b) i y = a ++ y :: b.
Proof. intros <-. induction a; simpl; auto. f_equal; auto. Qed.

Lemma nth_error_upd_eq {A} (l : list A) i x : (i < length l)%nat -> nth_error (upd l i x) i = Some x.
Proof. revert i; induction l as [|y l IH]; intros [|i] H; simpl in *; try lia; auto. apply IH; lia. Qed.

Lemma nth_error_upd_neq {A} (l : list A) i j x : i <> j -> nth_error (upd l i x) j = nth_error l j.
Proof.
  revert i j; induction l as [|y l IH]; intros [|i] [|j] H; simpl; auto; try congruence.
Qed.

Lemma upd_oob {A} (l : list A) i x : (length l <= i)%nat -> upd l i x = l.
Proof. revert i; induction l as [|y l IH]; intros [|i] H; simpl in *; auto; try lia. f_equal; apply IH; lia. Qed.

Lemma repeat_snoc {A} (x : A) n : repeat x (S n) = repeat x n ++ [x].
Proof. induction n; simpl; auto. f_equal; exact IHn. Qed.

Lemma all_raw_repeat n : all_raw (repeat Raw n) = true.
Proof. induction n; simpl; auto. Qed.

Lemma all_raw_app a b : all_raw (a ++ b) = all_raw a && all_raw b.
Proof. unfold all_raw; apply forallb_app. Qed.

Lemma firstn_map_app {A B} (f : A -> B) l r : firstn (length l) (map f l ++ r) = map f l.
Proof. induction l; simpl; [reflexivity | f_equal; auto]. Qed.

(* ------------------------------------------------------------------ ledger arithmetic *)
Definition gadd (g : ledger) (c d : Z) : ledger := mkLed (nctor g + c) (ndtor g + d) (blocks g).

Lemma gadd_0 g : gadd g 0 0 = g.
Proof. destruct g; unfold gadd; simpl; f_equal; lia. Qed.
Lemma gadd_gadd g a b c d : gadd (gadd g a b) c d = gadd g (a + c) (b + d).
Proof. unfold gadd; simpl; f_equal; lia. Qed.
Lemma ctor_inc_gadd g : ctor_inc g = gadd g 1 0.
Proof. unfold ctor_inc, gadd; f_equal; lia. Qed.
Lemma dtor_inc_gadd g : dtor_inc g = gadd g 0 1.
Proof. unfold dtor_inc, gadd; f_equal; lia. Qed.

Lemma bind_ok {A B} (m : M A) (f : A -> M B) g a g1 : m g = Ok (a, g1) -> bind m f g = f a g1.
Proof. unfold bind; intros ->; reflexivity. Qed.

(* ------------------------------------------------------------------ primitives on a cell in the middle *)
Lemma construct_mid a b i v g : length a = i ->
  construct (a ++ Raw :: b) i v g = Ok (a ++ Alive v :: b, gadd g 1 0).
Proof. intros H. unfold construct. rewrite nth_error_mid by exact H. rewrite upd_mid by exact H. rewrite ctor_inc_gadd. reflexivity. Qed.

Lemma destroy_mid a c b i g : length a = i -> c <> Raw ->
  destroy (a ++ c :: b) i g = Ok (a ++ Raw :: b, gadd g 0 1).
Proof.
  intros H Hc. unfold destroy. rewrite nth_error_mid by exact H. rewrite upd_mid by exact H.
  destruct c; try congruence; rewrite dtor_inc_gadd; reflexivity.
Qed.

Lemma take_mid a v b i g : length a = i ->
  take (a ++ Alive v :: b) i g = Ok ((v, a ++ Moved :: b), g).
Proof. intros H. unfold take, bind, readv. rewrite nth_error_mid by exact H. unfold ret. rewrite upd_mid by exact H. reflexivity. Qed.

Lemma assign_mid a c b i v g : length a = i -> c <> Raw ->
  assign (a ++ c :: b) i v g = Ok (a ++ Alive v :: b, g).
Proof.
  intros H Hc. unfold assign. rewrite nth_error_mid by exact H. rewrite upd_mid by exact H.
  destruct c; try congruence; reflexivity.
Qed.

Lemma readv_mid a v b i g : length a = i -> readv (a ++ Alive v :: b) i g = Ok (v, g).
Proof. intros H. unfold readv. rewrite nth_error_mid by exact H. reflexivity. Qed.

(* ------------------------------------------------------------------ loops: closed forms *)
Lemma move_loop_spec : forall l2 l1 tl tl2 g,
  move_loop (length l2) (length l1) (repeat Raw (length l1) ++ map Alive l2 ++ tl) (map Alive l1 ++ repeat Raw (length l2) ++ tl2) g
  = Ok ((repeat Raw (length l1 + length l2) ++ tl, map Alive (l1 ++ l2) ++ tl2),
        gadd g (Z.of_nat (length l2)) (Z.of_nat (length l2))).
Proof.
  induction l2 as [|x l2 IH]; intros l1 tl tl2 g.
  - cbn [length move_loop map app repeat]. unfold ret. rewrite Nat.add_0_r, app_nil_r, gadd_0. reflexivity.
  - cbn [length move_loop map app].
    rewrite (bind_ok _ _ _ _ _ (take_mid _ x _ _ g (repeat_length _ _))). cbn [fst snd].
    assert (L1 : length (map Alive l1) = length l1) by apply map_length.
    cbn [repeat app]. rewrite (bind_ok _ _ _ _ _ (construct_mid _ _ _ x g L1)).
    rewrite (bind_ok _ _ _ _ _ (destroy_mid _ Moved _ _ (gadd g 1 0) (repeat_length _ _) ltac:(discriminate))).
    specialize (IH (l1 ++ [x]) tl tl2 (gadd (gadd g 1 0) 0 1)).
    rewrite app_length in IH. cbn [length] in IH. rewrite Nat.add_1_r in IH.
    rewrite repeat_snoc, map_app in IH. cbn [map] in IH. rewrite <- !app_assoc in IH. cbn [app] in IH.
    rewrite IH. rewrite !gadd_gadd.
    replace (S (length l1) + length l2)%nat with (length l1 + S (length l2))%nat by lia.
    do 2 f_equal. f_equal; lia.
Qed.

Lemma destroy_loop_spec : forall m a b g, Forall (fun c => c <> Raw) m ->
  destroy_loop (length m) (length a) (a ++ m ++ b) g = Ok (a ++ repeat Raw (length m) ++ b, gadd g 0 (Z.of_nat (length m))).
Proof.
  induction m as [|c m IH]; intros a b g Hm.
  - cbn. unfold ret. rewrite gadd_0. reflexivity.
  - inversion Hm as [|? ? Hc Hm']; subst. cbn [length destroy_loop app].
    rewrite (bind_ok _ _ _ _ _ (destroy_mid a c (m ++ b) _ g eq_refl Hc)).
    specialize (IH (a ++ [Raw]) b (gadd g 0 1) Hm').
    rewrite app_length in IH. cbn [length] in IH. rewrite Nat.add_1_r in IH. rewrite <- !app_assoc in IH. cbn [app] in IH.
    rewrite IH, gadd_gadd. cbn [repeat app]. do 2 f_equal. f_equal; lia.
Qed.

Lemma fill_loop_spec : forall n a r x g,
  fill_loop n (length a) x (a ++ repeat Raw (n + r)) g = Ok (a ++ map Alive (repeat x n) ++ repeat Raw r, gadd g (Z.of_nat n) 0).
Proof.
  induction n as [|n IH]; intros a r x g.
  - cbn. unfold ret. rewrite gadd_0. reflexivity.
  - cbn [fill_loop plus repeat].
    rewrite (bind_ok _ _ _ _ _ (construct_mid a _ _ x g eq_refl)).
    specialize (IH (a ++ [Alive x]) r x (gadd g 1 0)).
    rewrite app_length in IH. cbn [length] in IH. rewrite Nat.add_1_r in IH. rewrite <- !app_assoc in IH. cbn [app] in IH.
    rewrite IH, gadd_gadd. cbn [map app]. do 2 f_equal. f_equal; lia.
Qed.

Lemma shift_loop_spec : forall m a c0 b g, c0 <> Raw ->
  exists c1, c1 <> Raw /\
    shift_loop (length m) (length a) (a ++ c0 :: map Alive m ++ b) g = Ok (a ++ map Alive m ++ c1 :: b, g).
Proof.
  induction m as [|y m IH]; intros a c0 b g Hc.
  - exists c0. split; [exact Hc|]. reflexivity.
  - cbn [length shift_loop map app].
    assert (E : a ++ c0 :: Alive y :: map Alive m ++ b = (a ++ [c0]) ++ Alive y :: map Alive m ++ b) by (rewrite <- app_assoc; reflexivity).
    rewrite E.
    assert (L : length (a ++ [c0]) = S (length a)) by (rewrite app_length; cbn; lia).
    rewrite (bind_ok _ _ _ _ _ (take_mid _ y _ _ g L)). cbn [fst snd].
    rewrite <- app_assoc. cbn [app].
    rewrite (bind_ok _ _ _ _ _ (assign_mid a c0 _ _ y g eq_refl Hc)).
    destruct (IH (a ++ [Alive y]) Moved b g ltac:(discriminate)) as (c1 & Hc1 & E1).
    rewrite app_length in E1. cbn [length] in E1. rewrite Nat.add_1_r in E1. rewrite <- !app_assoc in E1. cbn [app] in E1.
    exists c1. split; [exact Hc1|]. exact E1.
Qed.

(* ------------------------------------------------------------------ ledger: liveness of blocks *)
Definition is_live (g : ledger) (id : nat) : bool :=
  match nth_error (blocks g) id with Some b => b_live b | None => false end.
Definition kill (b : blk) : blk := mkBlk (b_base b) (b_bytes b) false.
Definition gfree (g : ledger) (id : nat) : ledger :=
  mkLed (nctor g) (ndtor g) (match nth_error (blocks g) id with Some b => upd (blocks g) id (kill b) | None => blocks g end).
Definition bal (g : ledger) : Z := nctor g - ndtor g.

Lemma is_live_gadd g a b id : is_live (gadd g a b) id = is_live g id.
Proof. reflexivity. Qed.
Lemma bal_gadd g a b : bal (gadd g a b) = bal g + a - b.
Proof. unfold bal, gadd; simpl; lia. Qed.
Lemma bal_gfree g id : bal (gfree g id) = bal g.
Proof. reflexivity. Qed.

Lemma is_live_lt g id : is_live g id = true -> (id < length (blocks g))%nat.
Proof.
  unfold is_live. destruct (nth_error (blocks g) id) eqn:E; [|discriminate]. intros _.
  apply nth_error_Some. congruence.
Qed.

Lemma is_live_gfree g id0 id : is_live (gfree g id0) id = negb (id =? id0)%nat && is_live g id.
Proof.
  unfold is_live, gfree; simpl. destruct (Nat.eqb_spec id id0) as [->|Hne]; simpl.
  - destruct (nth_error (blocks g) id0) eqn:E; [|rewrite E; reflexivity].
    rewrite nth_error_upd_eq; [reflexivity|]. apply nth_error_Some; congruence.
  - destruct (nth_error (blocks g) id0) eqn:E; [|reflexivity].
    rewrite nth_error_upd_neq by congruence. reflexivity.
Qed.

Lemma free_block_ok g id : is_live g id = true -> free_block id g = Ok (tt, gfree g id).
Proof.
  unfold is_live, free_block, gfree. destruct (nth_error (blocks g) id) as [b|] eqn:E; [|discriminate].
  intros ->. reflexivity.
Qed.

Lemma oeq_dec (a b : option nat) : {a = b} + {a <> b}.
Proof. decide equality; apply Nat.eq_dec. Qed.

Ltac split5 := refine (conj _ (conj _ (conj _ (conj _ _)))).

Section Vec.
  Variable alloc : nat -> Z -> Z.
  Variable N : nat.
  Variable szT : Z.
  Hypothesis HN : (1 <= N)%nat.

  Definition galloc (g : ledger) (bytes : Z) : ledger :=
    mkLed (nctor g) (ndtor g) (blocks g ++ [mkBlk (alloc (length (blocks g)) bytes) bytes true]).

  Lemma new_block_ok g bytes : new_block alloc bytes g = Ok (length (blocks g), galloc g bytes).
  Proof. reflexivity. Qed.

  Lemma is_live_galloc g bytes id : is_live (galloc g bytes) id = (id =? length (blocks g))%nat || is_live g id.
  Proof.
    unfold is_live, galloc; simpl. destruct (Nat.eqb_spec id (length (blocks g))) as [->|Hne]; simpl.
    - rewrite nth_error_mid by reflexivity. reflexivity.
    - destruct (Nat.lt_ge_cases id (length (blocks g))) as [Hlt|Hge].
      + rewrite nth_error_app1 by exact Hlt. reflexivity.
      + rewrite (proj2 (nth_error_None _ _)); [|rewrite app_length; simpl; lia].
        rewrite (proj2 (nth_error_None _ _)); [reflexivity|lia].
  Qed.
  Lemma bal_galloc g bytes : bal (galloc g bytes) = bal g.
  Proof. reflexivity. Qed.

  (* every block's base is what the oracle returned for it *)
  Definition bases_ok (g : ledger) : Prop :=
    forall id b, nth_error (blocks g) id = Some b -> b_base b = alloc id (b_bytes b).
  Lemma bases_gadd g a b : bases_ok g -> bases_ok (gadd g a b).
  Proof. exact (fun H => H). Qed.
  Lemma bases_galloc g bytes : bases_ok g -> bases_ok (galloc g bytes).
  Proof.
    intros H id b. unfold galloc; simpl. intros E.
    destruct (Nat.lt_ge_cases id (length (blocks g))) as [Hlt|Hge].
    - rewrite nth_error_app1 in E by exact Hlt. apply H; exact E.
    - rewrite nth_error_app2 in E by exact Hge.
      destruct (id - length (blocks g))%nat as [|n] eqn:En; simpl in E.
      + inversion E; subst b; simpl. f_equal. lia.
      + destruct n; discriminate.
  Qed.
  Lemma bases_gfree g id0 : bases_ok g -> bases_ok (gfree g id0).
  Proof.
    intros H id b. unfold gfree; simpl. destruct (nth_error (blocks g) id0) as [b0|] eqn:E0; [|apply H].
    destruct (Nat.eq_dec id0 id) as [->|Hne].
    - rewrite nth_error_upd_eq by (apply nth_error_Some; congruence). intros Eb; inversion Eb; subst b; simpl. apply H; exact E0.
    - rewrite nth_error_upd_neq by exact Hne. apply H.
  Qed.

  (* ---------------------------------------------------------------- canonical vectors *)
  Definition ivec (l : list Z) : vec := mkVec false (length l) (map Alive l ++ repeat Raw (N - length l)) 0 0 [].
  Definition hvec (l : list Z) (id cap : nat) : vec :=
    mkVec true (length l) (repeat Raw N) id cap (map Alive l ++ repeat Raw (cap - length l)).

  Inductive vec_rep : vec -> list Z -> Prop :=
  | rep_inl l : (length l <= N)%nat -> vec_rep (ivec l) l
  | rep_heap l id cap : (length l <= cap)%nat -> (N < cap)%nat -> vec_rep (hvec l id cap) l.

  Definition own (v : vec) : option nat := if heapb v then Some (hblk v) else None.
  Definition own_live (g : ledger) (v : vec) : Prop := forall id, own v = Some id -> is_live g id = true.

  Record frame (g g' : ledger) (o o' : option nat) : Prop := mkFrame {
    fr_other : forall id, Some id <> o -> Some id <> o' -> is_live g' id = is_live g id;
    fr_new : forall id, o' = Some id -> is_live g' id = true;
    fr_old : forall id, o = Some id -> o' <> Some id -> is_live g' id = false;
    fr_fresh : forall id, o' = Some id -> o <> Some id -> is_live g id = false;
    fr_bases : bases_ok g -> bases_ok g' }.

  Lemma frame_refl g o : (forall id, o = Some id -> is_live g id = true) -> frame g g o o.
  Proof. intros H. constructor; auto; intros; congruence. Qed.

  Lemma frame_gadd g g' o o' a b : frame g g' o o' -> frame g (gadd g' a b) o o'.
  Proof. intros [F1 F2 F3 F4 F5]. constructor; auto. Qed.

  Lemma frame_gadd_l g g' o o' a b : frame (gadd g a b) g' o o' -> frame g g' o o'.
  Proof. intros [F1 F2 F3 F4 F5]. constructor; auto. Qed.

  Lemma frame_trans g g1 g2 o o1 o2 : frame g g1 o o1 -> frame g1 g2 o1 o2 -> frame g g2 o o2.
  Proof.
    intros [A1 A2 A3 A4 A5] [B1 B2 B3 B4 B5]. constructor.
    - intros id H0 H2. destruct (oeq_dec (Some id) o1) as [E|E].
      + rewrite (B3 id) by congruence. symmetry. apply A4; congruence.
      + rewrite B1 by assumption. apply A1; assumption.
    - exact B2.
    - intros id H0 H2. destruct (oeq_dec (Some id) o1) as [E|E].
      + apply B3; congruence.
      + rewrite B1 by congruence. apply A3; congruence.
    - intros id H2 H0. destruct (oeq_dec (Some id) o1) as [E|E].
      + apply A4; congruence.
      + rewrite <- A1 by congruence. apply B4; congruence.
    - auto.
  Qed.

  Lemma data_rep v l : vec_rep v l ->
    data v = map Alive l ++ repeat Raw (capacity N v - length l) /\ vsize v = length l /\ (length l <= capacity N v)%nat /\ (1 <= capacity N v)%nat.
  Proof. intros [l0 H|l0 id cap H H']; unfold data, capacity; simpl; repeat split; auto; lia. Qed.

  (* in-place update of the cells within the capacity *)
  Lemma canon_set v l l' : vec_rep v l -> (length l' <= capacity N v)%nat ->
    let v' := set_size (set_data v (map Alive l' ++ repeat Raw (capacity N v - length l'))) (length l') in
    vec_rep v' l' /\ own v' = own v /\ capacity N v' = capacity N v.
  Proof.
    intros [l0 H|l0 id cap H H'] Hl; unfold set_size, set_data, capacity in *; simpl in *.
    - split; [apply (rep_inl l' Hl)|split; reflexivity].
    - split; [apply (rep_heap l' id cap Hl H')|split; reflexivity].
  Qed.
  (* ---------------------------------------------------------------- growToHeap *)
  Lemma repeat_raw_app a b : repeat Raw a ++ repeat Raw b = repeat Raw (a + b).
  Proof. symmetry; apply repeat_app. Qed.

  (* moveToHeap into a block whose first (length l) cells are raw; tl2 = the rest (raw, or already holding the new element) *)
  Lemma moveToHeap_inl l id newCap tl2 g : (length l <= N)%nat ->
    moveToHeap id newCap (repeat Raw (length l) ++ tl2) (ivec l) g =
      Ok (mkVec true (length l) (repeat Raw N) id newCap (map Alive l ++ tl2), gadd g (Z.of_nat (length l)) (Z.of_nat (length l))).
  Proof.
    intros H1. unfold moveToHeap, data, ivec. cbn [heapb vsize inl].
    pose proof (move_loop_spec l [] (repeat Raw (N - length l)) tl2 g) as E.
    cbn [length map app repeat] in E. rewrite (bind_ok _ _ _ _ _ E). cbn [fst snd negb].
    unfold bind, ret. cbn [plus]. rewrite repeat_raw_app.
    replace (length l + (N - length l))%nat with N by lia. reflexivity.
  Qed.

  Lemma moveToHeap_heap l id0 cap id newCap tl2 g : (length l <= cap)%nat -> is_live g id0 = true ->
    moveToHeap id newCap (repeat Raw (length l) ++ tl2) (hvec l id0 cap) g =
      Ok (mkVec true (length l) (repeat Raw N) id newCap (map Alive l ++ tl2),
          gfree (gadd g (Z.of_nat (length l)) (Z.of_nat (length l))) id0).
  Proof.
    intros H1 HL. unfold moveToHeap, data, hvec. cbn [heapb vsize hcells].
    pose proof (move_loop_spec l [] (repeat Raw (cap - length l)) tl2 g) as E.
    cbn [length map app repeat] in E. rewrite (bind_ok _ _ _ _ _ E). cbn [fst snd plus].
    unfold release, set_data. cbn [heapb hcells hblk].
    rewrite all_raw_app, !all_raw_repeat. cbn [andb].
    rewrite (bind_ok _ _ _ _ _ (free_block_ok _ id0 ltac:(rewrite is_live_gadd; exact HL))).
    reflexivity.
  Qed.

  Lemma repeat_split newCap n : (n <= newCap)%nat -> repeat Raw newCap = repeat Raw n ++ repeat Raw (newCap - n).
  Proof. intros H. rewrite repeat_raw_app. f_equal. lia. Qed.

  Lemma growToHeap_inl l newCap g : (length l <= N)%nat -> (length l <= newCap)%nat ->
    growToHeap alloc szT newCap (ivec l) g =
      Ok (hvec l (length (blocks g)) newCap,
          gadd (galloc g (Z.of_nat newCap * szT)) (Z.of_nat (length l)) (Z.of_nat (length l))).
  Proof.
    intros H1 H2. unfold growToHeap.
    rewrite (bind_ok _ _ _ _ _ (new_block_ok g _)).
    rewrite (repeat_split newCap (length l) H2). apply moveToHeap_inl. exact H1.
  Qed.

  Lemma growToHeap_heap l id cap newCap g : (length l <= cap)%nat -> (length l <= newCap)%nat -> is_live g id = true ->
    growToHeap alloc szT newCap (hvec l id cap) g =
      Ok (hvec l (length (blocks g)) newCap,
          gfree (gadd (galloc g (Z.of_nat newCap * szT)) (Z.of_nat (length l)) (Z.of_nat (length l))) id).
  Proof.
    intros H1 H2 HL. unfold growToHeap.
    rewrite (bind_ok _ _ _ _ _ (new_block_ok g _)).
    rewrite (repeat_split newCap (length l) H2). apply moveToHeap_heap; [exact H1|].
    rewrite is_live_galloc, HL. apply orb_true_r.
  Qed.

  Lemma frame_alloc g bytes a b : frame g (gadd (galloc g bytes) a b) None (Some (length (blocks g))).
  Proof.
    constructor.
    - intros id _ Hn. rewrite is_live_gadd, is_live_galloc.
      destruct (Nat.eqb_spec id (length (blocks g))); [congruence|reflexivity].
    - intros id E; inversion E; subst. rewrite is_live_gadd, is_live_galloc, Nat.eqb_refl. reflexivity.
    - intros; discriminate.
    - intros id E _; inversion E; subst. unfold is_live. rewrite (proj2 (nth_error_None _ _)); [reflexivity|lia].
    - intros H. apply bases_gadd, bases_galloc, H.
  Qed.

  Lemma frame_realloc g bytes a b id : is_live g id = true ->
    frame g (gfree (gadd (galloc g bytes) a b) id) (Some id) (Some (length (blocks g))).
  Proof.
    intros HL. pose proof (is_live_lt _ _ HL) as Hlt. constructor.
    - intros id' H0 Hn. rewrite is_live_gfree, is_live_gadd, is_live_galloc.
      destruct (Nat.eqb_spec id' id); [congruence|]. destruct (Nat.eqb_spec id' (length (blocks g))); [congruence|reflexivity].
    - intros id' E; inversion E; subst. rewrite is_live_gfree, is_live_gadd, is_live_galloc, Nat.eqb_refl.
      destruct (Nat.eqb_spec (length (blocks g)) id); [lia|reflexivity].
    - intros id' E _; inversion E; subst. rewrite is_live_gfree, Nat.eqb_refl. reflexivity.
    - intros id' E _; inversion E; subst. unfold is_live. rewrite (proj2 (nth_error_None _ _)); [reflexivity|lia].
    - intros H. apply bases_gfree, bases_gadd, bases_galloc, H.
  Qed.

  Lemma frame_free g id : frame g (gfree g id) (Some id) None.
  Proof.
    constructor.
    - intros id' H0 _. rewrite is_live_gfree. destruct (Nat.eqb_spec id' id); [congruence|reflexivity].
    - intros; discriminate.
    - intros id' E _; inversion E; subst. rewrite is_live_gfree, Nat.eqb_refl. reflexivity.
    - intros; discriminate.
    - apply bases_gfree.
  Qed.

  (* post-condition of an operation on one vector: it succeeds, the result represents l', constructions minus
     destructions changed by the change of the number of elements, and the ledger changed only at the blocks owned *)
  Definition vpost (v : vec) (l : list Z) (g : ledger) (l' : list Z) (r : res (vec * ledger)) : Prop :=
    exists v' g', r = Ok (v', g') /\ vec_rep v' l' /\
      bal g' = bal g + Z.of_nat (length l') - Z.of_nat (length l) /\ frame g g' (own v) (own v').

  Lemma vpost_live v l g l' r v' g' : vpost v l g l' r -> r = Ok (v', g') -> own_live g' v'.
  Proof.
    intros (v1 & g1 & E & _ & _ & F) E'. rewrite E in E'. inversion E'; subst. intros id Hid. apply (fr_new _ _ _ _ F). exact Hid.
  Qed.

  Lemma growToHeap_ok v l g newCap : vec_rep v l -> own_live g v -> (length l <= newCap)%nat -> (N < newCap)%nat ->
    exists id' g', growToHeap alloc szT newCap v g = Ok (hvec l id' newCap, g') /\
      bal g' = bal g /\ frame g g' (own v) (Some id').
  Proof.
    intros [l0 H|l0 id cap H H'] HL Hn HN'.
    - eexists _, _. split; [apply growToHeap_inl; assumption|]. split.
      + rewrite bal_gadd, bal_galloc. lia.
      + apply frame_alloc.
    - assert (L : is_live g id = true) by (apply HL; reflexivity).
      eexists _, _. split; [apply growToHeap_heap; assumption|]. split.
      + rewrite bal_gfree, bal_gadd, bal_galloc. lia.
      + apply frame_realloc; exact L.
  Qed.

  (* ---------------------------------------------------------------- ensureCapacity / emplace_back *)
  Lemma frame_same g v : own_live g v -> frame g g (own v) (own v).
  Proof. intros H. apply frame_refl. exact H. Qed.

  Lemma ensureCapacity_ok n v l g : vec_rep v l -> own_live g v ->
    exists v' g', ensureCapacity alloc N szT n v g = Ok (v', g') /\ vec_rep v' l /\ (n <= capacity N v')%nat /\
      bal g' = bal g /\ frame g g' (own v) (own v').
  Proof.
    intros R HL. pose proof R as R0. destruct R as [l0 H|l0 id cap H H']; unfold ensureCapacity; simpl (heapb _); simpl (hcap _); cbn [negb].
    - destruct (Nat.leb_spec n N) as [Hn|Hn]; cbn [andb].
      + exists (ivec l0), g. split5; auto. apply (frame_same g (ivec l0) HL).
      + destruct (growToHeap_ok _ _ g n R0 HL ltac:(lia) Hn) as (id' & g' & E & B & F).
        exists (hvec l0 id' n), g'. split5; auto. apply rep_heap; lia.
    - rewrite andb_false_r. destruct (Nat.ltb_spec cap n) as [Hn|Hn].
      + destruct (growToHeap_ok _ _ g n R0 HL ltac:(lia) ltac:(lia)) as (id' & g' & E & B & F).
        exists (hvec l0 id' n), g'. split5; auto. apply rep_heap; lia.
      + exists (hvec l0 id cap), g. split5; auto. apply (frame_same g (hvec l0 id cap) HL).
  Qed.

  Lemma push_cell v l x g : vec_rep v l -> (length l < capacity N v)%nat ->
    exists v', bind (construct (data v) (vsize v) x) (fun d => ret (set_size (set_data v d) (S (vsize v)))) g = Ok (v', gadd g 1 0) /\
      vec_rep v' (l ++ [x]) /\ own v' = own v /\ capacity N v' = capacity N v.
  Proof.
    intros R Hc. destruct (data_rep _ _ R) as (D & S & _ & _).
    assert (Hl : (length (l ++ [x]) <= capacity N v)%nat) by (rewrite app_length; cbn; lia).
    destruct (canon_set _ _ (l ++ [x]) R Hl) as (R' & O' & C').
    eexists. split; [|split; [exact R'|split; [exact O'|exact C']]].
    rewrite D, S.
    replace (capacity N v - length l)%nat with (Datatypes.S (capacity N v - length (l ++ [x]))) by (rewrite app_length; cbn; lia).
    cbn [repeat]. rewrite (bind_ok _ _ _ _ _ (construct_mid _ _ _ x g (map_length _ _))).
    unfold ret. do 3 f_equal.
    - rewrite map_app, <- app_assoc. reflexivity.
    - rewrite app_length; cbn; lia.
  Qed.

  Lemma hvec_push l x id cap : (length l < cap)%nat ->
    set_size (mkVec true (length l) (repeat Raw N) id cap (map Alive l ++ Alive x :: repeat Raw (cap - length l - 1))) (S (length l))
    = hvec (l ++ [x]) id cap.
  Proof.
    intros H. unfold set_size, hvec. cbn [heapb vsize inl hblk hcap hcells].
    rewrite app_length, map_app, <- app_assoc. cbn [length map app].
    f_equal; [lia|]. do 3 f_equal. lia.
  Qed.

  Lemma emplace_back_ok x v l g : vec_rep v l -> own_live g v -> vpost v l g (l ++ [x]) (emplace_back alloc N szT x v g).
  Proof.
    intros R HL. destruct (data_rep _ _ R) as (D & S & C & C1). unfold emplace_back.
    destruct (Nat.ltb_spec (vsize v) (capacity N v)) as [Hlt|Hge].
    - rewrite S in Hlt. destruct (push_cell v l x g R Hlt) as (v' & E & R' & O' & _).
      exists v', (gadd g 1 0). split; [exact E|]. split; [exact R'|]. split.
      + rewrite bal_gadd, app_length. cbn [length]. lia.
      + rewrite O'. apply frame_gadd, frame_same. exact HL.
    - assert (Hfull : length l = capacity N v) by lia.
      set (newCap := (capacity N v * 2)%nat).
      rewrite (bind_ok _ _ _ _ _ (new_block_ok g _)).
      assert (Hsplit : repeat Raw newCap = repeat Raw (length l) ++ Raw :: repeat Raw (newCap - length l - 1)).
      { replace newCap with (length l + Datatypes.S (newCap - length l - 1))%nat at 1 by (unfold newCap; lia).
        rewrite repeat_app. reflexivity. }
      rewrite Hsplit, S.
      rewrite (bind_ok _ _ _ _ _ (construct_mid _ _ _ x _ (repeat_length _ _))).
      pose proof R as R0. destruct R as [l0 H|l0 id0 cap H H'].
      + assert (Cv : capacity N (ivec l0) = N) by reflexivity. unfold newCap in *. rewrite Cv in *. clear Cv.
        rewrite (bind_ok _ _ _ _ _ (moveToHeap_inl l0 _ _ _ _ H)). unfold ret. cbn [vsize].
        rewrite hvec_push by lia. rewrite gadd_gadd.
        eexists _, _. split; [reflexivity|]. split; [apply rep_heap; try rewrite app_length; cbn [length]; lia|].
        split; [rewrite bal_gadd, bal_galloc, app_length; cbn [length]; lia|]. apply frame_alloc.
      + assert (Cv : capacity N (hvec l0 id0 cap) = cap) by reflexivity. unfold newCap in *. rewrite Cv in *. clear Cv.
        assert (L : is_live g id0 = true) by (apply HL; reflexivity).
        rewrite (bind_ok _ _ _ _ _ (moveToHeap_heap l0 id0 cap _ _ _ _ H ltac:(rewrite is_live_gadd, is_live_galloc, L; apply orb_true_r))).
        unfold ret. cbn [vsize]. rewrite hvec_push by lia. rewrite gadd_gadd.
        eexists _, _. split; [reflexivity|]. split; [apply rep_heap; try rewrite app_length; cbn [length]; lia|].
        split; [rewrite bal_gfree, bal_gadd, bal_galloc, app_length; cbn [length]; lia|]. apply frame_realloc. exact L.
  Qed.

  (* ---------------------------------------------------------------- composition *)
  Lemma vpost_trans v l g l1 v1 g1 l2 r2 :
    vpost v l g l1 (Ok (v1, g1)) -> vpost v1 l1 g1 l2 r2 -> vpost v l g l2 r2.
  Proof.
    intros (v1' & g1' & E1 & R1 & B1 & F1) (v2 & g2 & E2 & R2 & B2 & F2). inversion E1; subst v1' g1'.
    exists v2, g2. split; [exact E2|]. split; [exact R2|]. split; [lia|]. eapply frame_trans; eassumption.
  Qed.

  Lemma vpost_refl v l g : vec_rep v l -> own_live g v -> vpost v l g l (Ok (v, g)).
  Proof. intros R HL. exists v, g. split; [reflexivity|]. split; [exact R|]. split; [lia|]. apply frame_same; exact HL. Qed.

  Lemma ivec_nil : ivec [] = mkVec false 0 (repeat Raw N) 0 0 [].
  Proof. unfold ivec. cbn [length map app]. rewrite Nat.sub_0_r. reflexivity. Qed.
  Lemma empty_vec_ivec : empty_vec N = ivec [].
  Proof. rewrite ivec_nil. reflexivity. Qed.
  Lemma rep_nil : vec_rep (ivec []) [].
  Proof. apply rep_inl. cbn; lia. Qed.

  Lemma readv_alive l r i x g : nth_error l i = Some x -> readv (map Alive l ++ r) i g = Ok (x, g).
  Proof.
    intros H. unfold readv. rewrite nth_error_app1 by (rewrite map_length; apply nth_error_Some; congruence).
    rewrite (map_nth_error Alive _ _ H). reflexivity.
  Qed.

  Lemma split_at {A} (l : list A) i x : nth_error l i = Some x -> l = firstn i l ++ x :: skipn (S i) l.
  Proof.
    revert i; induction l as [|y l IH]; intros [|i] H; simpl in *; try discriminate.
    - inversion H; reflexivity.
    - f_equal. apply IH; exact H.
  Qed.

  (* ---------------------------------------------------------------- pop_back / resize / destroyAll / erase / push_self *)
  Lemma pop_back_ok v l x g : vec_rep v (l ++ [x]) ->
    exists v', pop_back v g = Ok (v', gadd g 0 1) /\ vec_rep v' l /\ own v' = own v.
  Proof.
    intros R. destruct (data_rep _ _ R) as (D & S & C & _).
    rewrite app_length in S, C. cbn [length] in S, C. rewrite Nat.add_1_r in S.
    assert (Hl : (length l <= capacity N v)%nat) by lia.
    destruct (canon_set _ _ l R Hl) as (R' & O' & _).
    eexists. split; [|split; [exact R'|exact O']].
    unfold pop_back. rewrite S, D. rewrite map_app, <- app_assoc. cbn [map app].
    rewrite (bind_ok _ _ _ _ _ (destroy_mid _ (Alive x) _ _ g (map_length _ _) ltac:(discriminate))).
    unfold ret. do 3 f_equal.
    replace (capacity N v - length l)%nat with (Datatypes.S (capacity N v - length (l ++ [x]))) by (rewrite app_length; cbn; lia).
    reflexivity.
  Qed.

  Lemma own_set v d n : own (set_size (set_data v d) n) = own v.
  Proof. unfold own, set_size, set_data. destruct (heapb v); reflexivity. Qed.

  Lemma Forall_alive l : Forall (fun c => c <> Raw) (map Alive l).
  Proof. induction l; simpl; constructor; auto; discriminate. Qed.

  Lemma resize_ok n x v l g : vec_rep v l -> own_live g v -> vpost v l g (spec_resize n x l) (resize alloc N szT n x v g).
  Proof.
    intros R HL. destruct (data_rep _ _ R) as (D & S & C & _). unfold resize, spec_resize. rewrite S.
    destruct (Nat.ltb_spec (length l) n) as [Hgt|Hle].
    - destruct (ensureCapacity_ok n _ _ g R HL) as (v1 & g1 & E1 & R1 & C1 & B1 & F1).
      rewrite (bind_ok _ _ _ _ _ E1).
      destruct (data_rep _ _ R1) as (D1 & S1 & _ & _).
      rewrite firstn_all2 by lia.
      assert (Hl : (length (l ++ repeat x (n - length l)) <= capacity N v1)%nat) by (rewrite app_length, repeat_length; lia).
      destruct (canon_set _ _ _ R1 Hl) as (R' & O' & _).
      rewrite D1.
      replace (capacity N v1 - length l)%nat with ((n - length l) + (capacity N v1 - n))%nat by lia.
      pose proof (fill_loop_spec (n - length l) (map Alive l) (capacity N v1 - n) x g1) as FL.
      rewrite map_length in FL. rewrite (bind_ok _ _ _ _ _ FL).
      eexists _, _. split; [reflexivity|]. split; [|split].
      + assert (Ln : length (l ++ repeat x (n - length l)) = n) by (rewrite app_length, repeat_length; lia).
        rewrite Ln, map_app, <- app_assoc in R'. exact R'.
      + rewrite bal_gadd, B1, app_length, repeat_length. lia.
      + rewrite own_set. apply frame_gadd; exact F1.
    - destruct (Nat.ltb_spec n (length l)) as [Hlt|Hge].
      + replace (n - length l)%nat with 0%nat by lia. cbn [repeat]. rewrite app_nil_r.
        assert (Hl : (length (firstn n l) <= capacity N v)%nat) by (rewrite firstn_length; lia).
        destruct (canon_set _ _ _ R Hl) as (R' & O' & _).
        assert (El : map Alive l = map Alive (firstn n l) ++ map Alive (skipn n l)) by (rewrite <- map_app, firstn_skipn; reflexivity).
        rewrite D, El, <- app_assoc.
        assert (L1 : length (map Alive (firstn n l)) = n) by (rewrite map_length, firstn_length; lia).
        assert (L2 : length (map Alive (skipn n l)) = (length l - n)%nat) by (rewrite map_length, skipn_length; lia).
        pose proof (destroy_loop_spec (map Alive (skipn n l)) (map Alive (firstn n l)) (repeat Raw (capacity N v - length l)) g (Forall_alive _)) as DL.
        rewrite L1, L2 in DL. rewrite (bind_ok _ _ _ _ _ DL).
        eexists _, _. split; [reflexivity|]. split; [|split].
        * assert (Lf : length (firstn n l) = n) by (rewrite firstn_length; lia).
          rewrite Lf in R'. rewrite repeat_raw_app.
          replace (length l - n + (capacity N v - length l))%nat with (capacity N v - n)%nat by lia.
          exact R'.
        * rewrite bal_gadd, firstn_length. lia.
        * rewrite own_set. apply frame_gadd, frame_same; exact HL.
      + replace (n - length l)%nat with 0%nat by lia. cbn [repeat]. rewrite app_nil_r, firstn_all2 by lia.
        apply vpost_refl; assumption.
  Qed.

  Lemma destroyAll_ok v l g : vec_rep v l -> own_live g v ->
    exists v1 g', destroyAll v g = Ok (v1, g') /\ to_inline v1 = ivec [] /\ all_raw (inl v1) = true /\
      bal g' = bal g - Z.of_nat (length l) /\ frame g g' (own v) None.
  Proof.
    intros R HL. destruct R as [l0 H|l0 id cap H H']; unfold destroyAll, data; simpl (heapb _); simpl (vsize _); cbn iota.
    - simpl (inl _).
      pose proof (destroy_loop_spec (map Alive l0) [] (repeat Raw (N - length l0)) g (Forall_alive _)) as DL.
      rewrite map_length in DL. cbn [length app] in DL. rewrite (bind_ok _ _ _ _ _ DL).
      unfold bind, ret. eexists _, _. split; [reflexivity|].
      rewrite repeat_raw_app. replace (length l0 + (N - length l0))%nat with N by lia.
      split; [rewrite ivec_nil; reflexivity|]. split; [apply all_raw_repeat|]. split; [rewrite bal_gadd; lia|].
      apply frame_gadd. apply (frame_same g (ivec l0) HL).
    - simpl (hcells _).
      pose proof (destroy_loop_spec (map Alive l0) [] (repeat Raw (cap - length l0)) g (Forall_alive _)) as DL.
      rewrite map_length in DL. cbn [length app] in DL. rewrite (bind_ok _ _ _ _ _ DL).
      unfold release, set_data. simpl (heapb _). cbn iota. simpl (hcells _). simpl (hblk _).
      rewrite all_raw_app, !all_raw_repeat. cbn [andb].
      assert (L : is_live g id = true) by (apply HL; reflexivity).
      rewrite (bind_ok _ _ _ _ _ (free_block_ok (gadd g 0 (Z.of_nat (length l0))) id L)).
      unfold ret. eexists _, _. split; [reflexivity|].
      split; [rewrite ivec_nil; reflexivity|]. split; [apply all_raw_repeat|]. split; [rewrite bal_gfree, bal_gadd; lia|].
      apply (frame_gadd_l g _ _ _ 0 (Z.of_nat (length l0))). exact (frame_free _ id).
  Qed.

  Lemma erase_ok i v l g : vec_rep v l -> (i < length l)%nat ->
    exists v', erase i v g = Ok (v', gadd g 0 1) /\ vec_rep v' (spec_erase i l) /\ own v' = own v.
  Proof.
    intros R Hi. destruct (data_rep _ _ R) as (D & S & C & _).
    destruct (nth_error l i) as [x|] eqn:Ex; [|apply nth_error_None in Ex; lia].
    pose proof (split_at _ _ _ Ex) as El.
    assert (L1 : length (firstn i l) = i) by (rewrite firstn_length; lia).
    assert (L2 : length (skipn (Datatypes.S i) l) = (length l - 1 - i)%nat) by (rewrite skipn_length; lia).
    assert (Hl : (length (spec_erase i l) <= capacity N v)%nat) by (unfold spec_erase; rewrite app_length, L1, L2; lia).
    destruct (canon_set _ _ _ R Hl) as (R' & O' & _).
    eexists. split; [|split; [exact R'|exact O']].
    unfold erase. rewrite S. destruct (Nat.ltb_spec i (length l)) as [_|]; [|lia].
    assert (Em : map Alive l = map Alive (firstn i l) ++ Alive x :: map Alive (skipn (Datatypes.S i) l)) by (rewrite El at 1; rewrite map_app; reflexivity).
    rewrite D, Em, <- app_assoc. cbn [app].
    destruct (shift_loop_spec (skipn (Datatypes.S i) l) (map Alive (firstn i l)) (Alive x) (repeat Raw (capacity N v - length l)) g
                ltac:(discriminate)) as (c1 & Hc1 & SL).
    rewrite map_length, L1, L2 in SL. rewrite (bind_ok _ _ _ _ _ SL).
    rewrite app_assoc.
    assert (L3 : length (map Alive (firstn i l) ++ map Alive (skipn (Datatypes.S i) l)) = (length l - 1)%nat)
      by (rewrite app_length, !map_length, L1, L2; lia).
    pose proof (destroy_mid _ c1 (repeat Raw (capacity N v - length l)) _ g L3 Hc1) as DM.
    rewrite (bind_ok _ _ _ _ _ DM).
    unfold ret. do 3 f_equal.
    - unfold spec_erase. rewrite map_app. f_equal.
      replace (capacity N v - length (firstn i l ++ skipn (Datatypes.S i) l))%nat with (Datatypes.S (capacity N v - length l)); [reflexivity|].
      rewrite app_length, L1, L2. lia.
    - unfold spec_erase. rewrite app_length, L1, L2. lia.
  Qed.

  Lemma push_self_ok i x v l g : vec_rep v l -> own_live g v -> nth_error l i = Some x ->
    vpost v l g (l ++ [x]) (push_self alloc N szT i v g).
  Proof.
    intros R HL Hx. destruct (data_rep _ _ R) as (D & _). unfold push_self. rewrite D.
    rewrite (bind_ok _ _ _ _ _ (readv_alive l _ i x g Hx)). apply emplace_back_ok; assumption.
  Qed.

  (* ---------------------------------------------------------------- copies *)
  Lemma copy_loop_ok src ls : vec_rep src ls -> forall n i dst ld g, vec_rep dst ld -> own_live g dst -> (i + n <= length ls)%nat ->
    vpost dst ld g (ld ++ firstn n (skipn i ls)) (copy_loop alloc N szT n i src dst g).
  Proof.
    intros Rs. destruct (data_rep _ _ Rs) as (Ds & _ & _ & _).
    induction n as [|n IH]; intros i dst ld g Rd HL Hn.
    - cbn [copy_loop firstn]. rewrite app_nil_r. apply vpost_refl; assumption.
    - cbn [copy_loop].
      destruct (nth_error ls i) as [x|] eqn:Ex; [|apply nth_error_None in Ex; lia].
      rewrite Ds. rewrite (bind_ok _ _ _ _ _ (readv_alive ls _ i x g Ex)).
      pose proof (emplace_back_ok x dst ld g Rd HL) as P.
      destruct P as (d1 & g1 & E1 & R1 & B1 & F1).
      rewrite (bind_ok _ _ _ _ _ E1).
      assert (HL1 : own_live g1 d1) by (intros id Hid; apply (fr_new _ _ _ _ F1); exact Hid).
      specialize (IH (Datatypes.S i) d1 (ld ++ [x]) g1 R1 HL1 ltac:(lia)).
      assert (Es : skipn i ls = x :: skipn (Datatypes.S i) ls).
      { rewrite (split_at _ _ _ Ex) at 1. rewrite skipn_app, firstn_length.
        replace (i - Nat.min i (length ls))%nat with 0%nat by lia.
        rewrite skipn_all2 by (rewrite firstn_length; lia). reflexivity. }
      rewrite Es. cbn [firstn]. rewrite <- app_assoc in IH. cbn [app] in IH.
      eapply vpost_trans; [|exact IH].
      exists d1, g1. split; [reflexivity|]. split; [exact R1|]. split; [exact B1|exact F1].
  Qed.

  Lemma push_all_ok xs : forall v l g, vec_rep v l -> own_live g v -> vpost v l g (l ++ xs) (push_all alloc N szT xs v g).
  Proof.
    induction xs as [|x xs IH]; intros v l g R HL.
    - cbn [push_all]. rewrite app_nil_r. apply vpost_refl; assumption.
    - cbn [push_all]. destruct (emplace_back_ok x v l g R HL) as (v1 & g1 & E1 & R1 & B1 & F1).
      rewrite (bind_ok _ _ _ _ _ E1).
      assert (HL1 : own_live g1 v1) by (intros id Hid; apply (fr_new _ _ _ _ F1); exact Hid).
      specialize (IH v1 (l ++ [x]) g1 R1 HL1). rewrite <- app_assoc in IH. cbn [app] in IH.
      eapply vpost_trans; [|exact IH].
      exists v1, g1. split; [reflexivity|]. split; [exact R1|]. split; [exact B1|exact F1].
  Qed.

  Lemma ensure_vpost n v l g : vec_rep v l -> own_live g v ->
    exists v1 g1, ensureCapacity alloc N szT n v g = Ok (v1, g1) /\ vpost v l g l (Ok (v1, g1)).
  Proof.
    intros R HL. destruct (ensureCapacity_ok n v l g R HL) as (v1 & g1 & E & R1 & _ & B & F).
    exists v1, g1. split; [exact E|]. exists v1, g1. split; [reflexivity|]. split; [exact R1|]. split; [lia|exact F].
  Qed.

  Lemma copy_into_ok src ls dst ld g : vec_rep src ls -> vec_rep dst ld -> own_live g dst ->
    vpost dst ld g (ld ++ ls) (copy_into alloc N szT src dst g).
  Proof.
    intros Rs Rd HL. destruct (data_rep _ _ Rs) as (_ & Ss & _ & _).
    unfold copy_into. destruct (ensure_vpost (vsize src) dst ld g Rd HL) as (d1 & g1 & E1 & P1).
    rewrite (bind_ok _ _ _ _ _ E1). eapply vpost_trans; [exact P1|].
    destruct P1 as (d1' & g1' & E' & R1 & _ & F1). inversion E'; subst d1' g1'.
    assert (HL1 : own_live g1 d1) by (intros id Hid; apply (fr_new _ _ _ _ F1); exact Hid).
    pose proof (copy_loop_ok src ls Rs (vsize src) 0%nat d1 ld g1 R1 HL1 ltac:(lia)) as P.
    rewrite Ss in P at 1. cbn [skipn] in P. rewrite firstn_all in P. exact P.
  Qed.

  Lemma il_into_ok xs dst ld g : vec_rep dst ld -> own_live g dst ->
    vpost dst ld g (ld ++ xs) (il_into alloc N szT xs dst g).
  Proof.
    intros Rd HL. unfold il_into. destruct (ensure_vpost (length xs) dst ld g Rd HL) as (d1 & g1 & E1 & P1).
    rewrite (bind_ok _ _ _ _ _ E1). eapply vpost_trans; [exact P1|].
    destruct P1 as (d1' & g1' & E' & R1 & _ & F1). inversion E'; subst d1' g1'.
    assert (HL1 : own_live g1 d1) by (intros id Hid; apply (fr_new _ _ _ _ F1); exact Hid).
    apply push_all_ok; assumption.
  Qed.

  (* ---------------------------------------------------------------- move *)
  Lemma move_into_ok src ls g : vec_rep src ls ->
    exists d' s' a, move_into src (ivec []) g = Ok ((d', s'), gadd g a a) /\ vec_rep d' ls /\ vec_rep s' [] /\
      own d' = own src /\ own s' = None.
  Proof.
    intros [l0 H|l0 id cap H H']; unfold move_into; simpl (heapb _); cbn [negb]; cbn iota.
    - simpl (vsize _). rewrite ivec_nil. simpl (inl _).
      pose proof (move_loop_spec l0 [] (repeat Raw (N - length l0)) (repeat Raw (N - length l0)) g) as ML.
      cbn [length map app repeat plus] in ML. rewrite !repeat_raw_app in ML.
      replace (length l0 + (N - length l0))%nat with N in ML by lia.
      rewrite (bind_ok _ _ _ _ _ ML). cbn [fst snd]. unfold ret.
      eexists _, _, _. split; [reflexivity|].
      rewrite <- ivec_nil. split; [apply (rep_inl l0 H)|]. split; [apply rep_nil|]. split; reflexivity.
    - unfold ret. exists (hvec l0 id cap), (ivec []), 0. rewrite gadd_0, !ivec_nil. split; [reflexivity|].
      split; [apply rep_heap; assumption|]. split; [rewrite <- ivec_nil; apply rep_nil|]. split; reflexivity.
  Qed.

  (* ---------------------------------------------------------------- the state invariant *)
  Definition oown (ov : option vec) : option nat := match ov with Some v => own v | None => None end.
  Definition slot_rep (ov : option vec) (ol : option (list Z)) : Prop :=
    match ov, ol with Some v, Some l => vec_rep v l | None, None => True | _, _ => False end.
  Definition olen (ol : option (list Z)) : Z := match ol with Some l => Z.of_nat (length l) | None => 0 end.
  Fixpoint total (sp : sspec) : Z := match sp with [] => 0 | o :: r => olen o + total r end.

  Record Inv (s : slots) (g : ledger) (sp : sspec) : Prop := mkInv {
    inv_rep : Forall2 slot_rep s sp;
    inv_live : forall k v id, nth_error s k = Some (Some v) -> own v = Some id -> is_live g id = true;
    inv_inj : forall k k' v v' id, nth_error s k = Some (Some v) -> nth_error s k' = Some (Some v') ->
                own v = Some id -> own v' = Some id -> k = k';
    inv_owned : forall id, is_live g id = true -> exists k v, nth_error s k = Some (Some v) /\ own v = Some id;
    inv_bal : bal g = total sp;
    inv_bases : bases_ok g }.

  Lemma F2_nth {A B} (R : A -> B -> Prop) s sp k a : Forall2 R s sp -> nth_error s k = Some a ->
    exists b, nth_error sp k = Some b /\ R a b.
  Proof.
    intros F; revert k; induction F as [|x y s sp Hxy F IH]; intros [|k] H; simpl in *; try discriminate.
    - inversion H; subst. eauto.
    - apply IH; exact H.
  Qed.
  Lemma F2_nth_r {A B} (R : A -> B -> Prop) s sp k b : Forall2 R s sp -> nth_error sp k = Some b ->
    exists a, nth_error s k = Some a /\ R a b.
  Proof.
    intros F; revert k; induction F as [|x y s sp Hxy F IH]; intros [|k] H; simpl in *; try discriminate.
    - inversion H; subst. eauto.
    - apply IH; exact H.
  Qed.
  Lemma F2_upd {A B} (R : A -> B -> Prop) s sp k a b : Forall2 R s sp -> R a b -> Forall2 R (upd s k a) (upd sp k b).
  Proof.
    intros F; revert k; induction F as [|x y s sp Hxy F IH]; intros [|k] H; simpl; constructor; auto.
  Qed.

  Lemma total_upd sp k ol ol' : nth_error sp k = Some ol -> total (upd sp k ol') = total sp - olen ol + olen ol'.
  Proof.
    revert k; induction sp as [|o sp IH]; intros [|k] H; simpl in *; try discriminate.
    - inversion H; subst. lia.
    - rewrite (IH k H). lia.
  Qed.

  Lemma upd_same {A} (l : list A) k x : nth_error l k = Some x -> upd l k x = l.
  Proof. revert k; induction l as [|y l IH]; intros [|k] H; simpl in *; try discriminate. - inversion H; reflexivity. - f_equal; auto. Qed.

  Lemma nth_upd {A} (l : list A) k j x y : nth_error (upd l k x) j = Some y ->
    (j = k /\ y = x) \/ (j <> k /\ nth_error l j = Some y).
  Proof.
    intros H. destruct (Nat.eq_dec j k) as [->|Hne].
    - left. split; [reflexivity|]. destruct (Nat.lt_ge_cases k (length l)) as [Hlt|Hge].
      + rewrite nth_error_upd_eq in H by exact Hlt. congruence.
      + rewrite upd_oob in H by exact Hge. apply nth_error_None in Hge. congruence.
    - right. split; [exact Hne|]. rewrite nth_error_upd_neq in H by congruence. exact H.
  Qed.

  Lemma nth_upd_eq {A} (l : list A) k x y : nth_error l k = Some y -> nth_error (upd l k x) k = Some x.
  Proof. intros H. apply nth_error_upd_eq. apply nth_error_Some. congruence. Qed.

  Lemma oown_some ov id : oown ov = Some id -> exists v, ov = Some v /\ own v = Some id.
  Proof. destruct ov as [v|]; simpl; [eauto|discriminate]. Qed.

  Lemma Inv_upd1 s g sp k ov ol ov' ol' g' :
    Inv s g sp -> nth_error s k = Some ov -> nth_error sp k = Some ol ->
    slot_rep ov' ol' -> frame g g' (oown ov) (oown ov') -> bal g' = bal g + olen ol' - olen ol ->
    Inv (upd s k ov') g' (upd sp k ol').
  Proof.
    intros [IR IL II IO IB IBa] Hs Hsp SR [F1 F2 F3 F4 F5] HB.
    (* a block owned by another slot is neither the old nor the new block of slot k *)
    assert (OTHER : forall j v id, j <> k -> nth_error s j = Some (Some v) -> own v = Some id ->
                      Some id <> oown ov /\ Some id <> oown ov').
    { intros j v id Hj Hv Hid. assert (N1 : Some id <> oown ov).
      { intros E. symmetry in E. destruct (oown_some _ _ E) as (v0 & -> & Hv0). apply Hj. eapply II; eauto. }
      split; [exact N1|]. intros E. symmetry in E. pose proof (F4 id E ltac:(congruence)) as D.
      rewrite (IL j v id Hv Hid) in D. discriminate. }
    constructor.
    - apply F2_upd; assumption.
    - intros j v id Hj Hid. destruct (nth_upd _ _ _ _ _ Hj) as [[-> E]|[Hne Hj']].
      + apply F2. rewrite <- E. exact Hid.
      + destruct (OTHER j v id Hne Hj' Hid) as [N1 N2]. rewrite F1 by assumption. eapply IL; eauto.
    - intros j j' v v' id Hj Hj' Hid Hid'.
      destruct (nth_upd _ _ _ _ _ Hj) as [[-> E]|[Hne Hj1]]; destruct (nth_upd _ _ _ _ _ Hj') as [[-> E']|[Hne' Hj1']].
      + reflexivity.
      + exfalso. destruct (OTHER j' v' id Hne' Hj1' Hid') as [_ N2]. apply N2. rewrite <- E. simpl. congruence.
      + exfalso. destruct (OTHER j v id Hne Hj1 Hid) as [_ N2]. apply N2. rewrite <- E'. simpl. congruence.
      + eapply II; eauto.
    - intros id HLv. destruct (oeq_dec (Some id) (oown ov')) as [E|E].
      + symmetry in E. destruct (oown_some _ _ E) as (v & -> & Hv). exists k, v. split; [eapply nth_upd_eq; eauto|exact Hv].
      + destruct (oeq_dec (Some id) (oown ov)) as [E0|E0].
        * rewrite (F3 id (eq_sym E0) ltac:(congruence)) in HLv. discriminate.
        * rewrite F1 in HLv by assumption. destruct (IO id HLv) as (j & v & Hj & Hv).
          assert (j <> k). { intros ->. rewrite Hs in Hj. inversion Hj; subst ov. simpl in E0. congruence. }
          exists j, v. split; [rewrite nth_error_upd_neq by congruence; exact Hj|exact Hv].
    - rewrite (total_upd _ _ _ _ Hsp). lia.
    - auto.
  Qed.

  Lemma Inv_move s g sp k j ovk olk vj lj vk' vj' g' :
    Inv s g sp -> k <> j -> nth_error s k = Some ovk -> nth_error sp k = Some olk ->
    nth_error s j = Some (Some vj) -> nth_error sp j = Some (Some lj) ->
    vec_rep vk' lj -> vec_rep vj' [] -> own vk' = own vj -> own vj' = None ->
    frame g g' (oown ovk) None -> bal g' = bal g - olen olk ->
    Inv (upd (upd s k (Some vk')) j (Some vj')) g' (upd (upd sp k (Some lj)) j (Some [])).
  Proof.
    intros [IR IL II IO IB IBa] Hkj Hsk Hspk Hsj Hspj Rk Rj Ok Oj [F1 F2 F3 F4 F5] HB.
    assert (NOTOLD : forall i v id, i <> k -> nth_error s i = Some (Some v) -> own v = Some id -> Some id <> oown ovk).
    { intros i v id Hi Hv Hid E. symmetry in E. destruct (oown_some _ _ E) as (v0 & -> & Hv0). apply Hi. eapply II; eauto. }
    (* the three kinds of slots of the new state *)
    assert (CASES : forall i v, nth_error (upd (upd s k (Some vk')) j (Some vj')) i = Some (Some v) ->
              (i = j /\ v = vj') \/ (i = k /\ v = vk') \/ (i <> j /\ i <> k /\ nth_error s i = Some (Some v))).
    { intros i v H. destruct (nth_upd _ _ _ _ _ H) as [[-> E]|[Hne H1]].
      - left. split; congruence.
      - destruct (nth_upd _ _ _ _ _ H1) as [[-> E]|[Hne' H2]].
        + right; left. split; congruence.
        + right; right. auto. }
    constructor.
    - apply F2_upd; [apply F2_upd; assumption|exact Rj].
    - intros i v id Hi Hid. destruct (CASES i v Hi) as [[-> ->]|[[-> ->]|(N1 & N2 & Hv)]].
      + congruence.
      + rewrite Ok in Hid. rewrite F1; [eapply IL; eauto| |discriminate]. eapply (NOTOLD j); eauto.
      + rewrite F1; [eapply IL; eauto| |discriminate]. eapply (NOTOLD i); eauto.
    - intros i i' v v' id Hi Hi' Hid Hid'.
      destruct (CASES i v Hi) as [[-> ->]|[[-> ->]|(N1 & N2 & Hv)]]; [congruence| |];
        destruct (CASES i' v' Hi') as [[-> ->]|[[-> ->]|(N1' & N2' & Hv')]]; try congruence.
      + exfalso. rewrite Ok in Hid. apply N1'. eapply II; eauto.
      + exfalso. rewrite Ok in Hid'. apply N1. eapply II; eauto.
      + eapply II; eauto.
    - intros id HLv. destruct (oeq_dec (Some id) (oown ovk)) as [E0|E0].
      + rewrite (F3 id (eq_sym E0) ltac:(discriminate)) in HLv. discriminate.
      + rewrite F1 in HLv by (assumption || discriminate). destruct (IO id HLv) as (i & v & Hi & Hv).
        destruct (Nat.eq_dec i j) as [->|Nj].
        * exists k, vk'. split.
          -- rewrite nth_error_upd_neq by congruence. eapply nth_upd_eq; eauto.
          -- rewrite Ok. rewrite Hsj in Hi. inversion Hi; subst v. exact Hv.
        * assert (i <> k). { intros ->. rewrite Hsk in Hi. inversion Hi; subst ovk. simpl in E0. congruence. }
          exists i, v. split; [|exact Hv]. rewrite !nth_error_upd_neq by congruence. exact Hi.
    - rewrite (total_upd _ j (Some lj)) by (rewrite nth_error_upd_neq by exact Hkj; exact Hspj).
      rewrite (total_upd _ _ _ _ Hspk). simpl olen. lia.
    - auto.
  Qed.

  Lemma Inv_gadd s g sp a : Inv s g sp -> Inv s (gadd g a a) sp.
  Proof. intros [IR IL II IO IB IBa]. constructor; auto. rewrite bal_gadd. lia. Qed.

  Lemma free_slot s g sp k : Inv s g sp -> sfree sp k = true ->
    nth_error s k = Some None /\ nth_error sp k = Some None /\ get_free s k g = Ok (tt, g).
  Proof.
    intros I H. unfold sfree in H. destruct (nth_error sp k) as [[l|]|] eqn:E; try discriminate.
    destruct (F2_nth_r _ _ _ _ _ (inv_rep _ _ _ I) E) as ([v|] & Hs & R); [destruct R|].
    split; [exact Hs|]. split; [reflexivity|]. unfold get_free. rewrite Hs. reflexivity.
  Qed.

  Lemma obj_slot s g sp k l : Inv s g sp -> sget sp k = Some l ->
    exists v, nth_error s k = Some (Some v) /\ nth_error sp k = Some (Some l) /\ vec_rep v l /\ own_live g v /\
      get_obj s k g = Ok (v, g).
  Proof.
    intros I H. unfold sget in H. destruct (nth_error sp k) as [[l0|]|] eqn:E; try discriminate. inversion H; subst l0.
    destruct (F2_nth_r _ _ _ _ _ (inv_rep _ _ _ I) E) as ([v|] & Hs & R); [|destruct R].
    exists v. split; [exact Hs|]. split; [reflexivity|]. split; [exact R|]. split.
    - intros id Hid. eapply (inv_live _ _ _ I); eauto.
    - unfold get_obj. rewrite Hs. reflexivity.
  Qed.

  Lemma Inv_vpost s g sp k v l l' r : Inv s g sp -> nth_error s k = Some (Some v) -> nth_error sp k = Some (Some l) ->
    vpost v l g l' r -> exists v' g', r = Ok (v', g') /\ Inv (upd s k (Some v')) g' (upd sp k (Some l')).
  Proof.
    intros I Hs Hsp (v' & g' & E & R & B & F). exists v', g'. split; [exact E|].
    eapply Inv_upd1; eauto; simpl; lia.
  Qed.

  Lemma Inv_vpost_new s g sp k l' r : Inv s g sp -> nth_error s k = Some None -> nth_error sp k = Some None ->
    vpost (ivec []) [] g l' r -> exists v' g', r = Ok (v', g') /\ Inv (upd s k (Some v')) g' (upd sp k (Some l')).
  Proof.
    intros I Hs Hsp (v' & g' & E & R & B & F). exists v', g'. split; [exact E|].
    eapply Inv_upd1; eauto; simpl in *; lia.
  Qed.

  Lemma live_nil g : own_live g (ivec []).
  Proof. intros id H. discriminate. Qed.

  Lemma vpost_same v l g v' l' a b : vec_rep v' l' -> own v' = own v -> own_live g v ->
    a - b = Z.of_nat (length l') - Z.of_nat (length l) -> vpost v l g l' (Ok (v', gadd g a b)).
  Proof.
    intros R O HL H. exists v', (gadd g a b). split; [reflexivity|]. split; [exact R|]. split.
    - rewrite bal_gadd. lia.
    - rewrite O. apply frame_gadd, frame_same. exact HL.
  Qed.

  Lemma spec_resize_nil n x : spec_resize n x [] = repeat x n.
  Proof. unfold spec_resize. rewrite firstn_nil. cbn [length app]. rewrite Nat.sub_0_r. reflexivity. Qed.

  Lemma client_tmp_ok n g : client_tmp n g = Ok (tt, gadd g n n).
  Proof. reflexivity. Qed.

  Lemma vpost_gadd_l v l g a l' r : vpost v l (gadd g a a) l' r -> vpost v l g l' r.
  Proof.
    intros (v' & g' & E & R & B & F). exists v', g'. split; [exact E|]. split; [exact R|]. split.
    - rewrite bal_gadd in B. lia.
    - eapply frame_gadd_l. exact F.
  Qed.

  Lemma resize_val_ok n x v l g : vec_rep v l -> own_live g v ->
    vpost v l g (spec_resize n x l) (resize_val alloc N szT n x v g).
  Proof.
    intros R HL. unfold resize_val. destruct (Nat.ltb_spec (capacity N v) n) as [Hg|Hg].
    - rewrite (bind_ok _ _ _ _ _ (client_tmp_ok 1 g)). apply (vpost_gadd_l _ _ _ 1).
      destruct (ensure_vpost n v l (gadd g 1 1) R HL) as (v1 & g1 & E & P). rewrite (bind_ok _ _ _ _ _ E).
      eapply vpost_trans; [exact P|]. destruct P as (v1' & g1' & E' & R1 & _ & F1). inversion E'; subst v1' g1'.
      apply resize_ok; [exact R1|]. intros id Hid. apply (fr_new _ _ _ _ F1). exact Hid.
    - apply resize_ok; assumption.
  Qed.

  Lemma step_ok o s g sp sp' : Inv s g sp -> spec_step o sp = Some sp' ->
    exists s' g', step alloc N szT o s g = Ok (s', g') /\ Inv s' g' sp'.
  Proof.
    intros I Hsp. destruct o; cbn [step spec_step] in *.
    - (* OCtor *)
      destruct (sfree sp k) eqn:Ef; [|discriminate]. inversion Hsp; subst sp'.
      destruct (free_slot _ g _ _ I Ef) as (Hs & Hp & Eg). rewrite (bind_ok _ _ _ _ _ Eg). unfold ret.
      destruct (Inv_vpost_new _ _ _ k [] _ I Hs Hp (vpost_refl _ _ g rep_nil (live_nil g))) as (v' & g' & E & I').
      inversion E; subst v' g'. rewrite empty_vec_ivec. eauto.
    - (* OCtorN *)
      destruct (sfree sp k) eqn:Ef; [|discriminate]. inversion Hsp; subst sp'.
      destruct (free_slot _ g _ _ I Ef) as (Hs & Hp & Eg). rewrite (bind_ok _ _ _ _ _ Eg).
      rewrite empty_vec_ivec.
      destruct (Inv_vpost_new _ _ _ k _ _ I Hs Hp (resize_ok n dflt _ _ g rep_nil (live_nil g))) as (v' & g' & E & I').
      rewrite (bind_ok _ _ _ _ _ E). unfold ret. rewrite spec_resize_nil in I'. eauto.
    - (* OCtorNV *)
      destruct (sfree sp k) eqn:Ef; [|discriminate]. inversion Hsp; subst sp'.
      destruct (free_slot _ g _ _ I Ef) as (Hs & Hp & Eg). rewrite (bind_ok _ _ _ _ _ Eg).
      rewrite (bind_ok _ _ _ _ _ (client_tmp_ok 1 g)). rewrite empty_vec_ivec.
      destruct (Inv_vpost_new _ _ _ k _ _ (Inv_gadd _ _ _ 1 I) Hs Hp (resize_val_ok n x _ _ _ rep_nil (live_nil _))) as (v' & g' & E & I').
      rewrite (bind_ok _ _ _ _ _ E). unfold ret. rewrite spec_resize_nil in I'. eauto.
    - (* OCtorIL *)
      destruct (sfree sp k) eqn:Ef; [|discriminate]. inversion Hsp; subst sp'.
      destruct (free_slot _ g _ _ I Ef) as (Hs & Hp & Eg). rewrite (bind_ok _ _ _ _ _ Eg).
      rewrite (bind_ok _ _ _ _ _ (client_tmp_ok _ g)). rewrite empty_vec_ivec.
      destruct (Inv_vpost_new _ _ _ k _ _ (Inv_gadd _ _ _ (Z.of_nat (length l)) I) Hs Hp (il_into_ok l _ _ _ rep_nil (live_nil _))) as (v' & g' & E & I').
      rewrite (bind_ok _ _ _ _ _ E). unfold ret. cbn [app] in I'. eauto.
    - (* OCtorCopy *)
      destruct (sfree sp k) eqn:Ef; [|discriminate]. destruct (sget sp j) as [ls|] eqn:Ej; [|discriminate]. inversion Hsp; subst sp'.
      destruct (free_slot _ g _ _ I Ef) as (Hs & Hp & Eg). rewrite (bind_ok _ _ _ _ _ Eg).
      destruct (obj_slot _ g _ _ _ I Ej) as (src & Hsj & Hpj & Rs & _ & Egj). rewrite (bind_ok _ _ _ _ _ Egj).
      rewrite empty_vec_ivec.
      destruct (Inv_vpost_new _ _ _ k _ _ I Hs Hp (copy_into_ok src ls _ _ g Rs rep_nil (live_nil _))) as (v' & g' & E & I').
      rewrite (bind_ok _ _ _ _ _ E). unfold ret. cbn [app] in I'. eauto.
    - (* OCtorMove *)
      destruct (sfree sp k) eqn:Ef; [|discriminate]. destruct (sget sp j) as [ls|] eqn:Ej; [|discriminate]. inversion Hsp; subst sp'.
      destruct (free_slot _ g _ _ I Ef) as (Hs & Hp & Eg). rewrite (bind_ok _ _ _ _ _ Eg).
      destruct (obj_slot _ g _ _ _ I Ej) as (src & Hsj & Hpj & Rs & _ & Egj). rewrite (bind_ok _ _ _ _ _ Egj).
      rewrite empty_vec_ivec.
      destruct (move_into_ok src ls g Rs) as (d' & s' & a & E & Rd & Rs' & Od & Os).
      rewrite (bind_ok _ _ _ _ _ E). unfold ret. cbn [fst snd].
      assert (Hkj : k <> j) by (intros ->; congruence).
      eexists _, _. split; [reflexivity|].
      eapply (Inv_move s g sp k j None None); eauto.
      + apply frame_gadd, frame_refl. discriminate.
      + rewrite bal_gadd. simpl. lia.
    - (* ODtor *)
      destruct (sget sp k) as [l|] eqn:Ek; [|discriminate]. inversion Hsp; subst sp'.
      destruct (obj_slot _ g _ _ _ I Ek) as (v & Hs & Hp & R & HL & Eg). rewrite (bind_ok _ _ _ _ _ Eg).
      destruct (destroyAll_ok v l g R HL) as (v1 & g1 & E & _ & AR & B & F).
      assert (Ed : dtor v g = Ok (tt, g1)) by (unfold dtor; rewrite (bind_ok _ _ _ _ _ E), AR; reflexivity).
      rewrite (bind_ok _ _ _ _ _ Ed). unfold ret.
      eexists _, _. split; [reflexivity|].
      eapply (Inv_upd1 s g sp k (Some v) (Some l) None None); eauto; simpl; try exact Logic.I; lia.
    - (* OAssignCopy *)
      destruct (sget sp k) as [ld|] eqn:Ek; [|discriminate]. destruct (sget sp j) as [ls|] eqn:Ej; [|discriminate].
      destruct (obj_slot _ g _ _ _ I Ek) as (dst & Hs & Hp & Rd & HL & Eg). rewrite (bind_ok _ _ _ _ _ Eg).
      destruct (obj_slot _ g _ _ _ I Ej) as (src & Hsj & Hpj & Rs & _ & Egj). rewrite (bind_ok _ _ _ _ _ Egj).
      destruct (k =? j)%nat; inversion Hsp; subst sp'; [unfold ret; eauto|].
      destruct (destroyAll_ok dst ld g Rd HL) as (d0 & g1 & E & TI & _ & B & F). rewrite (bind_ok _ _ _ _ _ E). rewrite TI.
      destruct (copy_into_ok src ls _ _ g1 Rs rep_nil (live_nil _)) as (v' & g' & E2 & R2 & B2 & F2).
      rewrite (bind_ok _ _ _ _ _ E2). unfold ret. eexists _, _. split; [reflexivity|].
      eapply (Inv_upd1 s g sp k (Some dst) (Some ld) (Some v') (Some ls)); eauto.
      + eapply frame_trans; [exact F|exact F2].
      + cbn [app length] in B2. simpl. lia.
    - (* OAssignMove *)
      destruct (sget sp k) as [ld|] eqn:Ek; [|discriminate]. destruct (sget sp j) as [ls|] eqn:Ej; [|discriminate].
      destruct (obj_slot _ g _ _ _ I Ek) as (dst & Hs & Hp & Rd & HL & Eg). rewrite (bind_ok _ _ _ _ _ Eg).
      destruct (obj_slot _ g _ _ _ I Ej) as (src & Hsj & Hpj & Rs & _ & Egj). rewrite (bind_ok _ _ _ _ _ Egj).
      destruct (Nat.eqb_spec k j) as [Hkj|Hkj]; inversion Hsp; subst sp'; [unfold ret; eauto|].
      destruct (destroyAll_ok dst ld g Rd HL) as (d0 & g1 & E & TI & _ & B & F). rewrite (bind_ok _ _ _ _ _ E). rewrite TI.
      destruct (move_into_ok src ls g1 Rs) as (d' & s' & a & E2 & Rd' & Rs' & Od & Os).
      rewrite (bind_ok _ _ _ _ _ E2). unfold ret. cbn [fst snd]. eexists _, _. split; [reflexivity|].
      eapply (Inv_move s g sp k j (Some dst) (Some ld)); eauto.
      + apply frame_gadd. exact F.
      + rewrite bal_gadd. simpl. lia.
    - (* OPush *)
      destruct (sget sp k) as [l|] eqn:Ek; [|discriminate]. inversion Hsp; subst sp'.
      destruct (obj_slot _ g _ _ _ I Ek) as (v & Hs & Hp & R & HL & Eg). rewrite (bind_ok _ _ _ _ _ Eg).
      rewrite (bind_ok _ _ _ _ _ (client_tmp_ok _ g)).
      destruct (Inv_vpost _ _ _ k v l _ _ (Inv_gadd _ _ _ (match mode with O => 0 | _ => 1 end) I) Hs Hp (emplace_back_ok x v l (gadd g (match mode with O => 0 | _ => 1 end) (match mode with O => 0 | _ => 1 end)) R HL)) as (v' & g' & E & I').
      rewrite (bind_ok _ _ _ _ _ E). unfold ret. eauto.
    - (* OPop *)
      destruct (sget sp k) as [l|] eqn:Ek; [|discriminate]. destruct l as [|y l]; [discriminate|]. inversion Hsp; subst sp'.
      destruct (obj_slot _ g _ _ _ I Ek) as (v & Hs & Hp & R & HL & Eg). rewrite (bind_ok _ _ _ _ _ Eg).
      assert (El : y :: l = removelast (y :: l) ++ [last (y :: l) 0]) by (apply app_removelast_last; discriminate).
      rewrite El in R. destruct (pop_back_ok v _ _ g R) as (v' & E & R' & O').
      rewrite (bind_ok _ _ _ _ _ E). unfold ret.
      assert (P : vpost v (y :: l) g (removelast (y :: l)) (Ok (v', gadd g 0 1))).
      { apply vpost_same; auto. rewrite El at 2. rewrite app_length. cbn [length]. lia. }
      destruct (Inv_vpost _ _ _ k v _ _ _ I Hs Hp P) as (v2 & g2 & E2 & I2). inversion E2; subst v2 g2. eauto.
    - (* OResize *)
      destruct (sget sp k) as [l|] eqn:Ek; [|discriminate]. inversion Hsp; subst sp'.
      destruct (obj_slot _ g _ _ _ I Ek) as (v & Hs & Hp & R & HL & Eg). rewrite (bind_ok _ _ _ _ _ Eg).
      destruct (Inv_vpost _ _ _ k v l _ _ I Hs Hp (resize_ok n dflt v l g R HL)) as (v' & g' & E & I').
      rewrite (bind_ok _ _ _ _ _ E). unfold ret. eauto.
    - (* OResizeV *)
      destruct (sget sp k) as [l|] eqn:Ek; [|discriminate]. inversion Hsp; subst sp'.
      destruct (obj_slot _ g _ _ _ I Ek) as (v & Hs & Hp & R & HL & Eg). rewrite (bind_ok _ _ _ _ _ Eg).
      rewrite (bind_ok _ _ _ _ _ (client_tmp_ok _ g)).
      destruct (Inv_vpost _ _ _ k v l _ _ (Inv_gadd _ _ _ 1 I) Hs Hp (resize_val_ok n x v l (gadd g 1 1) R HL)) as (v' & g' & E & I').
      rewrite (bind_ok _ _ _ _ _ E). unfold ret. eauto.
    - (* OReserve *)
      destruct (sget sp k) as [l|] eqn:Ek; [|discriminate]. inversion Hsp; subst sp'.
      destruct (obj_slot _ g _ _ _ I Ek) as (v & Hs & Hp & R & HL & Eg). rewrite (bind_ok _ _ _ _ _ Eg).
      destruct (ensure_vpost n v l g R HL) as (v1 & g1 & E & P). rewrite (bind_ok _ _ _ _ _ E). unfold ret.
      destruct (Inv_vpost _ _ _ k v l _ _ I Hs Hp P) as (v2 & g2 & E2 & I2). inversion E2; subst v2 g2.
      rewrite (upd_same _ _ _ Hp) in I2. eauto.
    - (* OClear *)
      destruct (sget sp k) as [l|] eqn:Ek; [|discriminate]. inversion Hsp; subst sp'.
      destruct (obj_slot _ g _ _ _ I Ek) as (v & Hs & Hp & R & HL & Eg). rewrite (bind_ok _ _ _ _ _ Eg).
      destruct (destroyAll_ok v l g R HL) as (v1 & g1 & E & TI & _ & B & F).
      assert (Ec : clear v g = Ok (ivec [], g1)) by (unfold clear; rewrite (bind_ok _ _ _ _ _ E), TI; reflexivity).
      rewrite (bind_ok _ _ _ _ _ Ec). unfold ret.
      eexists _, _. split; [reflexivity|].
      eapply (Inv_upd1 s g sp k (Some v) (Some l) (Some (ivec [])) (Some [])); eauto; simpl; try apply rep_nil; lia.
    - (* OErase *)
      destruct (sget sp k) as [l|] eqn:Ek; [|discriminate]. destruct (Nat.ltb_spec i (length l)) as [Hi|]; [|discriminate].
      inversion Hsp; subst sp'.
      destruct (obj_slot _ g _ _ _ I Ek) as (v & Hs & Hp & R & HL & Eg). rewrite (bind_ok _ _ _ _ _ Eg).
      destruct (erase_ok i v l g R Hi) as (v' & E & R' & O'). rewrite (bind_ok _ _ _ _ _ E). unfold ret.
      assert (P : vpost v l g (spec_erase i l) (Ok (v', gadd g 0 1))).
      { apply vpost_same; auto. unfold spec_erase. rewrite app_length, firstn_length, skipn_length. lia. }
      destruct (Inv_vpost _ _ _ k v _ _ _ I Hs Hp P) as (v2 & g2 & E2 & I2). inversion E2; subst v2 g2. eauto.
    - (* OPushSelf *)
      destruct (sget sp k) as [l|] eqn:Ek; [|discriminate]. destruct (nth_error l i) as [x|] eqn:Ex; [|discriminate].
      inversion Hsp; subst sp'.
      destruct (obj_slot _ g _ _ _ I Ek) as (v & Hs & Hp & R & HL & Eg). rewrite (bind_ok _ _ _ _ _ Eg).
      destruct (Inv_vpost _ _ _ k v l _ _ I Hs Hp (push_self_ok i x v l g R HL Ex)) as (v' & g' & E & I').
      rewrite (bind_ok _ _ _ _ _ E). unfold ret. eauto.
    - (* OResizeSelf *)
      destruct (sget sp k) as [l|] eqn:Ek; [|discriminate]. destruct (nth_error l i) as [x|] eqn:Ex; [|discriminate].
      inversion Hsp; subst sp'.
      destruct (obj_slot _ g _ _ _ I Ek) as (v & Hs & Hp & R & HL & Eg). rewrite (bind_ok _ _ _ _ _ Eg).
      destruct (data_rep _ _ R) as (D & _). rewrite D. rewrite (bind_ok _ _ _ _ _ (readv_alive l _ i x g Ex)).
      destruct (Inv_vpost _ _ _ k v l _ _ I Hs Hp (resize_val_ok n x v l g R HL)) as (v' & g' & E & I').
      rewrite (bind_ok _ _ _ _ _ E). unfold ret. eauto.
  Qed.

  (* ---------------------------------------------------------------- whole histories *)
  Lemma run_ok : forall ops s g sp sp', Inv s g sp -> spec_run ops sp = Some sp' ->
    exists s' g', run alloc N szT ops s g = Ok (s', g') /\ Inv s' g' sp'.
  Proof.
    induction ops as [|o ops IH]; intros s g sp sp' I Hsp.
    - cbn in *. inversion Hsp; subst. unfold ret. eauto.
    - cbn [spec_run] in Hsp. destruct (spec_step o sp) as [sp1|] eqn:E1; [|discriminate].
      destruct (step_ok o s g sp sp1 I E1) as (s1 & g1 & Es & I1).
      cbn [run]. rewrite (bind_ok _ _ _ _ _ Es). eapply IH; eauto.
  Qed.

  Lemma total_none K : total (repeat None K) = 0.
  Proof. induction K; simpl; lia. Qed.

  Lemma Inv_init K : Inv (init_slots K) led0 (spec_init K).
  Proof.
    unfold init_slots, spec_init. constructor.
    - induction K; simpl; constructor; simpl; auto.
    - intros k v id H. apply nth_error_In, repeat_spec in H. discriminate.
    - intros k k' v v' id H. apply nth_error_In, repeat_spec in H. discriminate.
    - intros id H. unfold is_live, led0 in H. simpl in H. destruct id; discriminate.
    - rewrite total_none. reflexivity.
    - intros id b H. simpl in H. destruct id; discriminate.
  Qed.

  Definition slot_matches (ov : option vec) (ol : option (list Z)) : Prop :=
    match ov, ol with
    | Some v, Some l => vsize v = length l /\ firstn (vsize v) (data v) = map Alive l
    | None, None => True
    | _, _ => False
    end.

  Lemma rep_matches ov ol : slot_rep ov ol -> slot_matches ov ol.
  Proof.
    destruct ov as [v|], ol as [l|]; simpl; auto. intros R. destruct (data_rep _ _ R) as (D & S & _ & _).
    split; [exact S|]. rewrite D, S. apply firstn_map_app.
  Qed.

  Lemma Inv_matches s g sp : Inv s g sp -> Forall2 slot_matches s sp.
  Proof. intros I. pose proof (inv_rep _ _ _ I) as F. clear I. induction F; constructor; auto using rep_matches. Qed.

  Lemma Inv_clean s g sp : Inv s g sp -> Forall (eq None) sp ->
    nctor g = ndtor g /\ Forall (fun b => b_live b = false) (blocks g) /\ Forall (eq None) s.
  Proof.
    intros I Hn.
    assert (T : total sp = 0). { clear I. induction Hn as [|o r Ho _ IH]; simpl; [reflexivity|]. subst o. simpl. exact IH. }
    assert (SN : Forall (eq None) s).
    { pose proof (inv_rep _ _ _ I) as F. clear - F Hn. induction F as [|x y s sp Hxy F IH]; constructor.
      - inversion Hn; subst. destruct x; [destruct Hxy|reflexivity].
      - apply IH. inversion Hn; assumption. }
    split; [|split; [|exact SN]].
    - pose proof (inv_bal _ _ _ I) as B. unfold bal in B. lia.
    - apply Forall_forall. intros b Hb. destruct (In_nth_error _ _ Hb) as (id & Hid).
      destruct (b_live b) eqn:Lb; [|reflexivity]. exfalso.
      assert (L : is_live g id = true) by (unfold is_live; rewrite Hid; exact Lb).
      destruct (inv_owned _ _ _ I id L) as (k & v & Hk & _).
      rewrite Forall_forall in SN. specialize (SN _ (nth_error_In _ _ Hk)). discriminate.
  Qed.

  Lemma Inv_heap_aligned A al s g sp : Inv s g sp -> (forall c n, (A | alloc c n)) -> (al | A) -> (al | szT) ->
    forall k v i, nth_error s k = Some (Some v) -> heapb v = true -> (al | elem_addr szT (data_addr al 0 g v) i).
  Proof.
    intros I HA Hal Hsz k v i Hk Hh. unfold elem_addr, data_addr. rewrite Hh.
    assert (O : own v = Some (hblk v)) by (unfold own; rewrite Hh; reflexivity).
    pose proof (inv_live _ _ _ I k v _ Hk O) as L. unfold is_live in L.
    destruct (nth_error (blocks g) (hblk v)) as [b|] eqn:Eb; [|discriminate].
    rewrite (inv_bases _ _ _ I _ _ Eb).
    apply Z.divide_add_r.
    - eapply Z.divide_trans; [exact Hal|apply HA].
    - apply Z.divide_mul_r. exact Hsz.
  Qed.
End Vec.

(* ------------------------------------------------------------------ alignment of the inline storage *)
Definition is_pow2 (al : Z) : Prop := exists e, 0 <= e /\ al = 2 ^ e.

Lemma pow2_divides_max8 al : is_pow2 al -> (al | Z.max al 8).
Proof.
  intros (e & He & ->). destruct (Z.le_gt_cases (2 ^ e) 8) as [Hle|Hgt].
  - rewrite Z.max_r by exact Hle.
    assert (e <= 3). { destruct (Z.le_gt_cases e 3); [assumption|]. exfalso.
      assert (2 ^ 4 <= 2 ^ e) by (apply Z.pow_le_mono_r; lia). change (2 ^ 4) with 16 in *. lia. }
    exists (2 ^ (3 - e)). rewrite <- Z.pow_add_r by lia. replace (3 - e + e) with 3 by lia. reflexivity.
  - rewrite Z.max_l by lia. apply Z.divide_refl.
Qed.

Lemma inline_aligned_proof : forall al szT obj g v i, is_pow2 al -> (al | szT) -> (obj_align al | obj) -> heapb v = false ->
  (al | elem_addr szT (data_addr al obj g v) i).
Proof.
  intros al szT obj g v i Hp Hsz Hobj Hh. unfold elem_addr, data_addr. rewrite Hh.
  pose proof (pow2_divides_max8 al Hp) as Hm. fold (obj_align al) in Hm.
  apply Z.divide_add_r; [apply Z.divide_add_r|].
  - eapply Z.divide_trans; eassumption.
  - unfold inl_off. eapply Z.divide_trans; [exact Hm|]. apply Z.divide_factor_r.
  - apply Z.divide_mul_r. exact Hsz.
Qed.

(* ------------------------------------------------------------------ the theorems behind Props/Properties_C38.v *)
Lemma reach_inv alloc N szT K ops sp' : (1 <= N)%nat ->
  spec_run ops (spec_init K) = Some sp' ->
  exists s g, run alloc N szT ops (init_slots K) led0 = Ok (s, g) /\ Inv alloc N s g sp'.
Proof. intros HN Hsp. eapply run_ok; [exact HN| |exact Hsp]. apply Inv_init; exact HN. Qed.

Lemma C38_refines_proof : forall alloc N szT K ops sp', (1 <= N)%nat ->
  spec_run ops (spec_init K) = Some sp' ->
  exists s g, run alloc N szT ops (init_slots K) led0 = Ok (s, g) /\ Forall2 slot_matches s sp'.
Proof.
  intros alloc N szT K ops sp' HN Hsp. destruct (reach_inv alloc N szT K ops sp' HN Hsp) as (s & g & E & I).
  exists s, g. split; [exact E|]. eapply Inv_matches; eauto.
Qed.

Lemma C38_lifetimes_proof : forall alloc N szT K ops sp', (1 <= N)%nat ->
  spec_run ops (spec_init K) = Some sp' ->
  exists s g, run alloc N szT ops (init_slots K) led0 = Ok (s, g) /\
    nctor g - ndtor g = total sp' /\
    (Forall (eq None) sp' ->
       nctor g = ndtor g /\ Forall (fun b => b_live b = false) (blocks g) /\ Forall (eq None) s).
Proof.
  intros alloc N szT K ops sp' HN Hsp. destruct (reach_inv alloc N szT K ops sp' HN Hsp) as (s & g & E & I).
  exists s, g. split; [exact E|]. split; [exact (inv_bal _ _ _ _ _ I)|]. intros Hn. eapply Inv_clean; eauto.
Qed.

Lemma pow2_le16_divides al : is_pow2 al -> al <= 16 -> (al | 16).
Proof.
  intros (e & He & ->) Ho.
  assert (e <= 4). { destruct (Z.le_gt_cases e 4); [assumption|]. exfalso.
    assert (2 ^ 5 <= 2 ^ e) by (apply Z.pow_le_mono_r; lia). change (2 ^ 5) with 32 in *. lia. }
  exists (2 ^ (4 - e)). rewrite <- Z.pow_add_r by lia. replace (4 - e + e) with 4 by lia. reflexivity.
Qed.

(* allocate() returns storage aligned for T: alignedMalloc(bytes, alignof(T)) for alignof(T) > 16, ::operator new otherwise *)
Lemma allocate_oracle_aligned onew amalloc al : is_pow2 al ->
  (forall c n, (16 | onew c n)) -> (forall c n a, is_pow2 a -> (a | amalloc c n a)) ->
  forall c n, (al | allocate_oracle onew amalloc al c n).
Proof.
  intros Hp H16 HA c n. unfold allocate_oracle. destruct (Z.ltb_spec 16 al) as [Hgt|Hle].
  - apply HA. exact Hp.
  - eapply Z.divide_trans; [apply pow2_le16_divides; assumption|apply H16].
Qed.

Lemma C38_heap_aligned_proof : forall onew amalloc al N szT K ops sp', (1 <= N)%nat ->
  (forall c n, (16 | onew c n)) -> (forall c n a, is_pow2 a -> (a | amalloc c n a)) -> is_pow2 al -> (al | szT) ->
  spec_run ops (spec_init K) = Some sp' ->
  exists s g, run (allocate_oracle onew amalloc al) N szT ops (init_slots K) led0 = Ok (s, g) /\
    forall k v i, nth_error s k = Some (Some v) -> heapb v = true -> (al | elem_addr szT (data_addr al 0 g v) i).
Proof.
  intros onew amalloc al N szT K ops sp' HN H16 HA Hp Hsz Hsp.
  destruct (reach_inv (allocate_oracle onew amalloc al) N szT K ops sp' HN Hsp) as (s & g & E & I).
  exists s, g. split; [exact E|].
  eapply Inv_heap_aligned with (A := al) (sp := sp'); eauto using allocate_oracle_aligned, Z.divide_refl.
Qed.

(* ------------------------------------------------------------------ the whole property for one history *)
Definition C38_property (alloc : nat -> Z -> Z) (al szT : Z) (N K : nat) (ops : list op) : Prop :=
  forall sp', spec_run ops (spec_init K) = Some sp' ->
    exists s g, run alloc N szT ops (init_slots K) led0 = Ok (s, g) /\
      Forall2 slot_matches s sp' /\
      nctor g - ndtor g = total sp' /\
      (Forall (eq None) sp' ->
         nctor g = ndtor g /\ Forall (fun b => b_live b = false) (blocks g) /\ Forall (eq None) s) /\
      (forall k v i obj, nth_error s k = Some (Some v) -> (obj_align al | obj) ->
         (al | elem_addr szT (data_addr al obj g v) i)).

Lemma C38_holds_proof : forall onew amalloc al szT N K ops,
  (forall c n, (16 | onew c n)) -> (forall c n a, is_pow2 a -> (a | amalloc c n a)) ->
  is_pow2 al -> (al | szT) -> (1 <= N)%nat ->
  C38_property (allocate_oracle onew amalloc al) al szT N K ops.
Proof.
  intros onew amalloc al szT N K ops H16 HA Hp Hsz HN sp' Hsp.
  destruct (reach_inv (allocate_oracle onew amalloc al) N szT K ops sp' HN Hsp) as (s & g & E & I).
  exists s, g. split; [exact E|]. split; [eapply Inv_matches; eauto|]. split; [exact (inv_bal _ _ _ _ _ I)|].
  split; [intros Hn; eapply Inv_clean; eauto|].
  intros k v i obj Hk Hobj. destruct (heapb v) eqn:Hh.
  - replace (data_addr al obj g v) with (data_addr al 0 g v) by (unfold data_addr; rewrite Hh; reflexivity).
    eapply Inv_heap_aligned with (A := al) (sp := sp'); eauto using allocate_oracle_aligned, Z.divide_refl.
  - apply inline_aligned_proof; assumption.
Qed.

(* ------------------------------------------------------------------ regression witnesses (the former refutations) *)
(* ::operator new that returns addresses == 16 (mod 32); alignedMalloc that returns multiples of the alignment *)
Definition wit_alloc : nat -> Z -> Z := fun c _ => 16 + 4096 * Z.of_nat c.
Definition wit_amalloc : nat -> Z -> Z -> Z := fun c _ a => a * (64 * (Z.of_nat c + 1)).
Definition wit_ops : list op := [OCtor 0; OPush 0 0 1; OPush 0 0 2].
Definition wit_self_ops : list op := [OCtor 0; OPush 0 0 11; OPush 0 0 22; OPushSelf 0 0].
Definition wit_self_resize_ops : list op := [OCtor 0; OPush 0 0 5; OPush 0 0 6; OResizeSelf 0 5 0].

Lemma wit_alloc_16 : forall c n, (16 | wit_alloc c n).
Proof. intros c n. exists (1 + 256 * Z.of_nat c). unfold wit_alloc. lia. Qed.
Lemma wit_amalloc_aligned : forall c n a, is_pow2 a -> (a | wit_amalloc c n a).
Proof. intros c n a _. unfold wit_amalloc. apply Z.divide_factor_l. Qed.

(* contents of slot k after a run, or [] *)
Definition contents_after (r : res (slots * ledger)) (k : nat) : list Z :=
  match r with
  | Ok (s, _) => match nth_error s k with Some (Some v) => map cell_val (firstn (vsize v) (data v)) | _ => [] end
  | Err _ => []
  end.
Definition heap_aligned_after (al szT : Z) (r : res (slots * ledger)) : bool :=
  match r with Ok (s, g) => heap_alignedb szT al s g | Err _ => false end.
