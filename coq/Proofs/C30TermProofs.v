(* C30, termination: from a prepared state every step of the interleaving model strictly decreases the potential Phi
   (remaining work: 3 + 2*|dependents| steps per node not yet processed, +1 per node still waiting for a barrier), so
   every schedule has at most 4*|nodes| + 2*|edges| effective steps, and the SingleThreadExecutor model (exec_seq, fuel
   exec_fuel) always ends quiescent. *)
From Coq Require Import ZArith List Bool PArith FMapPositive Lia Arith.
From DV Require Import Base.MachInt Model.GraphModel Proofs.C30Proofs.
Import ListNotations.
Local Open Scope nat_scope.

Arguments countp : simpl never.
Arguments tsum : simpl never.

Section Term.
  Variable x : xg.
  Variable wave : bool.
  Variable c0 : zmap.
  Hypothesis HP : Prepared x c0.

  Definition W (n : positive) : nat := 3 + 2 * length (x_deps x n).
  Definition il_w (il : option positive) : nat := match il with Some d => W d | None => 0 end.
  Definition phi (ph : phase) : nat :=
    match ph with
    | PStart n => W n
    | PRun n => W n - 1
    | PDec _ r il => 1 + 2 * length r + il_w il
    | PSub _ _ r il => 2 + 2 * length r + il_w il
    | PDone => 0
    end.
  Definition waiting (s : st) (n : positive) : bool := incb c0 n && (St s n + Hel s n =? 0).
  Definition pool (s : st) : nat := tsum (fun n => if waiting s n then W n + 1 else 0) (x_nodes x).
  Definition Phi (s : st) : nat := pool s + tsum phi (s_tasks s) + tsum (fun d => W d + 1) (s_buf s).

  Lemma pool_same s s' : (forall m, St s' m + Hel s' m = St s m + Hel s m) -> pool s' = pool s.
  Proof. intros H. unfold pool, tsum. f_equal. apply map_ext. intros n. unfold waiting. rewrite H. reflexivity. Qed.

  Lemma pool_ready s s' d :
    In d (x_nodes x) -> incb c0 d = true -> St s d + Hel s d = 0 -> 1 <= St s' d + Hel s' d ->
    (forall m, m <> d -> St s' m + Hel s' m = St s m + Hel s m) -> pool s = pool s' + (W d + 1).
  Proof.
    intros Hd Hi H0 H1 Ho. unfold pool.
    pose proof (tsum_change_one (fun n => if waiting s n then W n + 1 else 0) (fun n => if waiting s' n then W n + 1 else 0)
                  (x_nodes x) d (p_nodup x c0 HP) Hd) as T. cbv beta in T.
    assert (A : waiting s d = true) by (unfold waiting; rewrite Hi, H0; reflexivity).
    assert (B : waiting s' d = false).
    { unfold waiting. rewrite Hi. cbn [andb]. apply Nat.eqb_neq. lia. }
    assert (Hoth : forall p, p <> d -> (if waiting s p then W p + 1 else 0) = (if waiting s' p then W p + 1 else 0)).
    { intros p Hp. unfold waiting. rewrite (Ho p Hp). reflexivity. }
    specialize (T Hoth). rewrite A, B in T. lia.
  Qed.

  Ltac updp Hk ph' :=
    pose proof (fun m => tsum_set_nth (fun ph => countp m (phase_held ph)) _ _ _ ph' Hk) as UH;
    pose proof (tsum_set_nth phi _ _ _ ph' Hk) as UF;
    cbn [phase_held phi] in UH, UF.

  (* the decrement by task k of the counter of d (the task is at node n, `ph` is its phase) *)
  Lemma do_sub_phi s k ph n d rest il :
    Inv x c0 s -> nth_error (s_tasks s) k = Some ph ->
    (forall m, pend m ph = countp m [d] + countp m rest) ->
    (forall m, countp m (phase_held ph) = countp m (phase_held (PDec n rest il))) ->
    1 + 2 * length rest + il_w il < phi ph ->
    In d (x_nodes x) -> incb c0 d = true -> Phi (do_sub wave s k n d rest il) < Phi s.
  Proof.
    intros HI Hk Hpe Hhe Hphi Hdn Hdi.
    (* d is waiting: its counter is still positive *)
    assert (Hpd : 1 <= Pe s d).
    { unfold Pe. apply nth_error_In in Hk. apply in_split in Hk. destruct Hk as [l1 [l2 E]]. rewrite E, tsum_app, tsum_cons, Hpe.
      rewrite (countp_cons d d), countp_nil. destruct (Pos.eq_dec d d); [lia | congruence]. }
    assert (Hnh : St s d + Hel s d = 0).
    { destruct (Nat.eq_dec (St s d + Hel s d) 0) as [E|E]; [exact E|]. destruct (i_held x c0 s HI d ltac:(lia)) as [_ [_ Hr]]. unfold rem in Hr. lia. }
    unfold do_sub. destruct (getz (s_cnt s) d =? 1)%Z eqn:E1; [destruct wave; [|destruct il as [i|]] |].
    - (* ready, wave executor: into the buffer *)
      updp Hk (PDec n rest il). match goal with |- Phi ?S < _ => set (s1 := S) end.
      assert (PR : pool s = pool s1 + (W d + 1)).
      { apply (pool_ready s s1 d Hdn Hdi Hnh).
        - unfold s1, St, Hel. cbn [s_log s_tasks s_buf]. rewrite countp_app, (countp_cons d d), countp_nil. destruct (Pos.eq_dec d d); [lia | congruence].
        - intros m Hm. unfold s1, St, Hel. cbn [s_log s_tasks s_buf]. specialize (UH m). rewrite Hhe in UH. cbn [phase_held] in UH.
          rewrite countp_app, (countp_cons m d), countp_nil. destruct (Pos.eq_dec d m); [congruence | lia]. }
      unfold Phi. subst s1. cbn [s_tasks s_buf] in *. rewrite tsum_app, tsum_cons, tsum_nil. match goal with |- context [pool ?S] => match S with mkSt _ _ _ _ => set (P1 := pool S) in *; clearbody P1 end end. lia.
    - (* ready, concurrent executor, inlineNext taken: a new task *)
      updp Hk (PDec n rest (Some i)). match goal with |- Phi ?S < _ => set (s1 := S) end.
      assert (PR : pool s = pool s1 + (W d + 1)).
      { apply (pool_ready s s1 d Hdn Hdi Hnh).
        - unfold s1, St, Hel. cbn [s_log s_tasks s_buf]. rewrite tsum_app, tsum_cons, tsum_nil. cbn [phase_held].
          rewrite (countp_cons d d), countp_nil. destruct (Pos.eq_dec d d); [lia | congruence].
        - intros m Hm. unfold s1, St, Hel. cbn [s_log s_tasks s_buf]. rewrite tsum_app, tsum_cons, tsum_nil. cbn [phase_held].
          specialize (UH m). rewrite Hhe in UH. cbn [phase_held] in UH.
          rewrite (countp_cons m d), countp_nil. destruct (Pos.eq_dec d m); [congruence | lia]. }
      unfold Phi. subst s1. cbn [s_tasks s_buf] in *. rewrite tsum_app, tsum_cons, tsum_nil. cbn [phi il_w] in *. match goal with |- context [pool ?S] => match S with mkSt _ _ _ _ => set (P1 := pool S) in *; clearbody P1 end end. lia.
    - (* ready, concurrent executor: becomes inlineNext *)
      updp Hk (PDec n rest (Some d)). match goal with |- Phi ?S < _ => set (s1 := S) end.
      assert (PR : pool s = pool s1 + (W d + 1)).
      { apply (pool_ready s s1 d Hdn Hdi Hnh).
        - unfold s1, St, Hel. cbn [s_log s_tasks s_buf]. specialize (UH d). rewrite Hhe in UH. cbn [phase_held] in UH.
          rewrite (countp_cons d d), !countp_nil in UH. destruct (Pos.eq_dec d d); [lia | congruence].
        - intros m Hm. unfold s1, St, Hel. cbn [s_log s_tasks s_buf]. specialize (UH m). rewrite Hhe in UH. cbn [phase_held] in UH.
          rewrite (countp_cons m d), !countp_nil in UH. destruct (Pos.eq_dec d m); [congruence | lia]. }
      unfold Phi. subst s1. cbn [s_tasks s_buf] in *. cbn [phi il_w] in *. match goal with |- context [pool ?S] => match S with mkSt _ _ _ _ => set (P1 := pool S) in *; clearbody P1 end end. lia.
    - (* not yet ready *)
      updp Hk (PDec n rest il). unfold Phi. cbn [s_tasks s_buf].
      rewrite (pool_same s).
      + lia.
      + intros m. unfold St, Hel. cbn [s_log s_tasks s_buf]. specialize (UH m). rewrite Hhe in UH. cbn [phase_held] in UH. lia.
  Qed.

  Lemma step_phi s t s' : Inv x c0 s -> step x wave s t = Some s' -> Phi s' < Phi s.
  Proof.
    intros HI Hs. destruct t as [|k]; cbn [step] in Hs.
    - unfold step_main in Hs. destruct (wave && all_done s); [|discriminate].
      assert (Hs' : s' = mkSt (s_cnt s) (s_tasks s ++ map PStart (s_buf s)) [] (s_log s) /\ 1 <= length (s_buf s)).
      { destruct (s_buf s); [discriminate | injection Hs as <-; split; [reflexivity | simpl; lia]]. }
      destruct Hs' as [-> Hlen]. clear Hs.
      unfold Phi. cbn [s_tasks s_buf]. rewrite tsum_app, tsum_nil.
      rewrite (tsum_map_start phi W (s_buf s)) by reflexivity.
      rewrite (pool_same s).
      + assert (tsum W (s_buf s) + length (s_buf s) = tsum (fun d => W d + 1) (s_buf s)).
        { generalize (s_buf s). intros l. induction l as [|a l IHl]; [reflexivity|]. rewrite !tsum_cons. cbv beta. cbn [length]. lia. }
        lia.
      + intros m. unfold St, Hel. cbn [s_log s_tasks s_buf]. rewrite tsum_app.
        rewrite (tsum_map_start _ (fun q => countp m [q]) (s_buf s)) by reflexivity. rewrite tsum_count_self, countp_nil. lia.
    - unfold step_task in Hs. destruct (nth_error (s_tasks s) k) as [ph|] eqn:Hk; [|discriminate].
      pose proof (phase_ok_nth x c0 s k ph HI Hk) as Hok.
      destruct ph as [n|n|n rest il|n d rest il|].
      + injection Hs as <-. updp Hk (PRun n). unfold Phi. cbn [s_tasks s_buf].
        assert (1 <= W n) by (unfold W; lia).
        rewrite (pool_same s); [lia|]. intros m. unfold St, Hel. cbn [s_log s_tasks s_buf]. rewrite started_S, (countp_cons m n).
        specialize (UH m). rewrite (countp_cons m n), !countp_nil in UH. destruct (Pos.eq_dec n m); lia.
      + injection Hs as <-. updp Hk (PDec n (x_deps x n) None). unfold Phi. cbn [s_tasks s_buf].
        cbn [il_w] in UF. unfold W in UF.
        rewrite (pool_same s); [lia|]. intros m. unfold St, Hel. cbn [s_log s_tasks s_buf]. rewrite started_F. specialize (UH m). lia.
      + destruct rest as [|d rest].
        * injection Hs as <-. destruct il as [i|].
          -- updp Hk (PStart i). unfold Phi. cbn [s_tasks s_buf]. cbn [length il_w] in UF.
             rewrite (pool_same s); [lia|]. intros m. unfold St, Hel. cbn [s_log s_tasks s_buf]. specialize (UH m). lia.
          -- updp Hk PDone. unfold Phi. cbn [s_tasks s_buf]. cbn [length il_w] in UF.
             rewrite (pool_same s); [lia|]. intros m. unfold St, Hel. cbn [s_log s_tasks s_buf]. specialize (UH m). lia.
        * cbn [phase_ok] in Hok.
          assert (Hd1 : In d (x_nodes x) /\ (x_bip x = false -> incb c0 d = true)) by (apply Hok; left; reflexivity).
          destruct (x_bip x) eqn:Eb.
          -- destruct (getz (s_cnt s) d =? K64)%Z eqn:EK; injection Hs as <-.
             ++ updp Hk (PDec n rest il). unfold Phi. cbn [s_tasks s_buf]. cbn [length] in UF.
                rewrite (pool_same s); [lia|]. intros m. unfold St, Hel. cbn [s_log s_tasks s_buf]. specialize (UH m). lia.
             ++ updp Hk (PSub n d rest il). unfold Phi. cbn [s_tasks s_buf]. cbn [length] in UF.
                rewrite (pool_same s); [lia|]. intros m. unfold St, Hel. cbn [s_log s_tasks s_buf]. specialize (UH m). lia.
          -- injection Hs as <-.
             apply (do_sub_phi s k (PDec n (d :: rest) il)); try assumption; try tauto.
             ++ intros m. cbn [pend]. change (d :: rest) with ([d] ++ rest). apply countp_app.
             ++ cbn [phi length]. lia.
      + injection Hs as <-. cbn [phase_ok] in Hok. destruct Hok as [Hdn [Hdi _]].
        apply (do_sub_phi s k (PSub n d rest il)); try assumption.
        * intros m. cbn [pend]. change (d :: rest) with ([d] ++ rest). apply countp_app.
        * intros m. reflexivity.
        * cbn [phi]. lia.
      + discriminate.
  Qed.

  Lemma pick_seq_none_quiescent s i : wave = true -> step x wave s (pick_seq s i) = None -> quiescent s = true.
  Proof.
    intros Hw Hs. unfold pick_seq in Hs. pose proof (first_active_spec (s_tasks s) 0) as F.
    destruct (first_active (s_tasks s) 0) as [k|].
    - destruct F as [ph [H1 [H2 _]]]. rewrite Nat.sub_0_r in H1. cbn [step] in Hs. exfalso. eapply step_task_enabled; eauto.
    - cbn [step] in Hs. unfold step_main in Hs. unfold quiescent, all_done in *. rewrite F in *. rewrite Hw in Hs. cbn [andb] in *.
      destruct (s_buf s); [reflexivity | discriminate].
  Qed.

  Lemma run_seq_quiescent : wave = true -> forall fuel i s, Inv x c0 s -> Phi s < fuel ->
    quiescent (run_pol x wave pick_seq fuel i s) = true.
  Proof.
    intros Hw. induction fuel as [|f IH]; intros i s HI Hf; [lia|]. cbn [run_pol].
    destruct (step x wave s (pick_seq s i)) as [s'|] eqn:E.
    - apply IH; [eapply step_inv; eauto|]. pose proof (step_phi s _ s' HI E). lia.
    - eapply pick_seq_none_quiescent; eauto.
  Qed.

  Lemma Phi_init_bound : Phi (init_st x c0) <= 4 * length (x_nodes x) + 2 * edge_count x.
  Proof.
    set (f := fun n : positive => Z.eqb (getz c0 n) 0%Z).
    set (s0 := init_st x c0).
    assert (B : forall n, In n (x_nodes x) -> (if waiting s0 n then W n + 1 else 0) + (if f n then W n else 0) <= 4 + 2 * length (x_deps x n)).
    { intros n Hn. unfold waiting. destruct (f n) eqn:Ef.
      - assert (Hh : 1 <= Hel s0 n).
        { unfold s0. rewrite Hd_init. apply countp_In. apply filter_In. split; [exact Hn | exact Ef]. }
        replace (St s0 n + Hel s0 n =? 0) with false by (symmetry; apply Nat.eqb_neq; lia).
        rewrite andb_false_r. unfold W. lia.
      - destruct (incb c0 n && (St s0 n + Hel s0 n =? 0)); unfold W; lia. }
    unfold Phi. change (s_tasks s0) with (map PStart (filter f (x_nodes x))). change (s_buf s0) with (@nil positive).
    rewrite tsum_nil, Nat.add_0_r. rewrite (tsum_map_start phi W (filter f (x_nodes x))) by reflexivity.
    assert (A : forall l, tsum W (filter f l) = tsum (fun n => if f n then W n else 0) l).
    { induction l as [|a l IHl]; [reflexivity|]. cbn [filter]. rewrite tsum_cons. destruct (f a); [rewrite tsum_cons|]; rewrite IHl; reflexivity. }
    rewrite A. unfold pool, edge_count. change (list_sum (map ?g ?l)) with (tsum g l).
    clearbody s0. revert B. generalize (x_nodes x). intros l. induction l as [|a l IHl]; intros B; [rewrite !tsum_nil; simpl; lia|].
    rewrite !tsum_cons. cbv beta. cbn [length]. pose proof (B a (or_introl eq_refl)) as Ba.
    assert (Bl : forall n, In n l -> (if waiting s0 n then W n + 1 else 0) + (if f n then W n else 0) <= 4 + 2 * length (x_deps x n))
      by (intros n Hn; apply (B n (or_intror Hn))).
    specialize (IHl Bl). lia.
  Qed.

End Term.

(* the SingleThreadExecutor model always terminates (within its fuel) in a quiescent state *)
Lemma exec_seq_terminates x c : preparedb x c = true -> quiescent (exec_seq x c) = true.
Proof.
  intros H. pose proof (preparedb_Prepared x c H) as HP. unfold exec_seq.
  apply (run_seq_quiescent x true c HP eq_refl); [apply inv_init; exact HP|].
  pose proof (Phi_init_bound x c). unfold exec_fuel. lia.
Qed.

(* every schedule: at most 4*|nodes| + 2*|edges| steps can take effect *)
Fixpoint effective (x : xg) (wave : bool) (s : st) (sched : list nat) : nat :=
  match sched with
  | [] => 0
  | t :: r => match step x wave s t with Some s' => S (effective x wave s' r) | None => effective x wave s r end
  end.

Lemma effective_bound x wave c : preparedb x c = true -> forall sched,
  effective x wave (init_st x c) sched <= 4 * length (x_nodes x) + 2 * edge_count x.
Proof.
  intros H sched. pose proof (preparedb_Prepared x c H) as HP.
  assert (G : forall sched s, Inv x c s -> effective x wave s sched <= Phi x c s).
  { induction sched0 as [|t r IH]; intros s HI; cbn [effective]; [lia|].
    destruct (step x wave s t) as [s'|] eqn:E; [|apply IH; exact HI].
    pose proof (step_phi x wave c HP s t s' HI E). specialize (IH s' (step_inv x wave c HP s t s' HI E)). lia. }
  eapply Nat.le_trans; [apply G; apply inv_init; exact HP | apply Phi_init_bound].
Qed.

Lemma C30_terminates_proof : forall x c, negb (preparedb x c) = false -> quiescent (exec_seq x c) = true.
Proof. intros x c H. apply exec_seq_terminates. apply negb_false_iff. exact H. Qed.

Lemma C30_bounded_proof : forall x wave c sched, negb (preparedb x c) = false ->
  effective x wave (init_st x c) sched <= 4 * length (x_nodes x) + 2 * edge_count x.
Proof. intros x wave c sched H. apply effective_bound. apply negb_false_iff. exact H. Qed.
