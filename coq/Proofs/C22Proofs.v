(* C22 / C23: RWLock and DistributedRWLock -- invariants over ALL interleavings of Model/RWLockModel.v
   (any number of threads, any number N >= 1 of slots, any schedule).
   Ghost quantities are *derived* from (mode, pc): the slots whose writer bit a thread owns (an interval), the slot
   on which it holds a reader count, the prefix of slots it has already drained.
     WordsOk : word_j = WB * #owners_j + #counts_j,  #owners_j <= 1
     Excl    : a slot certified drained by a writer has no reader inside its critical section
     NoLost  : a writer asleep on slot i while word_i = WB implies a reader committed to the futex wake *)
From Coq Require Import ZArith List Bool Lia Arith.
From DV Require Import Base.MachInt Base.Sched Model.RWLockModel.
Import ListNotations.
Local Open Scope Z_scope.

(* ---------- list helpers ---------- *)
Lemma in_set_nth {A} (l : list A) t x y : In y (set_nth l t x) -> y = x \/ In y l.
Proof.
  revert t; induction l as [|a l IH]; intros t H; [destruct t; contradiction|].
  destruct t as [|t]; cbn in H.
  - destruct H as [<-|H]; [left; reflexivity | right; right; exact H].
  - destruct H as [<-|H]; [right; left; reflexivity|]. destruct (IH _ H) as [->|H']; [left; reflexivity | right; right; exact H'].
Qed.

Lemma in_set_nth_pos {A} (l : list A) t x y :
  In y (set_nth l t x) -> y = x \/ exists u, u <> t /\ nth_error l u = Some y.
Proof.
  revert t; induction l as [|a l IH]; intros t H; [destruct t; contradiction|].
  destruct t as [|t]; cbn in H.
  - destruct H as [<-|H]; [left; reflexivity|]. right. apply In_nth_error in H. destruct H as [u Hu]. exists (S u). split; [lia | exact Hu].
  - destruct H as [<-|H]; [right; exists O; split; [lia | reflexivity]|].
    destruct (IH _ H) as [->|[u [Du Hu]]]; [left; reflexivity | right; exists (S u); split; [lia | exact Hu]].
Qed.

Lemma set_nth_in {A} (l : list A) t x old : nth_error l t = Some old -> In x (set_nth l t x).
Proof.
  revert t; induction l as [|a l IH]; intros t H; [destruct t; discriminate|].
  destruct t as [|t]; cbn in *; [left; reflexivity | right; eapply IH; exact H].
Qed.

Lemma nth_error_set_nth_eq {A} (l : list A) t x old : nth_error l t = Some old -> nth_error (set_nth l t x) t = Some x.
Proof. revert t; induction l as [|a l IH]; intros [|t] H; cbn in *; try discriminate; [reflexivity | eapply IH; exact H]. Qed.

Lemma nth_error_set_nth_neq {A} (l : list A) t u x : t <> u -> nth_error (set_nth l t x) u = nth_error l u.
Proof. revert t u; induction l as [|a l IH]; intros [|t] [|u] D; cbn; try reflexivity; [lia | apply IH; lia]. Qed.

Lemma in_set_nth_other {A} (l : list A) t u x y : u <> t -> nth_error l u = Some y -> In y (set_nth l t x).
Proof. intros D H. apply nth_error_In with (n := u). rewrite nth_error_set_nth_neq by lia. exact H. Qed.

Lemma length_set_nth {A} (l : list A) t x : length (set_nth l t x) = length l.
Proof. revert t; induction l as [|a l IH]; intros [|t]; cbn; try reflexivity. rewrite IH. reflexivity. Qed.

Lemma Forall_set_nth {A} (P : A -> Prop) l t x : Forall P l -> P x -> Forall P (set_nth l t x).
Proof.
  intros F Px. apply Forall_forall. intros y Hy. destruct (in_set_nth _ _ _ _ Hy) as [->|H]; [exact Px|].
  rewrite Forall_forall in F. apply F, H.
Qed.

Lemma nth_set_nth_eq (l : list Z) i x d : (i < length l)%nat -> nth i (set_nth l i x) d = x.
Proof. revert i; induction l as [|a l IH]; intros [|i] H; cbn in *; try lia. apply IH; lia. Qed.

Lemma nth_set_nth_neq (l : list Z) i j x d : i <> j -> nth j (set_nth l i x) d = nth j l d.
Proof. revert i j; induction l as [|a l IH]; intros [|i] [|j] D; cbn; try reflexivity; [lia | apply IH; lia]. Qed.

Fixpoint sumZ {A} (f : A -> Z) (l : list A) : Z := match l with [] => 0 | x :: r => f x + sumZ f r end.

Lemma sumZ_set_nth {A} (f : A -> Z) l t x old : nth_error l t = Some old -> sumZ f (set_nth l t x) = sumZ f l - f old + f x.
Proof.
  revert t; induction l as [|a l IH]; intros [|t] H; cbn in *; try discriminate.
  - injection H as ->. lia.
  - rewrite (IH _ H). lia.
Qed.

Lemma sumZ_map {A} (f : A -> Z) g l : (forall x, f (g x) = f x) -> sumZ f (map g l) = sumZ f l.
Proof. intros E. induction l as [|a l IH]; cbn; [reflexivity | rewrite E, IH; reflexivity]. Qed.

Lemma sumZ_bounds {A} (f : A -> Z) l : (forall x, 0 <= f x <= 1) -> 0 <= sumZ f l <= Z.of_nat (length l).
Proof. intros B. induction l as [|a l IH]; cbn [sumZ length]; [lia | specialize (B a); lia]. Qed.

Lemma sumZ_ge {A} (f : A -> Z) l t x : (forall y, 0 <= f y) -> nth_error l t = Some x -> f x <= sumZ f l.
Proof.
  intros P. revert t; induction l as [|a l IH]; intros [|t] H; cbn in *; try discriminate.
  - injection H as ->. assert (0 <= sumZ f l) by (clear - P; induction l; cbn; [lia | specialize (P a); lia]). lia.
  - specialize (IH _ H). specialize (P a). lia.
Qed.

Lemma sumZ_ge2 {A} (f : A -> Z) l t1 t2 x1 x2 :
  (forall y, 0 <= f y) -> t1 <> t2 -> nth_error l t1 = Some x1 -> nth_error l t2 = Some x2 -> f x1 + f x2 <= sumZ f l.
Proof.
  intros P. revert t1 t2; induction l as [|a l IH]; intros [|t1] [|t2] D H1 H2; cbn in *; try discriminate; try lia.
  - injection H1 as ->. pose proof (sumZ_ge f l _ _ P H2). lia.
  - injection H2 as ->. pose proof (sumZ_ge f l _ _ P H1). lia.
  - assert (t1 <> t2) by lia. specialize (IH _ _ H H1 H2). specialize (P a). lia.
Qed.

Lemma sumZ_zero {A} (f : A -> Z) l : (forall x, In x l -> f x = 0) -> sumZ f l = 0.
Proof. induction l as [|a l IH]; intros H; cbn; [reflexivity|]. rewrite (H a) by (left; reflexivity). rewrite IH; [reflexivity|]. intros x Hx. apply H. right. exact Hx. Qed.

(* ---------- int32 helpers ---------- *)
Lemma WB_val : WB = -2147483648. Proof. reflexivity. Qed.
Lemma add32_ok w : WB <= w -> w < 2147483647 -> add32 w = w + 1.
Proof. intros. unfold add32. apply wrap_s_small; [lia|]. rewrite WB_val in *. change (2 ^ (32 - 1)) with 2147483648. lia. Qed.
Lemma sub32_ok w : WB < w -> w <= 2147483647 -> sub32 w = w - 1.
Proof. intros. unfold sub32. apply wrap_s_small; [lia|]. rewrite WB_val in *. change (2 ^ (32 - 1)) with 2147483648. lia. Qed.

Section RW.
  Variable N K : nat.
  Variable strict : bool.
  Hypothesis N_pos : (0 < N)%nat.

  Lemma slot_lt i : (slot N i < N)%nat.
  Proof. unfold slot. apply Nat.mod_upper_bound. lia. Qed.

  (* ---------- script discipline (Prop twin of RWLockModel.wfb) ---------- *)
  Inductive wfp : mode -> list op -> Prop :=
  | wfp_nil m : (strict = true -> m = MIdle) -> wfp m []
  | wfp_lock r : wfp MW r -> wfp MIdle (OLock :: r)
  | wfp_try n r : N = 1%nat -> wfp MW r -> wfp MIdle (skipn n r) -> wfp MIdle (OTryLock n :: r)
  | wfp_dtry n r : wfp MW r -> wfp MIdle (skipn n r) -> wfp MIdle (ODTryLock n :: r)
  | wfp_ls i r : wfp (MR (slot N i)) r -> wfp MIdle (OLockShared i :: r)
  | wfp_tls i n r : wfp (MR (slot N i)) r -> wfp MIdle (skipn n r) -> wfp MIdle (OTryLockShared i n :: r)
  | wfp_unlock r : wfp MIdle r -> wfp MW (OUnlock :: r)
  | wfp_down r : N = 1%nat -> wfp (MR 0) r -> wfp MW (ODowngrade :: r)
  | wfp_us i r : wfp MIdle r -> wfp (MR (slot N i)) (OUnlockShared i :: r)
  | wfp_up r : N = 1%nat -> wfp MW r -> wfp (MR 0) (OUpgrade :: r).

  Lemma mode_eqb_eq a b : mode_eqb a b = true -> a = b.
  Proof. destruct a, b; cbn; try discriminate; try reflexivity. intros H. apply Nat.eqb_eq in H. subst. reflexivity. Qed.

  Lemma wfb_sound fuel : forall m p, wfb N strict fuel m p = true -> wfp m p.
  Proof.
    induction fuel as [|f IH]; intros m p H; [discriminate|]. cbn in H.
    destruct p as [|o r].
    - constructor. intros S. rewrite S in H. cbn in H. apply mode_eqb_eq. exact H.
    - destruct m, o; try discriminate;
        repeat match type of H with (_ && _ = true) => apply andb_prop in H; destruct H as [H ?] end;
        repeat match goal with X : (_ && _ = true) |- _ => apply andb_prop in X; destruct X as [X ?] end;
        repeat match goal with X : ((_ =? _)%nat = true) |- _ => apply Nat.eqb_eq in X end;
        subst; try (constructor; auto; fail).
  Qed.

  (* ---------- derived ghost state ---------- *)
  Definition own_range_pc (p : pc) : nat * nat :=
    match p with
    | PSetW i KLock => (O, i)
    | PWaitLoad _ _ | PWaitFutex _ _ _ | PBlocked _ _ | PWoken _ _ => (O, N)
    | PUpSub | PTrySpin _ _ | PTryAnd _ | PDownAdd | PUnlockAnd _ UDowngrade => (O, 1%nat)
    | PDTryOr i _ => (O, i)
    | PDTryRb j i _ => (j, i)
    | PUnlockAnd i UUnlock => (i, N)
    | _ => (O, O)
    end.
  Definition own_range (th : thread) : nat * nat :=
    match tmode th with MW => (O, N) | MR _ => (O, O) | MIdle => own_range_pc (tpc th) end.
  Definition ownz (th : thread) (j : nat) : Z :=
    if (fst (own_range th) <=? j)%nat && (j <? snd (own_range th))%nat then 1 else 0.

  Definition rd_pc (p : pc) : option nat :=
    match p with
    | PSetW _ KUpgrade | PUpSub | PUnlockAnd _ UDowngrade => Some O
    | PRelSub i _ => Some i
    | _ => None
    end.
  Definition rd (th : thread) : option nat :=
    match tmode th with MR i => Some i | MW => None | MIdle => rd_pc (tpc th) end.
  Definition rdz (th : thread) (j : nat) : Z :=
    match rd th with Some i => if (i =? j)%nat then 1 else 0 | None => 0 end.

  Definition drain_upto (th : thread) : nat :=
    match tmode th with
    | MW => N
    | MR _ => O
    | MIdle => match tpc th with PWaitLoad i _ | PWaitFutex i _ _ | PBlocked i _ | PWoken i _ => i | _ => O end
    end.

  Lemma ownz_range th j : 0 <= ownz th j <= 1.
  Proof. unfold ownz. destruct (_ && _); lia. Qed.
  Lemma rdz_range th j : 0 <= rdz th j <= 1.
  Proof. unfold rdz. destruct (rd th); [destruct (_ =? _)%nat|]; lia. Qed.

  (* ---------- per-thread well-formedness ---------- *)
  Definition wf_k (k : wk) : Prop := match k with KUpgrade => N = 1%nat | _ => True end.

  Definition wf_thread (th : thread) : Prop :=
    let p := prog th in
    match tmode th with
    | MIdle =>
        match tpc th with
        | PStart => wfp MIdle p
        | PSetW i KLock => (i < N)%nat /\ wfp MW p
        | PSetW i KUpgrade => i = O /\ N = 1%nat /\ wfp MW p
        | PSetW i KDTry => False
        | PWaitLoad i k | PBlocked i k | PWoken i k => (i < N)%nat /\ wf_k k /\ wfp MW p
        | PWaitFutex i cur k => (i < N)%nat /\ wf_k k /\ wfp MW p /\ cur <> WB
        | PUpSub => N = 1%nat /\ wfp MW p
        | PTryOr n | PTrySpin _ n | PTryAnd n => N = 1%nat /\ wfp MW p /\ wfp MIdle (skipn n p)
        | PDTryOr i n => (i < N)%nat /\ wfp MW p /\ wfp MIdle (skipn n p)
        | PDTryRb j i n => (j < i)%nat /\ (i < N)%nat /\ wfp MIdle (skipn n p)
        | PUnlockAnd i UUnlock => (i < N)%nat /\ wfp MIdle p
        | PUnlockAnd i UDowngrade => i = O /\ N = 1%nat /\ wfp (MR 0) p
        | PLsAdd i | PLsSpin i => (i < N)%nat /\ wfp (MR i) p
        | PTlsAdd i n => (i < N)%nat /\ wfp (MR i) p /\ wfp MIdle (skipn n p)
        | PRelSub i k | PRelWake i k =>
            (i < N)%nat /\ match k with RBackout => wfp (MR i) p | RTryFail n => wfp MIdle (skipn n p) | RUnlock => wfp MIdle p end
        | PDownAdd => N = 1%nat /\ wfp (MR 0) p
        | PCsEnter | PCsExit _ => False
        | PDone => p = []
        end
    | m =>
        match m with MR i => (i < N)%nat | _ => True end /\
        match tpc th with
        | PCsEnter => wfp m p
        | PCsExit o => wfp m (o :: p)
        | PDone => p = [] /\ strict = false
        | _ => False
        end
    end.

  Definition is_blocked_pc (p : pc) : bool := match p with PBlocked _ _ => true | _ => false end.
  Definition is_relwake_pc (p : pc) : bool := match p with PRelWake _ _ => true | _ => false end.

  (* ---------- [next]: the boundary between two operations ---------- *)
  Lemma next_idle th :
    tmode th = MIdle -> wfp MIdle (prog th) ->
    wf_thread (next N th) /\ tmode (next N th) = MIdle /\
    own_range_pc (tpc (next N th)) = (O, O) /\ rd_pc (tpc (next N th)) = None /\ drain_upto (next N th) = O /\
    is_blocked_pc (tpc (next N th)) = false /\ is_relwake_pc (tpc (next N th)) = false.
  Proof.
    destruct th as [p pr rs m]; cbn. intros -> W. unfold next; cbn.
    inversion W; subst; unfold wf_thread, drain_upto; cbn; repeat split; auto using slot_lt.
  Qed.

  Lemma next_held th m :
    tmode th = m -> m <> MIdle -> match m with MR i => (i < N)%nat | _ => True end -> wfp m (prog th) ->
    wf_thread (next N th) /\ tmode (next N th) = m /\
    is_blocked_pc (tpc (next N th)) = false /\ is_relwake_pc (tpc (next N th)) = false.
  Proof.
    destruct th as [p pr rs m0]; cbn. intros -> D Hi W. unfold next; cbn.
    inversion W; subst; try congruence; unfold wf_thread, entry; cbn; repeat split; auto.
    destruct m; try congruence; repeat split; auto; destruct strict; auto; specialize (H eq_refl); congruence.
  Qed.

  Lemma ghost_idle_none th :
    tmode th = MIdle -> own_range_pc (tpc th) = (O, O) -> rd_pc (tpc th) = None ->
    (forall j, ownz th j = 0) /\ (forall j, rdz th j = 0).
  Proof.
    intros Hm Ho Hr. split; intros j.
    - unfold ownz, own_range. rewrite Hm, Ho. cbn. destruct (j <? 0)%nat eqn:E; [apply Nat.ltb_lt in E; lia | reflexivity].
    - unfold rdz, rd. rewrite Hm, Hr. reflexivity.
  Qed.

  Lemma ghost_held th th' :
    tmode th' = tmode th -> tmode th <> MIdle ->
    (forall j, ownz th' j = ownz th j) /\ (forall j, rdz th' j = rdz th j) /\ drain_upto th' = drain_upto th.
  Proof.
    intros E D. unfold ownz, own_range, rdz, rd, drain_upto. rewrite E. destruct (tmode th); try congruence; repeat split; reflexivity.
  Qed.

  (* ---------- what one step of one thread does to the word it accesses and to its own ghost state ----------
     The word of the accessed slot i0 is  w = WB * (A + own th i0) + (B + cnt th i0)  where A, B are the contributions of
     all OTHER threads (A = 1 iff another thread owns the writer bit of i0, B = number of other readers counted). *)
  Definition step_ok (th : thread) (w A B : Z) (w' : Z) (th' : thread) (wake : bool) : Prop :=
    let i0 := pslot (tpc th) in
    wf_thread th' /\
    (forall j, j <> i0 -> ownz th' j = ownz th j /\ rdz th' j = rdz th j) /\
    w' = WB * (A + ownz th' i0) + (B + rdz th' i0) /\
    A + ownz th' i0 <= 1 /\
    (forall j, (j < drain_upto th')%nat -> (j < drain_upto th)%nat \/ (j = i0 /\ B = 0)) /\
    (forall j, tmode th' = MR j -> tmode th = MR j \/ (j = i0 /\ A = 0)) /\
    (forall i k, tpc th' = PBlocked i k -> i = i0 /\ w' <> WB) /\
    (forall i k, tpc th' = PRelWake i k -> i = i0) /\
    wake = is_relwake_pc (tpc th) /\
    (w' = WB -> w = WB \/ is_relwake_pc (tpc th') = true \/ A = 0).

  Ltac nat_cases := repeat match goal with
    | |- context [(?a <=? ?b)%nat] => destruct (Nat.leb_spec a b)
    | |- context [(?a <? ?b)%nat] => destruct (Nat.ltb_spec a b)
    | |- context [(?a =? ?b)%nat] => destruct (Nat.eqb_spec a b)
    | H : context [(?a <=? ?b)%nat] |- _ => destruct (Nat.leb_spec a b)
    | H : context [(?a <? ?b)%nat] |- _ => destruct (Nat.ltb_spec a b)
    | H : context [(?a =? ?b)%nat] |- _ => destruct (Nat.eqb_spec a b)
    end.
  Ltac fin := unfold ownz, own_range, rdz, rd, drain_upto, goto, acquire, logr, skip, try_failed, spin_or_and in *;
              cbn [tpc tmode prog res fst snd own_range_pc rd_pc pslot andb is_relwake_pc is_blocked_pc] in *;
              rewrite ?WB_val in *; nat_cases; cbn [andb] in *; try lia; try congruence; auto;
              try solve [match goal with H : MR _ = MR _ |- _ => injection H as <-; right; split; [reflexivity | lia] end].
  (* replace [next N t] (t idle, remaining script W0) by an abstract thread with the facts of next_idle *)
  Ltac use_next_idle W0 :=
    match goal with |- context [next N ?t] =>
      let Wf := fresh "Wf" in let Hm := fresh "Hm" in let Ho := fresh "Ho" in let Hr := fresh "Hr" in
      let Hd := fresh "Hd" in let Hb := fresh "Hb" in let Hk := fresh "Hk" in let Go := fresh "Go" in let Gr := fresh "Gr" in
      destruct (next_idle t eq_refl W0) as (Wf & Hm & Ho & Hr & Hd & Hb & Hk);
      destruct (ghost_idle_none _ Hm Ho Hr) as [Go Gr];
      generalize dependent (next N t); intros
    end.
  Ltac ghost_rw := repeat match goal with
    | H : forall j : nat, ownz ?t j = 0 |- context [ownz ?t _] => rewrite H
    | H : forall j : nat, rdz ?t j = 0 |- context [rdz ?t _] => rewrite H
    | H : drain_upto ?t = _ |- context [drain_upto ?t] => rewrite H
    | H : tmode ?t = _ |- context [tmode ?t] => rewrite H
    | H : is_relwake_pc (tpc ?t) = _ |- context [is_relwake_pc (tpc ?t)] => rewrite H
    | X : tpc ?t = _, Y : is_blocked_pc (tpc ?t) = false |- _ => rewrite X in Y; discriminate Y
    | X : tpc ?t = _, Y : is_relwake_pc (tpc ?t) = false |- _ => rewrite X in Y; discriminate Y
    end.
  Ltac leaf := unfold step_ok; cbn [tpc pslot is_relwake_pc]; ghost_rw; repeat split; intros; ghost_rw; fin.
  Ltac ztest E := match type of E with
    | context [?a <? ?b] => let e := fresh "Ez" in destruct (a <? b) eqn:e; [apply Z.ltb_lt in e | apply Z.ltb_ge in e]
    | context [?a =? ?b] => let e := fresh "Ez" in destruct (a =? b) eqn:e; [apply Z.eqb_eq in e | apply Z.eqb_neq in e]
    | context [(?a <? ?b)%nat] => let e := fresh "En" in destruct (a <? b)%nat eqn:e; [apply Nat.ltb_lt in e | apply Nat.ltb_ge in e]
    end.

  Lemma tstep_spec th w A B w' th' site wake :
    wf_thread th ->
    w = WB * (A + ownz th (pslot (tpc th))) + (B + rdz th (pslot (tpc th))) ->
    0 <= A -> A + ownz th (pslot (tpc th)) <= 1 -> 0 <= B -> B + 1 < 2147483648 ->
    tstep N K w th = Some (w', th', site, wake) ->
    step_ok th w A B w' th' wake.
  Proof.
    destruct th as [p pr rs m]. unfold wf_thread; cbn [tmode tpc prog]. intros W Hw HA HA1 HB HB1 E.
    destruct m.
    - (* idle *) destruct p; unfold tstep in E; cbn [tpc] in E.
    + injection E as <- <- _ <-. use_next_idle W. leaf.
    + destruct k; [ | | contradiction].
      * destruct W as [Hi W]. unfold f_or in E. repeat ztest E; injection E as <- <- _ <-; leaf.
      * destruct W as (-> & HN & W). unfold f_or in E. repeat ztest E; injection E as <- <- _ <-; leaf.
    + (* PWaitLoad *) destruct W as (Hi & Hk & W). unfold drained in E. repeat ztest E; injection E as <- <- _ <-.
      * destruct k; cbn in Hk; leaf.
      * destruct k; cbn in Hk; leaf.
      * leaf.
    + (* PWaitFutex *) destruct W as (Hi & Hk & W & Hc). repeat ztest E; injection E as <- <- _ <-; leaf.
    + discriminate.
    + (* PWoken *) destruct W as (Hi & Hk & W). injection E as <- <- _ <-; leaf.
    + (* PUpSub *) destruct W as (HN & W). injection E as <- <- _ <-.
      rewrite sub32_ok by fin. leaf.
    + (* PTryOr *) destruct W as (HN & W & Ws). unfold f_or, try_failed in E. repeat ztest E; injection E as <- <- _ <-.
      * use_next_idle Ws. leaf.
      * leaf.
      * destruct K; leaf.
    + (* PTrySpin *) destruct W as (HN & W & Ws). repeat ztest E; injection E as <- <- _ <-.
      * leaf.
      * destruct (Nat.pred j); leaf.
    + (* PTryAnd *) destruct W as (HN & W & Ws). unfold f_and, try_failed in E. repeat ztest E; injection E as <- <- _ <-; use_next_idle Ws; leaf.
    + (* PDTryOr *) destruct W as (Hi & W & Ws). unfold f_or, try_failed in E. repeat ztest E; injection E as <- <- _ <-.
      * destruct i; [use_next_idle Ws; leaf | leaf].
      * leaf.
      * leaf.
    + (* PDTryRb *) destruct W as (Hj & Hi & Ws). unfold f_and, try_failed in E. repeat ztest E; injection E as <- <- _ <-; try (use_next_idle Ws); leaf.
    + (* PUnlockAnd *) destruct k.
      * destruct W as (Hi & W). unfold f_and in E. repeat ztest E; injection E as <- <- _ <-; try (use_next_idle W); leaf.
      * destruct W as (-> & HN & W). unfold f_and in E. repeat ztest E; injection E as <- <- _ <-; leaf.
    + (* PLsAdd *) destruct W as (Hi & W). repeat ztest E; injection E as <- <- _ <-; rewrite add32_ok by fin; leaf.
    + (* PLsSpin *) destruct W as (Hi & W). repeat ztest E; injection E as <- <- _ <-; leaf.
    + (* PTlsAdd *) destruct W as (Hi & W & Ws). repeat ztest E; injection E as <- <- _ <-; rewrite add32_ok by fin; leaf.
    + (* PRelSub *) destruct W as (Hi & W). unfold rel_done in E. repeat ztest E; injection E as <- <- _ <-; rewrite sub32_ok by fin.
      * leaf.
      * destruct k; try (use_next_idle W); leaf.
    + (* PRelWake *) destruct W as (Hi & W). unfold rel_done in E. injection E as <- <- _ <-. destruct k; try (use_next_idle W); leaf.
    + (* PDownAdd *) destruct W as (HN & W). injection E as <- <- _ <-. rewrite add32_ok by fin. leaf.
    + contradiction.
    + contradiction.
    + discriminate.
    - (* write mode *) destruct W as [_ W]. destruct p; try contradiction; unfold tstep in E; cbn [tpc tmode] in E.
      + injection E as <- <- _ <-.
        match goal with |- context [next N ?t] =>
          destruct (next_held t _ eq_refl ltac:(discriminate) I W) as (Wf & Hm & Hb & Hk);
          destruct (ghost_held t (next N t) Hm ltac:(discriminate)) as (Go & Gr & Gd);
          generalize dependent (next N t); intros end.
        unfold step_ok; cbn [tpc pslot is_relwake_pc]; repeat split; intros; rewrite ?Go, ?Gr, ?Gd, ?Hk in *; ghost_rw; fin.
      + injection E as <- <- _ <-. inversion W; subst; cbn [entry']; leaf.
      + destruct W; discriminate.
    - (* read mode *) destruct W as [Hi W]. destruct p; try contradiction; unfold tstep in E; cbn [tpc tmode] in E.
      + injection E as <- <- _ <-.
        match goal with |- context [next N ?t] =>
          destruct (next_held t _ eq_refl ltac:(discriminate) Hi W) as (Wf & Hm & Hb & Hk);
          destruct (ghost_held t (next N t) Hm ltac:(discriminate)) as (Go & Gr & Gd);
          generalize dependent (next N t); intros end.
        unfold step_ok; cbn [tpc pslot is_relwake_pc]; repeat split; intros; rewrite ?Go, ?Gr, ?Gd, ?Hk in *; ghost_rw; fin.
        all: left; cbn in Hm; congruence.
      + injection E as <- <- _ <-. inversion W; subst; cbn [entry']; leaf.
      + discriminate E.
  Qed.

  (* ---------- the global invariant ---------- *)
  Definition nown (ths : list thread) (j : nat) : Z := sumZ (fun th => ownz th j) ths.
  Definition ncnt (ths : list thread) (j : nat) : Z := sumZ (fun th => rdz th j) ths.
  Definition WordsOk (s : state) : Prop :=
    length (words s) = N /\
    forall j, (j < N)%nat -> nth j (words s) 0 = WB * nown (threads s) j + ncnt (threads s) j /\ nown (threads s) j <= 1.
  Definition Excl (s : state) : Prop :=
    forall th1 th2 j, In th1 (threads s) -> In th2 (threads s) -> (j < drain_upto th1)%nat -> tmode th2 = MR j -> False.
  Definition NoLost (s : state) : Prop :=
    forall i, (exists th k, In th (threads s) /\ tpc th = PBlocked i k) -> nth i (words s) 0 = WB ->
              exists th k, In th (threads s) /\ tpc th = PRelWake i k.
  Definition Inv (s : state) : Prop :=
    Z.of_nat (length (threads s)) < 2147483648 /\ WordsOk s /\ Forall wf_thread (threads s) /\ Excl s /\ NoLost s.

  Lemma pslot_lt th : wf_thread th -> (pslot (tpc th) < N)%nat.
  Proof.
    destruct th as [p pr rs m]. unfold wf_thread; cbn [tpc tmode prog]. destruct m; destruct p; cbn [pslot]; intros W; try lia;
      try (destruct k); try tauto; try lia.
  Qed.

  Lemma drained_owns x jj : wf_thread x -> (jj < drain_upto x)%nat -> ownz x jj = 1.
  Proof.
    destruct x as [p pr rs m]. intros Wx Hdx. unfold wf_thread, drain_upto, ownz, own_range in *; cbn [tpc tmode prog] in *.
    destruct m; [destruct p; cbn [own_range_pc fst snd] in *; try lia; destruct Wx as (Hi & _); nat_cases; cbn; lia
                | cbn [fst snd]; nat_cases; cbn; lia | lia].
  Qed.

  Lemma blocked_owns x a k : wf_thread x -> tpc x = PBlocked a k -> ownz x a = 1.
  Proof.
    destruct x as [p pr rs m]. intros Wx Px. cbn in Px. subst p. unfold wf_thread, ownz, own_range in *; cbn [tpc tmode prog] in *.
    destruct m; [destruct Wx as (Hi & _); cbn [own_range_pc fst snd]; nat_cases; cbn; lia | destruct Wx as [_ []] | destruct Wx as [_ []]].
  Qed.

  Lemma sumZ_others_le {A} (f : A -> Z) l t x :
    (forall y, 0 <= f y <= 1) -> nth_error l t = Some x -> sumZ f l - f x <= Z.of_nat (length l) - 1.
  Proof.
    intros P. revert t; induction l as [|a l IH]; intros [|t] H; cbn [sumZ length nth_error] in *; try discriminate.
    - injection H as ->. pose proof (sumZ_bounds f l P). lia.
    - specialize (IH _ H). specialize (P a). lia.
  Qed.

  Lemma Forall2_nth_error_r {A B} (R : A -> B -> Prop) l1 l2 u y :
    Forall2 R l1 l2 -> nth_error l2 u = Some y -> exists x, nth_error l1 u = Some x /\ R x y.
  Proof.
    intros F. revert u. induction F as [|a b l1 l2 Rab F IH]; intros [|u] H; cbn in *; try discriminate.
    - injection H as <-. exists a. split; [reflexivity | exact Rab].
    - apply IH. exact H.
  Qed.

  Lemma Forall2_nth_error_l {A B} (R : A -> B -> Prop) l1 l2 u x :
    Forall2 R l1 l2 -> nth_error l1 u = Some x -> exists y, nth_error l2 u = Some y /\ R x y.
  Proof.
    intros F. revert u. induction F as [|a b l1 l2 Rab F IH]; intros [|u] H; cbn in *; try discriminate.
    - injection H as <-. exists b. split; [reflexivity | exact Rab].
    - apply IH. exact H.
  Qed.

  Lemma Forall2_sumZ {A} (R : A -> A -> Prop) (f : A -> Z) l1 l2 :
    Forall2 R l1 l2 -> (forall x y, R x y -> f y = f x) -> sumZ f l2 = sumZ f l1.
  Proof. intros F E. induction F as [|a b l1 l2 Rab F IH]; cbn; [reflexivity | rewrite IH, (E _ _ Rab); reflexivity]. Qed.

  Lemma Forall2_map_r {A} (R : A -> A -> Prop) g (l : list A) : (forall x, R x (g x)) -> Forall2 R l (map g l).
  Proof. intros H. induction l; cbn; constructor; auto. Qed.

  Lemma Forall2_refl {A} (R : A -> A -> Prop) (l : list A) : (forall x, R x x) -> Forall2 R l l.
  Proof. intros H. induction l; constructor; auto. Qed.

  (* the futex wake-all of slot i, per thread, and what it preserves *)
  Definition wake1 (i : nat) (th : thread) : thread :=
    match tpc th with PBlocked j k => if (j =? i)%nat then goto th (PWoken j k) else th | _ => th end.

  Definition wrel (wake : bool) (i : nat) (x y : thread) : Prop :=
    tmode y = tmode x /\ (forall j, ownz y j = ownz x j) /\ (forall j, rdz y j = rdz x j) /\ drain_upto y = drain_upto x /\
    (wf_thread x -> wf_thread y) /\ (forall a k, tpc y = PRelWake a k <-> tpc x = PRelWake a k) /\
    (forall a k, tpc y = PBlocked a k -> tpc x = PBlocked a k /\ (wake = true -> a <> i)) /\
    (is_blocked_pc (tpc x) = false -> y = x).

  Lemma wrel_refl i x : wrel false i x x.
  Proof. unfold wrel. repeat split; auto; try tauto; try discriminate. Qed.

  Lemma wrel_same wk i x : (forall a k, tpc x = PBlocked a k -> wk = true -> a <> i) -> wrel wk i x x.
  Proof. intros H. unfold wrel. repeat split; auto; try tauto. eapply H; eauto. Qed.

  Lemma wrel_wake1 i x : wrel true i x (wake1 i x).
  Proof.
    unfold wake1. destruct (tpc x) eqn:P; try (apply wrel_same; intros; congruence).
    destruct (Nat.eqb_spec i0 i) as [->|D].
    - destruct x as [p pr rs m]; cbn in P; subst p. unfold wrel, goto, ownz, own_range, rdz, rd, drain_upto, wf_thread; cbn.
      repeat split; auto; try (intros; discriminate); destruct m; auto.
    - apply wrel_same. intros a k0 E _. rewrite P in E. injection E as -> _. exact D.
  Qed.

  Lemma tstep_some_not_blocked w th x : tstep N K w th = Some x -> is_blocked_pc (tpc th) = false.
  Proof. unfold tstep. destruct (tpc th); cbn; intros; try reflexivity; discriminate. Qed.

  Lemma step_inv s t ch s' ch' site : Inv s -> step N K s t ch = Some (s', ch', site) -> Inv s'.
  Proof.
    intros (HL & (HWl & HW) & HT & HE & HNL) E. unfold step in E.
    destruct (nth_error (threads s) t) as [th|] eqn:Ht; [|discriminate].
    pose proof (nth_error_In _ _ Ht) as Hin.
    assert (Wth : wf_thread th) by (rewrite Forall_forall in HT; apply HT, Hin).
    pose proof (pslot_lt _ Wth) as Hi0. set (i0 := pslot (tpc th)) in *.
    destruct (tstep N K (nth i0 (words s) 0) th) as [[[[w' th'] site'] wake]|] eqn:Et; [|discriminate].
    injection E as <- _ _.
    pose proof (tstep_some_not_blocked _ _ _ Et) as Hnb.
    destruct (HW i0 Hi0) as [Hword Hown1].
    set (A := nown (threads s) i0 - ownz th i0). set (B := ncnt (threads s) i0 - rdz th i0).
    assert (HA : 0 <= A).
    { unfold A, nown. pose proof (sumZ_ge (fun th => ownz th i0) _ _ _ (fun y => proj1 (ownz_range y i0)) Ht). cbn in H. lia. }
    assert (HB : 0 <= B).
    { unfold B, ncnt. pose proof (sumZ_ge (fun th => rdz th i0) _ _ _ (fun y => proj1 (rdz_range y i0)) Ht). cbn in H. lia. }
    assert (HB1 : B + 1 < 2147483648).
    { unfold B, ncnt. pose proof (sumZ_others_le (fun th => rdz th i0) _ _ _ (fun y => rdz_range y i0) Ht). cbn in H. lia. }
    assert (SO : step_ok th (nth i0 (words s) 0) A B w' th' wake).
    { eapply tstep_spec; eauto; fold i0; unfold A, B; lia. }
    destruct SO as (Wf' & Hoth & Hw' & HA1' & Hdr & Hmr & Hbl & Hpw & Hwake & Hwb). fold i0 in Hoth, Hw', HA1', Hdr, Hmr, Hbl, Hpw, Hwb.
    set (ths1 := if wake then wake_all i0 (threads s) else threads s).
    assert (F2 : Forall2 (wrel wake i0) (threads s) ths1).
    { unfold ths1. destruct wake; [apply Forall2_map_r, wrel_wake1 | apply Forall2_refl, wrel_refl]. }
    assert (Ht1 : nth_error ths1 t = Some th).
    { destruct (Forall2_nth_error_l _ _ _ _ _ F2 Ht) as [y [Hy Ry]]. destruct Ry as (_ & _ & _ & _ & _ & _ & _ & Rs). rewrite (Rs Hnb) in Hy. exact Hy. }
    assert (Sown : forall j, nown ths1 j = nown (threads s) j).
    { intros j. unfold nown. apply (Forall2_sumZ _ _ _ _ F2). intros x y R. apply R. }
    assert (Scnt : forall j, ncnt ths1 j = ncnt (threads s) j).
    { intros j. unfold ncnt. apply (Forall2_sumZ _ _ _ _ F2). intros x y R. apply R. }
    assert (Hmem : forall y, In y (set_nth ths1 t th') -> y = th' \/ exists u x, u <> t /\ nth_error (threads s) u = Some x /\ wrel wake i0 x y).
    { intros y Hy. destruct (in_set_nth_pos _ _ _ _ Hy) as [->|[u [Du Hu]]]; [left; reflexivity|]. right.
      destruct (Forall2_nth_error_r _ _ _ _ _ F2 Hu) as [x [Hx Rx]]. exists u, x. auto. }
    assert (Hnown' : forall j, nown (set_nth ths1 t th') j = nown (threads s) j - ownz th j + ownz th' j).
    { intros j. unfold nown at 1. rewrite (sumZ_set_nth _ _ _ _ _ Ht1). fold (nown ths1 j). rewrite Sown. reflexivity. }
    assert (Hncnt' : forall j, ncnt (set_nth ths1 t th') j = ncnt (threads s) j - rdz th j + rdz th' j).
    { intros j. unfold ncnt at 1. rewrite (sumZ_set_nth _ _ _ _ _ Ht1). fold (ncnt ths1 j). rewrite Scnt. reflexivity. }
    pose proof drained_owns as DO. pose proof blocked_owns as BO.
    split; [|split; [|split; [|split]]]; cbn [words threads].
    - (* length *) rewrite length_set_nth.
      replace (length ths1) with (length (threads s)); [exact HL|]. unfold ths1. destruct wake; [unfold wake_all; rewrite map_length|]; reflexivity.
    - (* WordsOk *) split; [cbn [words]; rewrite length_set_nth; exact HWl|]. cbn [words threads]. intros j Hj. rewrite Hnown', Hncnt'.
      destruct (Nat.eq_dec j i0) as [->|D].
      + rewrite nth_set_nth_eq by lia. unfold A, B in *. lia.
      + rewrite nth_set_nth_neq by lia. destruct (Hoth j D) as [-> ->]. destruct (HW j Hj). lia.
    - (* wf *) cbn [threads]. apply Forall_forall. intros y Hy. destruct (Hmem y Hy) as [->|(u & x & Du & Hx & Rx)]; [exact Wf'|].
      apply Rx. rewrite Forall_forall in HT. apply HT. eapply nth_error_In; eauto.
    - (* Excl *) intros y1 y2 j H1 H2 Hd Hm. cbn [threads] in H1, H2.
      destruct (Hmem y1 H1) as [->|(u1 & x1 & Du1 & Hx1 & R1)]; destruct (Hmem y2 H2) as [->|(u2 & x2 & Du2 & Hx2 & R2)].
      + unfold drain_upto in Hd. rewrite Hm in Hd. lia.
      + destruct R2 as (Rm & _ & Rr & _). rewrite Rm in Hm. destruct (Hdr j Hd) as [Hd'|[-> HB0]].
        * eapply (HE th x2 j); eauto. eapply nth_error_In; eauto.
        * assert (rdz x2 i0 = 1) by (unfold rdz, rd; rewrite Hm, Nat.eqb_refl; reflexivity).
          pose proof (sumZ_ge2 (fun th => rdz th i0) _ _ _ _ _ (fun y => proj1 (rdz_range y i0)) Du2 Hx2 Ht) as G. cbn in G.
          unfold B, ncnt in HB0. lia.
      + destruct R1 as (_ & _ & _ & Rd & _). rewrite Rd in Hd.
        assert (Wx1 : wf_thread x1) by (rewrite Forall_forall in HT; apply HT; eapply nth_error_In; eauto).
        destruct (Hmr j Hm) as [Hm'|[-> HA0]].
        * eapply (HE x1 th j); eauto. eapply nth_error_In; eauto.
        * pose proof (DO _ _ Wx1 Hd) as O1.
          pose proof (sumZ_ge2 (fun th => ownz th i0) _ _ _ _ _ (fun y => proj1 (ownz_range y i0)) Du1 Hx1 Ht) as G. cbn in G.
          unfold A, nown in HA0. lia.
      + destruct R1 as (_ & _ & _ & Rd & _). rewrite Rd in Hd. destruct R2 as (Rm & _). rewrite Rm in Hm.
        eapply (HE x1 x2 j); eauto; eapply nth_error_In; eauto.
    - (* NoLost *) intros i [b [kb [Hb Pb]]] Hwi. cbn [words threads] in *.
      assert (PEND : forall up p k, up <> t -> nth_error (threads s) up = Some p -> tpc p = PRelWake i k ->
                     exists th0 k0, In th0 (set_nth ths1 t th') /\ tpc th0 = PRelWake i k0).
      { intros up p k Dup Hp Pp. destruct (Forall2_nth_error_l _ _ _ _ _ F2 Hp) as [y [Hy Ry]].
        exists y, k. split; [eapply in_set_nth_other; eauto | apply Ry; exact Pp]. }
      destruct (Hmem b Hb) as [->|(u & x & Du & Hx & Rx)].
      + destruct (Hbl _ _ Pb) as [-> Hne]. rewrite nth_set_nth_eq in Hwi by lia. contradiction.
      + destruct Rx as (_ & _ & _ & _ & _ & _ & Rb & _). destruct (Rb _ _ Pb) as [Px Hwk].
        assert (Wx : wf_thread x) by (rewrite Forall_forall in HT; apply HT; eapply nth_error_In; eauto).
        assert (OldB : exists th0 k0, In th0 (threads s) /\ tpc th0 = PBlocked i k0) by (exists x, kb; split; [eapply nth_error_In; eauto | exact Px]).
        destruct (Nat.eq_dec i i0) as [->|D].
        * rewrite nth_set_nth_eq in Hwi by lia.
          destruct (Hwb Hwi) as [Hold|[Hp|HA0]].
          -- destruct (HNL i0 OldB Hold) as (p & k & Hp & Pp). apply In_nth_error in Hp. destruct Hp as [up Hp].
             destruct (Nat.eq_dec up t) as [->|Dup]; [|eapply PEND; eauto].
             rewrite Ht in Hp. injection Hp as <-. exfalso. rewrite Pp in Hwake. cbn in Hwake. apply Hwk; auto.
          -- destruct (tpc th') eqn:P'; try discriminate. exists th', k. split; [eapply set_nth_in; eauto|]. rewrite P'. f_equal. eapply Hpw; eauto.
          -- pose proof (BO _ _ _ Wx Px) as O1.
             pose proof (sumZ_ge2 (fun th => ownz th i0) _ _ _ _ _ (fun y => proj1 (ownz_range y i0)) Du Hx Ht) as G. cbn in G.
             unfold A, nown in HA0. lia.
        * rewrite nth_set_nth_neq in Hwi by lia.
          destruct (HNL i OldB Hwi) as (p & k & Hp & Pp). apply In_nth_error in Hp. destruct Hp as [up Hp].
          destruct (Nat.eq_dec up t) as [->|Dup]; [|eapply PEND; eauto].
          rewrite Ht in Hp. injection Hp as <-. exfalso. apply D. unfold i0. rewrite Pp. reflexivity.
  Qed.
  Lemma nth_repeat0 j n : nth j (repeat 0 n) 0 = 0.
  Proof. revert j; induction n as [|n IH]; intros [|j]; cbn; auto. Qed.

  Lemma init_inv progs :
    Z.of_nat (length progs) < 2147483648 -> Forall (wfp MIdle) progs -> Inv (init N progs).
  Proof.
    intros HL F. unfold init.
    assert (G : forall th, In th (map (fun p => TH PStart p [] MIdle) progs) -> tpc th = PStart /\ tmode th = MIdle /\ wfp MIdle (prog th)).
    { intros th H. apply in_map_iff in H. destruct H as [p [<- Hp]]. cbn. rewrite Forall_forall in F. auto. }
    set (ths := map (fun p => TH PStart p [] MIdle) progs) in *.
    assert (O0 : forall j, nown ths j = 0).
    { intros j. apply sumZ_zero. intros x Hx. destruct (G x Hx) as (P & M & _). unfold ownz, own_range. rewrite M, P. cbn. destruct (j <? 0)%nat eqn:E; [apply Nat.ltb_lt in E; lia | reflexivity]. }
    assert (C0 : forall j, ncnt ths j = 0).
    { intros j. apply sumZ_zero. intros x Hx. destruct (G x Hx) as (P & M & _). unfold rdz, rd. rewrite M, P. reflexivity. }
    split; [|split; [|split; [|split]]].
    - unfold ths. cbn [threads]. rewrite map_length. exact HL.
    - split; [apply repeat_length|]. intros j Hj. cbn [words threads]. rewrite nth_repeat0, O0, C0. lia.
    - apply Forall_forall. intros x Hx. destruct (G x Hx) as (P & M & W). unfold wf_thread. rewrite M, P. exact W.
    - intros x y j Hx _ Hd _. destruct (G x Hx) as (P & M & _). unfold drain_upto in Hd. rewrite M, P in Hd. lia.
    - intros i (b & k & Hb & Pb) _. destruct (G b Hb) as (P & _). congruence.
  Qed.

  Theorem reach_Inv progs s :
    Z.of_nat (length progs) < 2147483648 -> Forall (wfp MIdle) progs -> reach (step N K) (init N progs) s -> Inv s.
  Proof.
    intros HL F R. apply (reach_inv (step N K) Inv (init N progs)); [apply init_inv; assumption | | exact R].
    intros s1 t ch s1' ch' site I E. eapply step_inv; eauto.
  Qed.
  (* ---------- mutual exclusion ---------- *)
  Lemma mode_w_owns th j : tmode th = MW -> (j < N)%nat -> ownz th j = 1.
  Proof. intros M Hj. unfold ownz, own_range. rewrite M. cbn [fst snd]. nat_cases; cbn; lia. Qed.

  Theorem mutual_exclusion s t1 t2 th1 th2 :
    Inv s -> t1 <> t2 -> nth_error (threads s) t1 = Some th1 -> nth_error (threads s) t2 = Some th2 ->
    tmode th1 = MW -> tmode th2 = MIdle.
  Proof.
    intros (HL & (HWl & HW) & HT & HE & HNL) D H1 H2 M1.
    destruct (tmode th2) eqn:M2; [reflexivity | exfalso | exfalso].
    - destruct (HW O N_pos) as [_ Ho].
      pose proof (sumZ_ge2 (fun th => ownz th O) _ _ _ _ _ (fun y => proj1 (ownz_range y O)) D H1 H2) as G. cbn in G.
      rewrite (mode_w_owns _ _ M1 N_pos), (mode_w_owns _ _ M2 N_pos) in G. unfold nown in Ho. lia.
    - assert (W2 : wf_thread th2) by (rewrite Forall_forall in HT; apply HT; eapply nth_error_In; eauto).
      assert (Hi : (i < N)%nat) by (unfold wf_thread in W2; rewrite M2 in W2; tauto).
      eapply (HE th1 th2 i); eauto using nth_error_In. unfold drain_upto. rewrite M1. exact Hi.
  Qed.
  (* ---------- results of the try operations ---------- *)
  Lemma res_next th : res (next N th) = res th.
  Proof. unfold next. destruct (prog th); reflexivity. Qed.

  Lemma tstep_res w th w' th' site wake :
    tstep N K w th = Some (w', th', site, wake) ->
    res th' = res th \/
    (res th' = (r_try, 1) :: res th /\ tmode th' = MW /\ tpc th' = PCsEnter) \/
    (res th' = (r_try, 0) :: res th /\ exists n, th' = try_failed N th n) \/
    (exists i, res th' = (r_tls, 1) :: res th /\ tmode th' = MR i /\ tpc th' = PCsEnter) \/
    (res th' = (r_tls, 0) :: res th /\ exists n, th' = next N (skip (logr th r_tls 0) n)).
  Proof.
    unfold tstep, drained, rel_done, try_failed. intros E.
    destruct (tpc th); try discriminate; repeat ztest E; injection E as <- <- _ <-;
      try (destruct k); try (destruct i); try (destruct (S _ <? N)%nat); rewrite ?res_next; cbn [res goto acquire logr skip tmode tpc];
      try (left; reflexivity);
      try (right; left; repeat split; reflexivity);
      try (right; right; left; split; [reflexivity | eexists; reflexivity]);
      try (right; right; right; left; eexists; repeat split; reflexivity);
      try (right; right; right; right; split; [reflexivity | eexists; reflexivity]).
  Qed.

  Lemma list_neq_cons {A} (x : A) l : l <> x :: l.
  Proof. induction l as [|a l IH]; [discriminate|]. intros E. injection E as -> E. exact (IH E). Qed.

  Lemma tstep_fail_spec w th w' th' site wake tag :
    wf_thread th -> tstep N K w th = Some (w', th', site, wake) -> res th' = (tag, 0) :: res th ->
    tmode th' = MIdle /\ forall j, ownz th' j = 0 /\ rdz th' j = 0.
  Proof.
    intros W E R. destruct th as [p pr rs m]. unfold wf_thread in W; cbn [tpc tmode prog] in W. cbn [res] in R.
    destruct m; [| destruct W as [_ W] | destruct W as [_ W]];
      destruct p; try contradiction; unfold tstep, drained, rel_done, try_failed in E; cbn [tpc tmode] in E; try discriminate;
      repeat ztest E; injection E as <- <- _ <-;
      try (destruct k); try match goal with H : context [match ?i with O => _ | S _ => _ end] |- _ => destruct i end;
      try (destruct (S _ <? N)%nat); rewrite ?res_next in R; cbn [res goto acquire logr skip] in R;
      try (exfalso; exact (list_neq_cons _ _ R)); try (exfalso; injection R; intros; discriminate);
      repeat match goal with H : _ /\ _ |- _ => destruct H end.
    all: match goal with Ws : wfp MIdle (skipn _ _) |- _ => use_next_idle Ws end; split; [assumption | intros jj; split; auto].
  Qed.
  Lemma step_thread s t ch s' ch' site th :
    step N K s t ch = Some (s', ch', site) -> nth_error (threads s) t = Some th ->
    exists w' th' wake, tstep N K (nth (pslot (tpc th)) (words s) 0) th = Some (w', th', site, wake) /\
                        nth_error (threads s') t = Some th'.
  Proof.
    intros E Ht. unfold step in E. rewrite Ht in E.
    destruct (tstep N K (nth (pslot (tpc th)) (words s) 0) th) as [[[[w' th'] site'] wake]|] eqn:Et; [|discriminate].
    injection E as <- _ <-. exists w', th', wake. split; [reflexivity|]. cbn [threads].
    destruct wake.
    - eapply nth_error_set_nth_eq. unfold wake_all. erewrite map_nth_error; eauto.
    - eapply nth_error_set_nth_eq; eauto.
  Qed.

  Theorem try_success_enters s t ch s' ch' site th th' :
    Inv s -> step N K s t ch = Some (s', ch', site) ->
    nth_error (threads s) t = Some th -> nth_error (threads s') t = Some th' ->
    (res th' = (r_try, 1) :: res th ->
       tmode th' = MW /\ forall t2 th2, t2 <> t -> nth_error (threads s') t2 = Some th2 -> tmode th2 = MIdle) /\
    (res th' = (r_tls, 1) :: res th ->
       exists i, tmode th' = MR i /\ forall t2 th2, nth_error (threads s') t2 = Some th2 -> tmode th2 <> MW).
  Proof.
    intros I E Ht Ht'. pose proof (step_inv _ _ _ _ _ _ I E) as I'.
    destruct (step_thread _ _ _ _ _ _ _ E Ht) as (w' & th'' & wake & Et & Ht''). rewrite Ht' in Ht''. injection Ht'' as <-.
    pose proof (tstep_res _ _ _ _ _ _ Et) as R. unfold r_try, r_tls in *.
    split; intros Rr; rewrite Rr in R.
    - destruct R as [R|[(R & M & P)|[(R & _)|[(i & R & _)|(R & _)]]]]; try (exfalso; symmetry in R; exact (list_neq_cons _ _ R)); try discriminate.
      split; [exact M|]. intros t2 th2 D H2. eapply (mutual_exclusion s' t t2); eauto.
    - destruct R as [R|[(R & M & P)|[(R & _)|[(i & R & M & _)|(R & _)]]]]; try (exfalso; symmetry in R; exact (list_neq_cons _ _ R)); try discriminate.
      exists i. split; [exact M|]. intros t2 th2 H2 M2.
      destruct (Nat.eq_dec t2 t) as [->|D]; [rewrite Ht' in H2; injection H2 as <-; congruence|].
      pose proof (mutual_exclusion s' t2 t _ _ I' D H2 Ht' M2). congruence.
  Qed.

  Theorem try_failure_no_trace s t ch s' ch' site th th' tag :
    Inv s -> step N K s t ch = Some (s', ch', site) ->
    nth_error (threads s) t = Some th -> nth_error (threads s') t = Some th' ->
    res th' = (tag, 0) :: res th ->
    tmode th' = MIdle /\ forall j, ownz th' j = 0 /\ rdz th' j = 0.
  Proof.
    intros I E Ht Ht' R.
    destruct (step_thread _ _ _ _ _ _ _ E Ht) as (w' & th'' & wake & Et & Ht''). rewrite Ht' in Ht''. injection Ht'' as <-.
    destruct I as (_ & _ & HT & _). rewrite Forall_forall in HT.
    eapply tstep_fail_spec; eauto. apply HT. eapply nth_error_In; eauto.
  Qed.
  (* ---------- no lost wake-up, no sleep deadlock ---------- *)
  Theorem quiescent_not_lost s :
    Inv s -> (forall th i k, In th (threads s) -> tpc th <> PRelWake i k) ->
    forall th i k, In th (threads s) -> tpc th = PBlocked i k -> nth i (words s) 0 <> WB.
  Proof.
    intros (_ & _ & _ & _ & HNL) NP th i k Hth P E.
    destruct (HNL i (ex_intro _ th (ex_intro _ k (conj Hth P))) E) as (p & kp & Hp & Pp). exact (NP _ _ _ Hp Pp).
  Qed.

  Theorem sleeper_owns_writer_bit s th i k :
    Inv s -> In th (threads s) -> tpc th = PBlocked i k -> (i < N)%nat /\ ownz th i = 1 /\ tmode th = MIdle.
  Proof.
    intros (_ & _ & HT & _) Hth P. rewrite Forall_forall in HT. pose proof (HT _ Hth) as W.
    split; [|split].
    - pose proof (pslot_lt _ W) as H. rewrite P in H. exact H.
    - eapply blocked_owns; eauto.
    - unfold wf_thread in W. rewrite P in W. destruct (tmode th); [reflexivity | destruct W as [_ []] | destruct W as [_ []]].
  Qed.

  Lemma tids_where_nil f ths i : tids_where f ths i = [] -> forall th, In th ths -> f (tpc th) = false.
  Proof.
    revert i; induction ths as [|a l IH]; intros i H th Hth; [contradiction|]. cbn in H.
    destruct (f (tpc a)) eqn:Fa; [discriminate|]. destruct Hth as [<-|Hth]; [exact Fa | eapply IH; eauto].
  Qed.

  Lemma forallb_false_ex {A} (f : A -> bool) l : forallb f l = false -> exists x, In x l /\ f x = false.
  Proof.
    induction l as [|a l IH]; cbn; [discriminate|]. destruct (f a) eqn:Fa; cbn.
    - intros H. destruct (IH H) as [x [Hx Fx]]. exists x. auto.
    - intros _. exists a. auto.
  Qed.

  Theorem no_sleep_deadlock s : strict = true -> Inv s -> finished s = false -> cands s <> [].
  Proof.
    intros St I Hf Hc. pose proof I as (HL & (HWl & HW) & HT & HE & HNL). rewrite Forall_forall in HT.
    pose proof (tids_where_nil _ _ _ Hc) as NR.
    destruct (forallb_false_ex _ _ Hf) as [b [Hb Pb]].
    pose proof (NR _ Hb) as Rb. destruct (tpc b) eqn:P; try discriminate. clear Pb Rb.
    destruct (sleeper_owns_writer_bit _ _ _ _ I Hb P) as (Hi & Ob & Mb).
    assert (C0 : ncnt (threads s) i = 0).
    { apply sumZ_zero. intros x Hx. pose proof (NR _ Hx) as Rx. pose proof (HT _ Hx) as Wx. unfold rdz, rd. unfold wf_thread in Wx.
      destruct (tpc x) eqn:Px; try discriminate; destruct (tmode x); cbn; try reflexivity;
        destruct Wx as [_ Wx]; try contradiction; destruct Wx; congruence. }
    destruct (HW i Hi) as [Hw Ho].
    apply In_nth_error in Hb. destruct Hb as [ub Hb].
    pose proof (sumZ_ge (fun th => ownz th i) _ _ _ (fun y => proj1 (ownz_range y i)) Hb) as G. cbn in G. unfold nown in *.
    assert (Hwb : nth i (words s) 0 = WB) by (rewrite Hw, C0; replace (sumZ (fun th : thread => ownz th i) (threads s)) with 1 by lia; lia).
    destruct (HNL i (ex_intro _ b (ex_intro _ k (conj (nth_error_In _ _ Hb) P))) Hwb) as (p & kp & Hp & Pp).
    pose proof (NR _ Hp) as Rp. rewrite Pp in Rp. discriminate.
  Qed.

  Theorem all_done_words_zero s : strict = true -> Inv s -> finished s = true -> forall j, (j < N)%nat -> nth j (words s) 0 = 0.
  Proof.
    intros St (HL & (HWl & HW) & HT & HE & HNL) Hf j Hj. rewrite Forall_forall in HT. unfold finished in Hf. rewrite forallb_forall in Hf.
    destruct (HW j Hj) as [-> _].
    assert (O0 : nown (threads s) j = 0).
    { apply sumZ_zero. intros x Hx. pose proof (Hf _ Hx) as Px. pose proof (HT _ Hx) as Wx. unfold ownz, own_range. unfold wf_thread in Wx.
      destruct (tpc x) eqn:P; try discriminate. destruct (tmode x); [cbn; nat_cases; cbn; lia | destruct Wx as [_ [_ Wx]]; congruence | destruct Wx as [_ [_ Wx]]; congruence]. }
    assert (C0 : ncnt (threads s) j = 0).
    { apply sumZ_zero. intros x Hx. pose proof (Hf _ Hx) as Px. pose proof (HT _ Hx) as Wx. unfold rdz, rd. unfold wf_thread in Wx.
      destruct (tpc x) eqn:P; try discriminate. destruct (tmode x); [reflexivity | destruct Wx as [_ [_ Wx]]; congruence | destruct Wx as [_ [_ Wx]]; congruence]. }
    rewrite O0, C0. lia.
  Qed.
End RW.

(* ---------- the theorems on reachable states (any N >= 1, any K, any number of threads, all schedules) ---------- *)
Definition scripts_ok (N : nat) (strict : bool) (progs : list (list op)) : Prop :=
  (0 < N)%nat /\ Z.of_nat (length progs) < 2147483648 /\ Forall (wfp N strict MIdle) progs.

Lemma reach_inv_rw N K strict progs s :
  scripts_ok N strict progs -> reach (step N K) (init N progs) s -> Inv N strict s.
Proof. intros (HN & HL & F) R. eapply reach_Inv; eauto. Qed.

Lemma reach_exclusion N K strict progs s :
  scripts_ok N strict progs -> reach (step N K) (init N progs) s ->
  forall t1 t2 th1 th2, t1 <> t2 -> nth_error (threads s) t1 = Some th1 -> nth_error (threads s) t2 = Some th2 ->
  tmode th1 = MW -> tmode th2 = MIdle.
Proof. intros S R t1 t2 th1 th2 D H1 H2 M. eapply (mutual_exclusion N strict); eauto; [apply S | eapply reach_inv_rw; eauto]. Qed.

Lemma reach_try_success N K strict progs s t ch s' ch' site th th' :
  scripts_ok N strict progs -> reach (step N K) (init N progs) s -> step N K s t ch = Some (s', ch', site) ->
  nth_error (threads s) t = Some th -> nth_error (threads s') t = Some th' ->
  (res th' = (r_try, 1) :: res th ->
     tmode th' = MW /\ forall t2 th2, t2 <> t -> nth_error (threads s') t2 = Some th2 -> tmode th2 = MIdle) /\
  (res th' = (r_tls, 1) :: res th ->
     exists i, tmode th' = MR i /\ forall t2 th2, nth_error (threads s') t2 = Some th2 -> tmode th2 <> MW).
Proof. intros S R E H1 H2. eapply (try_success_enters N K strict); eauto; [apply S | eapply reach_inv_rw; eauto]. Qed.

Lemma reach_try_failure N K strict progs s t ch s' ch' site th th' tag :
  scripts_ok N strict progs -> reach (step N K) (init N progs) s -> step N K s t ch = Some (s', ch', site) ->
  nth_error (threads s) t = Some th -> nth_error (threads s') t = Some th' ->
  res th' = (tag, 0) :: res th ->
  tmode th' = MIdle /\ (forall j, ownz N th' j = 0 /\ rdz th' j = 0) /\
  (forall j, (j < N)%nat -> nth j (words s') 0 = WB * nown N (threads s') j + ncnt (threads s') j).
Proof.
  intros S R E H1 H2 Rr. pose proof (reach_inv_rw _ _ _ _ _ S R) as I.
  destruct (try_failure_no_trace N K strict (proj1 S) _ _ _ _ _ _ _ _ _ I E H1 H2 Rr) as [M G].
  split; [exact M|]. split; [exact G|]. intros j Hj.
  pose proof (step_inv N K strict (proj1 S) _ _ _ _ _ _ I E) as (_ & (_ & HW) & _). apply HW. exact Hj.
Qed.

Lemma reach_no_lost_wakeup N K strict progs s :
  scripts_ok N strict progs -> reach (step N K) (init N progs) s ->
  forall i, (exists th k, In th (threads s) /\ tpc th = PBlocked i k) -> nth i (words s) 0 = WB ->
            exists th k, In th (threads s) /\ tpc th = PRelWake i k.
Proof. intros S R. pose proof (reach_inv_rw _ _ _ _ _ S R) as (_ & _ & _ & _ & HNL). exact HNL. Qed.

Lemma reach_quiescent_not_lost N K strict progs s :
  scripts_ok N strict progs -> reach (step N K) (init N progs) s ->
  (forall th i k, In th (threads s) -> tpc th <> PRelWake i k) ->
  forall th i k, In th (threads s) -> tpc th = PBlocked i k -> nth i (words s) 0 <> WB.
Proof. intros S R. eapply quiescent_not_lost. eapply reach_inv_rw; eauto. Qed.

Lemma reach_sleeper_owns N K strict progs s th i k :
  scripts_ok N strict progs -> reach (step N K) (init N progs) s ->
  In th (threads s) -> tpc th = PBlocked i k -> (i < N)%nat /\ ownz N th i = 1 /\ tmode th = MIdle.
Proof. intros S R. eapply sleeper_owns_writer_bit; [apply S | eapply reach_inv_rw; eauto]. Qed.

Lemma reach_no_sleep_deadlock N K progs s :
  scripts_ok N true progs -> reach (step N K) (init N progs) s -> finished s = false -> cands s <> [].
Proof. intros S R. eapply (no_sleep_deadlock N true); [apply S | reflexivity | eapply reach_inv_rw; eauto]. Qed.

Lemma reach_all_done_words_zero N K progs s :
  scripts_ok N true progs -> reach (step N K) (init N progs) s -> finished s = true ->
  forall j, (j < N)%nat -> nth j (words s) 0 = 0.
Proof. intros S R. eapply (all_done_words_zero N true); [apply S | reflexivity | eapply reach_inv_rw; eauto]. Qed.

Lemma run_rw_reach fuel N K progs sched : reach (step N K) (init N progs) (fst (fst (run_rw fuel N K progs sched))).
Proof. unfold run_rw. apply run_reach. apply reach_refl. Qed.

(* the judge's executable discipline check implies the Prop used above *)
Lemma scripts_ok_of_wfb N strict progs :
  (0 < N)%nat -> Z.of_nat (length progs) < 2147483648 ->
  forallb (fun p => wfb N strict (S (length p)) MIdle p) progs = true -> scripts_ok N strict progs.
Proof.
  intros HN HL H. split; [exact HN|]. split; [exact HL|].
  rewrite forallb_forall in H. apply Forall_forall. intros p Hp. eapply wfb_sound. apply H. exact Hp.
Qed.
