(* C44 -- proofs about the bit-math model (Model/BitMathModel.v), independent of the regenerated source.
   Bit-level (Z.testbit) and arithmetical reasoning for ALL inputs; nothing here is established by enumerating inputs. *)
From Coq Require Import ZArith List Bool Lia.
From DV Require Import Base.MachInt Model.BitMathModel.
Import ListNotations.
Local Open Scope Z_scope.

(* ================================================================= nextPow2 *)

(* bit i of y is set iff one of the bits i .. i+n-1 of x is set *)
Definition covers (n x y : Z) : Prop :=
  forall i, 0 <= i -> (Z.testbit y i = true <-> exists j, 0 <= j < n /\ Z.testbit x (i + j) = true).

Lemma covers_1 x : covers 1 x x.
Proof.
  intros i Hi; split.
  - intros H; exists 0; split; [lia|]. rewrite Z.add_0_r; exact H.
  - intros [j [Hj H]]. replace (i + j) with i in H by lia. exact H.
Qed.

(* the doubling step: v |= v >> n turns a window of n bits into a window of 2n bits *)
Lemma covers_smear n x y : 0 < n -> covers n x y -> covers (2 * n) x (smear n y).
Proof.
  intros Hn C i Hi. unfold smear. rewrite Z.lor_spec, Z.shiftr_spec by lia. rewrite orb_true_iff.
  rewrite (C i Hi), (C (i + n)) by lia. split.
  - intros [[j [Hj H]] | [j [Hj H]]].
    + exists j; split; [lia | exact H].
    + exists (n + j); split; [lia|]. replace (i + (n + j)) with (i + n + j) by lia. exact H.
  - intros [j [Hj H]]. destruct (Z_lt_le_dec j n) as [Lt | Ge].
    + left; exists j; split; [lia | exact H].
    + right; exists (j - n); split; [lia|]. replace (i + n + (j - n)) with (i + j) by lia. exact H.
Qed.

Lemma covers_smear_all x : covers 64 x (smear_all x).
Proof.
  unfold smear_all.
  apply (covers_smear 32); [lia|]. apply (covers_smear 16); [lia|]. apply (covers_smear 8); [lia|].
  apply (covers_smear 4); [lia|]. apply (covers_smear 2); [lia|]. apply (covers_smear 1); [lia|].
  apply covers_1.
Qed.

(* after the six shifts every bit at or below the highest set bit is set *)
Lemma smear_all_ones x : 0 < x < 2 ^ 64 -> smear_all x = Z.ones (Z.log2 x + 1).
Proof.
  intros Hx.
  assert (HL : 0 <= Z.log2 x < 64) by (split; [apply Z.log2_nonneg | apply Z.log2_lt_pow2; lia]).
  apply Z.bits_inj'; intros i Hi.
  pose proof (covers_smear_all x i Hi) as C.
  destruct (Z_le_gt_dec i (Z.log2 x)) as [Le | Gt].
  - rewrite Z.ones_spec_low by lia. apply C. exists (Z.log2 x - i); split; [lia|].
    replace (i + (Z.log2 x - i)) with (Z.log2 x) by lia. apply Z.bit_log2; lia.
  - rewrite Z.ones_spec_high by lia.
    destruct (Z.testbit (smear_all x) i) eqn:E; [|reflexivity].
    destruct C as [C _]. destruct (C eq_refl) as [j [Hj H]].
    rewrite Z.bits_above_log2 in H by lia. discriminate H.
Qed.

Lemma smear_all_0 : smear_all 0 = 0.
Proof. reflexivity. Qed.

Lemma pow2_64 : 2 ^ 64 = 18446744073709551616. Proof. reflexivity. Qed.
Lemma pow2_63 : 2 ^ 63 = 9223372036854775808. Proof. reflexivity. Qed.

(* nextPow2 on its documented domain *)
Lemma nextPow2_m_log2_up v : 1 <= v <= 2 ^ 63 -> nextPow2_m v = 2 ^ Z.log2_up v.
Proof.
  intros Hv. unfold nextPow2_m.
  destruct (Z.eq_dec v 1) as [-> | Hn1]; [reflexivity|].
  assert (Hx : 0 < v - 1 < 2 ^ 63) by lia.
  assert (P : 2 ^ 63 < 2 ^ 64) by (rewrite pow2_63, pow2_64; lia).
  rewrite (wrap_small 64 (v - 1)) by lia.
  rewrite smear_all_ones by lia.
  rewrite Z.ones_equiv.
  rewrite Z.log2_up_eqn by lia. replace (Z.pred v) with (v - 1) by lia. rewrite <- Z.add_1_r, <- Z.sub_1_r.
  assert (HL : 0 <= Z.log2 (v - 1) < 63) by (split; [apply Z.log2_nonneg | apply Z.log2_lt_pow2; lia]).
  assert (B : 2 ^ (Z.log2 (v - 1) + 1) <= 2 ^ 63) by (apply Z.pow_le_mono_r; lia).
  assert (Q : 0 < 2 ^ (Z.log2 (v - 1) + 1)) by (apply Z.pow_pos_nonneg; lia).
  rewrite wrap_small by lia. lia.
Qed.

(* least power of two >= v *)
Lemma nextPow2_m_least v : 1 <= v <= 2 ^ 63 ->
  (exists k, 0 <= k <= 63 /\ nextPow2_m v = 2 ^ k) /\ v <= nextPow2_m v /\
  (forall j, 0 <= j -> v <= 2 ^ j -> nextPow2_m v <= 2 ^ j).
Proof.
  intros Hv. rewrite nextPow2_m_log2_up by exact Hv.
  assert (L0 : 0 <= Z.log2_up v) by apply Z.log2_up_nonneg.
  assert (L63 : Z.log2_up v <= 63) by (apply Z.log2_up_le_pow2; lia).
  split; [exists (Z.log2_up v); split; [lia | reflexivity]|]. split.
  - apply Z.log2_up_le_pow2; lia.
  - intros j Hj Hle. apply Z.pow_le_mono_r; [lia|]. apply Z.log2_up_le_pow2; lia.
Qed.

(* outside the documented domain the shifts/increment wrap to 0 *)
Lemma nextPow2_m_zero : nextPow2_m 0 = 0.
Proof. reflexivity. Qed.

Lemma nextPow2_m_big v : 2 ^ 63 < v < 2 ^ 64 -> nextPow2_m v = 0.
Proof.
  intros Hv. unfold nextPow2_m.
  assert (P : 2 ^ 64 = 2 * 2 ^ 63) by reflexivity.
  rewrite (wrap_small 64 (v - 1)) by lia.
  rewrite smear_all_ones by lia.
  assert (L : Z.log2 (v - 1) = 63) by (apply Z.log2_unique; [lia|]; change (2 ^ Z.succ 63) with (2 ^ 64); lia).
  rewrite L. reflexivity.
Qed.

Lemma nextPow2_m_total v : 0 <= v < 2 ^ 64 ->
  nextPow2_m v = if (v =? 0) || (2 ^ 63 <? v) then 0 else 2 ^ Z.log2_up v.
Proof.
  intros Hv. destruct (v =? 0) eqn:E0; cbn [orb].
  - apply Z.eqb_eq in E0; subst v. reflexivity.
  - apply Z.eqb_neq in E0. destruct (2 ^ 63 <? v) eqn:E1.
    + apply Z.ltb_lt in E1. apply nextPow2_m_big; lia.
    + apply Z.ltb_ge in E1. apply nextPow2_m_log2_up; lia.
Qed.

(* ================================================================= log2const *)

(* b[i] of the source: the bits s .. 2s-1 *)
Definition mask_of (s : Z) : Z := Z.shiftl (Z.ones s) s.

Lemma land_mask_zero s v : 0 < s -> 0 <= v < 2 ^ (2 * s) -> (Z.land v (mask_of s) = 0 <-> v < 2 ^ s).
Proof.
  intros Hs Hv; split.
  - intros H0. destruct (Z_lt_le_dec v (2 ^ s)) as [Lt | Ge]; [exact Lt | exfalso].
    assert (P : 0 < 2 ^ s) by (apply Z.pow_pos_nonneg; lia).
    assert (L1 : s <= Z.log2 v) by (apply Z.log2_le_pow2; lia).
    assert (L2 : Z.log2 v < 2 * s) by (apply Z.log2_lt_pow2; lia).
    assert (T : Z.testbit (Z.land v (mask_of s)) (Z.log2 v) = true).
    { rewrite Z.land_spec, Z.bit_log2 by lia. unfold mask_of.
      rewrite Z.shiftl_spec by lia. rewrite Z.ones_spec_low by lia. reflexivity. }
    rewrite H0, Z.bits_0 in T. discriminate T.
  - intros Lt. apply Z.bits_inj'; intros n Hn. rewrite Z.land_spec, Z.bits_0.
    destruct (Z_lt_le_dec n s) as [Lo | Hi].
    + unfold mask_of. rewrite Z.shiftl_spec_low by lia. apply andb_false_r.
    + rewrite <- (Z.mod_small v (2 ^ s)) by lia. rewrite Z.mod_pow2_bits_high by lia. reflexivity.
Qed.

(* r |= s is r + s while r only has bits above s *)
Lemma lor_pow2_add k r : 0 <= k -> (2 * 2 ^ k | r) -> Z.lor r (2 ^ k) = r + 2 ^ k.
Proof.
  intros Hk [q Hq].
  assert (L : Z.land r (2 ^ k) = 0).
  { apply Z.bits_inj'; intros n Hn. rewrite Z.land_spec, Z.bits_0, Z.pow2_bits_eqb by lia.
    destruct (k =? n) eqn:E; [|apply andb_false_r]. apply Z.eqb_eq in E; subst n.
    replace r with (Z.shiftl q (k + 1)).
    - rewrite Z.shiftl_spec_low by lia. reflexivity.
    - rewrite Z.shiftl_mul_pow2 by lia. rewrite Z.pow_add_r by lia. lia. }
  rewrite Z.add_nocarry_lxor by exact L. symmetry. apply Z.lxor_lor. exact L.
Qed.

(* one iteration of the loop, for the table entry (mask_of s, s) with s = 2^k:
   it halves the window in which the highest set bit of v can lie and moves the difference into r *)
Lemma l2step_inv k mask s r v : 0 <= k -> s = 2 ^ k -> mask = mask_of s ->
  1 <= v < 2 ^ (2 * s) -> 0 <= r -> (2 * s | r) ->
  let '(r', v') := l2step mask s (r, v) in
  1 <= v' < 2 ^ s /\ 0 <= r' /\ (s | r') /\ Z.log2 v' + r' = Z.log2 v + r.
Proof.
  intros Hk Hs Hm Hv Hr Hd.
  assert (Ps : 0 < s) by (subst s; apply Z.pow_pos_nonneg; lia).
  assert (P2 : 0 < 2 ^ s) by (apply Z.pow_pos_nonneg; lia).
  assert (D1 : (s | r)) by (destruct Hd as [q Hq]; exists (2 * q); lia).
  unfold l2step. subst mask.
  destruct (Z.land v (mask_of s) =? 0) eqn:E; cbn [negb].
  - apply Z.eqb_eq in E. apply land_mask_zero in E; [|lia|lia]. repeat split; try lia. exact D1.
  - apply Z.eqb_neq in E.
    assert (Ge : 2 ^ s <= v).
    { destruct (Z_lt_le_dec v (2 ^ s)) as [Lt | Ge]; [|exact Ge]. exfalso; apply E. apply land_mask_zero; lia. }
    assert (Sq : 2 ^ (2 * s) = 2 ^ s * 2 ^ s) by (rewrite <- Z.pow_add_r by lia; f_equal; lia).
    assert (L1 : s <= Z.log2 v) by (apply Z.log2_le_pow2; lia).
    rewrite Z.log2_shiftr by lia. rewrite Z.shiftr_div_pow2 by lia.
    assert (Lo : 1 <= v / 2 ^ s) by (apply Z.div_le_lower_bound; lia).
    assert (Hi : v / 2 ^ s < 2 ^ s) by (apply Z.div_lt_upper_bound; lia).
    assert (LA : Z.lor r s = r + s) by (subst s; apply lor_pow2_add; assumption).
    rewrite LA. repeat split; try lia.
    destruct D1 as [q Hq]. exists (q + 1). lia.
Qed.

Lemma log2const64_m_spec v : 1 <= v < 2 ^ 64 -> log2const64_m v = Z.log2 v.
Proof.
  intros Hv. unfold log2const64_m, l2run, l2_table64. cbn [fold_left fst snd].
  pose proof (l2step_inv 5 18446744069414584320 32 0 v ltac:(lia) eq_refl eq_refl Hv ltac:(lia) (Z.divide_0_r _)) as H5.
  destruct (l2step 18446744069414584320 32 (0, v)) as [r5 v5]. destruct H5 as (B5 & R5 & D5 & E5).
  pose proof (l2step_inv 4 4294901760 16 r5 v5 ltac:(lia) eq_refl eq_refl B5 R5 D5) as H4.
  destruct (l2step 4294901760 16 (r5, v5)) as [r4 v4]. destruct H4 as (B4 & R4 & D4 & E4).
  pose proof (l2step_inv 3 65280 8 r4 v4 ltac:(lia) eq_refl eq_refl B4 R4 D4) as H3.
  destruct (l2step 65280 8 (r4, v4)) as [r3 v3]. destruct H3 as (B3 & R3 & D3 & E3).
  pose proof (l2step_inv 2 240 4 r3 v3 ltac:(lia) eq_refl eq_refl B3 R3 D3) as H2.
  destruct (l2step 240 4 (r3, v3)) as [r2 v2]. destruct H2 as (B2 & R2 & D2 & E2).
  pose proof (l2step_inv 1 12 2 r2 v2 ltac:(lia) eq_refl eq_refl B2 R2 D2) as H1.
  destruct (l2step 12 2 (r2, v2)) as [r1 v1]. destruct H1 as (B1 & R1 & D1 & E1).
  pose proof (l2step_inv 0 2 1 r1 v1 ltac:(lia) eq_refl eq_refl B1 R1 D1) as H0.
  destruct (l2step 2 1 (r1, v1)) as [r0 v0]. destruct H0 as (B0 & R0 & D0 & E0).
  assert (V0 : v0 = 1) by (change (2 ^ 1) with 2 in B0; lia). subst v0. change (Z.log2 1) with 0 in E0.
  cbn [fst]. lia.
Qed.

Lemma log2const32_m_spec v : 1 <= v < 2 ^ 32 -> log2const32_m v = Z.log2 v.
Proof.
  intros Hv. unfold log2const32_m, l2run, l2_table32. cbn [fold_left fst snd].
  pose proof (l2step_inv 4 4294901760 16 0 v ltac:(lia) eq_refl eq_refl Hv ltac:(lia) (Z.divide_0_r _)) as H4.
  destruct (l2step 4294901760 16 (0, v)) as [r4 v4]. destruct H4 as (B4 & R4 & D4 & E4).
  pose proof (l2step_inv 3 65280 8 r4 v4 ltac:(lia) eq_refl eq_refl B4 R4 D4) as H3.
  destruct (l2step 65280 8 (r4, v4)) as [r3 v3]. destruct H3 as (B3 & R3 & D3 & E3).
  pose proof (l2step_inv 2 240 4 r3 v3 ltac:(lia) eq_refl eq_refl B3 R3 D3) as H2.
  destruct (l2step 240 4 (r3, v3)) as [r2 v2]. destruct H2 as (B2 & R2 & D2 & E2).
  pose proof (l2step_inv 1 12 2 r2 v2 ltac:(lia) eq_refl eq_refl B2 R2 D2) as H1.
  destruct (l2step 12 2 (r2, v2)) as [r1 v1]. destruct H1 as (B1 & R1 & D1 & E1).
  pose proof (l2step_inv 0 2 1 r1 v1 ltac:(lia) eq_refl eq_refl B1 R1 D1) as H0.
  destruct (l2step 2 1 (r1, v1)) as [r0 v0]. destruct H0 as (B0 & R0 & D0 & E0).
  assert (V0 : v0 = 1) by (change (2 ^ 1) with 2 in B0; lia). subst v0. change (Z.log2 1) with 0 in E0.
  cbn [fst]. lia.
Qed.

(* outside the domain: log2const(0) = 0 *)
Lemma log2const64_m_zero : log2const64_m 0 = 0. Proof. reflexivity. Qed.
Lemma log2const32_m_zero : log2const32_m 0 = 0. Proof. reflexivity. Qed.

(* ================================================================= x & ~(2^k - 1)  (alignToCacheLine, alignedMalloc) *)

Lemma land_not_ones k x : 0 <= k -> 0 <= x < 2 ^ 64 ->
  Z.land x (wrap 64 (Z.lnot (Z.ones k))) = 2 ^ k * (x / 2 ^ k).
Proof.
  intros Hk Hx. unfold wrap. rewrite <- Z.land_ones by lia.
  rewrite (Z.land_comm (Z.lnot (Z.ones k))), Z.land_assoc.
  rewrite (Z.land_ones x 64) by lia. rewrite Z.mod_small by lia.
  rewrite <- Z.ldiff_land, Z.ldiff_ones_r by lia.
  rewrite Z.shiftl_mul_pow2, Z.shiftr_div_pow2 by lia. lia.
Qed.

Lemma alignToCacheLine_m_eq val : 0 <= val -> val + 63 < 2 ^ 64 ->
  alignToCacheLine_m val = 64 * ((val + 63) / 64).
Proof.
  intros H0 H1. unfold alignToCacheLine_m, cacheLine.
  change (wrap 64 (64 - 1)) with (Z.ones 6).
  change (Z.ones 6) with 63 at 1.
  rewrite (wrap_small 64 (val + 63)) by lia.
  rewrite land_not_ones by lia. reflexivity.
Qed.

(* smallest multiple of 64 that is >= val *)
Lemma alignToCacheLine_m_spec val : 0 <= val -> val + 63 < 2 ^ 64 ->
  let r := alignToCacheLine_m val in
  (64 | r) /\ val <= r < val + 64 /\ (forall m, (64 | m) -> val <= m -> r <= m).
Proof.
  intros H0 H1. cbv zeta. rewrite alignToCacheLine_m_eq by assumption.
  pose proof (Z.div_mod (val + 63) 64 ltac:(lia)) as E.
  pose proof (Z.mod_pos_bound (val + 63) 64 ltac:(lia)) as B.
  split; [exists ((val + 63) / 64); lia|]. split; [lia|].
  intros m [q Hq] Hle. subst m.
  assert (Q : (val + 63) / 64 < q + 1); [|lia].
  apply Z.div_lt_upper_bound; lia.
Qed.

(* when val + 63 does not fit in 64 bits the result wraps to 0 (not >= val) *)
Lemma alignToCacheLine_m_wrap val : 2 ^ 64 - 64 < val < 2 ^ 64 -> alignToCacheLine_m val = 0.
Proof.
  intros H. unfold alignToCacheLine_m, cacheLine.
  change (wrap 64 (64 - 1)) with (Z.ones 6).
  change (Z.ones 6) with 63 at 1.
  assert (W : wrap 64 (val + 63) = val + 63 - 2 ^ 64).
  { unfold wrap. symmetry. apply (Z.mod_unique (val + 63) (2 ^ 64) 1); lia. }
  rewrite W. rewrite land_not_ones by lia.
  change (2 ^ 6) with 64. rewrite Z.div_small by lia. reflexivity.
Qed.

(* ================================================================= memory: 64-bit little-endian words over bytes *)

Lemma encode_length n v : length (encode n v) = n.
Proof. revert v; induction n; intros; cbn [encode length]; [reflexivity | rewrite IHn; reflexivity]. Qed.

Lemma decode_encode n v : decode (encode n v) = v mod 256 ^ Z.of_nat n.
Proof.
  revert v; induction n; intros v.
  - cbn. rewrite Z.mod_1_r. reflexivity.
  - cbn [encode decode]. rewrite IHn. rewrite Nat2Z.inj_succ, Z.pow_succ_r by lia.
    rewrite Z.rem_mul_r; [reflexivity | lia | apply Z.pow_pos_nonneg; lia].
Qed.

Lemma store_bytes_outside l : forall m a x, x < a \/ a + Z.of_nat (length l) <= x -> store_bytes m a l x = m x.
Proof.
  induction l as [|b r IH]; intros m a x H; cbn [store_bytes]; [reflexivity|].
  cbn [length] in H. rewrite Nat2Z.inj_succ in H.
  rewrite IH by lia. unfold upd. destruct (x =? a) eqn:E; [apply Z.eqb_eq in E; lia | reflexivity].
Qed.

Lemma load_store_bytes l : forall m a, load_bytes (store_bytes m a l) a (length l) = l.
Proof.
  induction l as [|b r IH]; intros m a; cbn [store_bytes load_bytes length]; [reflexivity|].
  rewrite IH. rewrite store_bytes_outside by lia. unfold upd. rewrite Z.eqb_refl. reflexivity.
Qed.

Lemma load64_store64 m a v : 0 <= v < 2 ^ 64 -> load64 (store64 m a v) a = v.
Proof.
  intros Hv. unfold load64, store64.
  rewrite <- (encode_length 8 v) at 2. rewrite load_store_bytes, decode_encode.
  change (256 ^ Z.of_nat 8) with (2 ^ 64). apply Z.mod_small; exact Hv.
Qed.

Lemma load_bytes_ext n : forall m1 m2 a, (forall x, a <= x < a + Z.of_nat n -> m1 x = m2 x) ->
  load_bytes m1 a n = load_bytes m2 a n.
Proof.
  induction n; intros m1 m2 a H; cbn [load_bytes]; [reflexivity|].
  rewrite Nat2Z.inj_succ in H. f_equal; [apply H; lia | apply IHn; intros; apply H; lia].
Qed.

(* byte writes outside [a, a+8) do not change the word at a *)
Fixpoint write_all (m : mem) (ws : list (Z * Z)) : mem :=
  match ws with [] => m | (x, b) :: r => write_all (upd m x b) r end.

Lemma write_all_outside ws : forall m y, (forall x b, In (x, b) ws -> x <> y) -> write_all m ws y = m y.
Proof.
  induction ws as [|[x b] r IH]; intros m y H; cbn [write_all]; [reflexivity|].
  rewrite IH by (intros; apply (H x0 b0); right; assumption).
  unfold upd. destruct (y =? x) eqn:E; [|reflexivity].
  apply Z.eqb_eq in E. exfalso. apply (H x b); [left; reflexivity | congruence].
Qed.

Lemma load64_write_all m ws a : (forall x b, In (x, b) ws -> x < a \/ a + 8 <= x) ->
  load64 (write_all m ws) a = load64 m a.
Proof.
  intros H. unfold load64. f_equal. apply load_bytes_ext. intros y Hy.
  apply write_all_outside. intros x b Hin. specialize (H x b Hin). change (Z.of_nat 8) with 8 in Hy. lia.
Qed.

(* ================================================================= alignedMalloc / alignedFree *)

Lemma am_align_pow2 k : 0 <= k -> am_align (2 ^ k) = 2 ^ Z.max k 3.
Proof.
  intros Hk. unfold am_align. destruct (Z_le_gt_dec k 3) as [Le | Gt].
  - rewrite (Z.max_r k 3) by lia. change 8 with (2 ^ 3). apply Z.max_r. apply Z.pow_le_mono_r; lia.
  - rewrite (Z.max_l k 3) by lia. apply Z.max_l. change 8 with (2 ^ 3). apply Z.pow_le_mono_r; lia.
Qed.

(* (p + A) & ~(A - 1) = first multiple of A strictly above p *)
Lemma am_base_spec k p : 0 <= k -> 0 <= p -> p + Z.max (2 ^ k) 8 < 2 ^ 64 ->
  let A := Z.max (2 ^ k) 8 in am_base p (2 ^ k) = A * (p / A) + A.
Proof.
  intros Hk Hp Hfit. cbv zeta. unfold am_base. fold (am_align (2 ^ k)) in *.
  rewrite am_align_pow2 in * by exact Hk.
  set (j := Z.max k 3) in *. assert (Hj : 0 <= j) by lia.
  assert (PA : 0 < 2 ^ j) by (apply Z.pow_pos_nonneg; lia).
  cbv zeta.
  rewrite (wrap_small 64 (2 ^ j - 1)) by lia.
  replace (2 ^ j - 1) with (Z.ones j) by (rewrite Z.ones_equiv; lia).
  rewrite (wrap_small 64 (p + 2 ^ j)) by lia.
  rewrite land_not_ones by lia.
  replace (p + 2 ^ j) with (p + 1 * 2 ^ j) by lia. rewrite Z.div_add by lia. lia.
Qed.

Lemma alignedMalloc_aligned_proof k p bytes m :
  0 <= k <= 63 -> 0 < p -> (8 | p) -> 0 <= bytes -> p + (bytes + Z.max (2 ^ k) 8) < 2 ^ 64 ->
  let a := 2 ^ k in
  let req := am_request bytes a in
  let '(m', ret) := alignedMalloc_m m p a in
  req = bytes + Z.max a 8 /\
  (a | ret) /\
  p + 8 <= ret /\ ret + bytes <= p + req /\
  am_recovery p a = ret - 8 /\
  alignedFree_m m' ret = Some p /\
  (forall ws, (forall x b, In (x, b) ws -> ret <= x < ret + bytes) -> alignedFree_m (write_all m' ws) ret = Some p).
Proof.
  intros Hk Hp H8 Hb Hfit. cbv zeta. unfold alignedMalloc_m, am_request.
  assert (Pk : 0 < 2 ^ k) by (apply Z.pow_pos_nonneg; lia).
  set (A := Z.max (2 ^ k) 8) in *.
  assert (EA : am_align (2 ^ k) = A) by reflexivity. rewrite EA.
  assert (HA : 8 <= A) by (unfold A; lia).
  pose proof (am_base_spec k p ltac:(lia) ltac:(lia) ltac:(fold A; lia)) as EB. cbv zeta in EB. fold A in EB.
  set (ret := am_base p (2 ^ k)) in *.
  pose proof (Z.div_mod p A ltac:(lia)) as DM. pose proof (Z.mod_pos_bound p A ltac:(lia)) as MB.
  (* A is a multiple of both 2^k and 8 *)
  assert (DA : (2 ^ k | A) /\ (8 | A)).
  { pose proof (am_align_pow2 k ltac:(lia)) as E. rewrite EA in E. rewrite E. split.
    - exists (2 ^ (Z.max k 3 - k)). rewrite <- Z.pow_add_r by lia. f_equal; lia.
    - exists (2 ^ (Z.max k 3 - 3)). change 8 with (2 ^ 3). rewrite <- Z.pow_add_r by lia. f_equal; lia. }
  destruct DA as [DAk DA8].
  assert (Dret : (A | ret)) by (exists (p / A + 1); lia).
  assert (D8 : (8 | ret - p)).
  { apply Z.divide_sub_r; [|exact H8]. apply Z.divide_trans with A; assumption. }
  assert (Lo : p + 8 <= ret) by (destruct D8 as [q Hq]; lia).
  assert (ER : am_recovery p (2 ^ k) = ret - 8) by (unfold am_recovery; fold ret; apply wrap_small; lia).
  assert (W8 : wrap 64 (ret - 8) = ret - 8) by (apply wrap_small; lia).
  assert (NZ : (ret =? 0) = false) by (apply Z.eqb_neq; lia).
  split; [apply wrap_small; lia|].
  split; [apply Z.divide_trans with A; assumption|].
  split; [exact Lo|]. split; [rewrite wrap_small by lia; lia|]. split; [exact ER|].
  rewrite ER. unfold alignedFree_m. rewrite NZ, W8. split.
  - rewrite load64_store64 by lia. reflexivity.
  - intros ws Hws. rewrite load64_write_all.
    + rewrite load64_store64 by lia. reflexivity.
    + intros x b Hin. specialize (Hws x b Hin). lia.
Qed.

(* the hypothesis (8 | p) (malloc returns word-aligned blocks) is needed: for p = 9, alignment 8 the recovery word
   starts below the block *)
Lemma am_unaligned_malloc_counterexample : am_recovery 9 8 = 8 /\ am_base 9 8 = 16.
Proof. split; reflexivity. Qed.

(* alignedFree(nullptr) does nothing *)
Lemma alignedFree_m_null m : alignedFree_m m 0 = None.
Proof. reflexivity. Qed.

(* ================================================================= intrinsics: the model is the specification *)

Lemma log2_m_spec v : 0 < v -> 2 ^ log2_m v <= v < 2 ^ (log2_m v + 1).
Proof. intros H. unfold log2_m. apply Z.log2_spec. exact H. Qed.

Lemma ctz_from_spec fuel : forall i v, 0 <= i ->
  (forall j, 0 <= j < i -> Z.testbit v j = false) ->
  (exists j, i <= j < i + Z.of_nat fuel /\ Z.testbit v j = true) ->
  let c := ctz_from fuel i v in
  i <= c < i + Z.of_nat fuel /\ Z.testbit v c = true /\ forall j, 0 <= j < c -> Z.testbit v j = false.
Proof.
  induction fuel as [|f IH]; intros i v Hi Hlow [j [Hj Hb]]; [lia|].
  cbn [ctz_from]. rewrite Nat2Z.inj_succ in *. destruct (Z.testbit v i) eqn:E.
  - cbv zeta. split; [lia|]. split; [exact E | exact Hlow].
  - assert (Hji : j <> i) by (intros ->; congruence).
    specialize (IH (i + 1) v ltac:(lia)). cbv zeta in IH.
    destruct IH as (R & T & L).
    + intros j' Hj'. destruct (Z.eq_dec j' i) as [-> | N]; [exact E | apply Hlow; lia].
    + exists j; split; [lia | exact Hb].
    + cbv zeta. split; [lia|]. split; assumption.
Qed.

(* countTrailingZeros model: the lowest set bit *)
Lemma ctz_m_spec v : 0 < v < 2 ^ 64 ->
  0 <= ctz_m v < 64 /\ Z.testbit v (ctz_m v) = true /\ forall j, 0 <= j < ctz_m v -> Z.testbit v j = false.
Proof.
  intros Hv. unfold ctz_m.
  pose proof (ctz_from_spec 64 0 v ltac:(lia)) as H. cbv zeta in H. change (Z.of_nat 64) with 64 in H.
  apply H.
  - intros j Hj; lia.
  - exists (Z.log2 v). split; [|apply Z.bit_log2; lia].
    split; [apply Z.log2_nonneg | apply Z.log2_lt_pow2; lia].
Qed.

(* 2^ctz divides v and 2^(ctz+1) does not *)
Lemma ctz_m_divides v : 0 < v < 2 ^ 64 -> v mod 2 ^ ctz_m v = 0 /\ v mod 2 ^ (ctz_m v + 1) <> 0.
Proof.
  intros Hv. destruct (ctz_m_spec v Hv) as (R & T & L). split.
  - apply Z.bits_inj'; intros n Hn. rewrite Z.bits_0.
    destruct (Z_lt_le_dec n (ctz_m v)).
    + rewrite Z.mod_pow2_bits_low by lia. apply L; lia.
    + apply Z.mod_pow2_bits_high; lia.
  - intros H0. assert (B : Z.testbit (v mod 2 ^ (ctz_m v + 1)) (ctz_m v) = true).
    { rewrite Z.mod_pow2_bits_low by lia. exact T. }
    rewrite H0, Z.bits_0 in B. discriminate B.
Qed.
