(* Shared proof infrastructure for the pipeline properties (C27, C28, C29) over Model/PipelineModel.v.
   - [reach (mstep c)]: reachability by single frame transitions (finer than the scheduler's [step]; every state visited by [step]
     / [run_pipe] is mstep-reachable: [step_reach], [run_pipe_reach]);
   - "measures": linear weight functions over frames, gate-queue entries, pool-bag entries and log events; every accounting
     invariant of the proofs is a linear relation between the total of a measure and a few counters of the shared state;
   - specifications of the helper functions of the model (dequeue, dispatch, tryExecuteNext) that hide the queue policy and the
     inline decision: the proofs hold for EVERY policy / oracle;
   - [step_cases]: the case analysis of one frame transition. *)
From Coq Require Import ZArith List Bool Lia.
From DV Require Import Base.MachInt Base.Sched Model.PipelineModel.
Import ListNotations.
Local Open Scope Z_scope.

(* ---------- sums over lists ---------- *)
Fixpoint sumf {A} (w : A -> Z) (l : list A) : Z := match l with [] => 0 | x :: r => w x + sumf w r end.

Lemma sumf_app {A} (w : A -> Z) l1 l2 : sumf w (l1 ++ l2) = sumf w l1 + sumf w l2.
Proof. induction l1 as [|a l IH]; cbn; [reflexivity | rewrite IH; lia]. Qed.

Lemma sumf_remove_at {A} (w : A -> Z) l i x : nth_error l i = Some x -> sumf w l = w x + sumf w (remove_at i l).
Proof.
  revert i; induction l as [|a l IH]; intros [|i] H; cbn in *; try discriminate.
  - injection H as ->. reflexivity.
  - rewrite (IH _ H). lia.
Qed.

Lemma sumf_set_nth {A} (w : A -> Z) l i x y : nth_error l i = Some x -> sumf w (set_nth l i y) = sumf w l - w x + w y.
Proof.
  revert i; induction l as [|a l IH]; intros [|i] H; cbn in *; try discriminate.
  - injection H as ->. lia.
  - rewrite (IH _ H). lia.
Qed.

Lemma sumf_nonneg {A} (w : A -> Z) l : (forall x, 0 <= w x) -> 0 <= sumf w l.
Proof. intros H. induction l as [|a l IH]; cbn; [lia | specialize (H a); lia]. Qed.

Lemma sumf_ext {A} (w1 w2 : A -> Z) l : (forall x, w1 x = w2 x) -> sumf w1 l = sumf w2 l.
Proof. intros H. induction l as [|a l IH]; cbn; [reflexivity | rewrite H, IH; reflexivity]. Qed.

Lemma sumf_zero {A} (w : A -> Z) l : (forall x, In x l -> w x = 0) -> sumf w l = 0.
Proof. intros H. induction l as [|a l IH]; cbn; [reflexivity|]. rewrite (H a (or_introl eq_refl)), IH; [reflexivity|]. intros x Hx. apply H. right. exact Hx. Qed.

Lemma sumf_pos_in {A} (w : A -> Z) l : (forall x, 0 <= w x) -> 0 < sumf w l -> exists x, In x l /\ 0 < w x.
Proof.
  intros N. induction l as [|a l IH]; cbn; [lia|]. intros P.
  destruct (Z_lt_le_dec 0 (w a)) as [Q|Q]; [exists a; split; [left; reflexivity | exact Q]|].
  destruct IH as [x [Hx Px]]; [pose proof (N a); lia|]. exists x. split; [right; exact Hx | exact Px].
Qed.

Lemma sumf_in_le {A} (w : A -> Z) l x : (forall y, 0 <= w y) -> In x l -> w x <= sumf w l.
Proof.
  intros N. induction l as [|a l IH]; cbn; [contradiction|]. intros [->|H].
  - pose proof (sumf_nonneg w l N). lia.
  - specialize (IH H). pose proof (N a). lia.
Qed.

(* ---------- measures ---------- *)
Record meas := MS { mf : frame -> Z; mq : nat -> item -> Z; mb : ptask -> Z; me : event -> Z }.

Definition stackw (m : meas) (st : list frame) : Z := sumf (mf m) st.
Definition qw (m : meas) (j : nat) (q : list (nat * item)) : Z := sumf (fun e => mq m j (snd e)) q.
Fixpoint gatesw (m : meas) (j : nat) (gs : list gate) : Z :=
  match gs with [] => 0 | g :: r => qw m j (g_q g) + gatesw m (S j) r end.
Definition bagw (m : meas) (b : list (nat * ptask)) : Z := sumf (fun e => mb m (snd e)) b.
Definition logw (m : meas) (l : list event) : Z := sumf (me m) l.
Definition shw (m : meas) (s : shared) : Z := gatesw m 0 (gates s) + bagw m (bag s) + logw m (log s).
Definition thsw (m : meas) (ths : list thread) : Z := sumf (fun th => stackw m (stack th)) ths.
Definition total (m : meas) (s : state) : Z := shw m (sh s) + thsw m (threads s).

Definition nonneg (m : meas) : Prop :=
  (forall f, 0 <= mf m f) /\ (forall j x, 0 <= mq m j x) /\ (forall x, 0 <= mb m x) /\ (forall x, 0 <= me m x).

Lemma gatesw_nonneg m j gs : nonneg m -> 0 <= gatesw m j gs.
Proof.
  intros (_ & Q & _). revert j; induction gs as [|g r IH]; intros j; cbn; [lia|].
  specialize (IH (S j)). assert (0 <= qw m j (g_q g)) by (apply sumf_nonneg; intros; apply Q). lia.
Qed.

Lemma total_nonneg m s : nonneg m -> 0 <= total m s.
Proof.
  intros N. pose proof (gatesw_nonneg m 0 (gates (sh s)) N) as G. destruct N as (F & Q & B & E).
  unfold total, shw, thsw, bagw, logw.
  assert (0 <= sumf (fun e => mb m (snd e)) (bag (sh s))) by (apply sumf_nonneg; intros; apply B).
  assert (0 <= sumf (me m) (log (sh s))) by (apply sumf_nonneg; exact E).
  assert (0 <= sumf (fun th => stackw m (stack th)) (threads s)) by (apply sumf_nonneg; intros; apply sumf_nonneg; exact F).
  lia.
Qed.

(* gate list updates *)
Lemma upd_nth_length {A} n (f : A -> A) l : length (upd_nth n f l) = length l.
Proof. revert n; induction l as [|a l IH]; intros [|n]; cbn; auto. Qed.

Lemma nth_upd_nth_same {A} n (f : A -> A) l d : (n < length l)%nat -> nth n (upd_nth n f l) d = f (nth n l d).
Proof. revert n; induction l as [|a l IH]; intros [|n] H; cbn in *; try lia; [reflexivity | apply IH; lia]. Qed.

Lemma nth_upd_nth_other {A} n k (f : A -> A) l d : n <> k -> nth k (upd_nth n f l) d = nth k l d.
Proof. revert n k; induction l as [|a l IH]; intros [|n] [|k] H; cbn; try reflexivity; try congruence. apply IH. congruence. Qed.

Lemma gatesw_upd m k n f gs :
  (n < length gs)%nat ->
  gatesw m k (upd_nth n f gs) = gatesw m k gs - qw m (k + n) (g_q (nth n gs dflt_gate)) + qw m (k + n) (g_q (f (nth n gs dflt_gate))).
Proof.
  revert k n; induction gs as [|g r IH]; intros k [|n] H; cbn in *; try lia.
  - rewrite Nat.add_0_r. lia.
  - rewrite (IH (S k) n) by lia. replace (S k + n)%nat with (k + S n)%nat by lia. lia.
Qed.

Lemma gatesw_upd_sameq m k n f gs : (forall g, g_q (f g) = g_q g) -> gatesw m k (upd_nth n f gs) = gatesw m k gs.
Proof.
  intros Q. revert k n; induction gs as [|g r IH]; intros k [|n]; cbn; try reflexivity.
  - rewrite Q. reflexivity.
  - rewrite IH. reflexivity.
Qed.

(* ---------- specifications of the helpers (valid for every queue policy and every inline policy) ---------- *)
Lemma deq_spec {A} orc prods (q : list (nat * A)) ch r ch' :
  deq orc prods q ch = (r, ch') -> r = None \/ exists i p x, nth_error q i = Some (p, x) /\ r = Some (x, remove_at i q).
Proof.
  unfold deq. destruct (pick_idx orc prods q ch) as [[i|] c1]; intros H.
  - destruct (nth_error q i) as [[p x]|] eqn:E; injection H as <- <-; [right; eauto | left; reflexivity].
  - injection H as <- <-. left; reflexivity.
Qed.

Lemma gate_deq_spec c s j ch r ch' :
  gate_deq c s j ch = (r, ch') ->
  r = None \/ exists i p x, nth_error (g_q (gate_at s j)) i = Some (p, x) /\
                          r = Some (x, upd_gate s j (g_w_q (remove_at i (g_q (gate_at s j))) (g_prods (gate_at s j)))).
Proof.
  unfold gate_deq. destruct (deq _ _ _ ch) as [r0 c1] eqn:D. apply deq_spec in D.
  destruct D as [->|(i & p & x & N & ->)]; intros H; injection H as <- <-; [left; reflexivity | right; eauto].
Qed.

Lemma try_exec_spec c s th ch s' th' ch' :
  try_exec c s th ch = (s', th', ch') ->
  (s' = s /\ th' = th) \/
  exists i p tk, nth_error (bag s) i = Some (p, tk) /\ s' = w_bag s (remove_at i (bag s)) (bprods s) /\ th' = push th (FPool tk PRun).
Proof.
  unfold try_exec. destruct (deq _ _ _ ch) as [r0 c1] eqn:D. apply deq_spec in D.
  destruct D as [->|(i & p & x & N & ->)]; intros H; injection H as <- <- <-; [left; auto | right; eauto 7].
Qed.

Lemma dispatch_spec c t s th tk force ch s' th' ch' :
  dispatch c t s th tk force ch = (s', th', ch') ->
  (s' = w_pout (w_bag s (bag s ++ [(t, tk)]) (enq_prods t (bprods s))) (pout s + 1) /\ th' = th) \/
  (exists fr, body_frame t s tk = (s', fr) /\ th' = w_depth (w_stack th (fr :: FInline :: stack th)) (depth th + 1)).
Proof.
  unfold dispatch. destruct (inline_decision c s th force ch) as [b c1]. destruct b.
  - destruct (body_frame t s tk) as [s1 fr] eqn:B. intros H; injection H as <- <- <-. right. exists fr. auto.
  - intros H; injection H as <- <- <-. left. auto.
Qed.

Lemma body_frame_spec t s tk s' fr :
  body_frame t s tk = (s', fr) ->
  match tk with
  | TGen => s' = s /\ fr = FGen GExc
  | TL j it => s' = add_log s (ev t 1 (Z.of_nat j) it) /\ fr = FTask true j it TBody true
  | TU j it => s' = s /\ fr = FTask false j it TUExc false
  end.
Proof. destruct tk; cbn; intros H; injection H as <- <-; auto. Qed.

Lemma try_set_spec t s e s' won :
  try_set t s e = (s', won) ->
  (exc s = None /\ won = true /\ s' = add_log (w_exc s (Some e)) (EV (Z.of_nat t) 16 (-1) e 0)) \/ (exc s <> None /\ won = false /\ s' = s).
Proof. unfold try_set. destruct (exc s) eqn:E; intros H; injection H as <- <-; [right | left]; repeat split; congruence. Qed.

(* ---------- from the state-level step to the thread-level step ---------- *)
Definition wake1 (th : thread) : thread :=
  match stack th with FMain MBlocked :: r => w_stack th (FMain MWoken :: r) | _ => th end.
Lemma wake_all_map ths : wake_all ths = map wake1 ths.
Proof. reflexivity. Qed.

Lemma mstep_inv c s t ch s' ch' site :
  mstep c s t ch = Some (s', ch', site) ->
  exists th s1 th1 wake, nth_error (threads s) t = Some th /\ mstep_thread c t (sh s) th ch = Some (s1, th1, ch', site, wake) /\
     s' = ST s1 (set_nth (if wake then wake_all (threads s) else threads s) t th1).
Proof.
  unfold mstep. destruct (nth_error (threads s) t) as [th|] eqn:N; [|discriminate].
  destruct (mstep_thread c t (sh s) th ch) as [[[[[s1 th1] c1] si] wk]|] eqn:M; [|discriminate].
  intros H; injection H as <- <- <-. exists th, s1, th1, wk. auto.
Qed.

Lemma stackw_wake1 m th : mf m (FMain MBlocked) = mf m (FMain MWoken) -> stackw m (stack (wake1 th)) = stackw m (stack th).
Proof.
  intros E. unfold wake1. destruct (stack th) as [|f r] eqn:S; [rewrite S; reflexivity|].
  destruct f; try (rewrite S; reflexivity). destruct pc; try (rewrite S; reflexivity). cbn. unfold stackw; cbn. rewrite E. reflexivity.
Qed.

Lemma thsw_wake m ths : mf m (FMain MBlocked) = mf m (FMain MWoken) -> thsw m (wake_all ths) = thsw m ths.
Proof.
  intros E. unfold thsw. rewrite wake_all_map. induction ths as [|a l IH]; cbn; [reflexivity|].
  rewrite (stackw_wake1 m a E), IH. reflexivity.
Qed.

Lemma nth_error_wake ths t th : nth_error ths t = Some th -> nth_error (wake_all ths) t = Some (wake1 th).
Proof. intros H. rewrite wake_all_map. rewrite nth_error_map, H. reflexivity. Qed.

(* the change of a measure's total across a step is the change seen by the stepping thread *)
Lemma total_mstep m c s t ch s' ch' site :
  mf m (FMain MBlocked) = mf m (FMain MWoken) ->
  mstep c s t ch = Some (s', ch', site) ->
  exists th th1 wake, nth_error (threads s) t = Some th /\ mstep_thread c t (sh s) th ch = Some (sh s', th1, ch', site, wake) /\
    total m s' - total m s = (shw m (sh s') + stackw m (stack th1)) - (shw m (sh s) + stackw m (stack th)).
Proof.
  intros E H. apply mstep_inv in H. destruct H as (th & s1 & th1 & wake & N & M & ->).
  exists th, th1, wake. split; [exact N|]. split; [exact M|]. unfold total; cbn [sh threads].
  assert (T : thsw m (set_nth (if wake then wake_all (threads s) else threads s) t th1) = thsw m (threads s) - stackw m (stack th) + stackw m (stack th1)).
  { unfold thsw. destruct wake.
    - rewrite (sumf_set_nth _ _ _ (wake1 th) th1) by (apply nth_error_wake; exact N).
      fold (thsw m (wake_all (threads s))). rewrite (thsw_wake m _ E). rewrite (stackw_wake1 m th E). reflexivity.
    - rewrite (sumf_set_nth _ _ _ th th1) by exact N. reflexivity. }
  rewrite T. lia.
Qed.

(* Forall-style invariants over the threads *)
Lemma Forall_set_nth {A} (P : A -> Prop) l t x : Forall P l -> P x -> Forall P (set_nth l t x).
Proof.
  intros F Px. revert t; induction F as [|a l Pa F IH]; intros [|t]; cbn; constructor; auto.
Qed.

Lemma Forall_threads_mstep (P : thread -> Prop) c s t ch s' ch' site :
  (forall th, P th -> P (wake1 th)) ->
  Forall P (threads s) -> mstep c s t ch = Some (s', ch', site) ->
  (forall th th1 wake, nth_error (threads s) t = Some th -> P th -> mstep_thread c t (sh s) th ch = Some (sh s', th1, ch', site, wake) -> P th1) ->
  Forall P (threads s').
Proof.
  intros W F H K. apply mstep_inv in H. destruct H as (th & s1 & th1 & wake & N & M & ->). cbn [threads sh] in *.
  assert (Pth : P th) by (rewrite Forall_forall in F; apply F; eapply nth_error_In; eauto).
  apply Forall_set_nth; [|eapply K; eauto].
  destruct wake; [|exact F]. rewrite wake_all_map. apply Forall_forall. intros x Hx. apply in_map_iff in Hx. destruct Hx as [y [<- Hy]].
  apply W. rewrite Forall_forall in F. apply F, Hy.
Qed.

(* reachability by scheduler steps is reachability by frame transitions *)
Lemma settle_reach c fuel : forall s t ch s' ch' s0, settle c fuel s t ch = Some (s', ch') -> reach (mstep c) s0 s -> reach (mstep c) s0 s'.
Proof.
  induction fuel as [|f IH]; intros s t ch s' ch' s0 H R; cbn in H.
  - destruct (nth_error (threads s) t); [|discriminate]. destruct (th_kind t0 =? 2); [discriminate|]. injection H as <- _. exact R.
  - destruct (nth_error (threads s) t); [|discriminate]. destruct (th_kind t0 =? 2).
    + destruct (mstep c s t ch) as [[[s1 c1] si]|] eqn:M; [|discriminate]. eapply IH; [exact H|]. eapply reach_step; eauto.
    + injection H as <- _. exact R.
Qed.

Lemma step_reach c s t ch s' ch' site s0 : step c s t ch = Some (s', ch', site) -> reach (mstep c) s0 s -> reach (mstep c) s0 s'.
Proof.
  unfold step. destruct (nth_error (threads s) t); [|discriminate]. destruct (th_kind t0 =? 1); [|discriminate].
  destruct (mstep c s t ch) as [[[s1 c1] si]|] eqn:M; [|discriminate].
  destruct (settle c 1000 s1 t c1) as [[s2 c2]|] eqn:S; [|discriminate]. intros H R. injection H as <- _ _.
  eapply settle_reach; [exact S|]. eapply reach_step; eauto.
Qed.

Lemma reach_step_mstep c s0 s : reach (step c) s0 s -> reach (mstep c) s0 s.
Proof. intros R. induction R as [|s t ch s' ch' site R IH E]; [apply reach_refl | eapply step_reach; eauto]. Qed.

Lemma run_pipe_reach fuel c sched : reach (mstep c) (init c) (fst (fst (run_pipe fuel c sched))).
Proof. apply reach_step_mstep. unfold run_pipe. apply run_reach. apply reach_refl. Qed.

(* ---------- how the shared part of a measure changes under the primitive updates ---------- *)
Section ShW.
  Variable m : meas.
  Lemma shw_w_pout s x : shw m (w_pout s x) = shw m s. Proof. reflexivity. Qed.
  Lemma shw_w_exc s x : shw m (w_exc s x) = shw m s. Proof. reflexivity. Qed.
  Lemma shw_w_canceled s x : shw m (w_canceled s x) = shw m s. Proof. reflexivity. Qed.
  Lemma shw_w_compl s x : shw m (w_compl s x) = shw m s. Proof. reflexivity. Qed.
  Lemma shw_w_gnext s x : shw m (w_gnext s x) = shw m s. Proof. reflexivity. Qed.
  Lemma shw_w_done s x : shw m (w_done s x) = shw m s. Proof. reflexivity. Qed.
  Lemma shw_w_result s x : shw m (w_result s x) = shw m s. Proof. reflexivity. Qed.
  Lemma shw_add_log s e : shw m (add_log s e) = shw m s + me m e.
  Proof. unfold shw, logw, add_log; cbn [gates bag log sumf]. lia. Qed.
  Lemma shw_bag_app s t tk p : shw m (w_bag s (bag s ++ [(t, tk)]) p) = shw m s + mb m tk.
  Proof. unfold shw, bagw, w_bag; cbn [gates bag log]. rewrite sumf_app. cbn [sumf snd]. lia. Qed.
  Lemma shw_bag_rem s i p tk p' : nth_error (bag s) i = Some (p, tk) -> shw m (w_bag s (remove_at i (bag s)) p') = shw m s - mb m tk.
  Proof. intros N. unfold shw, bagw, w_bag; cbn [gates bag log]. rewrite (sumf_remove_at _ _ _ _ N). cbn [snd]. lia. Qed.
  Lemma shw_upd_res s j d : shw m (upd_gate s j (g_w_res d)) = shw m s.
  Proof. unfold shw, upd_gate, w_gates; cbn [gates bag log]. rewrite gatesw_upd_sameq; [reflexivity | intros; reflexivity]. Qed.
  Lemma shw_upd_out s j d : shw m (upd_gate s j (g_w_out d)) = shw m s.
  Proof. unfold shw, upd_gate, w_gates; cbn [gates bag log]. rewrite gatesw_upd_sameq; [reflexivity | intros; reflexivity]. Qed.
  Lemma shw_gate_enq s j t it : (j < length (gates s))%nat -> shw m (gate_enq s j t it) = shw m s + mq m j it.
  Proof.
    intros L. unfold shw, gate_enq, upd_gate, w_gates; cbn [gates bag log]. rewrite gatesw_upd by exact L.
    cbn [g_q g_w_q]. unfold qw. rewrite sumf_app. cbn [sumf snd]. rewrite Nat.add_0_l. lia.
  Qed.
  Lemma shw_gate_rem s j i p x pr :
    (j < length (gates s))%nat -> nth_error (g_q (gate_at s j)) i = Some (p, x) ->
    shw m (upd_gate s j (g_w_q (remove_at i (g_q (gate_at s j))) pr)) = shw m s - mq m j x.
  Proof.
    intros L N. unfold shw, upd_gate, w_gates; cbn [gates bag log]. rewrite gatesw_upd by exact L.
    cbn [g_q g_w_q]. rewrite Nat.add_0_l. unfold gate_at in *. unfold qw.
    rewrite (sumf_remove_at (fun e => mq m j (snd e)) _ _ _ N). cbn [snd]. lia.
  Qed.

  (* destruction of the pipes: every queue entry becomes a "stranded" event *)
  Fixpoint strandw (t : nat) (j : nat) (gs : list gate) : Z :=
    match gs with [] => 0 | g :: r => sumf (fun e => me m (ev t 11 (Z.of_nat j) (snd e))) (g_q g) + strandw t (S j) r end.
  Lemma logw_strand_q t j q s : logw m (log (strand_q t j q s)) = logw m (log s) + sumf (fun e => me m (ev t 11 (Z.of_nat j) (snd e))) q.
  Proof.
    revert s; induction q as [|[p it] q IH]; intros s; cbn; [lia|]. rewrite IH. unfold logw; cbn. lia.
  Qed.
  Lemma strand_q_gates t j q s : gates (strand_q t j q s) = gates s /\ bag (strand_q t j q s) = bag s.
  Proof. revert s; induction q as [|[p it] q IH]; intros s; cbn; [auto|]. destruct (IH (add_log s (ev t 11 (Z.of_nat j) it))) as [A B]. rewrite A, B. auto. Qed.
  Lemma logw_strand_gates t j gs s : logw m (log (strand_gates t j gs s)) = logw m (log s) + strandw t j gs.
  Proof.
    revert j s; induction gs as [|g r IH]; intros j s; cbn; [lia|]. rewrite IH, logw_strand_q. lia.
  Qed.
  Lemma strand_gates_bag t j gs s : bag (strand_gates t j gs s) = bag s.
  Proof. revert j s; induction gs as [|g r IH]; intros j s; cbn; [reflexivity|]. rewrite IH. apply strand_q_gates. Qed.
  Lemma gatesw_emptied k gs : gatesw m k (map (fun g => g_w_q [] (g_prods g) g) gs) = 0.
  Proof. revert k; induction gs as [|g r IH]; intros k; cbn; [reflexivity | rewrite IH; reflexivity]. Qed.
  Lemma shw_destroy t s : shw m (destroy_pipes t s) = shw m s - gatesw m 0 (gates s) + strandw t 0 (gates s).
  Proof.
    unfold shw, destroy_pipes, w_gates; cbn [gates bag log]. rewrite gatesw_emptied, strand_gates_bag, logw_strand_gates. lia.
  Qed.
  Lemma strandw_eq_gatesw t k gs : (forall j it, me m (ev t 11 (Z.of_nat j) it) = mq m j it) -> strandw t k gs = gatesw m k gs.
  Proof. intros E. revert k; induction gs as [|g r IH]; intros k; cbn; [reflexivity|]. rewrite IH. unfold qw. f_equal. apply sumf_ext. intros x. apply E. Qed.
  Lemma strandw_zero t k gs : (forall j it, me m (ev t 11 (Z.of_nat j) it) = 0) -> strandw t k gs = 0.
  Proof. intros E. revert k; induction gs as [|g r IH]; intros k; cbn; [reflexivity|]. rewrite IH. rewrite sumf_zero; [reflexivity | intros; apply E]. Qed.
End ShW.

Lemma gate_at_upd_same s j f : (j < length (gates s))%nat -> gate_at (upd_gate s j f) j = f (gate_at s j).
Proof. intros L. unfold gate_at, upd_gate; cbn. apply nth_upd_nth_same. exact L. Qed.
Lemma gate_at_upd_other s j k f : j <> k -> gate_at (upd_gate s j f) k = gate_at s k.
Proof. intros L. unfold gate_at, upd_gate; cbn. apply nth_upd_nth_other. exact L. Qed.
Lemma gates_upd_length s j f : length (gates (upd_gate s j f)) = length (gates s).
Proof. unfold upd_gate; cbn. apply upd_nth_length. Qed.
Lemma destroy_gate_at t s j : g_res (gate_at (destroy_pipes t s) j) = g_res (gate_at s j) /\ g_out (gate_at (destroy_pipes t s) j) = g_out (gate_at s j).
Proof.
  unfold gate_at, destroy_pipes; cbn. generalize (gates s). intros gs. revert j; induction gs as [|g r IH]; intros [|j]; cbn; auto.
Qed.
Lemma destroy_length t s : length (gates (destroy_pipes t s)) = length (gates s).
Proof. unfold destroy_pipes; cbn. apply map_length. Qed.

#[export] Hint Rewrite shw_w_pout shw_w_exc shw_w_canceled shw_w_compl shw_w_gnext shw_w_done shw_w_result shw_add_log shw_bag_app
  shw_upd_res shw_upd_out shw_destroy : shw.

(* component-wise forms used by the [mnorm] tactic *)
Lemma bagw_app m b t tk : bagw m (b ++ [(t, tk)]) = bagw m b + mb m tk.
Proof. unfold bagw. rewrite sumf_app. cbn [sumf snd]. lia. Qed.
Lemma bagw_rem m b i p tk : nth_error b i = Some (p, tk) -> bagw m (remove_at i b) = bagw m b - mb m tk.
Proof. intros N. unfold bagw. rewrite (sumf_remove_at _ _ _ _ N). cbn [snd]. lia. Qed.
Lemma qw_rem m j q i p x : nth_error q i = Some (p, x) -> qw m j (remove_at i q) = qw m j q - mq m j x.
Proof. intros N. unfold qw. rewrite (sumf_remove_at (fun e => mq m j (snd e)) _ _ _ N). cbn [snd]. lia. Qed.
Lemma gatesw_upd_q m j q p gs :
  (j < length gs)%nat -> gatesw m 0 (upd_nth j (g_w_q q p) gs) = gatesw m 0 gs - qw m j (g_q (nth j gs dflt_gate)) + qw m j q.
Proof. intros L. rewrite gatesw_upd by exact L. reflexivity. Qed.
Lemma gatesw_upd_enq m j t it (P : gate -> list nat) gs :
  (j < length gs)%nat -> gatesw m 0 (upd_nth j (fun g => g_w_q (g_q g ++ [(t, it)]) (P g) g) gs) = gatesw m 0 gs + mq m j it.
Proof. intros L. rewrite gatesw_upd by exact L. cbn [g_q g_w_q]. unfold qw. rewrite sumf_app. cbn [sumf snd]. rewrite Nat.add_0_l. lia. Qed.
Lemma gatesw_upd_res m j d gs : gatesw m 0 (upd_nth j (g_w_res d) gs) = gatesw m 0 gs.
Proof. apply gatesw_upd_sameq. reflexivity. Qed.
Lemma gatesw_upd_out m j d gs : gatesw m 0 (upd_nth j (g_w_out d) gs) = gatesw m 0 gs.
Proof. apply gatesw_upd_sameq. reflexivity. Qed.
Lemma nth_error_gate_lt s j i x : nth_error (g_q (gate_at s j)) i = Some x -> (j < length (gates s))%nat.
Proof.
  unfold gate_at. intros H. destruct (Nat.lt_ge_cases j (length (gates s))) as [L|L]; [exact L|].
  rewrite nth_overflow in H by exact L. destruct i; discriminate.
Qed.
Lemma g_res_nth_upd (f : gate -> gate) j k l : (forall g, g_res (f g) = g_res g) -> g_res (nth k (upd_nth j f l) dflt_gate) = g_res (nth k l dflt_gate).
Proof.
  intros E. revert j k; induction l as [|a l IH]; intros [|j] [|k]; cbn; auto.
Qed.
Lemma g_out_nth_upd (f : gate -> gate) j k l : (forall g, g_out (f g) = g_out g) -> g_out (nth k (upd_nth j f l) dflt_gate) = g_out (nth k l dflt_gate).
Proof.
  intros E. revert j k; induction l as [|a l IH]; intros [|j] [|k]; cbn; auto.
Qed.
Lemma logw_cons m e l : logw m (e :: l) = me m e + logw m l.
Proof. reflexivity. Qed.
Lemma stackw_cons m f r : stackw m (f :: r) = mf m f + stackw m r.
Proof. reflexivity. Qed.

(* ---------- case analysis of one frame transition ---------- *)
Ltac split_disp H :=
  match type of H with
  | context [dispatch ?c ?t ?s ?th ?tk ?f ?ch] =>
      let Hd := fresh "Hd" in let s2 := fresh "s2" in let th2 := fresh "th2" in let ch2 := fresh "ch2" in
      let fr := fresh "fr" in let Hb := fresh "Hb" in
      destruct (dispatch c t s th tk f ch) as [[s2 th2] ch2] eqn:Hd; apply dispatch_spec in Hd;
      destruct Hd as [[-> ->] | (fr & Hb & ->)]; [| apply body_frame_spec in Hb; cbn beta iota in Hb; destruct Hb as [-> ->] ]
  end.
Ltac split_tryexec H :=
  match type of H with
  | context [try_exec ?c ?s ?th ?ch] =>
      let Hd := fresh "Hx" in let s2 := fresh "s2" in let th2 := fresh "th2" in let ch2 := fresh "ch2" in
      let i := fresh "i" in let p := fresh "p" in let tk := fresh "tk" in let Hn := fresh "Hn" in
      destruct (try_exec c s th ch) as [[s2 th2] ch2] eqn:Hd; apply try_exec_spec in Hd;
      destruct Hd as [[-> ->] | (i & p & tk & Hn & -> & ->)]
  end.
Ltac split_gdeq H :=
  match type of H with
  | context [gate_deq ?c ?s ?j ?ch] =>
      let Hd := fresh "Hg" in let res := fresh "res" in let ch2 := fresh "ch2" in
      let i := fresh "i" in let p := fresh "p" in let x := fresh "x" in let Hn := fresh "Hn" in
      destruct (gate_deq c s j ch) as [res ch2] eqn:Hd; apply gate_deq_spec in Hd;
      destruct Hd as [-> | (i & p & x & Hn & ->)]
  end.
Ltac split_deq H :=
  match type of H with
  | context [deq ?o ?pr ?q ?ch] =>
      let Hd := fresh "Hq" in let res := fresh "res" in let ch2 := fresh "ch2" in
      let i := fresh "i" in let p := fresh "p" in let x := fresh "x" in let Hn := fresh "Hn" in
      destruct (deq o pr q ch) as [res ch2] eqn:Hd; apply deq_spec in Hd;
      destruct Hd as [-> | (i & p & x & Hn & ->)]
  end.
Ltac split_tryset H :=
  match type of H with
  | context [try_set ?t ?s ?e] =>
      let Hd := fresh "Ht" in let s2 := fresh "s2" in let won := fresh "won" in let He := fresh "He" in
      destruct (try_set t s e) as [s2 won] eqn:Hd; apply try_set_spec in Hd;
      destruct Hd as [(He & -> & ->) | (He & -> & ->)]
  end.
Ltac split_body H :=
  match type of H with
  | context [body_frame ?t ?s ?tk] =>
      let Hb := fresh "Hb" in let s2 := fresh "s2" in let fr := fresh "fr" in
      destruct (body_frame t s tk) as [s2 fr] eqn:Hb; apply body_frame_spec in Hb;
      first [ is_var tk; destruct tk; destruct Hb as [-> ->] | cbn beta iota in Hb; destruct Hb as [-> ->] ]
  end.

Ltac step_loop H :=
  repeat (unfold step_main, step_worker, step_gen, step_task, step_pool, step_wait, step_sched in H; cbn beta iota zeta in H;
          first [ discriminate H
                | match type of H with context [match ?x with _ => _ end] => is_var x; destruct x end
                | split_disp H | split_tryexec H | split_gdeq H | split_deq H | split_tryset H | split_body H
                | match type of H with context [if ?b then _ else _] => let E := fresh "E" in destruct b eqn:E end
                | match type of H with context [match ?x with _ => _ end] => let E := fresh "E" in destruct x eqn:E end ]).

(* H : mstep_thread c t s th ch = Some (s1, th1, ch1, site, wake); leaves one goal per transition with s1, th1, ... replaced *)
Ltac step_cases H th :=
  unfold mstep_thread in H;
  let f := fresh "f" in let r := fresh "r" in let Hst := fresh "Hst" in
  destruct (stack th) as [|f r] eqn:Hst; [discriminate H|];
  let e := fresh "e" in let Hunw := fresh "Hunw" in
  destruct (unw th) as [e|] eqn:Hunw;
  [ unfold step_unwind in H | unfold step_frame in H ];
  step_loop H;
  unfold ok in H; injection H as <- <- <- <- <-.

(* expose the components of a measure's total after a transition *)
Ltac mnorm :=
  unfold shw, skip_event, gate_at, gate_enq, upd_gate, push, w_stack, w_depth, w_unw, destroy_pipes;
  cbn [gates bag log pout exc canceled compl gnext done result gx bprods stack depth unw is_pool
       w_gates w_bag w_pout w_exc w_canceled w_compl w_gnext w_done w_result w_gx add_log];
  repeat rewrite ?bagw_app, ?gatesw_upd_res, ?gatesw_upd_out, ?logw_cons, ?stackw_cons.

(* the scalar fields are untouched by the stranding of the queues *)
Lemma strand_q_scalars t j q s :
  pout (strand_q t j q s) = pout s /\ exc (strand_q t j q s) = exc s /\ canceled (strand_q t j q s) = canceled s /\
  compl (strand_q t j q s) = compl s /\ gnext (strand_q t j q s) = gnext s /\ done (strand_q t j q s) = done s /\
  result (strand_q t j q s) = result s.
Proof. revert s; induction q as [|[p it] q IH]; intros s; cbn; [repeat split|]. destruct (IH (add_log s (ev t 11 (Z.of_nat j) it))) as (A & B & C & D & E & F & G). repeat split; assumption. Qed.
Lemma strand_gates_scalars t j gs s :
  pout (strand_gates t j gs s) = pout s /\ exc (strand_gates t j gs s) = exc s /\ canceled (strand_gates t j gs s) = canceled s /\
  compl (strand_gates t j gs s) = compl s /\ gnext (strand_gates t j gs s) = gnext s /\ done (strand_gates t j gs s) = done s /\
  result (strand_gates t j gs s) = result s.
Proof.
  revert j s; induction gs as [|g r IH]; intros j s; cbn; [repeat split|].
  destruct (IH (S j) (strand_q t j (g_q g) s)) as (A & B & C & D & E & F & G).
  destruct (strand_q_scalars t j (g_q g) s) as (A' & B' & C' & D' & E' & F' & G').
  repeat split; congruence.
Qed.
Lemma strand_gates_pout t j gs s : pout (strand_gates t j gs s) = pout s. Proof. apply strand_gates_scalars. Qed.
Lemma strand_gates_exc t j gs s : exc (strand_gates t j gs s) = exc s. Proof. apply strand_gates_scalars. Qed.
Lemma strand_gates_canceled t j gs s : canceled (strand_gates t j gs s) = canceled s. Proof. apply strand_gates_scalars. Qed.
Lemma strand_gates_compl t j gs s : compl (strand_gates t j gs s) = compl s. Proof. apply strand_gates_scalars. Qed.
Lemma strand_gates_gnext t j gs s : gnext (strand_gates t j gs s) = gnext s. Proof. apply strand_gates_scalars. Qed.
Lemma strand_gates_done t j gs s : done (strand_gates t j gs s) = done s. Proof. apply strand_gates_scalars. Qed.
Lemma strand_gates_result t j gs s : result (strand_gates t j gs s) = result s. Proof. apply strand_gates_scalars. Qed.

(* ---------- well-formedness: stage indices in range, unlimited tasks only at unlimited stages ---------- *)
Definition wf_task (c : cfg) (tk : ptask) : Prop :=
  match tk with TGen => True | TL j _ => (j < nstages c)%nat | TU j _ => (j < nstages c)%nat /\ unlimited c j = true end.
Definition wf_frame (c : cfg) (f : frame) : Prop :=
  match f with
  | FMain (MExec g) => 0 <= g <= ninst c
  | FMain (MWait j _ _) => (j < nstages c)%nat
  | FGen (GSched _ _) => (0 < nstages c)%nat
  | FTask lim j _ pc a => (j < nstages c)%nat /\ (lim = false -> unlimited c j = true) /\
                          (match pc with TSched _ => (S j < nstages c)%nat | _ => True end) /\
                          (* which program points a limited / an unlimited task visits, and when the ResourceGuard is armed *)
                          (match pc with
                           | TUExc => lim = false
                           | TBody => a = lim
                           | TCbDeq | TCbAdd | TRGuard | TCatchCas _ | TCancel => lim = true
                           | _ => True end) /\
                          (match pc with TUExc | TCbDeq | TCbAdd | TNext | TSched _ | TOGuard => a = false | _ => True end)
  | FPool tk _ => wf_task c tk
  | _ => True
  end.
Definition wf_thread (c : cfg) (th : thread) : Prop := Forall (wf_frame c) (stack th).
Definition wf_shared (c : cfg) (s : shared) : Prop := (length (gates s) = nstages c /\ 0 <= gnext s) /\ Forall (fun e => wf_task c (snd e)) (bag s).

Lemma Forall_remove_at {A} (P : A -> Prop) l i : Forall P l -> Forall P (remove_at i l).
Proof. intros F. revert i; induction F as [|a l Pa F IH]; intros [|i]; cbn; auto. Qed.
Lemma Forall_nth_error {A} (P : A -> Prop) l i x : Forall P l -> nth_error l i = Some x -> P x.
Proof. intros F N. rewrite Forall_forall in F. apply F. eapply nth_error_In; eauto. Qed.
Lemma Forall_snoc {A} (P : A -> Prop) l x : Forall P l -> P x -> Forall P (l ++ [x]).
Proof. intros F Px. apply Forall_app. split; [exact F | constructor; [exact Px | constructor]]. Qed.

Lemma ninst_pos c : 1 <= ninst c. Proof. unfold ninst. lia. Qed.

Ltac wf_fin :=
  repeat match goal with
  | H : Forall _ (_ :: _) |- _ => inversion H; subst; clear H
  | H : wf_frame _ _ |- _ => cbn in H
  | H : _ /\ _ |- _ => destruct H
  end.

Ltac bool_hyps :=
  repeat match goal with
  | H : (_ || _)%bool = false |- _ => apply orb_false_iff in H; destruct H
  | H : (_ && _)%bool = true |- _ => apply andb_true_iff in H; destruct H
  | H : Nat.leb _ _ = false |- _ => apply Nat.leb_gt in H
  | H : Nat.ltb _ _ = true |- _ => apply Nat.ltb_lt in H
  | H : (_ <? _) = true |- _ => apply Z.ltb_lt in H
  | H : (_ <? _) = false |- _ => apply Z.ltb_ge in H
  end.

Ltac wf_solve WB :=
  repeat match goal with
  | |- _ /\ _ => split
  | |- Forall _ (_ :: _) => constructor
  | |- Forall _ [] => constructor
  | |- Forall _ (_ ++ [_]) => apply Forall_snoc
  | |- Forall _ (remove_at _ _) => apply Forall_remove_at
  | |- true = false -> _ => discriminate
  | |- false = false -> _ => intros _
  | |- context [bag (strand_gates _ _ _ _)] => rewrite strand_gates_bag
  | |- context [length (upd_nth _ _ _)] => rewrite upd_nth_length
  | |- context [length (map _ _)] => rewrite map_length
  | |- wf_frame _ (FMain (first_wait _)) => unfold first_wait; destruct (Nat.ltb _ _) eqn:?
  | |- wf_frame _ (FMain (after_wait _ _)) => unfold after_wait; destruct (Nat.ltb _ _) eqn:?
  | Hn : nth_error _ _ = Some (_, ?tk) |- wf_task _ ?tk => exact (Forall_nth_error _ _ _ _ WB Hn)
  | |- wf_frame _ _ => cbn
  | |- wf_task _ _ => cbn
  end; bool_hyps; cbn [gates bag snd] in *; try assumption; try lia; try congruence; auto.

Lemma wf_local c t s th ch s1 th1 ch1 site wake :
  (0 < nstages c)%nat -> wf_shared c s -> wf_thread c th ->
  mstep_thread c t s th ch = Some (s1, th1, ch1, site, wake) -> wf_shared c s1 /\ wf_thread c th1.
Proof.
  intros H0 [[WL WG] WB] WT H. pose proof (ninst_pos c) as NP. unfold wf_thread in *. step_cases H th; wf_fin.
  all: unfold wf_shared, wf_thread; mnorm; cbn [stack]; try rewrite Hst; rewrite ?strand_gates_gnext; cbn [gnext w_exc w_result].
  all: wf_solve WB.
Qed.

Definition WF (c : cfg) (s : state) : Prop := wf_shared c (sh s) /\ Forall (wf_thread c) (threads s).

Lemma WF_init c : WF c (init c).
Proof.
  pose proof (ninst_pos c). split; [split; cbn; [split; [apply map_length | lia] | constructor]|].
  cbn. constructor; [repeat constructor|]. apply Forall_forall. intros th Hth. apply in_map_iff in Hth. destruct Hth as [w [<- _]].
  repeat constructor.
Qed.

Lemma wf_wake1 c th : wf_thread c th -> wf_thread c (wake1 th).
Proof.
  unfold wf_thread, wake1. intros F. destruct (stack th) as [|f r] eqn:S; [rewrite S; exact F|].
  destruct f; try (rewrite S; exact F). destruct pc; try (rewrite S; exact F). cbn. inversion F; subst. constructor; [exact I | assumption].
Qed.

Lemma WF_mstep c s t ch s' ch' site : (0 < nstages c)%nat -> WF c s -> mstep c s t ch = Some (s', ch', site) -> WF c s'.
Proof.
  intros H0 [WS WT] H. split.
  - pose proof H as H'. apply mstep_inv in H'. destruct H' as (th & s1 & th1 & wake & N & M & ->). cbn [sh].
    eapply wf_local; eauto. eapply Forall_nth_error; eauto.
  - eapply (Forall_threads_mstep (wf_thread c)); eauto using wf_wake1.
    intros th th1 wake N P M. eapply wf_local; eauto.
Qed.

Lemma WF_reach c s : (0 < nstages c)%nat -> reach (mstep c) (init c) s -> WF c s.
Proof.
  intros H0 R. apply (reach_inv (mstep c) (WF c) (init c)); [apply WF_init | | exact R].
  intros s1 t ch s1' ch' site I E. eapply WF_mstep; eauto.
Qed.

(* ---------- accounting toolkit ---------- *)
Definition bz (b : bool) : Z := if b then 1 else 0.
Lemma bz_nonneg b : 0 <= bz b. Proof. destruct b; cbn; lia. Qed.

(* change of a measure as seen by the stepping thread *)
Definition dlt (m : meas) (s : shared) (th : thread) (s1 : shared) (th1 : thread) : Z :=
  (shw m s1 + stackw m (stack th1)) - (shw m s + stackw m (stack th)).

Lemma total_step m ths t th s0 s1 th1 (wake : bool) :
  mf m (FMain MBlocked) = mf m (FMain MWoken) -> nth_error ths t = Some th ->
  total m (ST s1 (set_nth (if wake then wake_all ths else ths) t th1)) - total m (ST s0 ths) = dlt m s0 th s1 th1.
Proof.
  intros E N. unfold total, dlt; cbn [sh threads].
  assert (T : thsw m (set_nth (if wake then wake_all ths else ths) t th1) = thsw m ths - stackw m (stack th) + stackw m (stack th1)).
  { unfold thsw. destruct wake.
    - rewrite (sumf_set_nth _ _ _ (wake1 th) th1) by (apply nth_error_wake; exact N).
      fold (thsw m (wake_all ths)). rewrite (thsw_wake m _ E). rewrite (stackw_wake1 m th E). reflexivity.
    - rewrite (sumf_set_nth _ _ _ th th1) by exact N. reflexivity. }
  rewrite T. lia.
Qed.

Lemma gatesw_zero m k gs : (forall j x, mq m j x = 0) -> gatesw m k gs = 0.
Proof. intros Z0. revert k; induction gs as [|g r IH]; intros k; cbn; [reflexivity|]. rewrite IH. unfold qw. rewrite sumf_zero; [reflexivity | intros; apply Z0]. Qed.
Lemma zof_eqb a b : (Z.of_nat a =? Z.of_nat b) = Nat.eqb a b.
Proof. destruct (Z.eqb_spec (Z.of_nat a) (Z.of_nat b)), (Nat.eqb_spec a b); try reflexivity; lia. Qed.
Lemma g_res_nth_emptied k l : g_res (nth k (map (fun g => g_w_q [] (g_prods g) g) l) dflt_gate) = g_res (nth k l dflt_gate).
Proof. revert k; induction l as [|a l IH]; intros [|k]; cbn; auto. Qed.
Lemma g_out_nth_emptied k l : g_out (nth k (map (fun g => g_w_q [] (g_prods g) g) l) dflt_gate) = g_out (nth k l dflt_gate).
Proof. revert k; induction l as [|a l IH]; intros [|k]; cbn; auto. Qed.

(* program-point classes used by the measures *)
Definition tok_pc (pc : tpc) (armed : bool) : bool :=      (* a limited task holds its stage's slot *)
  match pc with TBody | TCbDeq | TCbAdd | TRGuard => true | TCatchCas _ | TCancel => armed | _ => false end.
Definition wait_holds (pc : wpc) : bool := match pc with WDDec | WSub | WAdd | WExc2 | WDec2 => true | _ => false end.
Definition sched_pre (pc : spc) : bool := match pc with SOinc | SEnq => true | _ => false end.   (* item not yet in the queue / bag *)
Definition post_pc (pc : tpc) : bool := match pc with TBody | TCbDeq | TCbAdd | TNext => true | _ => false end.
Definition gen_live (pc : gpc) : bool := match pc with GNStore | GNWake => false | _ => true end.

Ltac wsimp := cbn [bz andb orb negb g_res g_out g_q g_prods g_w_res g_w_out g_w_q fst snd e_kind e_j e_tag e_val e_tid ev zj
                   tok_pc wait_holds sched_pre post_pc gen_live].
Ltac eqb_cases :=
  wsimp; rewrite ?zof_eqb, ?Z.eqb_refl;
  repeat (wsimp; match goal with
  | |- context [Nat.eqb ?a ?b] => destruct (Nat.eqb_spec a b); [try (exfalso; lia); try subst|]
  | |- context [Z.eqb ?a ?b] => destruct (Z.eqb_spec a b); try (exfalso; lia)
  end).
Ltac acct_pre Hst :=
  mnorm; rewrite ?Hst; rewrite ?stackw_cons; rewrite ?strand_gates_bag, ?logw_strand_gates, ?gatesw_emptied;
  rewrite ?strand_gates_pout, ?strand_gates_exc, ?strand_gates_canceled, ?strand_gates_compl, ?strand_gates_gnext, ?strand_gates_done, ?strand_gates_result;
  try (erewrite !bagw_rem by eassumption); unfold first_wait, after_wait, gate_at in *;
  cbn [gates bag log pout exc canceled compl gnext done result gx w_gates w_exc w_result w_gx w_pout map]; rewrite ?g_res_nth_emptied, ?g_out_nth_emptied.
Ltac nth_cases :=
  rewrite ?g_res_nth_upd by reflexivity; rewrite ?g_out_nth_upd by reflexivity;
  repeat match goal with
  | |- context [nth ?k (upd_nth ?j _ _) _] =>
      first [ rewrite (nth_upd_nth_same j) by (rewrite ?upd_nth_length; lia) | rewrite (nth_upd_nth_other j k) by congruence
            | tryif constr_eq j k then fail else (destruct (Nat.eq_dec j k); [subst|]) ]
  end.
Ltac acct_fin :=
  repeat match goal with |- context [match ?x with _ => _ end] => is_var x; destruct x end;
  repeat match goal with |- context [if ?b then _ else _] => destruct b eqn:? end;
  eqb_cases; wsimp; nth_cases; wsimp; bool_hyps; lia.

Lemma sumf_nonneg_in {A} (w : A -> Z) l : (forall x, In x l -> 0 <= w x) -> 0 <= sumf w l.
Proof.
  induction l as [|a l IH]; intros H; cbn [sumf]; [lia|].
  pose proof (H a (or_introl eq_refl)). assert (0 <= sumf w l) by (apply IH; intros; apply H; right; assumption). lia.
Qed.
Lemma sumf_in_le_in {A} (w : A -> Z) l x : (forall y, In y l -> 0 <= w y) -> In x l -> w x <= sumf w l.
Proof.
  induction l as [|a l IH]; intros N; cbn [sumf]; [contradiction|]. intros [->|H].
  - assert (0 <= sumf w l) by (apply sumf_nonneg_in; intros; apply N; right; assumption). lia.
  - pose proof (N a (or_introl eq_refl)). assert (w x <= sumf w l) by (apply IH; [intros; apply N; right; assumption | exact H]). lia.
Qed.
Lemma sumf_le {A} (w1 w2 : A -> Z) l : (forall x, In x l -> w1 x <= w2 x) -> sumf w1 l <= sumf w2 l.
Proof.
  induction l as [|a l IH]; intros H; cbn; [lia|].
  pose proof (H a (or_introl eq_refl)). assert (sumf w1 l <= sumf w2 l) by (apply IH; intros; apply H; right; assumption). lia.
Qed.
