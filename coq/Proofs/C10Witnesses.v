(* C10: concrete traces.  (1) the side conditions of protocol_disciplined are NECESSARY: with a store weaker than release, or
   a load weaker than acquire, the message-passing trace has a data race; (2) the fence rule is usable: relaxed accesses
   bracketed by a release and an acquire fence carry a hand-off; (3) ChaseLevDeque: a slow stealer's tentative slot read
   and the owner's wrapped-around slot write are unordered -- racy by design (recorded as a finding, not proved away). *)
From Coq Require Import ZArith List Bool Arith Lia.
From DV Require Import Gen.GenOrders Base.Own Proofs.OwnProofs.
Import ListNotations.

Lemma hb_range tr i j : hb tr i j -> j < length tr.
Proof.
  induction 1 as [i j H|i j H|i j k _ _ _ IH]; [| |exact IH].
  - destruct H as [_ (t & _ & Hj)]. unfold thr in Hj. apply nth_error_Some. destruct (nth_error tr j); [discriminate|discriminate].
  - destruct H as (a & x & y & ex & ey & _ & Ha & _ & _ & _ & Ey & _).
    destruct Ha as [[-> _]|[[_ (t & _ & Hk)] _]].
    + unfold evt in Ey. apply nth_error_Some. destruct (nth_error tr y); [discriminate|discriminate].
    + unfold thr in Hk. apply nth_error_Some. destruct (nth_error tr j); [discriminate|discriminate].
Qed.

(* without synchronizes-with edges, happens-before never leaves a thread *)
Lemma no_sw_same_thread tr : (forall r k, ~ sw tr r k) -> forall i j, hb tr i j -> thr tr i = thr tr j.
Proof.
  intros Hno i j H. induction H as [i j H|i j H|i j k _ IH1 _ IH2].
  - destruct H as [_ (t & Hi & Hj)]. rewrite Hi, Hj. reflexivity.
  - exfalso. exact (Hno _ _ H).
  - rewrite IH1. exact IH2.
Qed.

(* ---- (1) message passing with the orders as parameters *)
Definition mp_trace (m_store m_load : mo) : trace :=
  [(0, Na_write 0); (0, At_op 0 AStore m_store 0 1); (1, At_op 0 ALoad m_load 1 1); (1, Na_read 0)].

Lemma mp_conflict ms ml : conflict (mp_trace ms ml) 0 3.
Proof.
  exists 0, 1, (Na_write 0), (Na_read 0), 0, true, false. cbn. repeat split; try reflexivity. discriminate.
Qed.

Lemma mp_no_sw ms ml : rel_mo ms = false \/ acq_mo ml = false -> forall r k, ~ sw (mp_trace ms ml) r k.
Proof.
  intros Hweak r k (a & x & y & ex & ey & Hr & Ha & Hxy & Ex & Wx & Ey & Ry & _).
  assert (Hx : x = 1).
  { destruct x as [|[|[|[|x]]]]; cbn in Ex; [| reflexivity | | |destruct x; discriminate];
      inversion Ex; subst; cbn in Wx; rewrite ?andb_false_r in Wx; discriminate. }
  assert (Hy : y = 2).
  { destruct y as [|[|[|[|y]]]]; cbn in Ey; [| | reflexivity | |destruct y; discriminate];
      inversion Ey; subst; cbn in Ry; rewrite ?andb_false_r in Ry; discriminate. }
  subst x y. clear Ex Ey Wx Ry.
  destruct Hweak as [Hw|Hw].
  - destruct Hr as [[-> (e & He & Hm)]|[[Hlt _] (m & He & _)]].
    + cbn in He. inversion He; subst e. cbn [ev_mo] in Hm. congruence.
    + destruct r as [|r]; [cbn in He; discriminate | lia].
  - destruct Ha as [[-> (e & He & Hm)]|[[Hlt _] (m & He & _)]].
    + cbn in He. inversion He; subst e. cbn [ev_mo] in Hm. congruence.
    + destruct k as [|[|[|[|k]]]]; cbn in He; try discriminate; try lia. destruct k; discriminate.
Qed.

Theorem weak_order_races ms ml : rel_mo ms = false \/ acq_mo ml = false -> ~ drf (mp_trace ms ml).
Proof.
  intros Hweak D. specialize (D 0 3 ltac:(lia) (mp_conflict ms ml)).
  pose proof (no_sw_same_thread _ (mp_no_sw ms ml Hweak) _ _ D) as E. cbn in E. discriminate.
Qed.

(* ---- (2) relaxed accesses bracketed by fences *)
Definition fence_trace : trace :=
  [(0, Na_write 0); (0, Offer 0 0); (0, Fence Release); (0, At_op 0 AStore Relaxed 0 1);
   (1, At_op 0 ALoad Relaxed 1 1); (1, Fence Acquire); (1, Take 0 0); (1, Na_read 0)].

Lemma fence_sw : sw fence_trace 2 5.
Proof.
  exists 0, 3, 4, (At_op 0 AStore Relaxed 0 1), (At_op 0 ALoad Relaxed 1 1).
  split; [right; split; [split; [lia | exists 0; split; reflexivity] | exists Release; split; reflexivity]|].
  split; [right; split; [split; [lia | exists 1; split; reflexivity] | exists Acquire; split; reflexivity]|].
  split; [lia|]. split; [reflexivity|]. split; [reflexivity|]. split; [reflexivity|]. split; [reflexivity|].
  intros w e Hw. lia.
Qed.

Theorem fence_mp_disciplined : disciplined fence_trace (fun l _ => Held l) 1.
Proof.
  split; [lia|]. intros i t e H.
  destruct i as [|[|[|[|[|[|[|[|i]]]]]]]]; cbn in H; inversion H; subst; cbn.
  - intros tok Ht. reflexivity.
  - reflexivity.
  - exact Logic.I.
  - exact Logic.I.
  - exact Logic.I.
  - exact Logic.I.
  - exists 1. split; [reflexivity|]. exists 2, 5.
    split; [split; [lia | exists 0; split; reflexivity]|].
    split; [exact fence_sw|]. split; [lia | exists 1; split; reflexivity].
  - exists 0. split; [lia | reflexivity].
  - destruct i; discriminate.
Qed.

Corollary fence_mp_drf : drf fence_trace.
Proof. exact (own_discipline_implies_drf _ _ _ fence_mp_disciplined). Qed.

(* ---- (3) ChaseLevDeque::try_steal vs try_push after wrap-around.
   threads: 0 = owner, 1 = slow stealer S, 2 = fast stealer S2; atomics: 0 = top_, 1 = bottom_; location 0 = buffer_[t & mask].
   S has loaded top_ (acquire), fenced, loaded bottom_ (acquire) and is about to read the slot; S2 steals index t (seq_cst CAS
   on top_); the owner's next try_push loads top_ (acquire: sees t+1, there is room) and writes the SAME slot (index
   t + capacity); S performs its tentative read; S's CAS then fails (a failed compare_exchange is a load with the failure
   order, relaxed) and the value is discarded. *)
Definition chaselev_trace : trace :=
  [(1, At_op 0 ALoad Acquire 0 0); (1, Fence SeqCst); (1, At_op 1 ALoad Acquire 1 1);
   (2, At_op 0 ARmw SeqCst 0 1); (0, At_op 0 ALoad Acquire 1 1);
   (1, Na_read 0); (0, Na_write 0); (1, At_op 0 ALoad Relaxed 1 1)].

Lemma chaselev_conflict : conflict chaselev_trace 5 6.
Proof.
  exists 1, 0, (Na_read 0), (Na_write 0), 0, false, true. cbn. repeat split; try reflexivity. discriminate.
Qed.

Lemma chaselev_from_5 i j : hb chaselev_trace i j -> i = 5 -> j = 7.
Proof.
  induction 1 as [i j H|i j H|i j k H1 IH1 H2 _]; intros ->.
  - pose proof (hb_range _ _ _ (hb_po _ _ _ H)) as Hr. cbn in Hr.
    destruct H as [Hlt (t & Hi & Hj)]. cbn in Hi. inversion Hi; subst t.
    assert (j = 6 \/ j = 7) as [->| ->] by lia; [cbn in Hj; discriminate | reflexivity].
  - exfalso. destruct H as (a & x & y & ex & ey & Hr & _).
    destruct Hr as [[<- (e & He & Hm)]|[_ (m & He & _)]]; cbn in He; inversion He; subst; cbn in Hm; discriminate.
  - specialize (IH1 eq_refl). subst j. pose proof (hb_lt _ _ _ H2). pose proof (hb_range _ _ _ H2) as Hr. cbn in Hr. lia.
Qed.

(* the two accesses conflict and neither happens before the other: a data race in the C++ model *)
Theorem chaselev_slot_race : conflict chaselev_trace 5 6 /\ ~ hb chaselev_trace 5 6 /\ ~ hb chaselev_trace 6 5.
Proof.
  split; [exact chaselev_conflict|]. split.
  - intros H. pose proof (chaselev_from_5 _ _ H eq_refl). lia.
  - intros H. apply hb_lt in H. lia.
Qed.

Corollary chaselev_not_drf : ~ drf chaselev_trace.
Proof. intros D. exact (proj1 (proj2 chaselev_slot_race) (D 5 6 ltac:(lia) chaselev_conflict)). Qed.
