(* Shared list lemmas for the claim-based loop models (dynamic counters, stripe cursors). *)
From Coq Require Import ZArith List Bool Lia Permutation.
From DV Require Import Base.MachInt Model.ChunkModel.
Import ListNotations.
Local Open Scope Z_scope.

(* integers a, a+1, ..., a+n-1 *)
Fixpoint zrange (a : Z) (n : nat) : list Z :=
  match n with O => [] | S n' => a :: zrange (a + 1) n' end.

Lemma zrange_length a n : length (zrange a n) = n.
Proof. revert a; induction n; intros; simpl; auto. Qed.

Lemma zrange_app a n m : zrange a (n + m) = zrange a n ++ zrange (a + Z.of_nat n) m.
Proof.
  revert a; induction n as [|n IH]; intros a.
  - simpl. f_equal. lia.
  - cbn [Nat.add zrange app]. f_equal. rewrite IH. f_equal. f_equal. lia.
Qed.

Lemma zrange_seq a n : zrange a n = map (fun i => a + Z.of_nat i) (seq 0 n).
Proof.
  revert a; induction n as [|n IH]; intros a; [reflexivity|].
  cbn [zrange seq map]. f_equal; [lia|]. rewrite IH, <- seq_shift, map_map.
  apply map_ext. intros i. lia.
Qed.

Lemma in_zrange a n x : In x (zrange a n) <-> a <= x < a + Z.of_nat n.
Proof.
  revert a; induction n as [|n IH]; intros a; simpl; [lia|].
  rewrite IH. lia.
Qed.

(* ---- a list whose elements carry a key below n is a permutation of its per-key sublists, concatenated ---- *)
Section ByKey.
  Context {A : Type} (key : A -> nat).
  Definition with_key (j : nat) (l : list A) : list A := filter (fun x => Nat.eqb (key x) j) l.

  Lemma with_key_app j l1 l2 : with_key j (l1 ++ l2) = with_key j l1 ++ with_key j l2.
  Proof. apply filter_app. Qed.

  Lemma perm_split_key (l : list A) (m : nat) :
    Permutation (filter (fun x => Nat.ltb (key x) (S m)) l)
                (filter (fun x => Nat.ltb (key x) m) l ++ with_key m l).
  Proof.
    induction l as [|x r IH]; [constructor|]. unfold with_key in *. cbn [filter].
    destruct (Nat.ltb_spec (key x) (S m)) as [E1|E1]; destruct (Nat.ltb_spec (key x) m) as [E2|E2];
      destruct (Nat.eqb_spec (key x) m) as [E3|E3]; try lia.
    - cbn [app]. constructor. exact IH.
    - apply Permutation_cons_app. exact IH.
    - exact IH.
  Qed.

  Lemma perm_by_key_lt (l : list A) (n : nat) :
    Permutation (filter (fun x => Nat.ltb (key x) n) l) (flat_map (fun j => with_key j l) (seq 0 n)).
  Proof.
    induction n as [|n IH].
    - simpl. induction l as [|x r IHr]; [constructor|]. simpl. exact IHr.
    - rewrite seq_S, flat_map_app. cbn [flat_map Nat.add]. rewrite app_nil_r.
      eapply Permutation_trans; [apply perm_split_key|]. apply Permutation_app_tail. exact IH.
  Qed.

  Lemma perm_by_key (l : list A) (n : nat) : (forall x, In x l -> (key x < n)%nat) ->
    Permutation l (flat_map (fun j => with_key j l) (seq 0 n)).
  Proof.
    intros H. eapply Permutation_trans; [|apply perm_by_key_lt].
    replace (filter (fun x => Nat.ltb (key x) n) l) with l; [apply Permutation_refl|].
    symmetry. induction l as [|x r IH]; [reflexivity|]. cbn [filter].
    replace (Nat.ltb (key x) n) with true by (symmetry; apply Nat.ltb_lt; apply H; left; reflexivity).
    f_equal. apply IH. intros y Hy. apply H. right. exact Hy.
  Qed.
End ByKey.

(* ---- contiguity ---- *)
Lemma contiguous_app s l1 m l2 e : contiguous s l1 m -> contiguous m l2 e -> contiguous s (l1 ++ l2) e.
Proof.
  revert s; induction l1 as [|[a b] r IH]; intros s H1 H2.
  - simpl in H1. subst. exact H2.
  - destruct H1 as (E & L & R). cbn [app contiguous]. split; [exact E|]. split; [exact L|]. apply IH; assumption.
Qed.

Lemma contiguous_le s l e : contiguous s l e -> s <= e.
Proof.
  revert s; induction l as [|[a b] r IH]; intros s H; simpl in H; [lia|].
  destruct H as (E & L & R). specialize (IH _ R). lia.
Qed.

Lemma contiguousb_true s l e : contiguousb s l e = true <-> contiguous s l e.
Proof.
  revert s; induction l as [|[a b] r IH]; intros s; simpl.
  - apply Z.eqb_eq.
  - rewrite !andb_true_iff, Z.eqb_eq, Z.leb_le, IH. tauto.
Qed.

(* every index of [s,e) lies in exactly one chunk of a contiguous list, and chunks stay inside [s,e) *)
Lemma contiguous_inside s l e a b : contiguous s l e -> In (a, b) l -> s <= a /\ a <= b /\ b <= e.
Proof.
  revert s; induction l as [|[a0 b0] r IH]; intros s H Hin; [destruct Hin|].
  destruct H as (E & L & R). pose proof (contiguous_le _ _ _ R) as Le. destruct Hin as [Hin|Hin].
  - inversion Hin; subst. lia.
  - specialize (IH _ R Hin). lia.
Qed.

Definition covers (i : Z) (ab : Z * Z) : bool := (fst ab <=? i) && (i <? snd ab).
Lemma contiguous_cover_once s l e i : contiguous s l e -> s <= i < e -> length (filter (covers i) l) = 1%nat.
Proof.
  revert s; induction l as [|[a b] r IH]; intros s H Hi; [simpl in H; lia|].
  destruct H as (E & L & R). subst a. cbn [filter]. unfold covers at 1. cbn [fst snd].
  destruct (i <? b) eqn:Eb; [apply Z.ltb_lt in Eb | apply Z.ltb_ge in Eb].
  - replace (s <=? i) with true by (symmetry; apply Z.leb_le; lia). cbn [andb length]. f_equal.
    assert (N : forall l' s', contiguous s' l' e -> i < s' -> filter (covers i) l' = []).
    { induction l' as [|[a' b'] r' IH']; intros s' H' Hlt; [reflexivity|].
      destruct H' as (E' & L' & R'). subst a'. cbn [filter]. unfold covers at 1. cbn [fst snd].
      replace (s' <=? i) with false by (symmetry; apply Z.leb_gt; lia). cbn [andb]. apply (IH' b'); [exact R'|lia]. }
    rewrite (N r b R Eb). reflexivity.
  - rewrite andb_false_r. apply (IH b); [exact R|lia].
Qed.

Lemma flat_map_ext_in' {A B} (f g : A -> list B) l : (forall x, In x l -> f x = g x) -> flat_map f l = flat_map g l.
Proof.
  induction l as [|x r IH]; intros H; [reflexivity|]. cbn [flat_map]. rewrite (H x) by (left; reflexivity).
  f_equal. apply IH. intros y Hy. apply H. right. exact Hy.
Qed.

Lemma map_flat_map {A B C} (f : B -> C) (h : A -> list B) l : map f (flat_map h l) = flat_map (fun x => map f (h x)) l.
Proof. induction l as [|x r IH]; [reflexivity|]. cbn [flat_map]. rewrite map_app, IH. reflexivity. Qed.

Lemma zrange_shift a n : zrange a n = map (Z.add a) (zrange 0 n).
Proof. rewrite (zrange_seq a), (zrange_seq 0), map_map. apply map_ext. intros i. lia. Qed.

Lemma flat_map_map {A B C} (f : B -> list C) (g : A -> B) l : flat_map f (map g l) = flat_map (fun x => f (g x)) l.
Proof. induction l as [|x r IH]; [reflexivity|]. cbn [map flat_map]. rewrite IH. reflexivity. Qed.
