"""C22 -- RWLock mutual exclusion and progress.   Tie: lockstep (L) under harness/vsched.h on the real dispenso::RWLock."""
import dv, rw_common

META = {
    'category': 'proof',
    'technique': 'Coq invariant over all interleavings of a step-level model (one step per atomic access / futex call; ghost owner / reader-count / drained-prefix derived from mode and pc) + lockstep replay of generated schedules on the real hooked RWLock under a cooperative scheduler',
    'text': 'Kernel-checked for any number of threads, any script over lock/try_lock/unlock/lock_shared/try_lock_shared/unlock_shared/lock_upgrade/lock_downgrade used as documented, '
            'any schedule, any kTryLockDrainSpins: word = WB*#owners + #reader counts with at most one owner; a writer inside excludes every other writer and reader (C22_rw_mutual_exclusion); '
            'try_* = true only when entering legitimately (C22_try_never_conflicts); a failed try leaves no trace and finished balanced scripts leave word 0 (C22_try_lock_rollback_restores, '
            'C22_all_done_word_zero); a writer asleep in the drain wait with word = WB implies a committed futex wake (C22_rw_no_lost_wakeup); no sleep-deadlock (C22_rw_no_sleep_deadlock); with lock_upgrade under the documented single-writer discipline completion stays reachable from every reachable state '
            '(C22_rw_no_deadlock_single_upgrader, variant Phi; C22_upgrade_discipline_is_needed shows two upgraders can get stuck for ever); termination under every FAIR schedule is stated (C22_full_statement) but only the variant is proved (C22_fair_progress_partial). '
            'The model is tied to the code by running generated scripts under generated schedules on the real class (hooks before every atomic access of rw_lock_impl.h, '
            'futex served by the harness, critical sections bracketed by schedulable points with occupancy counters) and comparing step trace, try results, final word and status with the model evaluated in Coq; '
            'the judge also replays the occupancy from the implementation trace alone.',
    'search': 'deterministic hand-over probe family (reader fetch_add while the writer bit is set, hand-over, reader back-out, third-thread probe; phase lengths swept) + weighted generator; when the lockstep trace differs from the model a search ladder re-runs the disagreeing programs and their neighbours (sections, permutations, try_lock / try_lock_shared / lock_shared / lock probes by a further thread) under thousands of decision lists and evaluates the property on the implementation alone (occupancy conflict, deadlock of a balanced script, word != 0 at quiescence); hits are confirmed by the Coq judge and reported as concrete VIOLATIONs; unknown hook sites are tolerated by the parser',
    'note': 'Trusted: Coq kernel; futex semantics (compare-and-block, wake-all; spurious returns only cause a re-load); harness/vsched.h; SC interleaving of the atomics (weak-memory reorderings not modelled; all accesses are acq_rel RMWs / acquire loads on one word); Linux variant of CompletionEventImpl. No axioms.',
}

ASSUMPTIONS = [
    'sequentially consistent interleaving of the atomic accesses on the lock word; futex = compare-and-block / wake-all; spurious futex returns not modelled (they only cause a re-load)',
    'Linux implementation of CompletionEventImpl (macOS / Windows / fallback variants of the drain wait are not modelled)',
    'fewer than 2^31 threads (reader count does not overflow the 31 count bits)',
    'lock_upgrade: theorems on exclusion / wake-ups hold for any number of upgraders; completion (no spin-deadlock) needs the documented single-writer discipline',
]


def run(ctx):
    ctx.prove(models=['Model/C22Check.v'])
    r = ctx.rng
    n = 160 if ctx.quick else 3000
    cases = []
    # deterministic scenarios aimed at the narrow windows: writer bit set while a reader backs out, try_lock drain + rollback,
    # reader back-out that must wake the draining writer, upgrade / downgrade hand-over
    fixed = [
        ([[('L',), ('U',)], [('S', 0), ('V', 0)]], [0, 0, 1, 1, 0, 1, 0, 1, 0, 0, 0, 1, 1, 1, 1, 1, 1, 0, 0, 0, 1, 1, 1, 1]),
        ([[('L',), ('U',)], [('Y', 0, 1), ('V', 0)]], [0, 0, 1, 1, 0, 0, 1, 1, 0, 0, 0, 0, 0, 1, 1, 1]),
        ([[('T', 1), ('U',)], [('S', 0), ('V', 0)]], [1, 1, 0, 0] + [0] * 30 + [1] * 10),
        ([[('T', 1), ('U',)], [('S', 0), ('V', 0)]], [1, 1, 0, 0, 0, 0, 1, 1, 1, 1] + [0] * 10 + [1] * 10),
        ([[('S', 0), ('G',), ('U',)], [('S', 0), ('V', 0)]], [0, 1, 0, 1, 0, 1, 0, 0, 0, 0, 0, 1, 1, 1, 0, 0, 0, 0, 0, 0]),
        ([[('L',), ('D',), ('V', 0)], [('S', 0), ('V', 0)], [('T', 1), ('U',)]], [0, 1, 2] * 40),
    ]
    for progs, sched in fixed:
        cases.append({'dist': False, 'n': 1, 'budget': 90, 'progs': progs, 'sched': (sched + [0] * 110)[:102]})
    cases += rw_common.probe_family(False, not ctx.quick)      # deterministic hand-over windows: reader fetch_add, hand-over, reader back-out, probe
    cases += [rw_common.gen_case(r, False, malformed=(i % 8 == 7)) for i in range(n)]
    kept, verdicts = rw_common.correspond(ctx, cases, 'judge_rw', 'From DV Require Import Base.Sched Model.RWLockModel Model.C22Check.', 'C22')
    ctx.cov['rule'] = ('generated scripts (2-4 threads, critical sections with try / upgrade / downgrade, ~1/8 malformed) x generated schedules (random + sticky stretches), one fork per case under vsched on the real RWLock; '
                       'non-trivial = more steps than 2*threads+2; distinct = distinct (trace, results) strings')
    wfc = sum(1 for c in cases if all(rw_common.wf_py(p, 1) for p in c['progs']))
    ctx.cov['well_formed_cases'] = wfc
    ops = {}
    for c in cases:
        for p in c['progs']:
            for o in p:
                ops[o[0]] = ops.get(o[0], 0) + 1
    ctx.cov['op_histogram'] = ops
    if kept:
        ctx.sample({'case': rw_common.line_of(kept[0][0])[:160], 'impl': kept[0][2][:300]})
        ctx.sample({'case': rw_common.line_of(kept[-1][0])[:160], 'impl': kept[-1][2][:300]})
