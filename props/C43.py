"""C43 -- CpuSet set algebra, CPU-list parsing and grouping are correct.   Tie: D (differential, judged inside Coq)."""
import concurrent.futures
import dv, pf_common

META = {
    'category': 'proof',
    'technique': 'Coq theorems over an executable Gallina model of CpuSet (cpu_set_t words), parseLinuxCpuList (explicit strtol model) and '
                 'buildGroupsFromCacheTopology + differential run of the real class/parser/grouping against the model evaluated by vm_compute',
    'text': 'Kernel-checked: every CpuSet operation sequence denotes the mathematical set over [0,1024) (out-of-range ids ignored, count = cardinality); '
            'parseLinuxCpuList of ANY byte string is characterised piece by piece, and for every string of the grammar item("," item)* it is exactly the '
            'denoted in-range set EXCEPT in the domain list_lossy (range n-m with n < 1024 and m > 2^20), where the property is refuted by the witness '
            '"0-1048577" (C43_parse_denotes_refuted / C43_parse_denotes_holds_except); buildGroupsFromCacheTopology partitions the L2 cpus into sorted, '
            'non-empty groups made of consecutive whole L2 atoms, never two known L3 indices in one group (L2 nested in L3), size <= max(maxGroupSize, largest L2). '
            'The real code is run on random operation sequences, all strings over {0-9 , - space} up to length 4 (quick) / 5 (thorough) plus structured and '
            'random longer ones, and random synthetic topologies; each result is compared with the model and the executable property is evaluated on it in Coq.',
    'note': 'Trusted: Coq kernel; harness/h_cpuset.cpp (reads cpu_set_t words through #define private public); glibc strtol/CPU_* macros are modelled, '
            'tied by the differential run only. sysfs/sysctl probing (l2CacheGroups, all(), buildThreadGroups safety net) is not separable from the OS and is out of scope.',
}

ASSUMPTIONS = [
    'Linux/glibc x86-64 backing: cpu_set_t = 16 x uint64 words, CPU_SETSIZE = 1024 (static_asserted in the harness); the portable bitset backing is not built here',
    'strtol (base 10, "C" locale) and CPU_SET/CPU_CLR/CPU_ISSET/CPU_COUNT are modelled by hand and tied by the differential run only',
    'grouping: L3 cpu ids are >= 0 and small enough to size a vector (negative L3 ids index cpuToL3 out of bounds in the real code: outside the model\'s domain); '
    'never_mixes_two_known_l3 assumes L2 groups nest in L3 groups (the code looks only at the first cpu of an L2 group; C43_l3_mix_needs_nesting)',
    'exhaustive string buckets are compared through a 64-bit rolling digest of the resulting words (a mismatching bucket is re-run string by string)',
]

KF_KEY = 'parse-huge-range-end'
IMPORTS = 'From Coq Require Import String.\nFrom DV Require Import Base.Corr Model.CpuSetModel Model.C43Check.'
ALPHA = [48, 49, 50, 51, 52, 53, 54, 55, 56, 57, 44, 45, 32]
I32MIN, I32MAX = -(1 << 31), (1 << 31) - 1
IDPOOL = [I32MIN, I32MIN + 1, -100000, -1025, -1024, -65, -64, -2, -1, 0, 1, 2, 31, 32, 62, 63, 64, 65, 127, 128, 129, 255, 256, 511, 512, 960,
          1022, 1023, 1024, 1025, 1087, 1088, 2047, 2048, 4096, 65535, 1 << 20, (1 << 20) + 1, 1 << 30, I32MAX - 1, I32MAX]


# ---------------------------------------------------------------------------------------------------- case generation
def rid(r):
    m = r.random()
    if m < 0.35:
        return r.choice(IDPOOL)
    if m < 0.85:
        return r.randint(0, 1023)
    if m < 0.93:
        return r.randint(-1100, 2200)
    return r.randint(I32MIN, I32MAX)


def boundary_ops():
    """deterministic family aimed at the clamps: ranges that start at or below 0 / end at or above 1024, on full and empty sets"""
    cases = []
    qs = [('q', -1), ('q', 0), ('q', 1), ('q', 63), ('q', 64), ('q', 1022), ('q', 1023), ('q', 1024), ('n',)]
    starts = [I32MIN, -1, 0, 1, 63, 64, 1023, 1024]
    ends = [I32MIN, 0, 1, 2, 64, 65, 1023, 1024, 1025, I32MAX]
    for s in starts:
        for e in ends:
            if e - s > 200 and not (s <= 1 and e >= 1023):
                continue
            cases.append([('A', s, e)] + qs)
            cases.append([('A', -7, 1031), ('R', s, e)] + qs)
    for a in [I32MIN, -1, 0, 1, 1022, 1023, 1024, I32MAX]:
        cases.append([('a', a)] + qs + [('r', a)] + qs)
        cases.append([('A', 0, 1024), ('r', a)] + qs + [('a', a), ('n',), ('c',), ('n',)])
    return cases


def gen_ops(r, n):
    cases = boundary_ops()
    while len(cases) < n:
        k = r.randint(1, 14)
        ops, touched = [], [0, 1023]
        for _ in range(k):
            m = r.random()
            if m < 0.2:
                a = rid(r); ops.append(('a', a)); touched.append(a)
            elif m < 0.4:
                a = rid(r)
                b = r.choice([a, a + 1, a + 2, a + r.randint(0, 40), a + r.randint(0, 40), a - 1, a + 64, a + 65, rid(r) if r.random() < 0.3 else a + 3])
                b = max(I32MIN, min(I32MAX, b)); ops.append(('A', a, b)); touched += [a, b]
            elif m < 0.52:
                a = r.choice(touched) if r.random() < 0.6 else rid(r); ops.append(('r', a)); touched.append(a)
            elif m < 0.66:
                a = r.choice(touched) if r.random() < 0.5 else rid(r)
                b = r.choice([a + 1, a + r.randint(0, 40), a + 64, rid(r) if r.random() < 0.3 else a + 2, a - 3])
                b = max(I32MIN, min(I32MAX, b)); ops.append(('R', a, b)); touched += [a, b]
            elif m < 0.69:
                ops.append(('c',))
            elif m < 0.88:
                a = r.choice(touched) + r.choice([-1, 0, 0, 0, 1]) if r.random() < 0.8 else rid(r)
                a = max(I32MIN, min(I32MAX, a)); ops.append(('q', a))
            else:
                ops.append(('n',))
        if not any(o[0] in 'qn' for o in ops):
            ops.append(('n',))
        cases.append(ops)
    return cases


def ops_line(ops):
    return 'ops %d %s' % (len(ops), ' '.join(' '.join(str(x) for x in o) for o in ops))


def ops_term(ops):
    z = dv.zlit
    t = []
    for o in ops:
        t.append({'a': lambda: 'OAdd %s' % z(o[1]), 'A': lambda: 'OAddRange %s %s' % (z(o[1]), z(o[2])), 'r': lambda: 'ORem %s' % z(o[1]),
                  'R': lambda: 'ORemRange %s %s' % (z(o[1]), z(o[2])), 'c': lambda: 'OClear', 'q': lambda: 'OContains %s' % z(o[1]),
                  'n': lambda: 'OCount'}[o[0]]())
    return dv.coq_list(t)


NUMPOOL = ['0', '1', '2', '3', '7', '9', '10', '63', '64', '65', '100', '511', '1000', '1022', '1023', '1024', '1025', '2047', '4095', '65536',
           '1048575', '1048576', '1048577', '2147483647', '2147483648', '4294967295', '4294967296', '9223372036854775807', '9223372036854775808',
           '18446744073709551615', '18446744073709551616', '99999999999999999999999999', '00', '007', '0001023', '000000000000000000000005']


def rnum(r):
    m = r.random()
    if m < 0.4:
        return r.choice(NUMPOOL)
    if m < 0.8:
        return str(r.randint(0, 1100))
    if m < 0.9:
        return str(r.randint(0, 1 << r.randint(1, 70)))
    return '0' * r.randint(1, 3) + str(r.randint(0, 2000))


def rrange(r):
    """n-m : mostly short spans around interesting starts, sometimes arbitrary pairs"""
    if r.random() < 0.35:
        return rnum(r) + '-' + rnum(r)
    lo = rnum(r)
    return lo + '-' + str(int(lo) + r.choice([0, 1, 2, 3, 7, 63, 64, 65, -1, r.randint(0, 40)]) if int(lo) > 0 else r.randint(0, 70))


def gen_strings(r, n):
    fixed = ['', '0', '0-3', '0-3,8-11', '0-1048576', '0-1048577', '5-99999999999999999999', '1000-2000000', '1023-1048577', '1024-1048577',
             '1048577-5', '1-2-3', '1--2', '-5', '3-', '-', ',', ',,', '1,', ',1', '1,,2', 'abc', '1a', '1-a', 'a-1', '0x10', ' 1', '1 ', ' 1 - 2',
             '1- 2', '+1-+3', '-0', '-0-3', '+0', '3-1', '5-5', '\t7', '\n7', '\v7', '\f7', '\r7', '7\n', '0-1023', '0-1024', '1023', '1024', '0-9223372036854775807',
             '0-9223372036854775808', '-9223372036854775809', '1 2', '1 2-3', '1-2 3', '0-3,abc,5', '++1', '+-1', '- 1', '1-+', '1-+2', '1-++2', ' ', '  ,  ', '1 ,2',
             '1, 2', '1048576', '1048577', '0-1048576,5', '4-1048577,2']
    out = [list(s.encode()) for s in fixed]
    out.append([49, 0, 44, 50])          # embedded NUL: the C string ends there
    out.append([0])
    out.append([49, 45, 51, 0, 53])
    while len(out) < n:
        m = r.random()
        if m < 0.4:        # the grammar
            items = []
            for _ in range(r.randint(1, 5)):
                items.append(rnum(r) if r.random() < 0.45 else rrange(r))
            s = ','.join(items)
        elif m < 0.6:      # grammar perturbed by blanks / signs / junk
            items = []
            for _ in range(r.randint(1, 4)):
                def dec(x):
                    return r.choice(['', '', ' ', '  ', '\t', '+', '-', ' +', ' -']) + x + r.choice(['', '', ' ', 'x', ' 7', '-'])
                items.append(dec(rnum(r)) if r.random() < 0.4 else dec(rnum(r)) + '-' + dec(rnum(r)))
            s = r.choice([',', ',', ', ', ',,']).join(items)
        elif m < 0.85:     # random over the small alphabet (+ a few more symbols), longer than the exhaustive bound
            k = r.randint(5, 12)
            al = '0123456789,- ' if r.random() < 0.7 else '0123456789,- +\tx'
            s = ''.join(r.choice(al) for _ in range(k))
        else:              # arbitrary bytes
            out.append([r.choice([r.randint(1, 255), r.randint(44, 57), r.randint(44, 57), 0 if r.random() < 0.1 else 48]) for _ in range(r.randint(0, 10))])
            continue
        out.append(list(s.encode()))
    return out


def gen_topologies(r, n):
    cases = []
    while len(cases) < n:
        smt = r.choice([1, 1, 2, 2, 2, 3, 4, 8])
        ncores = r.randint(1, max(1, 48 // smt))
        base = r.choice([0, 0, 0, 0, 5, 100, 1000, 1020])
        layout = r.choice(['consec', 'interleaved', 'interleaved'])
        atoms = []
        for c in range(ncores):
            if layout == 'consec':
                atoms.append([base + c * smt + t for t in range(smt)])
            else:
                atoms.append([base + c + t * ncores for t in range(smt)])
        l3mode = r.choice(['none', 'all', 'blocks', 'blocks', 'blocks', 'partial', 'percpu', 'overlap'])
        l3 = []
        if l3mode == 'all':
            l3 = [[c for a in atoms for c in a]]
        elif l3mode in ('blocks', 'partial', 'overlap'):
            per = r.choice([1, 2, 3, 4, 8])
            for i in range(0, ncores, per):
                blk = atoms[i:i + per]
                if l3mode == 'partial' and r.random() < 0.35:
                    continue                      # these cores have no known L3
                l3.append([c for a in blk for c in a])
            if l3mode == 'overlap' and l3:
                l3.append(list(r.choice(l3)))      # a cpu listed twice: the last L3 group wins
                r.shuffle(l3)
        elif l3mode == 'percpu':                   # not nested: cpus of one L2 spread over L3 groups
            k = r.randint(1, 4)
            l3 = [[] for _ in range(k)]
            for a in atoms:
                for c in a:
                    if r.random() < 0.8:
                        l3[r.randrange(k)].append(c)
        l2 = [list(a) for a in atoms]
        if r.random() < 0.25:
            r.shuffle(l2)                          # not sorted by first cpu
        if r.random() < 0.2:
            for a in l2:
                r.shuffle(a)
        if r.random() < 0.15:
            l2.insert(r.randrange(len(l2) + 1), [])    # empty L2 entries are skipped
        if r.random() < 0.1:
            l2.insert(r.randrange(len(l2) + 1), list(r.choice(l2)))   # duplicated L2 group
        if r.random() < 0.1:
            l2.append([-3, -1] if r.random() < 0.5 else [5000, 70000])          # ids no CpuSet can hold
        if r.random() < 0.1 and l3:
            l3.insert(r.randrange(len(l3) + 1), [])
        sizes = [len(a) for a in l2] + [1]
        mg = r.choice([I32MIN, -1, 0, 1, 2, 3, 4, 6, 8, 16, 16, 16, 32, 64, I32MAX, max(sizes), max(sizes) + 1, 2 * max(sizes), 2 * max(sizes) - 1])
        cases.append((l2, l3, mg))
    return cases


def grp_line(c):
    l2, l3, mg = c
    def enc(gs):
        return '%d %s' % (len(gs), ' '.join('%d %s' % (len(g), ' '.join(map(str, g))) for g in gs))
    return ' '.join(('grp %d %s %s' % (mg, enc(l2), enc(l3))).split())


def zl(l):
    return dv.coq_list([dv.zlit(x) for x in l])


def zll(ll):
    return dv.coq_list([zl(l) for l in ll])


def parse_grp(o):
    if o is None or not o.startswith('grp '):
        return None
    left, right = o.split('|')
    t = [int(x) for x in left.split()[1:]]
    g, pos, groups = t[0], 1, []
    for _ in range(g):
        k = t[pos]
        groups.append(t[pos + 1:pos + 1 + k])
        pos += 1 + k
    w = [int(x) for x in right.split()]
    if len(w) != 16 * g:
        return None
    return groups, [w[16 * i:16 * i + 16] for i in range(g)]


def words_of(o, tag):
    if o is None or not o.startswith(tag + ' '):
        return None
    w = [int(x) for x in o.split()[1:]]
    return w if len(w) == 16 else None


def big(words):
    """16 cpu_set_t words -> one hexadecimal Coq literal"""
    v = 0
    for k, w in enumerate(words):
        v |= w << (64 * k)
    return '0x%x' % v


def str_term(s, w):
    """(judge, term) for one string case: printable ASCII goes as a string literal"""
    if all(32 <= c <= 126 for c in s):
        return 'judge_parse_s', '("%s"%%string, %s)' % (bytes(s).decode('ascii').replace('"', '""'), big(w))
    return 'judge_parse', '(%s, %s)' % (zl(s), big(w))


def cmd_of(line):
    return "echo '%s' | build/harness/h_cpuset-*" % line


# ---------------------------------------------------------------------------------------------------- the run
def judge_parallel(ctx, jobs):
    """jobs: list of (name, [(judge_fn, terms), ...]).  Returns dict name -> concatenated verdict list or None"""
    def one(j):
        name, defs = j
        res = pf_common.coq_judge(ctx, name, IMPORTS, defs, timeout=1500)
        return name, (sum(res, []) if res is not None else None)
    out = {}
    with concurrent.futures.ThreadPoolExecutor(max_workers=8 if ctx.quick else 12) as ex:
        for name, res in ex.map(one, jobs):
            out[name] = res
    return out


def run(ctx):
    ctx.prove(models=['Model/C43Check.v', 'Base/Corr.v'])
    exe = dv.build_harness('h_cpuset', ['h_cpuset.cpp'])
    r = ctx.rng
    nops = 350 if ctx.quick else 3000
    nstr = 900 if ctx.quick else 6000
    ngrp = 300 if ctx.quick else 2500
    maxlen = 4 if ctx.quick else 5

    ops = gen_ops(r, nops)
    strs = [[48, 45, 49, 48, 52, 56, 53, 55, 55]] + gen_strings(r, nstr)      # first: the known finding's witness "0-1048577"
    topos = gen_topologies(r, ngrp)
    # exhaustive buckets: (prefix, suffix length)
    buckets = [([], 0), ([], 1), ([], 2), ([], 3)]
    for L in range(4, maxlen + 1):
        for a in ALPHA:
            for b in ALPHA:
                buckets.append(([a, b], L - 2))
    if not ctx.quick:      # a sample of length-6 buckets on top of the exhaustive lengths
        for _ in range(60):
            buckets.append(([r.choice(ALPHA), r.choice(ALPHA), r.choice(ALPHA)], 3))
    lines = [ops_line(o) for o in ops] + ['parse %d %s' % (len(s), ' '.join(map(str, s))) for s in strs] + \
            ['ex %d %s %d' % (len(p), ' '.join(map(str, p)), n) for p, n in buckets] + [grp_line(c) for c in topos]
    lines = [' '.join(l.split()) for l in lines]
    outs = pf_common.run_harness(exe, lines)
    o_ops = outs[:len(ops)]
    o_str = outs[len(ops):len(ops) + len(strs)]
    o_ex = outs[len(ops) + len(strs):len(ops) + len(strs) + len(buckets)]
    o_grp = outs[len(ops) + len(strs) + len(buckets):]
    l_ops = lines[:len(ops)]
    l_str = lines[len(ops):len(ops) + len(strs)]
    l_ex = lines[len(ops) + len(strs):len(ops) + len(strs) + len(buckets)]
    l_grp = lines[len(ops) + len(strs) + len(buckets):]
    ctx.phase('harness')

    jobs, keep = [], {}
    # --- operation sequences
    terms, kept = [], []
    for c, o, l in zip(ops, o_ops, l_ops):
        ok = o is not None and o.startswith('ops ') and '|' in o
        if ok:
            left, right = o.split('|')
            res = [int(x) for x in left.split()[2:]]
            w = [int(x) for x in right.split()]
            ok = len(w) == 16
        if not ok:
            ctx.violation('harness failed on %s: %s' % (l, o), {'case': l, 'output': o, 'cmd': cmd_of(l)})
            continue
        terms.append('(%s, (%s, %s))' % (ops_term(c), zl(res), big(w)))
        kept.append((c, l, o))
    for i, sh in enumerate(pf_common.shard(list(zip(terms, kept)), max(1, len(terms) // 1600))):
        jobs.append(('ops%d' % i, [('judge_ops', [t for t, _ in sh])]))
        keep['ops%d' % i] = [k for _, k in sh]
    # --- strings
    pairs = []
    for s, o, l in zip(strs, o_str, l_str):
        w = words_of(o, 'parse')
        if w is None:
            ctx.violation('harness failed on %s: %s' % (l, o), {'case': l, 'output': o, 'cmd': cmd_of(l)})
            continue
        fn, term = str_term(s, w)
        pairs.append((fn, term, (s, l, o)))
    for i, sh in enumerate(pf_common.shard(pairs, max(1, len(pairs) // 1600))):
        a = [x for x in sh if x[0] == 'judge_parse_s']
        b = [x for x in sh if x[0] == 'judge_parse']
        jobs.append(('str%d' % i, [('judge_parse_s', [x[1] for x in a]), ('judge_parse', [x[1] for x in b])]))
        keep['str%d' % i] = [x[2] for x in a] + [x[2] for x in b]
    # --- exhaustive buckets (cheap ones together, the rest spread over the workers)
    terms, kept = [], []
    for (p, n), o, l in zip(buckets, o_ex, l_ex):
        if o is None or not o.startswith('ex '):
            ctx.violation('harness failed on %s: %s' % (l, o), {'case': l, 'output': o, 'cmd': cmd_of(l)})
            continue
        terms.append('(%s, %d, %s)' % (zl(p), n, o.split()[1]))
        kept.append((p, n, l))
    pairs = list(zip(terms, kept))
    r.shuffle(pairs)                      # spread the expensive "d-" buckets
    for i, sh in enumerate(pf_common.shard(pairs, 2 if ctx.quick else 16)):
        jobs.append(('ex%d' % i, [('judge_bucket', [t for t, _ in sh])]))
        keep['ex%d' % i] = [k for _, k in sh]
    # --- topologies
    terms, kept = [], []
    for c, o, l in zip(topos, o_grp, l_grp):
        p = parse_grp(o)
        if p is None:
            ctx.violation('harness failed on %s: %s' % (l, o), {'case': l, 'output': o, 'cmd': cmd_of(l)})
            continue
        terms.append('((%s, %s, %s), (%s, %s))' % (zll(c[0]), zll(c[1]), dv.zlit(c[2]), zll(p[0]), dv.coq_list([big(m) for m in p[1]])))
        kept.append((c, l, p))
    for i, sh in enumerate(pf_common.shard(list(zip(terms, kept)), max(1, len(terms) // 1000))):
        jobs.append(('grp%d' % i, [('judge_groups', [t for t, _ in sh])]))
        keep['grp%d' % i] = [k for _, k in sh]

    res = judge_parallel(ctx, jobs)
    ctx.phase('coq-judge')

    hist = {'ops': {}, 'parse': {}, 'bucket': {}, 'groups': {}}
    bad_buckets = []
    for name, _ in jobs:
        vs = res.get(name)
        if vs is None:
            ctx.broken.append('correspondence D(C43): the model no longer evaluates on shard %s (see coq_eval_errors)' % name)
            continue
        for v, k in zip(vs, keep[name]):
            if name.startswith('ops'):
                hist['ops'][v] = hist['ops'].get(v, 0) + 1
                c, l, o = k
                if v == 2:
                    ctx.violation('CpuSet operation sequence: query results / final set differ from the mathematical set: %s -> %s' % (l, o),
                                  {'case': l, 'impl': o, 'cmd': cmd_of(l)})
                elif v == 1:
                    ctx.broken.append('correspondence D(C43): implementation differs from the model on %s -> %s' % (l, o))
            elif name.startswith('str'):
                hist['parse'][v] = hist['parse'].get(v, 0) + 1
                s, l, o = k
                txt = bytes(s).decode('latin-1')
                if v == 4:
                    ctx.violation('parseLinuxCpuList(%r) drops in-range ids the string denotes (range end above 2^20 rejected by parseIntClamped): %s' % (txt, o),
                                  {'finding_key': KF_KEY, 'case': l, 'string': txt, 'impl': o, 'cmd': cmd_of(l)})
                elif v == 2:
                    ctx.violation('parseLinuxCpuList(%r) does not yield the denoted in-range ids: %s' % (txt, o),
                                  {'case': l, 'string': txt, 'impl': o, 'cmd': cmd_of(l)})
                elif v == 1:
                    ctx.broken.append('correspondence D(C43): parser differs from the model on %r -> %s' % (txt, o))
            elif name.startswith('ex'):
                hist['bucket'][v] = hist['bucket'].get(v, 0) + 1
                if v != 0:
                    bad_buckets.append(k)
            else:
                hist['groups'][v] = hist['groups'].get(v, 0) + 1
                c, l, p = k
                if v == 2:
                    ctx.violation('buildGroupsFromCacheTopology: groups are not a partition into whole L2 atoms / mix known L3 groups / exceed the size bound / wrong mask: %s -> %s'
                                  % (l, p[0]), {'case': l, 'impl_groups': p[0], 'cmd': cmd_of(l)})
                elif v == 1:
                    ctx.broken.append('correspondence D(C43): grouping differs from the model on %s -> %s' % (l, p[0]))

    # a bucket whose digest differs: judge its strings one by one to get the concrete failing string
    for p, n, l in bad_buckets[:3]:
        sub = []
        idx = [0] * n
        while True:
            sub.append(p + [ALPHA[i] for i in idx])
            k = n - 1
            while k >= 0:
                idx[k] += 1
                if idx[k] < 13:
                    break
                idx[k] = 0
                k -= 1
            if k < 0:
                break
        sl = ['parse %d %s' % (len(s), ' '.join(map(str, s))) for s in sub]
        sl = [' '.join(x.split()) for x in sl]
        so = pf_common.run_harness(exe, sl)
        terms = ['(%s, %s)' % (zl(s), big(words_of(o, 'parse') or [0])) for s, o in zip(sub, so)]
        rs = judge_parallel(ctx, [('bad%d' % i, [('judge_parse', [t for t in sh])]) for i, sh in enumerate(pf_common.shard(terms, 4))])
        flat = []
        for i in range(4):
            flat += rs.get('bad%d' % i) or []
        found = False
        for v, s, x, o in zip(flat, sub, sl, so):
            if v in (1, 2):
                found = True
                txt = bytes(s).decode('latin-1')
                if v == 2:
                    ctx.violation('parseLinuxCpuList(%r) does not yield the denoted in-range ids: %s' % (txt, o), {'case': x, 'string': txt, 'impl': o, 'cmd': cmd_of(x)})
                else:
                    ctx.broken.append('correspondence D(C43): parser differs from the model on %r -> %s' % (txt, o))
                break
        if not found:
            ctx.broken.append('correspondence D(C43): digest of exhaustive bucket %s differs from the model but no single string does' % l)

    nstrings = sum(13 ** n for _, n in buckets)
    ctx.cov['evaluations'] += len(ops) + len(strs) + len(topos) + nstrings
    nt_ops = len(set(l for l in l_ops))
    nt_str = len(set(tuple(s) for s, o in zip(strs, o_str) if o and any(int(x) for x in o.split()[1:])))
    nt_grp = len(set(l for l, o in zip(l_grp, o_grp) if o and int(o.split()[1]) > 1))
    ctx.cov['distinct_nontrivial'] += nt_ops + nt_str + nt_grp + nstrings
    ctx.cov['rule'] = ('ops: random sequences of 1..15 add/addRange/remove/removeRange/clear/contains/count with ids from word boundaries, 1023/1024, negative, 2^20, '
                       'INT32 limits (distinct sequences); strings: judged one by one = grammar lists with boundary numbers (1023..1025, 2^20 +-1, 2^31, 2^63, 2^64, 10^25, '
                       'leading zeros), blanks/signs/junk perturbations, random over {0-9,- } of length 5..12, arbitrary bytes incl. NUL -- non-trivial = non-empty result; '
                       'exhaustive: ALL strings over {0-9 , - space} of length <= %d (%d strings%s) compared per bucket through a digest of the cpu_set_t words; '
                       'topologies: SMT 1..8 x consecutive/interleaved numbering x L3 none/all/blocks/partial/overlapping/non-nested x shuffled, empty, duplicated, '
                       'unrepresentable L2 entries x maxGroupSize in {INT_MIN,-1,0,1..64,INT_MAX, around the largest L2} -- non-trivial = more than one group'
                       % (maxlen, sum(13 ** k for k in range(maxlen + 1)), '' if ctx.quick else ' + 60 random length-6 buckets'))
    names = {0: 'agree_and_property_holds', 1: 'differs_but_property_holds', 2: 'property_fails', 4: 'property_fails_in_known_domain(list_lossy)'}
    ctx.cov['verdict_histogram'] = {k: {names.get(v, str(v)): c for v, c in h.items()} for k, h in hist.items()}
    ctx.cov['traces_validated_against_impl'] += sum(h.get(0, 0) for h in hist.values())
    ctx.cov['cases'] = {'op_sequences': len(ops), 'strings_judged_individually': len(strs), 'exhaustive_strings': nstrings, 'buckets': len(buckets),
                        'topologies': len(topos)}
    ctx.sample({'ops': l_ops[len(l_ops) // 2], 'impl': o_ops[len(l_ops) // 2]})
    ctx.sample({'string': bytes(strs[len(strs) // 3]).decode('latin-1'), 'impl': o_str[len(strs) // 3]})
    ctx.sample({'string': '0-1048577', 'impl': o_str[0], 'note': 'witness of the known finding %s' % KF_KEY})
    ctx.sample({'grp': l_grp[len(l_grp) // 2], 'impl': o_grp[len(l_grp) // 2]})
    ctx.phase('correspond')
