"""C26 -- TimedTask run count, cancellation and teardown.   Tie: lockstep (L) under harness/vsched.h + native one-sided timing (D)."""
import os, re
import dv, ls_common, pf_common

META = {
    'category': 'proof',
    'technique': 'Coq invariants over all interleavings of a step-level model of one timed task (scheduler role / user thread / any number of pool threads; '
                 'one step per atomic access of TimedTaskImpl and per access of the func cell) plus an abstract clock layer; lockstep replay of the same schedules '
                 'on the real hooked code under a cooperative scheduler (ASan build for the teardown witnesses); native one-sided timing run',
    'text': 'Kernel-checked for every timesToRun < 2^32, any number of pool threads, any return values of the functor, any user program over cancel/detach/calls/~TimedTask and every '
            'schedule: (1) invocations <= tickets handed out by fetch_sub <= timesToRun, and no ticket is handed out after any store of 0 (cancel, destructor, false return); '
            '(2) clocked refinement: no invocation starts before firstTime - kSmallTimeBuffer (the run loop fires when timeRemaining < 10 us: firing up to 10 us early is by design, '
            'recorded as an observation); (3) after the cancelled bit is set at most the wrappers that are between their flag load and f() can still start the body -- so '
            '"never starts after cancel() returned" is REFUTED (C26_refuted_cancel, witness schedule) and holds when no wrapper is in that window (C26_holds_except_cancel); the same '
            'window exists after an invocation returned false (C26_refuted_false); (4) "the destructor returns only when nothing is in progress and nothing can start / touch the functor" '
            'is REFUTED (C26_refuted_dtor: the inProgress==0 spin passes while the scheduler role is between func\'s cancelled-check and inProgress++, then func = {} frees the closure being '
            'executed: heap-use-after-free, reproduced under ASan on the real code on every run) and holds when the scheduler role holds no ticket at the spin exit (C26_holds_except_dtor). '
            'Tie: generated user programs x schedules are run on the real TimedTaskImpl/TimedTask/kickOffTask with hooks before every atomic access and around func call/clear; step trace, '
            'results, final memory are compared with the model evaluated in Coq, and the executable property is evaluated on the implementation\'s own trace.',
    'note': 'Trusted: Coq kernel; harness/vsched.h, harness/h_timedtask.cpp (the scheduler role calls the real kickOffTask; the run loop\'s due-test is only exercised natively); '
            'SC interleaving of the atomics; steady_clock for the native run. No axioms.',
}

ASSUMPTIONS = [
    'sequentially consistent interleaving of the atomic accesses of TimedTaskImpl (weak-memory reorderings not modelled)',
    'one timed task per model instance; the run loop of TimedTaskScheduler is represented by its pick step (guard timeRemaining < kSmallTimeBuffer in the clock layer) -- '
    'the priority queue and the epoch waiter are not modelled; the lockstep harness plays the scheduler role by calling the real kickOffTask (the real background thread stays idle)',
    'timesToRun < 2^32 in the theorems that use the inProgress (uint32) pipeline invariant',
    'the native timing run is one-sided (no invocation earlier than requested - 10 us; count == timesToRun after a generous wait)',
]

SITES = ['start', 'h.pick', 'tt.kick.ttr.fetch_sub', 'tt.kick.func.call', 'tt.func.flags.load', 'tt.func.inprogress.inc', 'tt.func.schedule',
         'h.poll', 'tt.wrap.flags.load', 'tt.wrap.call', 'tt.wrap.ttr.store', 'tt.wrap.flags.or', 'tt.wrap.func.clear', 'tt.wrap.count.inc',
         'tt.wrap.inprogress.dec', 'tt.cancel.ttr.store', 'tt.cancel.flags.or', 'tt.detach.flags.or', 'tt.calls.count.load', 'tt.dtor.flags.load',
         'tt.dtor.inprogress.load', 'tt.dtor.func.clear']
TAGS = {'calls': 1, 'start': 2, 'uafcall': 3, 'badcall': 4, 'dret': 9}     # 9: judged, not part of the model's result log
STATUS = {'done': 0, 'deadlock': 1, 'budget': 2, 'crash': 3, 'asan': 4}
KEY_DTOR = 'dtor-passes-inprogress-spin-while-func-call-in-flight'
KEY_CANCEL = 'body-starts-after-cancel-returned'
KEY_FALSE = 'body-starts-after-false-returned'
UOPS = {'C': 'UCancel', 'D': 'UDetach', 'L': 'UCalls', 'X': 'UDtor'}
EPS_NS = 10000          # kSmallTimeBuffer = 10e-6 s, the tolerance stated in the theorem
IMPORTS = 'From DV Require Import Base.Sched Model.TimedTaskModel Model.C26Check.'


def line_of(c):
    return 'ls %d %d %d ; R %s ; U %s ; S %s' % (c['n'], c['npool'], c['budget'], ' '.join(str(x) for x in c['rets']), ' '.join(c['prog']),
                                                 ' '.join(map(str, c['sched'])))


def parse(o):
    """harness line -> dict (None if malformed)"""
    p = ls_common.parse_vsched(o, SITES, TAGS)
    if p is None or 'error' in p:
        return p
    p['status'] = STATUS.get(o.rsplit('status', 1)[-1].strip(), 9)
    mm = re.search(r'ttr (\d+) flags (\d+) inprog (\d+) count (\d+) alive (\d+) q (\d+) copies (\d+)', p['extra'])
    if not mm:
        return None
    p['mem'] = [int(x) for x in mm.groups()]
    return p


def term_of(c, p):
    nthr = 2 + c['npool']
    res = dv.coq_list([ls_common.zpairs([x for x in p['results'].get(t, []) if x[0] != 9]) for t in range(nthr)])
    dret = [x[1] for t in range(nthr) for x in p['results'].get(t, []) if x[0] == 9]
    ttr, fl, ip, cnt, al, q, _ = p['mem']
    return '(TC %s %d%%nat %d%%nat %s %s %s %s %s %d %s %d %d %s %d %d %s)' % (
        dv.zlit(c['n']), c['npool'], c['budget'], dv.coq_list(['true' if x else 'false' for x in c['rets']]),
        dv.coq_list([UOPS[o] for o in c['prog']]), dv.coq_list([str(x) for x in c['sched']]),
        ls_common.zpairs(p['steps']), res, p['status'], dv.zlit(ttr), fl, ip, dv.zlit(cnt), al, q, dv.zlit(dret[0] if dret else -1))


def gen_case(r):
    n = r.choice([0, 1, 1, 2, 2, 2, 3, 3, 4])
    npool = r.choice([1, 1, 2, 2, 3])
    rets = [0 if r.random() < 0.3 else 1 for _ in range(r.randint(0, max(n, 1)))]
    prog = r.choice([[], ['C'], ['X'], ['X'], ['L', 'C'], ['C', 'X'], ['D', 'X'], ['L', 'X'], ['C', 'L'], ['D'], ['L', 'L', 'X'], ['C', 'C'],
                     ['D', 'C', 'X'], ['L']])
    budget = 70
    sched = []
    sticky = r.random() < 0.6
    while len(sched) < budget + 10:
        v = r.randrange(0, 60)
        k = r.choice([1, 1, 2, 3, 5, 8]) if sticky else 1
        sched += [v] * k
    return {'n': n, 'npool': npool, 'budget': budget, 'rets': rets, 'prog': prog, 'sched': sched[:budget + 10]}


# deterministic witnesses = the schedules of the Coq refutations (Proofs/C26Proofs.v wd_*, wc_*, wf_*, wo_*, wb_*), padded
def _pad(l, n=30):
    return l + [0] * n


WITNESSES = [
    # (name, case, expected verdict of judge_tt, finding key or None, run under ASan too?)
    ('dtor', {'n': 1, 'npool': 1, 'budget': 30, 'rets': [], 'prog': ['X'], 'sched': _pad([0] * 5 + [1] * 6 + [0] * 7)}, 10, KEY_DTOR, True),
    ('cancel', {'n': 1, 'npool': 1, 'budget': 30, 'rets': [], 'prog': ['C'], 'sched': _pad([0] * 7 + [1] * 3 + [0] * 7)}, 9, KEY_CANCEL, False),
    ('false', {'n': 2, 'npool': 2, 'budget': 40, 'rets': [0], 'prog': [], 'sched': _pad([1] + [0] * 13 + [0] * 3 + [1] * 3 + [0, 1] + [0] * 20)}, 12, KEY_FALSE, False),
    ('wrapper-clear-uaf', {'n': 2, 'npool': 2, 'budget': 40, 'rets': [0], 'prog': [], 'sched': _pad([1] + [0] * 13 + [0] * 3 + [1] * 3 + [0] + [0] * 3 + [1] + [0] * 20)}, 212, KEY_FALSE, True),
    ('bad-function-call', {'n': 1, 'npool': 1, 'budget': 30, 'rets': [], 'prog': ['X'], 'sched': _pad([0] * 3 + [1] * 6 + [0] * 10)}, 110, KEY_DTOR, False),
]
MASK_KEYS = [(1, KEY_CANCEL, 'the functor started after cancel() had returned'),
             (2, KEY_DTOR, 'the closure stored in func was accessed / func was called after ~TimedTask had returned'),
             (4, KEY_FALSE, 'the functor started after an earlier invocation had returned false')]


def k_small_time_buffer():
    """kSmallTimeBuffer as written in /repo/dispenso/timed_task.cpp, in ns (None if the line is gone)"""
    try:
        txt = open(os.path.join(dv.REPO, 'dispenso', 'timed_task.cpp')).read()
    except OSError:
        return None
    mm = re.search(r'constexpr\s+double\s+kSmallTimeBuffer\s*=\s*([0-9.eE+-]+)\s*;', txt)
    if not mm or 'timeRemaining < kSmallTimeBuffer' not in txt:
        return None
    return float(mm.group(1)) * 1e9


def report(ctx, v, c, o, where):
    """turn one judge_tt verdict into violations / known findings / broken entries; returns the base verdict"""
    base = v % 100
    ln = line_of(c)
    if base == 2:
        ctx.violation('%s: the property fails on the implementation\'s own trace outside the domains of the known findings: %s -> %s' % (where, ln[:200], o[:400]),
                      {'case': ln, 'output': o, 'cmd': 'echo "%s" | build/harness/h_timedtask-*' % ln})
    elif base == 1:
        ctx.broken.append('correspondence L(C26) %s: real trace differs from the model on %s -> %s' % (where, ln[:160], o[:240]))
    elif base >= 8:
        for bit, key, what in MASK_KEYS:
            if (base - 8) & bit:
                ctx.violation('%s (%s): %s -> %s' % (what, where, ln[:200], o[:300]), {'finding_key': key, 'case': ln, 'output': o})
    return base


def run_witnesses(ctx, exe, exe_asan):
    """replay the Coq refutation schedules on the real code (normal build: lockstep judge; ASan build: the UAF itself)"""
    lines = [line_of(c) for _, c, _, _, _ in WITNESSES]
    outs = ls_common.run_cases(exe, lines, jobs=len(lines))
    terms, kept = [], []
    for (name, c, exp, key, _), o in zip(WITNESSES, outs):
        p = parse(o)
        if p is None or 'error' in p:
            ctx.broken.append('witness %s: harness output unreadable: %s' % (name, (o or '')[:200]))
            continue
        terms.append(term_of(c, p))
        kept.append((name, c, exp, key, o))
    verdicts = ls_common.judge_parallel(ctx, IMPORTS, 'judge_tt', terms) if terms else []
    wres = {}
    if verdicts is None:
        ctx.broken.append('witness replay: the model no longer evaluates')
        verdicts = []
    for v, (name, c, exp, key, o) in zip(verdicts, kept):
        wres[name] = v
        if v % 100 == exp % 100:
            report(ctx, v, c, o, 'witness ' + name)          # known finding reproduced -> KNOWN-FINDING line (or VIOLATION if not registered)
        elif v % 100 == 0:
            ctx.cov.setdefault('witness_no_longer_reproduces', []).append(name)   # e.g. after a fix: nothing to report
        else:
            report(ctx, v, c, o, 'witness ' + name)
    ctx.cov['witness_verdicts'] = wres
    # ASan build: the same schedules must end in a heap-use-after-free report inside dispenso's own code / the functor
    asan = {}
    if exe_asan:
        for name, c, exp, key, use_asan in WITNESSES:
            if not use_asan:
                continue
            env = dict(os.environ, ASAN_OPTIONS='detect_leaks=0:abort_on_error=0:halt_on_error=1')
            rc, out = dv.sh([exe_asan], inp=line_of(c) + '\n', timeout=120, env=env)
            uaf = 'heap-use-after-free' in out
            where = re.findall(r'#\d+ 0x[0-9a-f]+ in (.*?) (/\S+?(?:timed_task_impl\.h|timed_task\.h|timed_task\.cpp|h_timedtask\.cpp):\d+)', out)
            freed = re.search(r'freed by thread T\d+ here:(.*?)previously allocated', out, flags=re.S)
            freed_at = re.findall(r'(/\S+?(?:timed_task_impl\.h|timed_task\.h|timed_task\.cpp):\d+|dispenso::TimedTask::~TimedTask\(\))', freed.group(1)) if freed else []
            asan[name] = {'heap_use_after_free': uaf, 'access_at': [w[1].replace(dv.REPO, '') for w in where[:2]],
                          'freed_at': [f.replace(dv.REPO, '') for f in freed_at[:2]],
                          'status_line': next((l[-60:] for l in out.split('\n') if l.startswith('steps')), '')}
            if not uaf and wres.get(name, 0) % 100 == exp % 100:
                ctx.broken.append('witness %s: the lockstep judge reports the use-after-free window but the ASan build saw no heap-use-after-free: %s' % (name, out[-300:]))
    ctx.cov['asan_witnesses'] = asan
    return wres


def run_lockstep(ctx, exe):
    r = ctx.rng
    n = 300 if ctx.quick else 6000
    cases = [gen_case(r) for _ in range(n)]
    outs = ls_common.run_cases(exe, [line_of(c) for c in cases])
    terms, kept, distinct = [], [], set()
    for c, o in zip(cases, outs):
        p = parse(o)
        if p is None or 'error' in p:
            ctx.broken.append('lockstep harness output unreadable for %s: %s' % (line_of(c)[:160], (o or '')[:200]))
            continue
        terms.append(term_of(c, p))
        kept.append((c, p, o))
        if len(p['steps']) > c['npool'] + 2 + 4:
            distinct.add(o.split('| status')[0])
    verdicts = ls_common.judge_parallel(ctx, IMPORTS, 'judge_tt', terms, shard_size=60 if ctx.quick else 120)
    if verdicts is None:
        ctx.broken.append('correspondence L(C26): the model no longer evaluates')
        return
    hist, obs = {}, {'bad_function_call': 0, 'wrapper_clear_use_after_free': 0}
    for v, (c, p, o) in zip(verdicts, kept):
        base = report(ctx, v, c, o, 'lockstep')
        hist[base] = hist.get(base, 0) + 1
        if (v // 100) & 1: obs['bad_function_call'] += 1
        if (v // 100) & 2: obs['wrapper_clear_use_after_free'] += 1
    ctx.cov['evaluations'] += len(cases)
    ctx.cov['distinct_nontrivial'] += len(distinct)
    ctx.cov['traces_validated_against_impl'] += sum(k for b, k in hist.items() if b == 0 or b >= 8)
    ctx.cov['verdict_histogram'] = {'agree_property_holds': hist.get(0, 0), 'differ': hist.get(1, 0), 'violation_outside_known_domains': hist.get(2, 0),
                                    'agree_start_after_cancel_known': sum(k for b, k in hist.items() if b >= 8 and (b - 8) & 1),
                                    'agree_access_after_dtor_known': sum(k for b, k in hist.items() if b >= 8 and (b - 8) & 2),
                                    'agree_start_after_false_known': sum(k for b, k in hist.items() if b >= 8 and (b - 8) & 4)}
    ctx.cov['observations_beyond_property_text'] = obs
    ctx.cov['status_histogram'] = {k: sum(1 for _, p, _ in kept if p['status'] == v) for k, v in STATUS.items()}
    ctx.sample({'case': line_of(cases[0])[:200], 'impl': outs[0][:400]})


def run_native(ctx, exe):
    """real scheduler thread, real clock: one-sided observations (never earlier than scheduled - eps; count reaches timesToRun)"""
    cfgs = []
    reps = 1 if ctx.quick else 10
    for _ in range(reps):
        for steady in (0, 1):
            for pool in (0, 1):
                cfgs.append((3000, 2000, 3, steady, pool))
                cfgs.append((1500, 700, 4, steady, pool))
        cfgs.append((0, 1000, 2, 1, 0))          # due immediately: addTimedTask kicks it off on the caller's thread
        cfgs.append((200, 0, 1, 0, 1))           # single shot
    lines = ['nat %d %d %d %d %d %d' % (d, per, n, st, pl, d // 1000 + (n * per) // 1000 + 80) for d, per, n, st, pl in cfgs]
    outs = ls_common.run_cases(exe, lines, jobs=4)

    def term(cfg, o):
        t = o.split()
        if len(t) < 6 or t[0] != 'nat':
            return None
        ts = [int(x) for x in t[6:]]
        return '(%d, %d, %d, %s, %d, %d, %s)' % (EPS_NS, cfg[1] * 1000, cfg[2], 'true' if cfg[3] else 'false', int(t[2]), int(t[4]),
                                                 dv.coq_list([dv.zlit(x) for x in ts])), ts
    terms, kept = [], []
    for cfg, l, o in zip(cfgs, lines, outs):
        tt = term(cfg, o)
        if tt is None:
            ctx.broken.append('native timing harness output unreadable: %s -> %s' % (l, (o or '')[:200]))
            continue
        terms.append(tt[0])
        kept.append((cfg, l, o, tt[1]))
    res = pf_common.coq_judge(ctx, 'native', 'From DV Require Import Model.TimedTaskModel Model.C26Check.', [('judge_native', terms)])
    if res is None:
        ctx.broken.append('correspondence D(C26): judge_native no longer evaluates')
        return
    slow = []
    for v, (cfg, l, o, ts) in zip(res[0], kept):
        if v == 2:
            ctx.violation('native run: an invocation started earlier than its scheduled time - 10 us, or more than timesToRun invocations: %s -> %s' % (l, o),
                          {'case': l, 'output': o, 'cmd': 'echo "%s" | build/harness/h_timedtask-*' % l})
        elif v == 3:
            slow.append((cfg, l))
    # "count == timesToRun after a long-enough wait": retry the slow ones once with a 20x longer wait before complaining
    still = []
    if slow:
        lines2 = [' '.join(l.split()[:6] + [str(int(l.split()[6]) * 20)]) for _, l in slow]
        outs2 = ls_common.run_cases(exe, lines2, jobs=4)
        for (cfg, _), l2, o2 in zip(slow, lines2, outs2):
            t = o2.split()
            if len(t) < 6 or int(t[2]) != cfg[2] or int(t[4]) != cfg[2]:
                still.append((l2, o2))
    for l2, o2 in still:
        ctx.violation('native run: after a generous wait calls() / the number of invocations differs from timesToRun: %s -> %s' % (l2, o2),
                      {'case': l2, 'output': o2, 'cmd': 'echo "%s" | build/harness/h_timedtask-*' % l2})
    firsts = [ts[0] for _, _, _, ts in kept if ts]
    ctx.cov['native'] = {'cases': len(lines), 'slow_first_attempt': len(slow), 'first_start_minus_requested_ns_min': min(firsts) if firsts else None,
                         'first_start_minus_requested_ns_median': sorted(firsts)[len(firsts) // 2] if firsts else None,
                         'fired_early_within_eps (observation, allowed by design)': sum(1 for x in firsts if -EPS_NS <= x < 0)}
    ctx.cov['evaluations'] += len(lines)
    ctx.cov['distinct_nontrivial'] += len(set(lines))
    ctx.sample({'native': list(zip(lines[:3], outs[:3]))})


def run(ctx):
    ctx.prove(models=['Model/C26Check.v'])
    eps_src = k_small_time_buffer()
    ctx.cov['kSmallTimeBuffer_ns_in_source'] = eps_src
    if eps_src is None:
        ctx.broken.append('contract tie: the run loop\'s due-test `timeRemaining < kSmallTimeBuffer` / the constant is no longer found in dispenso/timed_task.cpp')
    elif eps_src > EPS_NS:
        ctx.broken.append('contract tie: kSmallTimeBuffer = %g ns in the source exceeds the eps = %d ns for which "not before first - eps" is claimed' % (eps_src, EPS_NS))
    exe = dv.build_harness('h_timedtask', ['h_timedtask.cpp'])
    try:
        exe_asan = dv.build_harness('h_timedtask_asan', ['h_timedtask.cpp'], extra_flags=['-fsanitize=address', '-fno-omit-frame-pointer'],
                                    lib_flags=['-fsanitize=address', '-fno-omit-frame-pointer'])
    except RuntimeError as e:
        exe_asan = None
        ctx.broken.append('ASan build of the harness failed: ' + str(e)[-300:])
    ctx.phase('build')
    run_witnesses(ctx, exe, exe_asan)
    ctx.phase('witnesses')
    run_lockstep(ctx, exe)
    ctx.phase('lockstep')
    run_native(ctx, exe)
    ctx.phase('native')
    ctx.cov['rule'] = ('lockstep: timesToRun 0-4 x 1-3 pool threads x functor return values x user programs over cancel/detach/calls/~TimedTask x random (sticky) schedules, '
                       'one fork per case under vsched; non-trivial = more steps than thread starts + 4; distinct = distinct (trace, results) strings.  '
                       'native: delay/period/count/steady/normal x ThreadPool/ImmediateInvoker, real scheduler thread; distinct = distinct configurations')
