"""C26 -- TimedTask run count, cancellation and teardown.   Tie: lockstep (L) under harness/vsched.h + native one-sided timing (D)."""
import os, re
import dv, ls_common, pf_common

META = {
    'category': 'proof',
    'technique': 'Coq invariants over all interleavings of a step-level model of one timed task (scheduler role / user thread / any number of pool threads; '
                 'one step per atomic access of TimedTaskImpl and per access of the func cell) plus an abstract clock layer; lockstep replay of the same schedules '
                 'on the real hooked code under a cooperative scheduler (ASan build for the teardown witnesses); native one-sided timing run',
    'text': 'Kernel-checked for every timesToRun < 2^32, any number of pool threads, any return values of the functor, any user program over cancel/detach/calls/~TimedTask and every '
            'schedule: (1) invocations <= tickets handed out by fetch_sub <= timesToRun, and no ticket is handed out after any store of 0 (cancel, destructor, false return); '
            '(2) clocked refinement: no invocation starts before firstTime - kSmallTimeBuffer (the run loop fires when timeRemaining < 10 us: firing up to 10 us early is by design, '
            'recorded as an observation); (3) after the cancelled bit is set at most the wrappers that are between their flag load and f() can still start the body -- so '
            '"never starts after cancel() returned" is REFUTED (C26_refuted_cancel, witness schedule) and holds when no wrapper is in that window (C26_holds_except_cancel); the same '
            'window exists after an invocation returned false (C26_refuted_false); (4) "the destructor returns only when nothing is in progress and nothing can start / touch the functor" '
            'is REFUTED (C26_refuted_dtor: the inProgress==0 spin passes while the scheduler role is between func\'s cancelled-check and inProgress++, then func = {} frees the closure being '
            'executed: heap-use-after-free, reproduced under ASan on the real code on every run) and holds when the scheduler role holds no ticket at the spin exit (C26_holds_except_dtor). '
            'Tie: generated user programs x schedules are run on the real TimedTaskImpl/TimedTask/kickOffTask with hooks before every atomic access and around func call/clear; step trace, '
            'results, final memory are compared with the model evaluated in Coq, and the executable property is evaluated on the implementation\'s own trace.',
    'note': 'Trusted: Coq kernel; harness/vsched.h, harness/h_timedtask.cpp (the scheduler role calls the real kickOffTask; the run loop\'s due-test is only exercised natively); '
            'SC interleaving of the atomics; steady_clock for the native run. No axioms.',
}

ASSUMPTIONS = [
    'sequentially consistent interleaving of the atomic accesses of TimedTaskImpl (weak-memory reorderings not modelled)',
    'one timed task per model instance; the run loop of TimedTaskScheduler is represented by its pick step (guard timeRemaining < kSmallTimeBuffer in the clock layer) -- '
    'the priority queue and the epoch waiter are not modelled; the lockstep harness plays the scheduler role by calling the real kickOffTask (the real background thread stays idle)',
    'timesToRun < 2^32 in the theorems that use the inProgress (uint32) pipeline invariant',
    'the native timing run is one-sided (no invocation earlier than requested - 10 us; count == timesToRun after a generous wait)',
]

SITES = ['start', 'h.pick', 'tt.kick.ttr.fetch_sub', 'tt.kick.func.call', 'tt.func.flags.load', 'tt.func.inprogress.inc', 'tt.func.schedule',
         'h.poll', 'tt.wrap.flags.load', 'tt.wrap.call', 'tt.wrap.ttr.store', 'tt.wrap.flags.or', 'tt.wrap.func.clear', 'tt.wrap.count.inc',
         'tt.wrap.inprogress.dec', 'tt.cancel.ttr.store', 'tt.cancel.flags.or', 'tt.detach.flags.or', 'tt.calls.count.load', 'tt.dtor.flags.load',
         'tt.dtor.inprogress.load', 'tt.dtor.func.clear']
TAGS = {'calls': 1, 'start': 2, 'uafcall': 3, 'badcall': 4}
STATUS = {'done': 0, 'deadlock': 1, 'budget': 2, 'crash': 3, 'asan': 4}
KEY_DTOR = 'dtor-passes-inprogress-spin-while-func-call-in-flight'
KEY_CANCEL = 'body-starts-after-cancel-returned'
KEY_FALSE = 'body-starts-after-false-returned'
UOPS = {'C': 'UCancel', 'D': 'UDetach', 'L': 'UCalls', 'X': 'UDtor'}
EPS_NS = 10000          # kSmallTimeBuffer = 10e-6 s, the tolerance stated in the theorem
IMPORTS = 'From DV Require Import Base.Sched Model.TimedTaskModel Model.C26Check.'


def line_of(c):
    return 'ls %d %d %d ; R %s ; U %s ; S %s' % (c['n'], c['npool'], c['budget'], ' '.join(str(x) for x in c['rets']), ' '.join(c['prog']),
                                                 ' '.join(map(str, c['sched'])))


def parse(o):
    """harness line -> dict (None if malformed)"""
    p = ls_common.parse_vsched(o, SITES, TAGS)
    if p is None or 'error' in p:
        return p
    p['status'] = STATUS.get(o.rsplit('status', 1)[-1].strip(), 9)
    mm = re.search(r'ttr (\d+) flags (\d+) inprog (\d+) count (\d+) alive (\d+) q (\d+) copies (\d+)', p['extra'])
    if not mm:
        return None
    p['mem'] = [int(x) for x in mm.groups()]
    return p


def term_of(c, p):
    nthr = 2 + c['npool']
    res = dv.coq_list([ls_common.zpairs(p['results'].get(t, [])) for t in range(nthr)])
    ttr, fl, ip, cnt, al, q, _ = p['mem']
    return '(TC %s %d%%nat %d%%nat %s %s %s %s %s %d %s %d %d %s %d %d)' % (
        dv.zlit(c['n']), c['npool'], c['budget'], dv.coq_list(['true' if x else 'false' for x in c['rets']]),
        dv.coq_list([UOPS[o] for o in c['prog']]), dv.coq_list([str(x) for x in c['sched']]),
        ls_common.zpairs(p['steps']), res, p['status'], dv.zlit(ttr), fl, ip, dv.zlit(cnt), al, q)


def gen_case(r):
    n = r.choice([0, 1, 1, 2, 2, 2, 3, 3, 4])
    npool = r.choice([1, 1, 2, 2, 3])
    rets = [0 if r.random() < 0.3 else 1 for _ in range(r.randint(0, max(n, 1)))]
    prog = r.choice([[], ['C'], ['X'], ['X'], ['L', 'C'], ['C', 'X'], ['D', 'X'], ['L', 'X'], ['C', 'L'], ['D'], ['L', 'L', 'X'], ['C', 'C'],
                     ['D', 'C', 'X'], ['L']])
    budget = 70
    sched = []
    sticky = r.random() < 0.6
    while len(sched) < budget + 10:
        v = r.randrange(0, 60)
        k = r.choice([1, 1, 2, 3, 5, 8]) if sticky else 1
        sched += [v] * k
    return {'n': n, 'npool': npool, 'budget': budget, 'rets': rets, 'prog': prog, 'sched': sched[:budget + 10]}
