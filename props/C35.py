"""C35 -- SPSCRingBuffer is an exactly-once bounded FIFO.   Tie: lockstep (L) under harness/vsched.h."""
import dv, ls_common, re

META = {
    'category': 'proof',
    'technique': 'Coq invariant over all interleavings of a step-level model (one step per atomic access of head_/tail_ and per slot payload access, '
                 'producer thread + consumer thread with arbitrary operation scripts, any buffer size) + lockstep replay of the same schedules on the real '
                 'hooked SPSCRingBuffer under a cooperative scheduler, elements lifetime-tracked',
    'text': 'Kernel-checked for every buffer size 2 <= kBufferSize < 2^63 (power of two or not: `increment` is modelled with & / % as written and proved equal to +1 mod size), '
            'every producer script over try_push/try_emplace/try_push_batch and consumer script over try_pop variants/try_pop_batch (+ size/empty/full on either side) and every '
            'interleaving: the values accepted (producer result log) = the values delivered (consumer result log) ++ the ring contents head..tail at every reachable state '
            '(FIFO, exactly-once, nothing invented), occupancy <= kBufferSize-1 = capacity(), a push is rejected iff the ring holds capacity() elements at its head load and a pop '
            'iff it is empty at its tail load, batch operations transfer min(requested, free/available as observed) elements, the lifetime ledger never records a misuse '
            '(no construction over a live element, no double destruction, no read of a dead slot), exactly the slots head..tail hold live elements when no operation is in '
            'flight and the destructor leaves none.  The model is tied to the code by running generated scripts under generated schedules on the real class '
            '(hooks at every atomic access and payload access) and comparing step trace, results, final head/tail, per-slot ledger state and tags, and the state after '
            'the destructor with the model evaluated in Coq; the property is also evaluated model-independently on the implementation\'s trace and results.',
    'payload_steps': 'every access to a slot payload is its own schedulable step in the code hooks and in the model: placement-new (data_write), move-out (data_read) and the destructor call (data_destroy); the invariant states that the payload is dead before the store that hands the slot back (C34/C35_payload_dead_before_release). The harness element type additionally checks that every construction / move-out / destruction touching a slot address happens while the thread\'s last granted hook is the matching payload site; a stray access (e.g. a destructor call moved behind the releasing store) and any constructOverLive / doubleDestroy / destroyUnborn on a slot address is a property failure. A deterministic probe family (full ring, each pop overload, producer spinning on each push variant and scheduled after every consumer step) runs on every tier.',
    'capacity_checks': 'the harness is instantiated for 21 (Capacity, RoundUpToPowerOfTwo) configurations, 9 of them with real capacity kBufferSize-1 larger than the requested Capacity (2->3, 4->7, 5->7, 6->7, 8->15, 9->15, 10->15, 12->15, 16->31).  Model-independently, on the implementation\'s trace, results and scripts: every try_push_batch / try_pop_batch performs exactly min(requested, free space / available elements as observed at its second index load) payload accesses, size() = committed writes at its tail load - committed reads at its head load, empty()/full() report occupancy 0 / capacity(), delivered is a prefix of accepted, accepted = delivered ++ contents at the end, slot lifetimes.  Deterministic capacity grid: fill with single pushes to f in [Capacity-1, real capacity], pop j, batch-push k, drain, each phase alone.  When the real code differs from the model but no property failure was seen, a search ladder (full capacity grid, then 150 directed single/batch mixes per configuration) looks for a concrete failing input.',
    'note': 'Trusted: Coq kernel; harness/vsched.h, harness/life.h; SC interleaving of atomics (the acquire/release pairing that makes the payload accesses race-free on weak memory is not modelled). '
            'The three push variants (T&&, const T&, emplace) and the three pop variants share one access pattern and one set of hook names. No axioms.',
}

ASSUMPTIONS = [
    'sequentially consistent interleaving of the atomic accesses (weak-memory reorderings not modelled); one producer thread, one consumer thread',
    '2 <= kBufferSize < 2^63 (index + 1 does not wrap in size_t)',
    'empty() and full() evaluate two loads in one expression whose order C++ leaves unspecified: modelled as one atomic snapshot step',
]

SITES = ['start',
         'spsc.push.tail_load', 'spsc.push.head_load', 'spsc.push.data_write', 'spsc.push.tail_store',
         'spsc.pop.head_load', 'spsc.pop.tail_load', 'spsc.pop.data_read', 'spsc.pop.head_store',
         'spsc.pushb.tail_load', 'spsc.pushb.head_load', 'spsc.pushb.data_write', 'spsc.pushb.tail_store',
         'spsc.popb.head_load', 'spsc.popb.tail_load', 'spsc.popb.data_read', 'spsc.popb.head_store',
         'spsc.size.head_load', 'spsc.size.tail_load', 'spsc.empty.loads', 'spsc.full.loads',
         'spsc.pop.data_destroy', 'spsc.popb.data_destroy']
TAGS = {'push': 1, 'pushfail': 2, 'pop': 3, 'popfail': 4, 'pushb': 5, 'popb': 6, 'size': 7, 'empty': 8, 'full': 9}
CONFIGS = [(1, 0), (1, 1), (2, 0), (2, 1), (3, 0), (3, 1), (4, 0), (4, 1), (5, 0), (5, 1), (6, 0), (6, 1), (7, 1), (8, 0), (8, 1),
           (9, 0), (9, 1), (10, 1), (12, 1), (15, 0), (16, 1)]
# configurations whose real capacity (kBufferSize - 1) exceeds the requested Capacity (default rounding mode)
ROUNDED = [(2, 1), (4, 1), (5, 1), (6, 1), (8, 1), (9, 1), (10, 1), (12, 1), (16, 1)]


def real_capacity(cap, rnd):
    if not rnd:
        return cap
    k = 1
    while k < cap + 1:
        k *= 2
    return k - 1


def op_steps(o):
    if o[0] in 'PCE': return 4
    if o[0] in 'ORI': return 5
    if o[0] == 'B': return 3 + len(o[1])
    if o[0] == 'Q': return 3 + 2 * o[1]
    return 2
BUDGET = 100


def op_coq(o):
    k = o[0]
    if k in 'PCE': return '(OPush %d)' % o[1]
    if k in 'ORI': return 'OPop'
    if k == 'B': return '(OPushBatch %s)' % dv.coq_list([str(v) for v in o[1]])
    if k == 'Q': return '(OPopBatch %d)' % o[1]
    return {'Z': 'OSize', 'Y': 'OEmpty', 'F': 'OFull'}[k]


def op_txt(o):
    k = o[0]
    if k in 'PCE': return '%s%d' % (k, o[1])
    if k == 'B': return 'B' + ','.join(map(str, o[1]))
    if k == 'Q': return 'Q%d' % o[1]
    return k


def gen_sched(r, n):
    mode = r.random()
    if mode < 0.4:
        return [r.randrange(0, 100) for _ in range(n)]
    out = []
    while len(out) < n:       # bursts: one thread runs for a while (fills / drains the ring)
        par = r.randrange(0, 2)
        ln = r.choice([1, 2, 3, 4, 5, 8, 12, 20])
        out += [2 * r.randrange(0, 50) + par for _ in range(ln)]
    return out[:n]


def gen_mix(r, cfg=None):
    """single pushes up to an occupancy around Capacity .. real capacity, then batch pushes mixed with singles (the two paths
    compute the free space differently), a few pops in between; mostly producer-first schedules"""
    cap, rnd = cfg or r.choice([(2, 1), (4, 1), (5, 1), (6, 1)] * 3 + [(3, 0), (5, 0), (8, 1), (9, 1)])
    R = real_capacity(cap, rnd)
    tag = [0]

    def fresh():
        tag[0] += 1
        return tag[0]
    fill = r.randint(max(1, cap - 1), R)
    p0 = [(r.choice('PCE'), fresh()) for _ in range(fill)]
    left = BUDGET - 8 - sum(op_steps(o) for o in p0)
    p1 = []
    for _ in range(r.randint(0, 3)):
        o = (r.choice('ORI'),) if r.random() < 0.7 else ('Q', r.choice([1, 2, 3]))
        if op_steps(o) < left:
            p1.append(o); left -= op_steps(o)
    for _ in range(r.randint(1, 4)):
        o = ('B', [fresh() for _ in range(r.choice([1, 2, 3, 4, 5]))]) if r.random() < 0.75 else (r.choice('PE'), fresh())
        if op_steps(o) < left:
            p0.append(o); left -= op_steps(o)
    if r.random() < 0.5 and left > 4:
        p1.append(r.choice([('Z',), ('Q', 2), ('O',)])) if left > 8 else p1.append(('Z',))
    mode = r.random()
    if mode < 0.5:      # producer fills alone, then consumer, then producer again ...
        sched = [0] * (1 + 4 * fill) + [1] * r.choice([1, 6, 11, 16]) + [0] * 30 + [1] * 60
    elif mode < 0.8:
        sched = [0] * (1 + 4 * fill) + gen_sched(r, BUDGET)
    else:
        sched = gen_sched(r, BUDGET)
    return {'cap': cap, 'rnd': rnd, 'progs': [p0, p1], 'sched': sched[:BUDGET]}


def capacity_probes(quick, cfgs=None):
    """deterministic family: fill with SINGLE pushes to f elements (f from Capacity-1 up to the real capacity), pop j, then
    try_push_batch k elements, then drain with one try_pop_batch -- every phase runs alone (quiescent single-thread phases),
    for all small j, k, on every configuration whose real capacity differs from the requested one and some exact ones"""
    out = []
    for cap, rnd in (cfgs or [(2, 1), (4, 1), (5, 1), (6, 1), (9, 1), (16, 1), (2, 0), (3, 0), (5, 0)]):
        R = real_capacity(cap, rnd)
        for f in range(max(1, cap - 1), R + 1):
            for j in ((0, 1) if quick else (0, 1, 2, 3)):
                for k in ((1, 3) if quick else (1, 2, 3, 4, 6)):
                    if j > f:
                        continue
                    tags = iter(range(1, 200))
                    prod = [('PCE'[i % 3], next(tags)) for i in range(f)] + [('B', [next(tags) for _ in range(k)])]
                    drain = min(3, f - j + k)
                    cons = [('ORI'[i % 3],) for i in range(j)] + [('Z',), ('Q', drain)]
                    steps = 2 + sum(op_steps(o) for o in prod + cons)
                    if steps > BUDGET - 4:
                        continue
                    sched = [0] * (1 + 4 * f) + [1] * (1 + 5 * j + 2) + [0] * (3 + k) + [1] * BUDGET
                    out.append({'cap': cap, 'rnd': rnd, 'progs': [prod, cons], 'sched': sched[:BUDGET]})
    return out


def gen_case(r):
    if r.random() < 0.45:
        return gen_mix(r)
    cap, rnd = r.choice(CONFIGS[:8] * 3 + CONFIGS)
    tag = [0]

    def fresh():
        tag[0] += 1
        return tag[0]
    p0, p1 = [], []
    for _ in range(r.randint(1, 6)):
        x = r.random()
        if x < 0.6: p0.append((r.choice('PCE'), fresh()))
        elif x < 0.9: p0.append(('B', [fresh() for _ in range(r.choice([0, 1, 2, 2, 3, 3]))]))
        else: p0.append((r.choice('ZYF'),))
    for _ in range(r.randint(1, 6)):
        x = r.random()
        if x < 0.6: p1.append((r.choice('ORI'),))
        elif x < 0.9: p1.append(('Q', r.choice([0, 1, 2, 2, 3, 3])))
        else: p1.append((r.choice('ZYF'),))
    return {'cap': cap, 'rnd': rnd, 'progs': [p0, p1], 'sched': gen_sched(r, BUDGET)}


def probes():
    """deterministic family: ring FULL, the consumer pops with each overload / batch, the producer spins on a push variant.
    The producer runs r steps immediately after EVERY consumer step (lead = 0), or the consumer first runs alone up to and
    including its tail load (lead = 3) and from then on the producer runs r >= 3 steps after every consumer step (a complete
    try_emplace is 4 steps)."""
    out = []
    for cap, rnd in [(1, 0), (2, 0), (3, 0), (3, 1)]:
        full = 3 if cap == 3 else cap
        for ov in [('O',), ('R',), ('I',), ('Q', 1), ('Q', 2)]:
            for spin, plans in (('E', ((0, 1), (0, 2), (3, 3), (3, 4), (3, 5))), ('P', ((3, 4),)), ('C', ((3, 4),)), ('B', ((3, 4),))):
                for lead, r in plans:
                    tags = iter(range(1, 100))
                    prod = [('E', next(tags)) for _ in range(full)]
                    prod += [(spin, next(tags)) if spin != 'B' else ('B', [next(tags)]) for _ in range(14)]
                    cons = [ov, ('R',)]
                    sched = [0] * (1 + 4 * full) + [1] * lead
                    while len(sched) < BUDGET:
                        sched += [1] + [0] * r
                    out.append({'cap': cap, 'rnd': rnd, 'progs': [prod, cons], 'sched': sched[:BUDGET]})
    return out


def line_of(c):
    return '%d %d %d ; %s ; S %s' % (c['cap'], c['rnd'], BUDGET, ' ; '.join(' '.join(op_txt(o) for o in p) for p in c['progs']),
                                     ' '.join(map(str, c['sched'])))


def parse_extra(ex):
    m = re.match(r'K (\d+) head (\d+) tail (\d+) slots(.*) errs (\d+) (\d+) (\d+) (\d+) (\d+) dtor (-?\d+) (\d+) (\d+) (\d+) (\d+) (\d+)$', ex.strip())
    if not m:
        return None
    g = m.groups()
    slots = [tuple(int(x) for x in t.split(':')) for t in g[3].split()]
    return {'K': int(g[0]), 'head': int(g[1]), 'tail': int(g[2]), 'slots': slots, 'errs': sum(int(x) for x in g[4:9]),
            'dtor_live': int(g[9]), 'dtor_errs': sum(int(x) for x in g[10:15])}


def term_of(c, p, e):
    res = dv.coq_list([ls_common.zpairs(p['results'].get(t, [])) for t in range(2)])
    return '(SC %d %d%%nat %s %s %s %s %s %d %d %s %d %s %d %d)' % (
        e['K'], ls_common.fuel_of(BUDGET, p['status']), dv.coq_list([op_coq(o) for o in c['progs'][0]]), dv.coq_list([op_coq(o) for o in c['progs'][1]]),
        dv.coq_list([str(x) for x in c['sched']]), ls_common.zpairs(p['steps']), res, e['head'], e['tail'],
        ls_common.zpairs(e['slots']), e['errs'], dv.zlit(e['dtor_live']), e['dtor_errs'], p['status'])


def evaluate(ctx, exe, cases, name='cases'):
    """run the cases on the real class and judge them in Coq; returns [(case, parsed, output, extra, verdict)] or None"""
    outs = ls_common.run_cases(exe, [line_of(c) for c in cases])
    terms, kept = [], []
    for c, o in zip(cases, outs):
        p = ls_common.parse_vsched(o, SITES, TAGS)
        e = parse_extra(p['extra']) if p and 'error' not in p else None
        if e is None:
            ctx.broken.append('lockstep harness output unreadable for %s: %s' % (line_of(c)[:200], (o or '')[:200]))
            continue
        terms.append(term_of(c, p, e))
        kept.append((c, p, o, e))
    verdicts = ls_common.judge_parallel(ctx, 'From DV Require Import Base.Sched Model.SpscModel Model.C35Check.', 'judge_spsc', terms, shard_size=45)
    if verdicts is None:
        return None
    return [(c, p, o, e, v) for (c, p, o, e), v in zip(kept, verdicts)]


def report_violation(ctx, c, o, how=''):
    ctx.violation('SPSCRingBuffer is not an exactly-once bounded FIFO on this run%s (order / loss / duplication / bound / accept-iff-not-full / batch count = min(requested, free) / '
                  'size / lifetime check failed): %s -> %s' % (how, line_of(c)[:200], o[:400]),
                  {'case': line_of(c), 'output': o, 'cmd': 'echo "<case>" | build/harness/h_spsc-*'})


def ladder(ctx, exe, differing):
    """search ladder: the real code differs from the model but the property held on those runs -> look for a concrete failing
    input on the same configurations: the full capacity probe grid, then directed random mixes of single and batch operations"""
    cfgs = []
    for c, _, _, _ in differing:
        if (c['cap'], c['rnd']) not in cfgs:
            cfgs.append((c['cap'], c['rnd']))
    cfgs = cfgs[:3]
    found = 0
    for stage, cases in (('capacity grid', capacity_probes(False, cfgs)),
                         ('directed mixes', [gen_mix(ctx.rng, cfg) for cfg in cfgs for _ in range(150)])):
        res = evaluate(ctx, exe, cases[:600])
        ctx.cov['ladder_evaluations'] = ctx.cov.get('ladder_evaluations', 0) + len(cases[:600])
        for c, p, o, e, v in (res or []):
            if v == 2:
                found += 1
                report_violation(ctx, c, o, ' (found by the search ladder, stage: %s)' % stage)
        if found:
            break
    return found


def run(ctx):
    ctx.prove(models=['Model/C35Check.v'])
    exe = dv.build_harness('h_spsc', ['h_spsc.cpp'], need_lib=False)
    ctx.phase('build')
    r = ctx.rng
    # hand-made cases aimed at the case splits of the proofs: fill to capacity, wrap the indices, drain to empty
    fixed = [
        {'cap': 1, 'rnd': 0, 'progs': [[('P', 1), ('P', 2), ('E', 3)], [('O',), ('O',), ('R',)]], 'sched': [0] * 12 + [1] * 12 + [0, 1] * 38},
        {'cap': 2, 'rnd': 0, 'progs': [[('B', [1, 2, 3]), ('P', 4), ('B', [5, 6]), ('F',)], [('Q', 3), ('I',), ('Q', 2), ('Y',)]], 'sched': [0] * 10 + [1] * 9 + [0] * 10 + [1] * 71},
        {'cap': 3, 'rnd': 1, 'progs': [[('P', 1), ('C', 2), ('E', 3), ('P', 4), ('Z',)], [('O',), ('Z',), ('Q', 2), ('O',)]], 'sched': [0] * 17 + [1] * 83},
    ]
    n = 110 if ctx.quick else 3000
    pr = probes()
    cp = capacity_probes(ctx.quick)
    ctx.cov['probe_cases_full_ring_producer_waiting'] = len(pr)
    ctx.cov['probe_cases_capacity_grid'] = len(cp)
    cases = fixed + pr + cp + [gen_case(r) for _ in range(n)]
    res = evaluate(ctx, exe, cases)
    ctx.cov['evaluations'] += len(cases)
    if res is None:
        ctx.broken.append('correspondence L(C35): the model no longer evaluates')
        return
    distinct = set(o.split('| status')[0] for c, p, o, e, v in res if any(st in (2, 6, 10, 14) for _, st in p['steps']))
    ctx.cov['distinct_nontrivial'] += len(distinct)
    ctx.cov['rule'] = ('random producer/consumer scripts (single/batch push and pop in all API variants, size/empty/full; 45% directed mixes: single pushes to an occupancy between Capacity-1 and the real '
                       'capacity followed by batch pushes) x 21 (Capacity, RoundUpToPowerOfTwo) configurations (kBufferSize 2..32, 9 of them with real capacity > requested Capacity) x random / bursty / '
                       'phase schedules (100 decisions), one fork per case under vsched; non-trivial = some operation reached its full/empty test; distinct = distinct (trace, results, final state) '
                       'strings; plus two deterministic probe families: full ring with the producer scheduled after every consumer step, and the capacity grid (fill with singles to f, pop j, batch-push k, drain)')
    hist = {}
    differing = []
    for c, p, o, e, v in res:
        hist[v] = hist.get(v, 0) + 1
        if v == 2:
            report_violation(ctx, c, o)
        elif v == 1:
            differing.append((c, p, o, e))
    if differing and not hist.get(2):
        ctx.phase('correspond')
        found = ladder(ctx, exe, differing)
        ctx.cov['ladder_found'] = found
        ctx.phase('ladder')
    for c, p, o, e in differing:
        ctx.broken.append('correspondence L(C35): real trace differs from the model on ' + line_of(c)[:160] + ' -> ' + o[:300])
    ctx.cov['verdict_histogram'] = {'agree': hist.get(0, 0), 'differ_property_holds': hist.get(1, 0), 'property_fails': hist.get(2, 0)}
    ctx.cov['traces_validated_against_impl'] += hist.get(0, 0)
    ctx.cov['status_histogram'] = {k: sum(1 for _, p, _, _, _ in res if p['status'] == v) for k, v in (('done', 0), ('deadlock', 1), ('budget', 2))}
    ctx.cov['kbuffersize_histogram'] = {}
    for _, _, _, e, _ in res:
        ctx.cov['kbuffersize_histogram'][e['K']] = ctx.cov['kbuffersize_histogram'].get(e['K'], 0) + 1
    ctx.cov['cases_with_rejected_push'] = sum(1 for _, p, _, _, _ in res if any(tag == 2 for t in p['results'].values() for tag, _ in t))
    ctx.cov['cases_with_rejected_pop'] = sum(1 for _, p, _, _, _ in res if any(tag == 4 for t in p['results'].values() for tag, _ in t))
    ctx.cov['cases_with_batch_push_above_requested_capacity'] = sum(
        1 for c, p, _, e, _ in res if real_capacity(c['cap'], c['rnd']) > c['cap'] and any(o[0] == 'B' for o in c['progs'][0])
        and sum(1 for tag, _ in p['results'].get(0, []) if tag == 1) > c['cap'])
    ctx.sample({'case': line_of(res[1][0])[:200], 'impl': res[1][2][:400]})
    ctx.sample({'case': line_of(res[-1][0])[:200], 'impl': res[-1][2][:400]})
    ctx.phase('correspond')
