"""C35 -- SPSCRingBuffer is an exactly-once bounded FIFO.   Tie: lockstep (L) under harness/vsched.h."""
import dv, ls_common, re

META = {
    'category': 'proof',
    'technique': 'Coq invariant over all interleavings of a step-level model (one step per atomic access of head_/tail_ and per slot payload access, '
                 'producer thread + consumer thread with arbitrary operation scripts, any buffer size) + lockstep replay of the same schedules on the real '
                 'hooked SPSCRingBuffer under a cooperative scheduler, elements lifetime-tracked',
    'text': 'Kernel-checked for every buffer size 2 <= kBufferSize < 2^63 (power of two or not: `increment` is modelled with & / % as written and proved equal to +1 mod size), '
            'every producer script over try_push/try_emplace/try_push_batch and consumer script over try_pop variants/try_pop_batch (+ size/empty/full on either side) and every '
            'interleaving: the values accepted (producer result log) = the values delivered (consumer result log) ++ the ring contents head..tail at every reachable state '
            '(FIFO, exactly-once, nothing invented), occupancy <= kBufferSize-1 = capacity(), a push is rejected iff the ring holds capacity() elements at its head load and a pop '
            'iff it is empty at its tail load, batch operations transfer min(requested, free/available as observed) elements, the lifetime ledger never records a misuse '
            '(no construction over a live element, no double destruction, no read of a dead slot), exactly the slots head..tail hold live elements when no operation is in '
            'flight and the destructor leaves none.  The model is tied to the code by running generated scripts under generated schedules on the real class '
            '(hooks at every atomic access and payload access) and comparing step trace, results, final head/tail, per-slot ledger state and tags, and the state after '
            'the destructor with the model evaluated in Coq; the property is also evaluated model-independently on the implementation\'s trace and results.',
    'payload_steps': 'every access to a slot payload is its own schedulable step in the code hooks and in the model: placement-new (data_write), move-out (data_read) and the destructor call (data_destroy); the invariant states that the payload is dead before the store that hands the slot back (C34/C35_payload_dead_before_release). The harness element type additionally checks that every construction / move-out / destruction touching a slot address happens while the thread\'s last granted hook is the matching payload site; a stray access (e.g. a destructor call moved behind the releasing store) and any constructOverLive / doubleDestroy / destroyUnborn on a slot address is a property failure. A deterministic probe family (full ring, each pop overload, producer spinning on each push variant and scheduled after every consumer step) runs on every tier.',
    'note': 'Trusted: Coq kernel; harness/vsched.h, harness/life.h; SC interleaving of atomics (the acquire/release pairing that makes the payload accesses race-free on weak memory is not modelled). '
            'The three push variants (T&&, const T&, emplace) and the three pop variants share one access pattern and one set of hook names. No axioms.',
}

ASSUMPTIONS = [
    'sequentially consistent interleaving of the atomic accesses (weak-memory reorderings not modelled); one producer thread, one consumer thread',
    '2 <= kBufferSize < 2^63 (index + 1 does not wrap in size_t)',
    'empty() and full() evaluate two loads in one expression whose order C++ leaves unspecified: modelled as one atomic snapshot step',
]

SITES = ['start',
         'spsc.push.tail_load', 'spsc.push.head_load', 'spsc.push.data_write', 'spsc.push.tail_store',
         'spsc.pop.head_load', 'spsc.pop.tail_load', 'spsc.pop.data_read', 'spsc.pop.head_store',
         'spsc.pushb.tail_load', 'spsc.pushb.head_load', 'spsc.pushb.data_write', 'spsc.pushb.tail_store',
         'spsc.popb.head_load', 'spsc.popb.tail_load', 'spsc.popb.data_read', 'spsc.popb.head_store',
         'spsc.size.head_load', 'spsc.size.tail_load', 'spsc.empty.loads', 'spsc.full.loads',
         'spsc.pop.data_destroy', 'spsc.popb.data_destroy']
TAGS = {'push': 1, 'pushfail': 2, 'pop': 3, 'popfail': 4, 'pushb': 5, 'popb': 6, 'size': 7, 'empty': 8, 'full': 9}
CONFIGS = [(1, 0), (1, 1), (2, 0), (2, 1), (3, 0), (3, 1), (4, 0), (4, 1), (5, 0), (6, 0), (7, 1), (8, 0), (15, 0), (16, 1)]
BUDGET = 100


def op_coq(o):
    k = o[0]
    if k in 'PCE': return '(OPush %d)' % o[1]
    if k in 'ORI': return 'OPop'
    if k == 'B': return '(OPushBatch %s)' % dv.coq_list([str(v) for v in o[1]])
    if k == 'Q': return '(OPopBatch %d)' % o[1]
    return {'Z': 'OSize', 'Y': 'OEmpty', 'F': 'OFull'}[k]


def op_txt(o):
    k = o[0]
    if k in 'PCE': return '%s%d' % (k, o[1])
    if k == 'B': return 'B' + ','.join(map(str, o[1]))
    if k == 'Q': return 'Q%d' % o[1]
    return k


def gen_sched(r, n):
    mode = r.random()
    if mode < 0.4:
        return [r.randrange(0, 100) for _ in range(n)]
    out = []
    while len(out) < n:       # bursts: one thread runs for a while (fills / drains the ring)
        par = r.randrange(0, 2)
        ln = r.choice([1, 2, 3, 4, 5, 8, 12, 20])
        out += [2 * r.randrange(0, 50) + par for _ in range(ln)]
    return out[:n]


def gen_case(r):
    cap, rnd = r.choice(CONFIGS[:8] * 3 + CONFIGS)
    tag = [0]

    def fresh():
        tag[0] += 1
        return tag[0]
    p0, p1 = [], []
    for _ in range(r.randint(1, 6)):
        x = r.random()
        if x < 0.6: p0.append((r.choice('PCE'), fresh()))
        elif x < 0.9: p0.append(('B', [fresh() for _ in range(r.choice([0, 1, 2, 2, 3, 3]))]))
        else: p0.append((r.choice('ZYF'),))
    for _ in range(r.randint(1, 6)):
        x = r.random()
        if x < 0.6: p1.append((r.choice('ORI'),))
        elif x < 0.9: p1.append(('Q', r.choice([0, 1, 2, 2, 3, 3])))
        else: p1.append((r.choice('ZYF'),))
    return {'cap': cap, 'rnd': rnd, 'progs': [p0, p1], 'sched': gen_sched(r, BUDGET)}


def probes():
    """deterministic family: ring FULL, the consumer pops with each overload / batch, the producer spins on a push variant.
    The producer runs r steps immediately after EVERY consumer step (lead = 0), or the consumer first runs alone up to and
    including its tail load (lead = 3) and from then on the producer runs r >= 3 steps after every consumer step (a complete
    try_emplace is 4 steps)."""
    out = []
    for cap, rnd in [(1, 0), (2, 0), (3, 0), (3, 1)]:
        full = 3 if cap == 3 else cap
        for ov in [('O',), ('R',), ('I',), ('Q', 1), ('Q', 2)]:
            for spin, plans in (('E', ((0, 1), (0, 2), (3, 3), (3, 4), (3, 5))), ('P', ((3, 4),)), ('C', ((3, 4),)), ('B', ((3, 4),))):
                for lead, r in plans:
                    tags = iter(range(1, 100))
                    prod = [('E', next(tags)) for _ in range(full)]
                    prod += [(spin, next(tags)) if spin != 'B' else ('B', [next(tags)]) for _ in range(14)]
                    cons = [ov, ('R',)]
                    sched = [0] * (1 + 4 * full) + [1] * lead
                    while len(sched) < BUDGET:
                        sched += [1] + [0] * r
                    out.append({'cap': cap, 'rnd': rnd, 'progs': [prod, cons], 'sched': sched[:BUDGET]})
    return out


def line_of(c):
    return '%d %d %d ; %s ; S %s' % (c['cap'], c['rnd'], BUDGET, ' ; '.join(' '.join(op_txt(o) for o in p) for p in c['progs']),
                                     ' '.join(map(str, c['sched'])))


def parse_extra(ex):
    m = re.match(r'K (\d+) head (\d+) tail (\d+) slots(.*) errs (\d+) (\d+) (\d+) (\d+) (\d+) dtor (-?\d+) (\d+) (\d+) (\d+) (\d+) (\d+)$', ex.strip())
    if not m:
        return None
    g = m.groups()
    slots = [tuple(int(x) for x in t.split(':')) for t in g[3].split()]
    return {'K': int(g[0]), 'head': int(g[1]), 'tail': int(g[2]), 'slots': slots, 'errs': sum(int(x) for x in g[4:9]),
            'dtor_live': int(g[9]), 'dtor_errs': sum(int(x) for x in g[10:15])}


def term_of(c, p, e):
    res = dv.coq_list([ls_common.zpairs(p['results'].get(t, [])) for t in range(2)])
    return '(SC %d %d%%nat %s %s %s %s %s %d %d %s %d %s %d %d)' % (
        e['K'], BUDGET, dv.coq_list([op_coq(o) for o in c['progs'][0]]), dv.coq_list([op_coq(o) for o in c['progs'][1]]),
        dv.coq_list([str(x) for x in c['sched']]), ls_common.zpairs(p['steps']), res, e['head'], e['tail'],
        ls_common.zpairs(e['slots']), e['errs'], dv.zlit(e['dtor_live']), e['dtor_errs'], p['status'])


def run(ctx):
    ctx.prove(models=['Model/C35Check.v'])
    exe = dv.build_harness('h_spsc', ['h_spsc.cpp'], need_lib=False)
    ctx.phase('build')
    r = ctx.rng
    # hand-made cases aimed at the case splits of the proofs: fill to capacity, wrap the indices, drain to empty
    fixed = [
        {'cap': 1, 'rnd': 0, 'progs': [[('P', 1), ('P', 2), ('E', 3)], [('O',), ('O',), ('R',)]], 'sched': [0] * 12 + [1] * 12 + [0, 1] * 38},
        {'cap': 2, 'rnd': 0, 'progs': [[('B', [1, 2, 3]), ('P', 4), ('B', [5, 6]), ('F',)], [('Q', 3), ('I',), ('Q', 2), ('Y',)]], 'sched': [0] * 10 + [1] * 9 + [0] * 10 + [1] * 71},
        {'cap': 3, 'rnd': 1, 'progs': [[('P', 1), ('C', 2), ('E', 3), ('P', 4), ('Z',)], [('O',), ('Z',), ('Q', 2), ('O',)]], 'sched': [0] * 17 + [1] * 83},
    ]
    n = 110 if ctx.quick else 3000
    pr = probes()
    ctx.cov['probe_cases_full_ring_producer_waiting'] = len(pr)
    cases = fixed + pr + [gen_case(r) for _ in range(n)]
    outs = ls_common.run_cases(exe, [line_of(c) for c in cases])
    ctx.phase('run')
    terms, kept = [], []
    distinct = set()
    for c, o in zip(cases, outs):
        p = ls_common.parse_vsched(o, SITES, TAGS)
        e = parse_extra(p['extra']) if p and 'error' not in p else None
        if e is None:
            ctx.broken.append('lockstep harness output unreadable for %s: %s' % (line_of(c)[:200], (o or '')[:200]))
            continue
        terms.append(term_of(c, p, e))
        kept.append((c, p, o, e))
        if any(s in (2, 6, 10, 14) for _, s in p['steps']):
            distinct.add(o.split('| status')[0])
    ctx.cov['evaluations'] += len(cases)
    ctx.cov['distinct_nontrivial'] += len(distinct)
    ctx.cov['rule'] = ('random producer/consumer scripts (1-6 ops each: single/batch push and pop in all API variants, size/empty/full) x 14 (Capacity, RoundUpToPowerOfTwo) configurations '
                       '(kBufferSize 2..17) x random or bursty schedules (100 decisions), one fork per case under vsched; non-trivial = some operation reached its full/empty test; '
                       'distinct = distinct (trace, results, final state) strings; plus the deterministic full-ring probe family (each pop overload / batch, producer spinning on each push variant, producer scheduled after every consumer step)')
    verdicts = ls_common.judge_parallel(ctx, 'From DV Require Import Base.Sched Model.SpscModel Model.C35Check.', 'judge_spsc', terms, shard_size=45)
    if verdicts is None:
        ctx.broken.append('correspondence L(C35): the model no longer evaluates')
        return
    hist = {}
    for v, (c, p, o, e) in zip(verdicts, kept):
        hist[v] = hist.get(v, 0) + 1
        if v == 2:
            ctx.violation('SPSCRingBuffer is not an exactly-once bounded FIFO on this run (order / duplication / bound / accept-iff-not-full / lifetime check failed): %s -> %s'
                          % (line_of(c)[:200], o[:400]),
                          {'case': line_of(c), 'output': o, 'cmd': 'echo "<case>" | build/harness/h_spsc-*'})
        elif v == 1:
            ctx.broken.append('correspondence L(C35): real trace differs from the model on ' + line_of(c)[:160] + ' -> ' + o[:300])
    ctx.cov['verdict_histogram'] = {'agree': hist.get(0, 0), 'differ_property_holds': hist.get(1, 0), 'property_fails': hist.get(2, 0)}
    ctx.cov['traces_validated_against_impl'] += hist.get(0, 0)
    ctx.cov['status_histogram'] = {k: sum(1 for _, p, _, _ in kept if p['status'] == v) for k, v in (('done', 0), ('deadlock', 1), ('budget', 2))}
    ctx.cov['kbuffersize_histogram'] = {}
    for _, _, _, e in kept:
        ctx.cov['kbuffersize_histogram'][e['K']] = ctx.cov['kbuffersize_histogram'].get(e['K'], 0) + 1
    ctx.cov['cases_with_rejected_push'] = sum(1 for _, p, _, _ in kept if any(tag == 2 for t in p['results'].values() for tag, _ in t))
    ctx.cov['cases_with_rejected_pop'] = sum(1 for _, p, _, _ in kept if any(tag == 4 for t in p['results'].values() for tag, _ in t))
    ctx.sample({'case': line_of(cases[1])[:200], 'impl': outs[1][:400]})
    ctx.sample({'case': line_of(cases[3])[:200], 'impl': outs[3][:400]})
    ctx.phase('correspond')
