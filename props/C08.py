"""C08 -- pool work accounting returns to zero at quiescence.   Tie: event-level lockstep (E)."""
import dv, pool_common as pc

META = {
    'category': 'proof',
    'technique': 'Coq accounting invariant over all accepted event sequences of the event-level ThreadPool model (workRemaining = queued + held/executing + '
                 'local batches + owed decrements + unplaced additions + leaked) + refutation witness by vm_compute + event-level lockstep of the real pool '
                 'with the counter read at every quiescent point',
    'text': 'C08_accounting_invariant holds for every accepted trace; at quiescence workRemaining_ equals the number of tasks that a ring / steal-ring drain of '
            'resizeLocked or ~ThreadPool ran with task() and no decrement.  C08_refuted: the real trace of "scheduleBulk(2) to the rings of a parked 4-thread pool, '
            'resize(2) before the workers pop" leaves +2 forever (known finding, replayed deterministically on every run); C08_holds_except: histories without '
            'such a drain pop end at exactly 0.',
    'note': 'Trusted: Coq kernel; moodycamel and MpmcRingBuffer atomicity at event granularity; harness/vsched_pool.h. No axioms.',
}
ASSUMPTIONS = [
    'event granularity (see C01); task bodies do not throw (an exception in executeNext skips the decrement: C05)',
    'quiescent point = every enrolled thread parked in the futex, blocked in the harness or finished, and all tiers empty in the snapshot; the counter is read '
    'with private access (same value as the guarded accessor ThreadPool::verifWorkRemaining())',
]


def describe(c, p, v):
    bad = [(s['pos'], s['wr']) for s in p['snaps'] if s['wr'] != 0 and s['central'] == 0 and not any(s['rings']) and not any(s['steals'])]
    return ('workRemaining_ != 0 at a quiescent point with all tiers empty: (event position, value) %s, model leaked=%d :: %s' % (bad[:4], v[7], pc.line_of(c)[:200]), pc.KEY_C08)


def run(ctx):
    ctx.prove(models=['Model/PoolCheck.v', 'Model/C08Check.v'])
    rows = pc.run_pool(ctx, 'C08')
    pc.report(ctx, 'C08', rows, describe)
    ctx.cov['cases_with_ring_drain_pop'] = sum(1 for _, p, _, _ in rows if any(e[1] in ('pool.drain.ring', 'pool.drain.steal') for e in p['events']))
