"""C08 -- pool work accounting returns to zero at quiescence.   Tie: event-level lockstep (E)."""
import dv, pool_common as pc

META = {
    'category': 'proof',
    'technique': 'Coq accounting invariant over all accepted event sequences of the event-level ThreadPool model (workRemaining = queued + held/executing + '
                 'local batches + owed decrements + unplaced additions) + event-level lockstep of the real pool with the counter read at every quiescent point + '
                 'hook-free public-effect regression (schedule() on an idle pool is queued, not run inline, after many resize drains)',
    'text': 'C08_accounting_invariant and C08_workRemaining_zero_at_quiescence hold for every accepted trace (any submissions, task-set use, resizes and '
            'destructor drains).  The former counterexample (ring / steal-ring drains of resizeLocked and ~ThreadPool ran task() with no decrement; fixed by '
            'commit 8892b78) is a regression Example in Coq and is replayed first on every run, together with the public-effect case.',
    'note': 'Trusted: Coq kernel; moodycamel and MpmcRingBuffer atomicity at event granularity; harness/vsched_pool.h. No axioms.',
}
ASSUMPTIONS = [
    'event granularity (see C01); task bodies do not throw (an exception in executeNext skips the decrement: C05)',
    'pools with more than kStealRingSharing = 8 threads (two steal-ring groups: sizes 9, 12, 16) are covered by a few generated cases and by the deterministic cross-ring-steal probes (pool.pop.steal site 1 must appear: coverage cases_with_cross_ring_steal)',
    'quiescent point = every enrolled thread parked in the futex, blocked in the harness or finished, and all tiers empty in the snapshot; the counter is read '
    'with private access (same value as the guarded accessor ThreadPool::verifWorkRemaining())',
]


def describe(c, p, v):
    bad = [(s['pos'], s['wr']) for s in p['snaps'] if s['wr'] != 0 and s['central'] == 0 and not any(s['rings']) and not any(s['steals'])]
    return ('workRemaining_ != 0 at a quiescent point with all tiers empty: (event position, value) %s, model workRemaining at the end=%d :: %s' % (
        bad[:4], v[7], pc.line_of(c)[:200]), None)


def public_effect(ctx, rows):
    """hook-free: on the C08-public-effect case the last task (plain schedule() on the idle 1-thread pool) must run on a pool thread"""
    for c, p, o, v in rows:
        if c.get('name') != 'C08-public-effect':
            continue
        gens = [(t, a) for t, name, a, b in p['events'] if name == 'gen']
        if p['status'] != 0 or not gens:
            ctx.broken.append('C08 public-effect case did not complete: status %d' % p['status'])
            return
        sub_tid, last = gens[-1]
        runner = [t for t, name, a, b in p['events'] if name == 'body.begin' and a == last]
        ctx.cov['public_effect'] = {'task': last, 'submitter_tid': sub_tid, 'runner_tid': runner[:1], 'tasks_drained_by_resizes': sum(
            1 for e in p['events'] if e[1] == 'pool.drain.ring' and e[3] == 0)}
        if runner and runner[0] == sub_tid:
            ctx.violation('schedule() on an idle pool ran the task inline on the caller after %d resize drains: the pending-work accounting did not return to '
                          'zero (a freshly constructed pool of that size queues it)' % ctx.cov['public_effect']['tasks_drained_by_resizes'],
                          {'case': pc.line_of(c), 'cmd': 'echo "<case>" | build/harness/h_pool-*', 'output': o[:2000]})
        return
    ctx.broken.append('C08 public-effect case missing')


def public_effect_recursive(ctx, rows):
    """hook-free, pools with two steal-ring groups (after a cross-ring steal): with exactly floor(1.5 n) + 1 tasks pending, the pool-recursive
    schedule() issued by the first task that runs must execute its task inline on that worker -- what a freshly constructed pool does;
    a counter that drifted below the true value queues it instead"""
    seen = 0
    for c, p, o, v in rows:
        if not str(c.get('name', '')).startswith('cross-steal'):
            continue
        seen += 1
        ev = p['events']
        gens = [(i, t, a) for i, (t, name, a, b) in enumerate(ev) if name == 'gen']
        if p['status'] != 0 or not gens:
            ctx.broken.append('C08 cross-steal probe did not complete: %s status %d' % (c['name'], p['status']))
            continue
        gi, gt, child = max(gens, key=lambda x: x[2])
        bb = [(i, t) for i, (t, name, a, b) in enumerate(ev) if name == 'body.begin' and a == child]
        cross = sum(1 for e in ev if e[1] == 'pool.pop.steal' and e[3] == 1)
        inline = bool(bb) and bb[0][1] == gt and not any(ev[i][0] == gt and ev[i][1].startswith('pool.pop') for i in range(gi, bb[0][0]))
        ctx.cov.setdefault('public_effect_recursive', []).append({'case': c['name'], 'cross_ring_steals': cross, 'child': child, 'generator_tid': gt,
                                                                  'runner_tid': bb[0][1] if bb else None, 'inline': inline})
        if cross == 0:
            ctx.broken.append('C08 cross-steal probe %s no longer reaches the cross-ring steal (pool.pop.steal site 1)' % c['name'])
        if not inline:
            ctx.violation('pool-recursive schedule() with floor(1.5 n)+1 = %d tasks pending was queued instead of run inline on pool(%d) after %d cross-ring steal(s): '
                          'the pending-work accounting is below the true value (a fresh pool runs it inline)' % (c['qlf'] + 1, c['n0'], cross),
                          {'case': pc.line_of(c), 'cmd': 'echo "<case>" | build/harness/h_pool-*', 'output': o[:2000]})
    if seen == 0:
        ctx.broken.append('C08 cross-steal probes missing')


def run(ctx):
    ctx.prove(models=['Model/PoolCheck.v', 'Model/C08Check.v'])
    rows = pc.run_pool(ctx, 'C08')
    pc.report(ctx, 'C08', rows, describe)
    public_effect(ctx, rows)
    public_effect_recursive(ctx, rows)
    ctx.cov['cases_with_ring_drain_pop'] = sum(1 for _, p, _, _ in rows if any(e[1] in ('pool.drain.ring', 'pool.drain.steal') for e in p['events']))
