"""C34 -- MpmcRingBuffer is an exactly-once bounded FIFO.   Tie: lockstep (L) under harness/vsched.h."""
import dv, ls_common, re

META = {
    'category': 'proof',
    'technique': 'Coq invariant over all interleavings of a step-level model (one step per atomic access of tail_/head_/slot.seq and per slot payload access; '
                 'any number of threads each pushing and popping, any buffer size) + lockstep replay of the same schedules on the real hooked MpmcRingBuffer '
                 'under a cooperative scheduler, elements lifetime-tracked',
    'text': 'Kernel-checked for every kBufferSize >= 2 (power of two or not), ANY number of threads each running an arbitrary script of try_push/try_emplace, try_pop variants and '
            'try_push_batch, and every interleaving (64-bit position wrap excluded by the guarded step: tail + 2*capacity < 2^62): the per-slot phase invariant of DESIGN 6 '
            '(head <= tail <= head + N; each slot is free / claimed / written / full / taking / taken for a position congruent to its index, its sequence number is that position or position+1 '
            'accordingly; transient phases belong to exactly one thread that is inside the matching operation); no position is popped twice and a pop returns the value claimed for its position '
            '(C34_exactly_once_at_most, C34_fifo_by_claim, C34_head_claims_in_order); at quiescence accepted = delivered + contents as multisets (C34_exactly_once_quiescent); tail - head <= N '
            '(C34_bounded); in a quiescent state a solo try_pop fails iff empty and otherwise delivers position head, a solo try_push fails iff full and otherwise publishes at position tail '
            '(C34_quiescent_pop_iff_nonempty / _push_iff_notfull, by symbolic execution of the 2/6 and 2/5 steps); the lifetime ledger never records a misuse, at quiescence exactly the slots '
            'head..tail hold live elements and the destructor leaves none (C34_lifetimes, C34_destructor_balanced).  a solo try_push_batch accepts exactly min(count, N, free space) elements (C34_quiescent_push_batch).  within one thread completed pops claim increasing positions (C34_per_thread_pop_order).  NOT proved: the tie between a '
            'producer\'s result log and its gpush entries (by construction of the step function; checked on the implementation by the judge), linearizability for C01.  The model is tied to the code by running generated scripts (2-4 threads, single/batch push and '
            'pop in all API variants) under generated schedules on the real class (hooks at every atomic access and payload access) and comparing step trace, results, final head/tail, per-slot '
            'sequence numbers, ledger state and tags, and the state after the destructor with the model evaluated in Coq; the property (no duplicate / invented element, per-consumer per-producer '
            'order, occupancy <= N along the trace, quiescent success conditions of uninterrupted operations, lifetimes) is also evaluated model-independently on the implementation\'s trace and results.',
    'payload_steps': 'every access to a slot payload is its own schedulable step in the code hooks and in the model: placement-new (data_write), move-out (data_read) and the destructor call (data_destroy); the invariant states that the payload is dead before the store that hands the slot back (C34/C35_payload_dead_before_release). The harness element type additionally checks that every construction / move-out / destruction touching a slot address happens while the thread\'s last granted hook is the matching payload site; a stray access (e.g. a destructor call moved behind the releasing store) and any constructOverLive / doubleDestroy / destroyUnborn on a slot address is a property failure. A deterministic probe family (full ring, each pop overload, producer spinning on each push variant and scheduled after every consumer step) runs on every tier.',
    'note': 'Trusted: Coq kernel; harness/vsched.h, harness/life.h; SC interleaving of atomics (the acquire/release pairing on slot.seq that makes the payload accesses race-free on weak memory is not modelled). '
            'compare_exchange_strong never fails spuriously. Position wrap (tail reaching 2^62) excluded by the guarded step. No axioms.',
}

ASSUMPTIONS = [
    'sequentially consistent interleaving of the atomic accesses (weak-memory reorderings not modelled)',
    '64-bit position wrap excluded: the theorems are about executions in which tail + 2*capacity stays below 2^62 (guarded step gstep)',
    'compare_exchange_strong has no spurious failure (it is the strong variant); 2 <= kBufferSize',
]

SITES = ['start',
         'mpmc.push.tail_load', 'mpmc.push.seq_load', 'mpmc.push.tail_cas', 'mpmc.push.data_write', 'mpmc.push.seq_store',
         'mpmc.pop.head_load', 'mpmc.pop.tail_load', 'mpmc.pop.seq_load', 'mpmc.pop.head_cas', 'mpmc.pop.data_read', 'mpmc.pop.seq_store',
         'mpmc.pushb.tail_load', 'mpmc.pushb.seq_load', 'mpmc.pushb.tail_cas', 'mpmc.pushb.data_write', 'mpmc.pushb.seq_store',
         'mpmc.pop.data_destroy']
TAGS = {'push': 1, 'pushfail': 2, 'pop': 3, 'popfail': 4, 'pushb': 5}
CONFIGS = [(2, 0), (2, 1), (3, 0), (3, 1), (4, 0), (4, 1), (5, 0), (5, 1), (6, 0), (8, 0), (9, 1), (16, 0)]
NOF = {(2, 0): 2, (2, 1): 2, (3, 0): 3, (3, 1): 4, (4, 0): 4, (4, 1): 4, (5, 0): 5, (5, 1): 8, (6, 0): 6, (8, 0): 8, (9, 1): 16, (16, 0): 16}
BUDGET = 100


def op_coq(o):
    k = o[0]
    if k in 'PCE': return '(OPush %d)' % o[1]
    if k in 'ORI': return 'OPop'
    return '(OPushBatch %s)' % dv.coq_list([str(v) for v in o[1]])


def op_txt(o):
    k = o[0]
    if k in 'PCE': return '%s%d' % (k, o[1])
    if k == 'B': return 'B' + ','.join(map(str, o[1]))
    return k


def op_steps(o, n):
    if o[0] in 'PCE': return 5
    if o[0] in 'ORI': return 7
    k = min(len(o[1]), n)
    return 0 if k == 0 else 2 + 3 * k


def gen_sched(r, n, nt):
    if r.random() < 0.35:
        return [r.randrange(0, 100) for _ in range(n)]
    out = []
    while len(out) < n:       # bursts: one candidate index is preferred for a while
        idx = r.randrange(0, nt)
        ln = r.choice([1, 1, 2, 3, 4, 6, 9, 14])
        out += [12 * r.randrange(0, 8) + idx for _ in range(ln)]     # 12 = lcm(1..4): c mod |cands| = idx mod |cands|
    return out[:n]


def gen_case(r):
    cap, rnd = r.choice(CONFIGS[:6] * 3 + CONFIGS)
    n = NOF[(cap, rnd)]
    nt = r.choice([2, 2, 3, 3, 4])
    tag = [0]

    def fresh():
        tag[0] += 1
        return tag[0]
    roles = [r.choice(['prod', 'cons', 'mixed']) for _ in range(nt)]
    if all(x == 'cons' for x in roles): roles[0] = 'prod'
    progs = [[] for _ in range(nt)]
    left = BUDGET - 6 - nt
    for _ in range(60):
        t = r.randrange(nt)
        if len(progs[t]) >= 6: continue
        x = r.random()
        pushy = roles[t] == 'prod' or (roles[t] == 'mixed' and x < 0.5)
        if pushy:
            y = r.random()
            if y < 0.7: o = (r.choice('PCE'), fresh())
            else: o = ('B', [fresh() for _ in range(r.choice([0, 1, 2, 2, 3, 3]))])
        else:
            o = (r.choice('ORI'),)
        c = op_steps(o, n)
        if c > left: break
        left -= c
        progs[t].append(o)
    return {'cap': cap, 'rnd': rnd, 'progs': progs, 'sched': gen_sched(r, BUDGET, nt)}


def probes():
    """deterministic family: ring FULL, one consumer popping with each overload, one producer spinning on a push variant.
    The producer runs r steps immediately after EVERY consumer step (lead = 0), or the consumer first runs alone up to and
    including its head CAS (lead = 5) and from then on the producer runs r >= 4 steps after every consumer step, so that a
    complete emplace (tail load, seq load, CAS, placement-new, seq store) fits between any two consecutive payload /
    sequence accesses of the pop."""
    out = []
    for cap, rnd in [(2, 0), (3, 0), (4, 0), (3, 1)]:
        n = NOF[(cap, rnd)]
        for ov in 'ORI':
            for spin, plans in (('E', ((0, 1), (0, 2), (0, 3), (5, 4), (5, 5), (5, 6), (5, 7))), ('P', ((5, 5),)), ('C', ((5, 5), (5, 6))), ('B', ((5, 5),))):
                for lead, r in plans:
                    tags = iter(range(1, 100))
                    prod = [('E', next(tags)) for _ in range(n)]
                    prod += [(spin, next(tags)) if spin != 'B' else ('B', [next(tags)]) for _ in range(16)]
                    cons = [(ov,), ('ORI'['ORI'.index(ov) - 1],)]
                    sched = [0] * (1 + 5 * n) + [1] * lead
                    while len(sched) < BUDGET:
                        sched += [1] + [0] * r
                    out.append({'cap': cap, 'rnd': rnd, 'progs': [prod, cons], 'sched': sched[:BUDGET]})
    return out


def line_of(c):
    return '%d %d %d ; %s ; S %s' % (c['cap'], c['rnd'], BUDGET, ' ; '.join(' '.join(op_txt(o) for o in p) for p in c['progs']),
                                     ' '.join(map(str, c['sched'])))


def parse_extra(ex):
    m = re.match(r'N (\d+) head (\d+) tail (\d+) slots(.*) errs (\d+) (\d+) (\d+) (\d+) (\d+) dtor (-?\d+) (\d+) (\d+) (\d+) (\d+) (\d+)$', ex.strip())
    if not m:
        return None
    g = m.groups()
    slots = [tuple(int(x) for x in t.split(':')) for t in g[3].split()]
    return {'N': int(g[0]), 'head': int(g[1]), 'tail': int(g[2]), 'slots': slots, 'errs': sum(int(x) for x in g[4:9]),
            'dtor_live': int(g[9]), 'dtor_errs': sum(int(x) for x in g[10:15])}


def term_of(c, p, e):
    nthr = len(c['progs'])
    res = dv.coq_list([ls_common.zpairs(p['results'].get(t, [])) for t in range(nthr)])
    slots = dv.coq_list(['(%d,(%d,%s))' % (a, b, dv.zlit(t)) for a, b, t in e['slots']])
    return '(MC %d %d%%nat %s %s %s %s %d %d %s %d %s %d %d)' % (
        e['N'], ls_common.fuel_of(BUDGET, p['status']), dv.coq_list([dv.coq_list([op_coq(o) for o in pr]) for pr in c['progs']]),
        dv.coq_list([str(x) for x in c['sched']]), ls_common.zpairs(p['steps']), res, e['head'], e['tail'],
        slots, e['errs'], dv.zlit(e['dtor_live']), e['dtor_errs'], p['status'])


def run(ctx):
    ctx.prove(models=['Model/C34Check.v'])
    exe = dv.build_harness('h_mpmc', ['h_mpmc.cpp'], need_lib=False)
    ctx.phase('build')
    r = ctx.rng
    # hand-made cases aimed at the case splits of the proofs: CAS races, full ring, wrap of the slot index, batch vs. single
    fixed = [
        # two producers race for the same position: the second CAS fails (fail-fast), nothing is lost
        {'cap': 2, 'rnd': 0, 'progs': [[('P', 1), ('P', 3)], [('E', 2), ('C', 4)], [('O',), ('R',), ('I',)]],
         'sched': [0, 1, 0, 1, 0, 1, 0, 1, 0, 0, 1, 1] + [0, 1, 2] * 29 + [0]},
        # fill to capacity, push rejected, drain, wrap the slot index
        {'cap': 3, 'rnd': 0, 'progs': [[('B', [1, 2, 3, 4]), ('P', 5), ('B', [6, 7])], [('O',), ('O',), ('R',), ('I',), ('O',)]],
         'sched': [0] * 20 + [1] * 14 + [0] * 12 + [1] * 54},
        # two consumers race for the same element
        {'cap': 4, 'rnd': 1, 'progs': [[('P', 1), ('P', 2)], [('O',), ('O',)], [('R',), ('I',)]],
         'sched': [0] * 11 + [1, 2] * 12 + [0, 1, 2] * 21 + [0, 0]},
        # batch reservation racing with a single push
        {'cap': 4, 'rnd': 0, 'progs': [[('B', [1, 2, 3])], [('P', 4)], [('O',), ('O',), ('O',), ('O',)]],
         'sched': [0, 0, 0, 1, 1, 1, 0, 1, 0, 1, 1, 0] + [0, 1, 2] * 29 + [0]},
    ]
    n = 110 if ctx.quick else 3000
    pr = probes()
    ctx.cov['probe_cases_full_ring_producer_waiting'] = len(pr)
    cases = fixed + pr + [gen_case(r) for _ in range(n)]
    outs = ls_common.run_cases(exe, [line_of(c) for c in cases])
    ctx.phase('run')
    terms, kept = [], []
    distinct = set()
    for c, o in zip(cases, outs):
        p = ls_common.parse_vsched(o, SITES, TAGS)
        e = parse_extra(p['extra']) if p and 'error' not in p else None
        if e is None:
            ctx.broken.append('lockstep harness output unreadable for %s: %s' % (line_of(c)[:200], (o or '')[:200]))
            continue
        terms.append(term_of(c, p, e))
        kept.append((c, p, o, e))
        if any(s in (3, 9, 14) for _, s in p['steps']):
            distinct.add(o.split('| status')[0])
    ctx.cov['evaluations'] += len(cases)
    ctx.cov['distinct_nontrivial'] += len(distinct)
    ctx.cov['rule'] = ('random scripts for 2-4 threads (producers, consumers, mixed; single/batch push and pop in all API variants; <= 6 ops per thread, <= 95 steps) x 12 (Capacity, RoundUpToPowerOfTwo) '
                       'configurations (kBufferSize 2..16) x random or bursty schedules (100 decisions), one fork per case under vsched; non-trivial = some operation reached a CAS; '
                       'distinct = distinct (trace, results, final state) strings; plus the deterministic full-ring probe family (capacity 2..4, each pop overload, producer spinning on each push variant, producer scheduled after every consumer step)')
    verdicts = ls_common.judge_parallel(ctx, 'From DV Require Import Base.Sched Model.MpmcModel Model.C34Check.', 'judge_mpmc', terms, shard_size=30)
    if verdicts is None:
        ctx.broken.append('correspondence L(C34): the model no longer evaluates')
        return
    hist = {}
    for v, (c, p, o, e) in zip(verdicts, kept):
        hist[v] = hist.get(v, 0) + 1
        if v == 2:
            ctx.violation('MpmcRingBuffer is not an exactly-once bounded FIFO on this run (duplication / loss / order / bound / quiescent success condition / lifetime check failed): %s -> %s'
                          % (line_of(c)[:200], o[:400]),
                          {'case': line_of(c), 'output': o, 'cmd': 'echo "<case>" | build/harness/h_mpmc-*'})
        elif v == 1:
            ctx.broken.append('correspondence L(C34): real trace differs from the model on ' + line_of(c)[:160] + ' -> ' + o[:300])
    ctx.cov['verdict_histogram'] = {'agree': hist.get(0, 0), 'differ_property_holds': hist.get(1, 0), 'property_fails': hist.get(2, 0)}
    ctx.cov['traces_validated_against_impl'] += hist.get(0, 0)
    ctx.cov['status_histogram'] = {k: sum(1 for _, p, _, _ in kept if p['status'] == v) for k, v in (('done', 0), ('deadlock', 1), ('budget', 2))}
    ctx.cov['kbuffersize_histogram'] = {}
    for _, _, _, e in kept:
        ctx.cov['kbuffersize_histogram'][e['N']] = ctx.cov['kbuffersize_histogram'].get(e['N'], 0) + 1
    ctx.cov['threads_histogram'] = {}
    for c, _, _, _ in kept:
        ctx.cov['threads_histogram'][len(c['progs'])] = ctx.cov['threads_histogram'].get(len(c['progs']), 0) + 1

    def failed_cas(p, cas, ok_next):
        # a CAS step whose thread does not continue with the payload access = the CAS lost a race
        st = p['steps']
        for i, (t, s) in enumerate(st):
            if s == cas:
                nx = next((s2 for t2, s2 in st[i + 1:] if t2 == t), None)
                if nx != ok_next:
                    return True
        return False
    ctx.cov['cases_with_lost_tail_cas'] = sum(1 for _, p, _, _ in kept if failed_cas(p, 3, 4) or failed_cas(p, 14, 15))
    ctx.cov['cases_with_lost_head_cas'] = sum(1 for _, p, _, _ in kept if failed_cas(p, 9, 10))
    ctx.cov['cases_with_rejected_push'] = sum(1 for _, p, _, _ in kept if any(tag == 2 for t in p['results'].values() for tag, _ in t))
    ctx.cov['cases_with_rejected_pop'] = sum(1 for _, p, _, _ in kept if any(tag == 4 for t in p['results'].values() for tag, _ in t))
    ctx.sample({'case': line_of(cases[0])[:200], 'impl': outs[0][:400]})
    ctx.sample({'case': line_of(cases[5])[:200], 'impl': outs[5][:400]})
    ctx.sample({'case': line_of(cases[-1])[:200], 'impl': outs[-1][:400]})
    ctx.phase('correspond')
