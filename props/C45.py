"""C45 -- threadId is stable per thread and unique across threads.   Tie: lockstep (L) under harness/vsched.h."""
import re
import dv, ls_common

META = {
    'category': 'proof',
    'technique': 'Coq invariant over all interleavings of a step-level model (global counter fetch_add with 64-bit wrap, thread-local cache with sentinel) + lockstep replay '
                 'of the same schedules on the real hooked function (library built from /repo) under a cooperative scheduler',
    'text': 'Kernel-checked for any number of threads n, any programs of threadId() calls and scheduling points, any schedule, any start value c0 of the counter with '
            'c0 + n <= 2^64-1: all ids returned to a thread are equal (tid_stable), ids of different threads differ (tid_injective), ids lie in [c0, c0+n), the counter '
            'counts the threads that own an id.  The excluded corner is stated (C45_sentinel_corner): the fetch_add that returns kInvalidThread = 2^64-1 leaves the cache '
            "\"invalid\", so that thread's next call returns a different id.  The model is tied to the code by running generated programs (1..64 threads) under generated "
            'schedules on the real threadId() with nextThread preset to c0 (including values next to 2^64) and comparing step trace, returned ids and the final counter with the '
            "model evaluated in Coq; stability and uniqueness are evaluated on the implementation's own results.",
    'note': 'Trusted: Coq kernel; harness/vsched.h; thread_local storage gives every std::thread its own currentThread initialised to kInvalidThread. No axioms.',
}

ASSUMPTIONS = [
    'the only shared-memory access of threadId() is the fetch_add (the thread-local cache is private to its thread and starts at kInvalidThread); fetch_add is atomic',
    'c0 + number of threads <= 2^64 - 1 (in a fresh process c0 = 0): no thread receives the sentinel 2^64-1 as its id; the complement is the stated corner',
]

SITES = ['start', 'tid.fetch_add', 'yield']
TAGS = {'tid': 1}
M64 = 1 << 64


def worst(progs):
    return sum(1 + len(p) for p in progs)


def gen_prog(r, maxlen):
    n = r.randint(1, maxlen)
    p = [r.choice('TTTY') for _ in range(n)]
    if 'T' not in p and r.random() < 0.9:
        p[r.randrange(n)] = 'T'
    return p


def gen_case(r, big=None):
    if big:
        nt = big
        progs = [['T'] if r.random() < 0.7 else ['T', 'T'] for _ in range(nt)]
    else:
        x = r.random()
        nt = r.choice([2, 2, 3, 3, 4, 4]) if x < 0.75 else (r.randint(5, 9) if x < 0.93 else r.randint(10, 20))
        progs = [gen_prog(r, 5 if nt <= 4 else (3 if nt <= 9 else 2)) for _ in range(nt)]
        while worst(progs) > 72:
            progs[max(range(nt), key=lambda j: len(progs[j]))].pop()
    y = r.random()
    if y < 0.45:
        c0 = 0
    elif y < 0.6:
        c0 = r.randrange(1, 1000)
    elif y < 0.75:
        c0 = r.choice([(1 << 31) - 1, (1 << 32) - 2, (1 << 32) - 1, (1 << 32), (1 << 63) - 2, (1 << 63) - 1, 1 << 63]) - r.randrange(0, 2)
    else:
        c0 = M64 - 1 - r.choice([0, 1, 2, nt - 1, nt, nt, nt + 1, nt + 2, r.randrange(0, nt + 3)])   # around the sentinel
    w = worst(progs)
    slack = nt + 4           # sentinel receivers fetch twice
    return {'c0': c0, 'budget': w + slack, 'progs': progs, 'sched': [r.randrange(0, 100) for _ in range(w + slack + 2)]}


def line_of(c):
    return '%d %d ; %s ; S %s' % (c['c0'], c['budget'], ' ; '.join(' '.join(p) for p in c['progs']), ' '.join(map(str, c['sched'])))


def term_of(c, p):
    nthr = len(c['progs'])
    m = re.search(r'ctr (\d+)', p['extra'])
    res = dv.coq_list([ls_common.zpairs([(t, v % M64) for t, v in p['results'].get(i, [])]) for i in range(nthr)])
    return '(TC %d %d%%nat %s %s %s %s %d %d)' % (
        c['c0'], ls_common.fuel_of(c['budget'], p['status']),
        dv.coq_list([dv.coq_list([{'T': 'OTid', 'Y': 'OYield'}[o] for o in pr]) for pr in c['progs']]),
        dv.coq_list([str(x) for x in c['sched']]),
        ls_common.zpairs(p['steps']), res, int(m.group(1)), p['status'])


def run(ctx):
    ctx.prove(models=['Model/C45Check.v'])
    exe = dv.build_harness('h_threadid', ['h_threadid.cpp'], need_lib=True)
    ctx.phase('build')
    r = ctx.rng
    # deterministic cases first: the stated corner (sentinel receiver is unstable) and the tight in-domain bound
    fixed = [{'c0': M64 - 1, 'budget': 10, 'progs': [['T', 'T']], 'sched': [0] * 12},
             {'c0': M64 - 4, 'budget': 20, 'progs': [['T', 'Y', 'T'], ['T', 'T'], ['Y', 'T']], 'sched': [2, 1, 0, 0, 1, 1, 0, 0, 0, 0] + [0] * 12}]
    n = 400 if ctx.quick else 8000
    bigs = [gen_case(r, big=b) for b in ((32, 64) if ctx.quick else (24, 32, 48, 64, 64, 64))]
    cases = fixed + bigs + [gen_case(r) for _ in range(n)]
    outs = ls_common.run_cases(exe, [line_of(c) for c in cases])
    terms, kept = [], []
    distinct = set()
    for c, o in zip(cases, outs):
        p = ls_common.parse_vsched(o, SITES, TAGS)
        if p is None or 'error' in p or not re.search(r'ctr (\d+)', p['extra']):
            ctx.broken.append('lockstep harness output unreadable for %s: %s' % (line_of(c)[:200], (o or '')[:200]))
            continue
        terms.append(term_of(c, p))
        kept.append((c, p, o))
        if sum(1 for rs in p['results'].values() if rs) >= 2:
            distinct.add(o.split('| status')[0])
    ctx.cov['evaluations'] += len(cases)
    ctx.cov['distinct_nontrivial'] += len(distinct)
    ctx.cov['rule'] = ('random programs (2-4 threads mostly, up to 20, plus fixed 32/64-thread cases; 1-5 ops each over T = threadId() / Y = scheduling point) x random schedules, '
                       'counter preset to c0 in {0, small, 2^31/2^32/2^63 boundaries, 2^64-1-k around the sentinel}; one fork per case under vsched, real library from /repo; '
                       'non-trivial = at least two threads obtained an id; distinct = distinct (trace, results) strings')
    verdicts = ls_common.judge_parallel(ctx, 'From DV Require Import Base.Sched Model.ThreadIdModel Model.C45Check.', 'judge_tid', terms)
    if verdicts is None:
        ctx.broken.append('correspondence L(C45): the model no longer evaluates')
        return
    hist = {}
    for v, (c, p, o) in zip(verdicts, kept):
        hist[v] = hist.get(v, 0) + 1
        if v == 2:
            ctx.violation('threadId unstable within a thread or shared by two threads (c0 + #threads <= 2^64-1): %s -> %s' % (line_of(c)[:200], o[:300]),
                          {'case': line_of(c), 'output': o, 'cmd': 'echo "<case>" | build/harness/h_threadid-*'})
        elif v == 1:
            ctx.broken.append('correspondence L(C45): real trace differs from the model on ' + line_of(c)[:160] + ' -> ' + o[:200])
    ctx.cov['verdict_histogram'] = {'agree': hist.get(0, 0), 'differ': hist.get(1, 0), 'property_fails_in_domain': hist.get(2, 0),
                                    'sentinel_corner_reproduced_as_modelled': hist.get(3, 0)}
    ctx.cov['traces_validated_against_impl'] += hist.get(0, 0) + hist.get(3, 0)
    ctx.cov['threads_histogram'] = {k: sum(1 for c, _, _ in kept if lo <= len(c['progs']) <= hi) for k, lo, hi in (('2-4', 2, 4), ('5-9', 5, 9), ('10-24', 10, 24), ('32-64', 25, 64), ('1', 1, 1))}
    ctx.cov['cases_near_sentinel'] = sum(1 for c, _, _ in kept if c['c0'] >= M64 - 70)
    ctx.cov['status_histogram'] = {k: sum(1 for _, p, _ in kept if p['status'] == v) for k, v in (('done', 0), ('budget', 2))}
    if verdicts and verdicts[0] != 3:
        ctx.cov['sentinel_corner_witness'] = 'unexpected verdict %r' % (verdicts[0],)
    # native contention probe (implementation only, one-sided): fresh threads collide on their first threadId() call; more rounds when the
    # correspondence above is broken (search for a concrete failing input)
    rounds = (300 if ctx.quick else 3000) * (10 if ctx.broken else 1)
    slines = ['stress %d %d' % (nt, rounds) for nt in (4, 8, 16, 16)]
    souts = ls_common.run_cases(exe, slines, jobs=2)
    sterms, skept = [], []
    for l, o in zip(slines, souts):
        m = re.match(r'stress round (-?\d+) ids((?: \d+)+)', o or '')
        if not m:
            ctx.broken.append('native contention probe output unreadable: %s -> %s' % (l, (o or '')[:200]))
            continue
        sterms.append(dv.coq_list(m.group(2).split()))
        skept.append((l, o))
    import pf_common
    sres = pf_common.coq_judge(ctx, 'stress', 'From DV Require Import Model.C45Check.', [('judge_round', sterms)])
    if sres is None:
        ctx.broken.append('native contention probe: judge_round no longer evaluates')
    else:
        for v, (l, o) in zip(sres[0], skept):
            if v == 2:
                ctx.violation('threadId: two threads making their first call concurrently obtained the same id (native run, %s): %s' % (l, o[:300]),
                              {'case': l, 'output': o, 'cmd': 'echo "%s" | build/harness/h_threadid-*   (probabilistic: contention dependent)' % l})
    ctx.cov['native_contention_probe'] = {'runs': len(slines), 'rounds_each': rounds, 'threads': [4, 8, 16, 16]}
    ctx.cov['evaluations'] += len(slines)
    ctx.sample({'case': line_of(cases[0])[:120], 'impl': outs[0][:300]})
    ctx.sample({'case': line_of(cases[1])[:160], 'impl': outs[1][:400]})
    ctx.sample({'case': line_of(cases[4])[:200], 'impl': outs[4][:300]})
    ctx.phase('correspond')
