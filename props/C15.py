"""C15 -- for_each applies the function once per element.   Tie: T (regenerated staticChunkSize) + D."""
import dv, pf_common, plan_common, re

META = {
    'category': 'proof',
    'technique': 'Coq theorems over an executable model of for_each_n (thread count, chunk offsets from the staticChunkSize regenerated from the C++ '
                 'source, runner of each chunk) + correspondence: the real for_each_n template driven by an instrumented task set (per element: '
                 'application count and runner, compared with the model inside Coq) and by the real ThreadPool; the formerly crashing corner is run '
                 'in child processes (assert build and NDEBUG build)',
    'text': 'C15_foreach_once: for every n, pool size (zero-thread pools included), maxThreads and wait mode every element of [0,n) is visited by '
            'exactly one chunk and nothing else is (offsets form a contiguous partition, reusing foreach_bounds_contiguous); C15_thread_count: the '
            'chunk count given to staticChunkSize is in [1, max(1,maxThreads)]; C15_functor_captured_at_schedule_time: every chunk applies the functor value captured when it was scheduled '
            '(never a later state of the caller\'s object); C15_nothing_deferred: every application is made by a scheduled closure '
            'or by the caller before tasks.wait().  The model describes the code after the repair of foreach-zero-threads-nowait-div0 (numThreads '
            'clamped to >= 1); the former witness is a regression Example and is replayed first on every run (assert build and NDEBUG build).',
    'note': 'Trusted: Coq kernel; tools/translate.py + clang AST (staticChunkSize); the thread-count lines and the offset formulas of for_each.h are '
            'hand-modelled in Model/ForEachModel.v and tied by the correspondence; harness/h_loops.cpp, harness/h_parfor.cpp.  Print Assumptions: closed.',
}

ASSUMPTIONS = [
    'n < 2^63; the function does not throw; the task set is not cancelled; the functor is copyable (for_each copies it into every chunk)',
    'completion ("all applications have finished when the call / wait() returns") relies on the task set contract C01/C02: scheduled closures run '
    'exactly once before taskSet.wait() returns',
    'the cumulative boundary computation used for non-random-access iterators is tied to the model by the differential run only (bidirectional and '
    'forward iterators, instrumented task set)',
    'nested use (inside a parallel_for/for_each body of the same pool) takes the serial branch, which is the FSerial path of the model',
]

IMPORTS = 'From DV Require Import Base.MachInt Base.Corr Model.ChunkModel Gen.GenChunk Model.ParForModel Model.PlanModel Model.ForEachModel Model.C15Check.'


def fe_cfg(c):
    return '(FE %d %d %s %s)' % (c['n'], c['N'], dv.zlit(c['maxT']), 'true' if c['wait'] else 'false')


def in_dom(c):
    return c['N'] == 0 and not c['wait'] and c['n'] > 0 and c['maxT'] % (1 << 32) != 0


def gen_fe(ctx, n, cats):
    r = ctx.rng
    out = []
    for N in (0, 1, 2):                         # exhaustive small corner
        for wait in (0, 1):
            for maxT in (0, 1, 2, 3):
                for nn in (0, 1, 2, 3, 5):
                    out.append({'cat': cats[(N + wait + maxT + nn) % len(cats)], 'n': nn, 'N': N, 'maxT': maxT, 'wait': wait})
    while len(out) < n:
        N = r.choice([0, 0, 1, 2, 3, 4, 7])
        maxT = r.choice([0, 1, 2, 3, N, N + 1, N + 2, (1 << 31) - 1, 1 << 31, (1 << 32) - 1, 1 << 32 if False else 5])
        nn = r.choice([0, 1, 2, N, N + 1, N + 2, r.randint(0, 40), r.randint(0, 90)])
        c = {'cat': r.choice(cats), 'n': nn, 'N': N, 'maxT': maxT, 'wait': r.choice([0, 1])}
        out.append(c)
    return out


def run(ctx):
    rep = dv.gen(['chunk'])
    if any(rep.values()):
        ctx.broken.append('translator: ' + str(rep)[:500])
    ctx.cov['translator_report'] = rep
    ctx.phase('translate')
    ctx.prove(models=['Model/C15Check.v', 'Base/Corr.v'])

    mock = plan_common.loops_harness()
    mock_nd = dv.build_harness('h_loops_nd', ['h_loops.cpp'], extra_flags=['-DNDEBUG'])
    real = pf_common.harness()          # shared with other checks (rebuilt, old binary deleted, when the tree hash differs): build it last

    # ---- regression: the witness of the repaired finding foreach-zero-threads-nowait-div0, in child processes:
    #      real pool (assert build), instrumented task set in the NDEBUG build (where the defect was a SIGFPE)
    wl = 'fe ra 5 0 3 0'
    rc1, out1 = dv.sh([real], inp=wl + '\n', timeout=60)
    rc2, out2 = dv.sh([mock_nd], inp='feplan ra 5 0 3 0 0\n', timeout=60)
    ctx.cov['regression_zero_threads_nowait'] = {'assert_build': {'rc': rc1, 'out': out1[-160:]}, 'ndebug_build': {'rc': rc2, 'out': out2[-160:]}}
    ok1 = rc1 == 0 and re.search(r'^fe 1 1 1 1 1 \|', out1, re.M)
    ok2 = rc2 == 0 and re.search(r'^feplan 5\s+1 0 1 0 1 0 1 0 1 0 \| nsched 1 nwaits 0', out2, re.M)
    if not (ok1 and ok2):
        ctx.violation('for_each_n(n=5, zero-thread pool, maxThreads=3, wait=false) does not apply the function once per element: exit status %d '
                      '(assert build: %s), %d (NDEBUG build, -8 = SIGFPE: %s)' % (rc1, out1[-120:].strip(), rc2, out2[-120:].strip()),
                      {'cmd': 'echo "%s" | build/harness/h_parfor-*' % wl, 'case': {'cat': 'ra', 'n': 5, 'N': 0, 'maxT': 3, 'wait': 0}})
    ctx.phase('witness')

    nreal = 230 if ctx.quick else 6000
    nmock = 300 if ctx.quick else 8000
    creal = gen_fe(ctx, nreal, ['ra', 'bi'])
    cmock = gen_fe(ctx, nmock, ['ra', 'bi', 'fw'])
    for c in cmock:
        c['exec'] = ctx.rng.choice([0, 1, 2, 3]) if c['N'] <= 8 else 0
    oreal = plan_common.run_lines(real, ['fe %s %d %d %d %d' % (c['cat'], c['n'], c['N'], c['maxT'], c['wait']) for c in creal])
    omock = plan_common.run_lines(mock, ['feplan %s %d %d %d %d %d' % (c['cat'], c['n'], c['N'], c['maxT'], c['wait'], c['exec']) for c in cmock])
    # the formerly crashing domain once more under NDEBUG (it was a division by zero there instead of the assertion)
    cnd = [c for c in cmock if in_dom(c)][:12]
    ond = plan_common.run_lines(mock_nd, ['feplan %s %d %d %d %d %d' % (c['cat'], c['n'], c['N'], c['maxT'], c['wait'], c['exec']) for c in cnd])
    # functor capture: wait=false, chunks kept queued (instrumented task set / real pool with every worker parked on a gate) until the caller's
    # heap functor was retargeted, poisoned and freed.  Run in their own harness processes (a use of the freed functor may crash).
    ccap = []
    for cat in ('ra', 'bi', 'fw', 'st'):
        for N, nn, maxT in ((1, 5, 3), (2, 9, 8), (3, 10, 2), (4, 23, 4), (4, 4, 9), (2, 1, 2)):
            for realp in (0, 1):
                ccap.append({'cat': cat, 'n': nn, 'N': N, 'maxT': maxT, 'wait': 0, 'real': realp, 'api': 'p' if (N + nn + realp) % 3 == 0 else 'n'})
        ccap.append({'cat': cat, 'n': 6, 'N': 0, 'maxT': 3, 'wait': 0, 'real': 0, 'api': 'n'})
    for _ in range(0 if ctx.quick else 400):
        N = ctx.rng.choice([1, 2, 3, 4, 7])
        ccap.append({'cat': ctx.rng.choice(['ra', 'bi', 'fw', 'st']), 'n': ctx.rng.randint(1, 60), 'N': N, 'maxT': ctx.rng.choice([1, 2, N, N + 1, 100]),
                     'wait': 0, 'real': ctx.rng.choice([0, 1]), 'api': ctx.rng.choice(['n', 'p'])})
    cap_lines = ['fecap %s %d %d %d %d %s' % (c['cat'], c['n'], c['N'], c['maxT'], c['real'], c['api']) for c in ccap]
    ocap = []
    for k in range(0, len(cap_lines), 16):
        ocap += plan_common.run_lines(mock, cap_lines[k:k + 16], timeout=120)
    ctx.phase('run')

    t_real, t_mock = [], []
    for c, o in zip(creal, oreal):
        crashed = o is None or not o.startswith('fe')
        counts = [] if crashed else [int(x) for x in o.split('|')[0].split()[1:]]
        t_real.append('(%s, %s, %s)' % (fe_cfg(c), 'true' if crashed else 'false', dv.coq_list([str(x) for x in counts])))
    for c, o in list(zip(cmock, omock)) + list(zip(cnd, ond)):
        crashed = o is None or not o.startswith('feplan')
        pairs, ns, nw = [], 0, 0
        if not crashed:
            left, right = o.split('|')
            v = [int(x) for x in left.split()[2:]]
            pairs = [(v[2 * i], v[2 * i + 1]) for i in range(len(v) // 2)]
            m = re.search(r'nsched (\d+) nwaits (\d+)', right)
            ns, nw = int(m.group(1)), int(m.group(2))
        t_mock.append('(%s, %s, %s, (%d, %d))' % (fe_cfg(c), 'true' if crashed else 'false',
                                                  dv.coq_list(['(%d,%s)' % (a, dv.zlit(b)) for a, b in pairs]), ns, nw))
    t_cap = []
    for c, o in zip(ccap, ocap):
        crashed = o is None or not o.startswith('fecap')
        counts, bad, decoy, ns = [], 0, 0, -1
        if not crashed:
            left, right = o.split('|')
            counts = [int(x) for x in left.split()[2:]]
            m = re.search(r'bad (\d+) decoy (\d+) nsched (\d+) parked (\d+)', right)
            bad, decoy, ns = int(m.group(1)), int(m.group(2)), (int(m.group(3)) if not c['real'] else -1)
            if c['real'] and m.group(4) != '1':
                ctx.cov['fecap_workers_not_parked'] = ctx.cov.get('fecap_workers_not_parked', 0) + 1
        t_cap.append('(%s, %s, %s, (%d, %d), %s)' % (fe_cfg(c), 'true' if crashed else 'false', dv.coq_list([str(x) for x in counts]), bad, decoy, dv.zlit(ns)))
    res = plan_common.judge(ctx, 'c15', IMPORTS, [('judge_fe15', t_real), ('judge_feplan15', t_mock), ('judge_fecap15', t_cap)])
    ctx.cov['rule'] = ('for_each_n over iterator categories {random access, bidirectional, forward} x n (0..300, around the pool size) x pool size 0..7 x '
                       'maxThreads (0, 1, around the pool size, 2^31-1, 2^31, 2^32-1) x wait (zero-thread pools with wait=false included), exhaustive for N<=2, maxThreads<=3, n in {0,1,2,3,5}; real pool '
                       '(counts) and instrumented task set (count + runner per element, closures scheduled, waits); functor capture: wait=false with all chunks held back '
                       '(closures deferred / every pool worker parked on a gate) while the caller\'s heap functor is retargeted, poisoned and freed, iterator categories '
                       'vector/list/forward_list/set, for_each_n and the iterator-pair for_each.  Non-trivial = n >= 2 and more than one '
                       'chunk possible (N + wait >= 2, maxThreads >= 2); distinct = distinct inputs')
    ctx.cov['evaluations'] += len(t_real) + len(t_mock) + len(t_cap) + 2
    if res is None:
        ctx.broken.append('correspondence D(C15): the model no longer evaluates (see coq_eval_errors)')
        return
    hist = {'agree_and_property_holds': 0, 'differs_but_property_holds': 0, 'property_fails': 0,
            'zero_thread_nowait_cases(former finding domain)': sum(1 for c in creal + cmock + cnd if in_dom(c))}
    distinct = set()
    allc = [('fe', c, o) for c, o in zip(creal, oreal)] + [('feplan', c, o) for c, o in zip(cmock, omock)] + [('feplan-ndebug', c, o) for c, o in zip(cnd, ond)]
    for (kind, c, o), v in zip(allc, res[0] + res[1]):
        if c['n'] >= 2 and c['N'] + c['wait'] >= 2 and 2 <= c['maxT'] < (1 << 31):
            distinct.add((kind,) + tuple(sorted(c.items())))
        line = '%s %s %d %d %d %d' % ('fe' if kind == 'fe' else 'feplan', c['cat'], c['n'], c['N'], c['maxT'], c['wait']) + ('' if kind == 'fe' else ' %d' % c['exec'])
        if v == 0:
            hist['agree_and_property_holds'] += 1
        elif v == 1:
            hist['differs_but_property_holds'] += 1
            ctx.broken.append('correspondence D(C15): implementation differs from the for_each model on "%s": %s' % (line, str(o)[:300]))
        else:
            hist['property_fails'] += 1
            ctx.violation('for_each_n did not apply the function exactly once to each of the first n elements (or did not return): %s -> %s' % (line, str(o)[:200]),
                          {'case': c, 'cmd': line, 'harness': 'h_parfor' if kind == 'fe' else 'h_loops' + ('_nd (-DNDEBUG)' if kind.endswith('ndebug') else ''),
                           'observed': str(o)[:300]})
    hist['functor_capture_cases'] = len(ccap)
    for c, o, line, v in zip(ccap, ocap, cap_lines, res[2]):
        if c['n'] >= 2:
            distinct.add(('fecap',) + tuple(sorted(c.items())))
        if v == 0:
            hist['agree_and_property_holds'] += 1
        elif v == 1:
            hist['differs_but_property_holds'] += 1
            ctx.broken.append('correspondence D(C15): implementation differs from the for_each model on "%s": %s' % (line, str(o)[:300]))
        else:
            hist['property_fails'] += 1
            ctx.violation('for_each (wait=false) did not apply the function the caller passed exactly once per element: the queued chunks used the '
                          'caller\'s functor object after for_each returned (it had been retargeted, poisoned and freed) or crashed: %s -> %s' % (line, str(o)[:240]),
                          {'case': c, 'cmd': 'echo "%s" | build/harness/h_loops-*' % line, 'harness': 'h_loops', 'observed': str(o)[:300]})
    ctx.cov['distinct_nontrivial'] += len(distinct)
    ctx.cov['verdict_histogram'] = hist
    ctx.cov['traces_validated_against_impl'] += hist['agree_and_property_holds']
    k = [i for i, c in enumerate(cmock) if c['n'] > 6 and c['N'] > 1 and c['maxT'] > 1][:1]
    if k:
        ctx.sample({'feplan': cmock[k[0]], 'observed(count runner ...)': str(omock[k[0]])[:200]})
    ctx.sample({'fe': creal[len(creal) // 2], 'observed': str(oreal[len(creal) // 2])[:160]})
    ctx.phase('correspond')
