"""C33 -- ConcurrentVector concurrent growth is exact.   Tie: lockstep (L) under harness/vsched.h + native stress (one-sided)."""
import re
import concurrent.futures as cf
import dv, ls_common

META = {
    'category': 'proof',
    'technique': 'Coq: arithmetic theorems about allocAsNecessaryImpl (which reservation allocates which bucket) for all strategies / first-bucket shifts / partitions, '
                 'and an inductive invariant over all interleavings of a step-level model (one step per atomic access of size_ / buffers_[k], per spin iteration, per element construction); '
                 'lockstep replay of generated schedules on the real hooked ConcurrentVector under a cooperative scheduler, judged inside Coq; native multi-thread stress as supporting evidence',
    'text': 'Kernel-checked for every reallocation strategy, every firstBucketShift >= 0, any number of threads, any programs over push_back / grow_by* / grow_to_at_least and any schedule: '
            'fetch_add hands out consecutive disjoint ranges (C33_distinct_indices); every bucket >= 1 is in the allocation list of exactly one reservation of any partition, namely the one '
            'covering its trigger index (C33_unique_allocator) and that reservation starts no later than any reservation touching the bucket (C33_allocator_precedes); hence the load-then-store '
            'of a buffer pointer never overwrites (C33_pointers_stable: buffers are write-once), every index is constructed exactly once, into an allocated buffer, with the tag of its reservation '
            '(C33_no_overwrite, C33_final_exact), the final size is the total growth (C33_final_size), a thread spinning on a null buffer always has a non-spinning thread committed to '
            'storing it (C33_wait_progress) and every call returns under every fair schedule (C33_terminates_under_fairness).  The model is tied to the code by running generated programs under generated schedules on the real class (all 3 strategies x inline/heap buffer '
            'table x both iterator kinds x first bucket of 1, 2, 4 elements) and comparing step trace, returned positions, final size, contents and allocated buckets with the model evaluated in Coq; '
            'the property itself (ranges tile [0,size), every tag exactly at the position its call was handed, addresses unchanged) is evaluated on the implementation output.',
    'note': 'Trusted: Coq kernel; harness/vsched.h; SC interleaving of the atomic accesses (acquire/release/relaxed reorderings are not modelled); malloc returning fresh memory. No axioms.',
}

ASSUMPTIONS = [
    'sequentially consistent interleaving of the hooked accesses (size_ fetch_add / load, buffers_[k] load / store); weak-memory reorderings are not modelled',
    'the non-atomic bookkeeping between two hooks (cachedPtrs_[k] and shouldDealloc_[k] writes, pointer arithmetic on the freshly allocated block) is executed atomically with the adjacent hooked access; '
    'the iterator constructor re-loading an already observed non-null, write-once buffer pointer is not a scheduling point',
    'size_ does not overflow and the vector stays below kMaxVectorSize (the code has no check; the model uses unbounded integers and an unbounded bucket table)',
    'growth only: clear / shrink_to_fit / pop_back / erase / insert concurrently with growth are outside the property (documented as not concurrency safe)',
    'grow_to_at_least is modelled as written (load, then grow_by of the difference): two concurrent calls may both grow; "total growth" counts what each call added',
    'termination of the spin-wait is proved under the hypothesis that the schedule is fair (every unfinished thread is scheduled again and again); fairness of the OS scheduler itself is assumed',
]

SITES = ['start', 'cvec.emplace_back.size.fetch_add', 'cvec.growBy.size.fetch_add', 'cvec.grow_to_at_least.size.load',
         'cvec.alloc1.next.load', 'cvec.alloc1.next.store', 'cvec.alloc1.wait.load',
         'cvec.allocN.size.load', 'cvec.allocN.assign.load', 'cvec.allocN.assign.store', 'cvec.allocN.wait.load',
         'elem.construct']
TAGS = {'r': 0}
SHIFT_OF = {256: 0, 128: 1, 64: 2}
BUDGET = 170


def op_coq(o):
    if o[0] == 'P': return '(GPush %d)' % o[1]
    if o[0] == 'G': return '(GGrow %d %d %d)' % (o[1], o[2], 0 if o[3] == 2 else 1)
    return '(GGrowTo %d %d)' % (o[1], o[2])


def op_txt(o):
    if o[0] == 'P': return 'P%d' % o[1]
    if o[0] == 'G': return 'G%d:%d:%d' % (o[1], o[2], o[3])
    return 'A%d:%d' % (o[1], o[2])


def gen_case(r, forced=None):
    strat, inl, fast, esz = forced if forced else (r.randrange(3), r.randrange(2), r.randrange(2), r.choice([256, 256, 256, 128, 64]))
    first = 1 << SHIFT_OF[esz]
    nt = r.choice([2, 2, 3, 3, 4])
    progs = []
    left = 34        # elements overall: keeps the run inside the budget
    for t in range(nt):
        p = []
        for j in range(r.randint(1, 3 if nt < 4 else 2)):
            tag = (t + 1) * 1000 + j * 100
            x = r.random()
            if x < 0.3 or left <= 0:
                p.append(('P', tag))
                left -= 1
            elif x < 0.9:
                # deltas around the bucket boundaries first, 2*first, 4*first, ... and the strategy's trigger offsets
                d = r.choice([0, 1, 1, 2, 2, 3, 3, 4, 5, 6, 7, 8, 9, first, 2 * first, 2 * first + 1, 4 * first - 1, 4 * first + 1])
                d = max(0, min(d, left if left > 0 else 1, 12))
                p.append(('G', d, tag, r.randrange(3)))
                left -= d
            else:
                n = r.choice([1, 2, 3, 4, 5, 6, 8, 9, 12])
                p.append(('A', n, tag))
                left -= n // 2
        progs.append(p)
    sched = [r.randrange(0, 12) for _ in range(BUDGET + 10)]
    # make some schedules bursty (long runs of one thread), which exercises the spin-wait and the multi-bucket stores
    if r.random() < 0.35:
        i = 0
        while i < len(sched):
            k = r.randint(2, 9)
            v = r.randrange(0, 12)
            for j in range(i, min(len(sched), i + k)):
                sched[j] = v
            i += k
    return {'strat': strat, 'inl': inl, 'fast': fast, 'esz': esz, 'budget': BUDGET, 'progs': progs, 'sched': sched}


def line_of(c):
    return '%d %d %d %d %d ; %s ; S %s' % (c['strat'], c['inl'], c['fast'], c['esz'], c['budget'],
                                          ' ; '.join(' '.join(op_txt(o) for o in p) for p in c['progs']), ' '.join(map(str, c['sched'])))


def parse_extra(extra):
    m = re.match(r'shift (\d+) size (\d+)(?: contents((?: -?\d+)*) alloc((?: \d+)*) moved (\d+) bad (\d+))?', extra)
    if not m:
        return None
    d = {'shift': int(m.group(1)), 'size': int(m.group(2)), 'contents': [], 'alloc': [], 'moved': 0, 'bad': 0}
    if m.group(5) is not None:
        d['contents'] = [int(x) for x in m.group(3).split()]
        d['alloc'] = [int(x) for x in m.group(4).split()]
        d['moved'] = int(m.group(5))
        d['bad'] = int(m.group(6))
    return d


def clist(items):
    """list literal in cons form: Coq parses `a :: b :: nil` several times faster than the recursive notation [a; b]"""
    return '(' + ' :: '.join(list(items) + ['nil']) + ')'


def term_of(c, p, e):
    nthr = len(c['progs'])
    res = clist([clist([dv.zlit(v) for _, v in p['results'].get(t, [])]) for t in range(nthr)])
    # the model consumes one decision per step: the decisions beyond the implementation's trace (+2) are never looked at when
    # the two agree, and when they disagree the model runs out of decisions (status budget) and the case is reported
    sched = c['sched'][:len(p['steps']) + 2]
    return '(GC %d %d %d%%nat %s %s %s %d %s %d %d %s %s %d %d)' % (
        c['strat'], SHIFT_OF[c['esz']], ls_common.fuel_of(c['budget'], p['status']),
        clist([clist([op_coq(o) for o in pr]) for pr in c['progs']]),
        '(dec %d%%nat 12 %d)' % (len(sched), sum(d * 12 ** i for i, d in enumerate(sched))),
        '(dec_trace %d%%nat %d)' % (len(p['steps']), sum((a * 16 + b) * 256 ** i for i, (a, b) in enumerate(p['steps']))),
        p['status'], res, e['shift'], e['size'],
        clist([dv.zlit(x) for x in e['contents']]), clist([str(x) for x in e['alloc']]), e['moved'], e['bad'])


def build_all():
    combos = [(s, i) for s in range(3) for i in range(2)]

    def one(si):
        s, i = si
        return dv.build_harness('h_cvecgrow_s%di%d' % (s, i), ['h_cvecgrow.cpp'], need_lib=False,
                                extra_flags=('-DH_STRAT=%d' % s, '-DH_INL=%d' % i))
    with cf.ThreadPoolExecutor(max_workers=6) as ex:
        exes = list(ex.map(one, combos))
    return dict(zip(combos, exes))


def run_grouped(exes, cases, lines, jobs=3):
    """run every case on the executable of its (strategy, inline) pair; returns output lines in case order"""
    outs = [None] * len(cases)
    groups = {}
    for ix, c in enumerate(cases):
        groups.setdefault((c['strat'], c['inl']), []).append(ix)

    def one(key):
        ixs = groups[key]
        return key, ls_common.run_cases(exes[key], [lines[i] for i in ixs], jobs=jobs)
    with cf.ThreadPoolExecutor(max_workers=6) as ex:
        for key, got in ex.map(one, list(groups)):
            for i, o in zip(groups[key], got):
                outs[i] = o
    return outs


def replay_cmd(c):
    return 'echo "<case>" | build/harness/h_cvecgrow_s%di%d-*' % (c['strat'], c['inl'])


def run(ctx):
    ctx.prove(models=['Model/C33Check.v'])
    exes = build_all()
    ctx.phase('build')
    r = ctx.rng
    n = 140 if ctx.quick else 3000
    combos = [(s, i, f, e) for s in range(3) for i in range(2) for f in range(2) for e in (256, 128, 64)]
    # every trait combination at least once (thorough: 10 times), then random
    cases = [gen_case(r, forced=combos[k % len(combos)]) for k in range((1 if ctx.quick else 10) * len(combos))] + [gen_case(r) for _ in range(n)]
    lines = [line_of(c) for c in cases]
    outs = run_grouped(exes, cases, lines)
    ctx.phase('run_impl')
    terms, kept, distinct = [], [], set()
    for c, l, o in zip(cases, lines, outs):
        if o is not None and o.startswith('CRASH'):
            ctx.violation('growing threads crashed the vector (%s) on %s' % (o, l[:200]), {'case': l, 'output': o, 'cmd': replay_cmd(c)})
            continue
        p = ls_common.parse_vsched(o, SITES, TAGS)
        e = parse_extra(p['extra']) if p and 'error' not in p else None
        if p is None or 'error' in p or e is None:
            ctx.broken.append('lockstep harness output unreadable for %s: %s' % (l[:200], (o or '')[:200]))
            continue
        terms.append(term_of(c, p, e))
        kept.append((c, l, p, e, o))
        tids = [t for t, _ in p['steps']]
        stores = sum(1 for _, s in p['steps'] if s in (5, 9))
        if stores >= 1 and tids != sorted(tids):
            distinct.add((c['strat'], c['inl'], c['fast'], c['esz'], tuple(p['steps'])))
    ctx.cov['evaluations'] += len(cases)
    ctx.cov['distinct_nontrivial'] += len(distinct)
    ctx.cov['rule'] = ('random programs (2-4 threads, 1-3 growth calls each: push_back / grow_by_generator / grow_by(range) / grow_by(n, v) / grow_to_at_least, deltas biased to the '
                       'bucket boundaries) x random and bursty schedules x 3 strategies x inline/heap bucket table x fast/compact iterator x first bucket of 1/2/4 elements, one fork per case '
                       'under vsched; non-trivial = the trace contains at least one buffer-pointer store and the threads really interleave; distinct = distinct (traits, trace)')
    verdicts = ls_common.judge_parallel(ctx, 'From DV Require Import Base.Sched Model.CVecGrowModel Model.C33Check.', 'judge_grow', terms, shard_size=60 if ctx.quick else 120)
    if verdicts is None:
        ctx.broken.append('correspondence L(C33): the model no longer evaluates')
        return
    hist = {}
    for v, (c, l, p, e, o) in zip(verdicts, kept):
        hist[v] = hist.get(v, 0) + 1
        if v == 2:
            ctx.violation('concurrent growth is not exact (ranges must tile [0,size), every tag exactly at the position its call returned, addresses unchanged): %s -> %s'
                          % (l[:220], o[o.find('| results'):][:400]), {'case': l, 'output': o, 'cmd': replay_cmd(c)})
        elif v == 1:
            ctx.broken.append('correspondence L(C33): real run differs from the model on ' + l[:200] + ' -> ' + o[:300])
    ctx.cov['verdict_histogram'] = {'agree': hist.get(0, 0), 'differ_property_holds': hist.get(1, 0), 'property_fails': hist.get(2, 0)}
    ctx.cov['traces_validated_against_impl'] += hist.get(0, 0)
    ctx.cov['status_histogram'] = {k: sum(1 for x in kept if x[2]['status'] == v) for k, v in (('done', 0), ('deadlock', 1), ('budget', 2))}
    ctx.cov['stores_per_run_histogram'] = {}
    ctx.cov['spin_iterations_histogram'] = {}
    for c, l, p, e, o in kept:
        st = sum(1 for _, s in p['steps'] if s in (5, 9))
        ctx.cov['stores_per_run_histogram'][st] = ctx.cov['stores_per_run_histogram'].get(st, 0) + 1
        # a wait load directly followed (for that thread) by another wait load = one unsuccessful spin iteration
        last, spins = {}, 0
        for t, s in p['steps']:
            if s in (6, 10) and last.get(t) == s:
                spins += 1
            last[t] = s
        b = min(spins, 10)
        ctx.cov['spin_iterations_histogram'][b] = ctx.cov['spin_iterations_histogram'].get(b, 0) + 1
    ctx.cov['final_size_histogram'] = {}
    for c, l, p, e, o in kept:
        b = min(e['size'] // 8 * 8, 40)
        ctx.cov['final_size_histogram'][b] = ctx.cov['final_size_histogram'].get(b, 0) + 1
    if kept:
        ctx.sample({'case': kept[0][1][:260], 'impl': kept[0][4][:500]})
        ctx.sample({'case': kept[-1][1][:260], 'impl': kept[-1][4][-400:]})
    ctx.phase('correspond')

    # native (unscheduled) multi-thread stress: one-sided supporting evidence, the checks are evaluated in the harness
    seeds = [1] if ctx.quick else list(range(1, 9))
    ncases = [{'strat': s, 'inl': i, 'fast': f, 'esz': e, 'line': 'N %d %d %d %d %d %d %d' % (s, i, f, e, 2 + (k + s + f) % 3, 250 if ctx.quick else 1500, sd * 100 + k)}
              for sd in seeds for k, (s, i, f, e) in enumerate(combos)]
    nouts = run_grouped(exes, ncases, [c['line'] for c in ncases], jobs=2)
    okn = 0
    for c, o in zip(ncases, nouts):
        if o is not None and o.startswith('native ok'):
            okn += 1
        elif o is not None and (o.startswith('native FAIL') or o.startswith('CRASH')):
            ctx.violation('native multi-thread stress: concurrent growth is not exact: %s -> %s' % (c['line'], o[:300]),
                          {'case': c['line'], 'output': o, 'cmd': replay_cmd(c)})
        else:
            ctx.broken.append('native stress output unreadable for %s: %s' % (c['line'], (o or '')[:200]))
    ctx.cov['evaluations'] += len(ncases)
    ctx.cov['native_stress'] = {'runs': len(ncases), 'ok': okn, 'note': 'real threads, no scheduler; 2-4 threads x random growth calls; same checks as the judge, evaluated in C++'}
    if nouts:
        ctx.sample({'native_case': ncases[0]['line'], 'impl': nouts[0]})
    ctx.phase('native')
