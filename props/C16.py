"""C16 -- parallel_invoke runs each functor exactly once.   Tie: D (placement/depth lockstep on observed schedule decisions)."""
import dv, plan_common

META = {
    'category': 'proof',
    'technique': 'Coq theorems over an executable model of parallel_invoke on a ConcurrentTaskSet (programs = trees of functors of arbitrary arity and '
                 'recursion shape; per schedule() call an oracle for the load test, the inline-depth test modelled) + correspondence: the real '
                 'parallel_invoke on the real ConcurrentTaskSet/ThreadPool over trees of functors; the observed inline/queue decisions are fed to '
                 'the model, which must then predict the placement and the inline depth of every functor (compared inside Coq)',
    'text': 'C16_each_functor_once: for every program tree, pool size and outcome of the load tests, the list of functor runs is exactly the list of '
            'functors (each once, none else); C16_functor_ids_distinct; C16_placement_and_depth: last functors run on the calling thread, only '
            'queued functors run elsewhere (at depth 0, pool with threads), inline runs nest at most kMaxInlineDepth=32 deep; '
            'C16_last_on_caller_before_return: in one call the n-1 scheduled functors come first and the direct call of the last functor is the final '
            'segment, on the calling thread at the caller\'s depth.',
    'note': 'Trusted: Coq kernel; the hand-written model of ConcurrentTaskSet::schedule(f, skipRecheck=true) / schedulePlaced / ThreadPool::forceEnqueue '
            '(three outcomes) tied by the correspondence only (no translator: the decision reads atomics); harness/h_loops.cpp.  Print Assumptions: closed.',
}

ASSUMPTIONS = [
    'parallel_invoke only accepts a ConcurrentTaskSet& (TaskSet cannot be passed); both TaskCost kinds are driven',
    'a packaged task queued to a pool with threads runs exactly once before tasks.wait() returns (pool/task-set contract, C01/C02); the task set is '
    'not cancelled (packageTask skips the functor of a cancelled set) and functors do not throw',
    'queued functors run at inline depth 0 (pool threads and the waiter do not execute them from inside another inline run); the harness does not '
    'call wait() from inside functors',
    'the recursion through the LAST functor is an ordinary call and is not bounded by kMaxInlineDepth (stack depth = program depth, as documented)',
]

IMPORTS = 'From DV Require Import Base.Corr Model.InvokeModel Model.C16Check.'


def tree_term(shape):
    if shape[0] in 'LRZ':
        return '(comb_%s %d)' % ({'L': 'l', 'R': 'r', 'Z': 'z'}[shape[0]], int(shape[1:]))
    return '(regular [%s])' % '; '.join('%s%%nat' % a for a in shape.split(','))


def shape_size(shape):
    if shape[0] in 'LRZ':
        return 2 * int(shape[1:]) + 1
    n, lvl = 1, 1
    for a in shape.split(','):
        lvl *= int(a)
        n += lvl
    return n


def parse_pi(line):
    if line is None or not line.startswith('pi '):
        return None
    t = [int(x) for x in line.split('|')[0].split()[1:]]
    n = t[0]
    v = t[1:]
    if len(v) != 8 * n:
        return None
    nodes = [dict(zip(('parent', 'pos', 'arity', 'cnt', 'dec', 'depth', 'pdepth', 'lastok'), v[8 * i:8 * i + 8])) for i in range(n)]
    for nd in nodes:
        nd['path'] = [] if nd['parent'] < 0 else [nd['pos']] + nodes[nd['parent']]['path']
    return nodes


def run(ctx):
    ctx.prove(models=['Model/C16Check.v', 'Base/Corr.v'])
    exe = plan_common.loops_harness()
    r = ctx.rng
    cases = []

    def add(sh, pools, costs=None, ov=(0,)):
        for N in pools:
            for cost in (costs or ('heavy' if (len(cases) % 3) else 'light',)):
                for o in ov:
                    cases.append({'N': N, 'cost': cost, 'shape': sh, 'ov': o})
    # deterministic probe family around the inline-depth cap (kMaxInlineDepth = 32): recursion through a SCHEDULED functor
    # (left comb), through the last functor (right comb) and alternating (zigzag: inline depth = levels / 2), both TaskCost
    # kinds, overloaded set (blockers parked on a latch; a zero-thread pool is overloaded by nesting alone) and not
    both = ('light', 'heavy')
    for d in (30, 31, 32, 33, 34):
        add('L%d' % d, (0, 2), both, (0, 1))
        add('R%d' % d, (2,), both, (1,))
    add('L33', (1, 4), both, (1,))
    add('L64', (0, 1, 3), both, (1,))
    for d in (62, 64, 66, 68):
        add('Z%d' % d, (0, 2), both, (1,))
    for sh in ('2,2,2,2,2', '3,3,3', '8,2'):                                   # balanced, overloaded
        add(sh, (1, 2, 4), both, (1,))
    for a in range(1, 9):                                                      # all arities, flat
        add(str(a), (0, 1, 4))
    mixed = ['2,2', '3,2', '2,8', '8,2', '3,3,3', '2,2,2,2', '5,1,3', '1,1,1,4', '2,2,2,2,2,2', '4,4,4']
    for sh in mixed:
        add(sh, (0, 2) if ctx.quick else (0, 1, 2, 4))
    add('L5', (0, 1)); add('L33', (0,)); add('L40', (0, 1)); add('L70', (0,)); add('R5', (0, 1)); add('R60', (1,)); add('R200', (0, 2))
    reps = 12 if ctx.quick else 600
    for _ in range(reps):
        depth = r.randint(1, 5)
        sh = ','.join(str(r.choice([1, 2, 2, 3, 4, 8])) for _ in range(depth))
        while shape_size(sh) > 300:
            sh = ','.join(sh.split(',')[:-1])
        cases.append({'N': r.choice([0, 1, 1, 2, 3, 4]), 'cost': r.choice(['heavy', 'light']), 'shape': sh, 'ov': r.choice([0, 0, 1])})
    if ctx.quick:
        add('2,2,2,2,2,2,2,2,2,2', (1, 4))                                     # 1024 leaves
    else:
        for sh in ('2,2,2,2,2,2,2,2,2,2,2,2,2,2', '4,4,4,4,4,4', '8,8,8,8', 'R3000', 'L3000'):
            add(sh, (0, 1, 4))
    lines = ['pi %d %s %s %d' % (c['N'], c['cost'], c['shape'], c['ov']) for c in cases]
    outs = plan_common.run_lines(exe, lines)
    ctx.phase('run')
    full, light = [], []
    dec_hist = {'inline_guarded': 0, 'pool_immediate(zero threads)': 0, 'queued': 0, 'last_direct': 0}
    maxdepth = 0
    for c, o, line in zip(cases, outs, lines):
        nodes = parse_pi(o)
        if nodes is None:
            ctx.violation('parallel_invoke harness failed on "%s": %s' % (line, str(o)[:200]), {'case': c, 'cmd': line, 'harness': 'h_loops'})
            continue
        for nd in nodes:
            k = {0: 'inline_guarded', 1: 'pool_immediate(zero threads)', 2: 'queued', 3: 'last_direct'}.get(nd['dec'])
            if k:
                dec_hist[k] += 1
            maxdepth = max(maxdepth, nd['depth'])
        if len(nodes) <= 420:
            obs = dv.coq_list(['(O16 %s %s %s %d %d)' % (dv.coq_list(['%d%%nat' % x for x in nd['path']]), dv.zlit(nd['dec']), dv.zlit(nd['depth']),
                                                         nd['cnt'], nd['lastok']) for nd in nodes])      # a functor that never ran has dec = depth = -1
            full.append((c, line, nodes, '(%s, %s, %s)' % ('true' if c['N'] == 0 else 'false', tree_term(c['shape']), obs)))
        else:
            obs = dv.coq_list(['(%d,%d,%s)' % (nd['cnt'], nd['lastok'], dv.zlit(nd['depth'])) for nd in nodes])
            light.append((c, line, nodes, '(%s, %s)' % (tree_term(c['shape']), obs)))
    res = plan_common.judge(ctx, 'c16', IMPORTS, [('judge_pi', [x[3] for x in full]), ('judge_pi_light', [x[3] for x in light])])
    if res is None:
        ctx.broken.append('correspondence D(C16): the model no longer evaluates (see coq_eval_errors)')
        return
    res, resl = res
    hist = {'agree_and_property_holds': 0, 'differs_but_property_holds': 0, 'property_fails': 0, 'large_programs_property_only': 0}
    distinct = set()
    for (c, line, nodes, _), v in list(zip(full, res)) + list(zip(light, resl)):
        if len(nodes) >= 3:
            distinct.add(line)
        if v == 0:
            hist['agree_and_property_holds'] += 1
            if len(nodes) > 420:
                hist['large_programs_property_only'] += 1
        elif v == 1:
            hist['differs_but_property_holds'] += 1
            bad = [nd for nd in nodes if nd['dec'] == 0 and nd['pdepth'] >= 32][:1]
            ctx.broken.append('correspondence D(C16): placement/depth predicted by the model differs from the implementation on "%s" %s' % (line, bad))
        else:
            badn = [nd for nd in nodes if nd['cnt'] != 1 or nd['lastok'] != 1 or nd['depth'] > 32][:3]
            ctx.violation('parallel_invoke: a functor did not run exactly once / a last functor did not run on the calling thread during the call / '
                          'inline depth above kMaxInlineDepth: "%s": %s' % (line, badn), {'case': c, 'cmd': line, 'harness': 'h_loops', 'nodes': badn})
    ctx.cov['rule'] = ('programs = trees of functors: flat arities 1..8, mixed-arity trees up to 6 levels, left combs (recursion through a scheduled functor, '
                       'exercises the inline-depth cap at 32 on a zero-thread pool) and right combs (recursion through the last functor, depth 300), '
                       'binary/4-ary trees with >= 1000 leaves, pools of 0..4 threads, both TaskCost kinds (kHeavy, kLightweight), with and without forced '
                       'overload (4N+2 blocker tasks parked on a latch while the tree is submitted); deterministic probe family: left/right/zigzag combs of '
                       'depth 30..34 (zigzag 62..68), 64 x {overloaded, not} x {kLightweight, kHeavy}.  Non-trivial = at least 3 functors; '
                       'distinct = distinct (pool, cost, shape, overload)')
    ctx.cov['evaluations'] += len(full) + len(light)
    ctx.cov['distinct_nontrivial'] += len(distinct)
    ctx.cov['verdict_histogram'] = hist
    ctx.cov['decisions_observed'] = dec_hist
    ctx.cov['cases_by_cost_and_overload'] = {'%s/%s' % (k, o): sum(1 for c in cases if c['cost'] == k and c['ov'] == o) for k in ('heavy', 'light') for o in (0, 1)}
    ctx.cov['max_inline_depth_observed'] = maxdepth
    ctx.cov['functor_runs_checked'] = sum(len(x[2]) for x in full + light)
    ctx.cov['traces_validated_against_impl'] += hist['agree_and_property_holds']
    if full:
        c, line, nodes, _ = full[len(full) // 2]
        ctx.sample({'pi': line, 'nodes(path dec depth cnt)': [(nd['path'], nd['dec'], nd['depth'], nd['cnt']) for nd in nodes[:8]]})
    ctx.phase('correspond')
