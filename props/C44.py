"""C44 -- bit-math helpers are correct for all inputs.   Tie: T (regenerated nextPow2 / log2const / alignToCacheLine) + D."""
import dv, os
from concurrent.futures import ThreadPoolExecutor

META = {
    'category': 'proof',
    'technique': 'Coq theorems (bit-level Z.testbit / arithmetical reasoning, all inputs) over definitions regenerated from the C++ source '
                 '(translator group bitmath) + differential run of the real functions against the Gallina model evaluated by vm_compute '
                 '+ native exhaustive 2^32 sweep',
    'text': 'Kernel-checked theorems about nextPow2, log2const(uint64_t), log2const(uint32_t) and alignToCacheLine as REGENERATED from /repo by '
            'tools/gen.py on every run: nextPow2(v) = 2^ceil(log2 v) = least power of two >= v for 1 <= v <= 2^63 (0 for v = 0 and v > 2^63); '
            'log2const = floor(log2 v) for every non-zero input of both widths; alignToCacheLine = least multiple of 64 >= v absent 64-bit wrap. '
            'alignedMalloc/alignedFree: for ANY word-aligned malloc result p and power-of-two alignment the result is a multiple of the alignment, '
            'the user bytes and the recovery word lie inside the block, and alignedFree recovers p (hand model of the pointer arithmetic). '
            'The real functions are run on boundary-biased 32/64-bit inputs (all single-bit, two-bit, run-of-ones, 2^k+-1 patterns, random) and '
            'compared inside Coq with the model; the executable specification (proved to accept the model on every input) is evaluated on the '
            'implementation outputs.  alignedMalloc is run with the ::malloc/::free calls intercepted so that p is chosen by the test.',
    'note': 'Trusted: Coq kernel; tools/translate.py + clang AST; harness/h_bitmath.cpp (incl. its naive reference loops used only by the native sweeps). '
            'log2/countTrailingZeros/countSetBits are compiler intrinsics / inline asm: their model IS the specification and the tie is the '
            'differential run only.  No axioms (Print Assumptions: closed).',
}

ASSUMPTIONS = [
    'domains as documented: nextPow2 1 <= v <= 2^63 (v = 0 and v > 2^63 proved to yield 0); log2/log2const/countTrailingZeros v != 0 (log2const(0) = 0 proved); '
    'alignToCacheLine val + 63 < 2^64 (otherwise proved to wrap to 0)',
    'alignedMalloc/alignedFree (reinterpret_casts, ::malloc, store/load of the recovery word) are outside the translator subset: hand model '
    '(Model/BitMathModel.v am_base/am_recovery/alignedMalloc_m/alignedFree_m over a byte-addressed little-endian memory), tied by the differential run only',
    'alignedMalloc theorem hypotheses: ::malloc returned a non-null 8-byte-aligned p (C guarantees alignof(max_align_t)); bytes + max(alignment, 8) does not wrap '
    'and the block [p, p + bytes + max(alignment, 8)) lies below 2^64; alignment is a power of two (the theorem shows (8 | p) cannot be dropped)',
    'log2 (bsrq/bsrl inline asm), countTrailingZeros (__builtin_ctzll), countSetBits (__builtin_popcountll): model = specification (Z.log2, lowest set bit, '
    'number of set bits); tie = differential only: all 2^32-1 non-zero 32-bit inputs (thorough tier; quick tier: every 4th block of 2^16 values) and '
    '10^8 (quick 2*10^6) structured/random 64-bit inputs natively against reference loops in the harness, plus the Coq-judged cases',
    'x86-64 Linux build (g++ -O1): uintptr_t = uint64_t = unsigned long, kCacheLineSize = 64 (regenerated constant, tie_kCacheLineSize)',
]

FN = {1: 'nextPow2', 2: 'log2const(uint64_t)', 3: 'log2const(uint32_t)', 4: 'log2(uint64_t)', 5: 'log2(uint32_t)', 6: 'countTrailingZeros',
      7: 'countSetBits', 8: 'alignToCacheLine'}
M64 = (1 << 64) - 1
IMPORTS = 'From DV Require Import Base.MachInt Base.Corr Model.BitMathModel Model.C44Check.'


def in_domain(fn, v):
    if fn == 1:
        return 1 <= v <= 1 << 63
    if fn in (2, 4, 6):
        return 1 <= v <= M64
    if fn in (3, 5):
        return 1 <= v < 1 << 32
    if fn == 7:
        return 0 <= v <= M64
    return 0 <= v and v + 63 <= M64


def callable_on(fn, v):
    """inputs the harness may pass (log2 / ctz are undefined for 0; 32-bit functions take 32-bit values)"""
    if fn in (3, 5) and v >= 1 << 32:
        return False
    if fn in (4, 5, 6) and v == 0:
        return False
    return True


def py_prop(fn, v, out):
    """python fallback of C44Check.bm_prop (used only when Coq cannot evaluate)"""
    if fn == 1:
        return out > 0 and out & (out - 1) == 0 and v <= out < 2 * v
    if fn in (2, 3, 4, 5):
        return 0 <= out < 200 and (1 << out) <= v < (1 << (out + 1))
    if fn == 6:
        return 0 <= out < 64 and (v >> out) & 1 == 1 and v % (1 << out) == 0
    if fn == 7:
        return out == bin(v).count('1')
    return out % 64 == 0 and v <= out < v + 64


def gen_values(ctx):
    r = ctx.rng
    q = ctx.quick
    vals = [0, 1, 2, 3, M64, M64 - 1, M64 - 62, M64 - 63, M64 - 64, (1 << 63) - 1, 1 << 63, (1 << 63) + 1, (1 << 32) - 1, 1 << 32, (1 << 32) + 1]
    for i in range(64):
        a = 1 << i
        vals += [a, a - 1, a + 1, M64 ^ a, (a + 63) & M64, (a - 64) & M64]
    pairs = [(i, j) for i in range(64) for j in range(i)]
    sel = pairs if not q else [(i, i - 1) for i in range(1, 64)] + r.sample(pairs, 120)
    for i, j in sel:
        a, b = 1 << i, 1 << j
        vals += [a | b, a - b]
        if not q or r.random() < 0.3:
            vals += [(a | b) + 1, (a | b) - 1, M64 ^ (a | b)]
    for _ in range(150 if q else 6000):
        bits = r.randint(1, 64)
        vals.append(r.getrandbits(bits))
    for _ in range(60 if q else 1000):      # around multiples of 64 and 32-bit edge
        k = r.getrandbits(r.randint(1, 58))
        vals += [64 * k + r.choice([0, 1, 63]), r.getrandbits(32) | (1 << r.randint(0, 31))]
    seen, out = set(), []
    for v in vals:
        v &= M64
        if v not in seen:
            seen.add(v)
            out.append(v)
    return out


def gen_am_cases(ctx):
    """(mode, off, bytes, align): mode 0 = test-chosen p (arena + off, off multiple of 8), 1 = real malloc, +2 = public wrappers"""
    r = ctx.rng
    q = ctx.quick
    cases = []
    sizes = [0, 1, 7, 8, 9, 63, 64, 65, 100, 4095, 4096, 65536]
    for k in range(0, 17):                       # every power-of-two alignment of the property's quantifier, p on both sides of a boundary
        a = 1 << k
        for off in sorted(set([0, 8, 16, max(8, a - 8), a, a + 8, 2 * a - 8, 3 * a + 24])):
            cases.append((r.choice([0, 2]), off, r.choice(sizes), a))
    n = 400 if q else 6000
    while len(cases) < n:
        k = r.randint(0, 16)
        a = 1 << k
        mode = r.choice([0, 0, 0, 2, 1, 3])
        if mode & 1:
            a = 1 << r.randint(0, 20)
            cases.append((mode, 0, r.choice(sizes + [r.randint(0, 1 << 18)]), a))
            continue
        base = r.randint(0, 12) * a
        off = max(0, base + 8 * r.randint(-3, 3)) if r.random() < 0.6 else 8 * r.randint(0, 1 << 17)
        cases.append((mode, off, r.choice(sizes + [r.randint(0, 1 << 16)]), a))
    for a in (3, 24, 100, 1000):                 # not powers of two: outside the domain, model agreement only
        cases.append((0, 8 * r.randint(0, 100), 10, a))
    return cases


def u_cmd(exe, fn, v):
    return 'echo "u %d %d" | %s' % (fn, v, exe)


def run(ctx):
    rep = dv.gen(['bitmath'])
    if any(rep.values()):
        ctx.broken.append('translator: ' + str(rep)[:500])
    ctx.cov['translator_report'] = rep
    ctx.phase('translate')
    ctx.prove(tie_files=['GenTie/BitMathGenTie.v'], models=['Model/C44Check.v', 'Base/Corr.v'])
    correspond(ctx)
    ctx.phase('correspond')


def correspond(ctx):
    exe = dv.build_harness('h_bitmath', ['h_bitmath.cpp'], need_lib=False)
    vals = gen_values(ctx)
    ucases = [(fn, v) for v in vals for fn in range(1, 9) if callable_on(fn, v)]
    am = gen_am_cases(ctx)
    am = sorted(am, key=lambda c: c[0] & 1)        # intercepted-malloc cases first, real-malloc cases last (separate process)
    n_am0 = sum(1 for c in am if not c[0] & 1)
    # native sweeps: every non-zero 32-bit value through all 8 functions (quick: every 4th block of 2^16 values = 2^30 values);
    # structured + random 64-bit values
    sweeps = ['sweep32 %d %d' % (dv.NCPU, 4 if ctx.quick else 1), 'sweep64 %d %d' % (ctx.seed, 2000000 if ctx.quick else 100000000)]
    lines_a = ['u %d %d' % c for c in ucases] + ['am %d %d %d %d' % c for c in am[:n_am0]] + sweeps
    lines_b = ['am %d %d %d %d' % c for c in am[n_am0:]]

    def run_lines(lines):
        """one harness process; returns outputs aligned with lines (None where the process died before answering)"""
        rc, txt = dv.sh([exe], inp='\n'.join(lines) + '\n', timeout=1500)
        got = [l for l in txt.split('\n') if l.startswith(('u ', 'am ', 'sweep', 'ERROR', 'FATAL'))]
        if rc != 0 or len(got) != len(lines):
            k = min(len(got), len(lines) - 1)
            ctx.violation('harness h_bitmath died (rc=%d) on case "%s" (after %d of %d cases): %s' % (rc, lines[k], len(got), len(lines), txt[-200:].replace('\n', ' ')),
                          {'case': lines[k], 'cmd': 'echo "%s" | %s' % (lines[k], exe)})
        return (got + [None] * len(lines))[:len(lines)]
    outs_a = run_lines(lines_a)
    outs_b = run_lines(lines_b) if lines_b else []
    outs = outs_a[:len(ucases) + n_am0] + outs_b + outs_a[len(ucases) + n_am0:]
    # ---- native sweeps
    sweep_cases = []
    for l in outs[len(ucases) + len(am):]:
        if l is None:
            continue
        t = l.split()
        ctx.cov.setdefault('native_sweeps', []).append(' '.join(t[:5]))
        ctx.cov['native_sweep_checks'] = ctx.cov.get('native_sweep_checks', 0) + int(t[2])
        for m in t[5:]:
            fn, v, o = m.split(':')
            sweep_cases.append((int(fn), int(v), int(o)))
        if int(t[4]) and not t[5:]:
            ctx.broken.append('native sweep reports mismatches without listing them: ' + l)
    # ---- unary functions
    judged = []        # (fn, v, out)
    for (fn, v), o in zip(ucases, outs):
        if o is None:
            continue
        t = o.split()
        if len(t) != 2 or t[0] != 'u' or t[1] == 'MISMATCH':
            ctx.violation('%s(%d): detail:: and public wrapper disagree / harness error: %s' % (FN[fn], v, o), {'case': [fn, v], 'cmd': u_cmd(exe, fn, v)})
            continue
        judged.append((fn, v, int(t[1])))
    n_direct = len(judged)
    judged += sweep_cases
    # ---- alignedMalloc
    am_judged = []
    for c, o in zip(am, outs[len(ucases):len(ucases) + len(am)]):
        if o is None:
            continue
        t = o.split()
        if len(t) != 6 or t[1] == 'ERROR':
            ctx.violation('alignedMalloc harness case "am %d %d %d %d" failed: %s' % (c + (o,)), {'case': list(c), 'cmd': 'echo "am %d %d %d %d" | %s' % (c + (exe,))})
            continue
        p, req, ret, recov, freed = [int(x) for x in t[1:]]
        am_judged.append((c, (p, c[2], c[3], req, ret, recov, freed)))
    # ---- judge inside Coq (sharded, shards in parallel)
    import pf_common
    shard_n = 2500 if ctx.quick else 5000      # elaborating the literal case list dominates (about 1.5 ms per case)
    jobs = []
    for i in range(0, len(judged), shard_n):
        jobs.append(('judge_bm', ['(%d,%d,%s)' % (fn, v, dv.zlit(o)) for fn, v, o in judged[i:i + shard_n]]))
    for i in range(0, len(am_judged), shard_n):
        jobs.append(('judge_am', ['(%d,%d,%d,(%d,%d,%d,%d))' % j for _, j in am_judged[i:i + shard_n]]))

    def one(k):
        fnname, terms = jobs[k]
        sub = type('C', (), {})()
        sub.work, sub.cov = ctx.work, {}
        res = pf_common.coq_judge(sub, 'cases_%d' % k, IMPORTS, [(fnname, terms)], timeout=900)
        return res, sub.cov
    with ThreadPoolExecutor(max_workers=8) as ex:
        results = list(ex.map(one, range(len(jobs))))
    verdicts_bm, verdicts_am, coq_failed = [], [], False
    for (fnname, terms), (res, cov) in zip(jobs, results):
        if res is None:
            coq_failed = True
            ctx.cov.setdefault('coq_eval_errors', []).extend(cov.get('coq_eval_errors', []))
            res = [[None] * len(terms)]
        (verdicts_bm if fnname == 'judge_bm' else verdicts_am).extend(res[0])
    if coq_failed:
        ctx.broken.append('correspondence D(C44): the model/checker no longer evaluates inside Coq (see coq_eval_errors); python fallback oracle used')
    hist = {0: 0, 1: 0, 2: 0}
    distinct = set()
    per_fn = {}
    for (fn, v, o), vd in zip(judged, verdicts_bm):
        if vd is None:
            vd = 2 if (in_domain(fn, v) and not py_prop(fn, v, o)) else 0
        hist[vd] += 1
        per_fn[FN[fn]] = per_fn.get(FN[fn], 0) + 1
        if in_domain(fn, v):
            distinct.add((fn, v))
        if vd == 2:
            ctx.violation('%s(%d) returned %d: not the mathematically specified result' % (FN[fn], v, o),
                          {'case': {'fn': fn, 'name': FN[fn], 'v': v}, 'impl': o, 'cmd': u_cmd(exe, fn, v)})
        elif vd == 1:
            ctx.broken.append('correspondence D(C44): %s(%d) returned %d, which differs from the model (%s)' % (
                FN[fn], v, o, 'specification still holds' if in_domain(fn, v) else 'input outside the documented domain'))
    for (c, j), vd in zip(am_judged, verdicts_am):
        p, bytes_, a, req, ret, recov, freed = j
        pow2 = a > 0 and a & (a - 1) == 0
        if vd is None:
            ok = ret % a == 0 and p + 8 <= ret and ret + bytes_ <= p + req and recov == p and freed == p
            vd = 2 if (pow2 and p % 8 == 0 and not ok) else 0
        hist[vd] += 1
        per_fn['alignedMalloc/alignedFree'] = per_fn.get('alignedMalloc/alignedFree', 0) + 1
        if pow2:
            distinct.add(('am', p % max(a, 8), bytes_, a, c[0]))
        cmd = 'echo "am %d %d %d %d" | %s' % (c + (exe,))
        if vd == 2:
            ctx.violation('alignedMalloc(bytes=%d, alignment=%d) with ::malloc -> %d (asked %d): returned %d, recovery word %d, alignedFree freed %d: '
                          'not aligned / outside the block / does not recover the block' % (bytes_, a, p, req, ret, recov, freed),
                          {'case': {'mode': c[0], 'off': c[1], 'bytes': bytes_, 'alignment': a}, 'impl': list(j), 'cmd': cmd})
        elif vd == 1:
            ctx.broken.append('correspondence D(C44): alignedMalloc(bytes=%d, alignment=%d), malloc -> %d: implementation (req %d, ret %d, recovery %d, freed %d) '
                              'differs from the model' % (bytes_, a, p, req, ret, recov, freed))
    ctx.cov['evaluations'] += len(judged) + len(am_judged)
    ctx.cov['distinct_nontrivial'] += len(distinct)
    ctx.cov['rule'] = ('unary: 64-bit values = all 2^k, 2^k+-1, ~2^k, 2^k+63, 2^k-64, two-bit and run-of-ones patterns (all 2016 pairs in thorough, adjacent + sample in quick), '
                       'domain edges (0, 2^63, 2^63+1, 2^64-64..2^64-1, 2^32+-1), random with random bit length; each through every function it is defined for. '
                       'alignedMalloc: every alignment 2^0..2^16 with the malloc result placed on both sides of an alignment boundary (intercepted ::malloc), '
                       'real malloc up to alignment 2^20, public wrappers.  Non-trivial = input inside the documented domain; distinct = distinct (function, input) '
                       'resp. (p mod alignment, bytes, alignment, mode).  Native sweeps (not counted in evaluations): see native_sweeps')
    ctx.cov['cases_per_function'] = per_fn
    ctx.cov['sweep_mismatches_judged'] = len(judged) - n_direct
    ctx.cov['verdict_histogram'] = {'agree_and_property_holds': hist[0], 'differs_but_property_holds_or_out_of_domain': hist[1], 'property_fails': hist[2]}
    ctx.cov['traces_validated_against_impl'] += hist[0]
    if judged:
        fn, v, o = judged[len(judged) // 2]
        ctx.sample({'fn': FN[fn], 'v': v, 'impl': o})
        fn, v, o = judged[len(judged) // 5]
        ctx.sample({'fn': FN[fn], 'v': v, 'impl': o})
    if am_judged:
        c, j = am_judged[len(am_judged) // 2]
        ctx.sample({'am(mode,off,bytes,align)': list(c), 'p,bytes,a,req,ret,recov,freed': list(j)})
