"""C11 -- memory safe and leak free, including error paths.   PARTIAL BY NATURE (roll-up + sanitizer-backed search).

(1) Properties_C11.v: for every mechanism that has a lifetime / ownership / allocator model (built and tied to the source by
    the owning property: C15 C17 C18 C26 C32-C42 C44) the memory-safety / leak-freedom reading of its theorems, as corollaries.
(2) search ladder step 5 (DESIGN section 5) as the correspondence: the EXISTING harnesses are rebuilt with
    -fsanitize=address,undefined -fno-sanitize-recover=all (library objects instrumented too) and fed the cases of their
    owners' generators (imported, not copied).  Any sanitizer report is a concrete violation with the case as replay, except
    reports inside C26's registered teardown findings (classified by C26's own judge_tt on the same case).
Everything else in the library is NOT covered by any theorem."""
import os, re, sys, time, importlib, concurrent.futures as cf
import dv, pf_common, ls_common

META = {
    'category': 'proof',
    'technique': 'Coq corollaries (memory-safety reading) of the component lifetime/ownership/allocator theorems + ASan/UBSan/LSan builds of the existing '
                 'correspondence harnesses run on their owners\' generated cases, reports judged by a Gallina judge (Model/C11Check.v)',
    'text': 'PARTIAL. Kernel-checked for the listed mechanisms only (OnceFunction, OpResult, SmallVector, ConcurrentVector sequential + growth, MPMC/SPSC ring buffers, '
            'ChaseLev index bound, ConcurrentObjectArena, SmallBufferAllocator, PoolAllocator, alignedMalloc, Future refcount, TimedTask teardown outside C26\'s finding, '
            'staticChunkSize arithmetic): no ledger error (no out-of-bounds index into a model buffer, no access to dead/uninitialised cells, no double destroy/free, nothing '
            'alive at the end) for all operation sequences / schedules of those models.  The property as stated (all programs over the whole library) is NOT proved; for the '
            'rest the check only searches for failing inputs under sanitizers.',
    'note': 'Trusted: Coq kernel; the component models and their ties (owned by C15 C17 C18 C26 C32-C42 C44); g++ 12 ASan/UBSan/LSan runtime as a bug finder (never as the verdict '
            'of absence); props/C11.py report parsing.  No axioms (Print Assumptions: closed).',
}

ASSUMPTIONS = [
    'PARTIAL: theorems cover exactly the mechanisms in coverage.mechanisms_covered_by_theorems (= Coq C11_covered_mechanisms); every other part of the library '
    '(coverage.not_covered_by_any_theorem = Coq C11_not_covered) is covered by NO theorem -- the sanitizer runs are a search for failing inputs, not evidence of absence',
    'each corollary inherits the hypotheses of its component theorem (protocol-respecting OnceFunction sequences, std::vector preconditions, ring capacity >= 2, '
    'malloc returning word-aligned disjoint blocks, moodycamel queue as a multiset specification, timesToRun < 2^32, items + chunks < 2^63, ...)',
    'TimedTask teardown is proved only on the complement of C26 finding dtor-passes-inprogress-spin-while-func-call-in-flight; the statement at full strength is refuted '
    '(C11_refuted); the matching ASan heap-use-after-free reports are registered as C11 known findings keyed C26-...',
    'sanitizer search: g++ -fsanitize=address,undefined -fno-sanitize-recover=all -fno-omit-frame-pointer on harness AND library objects; leak checking (LSan, at exit) only on '
    'harnesses that exit normally (cvec smallvec opresult oncefn arena poolalloc); fork-per-case / vsched harnesses (_exit, deliberate deadlocks) run with detect_leaks=0',
    'OnceFunction cases that overwrite an owning OnceFunction (documented leak: the class has no destructor; C39_neither_leaks) are excluded from the leak-checked run',
    'LSan cannot see a leaked element that owns no heap memory: for smallvec / cvec / opresult the harness\' own lifetime ledger (life.h: misuse flags, constructions = destructions, '
    'blocks allocated = freed at the end) is evaluated on the output of the sanitizer run as well (record kind 10)',
    'NOT judged (counted and listed in the evidence): reports whose faulting frame is inside the test scaffolding vs::Sched (harness/vsched.h: spawn() pushes to the thread table '
    'without the scheduler mutex while a started thread indexes it in point(); the slower instrumented build exposes this race of the scaffolding), and child processes that died '
    'without a usable report and did not do so again in two re-runs of the same case',
    'sanitizer builds use -O0 -g1 (compile time); the cases are the owners\' quick-tier generators (a few hundred per harness, more in the thorough tier); the runs show nothing about '
    'inputs, schedules or components that were not run',
]

SAN = ['-fsanitize=address,undefined', '-fno-sanitize-recover=all', '-fno-omit-frame-pointer']
SAN_BUILD = SAN + ['-O0', '-g1']      # -O0: the sanitizer builds compile 2-3x faster and nothing is optimised away; -g1: line tables for the reports
SUFFIX = '_c11san'
H_TIMEDTASK = 11
KEY_DTOR = 'C26-dtor-func-uaf'
KEY_FALSE = 'C26-false-return-func-uaf'

# report kind codes of Model/C11Check.v
KINDS = [
    (2, r'heap-use-after-free|stack-use-after-(?:return|scope)|use-after-poison'),
    (3, r'attempting double-free|attempting free on address which was not malloc|alloc-dealloc-mismatch|bad-free|new-delete-type-mismatch'),
    (1, r'(?:heap|stack|global|dynamic-stack)-buffer-(?:over|under)flow|container-overflow|index \S+ out of bounds'),
    (4, r'misaligned address|requires \d+ byte alignment'),
    (5, r'signed integer overflow'),
    (6, r'runtime error:'),
    (7, r'LeakSanitizer: detected memory leaks'),
    (8, r'AddressSanitizer: (?:SEGV|BUS|FPE|ILL|ABRT|stack-overflow|unknown-crash|requested allocation size|allocator is out of memory)|AddressSanitizer:DEADLYSIGNAL'),
    (8, r'\bCRASH\b|(?:^|\n)HANG'),
    (9, r'ERROR: AddressSanitizer|ERROR: LeakSanitizer|UndefinedBehaviorSanitizer'),
]
KIND_NAMES = {98: 'unreproducible child crash without report', 99: 'test-scaffolding artifact (vsched)', 10: 'harness lifetime ledger (life.h) imbalance / misuse', 0: 'none', 1: 'out-of-bounds', 2: 'use-after-free', 3: 'double/invalid free', 4: 'misaligned', 5: 'signed overflow', 6: 'other UB (UBSan)',
              7: 'leak (LSan)', 8: 'SEGV/deadly signal under ASan', 9: 'unclassified sanitizer output'}


def classify(out):
    """-> (kind, one-line summary) of the FIRST sanitizer report (or harness crash marker) in the output, (0, '') when there is none.
    kind 99 = the report is an artifact of the test scaffolding (see scaffold_artifact), not of dispenso"""
    starts = [m.start() for _, pat in KINDS for m in [re.search(pat, out)] if m]
    if not starts:
        return 0, ''
    pos = min(starts)
    head = out[pos:pos + 600]
    kind = next(k for k, pat in KINDS if re.search(pat, head))          # KINDS is in priority order
    tail = out[pos:]
    frames = re.findall(r'#\d+ 0x[0-9a-f]+ in (\S.*?) (/\S+:\d+)', tail)
    own = [f for f in frames if '/dispenso/' in f[1] and 'third-party' not in f[1]] or [f for f in frames if '/harness/' in f[1]] or frames
    first_line = tail.split('\n', 1)[0][:200]
    m = re.search(r'SUMMARY: .*', tail)
    where = '; at ' + ' <- '.join('%s %s' % (a[:60], b.replace(dv.REPO, '').replace(dv.VERIF, '')) for a, b in own[:2]) if own else ''
    if scaffold_artifact(tail):
        kind = 99
    return kind, (first_line + (' | ' + m.group(0)[:160] if m else '') + where)


def scaffold_artifact(report):
    """the faulting frame (#0 of the first stack of the report) is inside the cooperative scheduler of the test scaffolding
    (harness/vsched.h, vs::Sched::...): vs::Sched::spawn pushes to its thread table without the scheduler mutex while an
    already-started thread indexes it in vs::Sched::point -- a race of the scaffolding itself that the slower ASan build
    exposes.  vs::Sched methods touch only the scheduler's own tables (never the address a hook point passes), so such a
    report says nothing about dispenso; it is counted and listed in the evidence, not judged"""
    first_stack = report.split('\n\n', 1)[0]
    for fn in re.findall(r'#\d+ 0x[0-9a-f]+ in (\S+)', first_stack):
        if fn.startswith(('std::', '__gnu_cxx::', '__sanitizer', '__asan', '__interceptor', 'operator new', 'operator delete')):
            continue            # library frames below the faulting statement (-O0: operator[] etc. are not inlined)
        return fn.startswith('vs::Sched::')
    return False


def san_env(leaks):
    env = dict(os.environ)
    env['ASAN_OPTIONS'] = 'detect_leaks=%d:abort_on_error=0:halt_on_error=1:allocator_may_return_null=1:detect_stack_use_after_return=0:symbolize=1:handle_segv=1:handle_sigbus=1' % (1 if leaks else 0)
    env['UBSAN_OPTIONS'] = 'print_stacktrace=1:halt_on_error=1'
    env['LSAN_OPTIONS'] = 'exitcode=23'
    env['H_VERBOSE'] = '1'            # h_arena sends stderr (the sanitizer reports) to /dev/null otherwise
    return env


def run_batch(exe, lines, leaks, timeout):
    rc, out = dv.sh([exe], inp='\n'.join(lines) + '\n', timeout=timeout, env=san_env(leaks))
    kind, summary = classify(out)
    return rc, out, kind, summary


def localize(exe, lines, leaks, timeout, first, max_found=3, max_runs=40):
    """`first` = (rc, out, kind, summary) of the run over all `lines` (which reported).  Bisect down to single cases.
    -> list of (list of line indices, kind, summary, output tail).  A group whose halves are both clean is reported as a group."""
    found, runs = [], 0
    todo = [(list(range(len(lines))), first)]
    while todo and len(found) < max_found:
        idxs, res = todo.pop(0)
        rc, out, kind, summary = res
        if kind == 0:
            continue
        if len(idxs) == 1:
            found.append((idxs, kind, summary, out[-3000:]))
            continue
        if runs >= max_runs:          # budget spent: the remaining group is the replay
            found.append((idxs, kind, summary, out[-3000:]))
            break
        h = len(idxs) // 2
        halves = []
        for part in (idxs[:h], idxs[h:]):
            runs += 1
            halves.append((part, run_batch(exe, [lines[i] for i in part], leaks, timeout)))
        bad = [(p, r) for p, r in halves if r[2] != 0]
        if not bad:
            # neither half reports.  Either only the combination does (state carried across cases: deterministic, the group is the replay), or the
            # report was a one-off of a loaded machine (a deadly signal without a sanitizer stack: out of memory, watchdog).  Run the group
            # itself twice more: a report that comes back is judged, one that does not is inconclusive (kind 98: counted, listed, not judged)
            runs += 2
            again = [run_batch(exe, [lines[i] for i in idxs], leaks, timeout) for _ in range(2)]
            rep = [a for a in again if a[2] != 0]
            if rep:
                found.append((idxs, rep[0][2], rep[0][3], rep[0][1][-3000:]))
            else:
                found.append((idxs, 98, 'a group of %d cases reported once (%s) and not again in 4 further runs (halves and whole): %s'
                              % (len(idxs), KIND_NAMES.get(kind, kind), summary[:120]), out[-3000:]))
        todo = bad + todo
    return found


class _Shim:
    """what the owners' gen_cases(ctx, ...) need from a context: the shared PRNG and the tier flag"""
    def __init__(self, rng, quick=True):
        self.rng, self.quick, self.cov, self.broken = rng, quick, {}, []


# ------------------------------------------------------------------------------------------------ case generators (owners' code)
def gen_cvec(ctx, exe, n):
    C32 = importlib.import_module('C32')
    r = ctx.rng
    cases = list(C32.witnesses())
    k = 0
    while len(cases) < n:
        ts = k % 6
        k += 1
        g = C32.Gen(r, ts, {0: 40, 1: 40, 2: 40, 3: 40, 4: 40, 5: 72}[ts])
        cases.append(('rnd', ts, g.case(r.choice([3, 6, 10, 16, 24, 32, 40]), C32.ALL)))
    return [C32.case_line(ts, ops) for _, ts, ops in cases], {}


def gen_smallvec(ctx, exe, n):
    C38 = importlib.import_module('C38')
    cases = []
    while len(cases) < n:
        cases += C38.gen_cases(_Shim(ctx.rng))
    return [C38.case_line(c) for c in cases[:n]], {}


def gen_opresult(ctx, exe, n):
    C40 = importlib.import_module('C40')
    return [' '.join(C40.tok(o) for o in ops) for ops in C40.gen_cases(_Shim(ctx.rng), n)], {}


def gen_oncefn(ctx, exe, n):
    C39 = importlib.import_module('C39')
    rc, out = dv.sh([exe], inp='G\n', env=san_env(False))
    m = re.search(r'GRID (.*) # bufoff (\d+)', out)
    if not m:
        raise RuntimeError('h_oncefn grid query failed: ' + out[-300:])
    grid = [tuple(int(x) for x in t.split(':')) for t in m.group(1).split()]
    cases = C39.gen_cases(_Shim(ctx.rng), grid, max(0, n - 2 * len(grid)))
    lines, skipped = [], 0
    for ops, cl in cases:
        sim = C39.Sim()
        for o in ops:
            sim.apply(o, o[3] if o[0] in 'Kk' else None)
        if sim.lost:            # an owning OnceFunction was overwritten: the documented leak (no destructor), outside the contract
            skipped += 1
            continue
        lines.append(' '.join([C39.tok(o) for o in ops] + ([';'] + cl if cl else [])))
    return lines, {'excluded_documented_leak_cases': skipped}


def gen_arena(ctx, exe, n):
    C37 = importlib.import_module('C37')
    r = ctx.rng
    nmt = max(4, n // 20)
    lines = [C37.WITNESS + ' G 1 3 W 1 0 9 R 1 R 0', 'seq 2 N 0 2 0 C 1 0 G 1 4 R 1 R 0', 'seq 2 N 0 2 0 G 0 6 W 0 5 42 C 1 0 W 1 0 9 R 0 R 1']
    lines += [C37.gen_seq_case(r, 0.35) for _ in range(max(0, n - nmt - len(lines)))]
    for _ in range(nmt):                     # the concurrent grow_by family of props/C37.py
        m = r.choice([1, 2, 2, 4, 8, 16, 64])
        lines.append('mt %d %d %d %d %d %d' % (m, r.choice([0, 0, 1, m, 3 * m + 1]), r.choice([2, 3, 4, 8]), r.choice([3, 10, 25]),
                                              r.choice([1, 2, m, 2 * m + 1, 3]), r.randrange(1 << 30)))
    return lines, {}


def gen_poolalloc(ctx, exe, n):
    C42 = importlib.import_module('C42')
    r = ctx.rng
    cases = C42.fixed_cases()[:n // 2]
    while len(cases) < n - 4:
        cases.append(C42.gen_case(r, 70))
    lines = [C42.case_line(c) for c in cases]
    for T in (2, 3, 4, 4):                   # the multi-threaded stress family of props/C42.py, short
        cpa, cs = r.choice([1, 2, 3, 8]), r.choice([1, 8, 24, 64])
        lines.append('mt %d %d %d %d %d %d' % (T, cs, cpa * cs + r.choice([0, cs - 1]), 20000, r.choice([1, 2, 5, 16]), r.randint(1, 1 << 30)))
    return lines, {}


def gen_spsc(ctx, exe, n):
    C35 = importlib.import_module('C35')
    cases = C35.probes()[:n // 3]
    cases += [C35.gen_case(ctx.rng) for _ in range(n - len(cases))]
    return [C35.line_of(c) for c in cases], {}


def gen_mpmc(ctx, exe, n):
    C34 = importlib.import_module('C34')
    cases = C34.probes()[:n // 3]
    cases += [C34.gen_case(ctx.rng) for _ in range(n - len(cases))]
    return [C34.line_of(c) for c in cases], {}


def gen_future(ctx, exe, n):
    fc = importlib.import_module('fut_common')
    return [fc.line_of(fc.gen_case(ctx.rng, 0.1)) for _ in range(n)], {}


def gen_pipeline(ctx, exe, n):
    pc = importlib.import_module('pipe_common')
    return [pc.line_of(pc.gen_case(ctx.rng, exceptions=(i % 2 == 1))) for i in range(n)], {'with_throwing_stage': n // 2}


def gen_graph(ctx, exe, n):
    """Graph / Subgraph programs of C30 (construction, edges, executors, clear + rebuild, whole-graph moves); dispenso::Graph only: BiPropGraph
    programs run into C31's registered finding biprop-merge-stale-set, whose dangling set members are that finding's business"""
    gc = importlib.import_module('graph_common')
    lines = []
    while len(lines) < n:
        l = gc.gen_case(ctx.rng, 'exec', max_nodes=40)
        if l.startswith('N '):
            lines.append(l)
    return lines, {'with_graph_move': sum(1 for l in lines if ' M ' in l or ' m ' in l)}


def gen_timedtask(ctx, exe, n):
    C26 = importlib.import_module('C26')
    cases = [c for _, c, _, _, _ in C26.WITNESSES] + [C26.gen_case(ctx.rng) for _ in range(n - len(C26.WITNESSES))]
    return [C26.line_of(c) for c in cases], {'cases': cases}


# ------------------------------------------------------------------------------------------------ harness lifetime ledgers
# The harnesses count constructions / destructions / misuse of their lifetime-tracked payload (harness/life.h, life_sv.h).  A leaked
# element that owns no heap memory is invisible to LSan; the model-free part of the owners' executable properties (what their
# checks fall back to when the Coq judge does not evaluate) is therefore applied to the output of the sanitizer run as well.
def ledger_smallvec(line, out):
    C38 = importlib.import_module('C38')
    p = C38.parse_out(out)
    if p is None:
        return 'no result line'
    f = p['fin_raw']
    names = ['readdead', 'readmoved', 'dblctor', 'dtordead', 'assigndead', 'misaligned', 'dblfree', 'refmismatch']
    bad = [n for n, x in zip(names, f[:8]) if x]
    if f[8] != f[9]:
        bad.append('constructions %d != destructions %d' % (f[8], f[9]))
    if f[10] != f[11]:
        bad.append('blocks allocated %d != freed %d' % (f[10], f[11]))
    if f[12] or f[13]:
        bad.append('live objects %d, live blocks %d after every vector was destroyed' % (f[12], f[13]))
    return '; '.join(bad) or None


def ledger_cvec(line, out):
    C32 = importlib.import_module('C32')
    p = C32.parse_line(out)
    if p is None:
        return 'no result line'
    f, t = p['final'], p['tail']
    bad = []
    if f[0] + f[1] + f[2] != f[5]:
        bad.append('constructions %d != destructions %d' % (f[0] + f[1] + f[2], f[5]))
    if f[6] or f[7]:
        bad.append('live %d / moved-from %d elements after both vectors were destroyed' % (f[6], f[7]))
    if any(f[8:14]):
        bad.append('misuse counters e0..e4, misaligned = %s' % f[8:14])
    if t[1] != t[2]:
        bad.append('blocks allocated %d != freed %d' % (t[1], t[2]))
    return '; '.join(bad) or None


def ledger_opresult(line, out):
    """R s1|...|sn # <ledger> ; O ...: last state of the REAL OpResult side: `vars/live,ctors,dtors,errors`"""
    m = re.match(r'R (.*?) # ', out or '')
    if not m:
        return 'no result line'
    last = m.group(1).split('|')[-1]
    vs, _, cnt = last.partition('/')
    try:
        live, ctors, dtors, errors = [int(x) for x in cnt.split(',')[:4]]
    except ValueError:
        return 'unreadable ledger: ' + last[:80]
    bad = []
    if errors:
        bad.append('%d lifetime misuse errors' % errors)
    if all(v.strip('!') == 'x' for v in vs.split(',')) and (live or ctors != dtors):
        bad.append('all variables destroyed but live %d, constructions %d, destructions %d' % (live, ctors, dtors))
    return '; '.join(bad) or None


# ------------------------------------------------------------------------------------------------ harness table
# id = harness id of the san_record; owner flags = what the owning check passes to build_harness (kept, then SAN appended);
# leaks: LSan at exit (only harnesses that return from main normally); n = (quick, thorough) cases; quick: built in the quick tier
HARNESSES = [
    {'id': 2, 'name': 'h_smallvec', 'lib': False, 'flags': [], 'leaks': True, 'ledger': ledger_smallvec, 'gen': gen_smallvec, 'n': (240, 1500), 'quick': True, 'owner': 'C38'},
    {'id': 5, 'name': 'h_arena', 'lib': False, 'flags': [], 'leaks': True, 'gen': gen_arena, 'n': (200, 1500), 'quick': True, 'owner': 'C37'},
    {'id': 1, 'name': 'h_cvec', 'lib': False, 'flags': ['-Wl,--wrap=free', '-Wl,--wrap=malloc'], 'leaks': True, 'ledger': ledger_cvec, 'gen': gen_cvec, 'n': (140, 1200), 'quick': True, 'owner': 'C32'},
    {'id': 3, 'name': 'h_opresult', 'lib': False, 'flags': ['-std=c++17'], 'leaks': True, 'ledger': ledger_opresult, 'gen': gen_opresult, 'n': (300, 2000), 'quick': True, 'owner': 'C40'},
    {'id': 4, 'name': 'h_oncefn', 'lib': True, 'flags': ['-Wl,--wrap=malloc', '-Wl,--wrap=free'], 'leaks': True, 'gen': gen_oncefn, 'n': (520, 2000), 'quick': True, 'owner': 'C39'},
    {'id': 11, 'name': 'h_timedtask', 'lib': True, 'flags': [], 'leaks': False, 'gen': gen_timedtask, 'n': (100, 800), 'quick': True, 'owner': 'C26'},
    {'id': 12, 'name': 'h_graph', 'lib': True, 'flags': [], 'leaks': True, 'gen': gen_graph, 'n': (90, 600), 'quick': True, 'owner': 'C30/C31 (graph_common)'},
    {'id': 6, 'name': 'h_poolalloc', 'lib': True, 'flags': [], 'leaks': True, 'gen': gen_poolalloc, 'n': (300, 2000), 'quick': False, 'owner': 'C42'},
    {'id': 7, 'name': 'h_spsc', 'lib': False, 'flags': [], 'leaks': False, 'gen': gen_spsc, 'n': (120, 600), 'quick': False, 'owner': 'C35'},
    {'id': 8, 'name': 'h_mpmc', 'lib': False, 'flags': [], 'leaks': False, 'gen': gen_mpmc, 'n': (120, 600), 'quick': False, 'owner': 'C34'},
    {'id': 9, 'name': 'h_future', 'lib': True, 'flags': [], 'leaks': False, 'gen': gen_future, 'n': (150, 600), 'quick': False, 'owner': 'C18'},
    {'id': 10, 'name': 'h_pipeline', 'lib': True, 'flags': [], 'leaks': False, 'gen': gen_pipeline, 'n': (150, 500), 'quick': False, 'owner': 'C27-C29 (pipe_common)'},
]


def build_one(h):
    t0 = time.time()
    try:
        exe = dv.build_harness(h['name'] + SUFFIX, [h['name'] + '.cpp'], need_lib=h['lib'], extra_flags=list(h['flags']) + SAN_BUILD, lib_flags=SAN_BUILD, timeout=900)
        return h['name'], exe, None, round(time.time() - t0, 1)
    except Exception as e:          # RuntimeError from dv (compile error) or anything else: reported as a broken correspondence
        return h['name'], None, str(e)[-600:], round(time.time() - t0, 1)


def build_all(hs):
    """sanitizer builds are slow: all in parallel; the instrumented library is built once (first harness that needs it) under dv's lock"""
    with cf.ThreadPoolExecutor(max_workers=max(1, len(hs))) as ex:
        return {name: (exe, err, secs) for name, exe, err, secs in ex.map(build_one, hs)}


TERMINATOR = re.compile(r'^(steps( |$)|CRASH status |BADCAP|ERROR bad|ERROR unknown|nat |N |O )')


def split_per_case(out, ncases):
    """fork-per-case harnesses flush before every fork and the child flushes before _exit: the merged stdout/stderr stream is
    chronological, and every case ends with exactly one terminator line (the child's result line, or the parent's CRASH line).
    -> list of per-case output segments, or None when the count does not match"""
    segs, cur = [], []
    for ln in out.split('\n'):
        cur.append(ln)
        if TERMINATOR.match(ln):
            segs.append('\n'.join(cur))
            cur = []
    return segs if len(segs) == ncases else None


def run_sanitized(h, exe, lines, quick):
    """-> (records, problems): records = {line index: (kind, summary, output tail, group)} for every case that produced a report
    (all other cases are clean); problems = harness runs that ended abnormally WITHOUT a sanitizer report (timeouts etc.)"""
    nshard = 1 if len(lines) < 40 else (4 if h['leaks'] else 12)
    k = (len(lines) + nshard - 1) // nshard
    shards = [list(range(i, min(i + k, len(lines)))) for i in range(0, len(lines), k)]
    timeout = 120 if quick else 600
    records, problems = {}, []

    def one(idxs):
        return idxs, run_batch(exe, [lines[i] for i in idxs], h['leaks'], timeout)
    with cf.ThreadPoolExecutor(max_workers=nshard) as ex:
        first = list(ex.map(one, shards))
    for idxs, res in first:
        rc, out, kind, summary = res
        if kind == 0:
            if rc != 0:
                problems.append('%s: rc=%d without a sanitizer report on a shard of %d cases: %s' % (h['name'], rc, len(idxs), out[-200:].replace('\n', ' ')))
            elif h.get('ledger'):
                res_lines = [l for l in out.split('\n') if l.strip()]
                if len(res_lines) != len(idxs):
                    problems.append('%s: %d result lines for %d cases' % (h['name'], len(res_lines), len(idxs)))
                else:
                    for i, o in zip(idxs, res_lines):
                        what = h['ledger'](lines[i], o)
                        if what:
                            records[i] = (10, 'lifetime ledger of the harness: ' + what, o[-1500:], [i])
            continue
        sub = [lines[i] for i in idxs]
        if h['leaks']:
            # one process for the whole shard, the first report ends it: bisect down to (at most 3) single cases
            for grp, kd, sm, tail in localize(exe, sub, True, timeout, res):
                records[idxs[grp[0]]] = (kd, sm, tail, [idxs[g] for g in grp])
            continue
        # fork per case: attribute by position in the chronological output; fall back to running the shard's cases one by one
        segs = split_per_case(out, len(sub))
        if segs is None:
            def single(j):
                return run_batch(exe, [sub[j]], False, timeout)[1]
            with cf.ThreadPoolExecutor(max_workers=8) as ex:
                segs = list(ex.map(single, range(len(sub))))
        hit = False
        for j, seg in enumerate(segs):
            kd, sm = classify(seg)
            if kd == 8 and not re.search(r'#0 0x[0-9a-f]+', seg):
                # the child died WITHOUT a usable sanitizer report (parent's CRASH line only, or a SEGV report cut off before its
                # first stack frame: the child's watchdog alarm fired while ASan was symbolizing on a loaded machine).  Deterministic -> a
                # crash of the real code (violation); not reproducible in two more runs of the same case -> inconclusive (kind 98:
                # counted, listed, not judged)
                again = [run_batch(exe, [sub[j]], False, timeout) for _ in range(2)]
                rep = [a for a in again if a[2] != 0]
                if rep:
                    kd, sm, seg = rep[0][2], rep[0][3], rep[0][1]
                else:
                    kd, sm = 98, 'child process died without a sanitizer report, not reproducible: ' + sm[:80]
            if kd != 0:
                hit = True
                records[idxs[j]] = (kd, sm, seg[-3000:], [idxs[j]])
        if not hit:     # schedule / timing dependent: did not reproduce case by case
            records[idxs[0]] = (kind, summary, out[-3000:], list(idxs))
    return records, problems


# ------------------------------------------------------------------------------------------------ C26's domains for TimedTask reports
def c26_masks(ctx, cases):
    """C26's own judge (Coq judge_tt, on the trace of the UNINSTRUMENTED build of the same case) -> owner mask per case
    (Model/C11Check.v): 1 = start after cancel, 2 = closure access after ~TimedTask returned, 4 = start after a false return,
    8 = C26's model run saw a closure use-after-free not after the destructor's return (wrapper's func = {}), 16 = empty func called"""
    C26 = importlib.import_module('C26')
    exe = dv.build_harness('h_timedtask', ['h_timedtask.cpp'])
    outs = ls_common.run_cases(exe, [C26.line_of(c) for c in cases], jobs=min(8, max(1, len(cases))))
    terms, slots = [], []
    for i, (c, o) in enumerate(zip(cases, outs)):
        p = C26.parse(o)
        if p is None or 'error' in p:
            continue
        terms.append(C26.term_of(c, p))
        slots.append(i)
    masks = [0] * len(cases)
    verdicts = ls_common.judge_parallel(ctx, C26.IMPORTS, 'judge_tt', terms, shard_size=60) if terms else []
    if verdicts is None:
        ctx.broken.append('C26 judge_tt no longer evaluates: TimedTask reports cannot be classified (all treated as outside the known domains)')
        return masks
    for i, v in zip(slots, verdicts):
        base, obs = v % 100, v // 100
        masks[i] = (base - 8 if base >= 8 else 0) + (8 if obs & 2 else 0) + (16 if obs & 1 else 0)
    return masks


def coq_names(ctx):
    """the two lists as Coq has them (C11_covered_mechanisms = map mech_name all_mechanisms, C11_not_covered = not_covered_names)"""
    rc, out = dv.coq_eval(ctx.work, 'names', 'From Coq Require Import List String.\nFrom DV Require Import Model.C11Check.\nOpen Scope string_scope.\nOpen Scope list_scope.\n'
                          'Eval vm_compute in (map mech_name all_mechanisms).\nEval vm_compute in not_covered_names.\n', 300)
    vals = dv.eval_results(out) if rc == 0 else []
    if len(vals) != 2:
        return None, None
    return [re.findall(r'"((?:[^"]|"")*)"', v) for v in vals]


def judge_records(ctx, recs):
    """distinct (harness id, kind, mask) records -> {record: verdict} by Model/C11Check.judge_san evaluated inside Coq"""
    recs = sorted(set(recs))
    body = ('From Coq Require Import ZArith List.\nImport ListNotations.\nFrom DV Require Import Model.C11Check.\nLocal Open Scope Z_scope.\n'
            'Eval vm_compute in (map judge_san %s).\n' % dv.coq_list(['(%d, %d, %d)' % r for r in recs]))
    rc, out = dv.coq_eval(ctx.work, 'judge_san', body, 300)
    vals = dv.eval_results(out) if rc == 0 else []
    if not vals:
        ctx.cov.setdefault('coq_eval_errors', []).append(out[-800:])
        return None
    return dict(zip(recs, dv.parse_zlist(vals[0])))


def sanitizer_job(ctx, h, rng, quick, replay_line=None):
    """build + generate + run one harness; runs in a worker thread (own PRNG derived from ctx.rng in table order)"""
    name, exe, err, bsecs = build_one(h)
    if exe is None:
        return {'h': h, 'error': 'sanitizer build failed: ' + err, 'build_s': bsecs}
    t0 = time.time()
    shim = _Shim(rng, True)
    if replay_line is not None:
        lines, meta = [replay_line], {}
        if h['id'] == H_TIMEDTASK and replay_line.startswith('ls '):      # 'ls n npool budget ; R rets ; U prog ; S sched' -> C26's case dict
            q = [x.strip() for x in replay_line.split(';')]
            hd = q[0].split()
            meta = {'cases': [{'n': int(hd[1]), 'npool': int(hd[2]), 'budget': int(hd[3]), 'rets': [int(x) for x in q[1].split()[1:]],
                               'prog': q[2].split()[1:], 'sched': [int(x) for x in q[3].split()[1:]]}]}
    else:
        lines, meta = h['gen'](shim, exe, h['n'][0 if quick else 1])
    records, problems = run_sanitized(h, exe, lines, quick)
    if problems:                           # e.g. a time-out on a loaded machine: once more before complaining
        records, problems = run_sanitized(h, exe, lines, quick)
    if h['id'] == H_TIMEDTASK and 'cases' in meta:      # C26's domains for the use-after-free reports
        tt = [i for i, r in sorted(records.items()) if r[0] == 2 and len(r[3]) == 1]
        meta['masks'] = dict(zip(tt, c26_masks(ctx, [meta['cases'][i] for i in tt]))) if tt else {}
    return {'h': h, 'exe': exe, 'lines': lines, 'meta': meta, 'records': records, 'problems': problems, 'build_s': bsecs, 'run_s': round(time.time() - t0, 1)}


def run(ctx):
    import json, random
    quick = ctx.quick
    hs = [h for h in HARNESSES if h['quick'] or not quick]
    replay = None
    if ctx.replay:
        replay = json.load(open(ctx.replay))
        hs = [h for h in HARNESSES if h['name'] == replay.get('harness')] or hs
    rngs = {h['name']: random.Random(ctx.rng.getrandbits(64)) for h in HARNESSES}      # table order: independent of the tier's selection
    pool = cf.ThreadPoolExecutor(max_workers=len(hs))
    futs = [pool.submit(sanitizer_job, ctx, h, rngs[h['name']], quick, replay.get('case') if replay else None) for h in hs]

    # ---- (1) theorems (meanwhile the sanitizer builds and runs proceed in the worker threads)
    # C11_chunk_arith_no_ub is stated over the staticChunkSize REGENERATED from the source (the cvec / bitmath groups are regenerated by
    # C32 / C44).  The translator run is slow (clang AST of the parallel_for headers): it runs beside the proof build, and the build
    # is repeated when it changed the generated file.
    import hashlib
    genfile = os.path.join(dv.COQ, 'Gen', 'GenChunk.v')

    def gen_hash():
        return hashlib.sha1(open(genfile, 'rb').read()).hexdigest() if os.path.exists(genfile) else None
    side = cf.ThreadPoolExecutor(max_workers=2)
    before = gen_hash()
    gen_f = side.submit(dv.gen, ['chunk'])
    names_f = side.submit(coq_names, ctx)
    ctx.prove(models=['Model/C11Check.v'])
    rep = gen_f.result()
    if any(rep.values()):
        ctx.broken.append('translator: ' + str(rep)[:500])
    ctx.cov['translator_report'] = rep
    ctx.phase('translate')
    if gen_hash() != before:
        ctx.cov['reproved_after_regeneration'] = True
        ctx.broken = [b for b in ctx.broken if not b.startswith('proof obligations no longer check')]
        ctx.prove(models=['Model/C11Check.v'])
    covered, notcov = names_f.result()
    side.shutdown()
    ctx.cov['mechanisms_covered_by_theorems'] = covered if covered is not None else '(Properties_C11 does not load: see broken obligations)'
    ctx.cov['not_covered_by_any_theorem'] = notcov if notcov is not None else '(Properties_C11 does not load)'
    ctx.cov['statement_of_coverage'] = ('PARTIAL: the theorems cover exactly the mechanisms listed in mechanisms_covered_by_theorems, each under the hypotheses of its '
                                        'component theorem.  EVERYTHING ELSE in the library is NOT covered by any theorem; the sanitizer runs below are a search for '
                                        'failing inputs on the cases of the listed harnesses only and show nothing about inputs, schedules or components not run.')
    ctx.phase('names')

    # ---- (2) sanitizer search
    jobs = [f.result() for f in futs]
    pool.shutdown()
    ctx.phase('sanitizer_runs')
    table, flat = {}, []            # flat: (job, line index, kind, summary, tail, group)
    for j in jobs:
        h = j['h']
        if 'error' in j:
            ctx.broken.append('%s: %s' % (h['name'], j['error']))
            table[h['name']] = {'error': j['error'][-300:]}
            continue
        for p in j['problems']:
            ctx.broken.append('sanitizer run inconclusive: ' + p)
        kinds = {}
        for i, (kd, sm, tail, grp) in j['records'].items():
            kinds[KIND_NAMES.get(kd, str(kd))] = kinds.get(KIND_NAMES.get(kd, str(kd)), 0) + 1
            flat.append((j, i, kd, sm, tail, grp))
        table[h['name']] = {'owner': h['owner'], 'cases_run': len(j['lines']), 'flags': ' '.join(SAN), 'library_instrumented': h['lib'],
                            'leak_checked_at_exit': h['leaks'], 'cases_with_report': len(j['records']), 'reports_by_kind': kinds,
                            'build_s': j['build_s'], 'run_s': j['run_s']}
        table[h['name']].update({k: v for k, v in j['meta'].items() if k not in ('cases', 'masks')})
        ctx.cov['evaluations'] += len(j['lines'])
        ctx.cov['distinct_nontrivial'] += len(set(j['lines']))
    ctx.cov['sanitizer_harnesses'] = table
    ctx.cov['harnesses_not_run_in_this_tier'] = [h['name'] for h in HARNESSES if h not in hs]
    ctx.cov['rule'] = ('cases = the owning checks\' generators (imported from props/C32 C38 C40 C39 C37 C42 C35 C34 fut_common pipe_common C26) incl. their regression witnesses; '
                       'every case is run on the harness built with ' + ' '.join(SAN) + ' (library objects too); non-trivial = every case (each drives the real container / '
                       'allocator / lifetime protocol through at least one operation); distinct = distinct case lines')

    masks = {}              # TimedTask reports: C26's domains (computed in the worker)
    for j in jobs:
        if 'error' not in j and j['h']['id'] == H_TIMEDTASK:
            masks = j['meta'].get('masks', {})
    recs = [(j['h']['id'], kd, masks.get(i, 0) if j['h']['id'] == H_TIMEDTASK else 0) for j, i, kd, _, _, _ in flat if kd not in (98, 99)]
    clean_recs = [(h['id'], 0, 0) for h in hs]
    verdict = judge_records(ctx, recs + clean_recs)
    if verdict is None:
        ctx.broken.append('Model/C11Check.judge_san no longer evaluates')
        verdict = {r: (0 if r[1] == 0 else 2) for r in recs + clean_recs}
    if any(verdict[r] != 0 for r in clean_recs):
        ctx.broken.append('judge_san does not judge a report-free case clean')
    hist, artifacts = {'clean': ctx.cov['evaluations'] - len(flat), 'violation': 0, 'known_C26_dtor': 0, 'known_C26_false_return': 0, 'scaffolding_artifact': 0}, []
    for j, i, kd, sm, tail, grp in flat:
        h = j['h']
        ln = j['lines'][i] if len(grp) == 1 else '\n'.join(j['lines'][g] for g in grp)
        cmd = "ASAN_OPTIONS='%s' UBSAN_OPTIONS=print_stacktrace=1 %s <<< '%s'" % (san_env(h['leaks'])['ASAN_OPTIONS'], j['exe'], ln if len(grp) == 1 else '<the case lines, one per line>')
        if kd == 98:
            hist['unreproducible_child_crash_without_report'] = hist.get('unreproducible_child_crash_without_report', 0) + 1
            if len(artifacts) < 6:
                artifacts.append({'harness': h['name'], 'case': ln[:200], 'report': sm[:300]})
            continue
        if kd == 99:
            hist['scaffolding_artifact'] += 1
            if len(artifacts) < 4:
                artifacts.append({'harness': h['name'], 'case': ln[:200], 'report': sm[:300]})
            continue
        v = verdict[(h['id'], kd, masks.get(i, 0) if h['id'] == H_TIMEDTASK else 0)]
        rep = {'harness': h['name'], 'case': ln, 'cmd': cmd, 'sanitizer_report': tail[-2500:], 'kind': KIND_NAMES.get(kd)}
        text = '%s under ASan/UBSan%s: %s: %s -- case: %s' % (h['name'], '/LSan' if h['leaks'] else '', KIND_NAMES.get(kd), sm[:400], ln[:300])
        if v in (4, 5):
            hist['known_C26_dtor' if v == 4 else 'known_C26_false_return'] += 1
            rep['finding_key'] = KEY_DTOR if v == 4 else KEY_FALSE
            rep['c26_mask'] = masks.get(i, 0)
            ctx.violation(text, rep)
        elif v != 0:
            hist['violation'] += 1
            ctx.violation(text, rep)
    ctx.cov['verdict_histogram'] = hist
    ctx.cov['scaffolding_artifacts (race inside harness/vsched.h spawn/point exposed by the slower build; not judged)'] = artifacts
    for j in jobs[:3]:
        if 'lines' in j and j['lines']:
            ctx.sample({'harness': j['h']['name'], 'case': j['lines'][len(j['lines']) // 2][:200], 'report': 'none' if (len(j['lines']) // 2) not in j['records'] else j['records'][len(j['lines']) // 2][1][:200]})
    ctx.cov['traces_validated_against_impl'] = 0
    ctx.phase('judge')
